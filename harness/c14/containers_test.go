package c14

// Container builders: every container of the property is described by a
// JSON-serialisable cspec and built (memoised, pure function of the cspec)
// into bytes + a decoder + the secret that opens it.

import (
	"crypto/ecdsa"
	"crypto/elliptic"
	"crypto/rsa"
	"crypto/x509"
	"crypto/x509/pkix"
	"encoding/asn1"
	"encoding/json"
	"encoding/pem"
	"errors"
	"fmt"
	"math/big"
	"sort"
	"sync"
	"time"

	"github.com/emmansun/gmsm/cfca"
	"github.com/emmansun/gmsm/ecdh"
	"github.com/emmansun/gmsm/pkcs"
	"github.com/emmansun/gmsm/pkcs8"
	"github.com/emmansun/gmsm/sm2"
	"github.com/emmansun/gmsm/sm9"
	"github.com/emmansun/gmsm/smx509"
	"github.com/emmansun/gmsm/verifhook"
	"verif/harness/gen"
	"verif/harness/ref"
)

// ---------------------------------------------------------------- registries
// Transcribed from /repo/pkcs/cipher_sm4.go, cipher_aes.go, cipher_des.go
// (RegisterCipher calls + the CFCA-only pkcs.SM4), kdf_pbkdf2.go, kdf_scrypt.go,
// pkcs5_pbes1.go, pkcs5_pbes2.go and smx509/pem_decrypt.go.

type cipherEntry struct {
	name string
	c    pkcs.Cipher
	mode string // ecb, cbc, gcm
}

var pbes2Ciphers = []cipherEntry{
	{"SM4-ECB", pkcs.SM4ECB, "ecb"},
	{"SM4-CBC", pkcs.SM4CBC, "cbc"},
	{"SM4-GCM", pkcs.SM4GCM, "gcm"},
	{"SM4-CBC(oid-sm4)", pkcs.SM4, "cbc"},
	{"AES128-CBC", pkcs.AES128CBC, "cbc"},
	{"AES128-GCM", pkcs.AES128GCM, "gcm"},
	{"AES192-CBC", pkcs.AES192CBC, "cbc"},
	{"AES192-GCM", pkcs.AES192GCM, "gcm"},
	{"AES256-CBC", pkcs.AES256CBC, "cbc"},
	{"AES256-GCM", pkcs.AES256GCM, "gcm"},
	{"DES-CBC", pkcs.DESCBC, "cbc"},
	{"3DES-CBC", pkcs.TripleDESCBC, "cbc"},
}

func cipherByName(name string) cipherEntry {
	for _, e := range pbes2Ciphers {
		if e.name == name {
			return e
		}
	}
	panic("c14 harness: unknown cipher " + name)
}

var kdfNames = []string{
	"PBKDF2-SHA1", "PBKDF2-SHA224", "PBKDF2-SHA256", "PBKDF2-SHA384", "PBKDF2-SHA512",
	"PBKDF2-SHA512_224", "PBKDF2-SHA512_256", "PBKDF2-SM3", "SMPBKDF2-SM3", "scrypt",
}

var pbkdf2Hashes = map[string]pkcs.Hash{
	"PBKDF2-SHA1": pkcs.SHA1, "PBKDF2-SHA224": pkcs.SHA224, "PBKDF2-SHA256": pkcs.SHA256, "PBKDF2-SHA384": pkcs.SHA384,
	"PBKDF2-SHA512": pkcs.SHA512, "PBKDF2-SHA512_224": pkcs.SHA512_224, "PBKDF2-SHA512_256": pkcs.SHA512_256, "PBKDF2-SM3": pkcs.SM3,
}

// scryptN maps the case's small "iteration" parameter to a power-of-two cost.
func scryptN(iter int) int {
	n := 2
	for n < iter {
		n *= 2
	}
	return n
}

// kdfOpts builds the KDF options; literal selects the exported struct
// literal (zero OID fields) instead of the constructor where both exist.
func kdfOpts(name string, salt, iter int, literal bool) pkcs.KDFOpts {
	switch name {
	case "scrypt":
		if literal {
			return pkcs.ScryptOpts{SaltSize: salt, CostParameter: scryptN(iter), BlockSize: 1 + iter%2, ParallelizationParameter: 1}
		}
		return pkcs.NewScryptOpts(salt, scryptN(iter), 1+iter%2, 1)
	case "SMPBKDF2-SM3":
		return pkcs.NewSMPBKDF2Opts(salt, iter)
	}
	hh, ok := pbkdf2Hashes[name]
	if !ok {
		panic("c14 harness: unknown KDF " + name)
	}
	if literal {
		return pkcs.PBKDF2Opts{SaltSize: salt, IterationCount: iter, HMACHash: hh}
	}
	return pkcs.NewPBKDF2Opts(hh, salt, iter)
}

var pbes1Names = []string{"pbeWithMD2AndDES-CBC", "pbeWithMD2AndRC2-CBC", "pbeWithMD5AndDES-CBC", "pbeWithMD5AndRC2-CBC", "pbeWithSHA1AndDES-CBC", "pbeWithSHA1AndRC2-CBC"}

func newPBES1(name string, seed uint64, salt, iter int) *pkcs.PBES1 {
	r := gen.NewDetReader(seed)
	switch name {
	case "pbeWithMD2AndDES-CBC":
		return must(pkcs.NewPbeWithMD2AndDESCBC(r, salt, iter))
	case "pbeWithMD2AndRC2-CBC":
		return must(pkcs.NewPbeWithMD2AndRC2CBC(r, salt, iter))
	case "pbeWithMD5AndDES-CBC":
		return must(pkcs.NewPbeWithMD5AndDESCBC(r, salt, iter))
	case "pbeWithMD5AndRC2-CBC":
		return must(pkcs.NewPbeWithMD5AndRC2CBC(r, salt, iter))
	case "pbeWithSHA1AndDES-CBC":
		return must(pkcs.NewPbeWithSHA1AndDESCBC(r, salt, iter))
	case "pbeWithSHA1AndRC2-CBC":
		return must(pkcs.NewPbeWithSHA1AndRC2CBC(r, salt, iter))
	}
	panic("c14 harness: unknown PBES1 scheme " + name)
}

var pemCiphers = []struct {
	name string
	alg  smx509.PEMCipher
}{
	{"PEM-DES", smx509.PEMCipherDES}, {"PEM-3DES", smx509.PEMCipher3DES}, {"PEM-AES128", smx509.PEMCipherAES128},
	{"PEM-AES192", smx509.PEMCipherAES192}, {"PEM-AES256", smx509.PEMCipherAES256}, {"PEM-SM4", smx509.PEMCipherSM4},
}

// ---------------------------------------------------------------- cspec

// cspec describes one container instance.
type cspec struct {
	Key    string // key class
	KSeed  uint64
	Cont   string // container family
	Cipher string `json:",omitempty"` // PBES2 cipher / PBES1 scheme / PEM cipher
	KDF    string `json:",omitempty"` // PBES2 KDF
	Pw     int    // password class
	Salt   int    `json:",omitempty"`
	Iter   int    `json:",omitempty"`
	ESeed  uint64 // randomness used by the encoder
}

func (s cspec) id() string { b, _ := json.Marshal(s); return string(b) }

// label is the class label of the container: family plus cipher x KDF.
func (s cspec) label() string {
	switch s.Cont {
	case "p8-pbes2", "p8-pbes2lit", "p8-smpbes", "p8-pbes2raw":
		return s.Cont + ":" + s.Cipher + "/" + s.KDF
	case "p8-pbes1", "pem":
		return s.Cont + ":" + s.Cipher
	}
	return s.Cont
}

const (
	authNone    = iota // no secret at all (plain encodings)
	authUnauth         // encrypted without integrity protection (CBC/ECB)
	authGCM            // authenticated encryption
	authKeyPair        // decrypted private key is compared with a carried public key
)

type built struct {
	blob   []byte
	ki     *keyInfo
	orig   any // the object the container encodes (private key, or public key for public containers)
	secret []byte
	auth   int
	dec    func(blob, secret []byte) (any, error)
	cert   *smx509.Certificate // cfca
	symKey []byte              // env: the SM4 key the encoder drew

	// decoding through ONE parsed object that is reused over several attempts
	// (decode-repeat histories): prep parses the caller-owned bytes once,
	// decP decodes from that object, snap serialises everything of the object
	// the decoder must leave untouched. Defaults: the byte slice itself.
	prep func(blob []byte) any
	decP func(obj any, secret []byte) (any, error)
	snap func(obj any) []byte
}

var (
	builtMu    sync.Mutex
	builtCache = map[string]*built{}
)

// build is a pure function of the cspec (memoised).
func build(s cspec) *built {
	id := s.id()
	builtMu.Lock()
	b, ok := builtCache[id]
	builtMu.Unlock()
	if ok {
		return b
	}
	b = buildContainer(s)
	builtMu.Lock()
	if len(builtCache) > 512 {
		builtCache = map[string]*built{}
	}
	builtCache[id] = b
	builtMu.Unlock()
	return b
}

// errUnsupported marks (key, container) pairs outside the API's domain.
var errUnsupported = errors.New("unsupported combination")

func applicable(keyClass, cont string) bool {
	isSM2 := hasPrefix(keyClass, "sm2-")
	isECDH := hasPrefix(keyClass, "ecdh-")
	isECDSA := isNISTClass(keyClass)
	isRSA := hasPrefix(keyClass, "rsa-")
	isSM9Pub := keyClass == "sm9-signmasterpub" || keyClass == "sm9-encmasterpub"
	isSM9Priv := hasPrefix(keyClass, "sm9-") && !isSM9Pub
	isSM9Master := hasPrefix(keyClass, "sm9-signmaster") || hasPrefix(keyClass, "sm9-encmaster")
	switch cont {
	case "p8-smx509", "p8-nilpw", "p8-convert", "p8-typed", "p8-convert-pw", "p8-pbes2", "p8-pbes2lit", "p8-pbes2raw", "p8-smpbes", "p8-pbes1", "pem":
		return isSM2 || isECDH || isECDSA || isRSA || isSM9Priv
	case "sec1", "sec1-typed":
		return isSM2 || isECDSA
	case "pkix":
		return isSM2 || isECDH || isECDSA || isRSA
	case "pkcs1":
		return isRSA
	case "raw-priv", "raw-pub":
		return isSM2 || isECDH
	case "env", "cfca":
		return isSM2
	case "sm9-asn1":
		return isSM9Priv || isSM9Pub
	case "sm9-raw", "sm9-casn1", "sm9-craw", "sm9-craw-asn1":
		return (isSM9Priv || isSM9Pub) && !(isSM9Master && !isSM9Pub)
	}
	return false
}

func parseP8(blob, secret []byte) (any, error) {
	k, _, err := pkcs8.ParsePrivateKey(blob, secret)
	return k, err
}

func buildContainer(s cspec) *built {
	ki := makeKey(s.Key, s.KSeed)
	b := &built{ki: ki, orig: ki.priv}
	pw := password(s.Pw, s.ESeed)
	switch s.Cont {
	case "p8-smx509":
		b.blob = must(smx509.MarshalPKCS8PrivateKey(ki.priv))
		b.dec = func(blob, _ []byte) (any, error) { return smx509.ParsePKCS8PrivateKey(blob) }
	case "p8-nilpw":
		b.blob = must(pkcs8.MarshalPrivateKey(ki.priv, nil, nil))
		b.dec = func(blob, _ []byte) (any, error) { return parseP8(blob, nil) }
	case "p8-convert":
		b.blob = must(pkcs8.ConvertPrivateKeyToPKCS8(ki.priv))
		b.dec = func(blob, _ []byte) (any, error) { return pkcs8.ParsePKCS8PrivateKey(blob) }
	case "p8-typed":
		b.blob = must(pkcs8.ConvertPrivateKeyToPKCS8(ki.priv))
		b.dec = func(blob, _ []byte) (any, error) {
			switch ki.priv.(type) {
			case *rsa.PrivateKey:
				return nilIfErr(pkcs8.ParsePKCS8PrivateKeyRSA(blob))
			case *ecdsa.PrivateKey:
				return nilIfErr(pkcs8.ParsePKCS8PrivateKeyECDSA(blob))
			case *sm2.PrivateKey, *ecdh.PrivateKey:
				return nilIfErr(pkcs8.ParsePKCS8PrivateKeySM2(blob))
			case *sm9.SignMasterPrivateKey:
				return nilIfErr(pkcs8.ParseSM9SignMasterPrivateKey(blob))
			case *sm9.SignPrivateKey:
				return nilIfErr(pkcs8.ParseSM9SignPrivateKey(blob))
			case *sm9.EncryptMasterPrivateKey:
				return nilIfErr(pkcs8.ParseSM9EncryptMasterPrivateKey(blob))
			case *sm9.EncryptPrivateKey:
				return nilIfErr(pkcs8.ParseSM9EncryptPrivateKey(blob))
			}
			return nil, errUnsupported
		}
	case "p8-convert-pw":
		// DefaultOpts: AES-256-CBC, PBKDF2-HMAC-SHA256, 2048 iterations
		withRand(s.ESeed, func() { b.blob = must(pkcs8.ConvertPrivateKeyToPKCS8(ki.priv, pw)) })
		b.secret, b.auth = pw, authUnauth
		b.dec = func(blob, secret []byte) (any, error) { return pkcs8.ParsePKCS8PrivateKey(blob, secret) }
	case "p8-pbes2", "p8-pbes2lit", "p8-smpbes", "p8-pbes2raw":
		ce := cipherByName(s.Cipher)
		var enc pkcs.PBESEncrypter
		switch s.Cont {
		case "p8-pbes2", "p8-pbes2raw":
			enc = pkcs.NewPBESEncrypter(ce.c, kdfOpts(s.KDF, s.Salt, s.Iter, false))
		case "p8-pbes2lit":
			enc = &pkcs8.Opts{Cipher: ce.c, KDFOpts: kdfOpts(s.KDF, s.Salt, s.Iter, true)}
		default:
			if s.Cipher != "SM4-CBC" {
				panic("c14 harness: SM-PBES is SM4-CBC only")
			}
			if s.KDF == "SMPBKDF2-SM3" {
				enc = pkcs.NewSMPBESEncrypter(s.Salt, s.Iter)
			} else {
				enc = pkcs.NewSMPBESEncrypterWithKDF(kdfOpts(s.KDF, s.Salt, s.Iter, false))
			}
		}
		if s.Cont == "p8-pbes2raw" {
			// the empty password cannot go through pkcs8.MarshalPrivateKey (it
			// means "do not encrypt" there); the encrypter itself admits it
			b.blob = encryptP8With(enc, gen.NewDetReader(s.ESeed), pw, must(smx509.MarshalPKCS8PrivateKey(ki.priv)))
		} else {
			withRand(s.ESeed, func() { b.blob = must(pkcs8.MarshalPrivateKey(ki.priv, pw, enc)) })
		}
		b.secret, b.auth = pw, authUnauth
		if ce.mode == "gcm" {
			b.auth = authGCM
		}
		b.dec = parseP8
		if s.Cont == "p8-pbes2raw" {
			b.dec = parseP8Raw
		}
	case "p8-pbes1":
		enc := newPBES1(s.Cipher, gen.Mix(s.ESeed, 0x5a17), s.Salt, s.Iter)
		withRand(s.ESeed, func() { b.blob = must(pkcs8.MarshalPrivateKey(ki.priv, pw, enc)) })
		b.secret, b.auth = pw, authUnauth
		b.dec = parseP8
	case "sec1", "sec1-typed":
		switch k := ki.priv.(type) {
		case *sm2.PrivateKey:
			b.blob = must(smx509.MarshalSM2PrivateKey(k))
			b.dec = func(blob, _ []byte) (any, error) { return smx509.ParseSM2PrivateKey(blob) }
		case *ecdsa.PrivateKey:
			b.blob = must(smx509.MarshalECPrivateKey(k))
			b.dec = func(blob, _ []byte) (any, error) { return smx509.ParseECPrivateKey(blob) }
		}
		if s.Cont == "sec1-typed" {
			b.dec = func(blob, _ []byte) (any, error) { return smx509.ParseTypedECPrivateKey(blob) }
		}
	case "raw-priv":
		// fixed-width big-endian scalar: ecdh.PrivateKey.Bytes / the documented input of sm2.NewPrivateKey
		switch k := ki.priv.(type) {
		case *sm2.PrivateKey:
			b.blob = k.D.FillBytes(make([]byte, 32))
			b.dec = func(blob, _ []byte) (any, error) { return nilIfErr(sm2.NewPrivateKey(blob)) }
		case *ecdh.PrivateKey:
			b.blob = k.Bytes()
			b.dec = func(blob, _ []byte) (any, error) { return nilIfErr(ecdh.P256().NewPrivateKey(blob)) }
		}
	case "raw-pub":
		b.orig = ki.pub
		switch k := ki.priv.(type) {
		case *sm2.PrivateKey:
			b.blob = elliptic.Marshal(k.Curve, k.X, k.Y)
			b.dec = func(blob, _ []byte) (any, error) { return nilIfErr(sm2.NewPublicKey(blob)) }
		case *ecdh.PrivateKey:
			b.blob = k.PublicKey().Bytes()
			b.dec = func(blob, _ []byte) (any, error) { return nilIfErr(ecdh.P256().NewPublicKey(blob)) }
		}
	case "pkcs1":
		b.blob = smx509.MarshalPKCS1PrivateKey(ki.priv.(*rsa.PrivateKey))
		b.dec = func(blob, _ []byte) (any, error) { return smx509.ParsePKCS1PrivateKey(blob) }
	case "pkix":
		b.orig = ki.pub
		b.blob = must(smx509.MarshalPKIXPublicKey(ki.pub))
		b.dec = func(blob, _ []byte) (any, error) { return smx509.ParsePKIXPublicKey(blob) }
	case "pem":
		var alg smx509.PEMCipher
		for _, pc := range pemCiphers {
			if pc.name == s.Cipher {
				alg = pc.alg
			}
		}
		inner, typ, parse := pemInner(ki)
		blk := must(smx509.EncryptPEMBlock(gen.NewDetReader(s.ESeed), typ, inner, pw, alg))
		b.blob = pem.EncodeToMemory(blk)
		b.secret, b.auth = pw, authUnauth
		b.dec = func(blob, secret []byte) (any, error) {
			blk, _ := pem.Decode(blob)
			if blk == nil {
				return nil, errors.New("c14: not a PEM block")
			}
			if !smx509.IsEncryptedPEMBlock(blk) {
				return nil, errors.New("c14: PEM block is not encrypted")
			}
			der, err := smx509.DecryptPEMBlock(blk, secret)
			if err != nil {
				return nil, err
			}
			return parse(der)
		}
		b.prep = func(blob []byte) any {
			blk, _ := pem.Decode(blob)
			if blk == nil {
				panic("c14 harness: generated PEM does not parse")
			}
			return blk
		}
		b.decP = func(obj any, secret []byte) (any, error) {
			der, err := smx509.DecryptPEMBlock(obj.(*pem.Block), secret)
			if err != nil {
				return nil, err
			}
			return parse(der)
		}
		b.snap = func(obj any) []byte { return snapPEM(obj.(*pem.Block)) }
	case "env":
		wrap := makeKey("sm2-uniform", gen.Mix(s.ESeed, 0x3e7))
		wk := wrap.priv.(*sm2.PrivateKey)
		b.blob = must(sm2.MarshalEnvelopedPrivateKey(gen.NewDetReader(s.ESeed), &wk.PublicKey, ki.priv.(*sm2.PrivateKey)))
		b.symKey = gen.Fill(s.ESeed, 16) // first multi-byte read of the encoder
		b.secret, b.auth = ref.Bytes32(wrap.d), authKeyPair
		b.dec = decEnveloped
		b.prep = func(blob []byte) any { return &envObj{blob: blob, keys: map[string]*sm2.PrivateKey{}} }
		b.decP = func(obj any, secret []byte) (any, error) {
			o := obj.(*envObj)
			w := o.keys[string(secret)]
			if w == nil {
				var err error
				if w, err = sm2.NewPrivateKey(secret); err != nil {
					return nil, fmt.Errorf("c14 harness: bad unwrapping scalar: %v", err)
				}
				o.keys[string(secret)] = w
			}
			return nilIfErr(sm2.ParseEnvelopedPrivateKey(w, o.blob))
		}
		b.snap = func(obj any) []byte { return append([]byte{}, obj.(*envObj).blob...) }
	case "cfca":
		b.cert = certFor(&ki.priv.(*sm2.PrivateKey).PublicKey, s.KSeed)
		b.blob = must(cfca.MarshalSM2(pw, ki.priv.(*sm2.PrivateKey), b.cert))
		b.secret, b.auth = pw, authKeyPair
		b.dec = func(blob, secret []byte) (any, error) {
			k, cert, err := cfca.ParseSM2(secret, blob)
			if err == nil && cert == nil {
				return k, errors.New("c14: cfca.ParseSM2 returned neither a certificate nor an error")
			}
			return k, err
		}
	case "sm9-asn1", "sm9-raw", "sm9-casn1", "sm9-craw", "sm9-craw-asn1":
		buildSM9(s, ki, b)
	default:
		panic("c14 harness: unknown container " + s.Cont)
	}
	if b.blob == nil || b.dec == nil {
		panic(fmt.Sprintf("c14 harness: container %s does not apply to key class %s", s.Cont, s.Key))
	}
	if b.prep == nil {
		dec := b.dec
		b.prep = func(blob []byte) any { return blob }
		b.decP = func(obj any, secret []byte) (any, error) { return dec(obj.([]byte), secret) }
		b.snap = func(obj any) []byte { return append([]byte{}, obj.([]byte)...) }
	}
	return b
}

// snapPEM serialises a parsed PEM block (type, headers in sorted order, bytes).
func snapPEM(blk *pem.Block) []byte {
	out := []byte(blk.Type + "\x00")
	keys := make([]string, 0, len(blk.Headers))
	for k := range blk.Headers {
		keys = append(keys, k)
	}
	sort.Strings(keys)
	for _, k := range keys {
		out = append(out, k+"="+blk.Headers[k]+"\x00"...)
	}
	return append(out, blk.Bytes...)
}

// envObj is the reusable state of enveloped-key decoding: the caller's bytes
// and the unwrapping key objects (an *sm2.PrivateKey caches values on use).
type envObj struct {
	blob []byte
	keys map[string]*sm2.PrivateKey
}

// encryptP8With wraps a PKCS#8 blob into EncryptedPrivateKeyInfo the way
// pkcs8.MarshalPrivateKey does, with an explicit random source.
func encryptP8With(enc pkcs.PBESEncrypter, rnd *gen.DetReader, pw, p8 []byte) []byte {
	alg, ct, err := enc.Encrypt(rnd, pw, p8)
	if err != nil {
		panic(fmt.Sprintf("c14 harness: Encrypt: %v", err))
	}
	return must(asn1.Marshal(struct {
		Alg  pkix.AlgorithmIdentifier
		Data []byte
	}{*alg, ct}))
}

// parseP8Raw opens an EncryptedPrivateKeyInfo through the exported API of
// package pkcs (PBES2Params.Decrypt), which - unlike pkcs8.ParsePrivateKey -
// admits the empty password.
func parseP8Raw(blob, secret []byte) (any, error) {
	var epki struct {
		Alg  pkix.AlgorithmIdentifier
		Data []byte
	}
	if rest, err := asn1.Unmarshal(blob, &epki); err != nil || len(rest) != 0 {
		return nil, fmt.Errorf("c14: not an EncryptedPrivateKeyInfo: %v", err)
	}
	if !pkcs.IsPBES2(epki.Alg) && !pkcs.IsSMPBES(epki.Alg) {
		return nil, errors.New("c14: not PBES2")
	}
	var params pkcs.PBES2Params
	if rest, err := asn1.Unmarshal(epki.Alg.Parameters.FullBytes, &params); err != nil || len(rest) != 0 {
		return nil, fmt.Errorf("c14: bad PBES2 parameters: %v", err)
	}
	plain, _, err := params.Decrypt(secret, epki.Data)
	if err != nil {
		return nil, err
	}
	return smx509.ParsePKCS8PrivateKey(plain)
}

func decEnveloped(blob, secret []byte) (any, error) {
	w, err := sm2.NewPrivateKey(secret)
	if err != nil {
		return nil, fmt.Errorf("c14 harness: bad unwrapping scalar: %v", err)
	}
	k, err := sm2.ParseEnvelopedPrivateKey(w, blob)
	if k == nil {
		return nil, err
	}
	return k, err
}

// pemInner picks the DER that legacy PEM encryption traditionally wraps for
// the key type, with its PEM type and parser.
func pemInner(ki *keyInfo) ([]byte, string, func([]byte) (any, error)) {
	switch k := ki.priv.(type) {
	case *sm2.PrivateKey:
		return must(smx509.MarshalSM2PrivateKey(k)), "EC PRIVATE KEY", func(d []byte) (any, error) { return smx509.ParseSM2PrivateKey(d) }
	case *ecdsa.PrivateKey:
		return must(smx509.MarshalECPrivateKey(k)), "EC PRIVATE KEY", func(d []byte) (any, error) { return smx509.ParseECPrivateKey(d) }
	case *rsa.PrivateKey:
		return smx509.MarshalPKCS1PrivateKey(k), "RSA PRIVATE KEY", func(d []byte) (any, error) { return smx509.ParsePKCS1PrivateKey(d) }
	}
	return must(smx509.MarshalPKCS8PrivateKey(ki.priv)), "PRIVATE KEY", func(d []byte) (any, error) { return smx509.ParsePKCS8PrivateKey(d) }
}

// ---------------------------------------------------------------- certificates (CFCA)

var (
	certMu    sync.Mutex
	caKey     *sm2.PrivateKey
	caCert    *smx509.Certificate
	certCache = map[string]*smx509.Certificate{}
	refTime   = time.Date(2020, 1, 1, 0, 0, 0, 0, time.UTC)
)

// certFor issues a certificate for pub under a fixed CA (deterministic).
func certFor(pub *ecdsa.PublicKey, seed uint64) *smx509.Certificate {
	certMu.Lock()
	defer certMu.Unlock()
	if caKey == nil {
		caKey = makeKey("sm2-uniform", 0xCA).priv.(*sm2.PrivateKey)
		tmpl := &x509.Certificate{SerialNumber: big.NewInt(1), Subject: pkix.Name{CommonName: "c14 ca"}, NotBefore: refTime,
			NotAfter: refTime.AddDate(30, 0, 0), IsCA: true, BasicConstraintsValid: true, KeyUsage: x509.KeyUsageCertSign}
		der := must(smx509.CreateCertificate(gen.NewDetReader(0xCA), tmpl, tmpl, &caKey.PublicKey, caKey))
		caCert = must(smx509.ParseCertificate(der))
	}
	id := fmt.Sprintf("%x/%x/%d", pub.X, pub.Y, seed)
	if c, ok := certCache[id]; ok {
		return c
	}
	tmpl := &x509.Certificate{SerialNumber: big.NewInt(int64(2 + seed%1000)), Subject: pkix.Name{CommonName: "c14 leaf", Organization: []string{"Acme"}},
		NotBefore: refTime, NotAfter: refTime.AddDate(10, 0, 0), KeyUsage: x509.KeyUsageDigitalSignature | x509.KeyUsageKeyEncipherment}
	der := must(smx509.CreateCertificate(gen.NewDetReader(gen.Mix(seed, 0xce47)), tmpl, caCert.ToX509(), pub, caKey))
	c := must(smx509.ParseCertificate(der))
	if len(certCache) > 256 {
		certCache = map[string]*smx509.Certificate{}
	}
	certCache[id] = c
	return c
}

// ---------------------------------------------------------------- SM9 encodings

func bitString(b []byte) []byte { return derTLV(0x03, append([]byte{0}, b...)) }

// compressPoint turns an uncompressed SM9 point encoding (04||...) into the
// compressed one through the group types re-exported by verifhook.
func compressPoint(unc []byte) []byte {
	switch len(unc) {
	case 65:
		g := new(verifhook.G1)
		if _, err := g.Unmarshal(unc[1:]); err != nil {
			panic(fmt.Sprintf("c14 harness: G1: %v", err))
		}
		return g.MarshalCompressed()
	case 129:
		g := new(verifhook.G2)
		if _, err := g.Unmarshal(unc[1:]); err != nil {
			panic(fmt.Sprintf("c14 harness: G2: %v", err))
		}
		return g.MarshalCompressed()
	}
	panic("c14 harness: unexpected SM9 point length")
}

func buildSM9(s cspec, ki *keyInfo, b *built) {
	obj := ki.priv
	if obj == nil {
		obj = ki.pub
	}
	b.orig = obj
	var raw, asn, casn []byte
	var decRaw, decASN func([]byte) (any, error)
	switch k := obj.(type) {
	case *sm9.SignMasterPrivateKey:
		asn = must(k.MarshalASN1())
		decASN = func(d []byte) (any, error) { return nilIfErr(sm9.UnmarshalSignMasterPrivateKeyASN1(d)) }
	case *sm9.EncryptMasterPrivateKey:
		asn = must(k.MarshalASN1())
		decASN = func(d []byte) (any, error) { return nilIfErr(sm9.UnmarshalEncryptMasterPrivateKeyASN1(d)) }
	case *sm9.SignMasterPublicKey:
		raw, asn, casn = k.Bytes(), must(k.MarshalASN1()), must(k.MarshalCompressedASN1())
		decRaw = func(d []byte) (any, error) { return nilIfErr(sm9.UnmarshalSignMasterPublicKeyRaw(d)) }
		decASN = func(d []byte) (any, error) { return nilIfErr(sm9.UnmarshalSignMasterPublicKeyASN1(d)) }
	case *sm9.EncryptMasterPublicKey:
		raw, asn, casn = k.Bytes(), must(k.MarshalASN1()), must(k.MarshalCompressedASN1())
		decRaw = func(d []byte) (any, error) { return nilIfErr(sm9.UnmarshalEncryptMasterPublicKeyRaw(d)) }
		decASN = func(d []byte) (any, error) { return nilIfErr(sm9.UnmarshalEncryptMasterPublicKeyASN1(d)) }
	case *sm9.SignPrivateKey:
		raw, asn, casn = k.Bytes(), must(k.MarshalASN1()), must(k.MarshalCompressedASN1())
		decRaw = func(d []byte) (any, error) { return nilIfErr(sm9.UnmarshalSignPrivateKeyRaw(d)) }
		decASN = func(d []byte) (any, error) { return nilIfErr(sm9.UnmarshalSignPrivateKeyASN1(d)) }
	case *sm9.EncryptPrivateKey:
		raw, asn, casn = k.Bytes(), must(k.MarshalASN1()), must(k.MarshalCompressedASN1())
		decRaw = func(d []byte) (any, error) { return nilIfErr(sm9.UnmarshalEncryptPrivateKeyRaw(d)) }
		decASN = func(d []byte) (any, error) { return nilIfErr(sm9.UnmarshalEncryptPrivateKeyASN1(d)) }
	}
	wrap := func(f func([]byte) (any, error)) func([]byte, []byte) (any, error) {
		if f == nil {
			return nil
		}
		return func(blob, _ []byte) (any, error) { return f(blob) }
	}
	switch s.Cont {
	case "sm9-asn1":
		b.blob, b.dec = asn, wrap(decASN)
	case "sm9-raw":
		b.blob, b.dec = raw, wrap(decRaw)
	case "sm9-casn1":
		b.blob, b.dec = casn, wrap(decASN)
	case "sm9-craw":
		if raw != nil {
			b.blob, b.dec = compressPoint(raw), wrap(decRaw)
		}
	case "sm9-craw-asn1":
		if raw != nil {
			b.blob, b.dec = bitString(compressPoint(raw)), wrap(decASN)
		}
	}
}

// nilIfErr converts the typed (*T, error) results into (any, error) without
// producing a non-nil interface around a nil pointer.
func nilIfErr[T any](k *T, err error) (any, error) {
	if k == nil {
		return nil, err
	}
	return k, err
}
