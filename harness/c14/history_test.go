package c14

// Call-history oracles. The other tests build every container with a fresh
// encoder and decode it once from a fresh copy; here the SAME objects are used
// repeatedly:
//
//	(a) one encrypter / option object encodes 2-4 keys under different
//	    passwords; every output opens under exactly its own password to exactly
//	    its own key and is refused under the others;
//	(b) one container (the same byte slice, the same parsed *pem.Block, the same
//	    unwrapping key object) is decoded several times with right and wrong
//	    secrets in sequence; every attempt behaves as on a fresh copy;
//	(c) after every call the caller's container bytes / pem.Block / secret
//	    slices are byte-identical to before;
//	(d) password and key-material slices handed to an encoder are overwritten
//	    after the call, inputs of a decoder after it returned: the container
//	    still decodes / the returned key is unchanged.

import (
	"bytes"
	"crypto/ecdsa"
	"crypto/rsa"
	"encoding/pem"
	"errors"
	"fmt"
	"testing"

	"github.com/emmansun/gmsm/cfca"
	"github.com/emmansun/gmsm/pkcs"
	"github.com/emmansun/gmsm/pkcs8"
	"github.com/emmansun/gmsm/sm2"
	"github.com/emmansun/gmsm/smx509"
	"verif/harness/gen"
	"verif/harness/h"
	"verif/harness/ref"
)

func scribble(b []byte) {
	for i := range b {
		b[i] = 0xA5 ^ byte(i*7)
	}
}

// ---------------------------------------------------------------- (a)+(d) encoder reuse

type encStep struct {
	Key   string
	KSeed uint64
	Pw    int // password class
	PSeed uint64
}

type encHistCase struct {
	Family string // p8-pbes1, p8-pbes2, p8-pbes2lit, p8-smpbes, p8-default, pbes2-encrypter, pem, env, cfca, p8-plain, sec1, pkcs1, sm9-asn1, sm9-raw
	Cipher string `json:",omitempty"`
	KDF    string `json:",omitempty"`
	Salt   int    `json:",omitempty"`
	Iter   int    `json:",omitempty"`
	Seed   uint64
	Steps  []encStep
}

func (c encHistCase) label() string {
	switch {
	case c.KDF != "":
		return c.Family + ":" + c.Cipher + "/" + c.KDF
	case c.Cipher != "":
		return c.Family + ":" + c.Cipher
	}
	return c.Family
}

// histEncoder is one encoder object together with the matching decoder.
type histEncoder struct {
	// enc encodes key ki under secret (a caller-owned slice that is scribbled
	// afterwards); step selects the per-step randomness.
	enc    func(ki *keyInfo, secret []byte, step int) ([]byte, error)
	dec    func(blob, secret []byte) (any, error)
	secret func(st encStep) []byte // the secret of a step
	plain  bool                    // no secret at all
}

func newHistEncoder(c encHistCase) *histEncoder {
	pwOf := func(st encStep) []byte { return password(st.Pw, st.PSeed) }
	viaPKCS8 := func(e pkcs.PBESEncrypter) *histEncoder {
		return &histEncoder{
			enc: func(ki *keyInfo, secret []byte, step int) (blob []byte, err error) {
				withRand(gen.Mix(c.Seed, 0x57e9, uint64(step)), func() { blob, err = pkcs8.MarshalPrivateKey(ki.priv, secret, e) })
				return
			},
			dec: parseP8, secret: pwOf,
		}
	}
	switch c.Family {
	case "p8-pbes1":
		return viaPKCS8(newPBES1(c.Cipher, gen.Mix(c.Seed, 0x5a17), c.Salt, c.Iter)) // ONE instance, salt fixed at creation
	case "p8-pbes2":
		return viaPKCS8(pkcs.NewPBESEncrypter(cipherByName(c.Cipher).c, kdfOpts(c.KDF, c.Salt, c.Iter, false)))
	case "p8-pbes2lit":
		return viaPKCS8(&pkcs8.Opts{Cipher: cipherByName(c.Cipher).c, KDFOpts: kdfOpts(c.KDF, c.Salt, c.Iter, true)})
	case "p8-smpbes":
		if c.KDF == "SMPBKDF2-SM3" {
			return viaPKCS8(pkcs.NewSMPBESEncrypter(c.Salt, c.Iter))
		}
		return viaPKCS8(pkcs.NewSMPBESEncrypterWithKDF(kdfOpts(c.KDF, c.Salt, c.Iter, false)))
	case "p8-default":
		// the package-level DefaultOpts object, through ConvertPrivateKeyToPKCS8
		return &histEncoder{
			enc: func(ki *keyInfo, secret []byte, step int) (blob []byte, err error) {
				withRand(gen.Mix(c.Seed, 0xdef0, uint64(step)), func() { blob, err = pkcs8.ConvertPrivateKeyToPKCS8(ki.priv, secret) })
				return
			},
			dec:    func(blob, secret []byte) (any, error) { return pkcs8.ParsePKCS8PrivateKey(blob, secret) },
			secret: pwOf,
		}
	case "pbes2-encrypter":
		// the encrypter called directly (admits the empty password); the
		// plaintext slice handed to it is scribbled afterwards as well
		e := pkcs.NewPBESEncrypter(cipherByName(c.Cipher).c, kdfOpts(c.KDF, c.Salt, c.Iter, false))
		rnd := gen.NewDetReader(gen.Mix(c.Seed, 0xe2c0)) // one reader for the whole history
		return &histEncoder{
			enc: func(ki *keyInfo, secret []byte, step int) ([]byte, error) {
				p8 := must(smx509.MarshalPKCS8PrivateKey(ki.priv))
				blob := encryptP8With(e, rnd, secret, p8)
				scribble(p8)
				return blob, nil
			},
			dec: parseP8Raw, secret: pwOf,
		}
	case "pem":
		var alg smx509.PEMCipher
		for _, pc := range pemCiphers {
			if pc.name == c.Cipher {
				alg = pc.alg
			}
		}
		rnd := gen.NewDetReader(gen.Mix(c.Seed, 0x9e30))
		return &histEncoder{
			enc: func(ki *keyInfo, secret []byte, step int) ([]byte, error) {
				inner, typ, _ := pemInner(ki)
				blk, err := smx509.EncryptPEMBlock(rnd, typ, inner, secret, alg)
				if err != nil {
					return nil, err
				}
				out := pem.EncodeToMemory(blk)
				scribble(inner)
				scribble(blk.Bytes)
				return out, nil
			},
			dec: func(blob, secret []byte) (any, error) {
				blk, _ := pem.Decode(blob)
				if blk == nil {
					return nil, errors.New("c14: not a PEM block")
				}
				der, err := smx509.DecryptPEMBlock(blk, secret)
				if err != nil {
					return nil, err
				}
				switch blk.Type {
				case "EC PRIVATE KEY":
					return smx509.ParseTypedECPrivateKey(der)
				case "RSA PRIVATE KEY":
					return nilIfErr(smx509.ParsePKCS1PrivateKey(der))
				}
				return smx509.ParsePKCS8PrivateKey(der)
			},
			secret: pwOf,
		}
	case "env":
		rnd := gen.NewDetReader(gen.Mix(c.Seed, 0x3e70))
		return &histEncoder{
			enc: func(ki *keyInfo, secret []byte, step int) ([]byte, error) {
				w, err := sm2.NewPrivateKey(secret)
				if err != nil {
					return nil, err
				}
				return sm2.MarshalEnvelopedPrivateKey(rnd, &w.PublicKey, ki.priv.(*sm2.PrivateKey))
			},
			dec:    decEnveloped,
			secret: func(st encStep) []byte { return ref.Bytes32(makeKey("sm2-uniform", gen.Mix(st.PSeed, 0x3e7)).d) },
		}
	case "cfca":
		return &histEncoder{
			enc: func(ki *keyInfo, secret []byte, step int) ([]byte, error) {
				k := ki.priv.(*sm2.PrivateKey)
				return cfca.MarshalSM2(secret, k, certFor(&k.PublicKey, uint64(step)))
			},
			dec: func(blob, secret []byte) (any, error) {
				k, _, err := cfca.ParseSM2(secret, blob)
				return nilIfErr(k, err)
			},
			secret: pwOf,
		}
	case "p8-plain":
		return &histEncoder{plain: true,
			enc: func(ki *keyInfo, _ []byte, _ int) ([]byte, error) { return smx509.MarshalPKCS8PrivateKey(ki.priv) },
			dec: func(blob, _ []byte) (any, error) { return smx509.ParsePKCS8PrivateKey(blob) }}
	case "sec1":
		return &histEncoder{plain: true,
			enc: func(ki *keyInfo, _ []byte, _ int) ([]byte, error) {
				switch k := ki.priv.(type) {
				case *sm2.PrivateKey:
					return smx509.MarshalSM2PrivateKey(k)
				case *ecdsa.PrivateKey:
					return smx509.MarshalECPrivateKey(k)
				}
				return nil, errUnsupported
			},
			dec: func(blob, _ []byte) (any, error) { return smx509.ParseTypedECPrivateKey(blob) }}
	case "pkcs1":
		return &histEncoder{plain: true,
			enc: func(ki *keyInfo, _ []byte, _ int) ([]byte, error) {
				return smx509.MarshalPKCS1PrivateKey(ki.priv.(*rsa.PrivateKey)), nil
			},
			dec: func(blob, _ []byte) (any, error) { return nilIfErr(smx509.ParsePKCS1PrivateKey(blob)) }}
	case "sm9-asn1", "sm9-raw":
		// outputs handed out by key objects: scribbling one output must not
		// reach the key or later outputs
		return &histEncoder{plain: true,
			enc: func(ki *keyInfo, _ []byte, _ int) ([]byte, error) { return freshEncoding(c.Family, ki) },
			dec: func(blob, _ []byte) (any, error) { return nil, errUnsupported }}
	}
	panic("c14 harness: unknown history family " + c.Family)
}

// freshEncoding asks the key object itself for a new encoding (not memoised).
func freshEncoding(cont string, ki *keyInfo) ([]byte, error) {
	nb := &built{ki: ki, orig: ki.priv}
	buildSM9(cspec{Cont: cont}, ki, nb)
	if nb.blob == nil {
		return nil, errUnsupported
	}
	return nb.blob, nil
}

func checkEncHist(c encHistCase, r *h.Rec) error {
	r.Label("encode-reuse:" + c.label())
	r.Label(fmt.Sprintf("steps:%d", len(c.Steps)))
	r.NT()
	e := newHistEncoder(c)
	type out struct {
		blob   []byte
		ki     *keyInfo
		secret []byte
	}
	var outs []out
	for i, st := range c.Steps {
		ki := makeKey(st.Key, st.KSeed)
		r.Label("key:" + st.Key)
		var secret []byte
		if !e.plain {
			secret = e.secret(st)
			if c.Family != "env" {
				r.Label(pwClassNames[st.Pw])
			}
		}
		handed := append([]byte{}, secret...)
		blob, err := e.enc(ki, handed, i)
		if err != nil {
			return fmt.Errorf("%s: step %d (key class %s): encoding failed: %v", c.label(), i, st.Key, err)
		}
		if !bytes.Equal(handed, secret) {
			return fmt.Errorf("%s: step %d: the encoder modified the caller's secret slice (%s -> %s)", c.label(), i, h.Hex(secret), h.Hex(handed))
		}
		scribble(handed) // (d): the caller reuses its password buffer
		outs = append(outs, out{append([]byte{}, blob...), ki, secret})
		if e.plain && hasPrefix(c.Family, "sm9-") {
			scribble(blob) // an output handed out by the key object
		}
	}
	if e.plain && hasPrefix(c.Family, "sm9-") {
		// same key encoded repeatedly: outputs must be identical although earlier ones were scribbled
		for i := range outs {
			for j := range outs {
				if c.Steps[i].Key == c.Steps[j].Key && c.Steps[i].KSeed == c.Steps[j].KSeed && !bytes.Equal(outs[i].blob, outs[j].blob) {
					return fmt.Errorf("%s: encodings %d and %d of the same key differ after the first returned slice was overwritten: %s vs %s", c.label(), i, j, h.Hex(outs[i].blob), h.Hex(outs[j].blob))
				}
			}
		}
		return nil
	}
	for i, o := range outs {
		work := append([]byte{}, o.blob...)
		sec := append([]byte{}, o.secret...)
		got, err := e.dec(work, sec)
		if err != nil {
			return fmt.Errorf("%s: output %d of %d produced by one encoder object (key class %s, secret %s) does not open under its own secret: %v; container %s; history %+v",
				c.label(), i+1, len(outs), c.Steps[i].Key, h.Hex(o.secret), err, h.Hex(o.blob), c.Steps)
		}
		if err := sameKey(o.ki.priv, got); err != nil {
			return fmt.Errorf("%s: output %d of %d produced by one encoder object opens to a different key: %v; history %+v", c.label(), i+1, len(outs), err, c.Steps)
		}
		if !bytes.Equal(work, o.blob) || !bytes.Equal(sec, o.secret) {
			return fmt.Errorf("%s: decoding modified the caller's container or secret", c.label())
		}
		scribble(work) // (d): the caller reuses the container buffer; the key must not alias it
		if err := sameKey(o.ki.priv, got); err != nil {
			return fmt.Errorf("%s: the decoded key changed when the caller overwrote the container bytes afterwards: %v", c.label(), err)
		}
		if e.plain {
			continue
		}
		for j, p := range outs {
			if bytes.Equal(p.secret, o.secret) {
				continue
			}
			got, err := e.dec(append([]byte{}, o.blob...), append([]byte{}, p.secret...))
			if err == nil {
				what := "a different key"
				if sameKey(o.ki.priv, got) == nil {
					what = "its key"
				} else if sameKey(p.ki.priv, got) == nil {
					what = fmt.Sprintf("the key of output %d", j+1)
				}
				return fmt.Errorf("%s: output %d of %d produced by one encoder object (own secret %s) opens under the secret of output %d (%s) and yields %s; container %s; history %+v",
					c.label(), i+1, len(outs), h.Hex(o.secret), j+1, h.Hex(p.secret), what, h.Hex(o.blob), c.Steps)
			}
			if !isNilKey(got) {
				return fmt.Errorf("%s: output %d refused under a foreign secret with %q but a non-nil key came along", c.label(), i+1, err)
			}
		}
	}
	return nil
}

// historySteps derives 2-4 steps: different keys, different passwords, with
// one repeated password (different key) in the 4-step shape.
func historySteps(family string, n int, seed uint64) []encStep {
	var classes []string
	switch family {
	case "env", "cfca":
		classes = []string{"sm2-uniform", "sm2-lz1", "sm2-n-2", "sm2-top", "sm2-d1"}
	case "sec1":
		classes = []string{"sm2-lz2", "p256-uniform", "sm2-uniform", "p384-lz1", "p521-lz1", "p224-uniform", "p521-top"}
	case "pkcs1":
		classes = []string{"rsa-1024", "rsa-2048", "rsa-3072", "rsa-1024"}
	case "sm9-asn1":
		classes = []string{"sm9-signuser", "sm9-signuser", "sm9-encmaster", "sm9-encmaster"}
	case "sm9-raw":
		classes = []string{"sm9-encuser", "sm9-encuser", "sm9-signmasterpub", "sm9-signmasterpub"}
	default:
		classes = []string{"sm2-lz1", "sm9-signuser", "p256-lz1", "ecdh-uniform", "rsa-1024", "sm9-encmaster-lz1", "sm2-uniform", "sm9-encuser", "p521-lz1", "p224-uniform"}
	}
	steps := make([]encStep, n)
	for i := range steps {
		k := int(gen.Mix(seed, uint64(i), 0xc1a55) % uint64(len(classes)))
		if hasPrefix(family, "sm9-") {
			k = i % len(classes) // pairs of the same key
		}
		pw := 1 + int(gen.Mix(seed, uint64(i), 0x9a)%4)
		if family == "pbes2-encrypter" || family == "pem" {
			pw = int(gen.Mix(seed, uint64(i), 0x9a) % 5) // the empty password too
		}
		ks := gen.Mix(seed, 0x5eed, uint64(i))
		if hasPrefix(family, "sm9-") {
			ks = gen.Mix(seed, 0x5eed, uint64(i/2))
		}
		steps[i] = encStep{Key: classes[k], KSeed: ks, Pw: pw, PSeed: gen.Mix(seed, 0x9a55, uint64(i))}
	}
	if n >= 4 && !hasPrefix(family, "sm9-") { // the last step reuses the first password with another key
		steps[n-1].Pw, steps[n-1].PSeed = steps[0].Pw, steps[0].PSeed
	}
	return steps
}

func TestC14_HistoryEncode(t *testing.T) {
	observeOnce()
	h.MarkExhaustive("history-encoder-reuse")
	h.Sweep(t, h.P{Name: "history-encoder-reuse"}, func(emit func(encHistCase)) {
		i := 0
		next := func(c encHistCase) {
			i++
			c.Seed = gen.Mix(h.Seed, 0x4157, uint64(i))
			c.Steps = historySteps(c.Family, 2+i%h.Scale(3, 5), c.Seed) // thorough: histories of up to 6 encodings
			emit(c)
		}
		rounds := h.Scale(1, 12)
		for round := 0; round < rounds; round++ {
			for _, ce := range pbes2Ciphers {
				for _, kdf := range kdfNames {
					i++
					next(encHistCase{Family: "p8-pbes2", Cipher: ce.name, KDF: kdf, Salt: saltSizes[i%4], Iter: iterFor(i)})
					next(encHistCase{Family: "pbes2-encrypter", Cipher: ce.name, KDF: kdf, Salt: saltSizes[i%5], Iter: iterFor(i)})
					if kdf != "SMPBKDF2-SM3" {
						next(encHistCase{Family: "p8-pbes2lit", Cipher: ce.name, KDF: kdf, Salt: saltSizes[i%4], Iter: iterFor(i)})
					}
				}
			}
			for _, kdf := range kdfNames {
				next(encHistCase{Family: "p8-smpbes", Cipher: "SM4-CBC", KDF: kdf, Salt: saltSizes[i%4], Iter: iterFor(i)})
			}
			for rep := 0; rep < 4; rep++ {
				for _, sch := range pbes1Names {
					next(encHistCase{Family: "p8-pbes1", Cipher: sch, Salt: []int{8, 1, 16, 0}[i%4], Iter: iterFor(i)})
				}
				for _, pc := range pemCiphers {
					next(encHistCase{Family: "pem", Cipher: pc.name})
				}
				next(encHistCase{Family: "env"})
				next(encHistCase{Family: "cfca"})
				for _, f := range []string{"p8-plain", "sec1", "pkcs1", "sm9-asn1", "sm9-raw"} {
					next(encHistCase{Family: f})
				}
			}
			next(encHistCase{Family: "p8-default", Cipher: "AES256-CBC", KDF: "PBKDF2-SHA256"})
			next(encHistCase{Family: "p8-default", Cipher: "AES256-CBC", KDF: "PBKDF2-SHA256"})
		}
	}, checkEncHist)
}

// ---------------------------------------------------------------- (b)+(c)+(d) decode repeat

type decHistCase struct {
	cspec
	Pattern string // R = right secret, a..d = wrong-secret variants 1..4
}

func checkDecHist(c decHistCase, r *h.Rec) error {
	b := build(c.cspec)
	labelCommon(c.cspec, b, r)
	r.Label("decode-repeat:" + classOfPattern(c.Pattern))
	r.NT()
	// ONE caller-owned copy of the container, parsed ONCE, and ONE slice per secret
	mine := append([]byte{}, b.blob...)
	obj := b.prep(mine)
	snap0 := b.snap(obj)
	secrets := map[byte][]byte{'R': append([]byte{}, b.secret...)}
	var lastGood any
	for i := 0; i < len(c.Pattern); i++ {
		ch := c.Pattern[i]
		sec, ok := secrets[ch]
		if !ok {
			w, exists := wrongSecret(b, c.cspec, int(ch-'a')+1)
			if !exists {
				r.Label("wrong-variant-n/a")
				continue
			}
			sec = w
			secrets[ch] = sec
		}
		before := append([]byte{}, sec...)
		// what a fresh copy does
		wantKey, wantErr := b.dec(append([]byte{}, b.blob...), append([]byte{}, before...))
		got, err := b.decP(obj, sec)
		where := fmt.Sprintf("%s (key class %s): attempt %d of history %q on the same container object", c.label(), c.Key, i+1, c.Pattern)
		if !bytes.Equal(sec, before) {
			return fmt.Errorf("%s: the decoder modified the caller's secret slice (%s -> %s)", where, h.Hex(before), h.Hex(sec))
		}
		if !bytes.Equal(mine, b.blob) {
			return fmt.Errorf("%s: the decoder modified the caller's container bytes", where)
		}
		if s := b.snap(obj); !bytes.Equal(s, snap0) {
			return fmt.Errorf("%s: the decoder modified the caller's parsed container object (%T): %s -> %s", where, obj, h.Hex(snap0), h.Hex(s))
		}
		if (err == nil) != (wantErr == nil) {
			return fmt.Errorf("%s behaves differently from a fresh copy: got (%T, %v), a fresh copy gives (%T, %v); container %s", where, got, err, wantKey, wantErr, h.Hex(b.blob))
		}
		if err != nil && err.Error() != wantErr.Error() {
			return fmt.Errorf("%s fails differently from a fresh copy: %q vs %q", where, err, wantErr)
		}
		if ch == 'R' {
			if err != nil {
				return fmt.Errorf("%s: the right secret was refused: %v; container %s", where, err, h.Hex(b.blob))
			}
			if err := sameKey(b.orig, got); err != nil {
				return fmt.Errorf("%s: %v", where, err)
			}
			lastGood = got
		} else {
			if err == nil {
				return fmt.Errorf("%s: a wrong secret (%s) was accepted, returned %T; container %s", where, h.Hex(sec), got, h.Hex(b.blob))
			}
			if !isNilKey(got) {
				return fmt.Errorf("%s: a wrong secret gave error %q together with a non-nil key", where, err)
			}
		}
	}
	if lastGood != nil {
		// (d) the caller reuses its buffers: the returned key must not alias them
		scribble(mine)
		if blk, ok := obj.(*pem.Block); ok {
			scribble(blk.Bytes)
		}
		if err := sameKey(b.orig, lastGood); err != nil {
			return fmt.Errorf("%s (key class %s): the decoded key changed when the caller overwrote the container bytes after decoding: %v", c.label(), c.Key, err)
		}
	}
	return nil
}

func classOfPattern(p string) string {
	out := []byte(p)
	for i, ch := range out {
		if ch != 'R' {
			out[i] = 'W'
		}
	}
	return string(out)
}

var (
	decPatternsSecret = []string{"aRbR", "RR", "cdR", "RaR", "bRRd", "dcbaR", "aRbRcRdR", "RRRRRR", "abcdabcdR", "RaRbRcRd"} // the last four: thorough only
	decPatternsPlain  = []string{"RR", "RRR"}
)

func TestC14_HistoryDecode(t *testing.T) {
	observeOnce()
	h.MarkExhaustive("history-decode-repeat")
	ks := keySeeds(8)[7]
	keys := []string{"sm2-lz1", "sm9-signuser", "p256-lz1", "ecdh-uniform", "rsa-1024", "sm9-encmaster-lz1", "sm2-uniform", "sm9-encuser", "p384-uniform", "sm2-n-2", "p521-lz1", "p224-lz1", "p521-top"}
	h.Sweep(t, h.P{Name: "history-decode-repeat"}, func(emit func(decHistCase)) {
		i := 0
		withSecret := func(s cspec) {
			n, np := 2, 6
			if h.Thorough() {
				n, np = len(decPatternsSecret), len(decPatternsSecret)
			}
			for k := 0; k < n; k++ {
				i++
				emit(decHistCase{s, decPatternsSecret[(i+k)%np]})
			}
		}
		for _, ce := range pbes2Ciphers {
			for _, kdf := range kdfNames {
				i++
				withSecret(cspec{Key: keys[i%len(keys)], KSeed: ks, Cont: "p8-pbes2", Cipher: ce.name, KDF: kdf, Pw: 1 + i%4,
					Salt: saltSizes[i%4], Iter: iterFor(i), ESeed: gen.Mix(h.Seed, 0xd3c, uint64(i))})
			}
		}
		for _, kdf := range kdfNames {
			i++
			withSecret(cspec{Key: keys[i%len(keys)], KSeed: ks, Cont: "p8-smpbes", Cipher: "SM4-CBC", KDF: kdf, Pw: 1 + i%4,
				Salt: saltSizes[i%4], Iter: iterFor(i), ESeed: gen.Mix(h.Seed, 0xd3d, uint64(i))})
			withSecret(cspec{Key: keys[i%len(keys)], KSeed: ks, Cont: "p8-pbes2raw", Cipher: pbes2Ciphers[i%len(pbes2Ciphers)].name, KDF: kdf, Pw: (i % 3) * 2,
				Salt: saltSizes[i%5], Iter: iterFor(i), ESeed: gen.Mix(h.Seed, 0xd3e, uint64(i))})
		}
		for _, kc := range allPrivateClasses() {
			if (kc == "rsa-2048" || deepClasses[kc]) && !h.Thorough() {
				continue
			}
			for _, sch := range pbes1Names {
				i++
				withSecret(cspec{Key: kc, KSeed: ks, Cont: "p8-pbes1", Cipher: sch, Pw: 1 + i%4, Salt: 8, Iter: iterFor(i), ESeed: gen.Mix(h.Seed, 0xd3f, uint64(i))})
			}
			for _, pc := range pemCiphers {
				i++
				withSecret(cspec{Key: kc, KSeed: ks, Cont: "pem", Cipher: pc.name, Pw: i % 5, ESeed: gen.Mix(h.Seed, 0xd40, uint64(i))})
			}
		}
		withSecret(cspec{Key: "sm2-top", KSeed: ks, Cont: "p8-convert-pw", Cipher: "AES256-CBC", KDF: "PBKDF2-SHA256", Pw: 3, ESeed: gen.Mix(h.Seed, 0xd41)})
		for _, kc := range sm2Classes {
			i++
			withSecret(cspec{Key: kc, KSeed: ks, Cont: "env", ESeed: gen.Mix(h.Seed, 0xd42, uint64(i))})
			withSecret(cspec{Key: kc, KSeed: ks, Cont: "cfca", Pw: 1 + i%4, ESeed: gen.Mix(h.Seed, 0xd43, uint64(i))})
		}
		for _, kc := range append(allPrivateClasses(), sm9PubKinds...) {
			for _, cont := range plainContainers {
				if !applicable(kc, cont) {
					continue
				}
				i++
				emit(decHistCase{cspec{Key: kc, KSeed: ks, Cont: cont}, decPatternsPlain[i%2]})
			}
		}
	}, checkDecHist)
}
