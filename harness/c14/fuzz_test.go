package c14

// Native coverage-guided fuzz targets (thorough tier only; the driver runs
// `go test -fuzz`). Each target is a data provider: the fuzzer's bytes are
// decoded into a well-formed case of one of the package's case types (selector
// bytes -> choices, lengths reduced modulo the legal range, the remaining bytes
// used as payload / operation list), and the SAME check function as in the
// sweeps and rapid properties decides the case. Every byte string of the
// minimum length is a case the property quantifies over.
//
//	FuzzC14_Container  (container description, key class, seeds) -> round trip
//	                   with the right secret, then one of: wrong secret,
//	                   single-byte alteration, GCM ICV-length variant, repeated
//	                   decoding of one container object (operation list R/a-d)
//	FuzzC14_Scalar     (planting target, octets of a private scalar of any width
//	                   and value) -> planted-scalar oracle (valid by value,
//	                   non-canonical width tolerated as "error or the same key")
//	FuzzC14_Producer   independent producer side: foreign-producer forms,
//	                   encryption-layer plaintext lengths, encoder-reuse
//	                   histories (operation list of encodings), accepted key
//	                   types

import (
	"encoding/binary"
	"encoding/hex"
	"fmt"
	"math/big"
	"os"
	"path/filepath"
	"runtime"
	"runtime/debug"
	"testing"
	"time"

	"verif/harness/gen"
	"verif/harness/h"
)

// fuzzRun evaluates one decoded case: a returned error or a panic inside the
// check is a violation (as in h.runCheck).
func fuzzRun(t *testing.T, desc func() string, check func(r *h.Rec) error) {
	old := debug.SetPanicOnFault(true)
	defer debug.SetPanicOnFault(old)
	defer func() {
		if p := recover(); p != nil {
			t.Fatalf("panic: %v\n%s\ncase: %s", p, debug.Stack(), desc())
		}
	}()
	// One-sided watchdog, diagnostics only (it never changes a verdict): the
	// fuzzing engine kills a worker whose input runs for 10 s without saying
	// which input or where it was; leave the case and the stacks behind first.
	wd := time.AfterFunc(8*time.Second, func() {
		buf := make([]byte, 1<<20)
		msg := fmt.Sprintf("c14 fuzz watchdog: case still running after 8 s: %s\n%s\n", desc(), buf[:runtime.Stack(buf, true)])
		os.Stderr.WriteString(msg)
		if h.OutDir != "" {
			os.WriteFile(filepath.Join(h.OutDir, fmt.Sprintf("hang-%d.txt", os.Getpid())), []byte(msg), 0o644)
		}
	})
	defer wd.Stop()
	if err := check(&h.Rec{}); err != nil {
		t.Fatalf("%v\ncase: %s", err, desc())
	}
}

// fuzzKeyClasses: every key class of the property except the two big fixed RSA
// keys (as in TestC14_Random: they only cost time, rsa-1024 takes the same paths).
func fuzzKeyClasses(withPublic bool) []string {
	var out []string
	for _, kc := range allPrivateClasses() {
		if kc != "rsa-2048" && kc != "rsa-3072" {
			out = append(out, kc)
		}
	}
	if withPublic {
		out = append(out, sm9PubKinds...)
	}
	return out
}

// coldStart (C14_FUZZ_COLD=1, sensitivity experiments only): the seed corpus
// is reduced to ONE all-zero entry per target, to see what the search finds by
// itself, without the hostile constants of the regular seed corpus.
func coldStart(f *testing.F, n int) bool {
	if os.Getenv("C14_FUZZ_COLD") == "" {
		return false
	}
	f.Add(make([]byte, n))
	return true
}

func pick(list []string, b byte) string { return list[int(b)%len(list)] }

func le64(d []byte) uint64 { return binary.LittleEndian.Uint64(d) }

// ---------------------------------------------------------------- FuzzC14_Container

var fuzzFamilies = []string{
	// with a secret
	"p8-pbes2", "p8-pbes2lit", "p8-pbes2raw", "p8-smpbes", "p8-pbes1", "pem", "env", "cfca", "p8-convert-pw",
	// plain
	"p8-smx509", "p8-nilpw", "p8-convert", "p8-typed", "sec1", "sec1-typed", "pkcs1", "pkix", "raw-priv", "raw-pub",
	"sm9-asn1", "sm9-raw", "sm9-casn1", "sm9-craw", "sm9-craw-asn1",
}

const (
	cmRT = iota
	cmWrong
	cmAlter
	cmICV
	cmHist
)

type containerFuzzCase struct {
	S       cspec
	Mode    int
	Wrong   int
	Pos     int // per 65536 of the container length
	Val     int
	ICV     string
	Pattern string
}

const containerMinLen = 28

// decodeContainerCase: d[0] family, d[1] key class (among the classes the
// family applies to), d[2] cipher, d[3] KDF, d[4] password class, d[5] salt
// size, d[6] iterations, d[7] oracle, d[8:16] key seed, d[16:24] encoder seed,
// d[24:26] alteration position, d[26] alteration value / ICV variant,
// d[27:] decode history (operation list).
func decodeContainerCase(d []byte) (containerFuzzCase, bool) {
	var c containerFuzzCase
	if len(d) < containerMinLen {
		return c, false
	}
	s := cspec{Cont: pick(fuzzFamilies, d[0])}
	var classes []string
	for _, kc := range fuzzKeyClasses(true) {
		if applicable(kc, s.Cont) {
			classes = append(classes, kc)
		}
	}
	s.Key = pick(classes, d[1])
	s.KSeed = le64(d[8:16])
	eseed := le64(d[16:24])
	salt, iter := int(d[5])%41, 2+int(d[6])%15
	secret := true
	switch s.Cont {
	case "p8-pbes2", "p8-pbes2lit", "p8-pbes2raw":
		s.Cipher = pbes2Ciphers[int(d[2])%len(pbes2Ciphers)].name
		s.KDF = pick(kdfNames, d[3])
		if s.Cont == "p8-pbes2lit" && s.KDF == "SMPBKDF2-SM3" {
			s.KDF = "PBKDF2-SM3" // no exported literal form selects the ShangMi PBKDF OID
		}
		s.Pw, s.Salt, s.Iter, s.ESeed = 1+int(d[4])%4, salt, iter, eseed
		if s.Cont == "p8-pbes2raw" {
			s.Pw = int(d[4]) % 5 // the encrypter itself admits the empty password
		}
	case "p8-smpbes":
		s.Cipher, s.KDF = "SM4-CBC", pick(kdfNames, d[3])
		s.Pw, s.Salt, s.Iter, s.ESeed = 1+int(d[4])%4, salt, iter, eseed
	case "p8-pbes1":
		s.Cipher = pick(pbes1Names, d[2])
		s.Pw, s.Salt, s.Iter, s.ESeed = 1+int(d[4])%4, salt, iter, eseed
	case "pem":
		s.Cipher = pemCiphers[int(d[2])%len(pemCiphers)].name
		s.Pw, s.ESeed = int(d[4])%5, eseed
	case "env":
		s.ESeed = eseed
	case "cfca":
		s.Pw, s.ESeed = 1+int(d[4])%4, eseed
	case "p8-convert-pw":
		s.Cipher, s.KDF, s.Pw, s.ESeed = "AES256-CBC", "PBKDF2-SHA256", 1+int(d[4])%4, eseed
	default:
		secret = false
	}
	c.S = s
	c.Pos = int(binary.LittleEndian.Uint16(d[24:26]))
	c.Val = int(d[26]) % nAlterValues
	ops := d[27:]
	if len(ops) > 9 {
		ops = ops[:9]
	}
	if secret {
		switch m := int(d[7]) % 8; {
		case m == 0:
			c.Mode = cmRT
		case m <= 4:
			c.Mode, c.Wrong = cmWrong, m
		case m == 5:
			c.Mode = cmAlter
		case m == 6 && s.Cont == "p8-pbes2" && cipherByName(s.Cipher).mode == "gcm":
			c.Mode, c.ICV = cmICV, pick(icvVariants, d[26])
		case m == 6:
			c.Mode = cmAlter
		default:
			c.Mode = cmHist
			for _, o := range ops {
				c.Pattern += string("RabcdR"[int(o)%6])
			}
			if len(c.Pattern) < 2 {
				c.Pattern += "aR"
			}
		}
	} else {
		switch int(d[7]) % 3 {
		case 0:
			c.Mode = cmRT
		case 1:
			c.Mode = cmAlter
		default:
			c.Mode, c.Pattern = cmHist, "RRR"[:2+len(ops)%2]
		}
	}
	return c, true
}

func checkContainerFuzz(c containerFuzzCase, r *h.Rec) error {
	// the round trip with the right secret is part of every case
	if err := checkRT(rtCase{c.S, 0}, r); err != nil {
		return err
	}
	switch c.Mode {
	case cmWrong:
		return checkRT(rtCase{c.S, c.Wrong}, &h.Rec{})
	case cmAlter:
		n := len(build(c.S).blob)
		return checkAlter(altCase{c.S, c.Pos * n / 65536, c.Val}, &h.Rec{})
	case cmICV:
		return checkICV(icvCase{c.S, c.ICV}, &h.Rec{})
	case cmHist:
		return checkDecHist(decHistCase{c.S, c.Pattern}, &h.Rec{})
	}
	return nil
}

func FuzzC14_Container(f *testing.F) {
	cold := coldStart(f, containerMinLen+8)
	seed := func(family string, key, cipher, kdf, pw, salt, iter, mode byte, pos uint16, val byte, ops ...byte) {
		if cold {
			return
		}
		d := make([]byte, containerMinLen-1, containerMinLen+len(ops))
		for i, fam := range fuzzFamilies {
			if fam == family {
				d[0] = byte(i)
			}
		}
		d[1], d[2], d[3], d[4], d[5], d[6], d[7] = key, cipher, kdf, pw, salt, iter, mode
		for i := 8; i < 24; i++ {
			d[i] = byte(i*29 + int(key))
		}
		binary.LittleEndian.PutUint16(d[24:], pos)
		d[26] = val
		d = append(d, ops...)
		if len(d) < containerMinLen {
			d = append(d, 0)
		}
		f.Add(d)
	}
	// (a) typical cases: every family once with its round trip, the secret ones
	// also with a wrong secret / an alteration / a decode history
	for i, fam := range fuzzFamilies {
		seed(fam, byte(3*i+4), byte(i), byte(2*i+1), byte(i), 8, byte(i), 0, 0, 0)
	}
	seed("p8-pbes2", 4, 2, 7, 1, 8, 3, 1, 0, 0)           // SM4-GCM / PBKDF2-SM3, sm2-lz1, wrong: bit flip
	seed("p8-pbes2", 1, 5, 9, 2, 16, 5, 6, 0, 0)          // AES128-GCM / scrypt, ICV = 12
	seed("p8-pbes2", 5, 7, 0, 3, 0, 2, 6, 0, 5)           // AES192-GCM, salt 0, ICV = -16
	seed("p8-pbes2", 3, 0, 8, 1, 33, 14, 5, 0x8000, 7)    // SM4-ECB / SM PBKDF2, n-2, alter the middle
	seed("p8-pbes2", 14, 10, 4, 2, 1, 2, 7, 0, 0, 1, 0)   // DES-CBC, sign master lz1, history aR
	seed("p8-pbes2raw", 8, 3, 2, 0, 8, 3, 4, 0, 0)        // bare SM4 OID, empty password, wrong: empty n/a
	seed("p8-pbes2lit", 30, 9, 8, 4, 40, 16, 3, 0, 0)     // AES256-GCM, literal options, wrong: extended
	seed("p8-smpbes", 0, 0, 8, 3, 8, 2, 7, 0, 0, 3, 4, 0) // history c d R
	seed("p8-pbes1", 15, 3, 0, 1, 8, 2, 2, 0, 0)          // MD5-RC2, wrong: truncated
	seed("p8-pbes1", 20, 4, 0, 2, 0, 9, 5, 0xffff, 9)     // SHA1-DES, salt 0, alter the last byte -> ff
	seed("pem", 6, 5, 0, 0, 0, 0, 7, 0, 0, 1, 0, 2, 0)    // PEM-SM4, empty password, history aRbR
	seed("pem", 19, 0, 0, 3, 0, 0, 5, 0x4000, 0)          // PEM-DES
	seed("pem", 27, 1, 0, 2, 0, 0, 1, 0, 0)               // PEM-3DES, P-521
	seed("env", 1, 0, 0, 0, 0, 0, 1, 0, 0)                // d = 1, unwrapping key with one bit flipped
	seed("env", 4, 0, 0, 0, 0, 0, 3, 0, 0)                // lz1, unwrapping key = the enveloped key
	seed("env", 6, 0, 0, 0, 0, 0, 5, 0xc000, 8)           // lz3, alter -> 00 in the encrypted key
	seed("env", 7, 0, 0, 0, 0, 0, 7, 0, 0, 2, 2, 0, 0)    // history b b R R
	seed("cfca", 5, 0, 0, 1, 0, 0, 0, 0, 0)               // lz2 (the blob stores the minimal-length scalar)
	seed("cfca", 3, 0, 0, 3, 0, 0, 4, 0, 0)               // n-2, wrong: empty
	seed("cfca", 2, 0, 0, 2, 0, 0, 5, 0x0800, 0)          // alteration near the front
	seed("cfca", 6, 0, 0, 4, 0, 0, 7, 0, 0, 4, 0, 1, 0)   // history d R a R
	// (b) plain containers of edge / leading-zero keys with an alteration or a repeated decode
	seed("sec1", 4, 0, 0, 0, 0, 0, 1, 0x1000, 0)        // the privateKey OCTET STRING of an lz key
	seed("sec1-typed", 11, 0, 0, 0, 0, 0, 1, 0x0400, 1) // P-521 top
	seed("p8-typed", 12, 0, 0, 0, 0, 0, 2, 0, 0)
	seed("raw-priv", 9, 0, 0, 0, 0, 0, 2, 0, 0, 1) // ECDH raw scalar decoded three times
	seed("raw-priv", 3, 0, 0, 0, 0, 0, 1, 0, 7)    // n-2 with the top bit flipped
	seed("raw-pub", 0, 0, 0, 0, 0, 0, 1, 0, 1)     // point prefix 04 -> 06
	seed("sm9-craw", 3, 0, 0, 0, 0, 0, 0, 0, 0)    // compressed G1 / G2 points
	seed("sm9-craw", 0, 0, 0, 0, 0, 0, 1, 0, 0)    // prefix 02 <-> 03
	seed("sm9-craw-asn1", 1, 0, 0, 0, 0, 0, 2, 0, 0)
	seed("sm9-asn1", 1, 0, 0, 0, 0, 0, 1, 0x2000, 9)
	seed("pkix", 2, 0, 0, 0, 0, 0, 1, 0xfff0, 0)
	f.Fuzz(func(t *testing.T, data []byte) {
		c, ok := decodeContainerCase(data)
		if !ok {
			return
		}
		fuzzRun(t, func() string { return fmt.Sprintf("%+v", c) }, func(r *h.Rec) error { return checkContainerFuzz(c, r) })
	})
}

// ---------------------------------------------------------------- FuzzC14_Scalar

// scalarDomain: order, octet width and largest valid scalar of a planting target.
func scalarDomain(target string) (n *big.Int, size int, max *big.Int) {
	switch {
	case isNISTTarget(target):
		curve, _, _ := nistCurveOf(target)
		n = curve.Params().N
		return n, (n.BitLen() + 7) / 8, new(big.Int).Sub(n, one)
	case hasPrefix(target, "sm9-asn1-") || hasPrefix(target, "p8-sm9-"):
		return sm9N, 32, new(big.Int).Sub(sm9N, two)
	}
	return sm2N, 32, sm2Nm2
}

const scalarMinLen = 13

// decodeScalarCase: d[0] planting target, d[1] shape (bits 0-1 how the value is
// made, bits 2-3 how its width is changed), d[2], d[3] parameters, d[4:12]
// seed (carrier key, password, encoder randomness), d[12:] octets.
//
//	value: 0 the octets as they are (any width 0 .. 2*size+3)
//	       1 n + delta, delta = int8(d[2])
//	       2 a uniform VALID scalar from the octets
//	       3 a boundary constant (d[2])
//	width: 0 as it is (fixed width for values 1-3)
//	       1 leading zero octets stripped
//	       2 1 + d[3] % (size+2) zero octets in front
//	       3 a non-zero octet and d[3]>>4 zero octets in front: v + j*2^(8w)
//	         with a valid low part
func decodeScalarCase(d []byte) (rangeCase, bool) {
	if len(d) < scalarMinLen {
		return rangeCase{}, false
	}
	c := rangeCase{Target: pick(rangeTargets, d[0]), Seed: le64(d[4:12])}
	n, size, max := scalarDomain(c.Target)
	payload := d[12:]
	maxLen := 2*size + 3
	fixed := func(v *big.Int) []byte {
		if v.Sign() < 0 {
			v = new(big.Int)
		}
		if v.BitLen() > 8*size {
			return v.Bytes()
		}
		return v.FillBytes(make([]byte, size))
	}
	var enc []byte
	switch d[1] & 3 {
	case 0:
		l := int(d[2]) % (maxLen + 1)
		if l > len(payload) {
			l = len(payload)
		}
		enc = append([]byte{}, payload[:l]...)
	case 1:
		enc = fixed(new(big.Int).Add(n, big.NewInt(int64(int8(d[2])))))
	case 2:
		v := new(big.Int).SetBytes(payload)
		enc = fixed(v.Add(v.Mod(v, max), one))
	default:
		nbits := new(big.Int).Lsh(one, uint(n.BitLen()))
		bits := new(big.Int).Lsh(one, uint(8*size))
		consts := []*big.Int{
			new(big.Int), one, two, max, new(big.Int).Add(max, one), n, new(big.Int).Add(n, one),
			new(big.Int).Sub(new(big.Int).Lsh(n, 1), one), new(big.Int).Lsh(n, 1), new(big.Int).Add(new(big.Int).Lsh(n, 1), one),
			new(big.Int).Sub(nbits, one), nbits, new(big.Int).Sub(bits, one), bits, new(big.Int).Add(bits, one),
			new(big.Int).Add(bits, max), new(big.Int).Rsh(n, 1), new(big.Int).Lsh(one, uint(8*(size-1))),
			new(big.Int).Sub(new(big.Int).Lsh(one, uint(8*(size-1))), one),
		}
		enc = fixed(consts[int(d[2])%len(consts)])
	}
	switch (d[1] >> 2) & 3 {
	case 1:
		for len(enc) > 0 && enc[0] == 0 {
			enc = enc[1:]
		}
	case 2:
		enc = append(make([]byte, 1+int(d[3])%(size+2)), enc...)
	case 3:
		enc = append(append([]byte{d[3] | 1}, make([]byte, int(d[3]>>4))...), enc...)
	}
	if len(enc) > maxLen {
		enc = enc[:maxLen]
	}
	c.Scalar = "raw:" + hex.EncodeToString(enc)
	return c, true
}

func FuzzC14_Scalar(f *testing.F) {
	cold := coldStart(f, scalarMinLen+40)
	seed := func(target int, shape, p2, p3 byte, payload []byte) {
		if cold {
			return
		}
		d := make([]byte, 12, 12+len(payload)+1)
		d[0], d[1], d[2], d[3] = byte(target), shape, p2, p3
		for i := 4; i < 12; i++ {
			d[i] = byte(i*31 + target)
		}
		d = append(d, payload...)
		if len(d) < scalarMinLen {
			d = append(d, 0)
		}
		f.Add(d)
	}
	mid := gen.Fill(0xc14f, 66)
	mid[0], mid[1] = 0, 0
	ff := make([]byte, 140)
	for i := range ff {
		ff[i] = 0xff
	}
	// the shapes rotate over the planting targets (two per target)
	shapes := []struct {
		shape, p2, p3 byte
		payload       []byte
	}{
		{2, 0, 0, mid[2:]},           // a valid scalar, fixed width
		{3, 5, 0, nil},               // n
		{2 | 1<<2, 0, 0, mid[:40]},   // valid, leading zeros stripped
		{3, 4, 0, nil},               // largest valid + 1
		{2 | 2<<2, 0, 0, mid[5:]},    // valid, one zero octet in front
		{1, 0xff, 0, nil},            // n - 1
		{0, 32, 0, mid},              // 32 octets as they are (two leading zeros)
		{3, 0, 0, nil},               // zero, fixed width
		{0, 0, 0, nil},               // empty
		{3, 12, 0, nil},              // 2^(8 size) - 1
		{2 | 3<<2, 0, 0x01, mid[9:]}, // 2^(8 size) + valid
		{3, 3, 0, nil},               // largest valid
		{0, 33, 0, ff},               // size + 1 (or half) octets of ff
		{3, 10, 0, nil},              // 2^nbits - 1
		{3 | 1<<2, 1, 0, nil},        // one, stripped to a single octet
		{1, 1, 0, nil},               // n + 1
		{0, 1, 0, []byte{0}},         // a single zero octet
		{2 | 3<<2, 0, 0x37, mid[3:]}, // j*2^(8(size+3)) + valid
		{3 | 2<<2, 16, 31, nil},      // n/2 with zero octets in front
		{3, 13, 0, nil},              // 2^(8 size)
	}
	for i := range rangeTargets {
		for k := 0; k < 2; k++ {
			s := shapes[(2*i+k*7+i/10)%len(shapes)]
			seed(i, s.shape, s.p2, s.p3, s.payload)
		}
	}
	f.Fuzz(func(t *testing.T, data []byte) {
		c, ok := decodeScalarCase(data)
		if !ok {
			return
		}
		fuzzRun(t, func() string { return fmt.Sprintf("%+v", c) }, func(r *h.Rec) error { return checkRange(c, r) })
	})
}

// ---------------------------------------------------------------- FuzzC14_Producer

const producerMinLen = 25

var (
	fuzzLayers   = []string{"cipher", "pbes2", "smpbes", "pbes1", "pem", "p8-measured"}
	fuzzHistFams = []string{"p8-pbes1", "p8-pbes2", "p8-pbes2lit", "p8-smpbes", "p8-default", "pbes2-encrypter", "pem", "env", "cfca",
		"p8-plain", "sec1", "pkcs1", "sm9-asn1", "sm9-raw"}
)

func pemCipherNames() []string {
	var out []string
	for _, pc := range pemCiphers {
		out = append(out, pc.name)
	}
	return out
}

func isECClass(kc string) bool {
	return hasPrefix(kc, "sm2-") || hasPrefix(kc, "ecdh-") || isNISTClass(kc)
}

// decodeForeign: d[1] group, d[2] flags, d[3] form, d[4] cipher, d[5]
// password class, d[6] salt / iteration rotation, d[7] key class.
func decodeForeign(d []byte) foreignCase {
	c := foreignCase{KSeed: le64(d[8:16]), Seed: le64(d[16:24])}
	classes := fuzzKeyClasses(false)
	switch d[1] % 5 {
	case 0: // PBES2 / SM-PBES: scheme OID x KDF parameter form x cipher (x alternative encryption-scheme form)
		ce := pbes2Ciphers[int(d[4])%len(pbes2Ciphers)]
		c.Variant = []string{"pbes2:", "smpbes:"}[d[2]&1] + pick(pbes2KDFVariants, d[3])
		if d[2]&2 != 0 {
			// the alternative encryption-scheme forms that exist for the cipher's mode
			var forms []string
			for _, ef := range pbes2EncForms {
				if hasPrefix(ef, "gcm-") && ce.mode == "gcm" || !hasPrefix(ef, "gcm-") && ce.name == "SM4-ECB" {
					forms = append(forms, ef)
				}
			}
			if len(forms) > 0 {
				c.Variant += "/" + pick(forms, d[2]>>2)
			}
		}
		c.Cipher, c.Key, c.Pw, c.I = ce.name, pick(classes, d[7]), int(d[5])%5, int(d[6])
	case 1: // plain PKCS#8 forms
		c.Key = pick(classes, d[7])
		var vs []string
		for _, v := range plainP8Variants {
			switch {
			case hasPrefix(v, "ec/") && (!isECClass(c.Key) || hasPrefix(c.Key, "ecdh-")), v == "ec/alg=sm2-oid" && !hasPrefix(c.Key, "sm2-"), hasPrefix(v, "rsa/") && !hasPrefix(c.Key, "rsa-"):
				continue
			}
			vs = append(vs, v)
		}
		c.Variant = "p8:" + pick(vs, d[3])
	case 2: // SEC1 forms
		var ec []string
		for _, kc := range classes {
			if hasPrefix(kc, "sm2-") || isNISTClass(kc) {
				ec = append(ec, kc)
			}
		}
		c.Key, c.Variant = pick(ec, d[7]), "sec1:"+pick(sec1Variants, d[3])
	case 3: // legacy PEM forms
		c.Key, c.Variant, c.Cipher, c.Pw = pick(classes, d[7]), "pem:"+pick(pemVariants, d[3]), pick(pemCipherNames(), d[4]), int(d[5])%5
	default: // SM9 forms
		c.Key = pick(append(append([]string{}, sm9PrivKinds...), sm9PubKinds...), d[7])
		isPub := c.Key == "sm9-signmasterpub" || c.Key == "sm9-encmasterpub"
		isMaster := (hasPrefix(c.Key, "sm9-signmaster") || hasPrefix(c.Key, "sm9-encmaster")) && !isPub
		var vs []string
		for _, v := range sm9Variants {
			if (hasPrefix(v, "master/") || hasPrefix(v, "p8-master/")) == isMaster && hasPrefix(v, "pub/") == isPub && hasPrefix(v, "user/") == (!isMaster && !isPub) {
				vs = append(vs, v)
			}
		}
		c.Variant = "sm9:" + pick(vs, d[3])
	}
	return c
}

// decodeLayer: d[1] layer, d[2] cipher, d[3] KDF, d[4:6] plaintext length, d[6]
// ending, d[7] key class (inner PKCS#8 made to measure).
func decodeLayer(d []byte) layerCase {
	c := layerCase{Layer: pick(fuzzLayers, d[1]), Ending: pick(layerEndings, d[6]), Seed: le64(d[8:16])}
	c.Len = int(binary.LittleEndian.Uint16(d[4:6])) % 301 // up to 18 blocks + 12
	switch c.Layer {
	case "cipher", "pbes2":
		c.Cipher = pbes2Ciphers[int(d[2])%len(pbes2Ciphers)].name
	case "smpbes":
		c.Cipher = "SM4-CBC"
	case "pbes1":
		c.Cipher = pick(pbes1Names, d[2])
	case "pem":
		c.Cipher = pick(pemCipherNames(), d[2])
	case "p8-measured":
		c.Cipher = pbes2Ciphers[int(d[2])%len(pbes2Ciphers)].name
		c.Key = pick(fuzzKeyClasses(false), d[7])
		c.Len %= 16
		c.Ending = ""
	}
	if c.Layer == "pbes2" || c.Layer == "smpbes" || c.Layer == "p8-measured" {
		c.KDF = pick(kdfNames, d[3])
	}
	return c
}

// decodeEncHist: d[1] family, d[2] cipher, d[3] KDF, d[5] salt, d[6]
// iterations, d[8:16] / d[16:24] seeds, d[24:] the operation list: three
// octets per encoding (key class, key seed selector, password class and
// password seed selector), 2 to 6 encodings by ONE encoder object. The seed
// selectors have two bits each, so the same key and the same password recur.
func decodeEncHist(d []byte) encHistCase {
	c := encHistCase{Family: pick(fuzzHistFams, d[1]), Seed: le64(d[8:16])}
	salt, iter := int(d[5])%41, 2+int(d[6])%15
	classes := fuzzKeyClasses(false)
	switch c.Family {
	case "p8-pbes1":
		c.Cipher, c.Salt, c.Iter = pick(pbes1Names, d[2]), salt, iter
	case "p8-pbes2", "p8-pbes2lit", "pbes2-encrypter":
		c.Cipher, c.KDF, c.Salt, c.Iter = pbes2Ciphers[int(d[2])%len(pbes2Ciphers)].name, pick(kdfNames, d[3]), salt, iter
		if c.Family == "p8-pbes2lit" && c.KDF == "SMPBKDF2-SM3" {
			c.KDF = "PBKDF2-SM3"
		}
	case "p8-smpbes":
		c.Cipher, c.KDF, c.Salt, c.Iter = "SM4-CBC", pick(kdfNames, d[3]), salt, iter
	case "p8-default":
		c.Cipher, c.KDF = "AES256-CBC", "PBKDF2-SHA256"
	case "pem":
		c.Cipher = pick(pemCipherNames(), d[2])
	case "env", "cfca":
		classes = sm2Classes
	case "sec1":
		classes = nil
		for _, kc := range fuzzKeyClasses(false) {
			if hasPrefix(kc, "sm2-") || isNISTClass(kc) {
				classes = append(classes, kc)
			}
		}
	case "pkcs1":
		classes = rsaClasses
	case "sm9-asn1":
		classes = append(append([]string{}, sm9PrivKinds...), sm9PubKinds...)
	case "sm9-raw":
		classes = []string{"sm9-signuser", "sm9-encuser", "sm9-signmasterpub", "sm9-encmasterpub"}
	}
	kbase, pbase := le64(d[8:16]), le64(d[16:24])
	ops := d[24:]
	n := len(ops) / 3
	if n > 6 {
		n = 6
	}
	for i := 0; i < n || i < 2; i++ {
		var o [3]byte
		if i < n {
			copy(o[:], ops[3*i:])
		} else {
			o = [3]byte{byte(kbase >> (8 * uint(i))), byte(i), byte(pbase>>(8*uint(i))) | byte(i<<4)}
		}
		pw := 1 + int(o[2]&15)%4
		if c.Family == "pbes2-encrypter" || c.Family == "pem" {
			pw = int(o[2]&15) % 5 // the empty password too
		}
		c.Steps = append(c.Steps, encStep{Key: pick(classes, o[0]), KSeed: gen.Mix(kbase, 0x5eed, uint64(o[1]&3)), Pw: pw, PSeed: gen.Mix(pbase, 0x9a55, uint64(o[2]>>4)&3)})
	}
	return c
}

func decodeKeyType(d []byte) typeCase {
	return typeCase{Type: pick(sdkTypes, d[1]), Shape: pick(sdkShapes, d[2]), Seed: le64(d[8:16]),
		Cipher: pbes2Ciphers[int(d[4])%len(pbes2Ciphers)].name, KDF: pick(kdfNames, d[3])}
}

// FuzzC14_Producer: d[0] selects the oracle (foreign-producer form, encryption
// layer, encoder-reuse history, accepted key type).
func FuzzC14_Producer(f *testing.F) {
	cold := coldStart(f, producerMinLen+17)
	seed := func(b ...byte) {
		if cold {
			return
		}
		d := make([]byte, producerMinLen)
		copy(d, b)
		for i := 8; i < 24; i++ {
			d[i] = byte(i*53 + int(d[1]) + int(d[7]))
		}
		if len(b) > 24 {
			d = append(d[:24], b[24:]...)
		}
		f.Add(d)
	}
	ops := func(head []byte, o ...byte) []byte { // head: d[0:8]; o: the operation list at d[24:]
		d := make([]byte, 24, 24+len(o))
		copy(d, head)
		return append(d, o...)
	}
	// foreign-producer forms
	seed(0, 0, 0, 0, 1, 1, 3, 4)   // PBES2, PBKDF2 prf omitted + keyLength, SM4-CBC
	seed(0, 0, 1, 11, 1, 2, 9, 9)  // SM-PBES, SM PBKDF prf omitted, no keyLength
	seed(0, 0, 1, 13, 4, 0, 5, 14) // SM PBKDF with a foreign explicit prf, AES128-CBC, empty password
	seed(0, 0, 0, 15, 0, 3, 7, 20) // scrypt without keyLength, SM4-ECB
	seed(0, 0, 2, 14, 2, 4, 2, 1)  // SM4-GCM, ICVlen omitted, 12-byte tag (refused)
	seed(0, 0, 6, 1, 5, 1, 4, 6)   // AES128-GCM, ICVlen 12
	seed(0, 0, 18, 2, 9, 2, 3, 19) // AES256-GCM, 13-octet nonce
	seed(0, 0, 2, 10, 0, 2, 6, 3)  // SM4-ECB with NULL parameters
	seed(0, 0, 7, 0, 0, 1, 8, 30)  // bare SM4 OID without parameters (ECB), smpbes
	seed(0, 0, 0, 7, 11, 3, 1, 17) // 3DES, HMAC-SHA512/224
	seed(0, 1, 0, 0, 0, 0, 0, 4)   // p8: ECPrivateKey with params + pub, sm2-lz1
	seed(0, 1, 0, 3, 0, 0, 0, 27)  // p8: bare inner, P-521
	seed(0, 1, 0, 4, 0, 0, 0, 2)   // p8: SM2 OID as algorithm
	seed(0, 1, 0, 1, 0, 0, 0, 11)  // p8: v1 + publicKey[1], SM9
	seed(0, 1, 0, 2, 0, 0, 0, 17)  // p8: RSA / attributes
	seed(0, 2, 0, 1, 0, 0, 0, 5)   // sec1: params only
	seed(0, 2, 0, 3, 0, 0, 0, 12)  // sec1: bare (no curve named: refused)
	seed(0, 3, 0, 1, 5, 0, 0, 6)   // pem: lower-case IV, SM4, empty password
	seed(0, 3, 0, 3, 1, 2, 0, 15)  // pem: headers reordered, 3DES
	seed(0, 4, 0, 3, 0, 0, 0, 0)   // sm9: master SEQUENCE{int, foreign pub}
	seed(0, 4, 0, 5, 0, 0, 0, 2)   // sm9: PKCS#8 master with a foreign public copy
	seed(0, 4, 0, 3, 0, 0, 0, 4)   // sm9: user key, compressed points
	seed(0, 4, 0, 2, 0, 0, 0, 7)   // sm9: public key, compressed BIT STRING
	// encryption layers: lengths around block multiples, padding-like endings
	seed(1, 0, 0, 0, 16, 0, 0)    // SM4-ECB, one whole block
	seed(1, 0, 0, 0, 32, 0, 1)    // two blocks ending 01
	seed(1, 0, 1, 0, 0, 0, 0)     // SM4-CBC, empty
	seed(1, 0, 2, 0, 255, 0, 2)   // SM4-GCM, 255 bytes
	seed(1, 0, 10, 0, 8, 0, 3)    // DES, one block ending in a block of 08
	seed(1, 0, 9, 0, 0, 1, 4)     // AES256-GCM, 256 bytes ending 00
	seed(1, 1, 0, 9, 48, 0, 3)    // PBES2 SM4-ECB / scrypt, 3 blocks ending in a padding block
	seed(1, 1, 8, 8, 15, 0, 0)    // PBES2 AES256-CBC / SM PBKDF2
	seed(1, 2, 0, 7, 17, 0, 1)    // SM-PBES
	seed(1, 3, 1, 0, 8, 0, 3)     // PBES1 MD2-RC2
	seed(1, 3, 4, 0, 7, 0, 0)     // PBES1 SHA1-DES
	seed(1, 4, 5, 0, 64, 0, 3)    // PEM-SM4
	seed(1, 4, 0, 0, 1, 0, 1)     // PEM-DES
	seed(1, 5, 0, 2, 0, 0, 0, 17) // inner PKCS#8 made to measure: RSA, 0 mod 16, SM4-ECB
	seed(1, 5, 2, 5, 15, 0, 0, 4) // sm2-lz1, 15 mod 16, SM4-GCM
	// encoder-reuse histories
	seed(ops([]byte{2, 0, 2, 0, 0, 8, 3}, 4, 0, 0x01, 9, 1, 0x12)...)                             // PBES1: two keys, two passwords
	seed(ops([]byte{2, 0, 5, 0, 0, 0, 9}, 4, 0, 0x01, 4, 0, 0x12, 17, 1, 0x01)...)                // same key twice, first password again
	seed(ops([]byte{2, 1, 2, 7, 0, 16, 2}, 14, 0, 0x03, 26, 1, 0x14, 11, 2, 0x21, 8, 3, 0x03)...) // PBES2 SM4-GCM, four encodings
	seed(ops([]byte{2, 2, 6, 9, 0, 8, 4}, 0, 0, 0x02, 1, 1, 0x11)...)                             // literal options, scrypt
	seed(ops([]byte{2, 3, 0, 8, 0, 1, 5}, 5, 0, 0x00, 6, 0, 0x13)...)                             // SM-PBES
	seed(ops([]byte{2, 4}, 4, 0, 0x01, 20, 1, 0x12)...)                                           // package-level DefaultOpts
	seed(ops([]byte{2, 5, 0, 3, 0, 8, 3}, 12, 0, 0x00, 13, 1, 0x14, 2, 2, 0x00)...)               // encrypter called directly, empty password
	seed(ops([]byte{2, 6, 5}, 4, 0, 0x00, 16, 1, 0x11, 21, 2, 0x22)...)                           // PEM-SM4
	seed(ops([]byte{2, 7}, 1, 0, 0x00, 4, 1, 0x10, 3, 2, 0x20)...)                                // enveloped keys, one random reader
	seed(ops([]byte{2, 8}, 5, 0, 0x01, 7, 1, 0x12)...)                                            // CFCA blobs
	seed(ops([]byte{2, 9}, 4, 0, 0, 15, 1, 0)...)                                                 // plain PKCS#8
	seed(ops([]byte{2, 10}, 6, 0, 0, 14, 1, 0)...)                                                // SEC1
	seed(ops([]byte{2, 11}, 0, 0, 0, 2, 0, 0)...)                                                 // PKCS#1
	seed(ops([]byte{2, 12}, 4, 0, 0, 4, 0, 0, 2, 1, 0, 2, 1, 0)...)                               // SM9 ASN.1: pairs of the same key
	seed(ops([]byte{2, 13}, 1, 0, 0, 1, 0, 0, 2, 1, 0, 2, 1, 0)...)                               // SM9 raw
	// accepted key types
	seed(3, 0, 0, 2, 0)  // crypto/ecdh P-256
	seed(3, 2, 2, 9, 2)  // P-521, maximal scalar
	seed(3, 3, 1, 7, 5)  // X25519
	seed(3, 4, 0, 0, 10) // ed25519
	seed(3, 5, 1, 0, 0)  // DSA public key (parse only)
	f.Fuzz(func(t *testing.T, data []byte) {
		if len(data) < producerMinLen {
			return
		}
		switch data[0] % 4 {
		case 0:
			c := decodeForeign(data)
			fuzzRun(t, func() string { return fmt.Sprintf("%+v", c) }, func(r *h.Rec) error { return checkForeign(c, r) })
		case 1:
			c := decodeLayer(data)
			fuzzRun(t, func() string { return fmt.Sprintf("%+v", c) }, func(r *h.Rec) error { return checkLayer(c, r) })
		case 2:
			c := decodeEncHist(data)
			fuzzRun(t, func() string { return fmt.Sprintf("%+v", c) }, func(r *h.Rec) error { return checkEncHist(c, r) })
		default:
			c := decodeKeyType(data)
			fuzzRun(t, func() string { return fmt.Sprintf("%+v", c) }, func(r *h.Rec) error { return checkKeyType(c, r) })
		}
	})
}
