package c14

import (
	"fmt"
	"testing"

	"github.com/emmansun/gmsm/sm3"
	"github.com/emmansun/gmsm/sm4"
	"pgregory.net/rapid"
	"verif/harness/gen"
	"verif/harness/h"
)

var (
	saltSizes = []int{8, 16, 1, 33, 0}
)

func iterFor(i int) int { return 2 + i%15 } // 2..16: small, and never 1 (0/negative counts behave like 1 in PBKDF2)

// keySeeds are the seeds the enumerated sweeps build their keys from.
func keySeeds(n int) []uint64 {
	out := make([]uint64, n)
	for i := range out {
		out[i] = gen.Mix(h.Seed, 0xc14, uint64(i))
	}
	return out
}

func observeOnce() {
	h.Observe("c14.cfg", h.Cfg)
	// which implementations the configuration selected underneath the containers
	if blk, err := sm4.NewCipher(make([]byte, 16)); err == nil {
		h.Observe("c14.sm4.block", fmt.Sprintf("%T", blk))
	}
	h.Observe("c14.sm3.hash", fmt.Sprintf("%T", sm3.New()))
}

// ---------------------------------------------------------------- plain containers

var plainContainers = []string{"p8-smx509", "p8-nilpw", "p8-convert", "p8-typed", "sec1", "sec1-typed", "pkcs1", "pkix", "raw-priv", "raw-pub",
	"sm9-asn1", "sm9-raw", "sm9-casn1", "sm9-craw", "sm9-craw-asn1"}

func TestC14_Plain(t *testing.T) {
	observeOnce()
	classes := append(allPrivateClasses(), sm9PubKinds...)
	h.Sweep(t, h.P{Name: "plain-roundtrip"}, func(emit func(rtCase)) {
		for _, ks := range keySeeds(h.Scale(4, 150)) {
			for _, kc := range classes {
				if hasPrefix(kc, "rsa-") && ks != keySeeds(1)[0] {
					continue // the RSA keys are fixed
				}
				for _, cont := range plainContainers {
					if applicable(kc, cont) {
						emit(rtCase{cspec{Key: kc, KSeed: ks, Cont: cont}, 0})
					}
				}
			}
		}
	}, checkRT)
	h.Sweep(t, h.P{Name: "sm9-user-key-without-master-public"}, func(emit func(noMasterCase)) {
		enumNoMaster(keySeeds(h.Scale(3, 60)), emit)
	}, checkNoMaster)
}

// ---------------------------------------------------------------- PBES2 / SM-PBES full product

func TestC14_PBES2(t *testing.T) {
	observeOnce()
	h.MarkExhaustive("pbes2-product")
	// thorough: the whole product six times, each pass with other key seeds,
	// salt sizes, iteration counts / scrypt costs and encoder randomness
	seeds := keySeeds(h.Scale(1, 6))
	h.Sweep(t, h.P{Name: "pbes2-product"}, func(emit func(rtCase)) {
		i := 0
		emitAll := func(s cspec) {
			for w := 0; w <= 4; w++ {
				emit(rtCase{s, w})
			}
		}
		for pass, ks := range seeds {
			for _, kc := range productClasses() {
				if hasPrefix(kc, "rsa-") && pass > 0 && pass%3 != 0 {
					continue // the RSA keys are fixed; repeat them for the parameters only now and then
				}
				for _, ce := range pbes2Ciphers {
					for _, kdf := range kdfNames {
						for pw := 1; pw <= 3; pw++ {
							i++
							emitAll(cspec{Key: kc, KSeed: ks, Cont: "p8-pbes2", Cipher: ce.name, KDF: kdf, Pw: pw,
								Salt: saltSizes[(i+pass)%len(saltSizes)], Iter: iterFor(i + 7*pass), ESeed: gen.Mix(h.Seed, uint64(i))})
						}
					}
				}
				// SM-PBES: SM4-CBC under the ShangMi PBES OID, every KDF
				for _, kdf := range kdfNames {
					for pw := 1; pw <= 3; pw++ {
						i++
						emitAll(cspec{Key: kc, KSeed: ks, Cont: "p8-smpbes", Cipher: "SM4-CBC", KDF: kdf, Pw: pw,
							Salt: saltSizes[(i+pass)%len(saltSizes)], Iter: iterFor(i + 7*pass), ESeed: gen.Mix(h.Seed, uint64(i))})
					}
				}
			}
		}
	}, checkRT)
}

// TestC14_PBES2Variants: the other ways of reaching the same schemes - option
// struct literals, the encrypter called directly with an empty password,
// ConvertPrivateKeyToPKCS8 with the default options - for every cipher x KDF.
func TestC14_PBES2Variants(t *testing.T) {
	observeOnce()
	ks := keySeeds(2)[1]
	keys := []string{"sm2-lz1", "sm9-encuser", "p256-lz1", "rsa-1024", "ecdh-uniform", "sm2-n-2", "sm9-signmaster-lz1", "p521-lz1", "p224-uniform", "rsa-3072", "p521-top"}
	if h.Thorough() {
		keys = allPrivateClasses()
	}
	h.Sweep(t, h.P{Name: "pbes2-variants"}, func(emit func(rtCase)) {
		i := 0
		for pass := 0; pass < h.Scale(1, len(keys)); pass++ {
			i += pass // another key class, password class and parameters for each scheme in each pass
			for _, ce := range pbes2Ciphers {
				for _, kdf := range kdfNames {
					i++
					kc := keys[i%len(keys)]
					for w := 0; w <= 4; w++ {
						if kdf != "SMPBKDF2-SM3" { // no exported literal form selects the ShangMi PBKDF OID
							emit(rtCase{cspec{Key: kc, KSeed: ks, Cont: "p8-pbes2lit", Cipher: ce.name, KDF: kdf, Pw: 1 + i%4,
								Salt: saltSizes[i%len(saltSizes)], Iter: iterFor(i), ESeed: gen.Mix(h.Seed, 0x117, uint64(i))}, w})
						}
						// empty password directly through the encrypter (pkcs8.MarshalPrivateKey reads it as "no encryption")
						emit(rtCase{cspec{Key: kc, KSeed: ks, Cont: "p8-pbes2raw", Cipher: ce.name, KDF: kdf, Pw: (i % 2) * 2,
							Salt: saltSizes[(i+1)%len(saltSizes)], Iter: iterFor(i + 3), ESeed: gen.Mix(h.Seed, 0x4a3, uint64(i))}, w})
					}
				}
			}
		}
		for j, kc := range allPrivateClasses() {
			if j%3 != 0 && !h.Thorough() {
				continue // 2048 PBKDF2 iterations each
			}
			for w := 0; w <= 4; w++ {
				emit(rtCase{cspec{Key: kc, KSeed: ks, Cont: "p8-convert-pw", Cipher: "AES256-CBC", KDF: "PBKDF2-SHA256", Pw: 1 + j%4, ESeed: gen.Mix(h.Seed, 0xdef, uint64(j))}, w})
			}
		}
	}, checkRT)
}

// ---------------------------------------------------------------- PBES1 and legacy PEM

func TestC14_PBES1_PEM(t *testing.T) {
	observeOnce()
	h.MarkExhaustive("pbes1-pem-product")
	seeds := keySeeds(2 + h.Scale(1, 8))[2:]
	h.Sweep(t, h.P{Name: "pbes1-pem-product"}, func(emit func(rtCase)) {
		i := 0
		for pass, ks := range seeds {
			for _, kc := range productClasses() {
				if hasPrefix(kc, "rsa-") && pass%4 != 0 {
					continue
				}
				for _, sch := range pbes1Names {
					for pw := 1; pw <= 4; pw++ {
						i++
						for w := 0; w <= 4; w++ {
							emit(rtCase{cspec{Key: kc, KSeed: ks, Cont: "p8-pbes1", Cipher: sch, Pw: pw,
								Salt: []int{8, 1, 16, 0}[i%4], Iter: iterFor(i), ESeed: gen.Mix(h.Seed, 0xbe51, uint64(i))}, w})
						}
					}
				}
				for _, pc := range pemCiphers {
					for pw := 0; pw <= 3; pw++ {
						i++
						for w := 0; w <= 4; w++ {
							emit(rtCase{cspec{Key: kc, KSeed: ks, Cont: "pem", Cipher: pc.name, Pw: pw, ESeed: gen.Mix(h.Seed, 0x9e3, uint64(i))}, w})
						}
					}
				}
			}
		}
	}, checkRT)
}

// ---------------------------------------------------------------- SM2 enveloped key, CFCA blob

func TestC14_Enveloped(t *testing.T) {
	observeOnce()
	seeds := keySeeds(h.Scale(3, 60))
	h.Sweep(t, h.P{Name: "enveloped-roundtrip"}, func(emit func(rtCase)) {
		for i, ks := range seeds {
			for _, kc := range sm2Classes {
				for e := 0; e < 3; e++ {
					for w := 0; w <= 3; w++ {
						emit(rtCase{cspec{Key: kc, KSeed: ks, Cont: "env", ESeed: gen.Mix(h.Seed, 0xe4, uint64(i), uint64(e))}, w})
					}
				}
			}
		}
	}, checkRT)
	h.MarkExhaustive("enveloped-alter")
	h.Sweep(t, h.P{Name: "enveloped-alter"}, func(emit func(altCase)) {
		for p := 0; p < h.Scale(1, 3); p++ { // thorough: three keys / envelopes per class
			for _, kc := range sm2Classes {
				emitAlterations(cspec{Key: kc, KSeed: seeds[p], Cont: "env", ESeed: gen.Mix(h.Seed, 0xa17e, uint64(p))}, emit)
			}
		}
	}, checkAlter)
}

func TestC14_CFCA(t *testing.T) {
	observeOnce()
	seeds := keySeeds(h.Scale(3, 60))
	h.Sweep(t, h.P{Name: "cfca-roundtrip"}, func(emit func(rtCase)) {
		for i, ks := range seeds {
			for _, kc := range sm2Classes {
				for pw := 1; pw <= 4; pw++ {
					for w := 0; w <= 4; w++ {
						emit(rtCase{cspec{Key: kc, KSeed: ks, Cont: "cfca", Pw: pw, ESeed: gen.Mix(h.Seed, 0xcf, uint64(i), uint64(pw))}, w})
					}
				}
			}
		}
	}, checkRT)
	h.MarkExhaustive("cfca-alter")
	h.Sweep(t, h.P{Name: "cfca-alter"}, func(emit func(altCase)) {
		for i, kc := range sm2Classes {
			if !h.Thorough() && i%2 == 1 && kc != "sm2-lz3" {
				continue
			}
			for p := 0; p < h.Scale(1, 2); p++ {
				emitAlterations(cspec{Key: kc, KSeed: seeds[p], Cont: "cfca", Pw: 1 + (i+p)%4, ESeed: gen.Mix(h.Seed, 0xa17c, uint64(p))}, emit)
			}
		}
	}, checkAlter)
}

// ---------------------------------------------------------------- alteration sweeps, PKCS#8

func TestC14_AlterGCM(t *testing.T) {
	observeOnce()
	h.MarkExhaustive("alter-gcm")
	ks := keySeeds(4)[3]
	others := []string{"sm9-signuser", "rsa-1024", "p384-lz1", "ecdh-lz1", "sm9-encmaster", "sm2-top", "p256-uniform", "sm9-encuser", "sm2-d1", "sm9-signmaster-lz1", "p521-lz1", "p224-uniform", "p521-top"}
	h.Sweep(t, h.P{Name: "alter-gcm"}, func(emit func(altCase)) {
		i := 0
		for pass := 0; pass < h.Scale(1, 2); pass++ { // thorough: a second set of keys, salts, passwords
			ks := keySeeds(4 + pass*7)[3+pass*7]
			for _, ce := range pbes2Ciphers {
				if ce.mode != "gcm" {
					continue
				}
				for _, kdf := range kdfNames {
					i++
					emitAlterations(cspec{Key: "sm2-lz2", KSeed: ks, Cont: "p8-pbes2", Cipher: ce.name, KDF: kdf, Pw: 1 + i%3,
						Salt: saltSizes[i%4], Iter: iterFor(i), ESeed: gen.Mix(h.Seed, 0x6c, uint64(i))}, emit)
					if h.Thorough() || i%4 == 0 {
						emitAlterations(cspec{Key: others[i%len(others)], KSeed: ks, Cont: "p8-pbes2", Cipher: ce.name, KDF: kdf, Pw: 1 + i%3,
							Salt: saltSizes[i%4], Iter: iterFor(i), ESeed: gen.Mix(h.Seed, 0x6d, uint64(i))}, emit)
					}
				}
			}
		}
	}, checkAlter)
	h.MarkExhaustive("gcm-icvlen")
	h.Sweep(t, h.P{Name: "gcm-icvlen"}, func(emit func(icvCase)) {
		i := 0
		for _, ce := range pbes2Ciphers {
			if ce.mode != "gcm" {
				continue
			}
			for _, kdf := range []string{"PBKDF2-SM3", "PBKDF2-SHA1", "scrypt"} {
				i++
				s := cspec{Key: "sm2-uniform", KSeed: ks, Cont: "p8-pbes2", Cipher: ce.name, KDF: kdf, Pw: 4, Salt: 8, Iter: iterFor(i), ESeed: gen.Mix(h.Seed, 0x1c, uint64(i))}
				for _, v := range icvVariants {
					emit(icvCase{s, v})
				}
			}
		}
	}, checkICV)
}

func TestC14_AlterUnauth(t *testing.T) {
	observeOnce()
	h.MarkExhaustive("alter-unauthenticated")
	others := []string{"sm9-signuser", "p256-lz1", "ecdh-uniform", "sm9-encmaster-lz1", "sm2-n-2", "p384-uniform", "sm9-encuser", "sm2-d2", "sm9-signmaster", "rsa-1024", "p521-uniform", "p224-lz1", "p521-n-1"}
	h.Sweep(t, h.P{Name: "alter-unauthenticated"}, func(emit func(altCase)) {
		i := 0
		for pass := 0; pass < h.Scale(1, 2); pass++ { // thorough: a second set of keys, salts, passwords
			ks := keySeeds(5 + pass*7)[4+pass*7]
			for _, ce := range pbes2Ciphers {
				if ce.mode == "gcm" {
					continue
				}
				for _, kdf := range kdfNames {
					i++
					kc := "sm2-lz1"
					if i%3 == 0 {
						kc = others[(i/3)%len(others)]
					}
					emitAlterations(cspec{Key: kc, KSeed: ks, Cont: "p8-pbes2", Cipher: ce.name, KDF: kdf, Pw: 1 + i%3,
						Salt: saltSizes[i%4], Iter: iterFor(i), ESeed: gen.Mix(h.Seed, 0x7c, uint64(i))}, emit)
				}
			}
			for _, kdf := range kdfNames {
				i++
				emitAlterations(cspec{Key: "sm2-lz3", KSeed: ks, Cont: "p8-smpbes", Cipher: "SM4-CBC", KDF: kdf, Pw: 1 + i%3,
					Salt: saltSizes[i%4], Iter: iterFor(i), ESeed: gen.Mix(h.Seed, 0x7d, uint64(i))}, emit)
			}
			for _, sch := range pbes1Names {
				i++
				emitAlterations(cspec{Key: others[i%len(others)], KSeed: ks, Cont: "p8-pbes1", Cipher: sch, Pw: 1 + i%4,
					Salt: 8, Iter: iterFor(i), ESeed: gen.Mix(h.Seed, 0x7e, uint64(i))}, emit)
			}
			emitAlterations(cspec{Key: "sm2-top", KSeed: ks, Cont: "p8-convert-pw", Cipher: "AES256-CBC", KDF: "PBKDF2-SHA256", Pw: 3, ESeed: gen.Mix(h.Seed, 0x7f)}, emit)
			if h.Thorough() {
				emitAlterations(cspec{Key: "rsa-2048", KSeed: ks, Cont: "p8-pbes2", Cipher: "AES128-CBC", KDF: "PBKDF2-SHA256", Pw: 2, Salt: 16, Iter: 7, ESeed: gen.Mix(h.Seed, 0x80, uint64(pass))}, emit)
			}
		}
	}, checkAlter)
}

var quickSkipAlterPlain = map[string]bool{"p224-lz1": true, "p224-n-1": true, "p521-uniform": true, "p521-n-1": true}

func TestC14_AlterPlain(t *testing.T) {
	observeOnce()
	h.MarkExhaustive("alter-plain")
	ks := keySeeds(6)[5]
	classes := append(allPrivateClasses(), sm9PubKinds...)
	isPub := func(kc string) bool { return kc == "sm9-signmasterpub" || kc == "sm9-encmasterpub" }
	h.Sweep(t, h.P{Name: "alter-plain"}, func(emit func(altCase)) {
		i := 0
		for _, kc := range classes {
			for _, cont := range plainContainers {
				if !applicable(kc, cont) || cont == "p8-nilpw" || cont == "p8-convert" {
					continue // same bytes and same parser as p8-smx509
				}
				if (kc == "rsa-2048" || kc == "rsa-3072") && !h.Thorough() && cont != "pkix" {
					continue
				}
				if quickSkipAlterPlain[kc] && !h.Thorough() {
					continue // quick: P-224 / P-521 are sampled (p224-uniform, p521-lz1, p521-top)
				}
				emitAlterations(cspec{Key: kc, KSeed: ks, Cont: cont}, emit)
			}
			if (kc == "rsa-2048" || kc == "rsa-3072" || quickSkipAlterPlain[kc]) && !h.Thorough() || isPub(kc) {
				continue
			}
			i++
			pc := pemCiphers[i%len(pemCiphers)]
			emitAlterations(cspec{Key: kc, KSeed: ks, Cont: "pem", Cipher: pc.name, Pw: i % 4, ESeed: gen.Mix(h.Seed, 0x9e4, uint64(i))}, emit)
		}
	}, checkAlter)
}

// ---------------------------------------------------------------- random exploration

type rndCase struct {
	cspec
	Wrong int
	Pos   int // alteration position as a fraction of the container length (per mille)
	Val   int
}

func TestC14_Random(t *testing.T) {
	observeOnce()
	classes := allPrivateClasses()
	families := []string{"p8-pbes2", "p8-pbes2", "p8-pbes2", "p8-smpbes", "p8-pbes1", "pem", "env", "cfca", "p8-smx509", "sec1", "pkix", "p8-pbes2raw"}
	h.Prop(t, h.P{Name: "random", Quick: 1500, Thorough: 30000}, func(rt *rapid.T) rndCase {
		var s cspec
		s.Cont = rapid.SampledFrom(families).Draw(rt, "family")
		for {
			s.Key = rapid.SampledFrom(classes).Draw(rt, "key")
			if applicable(s.Key, s.Cont) && s.Key != "rsa-2048" && s.Key != "rsa-3072" {
				break
			}
		}
		s.KSeed = rapid.Uint64().Draw(rt, "kseed")
		s.ESeed = rapid.Uint64().Draw(rt, "eseed")
		s.Pw = rapid.IntRange(1, 4).Draw(rt, "pw")
		switch s.Cont {
		case "p8-pbes2", "p8-pbes2raw":
			s.Cipher = rapid.SampledFrom(pbes2Ciphers).Draw(rt, "cipher").name
			s.KDF = rapid.SampledFrom(kdfNames).Draw(rt, "kdf")
		case "p8-smpbes":
			s.Cipher, s.KDF = "SM4-CBC", rapid.SampledFrom(kdfNames).Draw(rt, "kdf")
		case "p8-pbes1":
			s.Cipher = rapid.SampledFrom(pbes1Names).Draw(rt, "scheme")
		case "pem":
			s.Cipher = rapid.SampledFrom(pemCiphers).Draw(rt, "pemcipher").name
			s.Pw = rapid.IntRange(0, 4).Draw(rt, "pw0")
		}
		if hasPrefix(s.Cont, "p8-pb") || s.Cont == "p8-smpbes" {
			s.Salt = rapid.IntRange(0, 40).Draw(rt, "salt")
			s.Iter = rapid.IntRange(2, 16).Draw(rt, "iter")
		}
		if s.Cont == "p8-pbes2raw" {
			s.Pw = rapid.IntRange(0, 4).Draw(rt, "pwraw")
		}
		return rndCase{s, rapid.IntRange(1, 4).Draw(rt, "wrong"), rapid.IntRange(0, 999).Draw(rt, "pos"), rapid.IntRange(0, nAlterValues-1).Draw(rt, "val")}
	}, func(c rndCase, r *h.Rec) error {
		if err := checkRT(rtCase{c.cspec, 0}, r); err != nil {
			return err
		}
		r2 := &h.Rec{}
		if err := checkRT(rtCase{c.cspec, c.Wrong}, r2); err != nil {
			return err
		}
		b := build(c.cspec)
		r3 := &h.Rec{}
		if err := checkAlter(altCase{c.cspec, c.Pos * len(b.blob) / 1000, c.Val}, r3); err != nil {
			return err
		}
		r.Label("random-triple(roundtrip,wrong,alter)")
		return nil
	})
}
