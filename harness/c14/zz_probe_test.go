//go:build c14probe

package c14

import (
	"fmt"
	"testing"

	"github.com/emmansun/gmsm/sm9"
	"github.com/emmansun/gmsm/smx509"
)

func TestProbeSM9(t *testing.T) {
	k := makeKey("sm9-signuser", 3).priv.(*sm9.SignPrivateKey)
	raw := k.Bytes()
	k2, err := sm9.UnmarshalSignPrivateKeyRaw(raw)
	fmt.Println("raw parse", err, k2.Equal(k))
	func() {
		defer func() { fmt.Println("recover:", recover()) }()
		der, err := smx509.MarshalPKCS8PrivateKey(k2)
		fmt.Println("marshal", len(der), err)
	}()
	func() {
		defer func() { fmt.Println("recover:", recover()) }()
		fmt.Println(k2.MasterPublic())
	}()
	p, err := sm9.UnmarshalSignMasterPublicKeyRaw([]byte{4, 1, 2})
	fmt.Println(p != nil, err)
	pub := makeKey("sm9-signmasterpub", 3).pub.(*sm9.SignMasterPublicKey)
	a, _ := pub.MarshalASN1()
	c, _ := pub.MarshalCompressedASN1()
	fmt.Println(len(a), len(c))
}
