package c14

// SM9 user private keys as the library's own raw / ASN.1 decoders return them
// carry no master public key. Encoding such a key into PKCS#8 (which has a
// slot for the master public key) must either fail with an error or produce a
// container that decodes to an equal key - not panic.

import (
	"fmt"
	"runtime/debug"

	"github.com/emmansun/gmsm/pkcs8"
	"github.com/emmansun/gmsm/sm9"
	"github.com/emmansun/gmsm/smx509"
	"verif/harness/h"
)

type noMasterCase struct {
	Key   string // sm9-signuser | sm9-encuser
	KSeed uint64
	Via   string // raw | asn1 | casn1
	API   string // smx509 | pkcs8 | convert
}

func checkNoMaster(c noMasterCase, r *h.Rec) (err error) {
	r.Label("sm9-user-key-without-master-public")
	r.Label("via:" + c.Via)
	r.Label("api:" + c.API)
	r.Label("key:" + c.Key)
	r.NT()
	ki := makeKey(c.Key, c.KSeed)
	cont := map[string]string{"raw": "sm9-raw", "asn1": "sm9-asn1", "casn1": "sm9-casn1"}[c.Via]
	b := build(cspec{Key: c.Key, KSeed: c.KSeed, Cont: cont})
	k2, derr := b.dec(b.blob, nil)
	if derr != nil {
		return fmt.Errorf("%s: decoding the %s encoding failed: %v", c.Key, c.Via, derr)
	}
	if err := sameKey(ki.priv, k2); err != nil {
		return err
	}
	var blob []byte
	var merr error
	func() {
		defer func() {
			if p := recover(); p != nil {
				err = fmt.Errorf("%s decoded from its %s encoding (%s): marshalling to PKCS#8 through %s panicked: %v\n%s", c.Key, c.Via, h.Hex(b.blob), c.API, p, debug.Stack())
			}
		}()
		switch c.API {
		case "smx509":
			blob, merr = smx509.MarshalPKCS8PrivateKey(k2)
		case "pkcs8":
			blob, merr = pkcs8.MarshalPrivateKey(k2, nil, nil)
		default:
			blob, merr = pkcs8.ConvertPrivateKeyToPKCS8(k2)
		}
		// the accessor itself must not panic either
		switch u := k2.(type) {
		case *sm9.SignPrivateKey:
			_ = u.MasterPublic()
		case *sm9.EncryptPrivateKey:
			_ = u.MasterPublic()
		}
	}()
	if err != nil {
		return err
	}
	if merr != nil {
		r.Label("encode-refused-with-error")
		return nil
	}
	got, perr := smx509.ParsePKCS8PrivateKey(blob)
	if perr != nil {
		return fmt.Errorf("%s without master public key: PKCS#8 encoder produced %s which its decoder refuses: %v", c.Key, h.Hex(blob), perr)
	}
	r.Label("encoded-and-decoded")
	return sameKey(ki.priv, got)
}

// enumNoMaster lists the cases.
func enumNoMaster(seeds []uint64, emit func(noMasterCase)) {
	for _, ks := range seeds {
		for _, kc := range []string{"sm9-signuser", "sm9-encuser"} {
			for _, via := range []string{"raw", "asn1", "casn1"} {
				for _, api := range []string{"smx509", "pkcs8", "convert"} {
					emit(noMasterCase{kc, ks, via, api})
				}
			}
		}
	}
}
