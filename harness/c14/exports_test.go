package c14

// Raw exports of one key object. Every method of a key object (private or
// public) that hands out bytes - Bytes, Marshal*, of the shape func() []byte
// or func() ([]byte, error) - is caller-owned memory once returned: a caller
// that wipes an exported secret must not change what the SAME object
// serialises to afterwards (seeded change C14-9-1: SignPrivateKey.Bytes handed
// out the object's internal slice, so MarshalASN1 and PKCS#8 of a key whose
// raw export had been wiped produced zeros while the object kept signing with
// the original key). The methods are found by reflection, so a new exporter
// is covered without listing it.

import (
	"bytes"
	"fmt"
	"reflect"
	"sort"
	"strings"
	"testing"

	"github.com/emmansun/gmsm/pkcs8"
	"github.com/emmansun/gmsm/smx509"
	"verif/harness/gen"
	"verif/harness/h"
)

type exportCase struct {
	Key   string
	KSeed uint64
}

type exporter struct {
	name string
	call func() ([]byte, bool)
}

func exportersOf(prefix string, obj any) []exporter {
	var out []exporter
	if obj == nil {
		return nil
	}
	v := reflect.ValueOf(obj)
	t := v.Type()
	for i := 0; i < t.NumMethod(); i++ {
		m := t.Method(i)
		if m.Name != "Bytes" && !strings.HasPrefix(m.Name, "Marshal") {
			continue
		}
		mt := m.Type // receiver is in(0)
		if mt.NumIn() != 1 || mt.NumOut() < 1 || mt.NumOut() > 2 || mt.Out(0) != reflect.TypeOf([]byte(nil)) {
			continue
		}
		if mt.NumOut() == 2 && !mt.Out(1).Implements(reflect.TypeOf((*error)(nil)).Elem()) {
			continue
		}
		fn := v.Method(i)
		out = append(out, exporter{prefix + "." + m.Name, func() ([]byte, bool) {
			res := fn.Call(nil)
			if len(res) == 2 && !res[1].IsNil() {
				return nil, false
			}
			return res[0].Bytes(), true
		}})
	}
	sort.Slice(out, func(i, j int) bool { return out[i].name < out[j].name })
	return out
}

func checkExports(c exportCase, r *h.Rec) error {
	// a private object for this test: the shared key cache must not see scribbled state
	ki := buildKey(c.Key, c.KSeed)
	r.Label("key:" + c.Key)
	exps := append(exportersOf("priv", ki.priv), exportersOf("pub", ki.pub)...)
	// the package-level encoders that take the key object (unsupported classes answer with an error)
	exps = append(exps,
		exporter{"smx509.MarshalPKCS8PrivateKey(priv)", func() ([]byte, bool) { b, err := smx509.MarshalPKCS8PrivateKey(ki.priv); return b, err == nil }},
		exporter{"smx509.MarshalPKIXPublicKey(pub)", func() ([]byte, bool) { b, err := smx509.MarshalPKIXPublicKey(ki.pub); return b, err == nil }},
		exporter{"pkcs8.MarshalPrivateKey(priv, nil, nil)", func() ([]byte, bool) { b, err := pkcs8.MarshalPrivateKey(ki.priv, nil, nil); return b, err == nil }})
	r.NT()
	clean := make([][]byte, len(exps))
	okv := make([]bool, len(exps))
	for j, e := range exps {
		b, ok := e.call()
		clean[j], okv[j] = append([]byte{}, b...), ok
		r.Label("exporter:" + fmt.Sprintf("%T", ki.priv) + ":" + e.name)
	}
	for i, e := range exps {
		if !okv[i] {
			continue
		}
		a, ok := e.call()
		if !ok || !bytes.Equal(a, clean[i]) {
			return fmt.Errorf("key class %s: %s returns something else on the second call: %s vs %s", c.Key, e.name, h.Hex(a), h.Hex(clean[i]))
		}
		scribble(a[:cap(a)])
		for j, f := range exps {
			b, ok := f.call()
			if ok != okv[j] || !bytes.Equal(b, clean[j]) {
				return fmt.Errorf("key class %s: after the caller overwrote the slice returned by %s, %s of the same object returns %s instead of %s (an export must be the caller's own copy)",
					c.Key, e.name, f.name, h.Hex(b), h.Hex(clean[j]))
			}
		}
	}
	return nil
}

func TestC14_RawExports(t *testing.T) {
	h.MarkExhaustive("raw-exports")
	h.Sweep(t, h.P{Name: "raw-exports"}, func(emit func(exportCase)) {
		for i, kc := range allPrivateClasses() {
			emit(exportCase{kc, gen.Mix(h.Seed, 0xe8, uint64(i))})
		}
	}, checkExports)
}
