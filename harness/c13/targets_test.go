package c13

import (
	"bytes"
	"crypto/ecdsa"
	"crypto/ed25519"
	"crypto/elliptic"
	"crypto/x509"
	"crypto/x509/pkix"
	"encoding/asn1"
	"encoding/pem"
	"fmt"
	"math/big"
	"net"
	"net/url"
	"strings"
	"sync"
	"time"

	"github.com/emmansun/gmsm/cfca"
	"github.com/emmansun/gmsm/ecdh"
	"github.com/emmansun/gmsm/padding"
	"github.com/emmansun/gmsm/pkcs"
	"github.com/emmansun/gmsm/pkcs7"
	"github.com/emmansun/gmsm/pkcs8"
	"github.com/emmansun/gmsm/sm2"
	"github.com/emmansun/gmsm/sm9"
	"github.com/emmansun/gmsm/smx509"
	"verif/harness/gen"
	"verif/harness/testkeys"
)

// target is one entry point that consumes externally supplied bytes. call
// returns a "depth" signal: 0 = rejected by the outermost parse/validation,
// >=1 = the input got past it (parsed, or a follow-up ran, or was accepted).
type target struct {
	name  string
	group string
	kdf   bool // consumes attacker-chosen password-KDF cost parameters
	seeds [][]byte
	call  func(b []byte) int
}

func must[T any](v T, err error) T {
	if err != nil {
		panic(err)
	}
	return v
}

func d(err error) int {
	if err == nil {
		return 1
	}
	return 0
}

func db(ok bool) int {
	if ok {
		return 1
	}
	return 0
}

var (
	targetsOnce sync.Once
	targetList  []*target
	targetMap   map[string]*target
)

func targets() []*target {
	targetsOnce.Do(func() {
		targetList = buildTargets()
		targetMap = map[string]*target{}
		for _, t := range targetList {
			if _, dup := targetMap[t.name]; dup {
				panic("duplicate target " + t.name)
			}
			targetMap[t.name] = t
		}
	})
	return targetList
}

var (
	refNotBefore = time.Date(2020, 1, 1, 0, 0, 0, 0, time.UTC)
	refNotAfter  = time.Date(2045, 1, 1, 0, 0, 0, 0, time.UTC)
)

var serial int64 = 1000

func mkCert(rnd *gen.DetReader, pub any, parent *smx509.Certificate, parentKey any, selfKey any, isCA bool, cn string) *smx509.Certificate {
	serial++
	tmpl := &x509.Certificate{
		SerialNumber:          big.NewInt(serial),
		Subject:               pkix.Name{CommonName: cn, Organization: []string{"Acme"}},
		NotBefore:             refNotBefore,
		NotAfter:              refNotAfter,
		KeyUsage:              x509.KeyUsageCRLSign | x509.KeyUsageDigitalSignature | x509.KeyUsageCertSign | x509.KeyUsageKeyEncipherment | x509.KeyUsageDataEncipherment,
		BasicConstraintsValid: true,
		IsCA:                  isCA,
		DNSNames:              []string{"example.com"},
		SubjectKeyId:          []byte{1, 2, 3, 4},
	}
	p := tmpl
	pk := selfKey
	if parent != nil {
		p = parent.ToX509()
		pk = parentKey
	}
	der := must(smx509.CreateCertificate(rnd, tmpl, p, pub, pk))
	return must(smx509.ParseCertificate(der))
}

// selfChecks uses the (attacker-supplied) key of a parsed certificate the way a
// verifier of self-signed or attacker-chained certificates does: as the issuer
// key of the certificate itself, of arbitrary signed bytes, and as a chain root.
func selfChecks(c *smx509.Certificate) {
	c.CheckSignatureFrom(c)
	c.CheckSignature(c.SignatureAlgorithm, c.RawTBSCertificate, c.Signature)
	c.CheckSignature(smx509.SM2WithSM3, c.RawTBSCertificate, c.Signature)
	pool := smx509.NewCertPool()
	pool.AddCert(c)
	c.Verify(smx509.VerifyOptions{Roots: pool, CurrentTime: refNotBefore.Add(time.Hour), KeyUsages: []x509.ExtKeyUsage{x509.ExtKeyUsageAny}})
}

// addForeignTargets: the sm2 package's verification and decryption entry points
// handed keys on other curves (generic code of sm2_legacy.go and the helpers
// shared with the SM2 path), fed hostile signatures / ciphertexts / identifiers.
func addForeignTargets(add func(group, name string, call func([]byte) int, seeds ...[]byte) *target, hash, msg, sig []byte) {
	for _, fk := range foreignKeys() {
		fk := fk
		n := fk.name
		add("sm2", "sm2.VerifyASN1WithSM2("+n+")", func(b []byte) int { return db(sm2.VerifyASN1WithSM2(fk.pub, nil, msg, b)) }, sig)
		add("sm2", "sm2.VerifyASN1("+n+")", func(b []byte) int { return db(sm2.VerifyASN1(fk.pub, hash, b)) }, sig)
		add("sm2", "sm2.VerifyASN1("+n+",hash=input)", func(b []byte) int { return db(sm2.VerifyASN1(fk.pub, b, sig)) }, hash)
		add("sm2", "sm2.CalculateZA("+n+",uid=input)", func(b []byte) int { _, err := sm2.CalculateZA(fk.pub, b); return d(err) }, []byte("alice@example.com"))
		bl := (fk.pub.Curve.Params().BitSize + 7) / 8
		add("sm2", "sm2.VerifyWithSM2("+n+",rs=input)", func(b []byte) int {
			h2 := len(b) / 2
			r, s := new(big.Int).SetBytes(b[:h2]), new(big.Int).SetBytes(b[h2:])
			return db(sm2.VerifyWithSM2(fk.pub, nil, msg, r, s)) + db(sm2.Verify(fk.pub, hash, r, s))
		}, gen.Fill(0x51, 2*bl))
		if n == "P-256" {
			continue // legacy decryption on NIST P-256 is covered above
		}
		lk := new(sm2.PrivateKey)
		lk.Curve = fk.pub.Curve
		lk.D = new(big.Int).SetBytes(gen.Fill(0xD0, bl-1))
		lk.X, lk.Y = lk.Curve.ScalarBaseMult(lk.D.Bytes())
		var seeds [][]byte
		for _, o := range []*sm2.EncrypterOpts{nil, sm2.ASN1EncrypterOpts, sm2.NewPlainEncrypterOpts(sm2.MarshalCompressed, sm2.C1C2C3)} {
			// (guarded: building a seed must not take the whole process down when
			// the code under test is broken for this curve - the targets report it)
			func() {
				defer func() { recover() }()
				if ct, err := sm2.Encrypt(gen.NewDetReader(0xC13F), &lk.PublicKey, msg, o); err == nil {
					seeds = append(seeds, ct)
				}
			}()
		}
		if len(seeds) == 0 {
			seeds = append(seeds, append([]byte{4}, gen.Fill(0x52, 2*bl+32+len(msg))...))
		}
		add("sm2", "sm2.legacy.Decrypt("+n+")", func(b []byte) int {
			_, e1 := sm2.Decrypt(lk, b)
			_, e2 := lk.Decrypt(nil, b, sm2.NewPlainDecrypterOpts(sm2.C1C2C3))
			_, e3 := lk.Decrypt(nil, b, sm2.ASN1DecrypterOpts)
			return d(e1) + d(e2) + d(e3)
		}, seeds...)
	}
}

func buildTargets() []*target {
	var ts []*target
	add := func(group, name string, call func([]byte) int, seeds ...[]byte) *target {
		t := &target{name: name, group: group, seeds: seeds, call: call}
		ts = append(ts, t)
		return t
	}
	rnd := gen.NewDetReader(0xC13)
	priv := must(sm2.GenerateKey(rnd))
	priv2 := must(sm2.GenerateKey(rnd))
	msg := []byte("hello sm2 world, this is a message")
	hash := bytes.Repeat([]byte{0x5a}, 32)
	uidA := []byte("alice@example.com")

	// ------------------------------------------------------------ sm2
	sig := must(sm2.SignASN1(rnd, priv, hash, nil))
	add("sm2", "sm2.VerifyASN1", func(b []byte) int { return db(sm2.VerifyASN1(&priv.PublicKey, hash, b)) }, sig)
	add("sm2", "sm2.VerifyASN1(hash=input)", func(b []byte) int { return db(sm2.VerifyASN1(&priv.PublicKey, b, sig)) }, hash)
	add("sm2", "sm2.VerifyASN1WithSM2", func(b []byte) int { return db(sm2.VerifyASN1WithSM2(&priv.PublicKey, nil, msg, b)) }, sig)
	add("sm2", "sm2.VerifyASN1WithSM2(uid=input)", func(b []byte) int { return db(sm2.VerifyASN1WithSM2(&priv.PublicKey, b, msg, sig)) }, uidA)
	add("sm2", "sm2.RecoverPublicKeysFromSM2Signature", func(b []byte) int {
		_, err := sm2.RecoverPublicKeysFromSM2Signature(hash, b)
		return d(err)
	}, sig)
	ct := must(sm2.Encrypt(rnd, &priv.PublicKey, msg, nil))
	ctA := must(sm2.EncryptASN1(rnd, &priv.PublicKey, msg))
	ctC := must(sm2.Encrypt(rnd, &priv.PublicKey, msg, sm2.NewPlainEncrypterOpts(sm2.MarshalCompressed, sm2.C1C2C3)))
	ct1 := must(sm2.Encrypt(rnd, &priv.PublicKey, []byte{7}, nil))
	add("sm2", "sm2.Decrypt", func(b []byte) int { _, err := sm2.Decrypt(priv, b); return d(err) }, ct, ctA, ct1)
	add("sm2", "sm2.priv.Decrypt(C1C2C3)", func(b []byte) int {
		_, err := priv.Decrypt(nil, b, sm2.NewPlainDecrypterOpts(sm2.C1C2C3))
		return d(err)
	}, ctC, ct)
	add("sm2", "sm2.priv.Decrypt(ASN1opts)", func(b []byte) int { _, err := priv.Decrypt(nil, b, sm2.ASN1DecrypterOpts); return d(err) }, ctA)
	add("sm2", "sm2.AdjustCiphertextSplicingOrder", func(b []byte) int {
		_, err := sm2.AdjustCiphertextSplicingOrder(b, sm2.C1C3C2, sm2.C1C2C3)
		_, err2 := sm2.AdjustCiphertextSplicingOrder(b, sm2.C1C2C3, sm2.C1C3C2)
		return d(err) + d(err2)
	}, ct, ctC)
	add("sm2", "sm2.ASN1Ciphertext2Plain", func(b []byte) int {
		_, err := sm2.ASN1Ciphertext2Plain(b, nil)
		_, err2 := sm2.ASN1Ciphertext2Plain(b, sm2.NewPlainEncrypterOpts(sm2.MarshalCompressed, sm2.C1C2C3))
		return d(err) + d(err2)
	}, ctA)
	add("sm2", "sm2.PlainCiphertext2ASN1", func(b []byte) int {
		_, err := sm2.PlainCiphertext2ASN1(b, sm2.C1C3C2)
		_, err2 := sm2.PlainCiphertext2ASN1(b, sm2.C1C2C3)
		return d(err) + d(err2)
	}, ct, ctC)
	pubBytes := elliptic.Marshal(sm2.P256(), priv.X, priv.Y)
	add("sm2", "sm2.NewPublicKey", func(b []byte) int { _, err := sm2.NewPublicKey(b); return d(err) }, pubBytes)
	add("sm2", "sm2.NewPrivateKey", func(b []byte) int { _, err := sm2.NewPrivateKey(b); return d(err) }, priv.D.FillBytes(make([]byte, 32)))
	add("sm2", "sm2.NewPrivateKeyFromInt", func(b []byte) int {
		_, err := sm2.NewPrivateKeyFromInt(new(big.Int).SetBytes(b))
		return d(err)
	}, priv.D.FillBytes(make([]byte, 32)), bytes.Repeat([]byte{0xff}, 40))
	env := must(sm2.MarshalEnvelopedPrivateKey(rnd, &priv.PublicKey, priv2))
	add("sm2", "sm2.ParseEnvelopedPrivateKey", func(b []byte) int { _, err := sm2.ParseEnvelopedPrivateKey(priv, b); return d(err) }, env)
	add("sm2", "sm2ec.Unmarshal", func(b []byte) int {
		x, _ := elliptic.Unmarshal(sm2.P256(), b)
		x2, _ := elliptic.UnmarshalCompressed(sm2.P256(), b)
		return db(x != nil) + db(x2 != nil)
	}, pubBytes, elliptic.MarshalCompressed(sm2.P256(), priv.X, priv.Y))
	add("sm2", "sm2.CalculateZA(uid=input)", func(b []byte) int { _, err := sm2.CalculateZA(&priv.PublicKey, b); return d(err) }, uidA)
	add("sm2", "sm2.kx.peer-ephemeral", func(b []byte) int {
		// peer ephemeral public key offered as bytes -> ecdsa.PublicKey -> key exchange
		x, y := elliptic.Unmarshal(sm2.P256(), b)
		if x == nil {
			// also drive the raw coordinates path with whatever bytes we have
			if len(b) < 2 {
				return 0
			}
			x = new(big.Int).SetBytes(b[:len(b)/2])
			y = new(big.Int).SetBytes(b[len(b)/2:])
		}
		peer := &ecdsa.PublicKey{Curve: sm2.P256(), X: x, Y: y}
		kx, err := sm2.NewKeyExchange(priv, &priv2.PublicKey, []byte("a"), []byte("b"), 16, true)
		if err != nil {
			return 0
		}
		if _, err := kx.InitKeyExchange(gen.NewDetReader(1)); err != nil {
			return 0
		}
		_, _, err = kx.ConfirmResponder(peer, bytes.Repeat([]byte{1}, 32))
		return d(err)
	}, elliptic.Marshal(sm2.P256(), priv2.X, priv2.Y))

	// legacy path: an sm2.PrivateKey on a non-SM2 curve (NIST P-256, generic code in sm2_legacy.go)
	lk := new(sm2.PrivateKey)
	lk.Curve = elliptic.P256()
	lk.D = new(big.Int).SetBytes(gen.Fill(77, 31))
	lk.X, lk.Y = elliptic.P256().ScalarBaseMult(lk.D.Bytes())
	lct := must(sm2.Encrypt(rnd, &lk.PublicKey, msg, nil))
	lctA := must(sm2.EncryptASN1(rnd, &lk.PublicKey, msg))
	lctC := must(sm2.Encrypt(rnd, &lk.PublicKey, msg, sm2.NewPlainEncrypterOpts(sm2.MarshalCompressed, sm2.C1C2C3)))
	add("sm2", "sm2.legacy.Decrypt(P256)", func(b []byte) int { _, err := sm2.Decrypt(lk, b); return d(err) }, lct, lctA)
	add("sm2", "sm2.legacy.priv.Decrypt(P256,C1C2C3)", func(b []byte) int {
		_, err := lk.Decrypt(nil, b, sm2.NewPlainDecrypterOpts(sm2.C1C2C3))
		return d(err)
	}, lctC)
	add("sm2", "sm2.legacy.priv.Decrypt(P256,ASN1opts)", func(b []byte) int { _, err := lk.Decrypt(nil, b, sm2.ASN1DecrypterOpts); return d(err) }, lctA)
	// (not produced with sm2.Sign: under -tags purego the Go 1.23 standard library's
	// nistec P-256 scalar inversion is an unimplemented stub and the legacy signer,
	// which uses it through the curve's Inverse method, panics - a toolchain issue,
	// not an input-handling one)
	lsigR, lsigS := new(big.Int).SetBytes(gen.Fill(78, 32)), new(big.Int).SetBytes(gen.Fill(79, 32))
	add("sm2", "sm2.legacy.Verify(P256,rs=input)", func(b []byte) int {
		h2 := len(b) / 2
		return db(sm2.Verify(&lk.PublicKey, hash, new(big.Int).SetBytes(b[:h2]), new(big.Int).SetBytes(b[h2:])))
	}, append(lsigR.FillBytes(make([]byte, 32)), lsigS.FillBytes(make([]byte, 32))...))

	addForeignTargets(add, hash, msg, sig)

	// ------------------------------------------------------------ ecdh
	ek := must(ecdh.P256().GenerateKey(rnd))
	add("ecdh", "ecdh.NewPublicKey", func(b []byte) int {
		k, err := ecdh.P256().NewPublicKey(b)
		if err == nil {
			ek.ECDH(k)
			return 1
		}
		return 0
	}, ek.PublicKey().Bytes())
	add("ecdh", "ecdh.NewPrivateKey", func(b []byte) int { _, err := ecdh.P256().NewPrivateKey(b); return d(err) }, ek.Bytes())

	// ------------------------------------------------------------ sm9
	smk := must(sm9.GenerateSignMasterKey(rnd))
	suk := must(smk.GenerateUserKey(uidA, 1))
	s9sig := must(sm9.SignASN1(rnd, suk, hash))
	add("sm9", "sm9.VerifyASN1", func(b []byte) int { return db(sm9.VerifyASN1(smk.PublicKey(), uidA, 1, hash, b)) }, s9sig)
	add("sm9", "sm9.VerifyASN1(uid=input)", func(b []byte) int { return db(sm9.VerifyASN1(smk.PublicKey(), b, 1, hash, s9sig)) }, uidA)
	emk := must(sm9.GenerateEncryptMasterKey(rnd))
	euk := must(emk.GenerateUserKey(uidA, 3))
	c9 := must(sm9.Encrypt(rnd, emk.PublicKey(), uidA, 3, msg, nil))
	c9a := must(sm9.EncryptASN1(rnd, emk.PublicKey(), uidA, 3, msg, nil))
	c9cbc := must(sm9.EncryptASN1(rnd, emk.PublicKey(), uidA, 3, msg, sm9.SM4CBCEncrypterOpts))
	c9ecb := must(sm9.EncryptASN1(rnd, emk.PublicKey(), uidA, 3, msg, sm9.SM4ECBEncrypterOpts))
	c9cfb := must(sm9.EncryptASN1(rnd, emk.PublicKey(), uidA, 3, msg, sm9.SM4CFBEncrypterOpts))
	c9ofb := must(sm9.EncryptASN1(rnd, emk.PublicKey(), uidA, 3, msg, sm9.SM4OFBEncrypterOpts))
	c9cbcRaw := must(sm9.Encrypt(rnd, emk.PublicKey(), uidA, 3, msg, sm9.SM4CBCEncrypterOpts))
	c9ecbRaw := must(sm9.Encrypt(rnd, emk.PublicKey(), uidA, 3, msg, sm9.SM4ECBEncrypterOpts))
	c9cfbRaw := must(sm9.Encrypt(rnd, emk.PublicKey(), uidA, 3, msg, sm9.SM4CFBEncrypterOpts))
	c9ofbRaw := must(sm9.Encrypt(rnd, emk.PublicKey(), uidA, 3, msg, sm9.SM4OFBEncrypterOpts))
	add("sm9", "sm9.Decrypt(raw,xor)", func(b []byte) int { _, err := sm9.Decrypt(euk, uidA, b, nil); return d(err) }, c9)
	add("sm9", "sm9.Decrypt(raw,cbc)", func(b []byte) int { _, err := sm9.Decrypt(euk, uidA, b, sm9.SM4CBCEncrypterOpts); return d(err) }, c9cbcRaw)
	add("sm9", "sm9.Decrypt(raw,ecb)", func(b []byte) int { _, err := sm9.Decrypt(euk, uidA, b, sm9.SM4ECBEncrypterOpts); return d(err) }, c9ecbRaw)
	add("sm9", "sm9.Decrypt(raw,cfb)", func(b []byte) int { _, err := sm9.Decrypt(euk, uidA, b, sm9.SM4CFBEncrypterOpts); return d(err) }, c9cfbRaw)
	add("sm9", "sm9.Decrypt(raw,ofb)", func(b []byte) int { _, err := sm9.Decrypt(euk, uidA, b, sm9.SM4OFBEncrypterOpts); return d(err) }, c9ofbRaw)
	add("sm9", "sm9.DecryptASN1", func(b []byte) int { _, err := sm9.DecryptASN1(euk, uidA, b); return d(err) }, c9a, c9cbc, c9ecb, c9cfb, c9ofb)
	add("sm9", "sm9.priv.Decrypt(uidopts)", func(b []byte) int {
		o, _ := sm9.NewDecrypterOptsWithUID(sm9.SM4CBCEncrypterOpts, uidA)
		_, err := euk.Decrypt(nil, b, o)
		o2, _ := sm9.NewDecrypterOptsWithUID(nil, uidA)
		_, err2 := euk.Decrypt(nil, b, o2)
		return d(err) + d(err2)
	}, c9a, c9cbcRaw)
	_, wrapped, _ := sm9.WrapKey(rnd, emk.PublicKey(), uidA, 3, 32)
	add("sm9", "sm9.UnwrapKey", func(b []byte) int { _, err := sm9.UnwrapKey(euk, uidA, b, 32); return d(err) }, wrapped)
	_, wrappedDer, _ := emk.PublicKey().WrapKey(rnd, uidA, 3, 32)
	add("sm9", "sm9.priv.UnwrapKey(der)", func(b []byte) int { _, err := euk.UnwrapKey(uidA, b, 32); return d(err) }, wrappedDer)
	kp := must(emk.PublicKey().WrapKeyASN1(rnd, uidA, 3, 32))
	add("sm9", "sm9.UnmarshalSM9KeyPackage", func(b []byte) int {
		_, c, err := sm9.UnmarshalSM9KeyPackage(b)
		if err == nil {
			sm9.UnwrapKey(euk, uidA, c, 32)
		}
		return d(err)
	}, kp)
	add("sm9", "sm9.UnmarshalSignMasterPrivateKeyASN1", func(b []byte) int { _, err := sm9.UnmarshalSignMasterPrivateKeyASN1(b); return d(err) }, must(smk.MarshalASN1()))
	add("sm9", "sm9.UnmarshalSignMasterPublicKeyASN1", func(b []byte) int { _, err := sm9.UnmarshalSignMasterPublicKeyASN1(b); return d(err) }, must(smk.PublicKey().MarshalASN1()), must(smk.PublicKey().MarshalCompressedASN1()))
	add("sm9", "sm9.UnmarshalSignMasterPublicKeyRaw", func(b []byte) int { _, err := sm9.UnmarshalSignMasterPublicKeyRaw(b); return d(err) }, smk.PublicKey().Bytes())
	add("sm9", "sm9.UnmarshalSignPrivateKeyASN1", func(b []byte) int { _, err := sm9.UnmarshalSignPrivateKeyASN1(b); return d(err) }, must(suk.MarshalASN1()), must(suk.MarshalCompressedASN1()))
	add("sm9", "sm9.UnmarshalSignPrivateKeyRaw", func(b []byte) int { _, err := sm9.UnmarshalSignPrivateKeyRaw(b); return d(err) }, suk.Bytes())
	add("sm9", "sm9.UnmarshalEncryptMasterPrivateKeyASN1", func(b []byte) int { _, err := sm9.UnmarshalEncryptMasterPrivateKeyASN1(b); return d(err) }, must(emk.MarshalASN1()))
	add("sm9", "sm9.UnmarshalEncryptMasterPublicKeyASN1", func(b []byte) int { _, err := sm9.UnmarshalEncryptMasterPublicKeyASN1(b); return d(err) }, must(emk.PublicKey().MarshalASN1()), must(emk.PublicKey().MarshalCompressedASN1()))
	add("sm9", "sm9.UnmarshalEncryptMasterPublicKeyRaw", func(b []byte) int { _, err := sm9.UnmarshalEncryptMasterPublicKeyRaw(b); return d(err) }, emk.PublicKey().Bytes())
	add("sm9", "sm9.UnmarshalEncryptPrivateKeyASN1", func(b []byte) int { _, err := sm9.UnmarshalEncryptPrivateKeyASN1(b); return d(err) }, must(euk.MarshalASN1()), must(euk.MarshalCompressedASN1()))
	add("sm9", "sm9.UnmarshalEncryptPrivateKeyRaw", func(b []byte) int { _, err := sm9.UnmarshalEncryptPrivateKeyRaw(b); return d(err) }, euk.Bytes())
	add("sm9", "sm9.ParseSignMasterPublicKeyPEM", func(b []byte) int { _, err := sm9.ParseSignMasterPublicKeyPEM(b); return d(err) },
		pem.EncodeToMemory(&pem.Block{Type: "PUBLIC KEY", Bytes: must(smk.PublicKey().MarshalASN1())}))
	add("sm9", "sm9.ParseEncryptMasterPublicKeyPEM", func(b []byte) int { _, err := sm9.ParseEncryptMasterPublicKeyPEM(b); return d(err) },
		pem.EncodeToMemory(&pem.Block{Type: "PUBLIC KEY", Bytes: must(emk.PublicKey().MarshalASN1())}))
	uidB := []byte("bob")
	eukB := must(emk.GenerateUserKey(uidB, 2))
	eukA2 := must(emk.GenerateUserKey(uidA, 2))
	kxA := eukA2.NewKeyExchange(uidA, uidB, 16, true)
	rA := must(kxA.InitKeyExchange(rnd, 2))
	add("sm9", "sm9.kx.RespondKeyExchange", func(b []byte) int {
		kxB := eukB.NewKeyExchange(uidB, uidA, 16, true)
		_, _, err := kxB.RespondKeyExchange(gen.NewDetReader(3), 2, b)
		return d(err)
	}, rA)
	kxB0 := eukB.NewKeyExchange(uidB, uidA, 16, true)
	rB, sB, _ := kxB0.RespondKeyExchange(rnd, 2, rA)
	add("sm9", "sm9.kx.ConfirmResponder(rB)", func(b []byte) int {
		kx := eukA2.NewKeyExchange(uidA, uidB, 16, true)
		if _, err := kx.InitKeyExchange(gen.NewDetReader(4), 2); err != nil {
			return 0
		}
		_, _, err := kx.ConfirmResponder(b, sB)
		return d(err)
	}, rB)

	// ------------------------------------------------------------ smx509
	caKey := must(sm2.GenerateKey(rnd))
	ca := mkCert(rnd, &caKey.PublicKey, nil, nil, caKey, true, "root")
	leaf := mkCert(rnd, &priv.PublicKey, ca, caKey, nil, false, "leaf")
	// a certificate exercising most extension parsers
	richTmpl := &x509.Certificate{
		SerialNumber: big.NewInt(424242), Subject: pkix.Name{CommonName: "rich", Organization: []string{"O1", "O2"}, Country: []string{"CN"}, Province: []string{"P"}, Locality: []string{"L"}, OrganizationalUnit: []string{"OU"}, SerialNumber: "S1"},
		NotBefore: refNotBefore, NotAfter: refNotAfter,
		KeyUsage: x509.KeyUsageCertSign | x509.KeyUsageDigitalSignature | x509.KeyUsageCRLSign, ExtKeyUsage: []x509.ExtKeyUsage{x509.ExtKeyUsageServerAuth, x509.ExtKeyUsageClientAuth, x509.ExtKeyUsageOCSPSigning},
		UnknownExtKeyUsage:    []asn1.ObjectIdentifier{{1, 2, 3, 4}},
		BasicConstraintsValid: true, IsCA: true, MaxPathLen: 1,
		DNSNames: []string{"a.example.com", "*.b.example.com"}, EmailAddresses: []string{"x@example.com"},
		IPAddresses: []net.IP{net.IPv4(10, 1, 2, 3), net.ParseIP("2001:db8::1")}, URIs: []*url.URL{{Scheme: "https", Host: "example.com", Path: "/x"}},
		SubjectKeyId: []byte{9, 8, 7}, AuthorityKeyId: []byte{1, 2, 3, 4},
		OCSPServer: []string{"http://ocsp.example.com"}, IssuingCertificateURL: []string{"http://ca.example.com/ca.crt"},
		CRLDistributionPoints:       []string{"http://crl.example.com/1.crl"},
		PolicyIdentifiers:           []asn1.ObjectIdentifier{{2, 5, 29, 32, 0}, {1, 2, 3, 5}},
		PermittedDNSDomainsCritical: true, PermittedDNSDomains: []string{".example.com"}, ExcludedDNSDomains: []string{"bad.example.com"},
		PermittedIPRanges: []*net.IPNet{{IP: net.IPv4(10, 0, 0, 0), Mask: net.CIDRMask(8, 32)}}, ExcludedIPRanges: []*net.IPNet{{IP: net.IPv4(10, 9, 0, 0), Mask: net.CIDRMask(16, 32)}},
		PermittedEmailAddresses: []string{"example.com"}, ExcludedURIDomains: []string{".evil.example"},
		ExtraExtensions: []pkix.Extension{{Id: asn1.ObjectIdentifier{1, 2, 3, 4, 5}, Critical: false, Value: []byte{0x04, 0x02, 0x01, 0x02}}},
	}
	richDER := must(smx509.CreateCertificate(rnd, richTmpl, ca.ToX509(), &priv2.PublicKey, caKey))
	ecKey := &ecdsa.PrivateKey{PublicKey: ecdsa.PublicKey{Curve: elliptic.P256()}, D: new(big.Int).SetBytes(gen.Fill(91, 31))}
	ecKey.X, ecKey.Y = elliptic.P256().ScalarBaseMult(ecKey.D.Bytes())
	ecCertDER := must(smx509.CreateCertificate(rnd, &x509.Certificate{SerialNumber: big.NewInt(77), Subject: pkix.Name{CommonName: "ec"}, NotBefore: refNotBefore, NotAfter: refNotAfter, DNSNames: []string{"ec.example"}}, ca.ToX509(), &ecKey.PublicKey, caKey))
	edPub, edPriv, _ := ed25519.GenerateKey(rnd)
	// self-signed certificates and requests whose OWN key verifies them, for every key family
	edSelfDER := must(smx509.CreateCertificate(rnd, &x509.Certificate{SerialNumber: big.NewInt(80), Subject: pkix.Name{CommonName: "edself"}, NotBefore: refNotBefore, NotAfter: refNotAfter, IsCA: true, BasicConstraintsValid: true, KeyUsage: x509.KeyUsageCertSign},
		&x509.Certificate{SerialNumber: big.NewInt(80), Subject: pkix.Name{CommonName: "edself"}}, edPub, edPriv))
	rsaSelfDER := must(smx509.CreateCertificate(rnd, &x509.Certificate{SerialNumber: big.NewInt(81), Subject: pkix.Name{CommonName: "rsaself"}, NotBefore: refNotBefore, NotAfter: refNotAfter, IsCA: true, BasicConstraintsValid: true, KeyUsage: x509.KeyUsageCertSign, SignatureAlgorithm: x509.SHA256WithRSAPSS},
		&x509.Certificate{SerialNumber: big.NewInt(81), Subject: pkix.Name{CommonName: "rsaself"}}, &testkeys.RSA2048().PublicKey, testkeys.RSA2048()))
	csrEd := must(smx509.CreateCertificateRequest(rnd, &x509.CertificateRequest{Subject: pkix.Name{CommonName: "csr-ed"}, EmailAddresses: []string{"x@example.com"}}, edPriv))
	csrRSA := must(smx509.CreateCertificateRequest(rnd, &x509.CertificateRequest{Subject: pkix.Name{CommonName: "csr-rsa"}, URIs: []*url.URL{{Scheme: "https", Host: "example.com"}}}, testkeys.RSA1024()))
	edCertDER := must(smx509.CreateCertificate(rnd, &x509.Certificate{SerialNumber: big.NewInt(78), Subject: pkix.Name{CommonName: "ed"}, NotBefore: refNotBefore, NotAfter: refNotAfter}, ca.ToX509(), edPub, caKey))
	rsaCertDER := must(smx509.CreateCertificate(rnd, &x509.Certificate{SerialNumber: big.NewInt(79), Subject: pkix.Name{CommonName: "rsa0"}, NotBefore: refNotBefore, NotAfter: refNotAfter}, ca.ToX509(), &testkeys.RSA1024().PublicKey, caKey))
	add("x509", "smx509.ParseCertificate(rich)", func(b []byte) int {
		c, err := smx509.ParseCertificate(b)
		if err == nil {
			c.CheckSignatureFrom(ca)
			selfChecks(c)
			pool := smx509.NewCertPool()
			pool.AddCert(ca)
			c.Verify(smx509.VerifyOptions{Roots: pool, CurrentTime: refNotBefore.Add(time.Hour), DNSName: "a.example.com", KeyUsages: []x509.ExtKeyUsage{x509.ExtKeyUsageAny}})
			c.VerifyHostname("10.1.2.3")
			c.ToX509()
		}
		return d(err)
	}, richDER, ecCertDER, edCertDER, rsaCertDER, edSelfDER, rsaSelfDER)
	add("x509", "smx509.ParseCertificate", func(b []byte) int {
		c, err := smx509.ParseCertificate(b)
		if err == nil {
			c.CheckSignatureFrom(ca)
			selfChecks(c)
			pool := smx509.NewCertPool()
			pool.AddCert(ca)
			c.Verify(smx509.VerifyOptions{Roots: pool, CurrentTime: refNotBefore.Add(time.Hour)})
			c.VerifyHostname("example.com")
		}
		return d(err)
	}, leaf.Raw, ca.Raw)
	add("x509", "smx509.ParseCertificates", func(b []byte) int { _, err := smx509.ParseCertificates(b); return d(err) }, append(append([]byte{}, leaf.Raw...), ca.Raw...))
	add("x509", "smx509.ParseCertificatePEM", func(b []byte) int { _, err := smx509.ParseCertificatePEM(b); return d(err) }, pem.EncodeToMemory(&pem.Block{Type: "CERTIFICATE", Bytes: leaf.Raw}))
	add("x509", "smx509.CertPool.AppendCertsFromPEM", func(b []byte) int { return db(smx509.NewCertPool().AppendCertsFromPEM(b)) }, pem.EncodeToMemory(&pem.Block{Type: "CERTIFICATE", Bytes: leaf.Raw}))
	csr := must(smx509.CreateCertificateRequest(rnd, &x509.CertificateRequest{Subject: pkix.Name{CommonName: "csr"}, DNSNames: []string{"a.b"}}, priv))
	add("x509", "smx509.ParseCertificateRequest", func(b []byte) int {
		c, err := smx509.ParseCertificateRequest(b)
		if err == nil {
			c.CheckSignature()
		}
		return d(err)
	}, csr, csrEd, csrRSA)
	add("x509", "smx509.ParseCertificateRequestPEM", func(b []byte) int { _, err := smx509.ParseCertificateRequestPEM(b); return d(err) }, pem.EncodeToMemory(&pem.Block{Type: "CERTIFICATE REQUEST", Bytes: csr}))
	crl := must(smx509.CreateRevocationList(rnd, &x509.RevocationList{Number: big.NewInt(5), ThisUpdate: refNotBefore, NextUpdate: refNotAfter,
		RevokedCertificateEntries: []x509.RevocationListEntry{{SerialNumber: big.NewInt(7), RevocationTime: refNotBefore}}}, ca, caKey))
	add("x509", "smx509.ParseRevocationList", func(b []byte) int {
		c, err := smx509.ParseRevocationList(b)
		if err == nil {
			c.CheckSignatureFrom(ca)
		}
		return d(err)
	}, crl)
	add("x509", "smx509.ParseCRL", func(b []byte) int {
		c, err := smx509.ParseCRL(b)
		if err == nil {
			ca.CheckCRLSignature(c)
		}
		return d(err)
	}, crl, pem.EncodeToMemory(&pem.Block{Type: "X509 CRL", Bytes: crl}))
	add("x509", "smx509.ParseDERCRL", func(b []byte) int { _, err := smx509.ParseDERCRL(b); return d(err) }, crl)
	rsaKey := testkeys.RSA1024()
	p8 := must(smx509.MarshalPKCS8PrivateKey(priv))
	p8rsa := must(smx509.MarshalPKCS8PrivateKey(rsaKey))
	p8sm9 := must(smx509.MarshalPKCS8PrivateKey(suk))
	p8sm9m := must(smx509.MarshalPKCS8PrivateKey(smk))
	p8sm9e := must(smx509.MarshalPKCS8PrivateKey(euk))
	p8sm9em := must(smx509.MarshalPKCS8PrivateKey(emk))
	p8ecdh := must(smx509.MarshalPKCS8PrivateKey(ek))
	add("x509", "smx509.ParsePKCS8PrivateKey", func(b []byte) int { _, err := smx509.ParsePKCS8PrivateKey(b); return d(err) }, p8, p8rsa, p8sm9, p8sm9m, p8sm9e, p8sm9em, p8ecdh)
	sec1 := must(smx509.MarshalSM2PrivateKey(priv))
	add("x509", "smx509.ParseSM2PrivateKey", func(b []byte) int { _, err := smx509.ParseSM2PrivateKey(b); return d(err) }, sec1)
	add("x509", "smx509.ParseECPrivateKey", func(b []byte) int { _, err := smx509.ParseECPrivateKey(b); return d(err) }, sec1)
	add("x509", "smx509.ParseTypedECPrivateKey", func(b []byte) int { _, err := smx509.ParseTypedECPrivateKey(b); return d(err) }, sec1)
	pkix1 := must(smx509.MarshalPKIXPublicKey(&priv.PublicKey))
	add("x509", "smx509.ParsePKIXPublicKey", func(b []byte) int { _, err := smx509.ParsePKIXPublicKey(b); return d(err) }, pkix1, must(smx509.MarshalPKIXPublicKey(&rsaKey.PublicKey)), must(smx509.MarshalPKIXPublicKey(ek.PublicKey())))
	add("x509", "smx509.ParsePKCS1PrivateKey", func(b []byte) int { _, err := smx509.ParsePKCS1PrivateKey(b); return d(err) }, smx509.MarshalPKCS1PrivateKey(rsaKey))
	add("x509", "smx509.ParsePKCS1PublicKey", func(b []byte) int { _, err := smx509.ParsePKCS1PublicKey(b); return d(err) }, smx509.MarshalPKCS1PublicKey(&rsaKey.PublicKey))
	for _, alg := range []smx509.PEMCipher{smx509.PEMCipherSM4, smx509.PEMCipherAES128, smx509.PEMCipherDES, smx509.PEMCipher3DES, smx509.PEMCipherAES256} {
		blk := must(smx509.EncryptPEMBlock(rnd, "EC PRIVATE KEY", sec1, []byte("pw"), alg))
		hdrs := blk.Headers
		typ := blk.Type
		add("x509", fmt.Sprintf("smx509.DecryptPEMBlock(bytes,%d)", alg), func(b []byte) int {
			_, err := smx509.DecryptPEMBlock(&pem.Block{Type: typ, Headers: hdrs, Bytes: b}, []byte("pw"))
			return d(err)
		}, blk.Bytes)
		add("x509", fmt.Sprintf("smx509.DecryptPEMBlock(pem,%d)", alg), func(b []byte) int {
			p, _ := pem.Decode(b)
			if p != nil {
				smx509.IsEncryptedPEMBlock(p)
				_, err := smx509.DecryptPEMBlock(p, []byte("pw"))
				return d(err)
			}
			return 0
		}, pem.EncodeToMemory(blk))
		add("x509", fmt.Sprintf("smx509.DecryptPEMBlock(dekinfo,%d)", alg), func(b []byte) int {
			_, err := smx509.DecryptPEMBlock(&pem.Block{Type: typ, Headers: map[string]string{"Proc-Type": "4,ENCRYPTED", "DEK-Info": string(b)}, Bytes: blk.Bytes}, []byte("pw"))
			return d(err)
		}, []byte(hdrs["DEK-Info"]))
	}
	encKey := must(sm2.GenerateKey(rnd))
	encCert := mkCert(rnd, &encKey.PublicKey, ca, caKey, nil, false, "enc")
	rsp := must(smx509.MarshalCSRResponse([]*smx509.Certificate{leaf}, encKey, []*smx509.Certificate{encCert}))
	add("x509", "smx509.ParseCSRResponse", func(b []byte) int { _, err := smx509.ParseCSRResponse(priv, b); return d(err) }, rsp)
	tmpKey := must(sm2.GenerateKey(rnd))
	cfcaCsr := must(smx509.CreateCFCACertificateRequest(rnd, &x509.CertificateRequest{Subject: pkix.Name{CommonName: "cfca"}}, priv, &tmpKey.PublicKey, "111111"))
	cfcaCsrRSA := must(smx509.CreateCFCACertificateRequest(rnd, &x509.CertificateRequest{Subject: pkix.Name{CommonName: "cfca"}}, rsaKey, &testkeys.RSA2048().PublicKey, "111111"))
	add("x509", "smx509.ParseCFCACertificateRequest", func(b []byte) int {
		c, err := smx509.ParseCFCACertificateRequest(b)
		if err == nil {
			c.CheckSignature()
		}
		return d(err)
	}, cfcaCsr, cfcaCsrRSA)
	add("cfca", "cfca.ParseCertificateRequest", func(b []byte) int {
		c, err := cfca.ParseCertificateRequest(b)
		if err == nil {
			c.CheckSignature()
		}
		return d(err)
	}, cfcaCsr, cfcaCsrRSA)

	// ------------------------------------------------------------ pkcs8 (password KDFs)
	type encCase struct {
		name string
		enc  pkcs.PBESEncrypter
	}
	encs := []encCase{
		{"sm4cbc-smpbkdf2", pkcs.NewPBESEncrypter(pkcs.SM4CBC, pkcs.NewSMPBKDF2Opts(8, 4))},
		{"sm4gcm-pbkdf2-sha256", pkcs.NewPBESEncrypter(pkcs.SM4GCM, pkcs.NewPBKDF2Opts(pkcs.SHA256, 8, 4))},
		{"sm4ecb-pbkdf2-sha1", pkcs.NewPBESEncrypter(pkcs.SM4ECB, pkcs.NewPBKDF2Opts(pkcs.SHA1, 8, 4))},
		{"aes128cbc-scrypt", pkcs.NewPBESEncrypter(pkcs.AES128CBC, pkcs.NewScryptOpts(8, 16, 1, 1))},
		{"aes256gcm-pbkdf2-sha512", pkcs.NewPBESEncrypter(pkcs.AES256GCM, pkcs.NewPBKDF2Opts(pkcs.SHA512, 8, 4))},
		{"des3cbc-pbkdf2-sha1", pkcs.NewPBESEncrypter(pkcs.TripleDESCBC, pkcs.NewPBKDF2Opts(pkcs.SHA1, 8, 4))},
		{"descbc-pbkdf2-sm3", pkcs.NewPBESEncrypter(pkcs.DESCBC, pkcs.NewPBKDF2Opts(pkcs.SM3, 8, 4))},
		{"smpbes", pkcs.NewSMPBESEncrypter(8, 4)},
	}
	if e, err := pkcs.NewPbeWithSHA1AndDESCBC(rnd, 8, 4); err == nil {
		encs = append(encs, encCase{"pbes1-sha1-des", e})
	}
	if e, err := pkcs.NewPbeWithMD5AndRC2CBC(rnd, 8, 4); err == nil {
		encs = append(encs, encCase{"pbes1-md5-rc2", e})
	}
	if e, err := pkcs.NewPbeWithMD2AndDESCBC(rnd, 8, 4); err == nil {
		encs = append(encs, encCase{"pbes1-md2-des", e})
	}
	for _, e := range encs {
		der := must(pkcs8.MarshalPrivateKey(priv, []byte("password"), e.enc))
		t := add("pkcs8", "pkcs8.ParsePrivateKey/"+e.name, func(b []byte) int {
			_, _, err := pkcs8.ParsePrivateKey(b, []byte("password"))
			return d(err)
		}, der)
		t.kdf = true
	}
	encRSA := must(pkcs8.MarshalPrivateKey(rsaKey, []byte("password"), encs[1].enc))
	t := add("pkcs8", "pkcs8.ParsePKCS8PrivateKey(pw)", func(b []byte) int {
		_, err := pkcs8.ParsePKCS8PrivateKey(b, []byte("password"))
		return d(err)
	}, encRSA, must(pkcs8.MarshalPrivateKey(suk, []byte("password"), encs[0].enc)))
	t.kdf = true
	add("pkcs8", "pkcs8.ParsePKCS8PrivateKey(nopw)", func(b []byte) int { _, err := pkcs8.ParsePKCS8PrivateKey(b); return d(err) }, p8, p8rsa)
	add("pkcs8", "pkcs8.ParseTyped", func(b []byte) int {
		n := 0
		_, err := pkcs8.ParseSM9SignMasterPrivateKey(b)
		n += d(err)
		_, err = pkcs8.ParseSM9SignPrivateKey(b)
		n += d(err)
		_, err = pkcs8.ParseSM9EncryptMasterPrivateKey(b)
		n += d(err)
		_, err = pkcs8.ParseSM9EncryptPrivateKey(b)
		n += d(err)
		_, err = pkcs8.ParsePKCS8PrivateKeySM2(b)
		n += d(err)
		_, err = pkcs8.ParsePKCS8PrivateKeyRSA(b)
		n += d(err)
		_, err = pkcs8.ParsePKCS8PrivateKeyECDSA(b)
		n += d(err)
		return n
	}, p8sm9, p8sm9m, p8sm9e, p8sm9em, p8, p8rsa)

	// ------------------------------------------------------------ pkcs7
	var layerEnvs [][]byte
	content := []byte("pkcs7 content data 0123456789")
	sd := must(pkcs7.NewSMSignedData(content))
	if err := sd.AddSigner(leaf, priv, pkcs7.SignerInfoConfig{}); err != nil {
		panic(err)
	}
	signed := must(sd.Finish())
	sd2 := must(pkcs7.NewSMSignedData(content))
	if err := sd2.SignWithoutAttr(leaf, priv, pkcs7.SignerInfoConfig{}); err != nil {
		panic(err)
	}
	sd2.Detach()
	signedDet := must(sd2.Finish())
	rsaCert := mkCert(rnd, &rsaKey.PublicKey, ca, caKey, nil, false, "rsa")
	sd3 := must(pkcs7.NewSignedData(content))
	sd3.SetDigestAlgorithm(pkcs7.OIDDigestAlgorithmSHA256)
	if err := sd3.AddSigner(rsaCert, rsaKey, pkcs7.SignerInfoConfig{}); err != nil {
		panic(err)
	}
	signedRSA := must(sd3.Finish())
	pool := smx509.NewCertPool()
	pool.AddCert(ca)
	add("pkcs7", "pkcs7.Parse+Verify(signed)", func(b []byte) int {
		p, err := pkcs7.Parse(b)
		if err == nil {
			p.Content = content
			n := 1 + d(p.Verify())
			p.VerifyWithChain(pool)
			at := refNotBefore.Add(time.Hour)
			p.VerifyWithChainAtTime(pool, &at)
			p.VerifyAsDigest()
			p.GetOnlySigner()
			p.GetRecipients()
			p.Decrypt(leaf, priv)
			p.DecryptUsingPSK(make([]byte, 16))
			p.DecryptAndVerify(leaf, priv, func() error { return p.Verify() })
			var ts time.Time
			p.UnmarshalSignedAttribute(pkcs7.OIDAttributeSigningTime, &ts)
			return n
		}
		return 0
	}, signed, signedDet, signedRSA)
	for _, c := range []struct {
		n string
		c pkcs.Cipher
	}{{"sm4cbc", pkcs.SM4CBC}, {"sm4gcm", pkcs.SM4GCM}, {"sm4ecb", pkcs.SM4ECB}, {"aes128cbc", pkcs.AES128CBC}, {"aes256gcm", pkcs.AES256GCM}, {"des", pkcs.DESCBC}, {"3des", pkcs.TripleDESCBC}} {
		c := c
		env1 := must(pkcs7.EncryptSM(c.c, content, []*smx509.Certificate{leaf}))
		env2 := must(pkcs7.Encrypt(c.c, content, []*smx509.Certificate{rsaCert}))
		envC := must(pkcs7.EncryptCFCA(c.c, content, []*smx509.Certificate{leaf}))
		if c.n == "sm4cbc" || c.n == "sm4gcm" || c.n == "aes128cbc" || c.n == "3des" {
			layerEnvs = append(layerEnvs, env1, env2, envC)
			envelopeTargets = append(envelopeTargets, "pkcs7.Parse+Decrypt(env,"+c.n+")")
		}
		add("pkcs7", "pkcs7.Parse+Decrypt(env,"+c.n+")", func(b []byte) int {
			p, err := pkcs7.Parse(b)
			if err == nil {
				_, e1 := p.Decrypt(leaf, priv)
				_, e2 := p.Decrypt(rsaCert, rsaKey)
				_, e3 := p.DecryptCFCA(leaf, priv)
				p.Verify()
				p.GetRecipients()
				return 1 + d(e1) + d(e2) + d(e3)
			}
			return 0
		}, env1, env2, envC)
		key := bytes.Repeat([]byte{9}, c.c.KeySize())
		psk := must(pkcs7.EncryptSMUsingPSK(c.c, content, key))
		psk2 := must(pkcs7.EncryptUsingPSK(c.c, content, key))
		add("pkcs7", "pkcs7.Parse+DecryptUsingPSK("+c.n+")", func(b []byte) int {
			p, err := pkcs7.Parse(b)
			if err == nil {
				_, e := p.DecryptUsingPSK(key)
				return 1 + d(e)
			}
			return 0
		}, psk, psk2)
	}
	saed := must(pkcs7.NewSMSignedAndEnvelopedData(content, pkcs.SM4CBC))
	if err := saed.AddSigner(leaf, priv); err != nil {
		panic(err)
	}
	if err := saed.AddRecipient(encCert); err != nil {
		panic(err)
	}
	saedDer := must(saed.Finish())
	add("pkcs7", "pkcs7.Parse+DecryptAndVerify", func(b []byte) int {
		p, err := pkcs7.Parse(b)
		if err == nil {
			_, e := p.DecryptAndVerify(encCert, encKey, func() error { return p.Verify() })
			p.DecryptAndVerifyOnlyOne(encKey, func() error { return p.Verify() })
			return 1 + d(e)
		}
		return 0
	}, saedDer)
	add("pkcs7", "pkcs7.DegenerateCertificate", func(b []byte) int {
		out, err := pkcs7.DegenerateCertificate(b)
		if err == nil {
			pkcs7.Parse(out)
		}
		return d(err)
	}, leaf.Raw)

	// ------------------------------------------------------------ cfca
	blob := must(cfca.MarshalSM2([]byte("123456"), priv, leaf))
	add("cfca", "cfca.ParseSM2", func(b []byte) int { _, _, err := cfca.ParseSM2([]byte("123456"), b); return d(err) }, blob)
	cenc := must(cfca.EncryptBySM4CBC(content, []byte("pw")))
	add("cfca", "cfca.DecryptBySM4CBC", func(b []byte) int { _, err := cfca.DecryptBySM4CBC(b, []byte("pw")); return d(err) }, cenc)
	add("cfca", "cfca.DecryptBySM4CBC(pw=input)", func(b []byte) int { _, err := cfca.DecryptBySM4CBC(cenc, b); return d(err) }, []byte("pw"))
	ce := must(cfca.EnvelopeMessage(pkcs.SM4CBC, content, []*smx509.Certificate{leaf}))
	cel := must(cfca.EnvelopeMessageLegacy(pkcs.SM4CBC, content, []*smx509.Certificate{leaf}))
	add("cfca", "cfca.OpenEnvelopedMessage", func(b []byte) int {
		_, e1 := cfca.OpenEnvelopedMessage(b, leaf, priv)
		_, e2 := cfca.OpenEnvelopedMessageLegacy(b, leaf, priv)
		return d(e1) + d(e2)
	}, ce, cel)
	sa := must(cfca.SignMessageAttach(content, leaf, priv))
	sdet := must(cfca.SignMessageDetach(content, leaf, priv))
	sdig := must(cfca.SignDigestDetach(hash, leaf, priv))
	add("cfca", "cfca.Verify", func(b []byte) int {
		return d(cfca.VerifyMessageAttach(b)) + d(cfca.VerifyMessageDetach(b, content)) + d(cfca.VerifyDigestDetach(b, hash))
	}, sa, sdet, sdig)
	add("cfca", "cfca.ParseEscrowPrivateKey", func(b []byte) int { _, err := cfca.ParseEscrowPrivateKey(tmpKey, b); return d(err) },
		[]byte("00000000000000010000000000000001000000000000000000000000000000000000000000000268"+strings.Repeat("A", 100)))

	addCipherTargets(add)

	// material for the layered constructions (layered_test.go)
	lctx = layeredCtx{inner: priv2, priv: priv, tmpKey: tmpKey, rsaKey: rsaKey, hash: hash, p8: p8, env: env, rsp: rsp, blob: blob,
		sm9pub: emk.PublicKey(), sm9uid: uidA}
	for _, e := range encs {
		lctx.encs = append(lctx.encs, namedEnc{e.name, e.enc})
	}
	lctx.envelopes = append(lctx.envelopes, saedDer, ce, cel)
	lctx.envelopes = append(lctx.envelopes, layerEnvs...)
	envelopeTargets = append(envelopeTargets, "pkcs7.Parse+DecryptAndVerify", "cfca.OpenEnvelopedMessage")

	// ------------------------------------------------------------ padding
	for _, bs := range []uint{1, 3, 8, 16, 32} {
		bs := bs
		for _, np := range []struct {
			n string
			p padding.Padding
		}{{"pkcs7", padding.NewPKCS7Padding(bs)}, {"x923", padding.NewANSIX923Padding(bs)}, {"m2", padding.NewISO9797M2Padding(bs)}, {"m3", padding.NewISO9797M3Padding(bs)}} {
			p := np.p
			add("padding", fmt.Sprintf("padding.%s(%d)", np.n, bs), func(b []byte) int {
				_, err := p.Unpad(b)
				if !(np.n == "m3" && bs < 8 && len(b) > 31) { // method 3 cannot represent longer messages in a block this small
					p.Pad(b)
				}
				return d(err)
			}, bytes.Repeat([]byte{1}, int(bs)*3), make([]byte, bs*2))
		}
	}
	return ts
}
