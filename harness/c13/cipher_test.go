package c13

// Cipher-level hostile inputs. The containers (PKCS#8, PKCS#7, CFCA blobs, SM9
// ciphertexts) hand attacker-chosen ciphertexts, tags, IVs and parameter
// structures to the SM4 AEADs and to the pkcs.Cipher implementations; which
// code then runs depends on the CPU dispatch tier (fused AES-NI/CLMUL GCM,
// AES-NI without CLMUL, table-driven Go, purego). This group calls those
// primitives directly so that it can run under every tier cheaply.

import (
	"crypto/cipher"
	"encoding/asn1"
	"fmt"

	smcipher "github.com/emmansun/gmsm/cipher"
	"github.com/emmansun/gmsm/pkcs"
	"github.com/emmansun/gmsm/sm4"
	"verif/harness/gen"
)

func addCipherTargets(add func(group, name string, call func([]byte) int, seeds ...[]byte) *target) {
	key := gen.Fill(0xC1, 16)
	blk := must(sm4.NewCipher(key))
	aad := []byte("associated data")
	pt := gen.Fill(0xC3, 40)
	openTarget := func(name string, a cipher.AEAD) {
		nonce := gen.Fill(0xC2, a.NonceSize())
		add("cipher", name+".Open", func(b []byte) int { _, err := a.Open(nil, nonce, b, aad); return d(err) },
			a.Seal(nil, nonce, pt, aad), a.Seal(nil, nonce, nil, aad), a.Seal(nil, nonce, pt[:1], nil))
		ct := a.Seal(nil, nonce, pt, aad)
		add("cipher", name+".Open(aad=input)", func(b []byte) int { _, err := a.Open(nil, nonce, ct, b); return d(err) }, aad)
	}
	for ts := 12; ts <= 16; ts++ {
		openTarget(fmt.Sprintf("sm4.GCM(tag=%d)", ts), must(cipher.NewGCMWithTagSize(blk, ts)))
	}
	for _, ns := range []int{1, 8, 13, 16, 64} {
		openTarget(fmt.Sprintf("sm4.GCM(nonce=%d)", ns), must(cipher.NewGCMWithNonceSize(blk, ns)))
	}
	for _, ts := range []int{4, 6, 8, 10, 12, 14, 16} {
		openTarget(fmt.Sprintf("sm4.CCM(tag=%d)", ts), must(smcipher.NewCCMWithTagSize(blk, ts)))
	}
	for ns := 7; ns <= 13; ns++ {
		openTarget(fmt.Sprintf("sm4.CCM(nonce=%d)", ns), must(smcipher.NewCCMWithNonceSize(blk, ns)))
	}
	for _, c := range []struct {
		n string
		c pkcs.Cipher
	}{{"SM4ECB", pkcs.SM4ECB}, {"SM4CBC", pkcs.SM4CBC}, {"SM4GCM", pkcs.SM4GCM}, {"SM4", pkcs.SM4},
		{"AES128CBC", pkcs.AES128CBC}, {"AES128GCM", pkcs.AES128GCM}, {"AES192CBC", pkcs.AES192CBC}, {"AES192GCM", pkcs.AES192GCM},
		{"AES256CBC", pkcs.AES256CBC}, {"AES256GCM", pkcs.AES256GCM}, {"DESCBC", pkcs.DESCBC}, {"TripleDESCBC", pkcs.TripleDESCBC}} {
		c := c
		k := gen.Fill(0xC4, c.c.KeySize())
		alg, ct, err := c.c.Encrypt(gen.NewDetReader(0xC5), k, pt)
		if err != nil {
			panic(err)
		}
		params := alg.Parameters
		add("cipher", "pkcs."+c.n+".Decrypt(ct=input)", func(b []byte) int { _, err := c.c.Decrypt(k, &params, b); return d(err) }, ct)
		add("cipher", "pkcs."+c.n+".Decrypt(key=input)", func(b []byte) int { _, err := c.c.Decrypt(b, &params, ct); return d(err) }, k)
		pseed := params.FullBytes
		if len(pseed) == 0 {
			pseed = []byte{0x05, 0x00}
		}
		add("cipher", "pkcs."+c.n+".Decrypt(params=input)", func(b []byte) int {
			var rv asn1.RawValue
			if rest, err := asn1.Unmarshal(b, &rv); err != nil || len(rest) != 0 {
				rv = asn1.RawValue{FullBytes: b}
			}
			_, err := c.c.Decrypt(k, &rv, ct)
			return d(err)
		}, pseed)
	}
}

// allLengths: every length 0..96 in three fill patterns - the inputs where an
// AEAD's "shorter than the tag" and a block mode's "not a whole block" guards decide.
func allLengths(emit func([]byte)) {
	for n := 0; n <= 96; n++ {
		emit(make([]byte, n))
		emit(ff(n))
		emit(gen.Fill(uint64(0xA000+n), n))
	}
}
