// C13 — no parser, verifier or decryptor panics, hangs or overruns on hostile
// bytes. See DESIGN.md section 4, C13.
package c13

import (
	"crypto/x509/pkix"
	"encoding/asn1"
	"fmt"
	"hash/fnv"
	"os"
	"runtime"
	"sort"
	"strings"
	"sync/atomic"
	"testing"
	"time"

	"pgregory.net/rapid"
	"verif/harness/gen"
	"verif/harness/h"
)

func TestMain(m *testing.M) {
	go watchdog()
	h.Main(m, selfTestDER, selfTestLayered)
}

// hcase is one hostile input for one entry point.
type hcase struct {
	T    string // target name
	Kind string // how the input was made
	In   h.B
}

func (c hcase) Key() string {
	f := fnv.New64a()
	f.Write(c.In)
	return fmt.Sprintf("%s/%x/%d", c.T, f.Sum64(), len(c.In))
}

// kdfCostLimit bounds attacker-chosen password-KDF cost parameters (PBKDF2
// iteration count, scrypt N/r/p): inputs whose DER carries a larger INTEGER are
// excluded from KDF-bearing targets and counted. An expensive-by-design KDF is
// not a hang (DESIGN C13).
const kdfCostLimit = 4096

// kdfCost returns the largest non-negative INTEGER (saturated) found inside the
// encryption AlgorithmIdentifier of an EncryptedPrivateKeyInfo, i.e. wherever a
// PBES1/PBES2 iteration count or scrypt cost parameter can live. It uses the
// same parser as the library (encoding/asn1) with maximally lenient types: the
// outer structure is decoded exactly like pkcs8.ParsePrivateKey does (if that
// fails the library fails too, before any KDF runs), and the parameters are
// walked TLV by TLV, descending into every constructed element and continuing
// with the next sibling when something inside does not parse - a superset of
// what the library's staged asn1.Unmarshal calls can read.
func kdfCost(in []byte) (maxInt, product uint64) {
	var epki struct {
		Algo pkix.AlgorithmIdentifier
		Data []byte
	}
	if _, err := asn1.Unmarshal(in, &epki); err != nil {
		return 0, 1
	}
	var m uint64
	prod := uint64(1)
	var walk func(b []byte, depth int)
	walk = func(b []byte, depth int) {
		for len(b) > 0 && depth < 40 {
			var raw asn1.RawValue
			rest, err := asn1.Unmarshal(b, &raw)
			if err != nil {
				return
			}
			if raw.IsCompound {
				walk(raw.Bytes, depth+1)
			} else if raw.Class == asn1.ClassUniversal && raw.Tag == asn1.TagInteger && len(raw.Bytes) > 0 && raw.Bytes[0]&0x80 == 0 {
				var v uint64
				for _, x := range raw.Bytes {
					if v > 1<<55 {
						v = 1 << 62
						break
					}
					v = v<<8 | uint64(x)
				}
				if v > m {
					m = v
				}
				if v > 1 {
					if prod > 1<<40 || v > 1<<20 {
						prod = 1 << 62
					} else {
						prod *= v
					}
				}
			}
			b = rest
		}
	}
	walk(epki.Algo.Parameters.FullBytes, 0)
	return m, prod
}

// kdfTooExpensive: a single cost parameter above kdfCostLimit, or a product of
// all INTEGER parameters above 2^22 (scrypt's cost is N*r*p).
func kdfTooExpensive(in []byte) bool {
	m, prod := kdfCost(in)
	return m > kdfCostLimit || prod > 1<<22
}

// ---------------------------------------------------------------- watchdog

var (
	curStart atomic.Int64 // unix nanos when the case in flight started, 0 if none
	curCase  atomic.Value // hcase
	curTest  atomic.Value // string
)

func watchdogLimit() time.Duration { return 25 * time.Second }

func watchdog() {
	for {
		time.Sleep(500 * time.Millisecond)
		st := curStart.Load()
		if st == 0 {
			continue
		}
		if time.Since(time.Unix(0, st)) < watchdogLimit() {
			continue
		}
		buf := make([]byte, 1<<20)
		n := runtime.Stack(buf, true)
		stacks := string(buf[:n])
		c, _ := curCase.Load().(hcase)
		test, _ := curTest.Load().(string)
		// Cost parameters of password KDFs are bounded by kdfTooExpensive before the
		// call, so a call that is still running after the limit is a hang wherever it is.
		h.Violation(test, "hang", c, fmt.Sprintf("call did not return within %v (non-termination); goroutine dump:\n%s", watchdogLimit(), trim(stacks, 6000)))
		fmt.Fprintf(os.Stderr, "watchdog: %s did not return within %v on input %s\n", c.T, watchdogLimit(), h.Hex(c.In))
		os.Exit(1)
	}
}

func trim(s string, n int) string {
	if len(s) > n {
		return s[:n]
	}
	return s
}

// ---------------------------------------------------------------- the check

func checkHostile(c hcase, r *h.Rec) error {
	targets()
	t := targetMap[c.T]
	if t == nil {
		return fmt.Errorf("HARNESS: unknown target %q", c.T)
	}
	r.Label("group:" + t.group)
	r.Label("kind:" + c.Kind)
	if t.kdf && kdfTooExpensive(c.In) {
		r.Label("excluded:kdf-cost")
		return nil
	}
	// a private copy with no spare capacity: an append into the caller's
	// backing array or a read past len would be visible / out of range
	in := make([]byte, len(c.In), len(c.In))
	copy(in, c.In)
	curCase.Store(c)
	curStart.Store(time.Now().UnixNano())
	depth := t.call(in) // a panic propagates to h.runCheck and is reported with its stack
	curStart.Store(0)
	if depth > 0 {
		r.Label("past-outer-parse")
		r.Label("deep:" + t.group)
	}
	structural := strings.HasPrefix(c.Kind, "der") || strings.HasPrefix(c.Kind, "layer") || c.Kind == "tiny" || c.Kind == "seed"
	r.NTIf(depth > 0 || structural)
	if string(in) != string(c.In) {
		return fmt.Errorf("%s modified its input bytes", c.T)
	}
	return nil
}

func run(t *testing.T, name string, enum func(emit func(hcase))) {
	curTest.Store(t.Name())
	h.Sweep(t, h.P{Name: name, Journal: true}, enum, checkHostile)
}

func groupTargets(groups ...string) []*target {
	var out []*target
	for _, t := range targets() {
		for _, g := range groups {
			if t.group == g {
				out = append(out, t)
			}
		}
	}
	return out
}

// ---------------------------------------------------------------- generators

func tinyInputs(emit func([]byte)) {
	emit(nil)
	emit([]byte{})
	for i := 0; i < 256; i++ {
		emit([]byte{byte(i)})
	}
	for _, a := range []byte{0x30, 0x31, 0x04, 0x03, 0x02, 0x06, 0x1f, 0x3f, 0xa0, 0x80, 0x00, 0xff, 0x24, 0x2d, 0x05} {
		for _, b := range []byte{0x00, 0x01, 0x02, 0x03, 0x7f, 0x80, 0x81, 0x82, 0x83, 0x84, 0x85, 0x88, 0xff} {
			emit([]byte{a, b})
			emit([]byte{a, b, 0x00})
			emit([]byte{a, b, 0xff})
			emit([]byte{a, b, 0x80})
			emit([]byte{a, b, 0x30, 0x80})
			emit([]byte{a, b, 0x00, 0x00})
			emit([]byte{a, b, 0xff, 0xff, 0xff, 0xff})
			emit([]byte{a, b, 0x7f, 0xff, 0xff, 0xff, 0x00})
			emit([]byte{a, b, 0x03, 0x00})
			emit([]byte{a, b, 0x04, 0x00})
		}
	}
	// point-like and length-like blobs
	for _, n := range []int{2, 3, 15, 16, 17, 31, 32, 33, 63, 64, 65, 66, 95, 96, 97, 98, 127, 128, 129, 130} {
		for _, first := range []byte{0x00, 0x02, 0x03, 0x04, 0x06, 0x30, 0xff} {
			b := make([]byte, n)
			b[0] = first
			emit(b)
			b2 := ff(n)
			b2[0] = first
			emit(b2)
		}
	}
}

func byteMutations(seed []byte, full bool, emit func(kind string, b []byte)) {
	step := 1
	if !full && len(seed) > 300 {
		step = (len(seed) + 299) / 300
	}
	for i := 0; i <= len(seed); i += step {
		emit("trunc", append([]byte{}, seed[:i]...))
	}
	for i := 0; i < len(seed); i += step {
		for _, v := range []byte{0x00, 0xff, seed[i] ^ 1, seed[i] ^ 0x80, seed[i] + 1, seed[i] - 1, 0x80, 0x30, 0x1f, 0x81, 0x84, 0x7f} {
			if v == seed[i] {
				continue
			}
			m := append([]byte{}, seed...)
			m[i] = v
			emit("subst", m)
		}
	}
	for i := 0; i < len(seed); i += step {
		m := append([]byte{}, seed[:i]...)
		m = append(m, seed[i+1:]...)
		emit("delete", m)
		m2 := append([]byte{}, seed[:i]...)
		m2 = append(m2, 0)
		m2 = append(m2, seed[i:]...)
		emit("insert", m2)
	}
	// extensions
	for _, tail := range [][]byte{{0}, {0, 0}, {0x30, 0x00}, ff(16)} {
		emit("extend", append(append([]byte{}, seed...), tail...))
	}
}

// derRoot parses a seed as DER (directly, or the body of a PEM block is left
// alone: PEM seeds only get byte-level mutations).
func derRoot(seed []byte) *node {
	n, rest, ok := parseTLV(seed, 0)
	if !ok || len(rest) != 0 {
		return nil
	}
	return n
}

func derMutations(seed []byte, full bool, emit func(kind string, b []byte)) {
	root := derRoot(seed)
	if root == nil {
		return
	}
	refs := walk(root)
	nodeStep := 1
	if !full && len(refs) > 120 {
		nodeStep = (len(refs) + 119) / 120
	}
	for ni := 0; ni < len(refs); ni += nodeStep {
		nm := numMutations(refs[ni])
		for k := 0; k < nm; k++ {
			if b := mutateTree(root, ni, k); b != nil {
				emit(fmt.Sprintf("der%d", k), b)
			}
		}
	}
}

// ---------------------------------------------------------------- tests

func TestC13_Seeds(t *testing.T) {
	run(t, "seeds", func(emit func(hcase)) {
		for _, tg := range targets() {
			for _, s := range tg.seeds {
				emit(hcase{tg.name, "seed", s})
			}
		}
	})
}

func TestC13_Tiny(t *testing.T) {
	h.MarkExhaustive("tiny")
	run(t, "tiny", func(emit func(hcase)) {
		for _, tg := range targets() {
			tinyInputs(func(b []byte) { emit(hcase{tg.name, "tiny", b}) })
		}
	})
}

func byteMutTest(t *testing.T, name string, groups ...string) {
	run(t, name, func(emit func(hcase)) {
		for _, tg := range groupTargets(groups...) {
			for _, s := range tg.seeds {
				byteMutations(s, h.Thorough(), func(kind string, b []byte) { emit(hcase{tg.name, kind, b}) })
			}
		}
	})
}

func derMutTest(t *testing.T, name string, groups ...string) {
	run(t, name, func(emit func(hcase)) {
		for _, tg := range groupTargets(groups...) {
			for _, s := range tg.seeds {
				derMutations(s, h.Thorough(), func(kind string, b []byte) { emit(hcase{tg.name, kind, b}) })
			}
		}
	})
}

func TestC13_Bytes_SM2(t *testing.T)   { byteMutTest(t, "bytes-sm2", "sm2", "ecdh", "padding") }
func TestC13_Bytes_SM9(t *testing.T)   { byteMutTest(t, "bytes-sm9", "sm9") }
func TestC13_Bytes_X509(t *testing.T)  { byteMutTest(t, "bytes-x509", "x509") }
func TestC13_Bytes_PKCS8(t *testing.T) { byteMutTest(t, "bytes-pkcs8", "pkcs8") }
func TestC13_Bytes_PKCS7(t *testing.T) { byteMutTest(t, "bytes-pkcs7", "pkcs7") }
func TestC13_Bytes_CFCA(t *testing.T)  { byteMutTest(t, "bytes-cfca", "cfca") }
func TestC13_DER_SM2SM9(t *testing.T)  { derMutTest(t, "der-sm2sm9", "sm2", "sm9", "ecdh") }
func TestC13_DER_X509(t *testing.T)    { derMutTest(t, "der-x509", "x509") }
func TestC13_DER_PKCS8(t *testing.T)   { derMutTest(t, "der-pkcs8", "pkcs8") }
func TestC13_DER_PKCS7(t *testing.T)   { derMutTest(t, "der-pkcs7", "pkcs7") }
func TestC13_DER_CFCA(t *testing.T)    { derMutTest(t, "der-cfca", "cfca") }

// TestC13_Ciphers runs the cipher-level group under every dispatch tier
// (spec.json lists the configurations): seeds, every length 0..96, all byte and
// structural mutations.
func TestC13_Ciphers(t *testing.T) {
	run(t, "ciphers", func(emit func(hcase)) {
		for _, tg := range groupTargets("cipher") {
			for _, s := range tg.seeds {
				emit(hcase{tg.name, "seed", s})
			}
			allLengths(func(b []byte) { emit(hcase{tg.name, "tiny", b}) })
			tinyInputs(func(b []byte) { emit(hcase{tg.name, "tiny", b}) })
			for _, s := range tg.seeds {
				byteMutations(s, h.Thorough(), func(kind string, b []byte) { emit(hcase{tg.name, kind, b}) })
				derMutations(s, h.Thorough(), func(kind string, b []byte) { emit(hcase{tg.name, kind, b}) })
			}
		}
	})
}

// TestC13_Layered: valid outer protection, hostile inner payload (layered_test.go).
func TestC13_Layered(t *testing.T) {
	run(t, "layered", func(emit func(hcase)) {
		targets()
		layeredCases(func(target, kind string, b []byte) {
			if targetMap[target] == nil {
				panic("layered: unknown target " + target)
			}
			emit(hcase{target, kind, b})
		})
	})
}

// TestC13_Foreign: every EC public key inside every seed replaced by keys on
// other curves (the algorithm identifiers keep saying SM2).
func TestC13_Foreign(t *testing.T) {
	run(t, "foreign", func(emit func(hcase)) {
		for _, tg := range targets() {
			for _, s := range tg.seeds {
				foreignVariants(s, func(kind string, b []byte) { emit(hcase{tg.name, kind, b}) })
			}
		}
	})
}

// TestC13_Random composes 1..4 byte-level and structural mutations at random.
func TestC13_Random(t *testing.T) {
	curTest.Store(t.Name())
	ts := targets()
	names := make([]string, 0, len(ts))
	for _, tg := range ts {
		names = append(names, tg.name)
	}
	sort.Strings(names)
	h.Prop(t, h.P{Name: "random", Quick: 30000, Thorough: 600000, Journal: true}, func(rt *rapid.T) hcase {
		name := rapid.SampledFrom(names).Draw(rt, "target")
		tg := targetMap[name]
		cur := append([]byte{}, tg.seeds[rapid.IntRange(0, len(tg.seeds)-1).Draw(rt, "seed")]...)
		nm := rapid.IntRange(1, 4).Draw(rt, "nmut")
		kind := "rand"
		for i := 0; i < nm; i++ {
			root := derRoot(cur)
			if root != nil && rapid.IntRange(0, 2).Draw(rt, "structural") > 0 {
				refs := walk(root)
				ni := rapid.IntRange(0, len(refs)-1).Draw(rt, "node")
				k := rapid.IntRange(0, numMutations(refs[ni])-1).Draw(rt, "mut")
				if b := mutateTree(root, ni, k); b != nil {
					cur = b
					kind = "der-rand"
				}
				continue
			}
			if len(cur) == 0 {
				break
			}
			pos := rapid.IntRange(0, len(cur)-1).Draw(rt, "pos")
			switch rapid.IntRange(0, 4).Draw(rt, "op") {
			case 0:
				cur[pos] = rapid.Byte().Draw(rt, "v")
			case 1:
				cur[pos] ^= 1 << rapid.IntRange(0, 7).Draw(rt, "bit")
			case 2:
				cur = append(cur[:pos:pos], cur[pos+1:]...)
			case 3:
				ins := rapid.SliceOfN(rapid.Byte(), 1, 4).Draw(rt, "ins")
				cur = append(append(append([]byte{}, cur[:pos]...), ins...), cur[pos:]...)
			case 4:
				cur = cur[:pos]
			}
		}
		return hcase{name, kind, cur}
	}, checkHostile)
}

func selfTestDER() error {
	// the TLV tree must re-encode DER input byte for byte and the mutator must
	// re-encode enclosing lengths
	in := []byte{0x30, 0x0b, 0x02, 0x01, 0x05, 0x04, 0x06, 0x30, 0x04, 0x02, 0x02, 0x01, 0x00}
	n, rest, ok := parseTLV(in, 0)
	if !ok || len(rest) != 0 || string(n.encode()) != string(in) {
		return fmt.Errorf("DER tree round trip failed: %x", n.encode())
	}
	refs := walk(n)
	if len(refs) != 5 {
		return fmt.Errorf("DER tree walk: %d nodes (encapsulated OCTET STRING not descended?)", len(refs))
	}
	// empty the innermost INTEGER: all three enclosing lengths must shrink
	out := mutateTree(n, 4, len(replacements)+0)
	want := []byte{0x30, 0x09, 0x02, 0x01, 0x05, 0x04, 0x04, 0x30, 0x02, 0x02, 0x00}
	if string(out) != string(want) {
		return fmt.Errorf("DER mutation re-encoding: got %x want %x", out, want)
	}
	// the KDF cost filter must see an iteration count that swallowed its neighbours
	bad := []byte{0x30, 0x30, 0x30, 0x2c, 0x06, 0x09, 0x2a, 0x86, 0x48, 0x86, 0xf7, 0x0d, 0x01, 0x05, 0x0d, 0x30, 0x1f, 0x30, 0x1d, 0x06, 0x09, 0x2a, 0x86, 0x48, 0x86, 0xf7, 0x0d, 0x01, 0x05, 0x0c,
		0x30, 0x10, 0x04, 0x02, 0xaa, 0xbb, 0x02, 0x05, 0x04, 0x02, 0x01, 0x10, 0x30, 0x0c, 0x03, 0x41, 0x42, 0x43, 0x04, 0x00}
	if c, _ := kdfCost(bad); c != 0x0402011030 {
		return fmt.Errorf("kdfCost = %#x", c)
	}
	_ = gen.Fill
	return nil
}
