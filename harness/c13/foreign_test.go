package c13

// "Foreign" material: well-formed elements that are valid in themselves but
// unexpected in their position - public keys on other curves (P-224, P-384,
// P-521, NIST P-256), RSA and Ed25519 keys, and algorithm / curve / content
// OIDs of other algorithms. A hostile certificate, request or PKCS#7 message
// may pair any key with any signature algorithm identifier (smx509 accepts an
// ECDSA key of any curve under the SM2-with-SM3 OID), so the code behind the
// parsers is reached with key sizes its authors did not have in mind.

import (
	"bytes"
	"crypto/ecdsa"
	"crypto/ed25519"
	"crypto/elliptic"
	"crypto/x509"
	"encoding/asn1"
	"math/big"

	"verif/harness/gen"
	"verif/harness/testkeys"
)

type foreignKey struct {
	name string
	pub  *ecdsa.PublicKey
	spki []byte
}

var foreignKeyList []foreignKey

func foreignKeys() []foreignKey {
	if foreignKeyList != nil {
		return foreignKeyList
	}
	for i, c := range []elliptic.Curve{elliptic.P224(), elliptic.P256(), elliptic.P384(), elliptic.P521()} {
		d := gen.Fill(uint64(0xF0+i), (c.Params().BitSize+7)/8-1)
		x, y := c.ScalarBaseMult(d)
		pub := &ecdsa.PublicKey{Curve: c, X: x, Y: y}
		spki, err := x509.MarshalPKIXPublicKey(pub)
		if err != nil {
			panic(err)
		}
		foreignKeyList = append(foreignKeyList, foreignKey{c.Params().Name, pub, spki})
	}
	return foreignKeyList
}

func oidDER(oid ...int) []byte {
	b, err := asn1.Marshal(asn1.ObjectIdentifier(oid))
	if err != nil {
		panic(err)
	}
	return b
}

var oidECPublicKey = oidDER(1, 2, 840, 10045, 2, 1)

func init() {
	for _, k := range foreignKeys() {
		replacements = append(replacements, k.spki)
	}
	rsaSPKI, err := x509.MarshalPKIXPublicKey(&testkeys.RSA1024().PublicKey)
	if err != nil {
		panic(err)
	}
	edSPKI, err := x509.MarshalPKIXPublicKey(ed25519.PublicKey(gen.Fill(0xED, 32)))
	if err != nil {
		panic(err)
	}
	replacements = append(replacements, rsaSPKI, edSPKI)
	for _, o := range [][]int{
		{1, 2, 156, 10197, 1, 301},        // SM2 curve / key
		{1, 2, 156, 10197, 1, 501},        // SM2 with SM3
		{1, 2, 156, 10197, 1, 401},        // SM3
		{1, 2, 156, 10197, 1, 104, 2},     // SM4-CBC
		{1, 2, 156, 10197, 1, 104, 8},     // SM4-GCM
		{1, 2, 156, 10197, 1, 301, 3},     // SM2 encryption
		{1, 2, 156, 10197, 6, 1, 4, 2, 1}, // SM data
		{1, 2, 156, 10197, 6, 1, 4, 2, 2}, // SM signedData
		{1, 2, 156, 10197, 6, 1, 4, 2, 3}, // SM envelopedData
		{1, 2, 840, 113549, 1, 7, 1},      // data
		{1, 2, 840, 113549, 1, 7, 2},      // signedData
		{1, 2, 840, 113549, 1, 7, 3},      // envelopedData
		{1, 2, 840, 113549, 1, 7, 6},      // encryptedData
		{1, 2, 840, 113549, 1, 1, 1},      // rsaEncryption
		{1, 2, 840, 113549, 1, 1, 11},     // sha256WithRSA
		{1, 2, 840, 113549, 1, 1, 10},     // RSASSA-PSS
		{1, 2, 840, 10045, 2, 1},          // id-ecPublicKey
		{1, 2, 840, 10045, 4, 3, 2},       // ecdsa-with-SHA256
		{1, 2, 840, 10045, 4, 3, 4},       // ecdsa-with-SHA512
		{1, 2, 840, 10045, 3, 1, 7},       // prime256v1
		{1, 3, 132, 0, 33},                // secp224r1
		{1, 3, 132, 0, 34},                // secp384r1
		{1, 3, 132, 0, 35},                // secp521r1
		{1, 3, 101, 112},                  // Ed25519
		{2, 16, 840, 1, 101, 3, 4, 2, 1},  // SHA-256
		{1, 3, 14, 3, 2, 26},              // SHA-1
	} {
		replacements = append(replacements, oidDER(o...))
	}
}

// isECSPKI: SEQUENCE { SEQUENCE { OID id-ecPublicKey, ... }, BIT STRING }.
func isECSPKI(n *node) bool {
	if !n.cons || len(n.children) != 2 || len(n.tag) != 1 || n.tag[0] != 0x30 {
		return false
	}
	alg, key := n.children[0], n.children[1]
	if len(alg.children) < 1 || len(key.tag) != 1 || key.tag[0] != 0x03 {
		return false
	}
	return bytes.Equal(alg.children[0].encode(), oidECPublicKey)
}

// foreignVariants emits, for every EC SubjectPublicKeyInfo found in a DER seed
// (also inside encapsulating strings), the seed with that element replaced by
// each foreign public key, all enclosing lengths re-encoded. Signature
// algorithm identifiers are left alone: the seeds are SM2-signed, so the
// variants pair a P-224/P-384/P-521 key with the SM2-with-SM3 algorithm.
func foreignVariants(seed []byte, emit func(kind string, b []byte)) {
	root := derRoot(seed)
	if root == nil {
		return
	}
	refs := walk(root)
	var idx []int
	for i, r := range refs {
		if isECSPKI(r.n) {
			idx = append(idx, i)
		}
	}
	put := func(which []int, spki []byte) {
		t := cloneTree(root)
		trefs := walk(t)
		for _, i := range which {
			n := trefs[i].n
			n.raw, n.children, n.content = spki, nil, nil
		}
		emit("der-foreign", t.encode())
	}
	for _, k := range foreignKeys() {
		for _, i := range idx {
			put([]int{i}, k.spki)
		}
		if len(idx) > 1 {
			put(idx, k.spki)
		}
	}
}

// foreignPoint returns r||s style / point style byte strings sized for the curve.
func coordBytes(v *big.Int, c elliptic.Curve) []byte {
	return v.FillBytes(make([]byte, (c.Params().BitSize+7)/8))
}
