package c13

// Layered hostile inputs: the OUTER protection of a container is made validly
// (encrypted to the right key / under the right password, MACed with the right
// key, satisfying the algebraic relation a verifier computes with), and the
// INNER payload that the library parses after removing it is hostile - wrong
// sizes, out-of-range scalars, structure-aware DER mutants. Byte mutations and
// fuzzing of a valid artefact never get there: they die in the outer hash, tag,
// padding or MAC check (seeded changes C13-5-1, C13-5-2).

import (
	"bytes"
	"crypto/rand"
	"crypto/rsa"
	"crypto/x509/pkix"
	"encoding/asn1"
	"encoding/base64"
	"fmt"
	"math/big"

	"github.com/emmansun/gmsm/cfca"
	smcipher "github.com/emmansun/gmsm/cipher"
	"github.com/emmansun/gmsm/pkcs"
	"github.com/emmansun/gmsm/sm2"
	"github.com/emmansun/gmsm/sm3"
	"github.com/emmansun/gmsm/sm4"
	"github.com/emmansun/gmsm/sm9"
	"verif/harness/gen"
	"verif/harness/h"
)

// layeredCtx holds the key material of buildTargets that the constructions need.
type layeredCtx struct {
	inner        *sm2.PrivateKey // the key carried inside the enveloped key / CSR response
	priv, tmpKey *sm2.PrivateKey // priv: recipient of enveloped keys / pkcs7 envelopes (leaf); tmpKey: CFCA temporary key
	rsaKey       *rsa.PrivateKey
	hash         []byte
	p8           []byte // plain PKCS#8 of priv
	encs         []namedEnc
	env          []byte   // sm2 enveloped private key (valid)
	rsp          []byte   // smx509 CSR response (valid)
	blob         []byte   // cfca.MarshalSM2 (valid)
	envelopes    [][]byte // pkcs7 / cfca EnvelopedData + SignedAndEnvelopedData addressed to priv or rsaKey
	sm9pub       *sm9.EncryptMasterPublicKey
	sm9uid       []byte
}

type namedEnc struct {
	name string
	enc  pkcs.PBESEncrypter
}

var lctx layeredCtx

// sizes used for inner payloads
var innerLens = []int{0, 1, 15, 16, 17, 31, 32, 33, 47, 48, 63, 64, 65, 95, 96, 97, 128, 200}

func pat(n int, k uint64) []byte { return gen.Fill(0x1A7E0000+k, n) }

func sm2N() *big.Int { return sm2.P256().Params().N }

// scalarPayloads: byte strings that are interesting as private scalars.
func scalarPayloads() [][]byte {
	n := sm2N()
	var out [][]byte
	for _, v := range []*big.Int{big.NewInt(0), big.NewInt(1), new(big.Int).Sub(n, big.NewInt(2)), new(big.Int).Sub(n, big.NewInt(1)), n, new(big.Int).Add(n, big.NewInt(1)),
		new(big.Int).Sub(new(big.Int).Lsh(big.NewInt(1), 256), big.NewInt(1))} {
		out = append(out, v.FillBytes(make([]byte, 32)))
	}
	out = append(out, new(big.Int).Lsh(big.NewInt(1), 256).Bytes(), bytes.Repeat([]byte{0xff}, 64))
	for _, l := range innerLens {
		out = append(out, pat(l, 1), make([]byte, l))
	}
	return out
}

// findNodes returns the pre-order indices of the nodes satisfying pred.
func findNodes(root *node, pred func(n *node) bool) []int {
	var out []int
	for i, r := range walk(root) {
		if pred(r.n) {
			out = append(out, i)
		}
	}
	return out
}

// withContent re-encodes root with the content of node index i replaced.
func withContent(root *node, i int, content []byte) []byte {
	t := cloneTree(root)
	n := walk(t)[i].n
	n.children, n.encap, n.raw = nil, 0, nil
	n.content = content
	if n.cons {
		n.cons = false
		n.tag[0] &^= 0x20
	}
	return t.encode()
}

// withRaw re-encodes root with the whole element at index i replaced by raw.
func withRaw(root *node, i int, raw []byte) []byte {
	t := cloneTree(root)
	n := walk(t)[i].n
	n.raw, n.children, n.content = raw, nil, nil
	return t.encode()
}

func isOctetString(n *node) bool { return len(n.tag) == 1 && n.tag[0] == 0x04 }
func isBitString(n *node) bool   { return len(n.tag) == 1 && n.tag[0] == 0x03 }

// escrowBlob formats an SM2 ciphertext (with the 0x04 prefix removed, as CFCA
// sends it) the way ParseEscrowPrivateKey expects: DER, base64, comma padded to
// the parser's minimum length, with or without the fixed-width header.
func escrowBlob(ct []byte, header bool) []byte {
	der, err := asn1.Marshal(struct {
		Version      int
		EncryptedKey []byte
	}{1, ct[1:]})
	if err != nil {
		panic(err)
	}
	b := []byte(base64.StdEncoding.EncodeToString(der))
	for len(b) < 268 {
		b = append(b, ',')
	}
	if header {
		h := []byte("0000000000000001000000000000000100000000000000000000000000000000")
		h = append(h, []byte(fmt.Sprintf("%016d", len(b)))...)
		b = append(h, b...)
	}
	return b
}

// sm4ecb encrypts whole blocks.
func sm4ecb(key, pt []byte) []byte {
	blk, err := sm4.NewCipher(key)
	if err != nil {
		panic(err)
	}
	out := make([]byte, len(pt))
	smcipher.NewECBEncrypter(blk).CryptBlocks(out, pt)
	return out
}

// envelopedKeyVariants: sm2 enveloped private keys whose wrapped SM4 key and
// whose SM4-ECB protected payload are valid ciphertexts of hostile plaintexts.
func envelopedKeyVariants(emit func(b []byte)) {
	c := &lctx
	root := derRoot(c.env)
	if root == nil || len(root.children) != 4 {
		panic("enveloped key: unexpected shape")
	}
	refs := walk(root)
	idx := func(n *node) int {
		for i, r := range refs {
			if r.n == n {
				return i
			}
		}
		panic("node not found")
	}
	iSymKey, iPub, iEnc := idx(root.children[1]), idx(root.children[2]), idx(root.children[3])
	rnd := gen.NewDetReader(0x1A7E)
	goodKey := pat(16, 7)
	wrap := func(k []byte) []byte { return must(sm2.EncryptASN1(rnd, &c.priv.PublicKey, k)) }
	bit := func(b []byte) []byte { return append([]byte{0}, b...) }
	// (1) wrapped SM4 key of every size, payload a valid scalar under the good key
	d := c.inner.D.FillBytes(make([]byte, 32))
	{ // (0) the construction with the right payload: must be accepted (self-test)
		t := cloneTree(root)
		tr := walk(t)
		tr[iSymKey].n.raw, tr[iSymKey].n.children = wrap(goodKey), nil
		n := tr[iEnc].n
		n.children, n.encap, n.raw, n.content = nil, 0, nil, bit(sm4ecb(goodKey, d))
		emit(t.encode())
	}
	for _, l := range []int{1, 8, 15, 17, 24, 32, 33, 64} {
		t := cloneTree(root)
		tr := walk(t)
		tr[iSymKey].n.raw, tr[iSymKey].n.children = wrap(pat(l, 2)), nil
		emit(t.encode())
	}
	// (2) good SM4 key, payload = hostile scalars / sizes (whole blocks only reach the scalar parser; others the length check)
	for _, p := range scalarPayloads() {
		var ct []byte
		if len(p)%16 == 0 {
			ct = sm4ecb(goodKey, p)
		} else {
			ct = append(sm4ecb(goodKey, p[:len(p)/16*16]), p[len(p)/16*16:]...)
		}
		t := cloneTree(root)
		tr := walk(t)
		tr[iSymKey].n.raw, tr[iSymKey].n.children = wrap(goodKey), nil
		n := tr[iEnc].n
		n.children, n.encap, n.raw, n.content = nil, 0, nil, bit(ct)
		emit(t.encode())
	}
	// (3) valid payload, public key field of other shapes
	for _, pub := range [][]byte{{}, {4}, bytes.Repeat([]byte{0}, 65), append([]byte{4}, bytes.Repeat([]byte{0xff}, 64)...), append([]byte{2}, pat(32, 3)...), pat(64, 4)} {
		t := cloneTree(root)
		tr := walk(t)
		tr[iSymKey].n.raw, tr[iSymKey].n.children = wrap(goodKey), nil
		n := tr[iEnc].n
		n.children, n.encap, n.raw, n.content = nil, 0, nil, bit(sm4ecb(goodKey, d))
		m := tr[iPub].n
		m.children, m.encap, m.raw, m.content = nil, 0, nil, bit(pub)
		emit(t.encode())
	}
}

// isEnvelopedKeyShape: SEQUENCE { SEQUENCE, SEQUENCE, BIT STRING, BIT STRING }.
func isEnvelopedKeyShape(n *node) bool {
	return n.cons && len(n.tag) == 1 && n.tag[0] == 0x30 && len(n.children) == 4 &&
		n.children[0].cons && n.children[1].cons && isBitString(n.children[2]) && isBitString(n.children[3])
}

// sm9Layered: SM9 ciphertexts whose C3 is the correct MAC of a hostile C2.
func sm9Layered(emit func(mode string, raw, der []byte)) {
	c := &lctx
	rnd := gen.NewDetReader(0x1A7E9)
	for _, m := range []struct {
		name string
		et   int
	}{{"ecb", 1}, {"cbc", 2}, {"ofb", 4}, {"cfb", 8}} {
		for _, l := range []int{0, 1, 15, 16, 17, 31, 32, 33, 48} {
			k, c1, err := sm9.WrapKey(rnd, c.sm9pub, c.sm9uid, 3, 16+32)
			if err != nil {
				panic(err)
			}
			c2 := pat(l, uint64(l))
			hsh := sm3.New()
			hsh.Write(c2)
			hsh.Write(k[16:])
			c3 := hsh.Sum(nil)
			raw := append(append(append([]byte{}, c1[1:]...), c3...), c2...) // C1 without the point-format octet
			der, err := asn1.Marshal(struct {
				EnType int
				C1     asn1.BitString
				C3     []byte
				C2     []byte
			}{m.et, asn1.BitString{Bytes: c1, BitLength: 8 * len(c1)}, c3, c2})
			if err != nil {
				panic(err)
			}
			emit(m.name, raw, der)
		}
	}
}

// layeredCases enumerates (target name, input).
func layeredCases(emit func(target, kind string, b []byte)) {
	c := &lctx
	rnd := gen.NewDetReader(0x1A7E1)
	// ---- cfca escrow key: valid SM2 ciphertext for the temporary key, hostile payload
	for _, p := range scalarPayloads() {
		if len(p) == 0 {
			continue // SM2 has no ciphertext of the empty message
		}
		ct := must(sm2.Encrypt(rnd, &c.tmpKey.PublicKey, append([]byte{}, p...), nil))
		emit("cfca.ParseEscrowPrivateKey", "layer-escrow", escrowBlob(ct, false))
		emit("cfca.ParseEscrowPrivateKey", "layer-escrow", escrowBlob(ct, true))
	}
	for _, d := range scalarPayloads() {
		if len(d) != 32 {
			continue
		}
		// X || Y || D with a valid point and a hostile scalar, and with a hostile point
		xy := append(c.priv.X.FillBytes(make([]byte, 32)), c.priv.Y.FillBytes(make([]byte, 32))...)
		for _, pl := range [][]byte{append(append([]byte{}, xy...), d...), append(pat(64, 5), d...), append(make([]byte, 64), d...)} {
			ct := must(sm2.Encrypt(rnd, &c.tmpKey.PublicKey, pl, nil))
			emit("cfca.ParseEscrowPrivateKey", "layer-escrow", escrowBlob(ct, true))
		}
	}
	// ---- sm2 enveloped key, alone and inside a CSR response
	rspRoot := derRoot(c.rsp)
	var rspIdx []int
	if rspRoot != nil {
		rspIdx = findNodes(rspRoot, isEnvelopedKeyShape)
	}
	envelopedKeyVariants(func(b []byte) {
		emit("sm2.ParseEnvelopedPrivateKey", "layer-envkey", b)
		for _, i := range rspIdx {
			emit("smx509.ParseCSRResponse", "layer-envkey", withRaw(rspRoot, i, b))
		}
	})
	// ---- cfca SM2 blob: SM4-CBC under the right password, hostile scalar bytes
	if root := derRoot(c.blob); root != nil {
		for _, i := range findNodes(root, isOctetString) {
			for _, p := range scalarPayloads() {
				ct, err := cfca.EncryptBySM4CBC(p, []byte("123456"))
				if err != nil {
					continue
				}
				emit("cfca.ParseSM2", "layer-cfcablob", withContent(root, i, ct))
			}
		}
	}
	// ---- encrypted PKCS#8: right password, every cipher/KDF, hostile inner PrivateKeyInfo
	var inner [][]byte
	for _, l := range innerLens {
		inner = append(inner, pat(l, 9))
	}
	derMutations(c.p8, false, func(kind string, b []byte) { inner = append(inner, b) })
	for ei, e := range c.encs {
		for k, in := range inner {
			if k >= len(innerLens) && (k+ei)%len(c.encs) != 0 && !h.Thorough() {
				continue // quick: each structural mutant under one of the ciphers; thorough: under all
			}
			alg, ct, err := e.enc.Encrypt(rnd, []byte("password"), in)
			if err != nil {
				continue
			}
			der, err := asn1.Marshal(struct {
				Alg pkix.AlgorithmIdentifier
				Enc []byte
			}{*alg, ct})
			if err != nil {
				continue
			}
			emit("pkcs8.ParsePrivateKey/"+e.name, "layer-pkcs8", der)
			emit("pkcs8.ParsePKCS8PrivateKey(pw)", "layer-pkcs8", der)
		}
	}
	// ---- PKCS#7 / CFCA envelopes: content-encryption key of the wrong size, validly wrapped for the recipient
	for _, env := range c.envelopes {
		root := derRoot(env)
		if root == nil {
			continue
		}
		for _, i := range findNodes(root, isOctetString) {
			body := walk(root)[i].n.body()
			var rewrap func(k []byte) []byte
			if _, err := sm2.Decrypt(c.priv, body); err == nil && len(body) > 96 {
				if body[0] == 0x30 {
					rewrap = func(k []byte) []byte { return must(sm2.EncryptASN1(rnd, &c.priv.PublicKey, k)) }
				} else {
					rewrap = func(k []byte) []byte { return must(sm2.Encrypt(rnd, &c.priv.PublicKey, k, nil)) }
				}
			} else if _, err := sm2.Decrypt(c.priv, append([]byte{4}, body...)); err == nil && len(body) > 96 {
				// CFCA legacy: C1||C3||C2 without the point-format octet (C1C2C3 order is tried by the targets too)
				rewrap = func(k []byte) []byte { return must(sm2.Encrypt(rnd, &c.priv.PublicKey, k, nil))[1:] }
			} else if len(body) == c.rsaKey.Size() {
				if _, err := rsa.DecryptPKCS1v15(nil, c.rsaKey, body); err == nil {
					rewrap = func(k []byte) []byte { return must(rsa.EncryptPKCS1v15(rand.Reader, &c.rsaKey.PublicKey, k)) }
				}
			}
			if rewrap == nil {
				continue
			}
			for _, l := range []int{1, 7, 8, 9, 15, 16, 17, 23, 24, 25, 31, 32, 33, 64} {
				b := withContent(root, i, rewrap(pat(l, 11)))
				for _, tn := range envelopeTargets {
					emit(tn, "layer-cek", b)
				}
			}
		}
	}
	// ---- SM9: correct MAC over a hostile C2
	sm9Layered(func(mode string, raw, der []byte) {
		emit("sm9.Decrypt(raw,"+mode+")", "layer-sm9", raw)
		emit("sm9.DecryptASN1", "layer-sm9", der)
		emit("sm9.priv.Decrypt(uidopts)", "layer-sm9", der)
		emit("sm9.priv.Decrypt(uidopts)", "layer-sm9", raw)
	})
	// ---- signatures satisfying the relation the verifier / recoverer computes with
	n := sm2N()
	e := new(big.Int).SetBytes(c.hash)
	for _, sv := range []*big.Int{big.NewInt(1), big.NewInt(2), new(big.Int).Sub(n, big.NewInt(1)), new(big.Int).SetBytes(pat(32, 12))} {
		s := new(big.Int).Mod(sv, n)
		if s.Sign() == 0 {
			continue
		}
		x, _ := sm2.P256().ScalarBaseMult(s.Bytes())
		r := new(big.Int).Mod(new(big.Int).Add(x, e), n) // R = [s]G: R - [s]G is the point at infinity
		if r.Sign() == 0 {
			continue
		}
		for _, pair := range [][2]*big.Int{{r, s}, {new(big.Int).Sub(n, s), s} /* r + s = n: t = 0 */, {s, r}} {
			if pair[0].Sign() <= 0 {
				continue
			}
			sig, err := asn1.Marshal(struct{ R, S *big.Int }{pair[0], pair[1]})
			if err != nil {
				continue
			}
			for _, tn := range []string{"sm2.RecoverPublicKeysFromSM2Signature", "sm2.VerifyASN1", "sm2.VerifyASN1WithSM2"} {
				emit(tn, "layer-algebraic", sig)
			}
		}
	}
}

// envelopeTargets are the targets fed with re-wrapped content keys.
var envelopeTargets []string

// selfTestLayered validates the constructions themselves: with a well-formed
// inner payload each of them must be ACCEPTED by the library, otherwise the
// hostile variants would be rejected by the outer layer and test nothing.
func selfTestLayered() error {
	targets()
	c := &lctx
	rnd := gen.NewDetReader(0x5E1F)
	// escrow
	pl := append(append(c.priv.X.FillBytes(make([]byte, 32)), c.priv.Y.FillBytes(make([]byte, 32))...), c.priv.D.FillBytes(make([]byte, 32))...)
	for _, hdr := range []bool{false, true} {
		ct := must(sm2.Encrypt(rnd, &c.tmpKey.PublicKey, pl, nil))
		k, err := cfca.ParseEscrowPrivateKey(c.tmpKey, escrowBlob(ct, hdr))
		if err != nil || k.D.Cmp(c.priv.D) != 0 {
			return fmt.Errorf("layered self-test: escrow blob (header=%v) not accepted: %v", hdr, err)
		}
	}
	// sm9: a complete ECB ciphertext built from WrapKey output
	k, c1, err := sm9.WrapKey(rnd, c.sm9pub, c.sm9uid, 3, 16+32)
	if err != nil {
		return err
	}
	msg := []byte("sixteen byte msg")
	c2 := sm4ecb(k[:16], append(append([]byte{}, msg...), bytes.Repeat([]byte{16}, 16)...))
	hsh := sm3.New()
	hsh.Write(c2)
	hsh.Write(k[16:])
	raw := append(append(append([]byte{}, c1[1:]...), hsh.Sum(nil)...), c2...)
	if targetMap["sm9.Decrypt(raw,ecb)"].call(raw) == 0 {
		return fmt.Errorf("layered self-test: constructed SM9 ECB ciphertext not accepted")
	}
	// enveloped key, pkcs8, cfca blob, re-wrapped content keys: count accepted constructions
	okEnv := 0
	envelopedKeyVariants(func(b []byte) {
		if _, err := sm2.ParseEnvelopedPrivateKey(c.priv, b); err == nil {
			okEnv++
		}
	})
	if okEnv == 0 {
		return fmt.Errorf("layered self-test: no constructed enveloped key was accepted (the valid-payload variant must be)")
	}
	alg, ct, err := c.encs[0].enc.Encrypt(rnd, []byte("password"), c.p8)
	if err != nil {
		return err
	}
	der := must(asn1.Marshal(struct {
		Alg pkix.AlgorithmIdentifier
		Enc []byte
	}{*alg, ct}))
	if targetMap["pkcs8.ParsePKCS8PrivateKey(pw)"].call(der) == 0 {
		return fmt.Errorf("layered self-test: constructed encrypted PKCS#8 not accepted")
	}
	counts := map[string]int{}
	layeredCases(func(target, kind string, b []byte) { counts[kind]++ })
	for _, kind := range []string{"layer-escrow", "layer-envkey", "layer-cfcablob", "layer-pkcs8", "layer-cek", "layer-sm9", "layer-algebraic"} {
		if counts[kind] == 0 {
			return fmt.Errorf("layered self-test: no %s cases were constructed", kind)
		}
	}
	return nil
}
