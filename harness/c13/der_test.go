package c13

// A lenient BER/DER TLV tree with structure-aware mutations that re-encode all
// enclosing lengths, so that a mutation of an inner field reaches the code that
// consumes that field instead of dying in the outermost length check.

type node struct {
	tag      []byte  // identifier octets
	children []*node // for constructed nodes (or encapsulating OCTET/BIT STRINGs)
	content  []byte  // for primitive nodes
	cons     bool    // constructed bit
	encap    int     // 0 no; 1 OCTET STRING wrapping DER; 2 BIT STRING (0 unused bits) wrapping DER
	raw      []byte  // if non-nil, emitted verbatim instead of tag/len/content
	lenForm  int     // 0 DER; 1 long form with one extra octet; 2 over-long 4 octets; 3 indefinite
}

// parseTLV parses one element; ok=false if malformed.
func parseTLV(b []byte, depth int) (n *node, rest []byte, ok bool) {
	if len(b) < 2 || depth > 60 {
		return nil, nil, false
	}
	i := 1
	if b[0]&0x1f == 0x1f {
		for {
			if i >= len(b) {
				return nil, nil, false
			}
			c := b[i]
			i++
			if c&0x80 == 0 {
				break
			}
		}
	}
	tag := b[:i]
	if i >= len(b) {
		return nil, nil, false
	}
	l := int(b[i])
	i++
	if l&0x80 != 0 {
		nb := l & 0x7f
		if nb == 0 || nb > 4 || i+nb > len(b) {
			return nil, nil, false
		}
		l = 0
		for k := 0; k < nb; k++ {
			l = l<<8 | int(b[i+k])
		}
		i += nb
	}
	if l < 0 || i+l > len(b) {
		return nil, nil, false
	}
	body := b[i : i+l]
	n = &node{tag: append([]byte{}, tag...), cons: b[0]&0x20 != 0}
	if n.cons {
		for len(body) > 0 {
			c, r, ok := parseTLV(body, depth+1)
			if !ok {
				// keep as opaque primitive-like content
				n.children = nil
				n.content = append([]byte{}, b[i:i+l]...)
				n.cons = false
				n.raw = append([]byte{}, b[:i+l]...)
				return n, b[i+l:], true
			}
			n.children = append(n.children, c)
			body = r
		}
	} else {
		n.content = append([]byte{}, body...)
		// encapsulated DER?
		if len(tag) == 1 && tag[0] == 0x04 && len(body) >= 2 && (body[0] == 0x30 || body[0] == 0x31 || body[0] == 0x02 || body[0] == 0x04 || body[0] == 0x03) {
			if c, r, ok := parseTLV(body, depth+1); ok && len(r) == 0 {
				n.encap = 1
				n.children = []*node{c}
			}
		} else if len(tag) == 1 && tag[0] == 0x03 && len(body) >= 3 && body[0] == 0 && (body[1] == 0x30 || body[1] == 0x02 || body[1] == 0x04) {
			if c, r, ok := parseTLV(body[1:], depth+1); ok && len(r) == 0 {
				n.encap = 2
				n.children = []*node{c}
			}
		}
	}
	return n, b[i+l:], true
}

func derLen(l int) []byte {
	switch {
	case l < 0x80:
		return []byte{byte(l)}
	case l < 0x100:
		return []byte{0x81, byte(l)}
	case l < 0x10000:
		return []byte{0x82, byte(l >> 8), byte(l)}
	case l < 0x1000000:
		return []byte{0x83, byte(l >> 16), byte(l >> 8), byte(l)}
	}
	return []byte{0x84, byte(l >> 24), byte(l >> 16), byte(l >> 8), byte(l)}
}

func (n *node) body() []byte {
	if n.children != nil {
		var out []byte
		if n.encap == 2 {
			out = append(out, 0)
		}
		for _, c := range n.children {
			out = append(out, c.encode()...)
		}
		return out
	}
	return n.content
}

func (n *node) encode() []byte {
	if n.raw != nil && n.children == nil {
		return n.raw
	}
	body := n.body()
	out := append([]byte{}, n.tag...)
	switch n.lenForm {
	case 1:
		if len(body) < 0x100 {
			out = append(out, 0x81, byte(len(body)))
		} else {
			out = append(out, 0x83, 0, byte(len(body)>>8), byte(len(body)))
		}
	case 2:
		out = append(out, 0x84, byte(len(body)>>24), byte(len(body)>>16), byte(len(body)>>8), byte(len(body)))
	case 3:
		out = append(out, 0x80)
		out = append(out, body...)
		return append(out, 0, 0)
	default:
		out = append(out, derLen(len(body))...)
	}
	return append(out, body...)
}

// walk lists all nodes in pre-order together with their parent.
type nodeRef struct {
	n      *node
	parent *node
	idx    int
}

func walk(root *node) []nodeRef {
	var out []nodeRef
	var rec func(n, p *node, i int)
	rec = func(n, p *node, i int) {
		out = append(out, nodeRef{n, p, i})
		for k, c := range n.children {
			rec(c, n, k)
		}
	}
	rec(root, nil, 0)
	return out
}

func cloneTree(n *node) *node {
	c := *n
	c.tag = append([]byte{}, n.tag...)
	if n.content != nil {
		c.content = append([]byte{}, n.content...)
	}
	if n.children != nil {
		c.children = make([]*node, len(n.children))
		for i, ch := range n.children {
			c.children[i] = cloneTree(ch)
		}
	}
	return &c
}

// replacement elements used by the "replace" mutation
var replacements = [][]byte{
	{0x05, 0x00},                                // NULL
	{0x02, 0x01, 0x00},                          // INTEGER 0
	{0x02, 0x01, 0xff},                          // INTEGER -1
	{0x02, 0x01, 0x01},                          // INTEGER 1
	{0x02, 0x00},                                // empty INTEGER
	{0x02, 0x02, 0x00, 0x01},                    // non-minimal INTEGER
	append([]byte{0x02, 0x21}, ff(33)...),       // 33-byte negative
	append([]byte{0x02, 0x21, 0x00}, ff(32)...), // 2^256-1
	append([]byte{0x02, 0x41, 0x00}, ff(64)...), // 64-byte integer
	{0x30, 0x00},                                // empty SEQUENCE
	{0x31, 0x00},                                // empty SET
	{0x04, 0x00},                                // empty OCTET STRING
	{0x04, 0x01, 0x00},                          // 1-byte OCTET STRING
	{0x03, 0x00},                                // BIT STRING without the unused-bits octet
	{0x03, 0x01, 0x00},                          // empty BIT STRING
	{0x03, 0x01, 0x07},                          // BIT STRING unused=7, no data
	{0x03, 0x02, 0x08, 0x00},                    // invalid unused bits
	{0x03, 0x02, 0x00, 0x04},                    // 1-byte bit string 04
	{0x06, 0x00},                                // empty OID
	{0x06, 0x01, 0x80},                          // bad OID
	{0x06, 0x03, 0x2a, 0x03, 0x04},              // OID 1.2.3.4
	{0x0c, 0x00},                                // empty UTF8String
	{0x17, 0x00},                                // empty UTCTime
	{0x01, 0x01, 0xff},                          // BOOLEAN true
	{0xa0, 0x00},                                // empty [0]
	{0x80, 0x00},                                // empty [0] implicit primitive
	{0x24, 0x80, 0x04, 0x01, 0x41, 0x00, 0x00},  // constructed indefinite OCTET STRING
}

func ff(n int) []byte {
	b := make([]byte, n)
	for i := range b {
		b[i] = 0xff
	}
	return b
}

// contentLens are the lengths primitive contents are truncated/extended to.
var contentLens = []int{0, 1, 2, 4, 7, 8, 9, 11, 12, 13, 14, 15, 16, 17, 31, 32, 33, 63, 64, 65, 96, 97}

// numMutations returns how many structural mutations mutateNode knows for a node.
func numMutations(r nodeRef) int {
	return len(replacements) + len(contentLens) + 14 + 12 + len(bitStringKinds) + len(hostileStrings)
}

// bitStringKinds: (unused-bits octet, change of the content length) applied to BIT
// STRING nodes, enclosing lengths re-encoded - keys and signatures whose size is
// checked in bits on one side and in bytes on the other (seeded change C13-6-1).
var bitStringKinds = [][2]int{{1, 0}, {4, 0}, {7, 0}, {1, 1}, {4, 1}, {7, 1}, {0, 1}, {0, -1}, {7, -1}, {8, 0}, {0xff, 0}}

// hostileStrings replace the content of string-like primitive elements (universal
// string types and context-specific primitives such as GeneralName alternatives:
// rfc822Name, dNSName, URI, iPAddress): the text-level parsers behind the DER
// layer (mailboxes, domains, URIs, IP ranges) have their own grammars, which
// byte substitutions of a valid value rarely leave (seeded change C13-6-2).
var hostileStrings = [][]byte{
	[]byte(`\`), []byte(`a\`), []byte(`a\@b\`), []byte(`a@b\`), []byte(`"`), []byte(`"a`), []byte(`"a\`), []byte(`"a"`), []byte(`"a"@`), []byte(`""@b`),
	[]byte("@"), []byte("a@"), []byte("@b"), []byte("a@@b"), []byte("a@b@c"), []byte("a b@c"), []byte("a@.b"), []byte("a@b."), []byte(".a@b"), []byte("a.@b"), []byte("a..b@c"),
	[]byte("."), []byte(".."), []byte("a..b"), []byte(".a"), []byte("a."), []byte("*"), []byte("*."), []byte("*.*"), []byte("-a.b"), []byte("a-.b"), []byte("a_b.c"),
	[]byte(":"), []byte("//"), []byte("http:"), []byte("http://"), []byte("http://["), []byte("http://[::1"), []byte("http://[::1]:"), []byte("http://a:b@c"), []byte("http://a:99999"), []byte("http://%"), []byte("http://%zz"), []byte("://a"), []byte("a://%41"),
	{0}, {0, 0}, {'a', 0, 'b'}, {0xff}, {0xc3, 0x28}, {0xe2, 0x82}, []byte(" "), {'a', 10, 'b'}, {13, 10},
	make([]byte, 3), make([]byte, 4), make([]byte, 5), make([]byte, 7), make([]byte, 8), make([]byte, 9), make([]byte, 15), make([]byte, 16), make([]byte, 17), make([]byte, 31), make([]byte, 32), make([]byte, 33),
	{10, 0, 0, 0, 255, 0, 255, 0}, {10, 0, 0, 0, 0, 0, 0, 1}, {10, 0, 0, 0, 255, 255, 255, 254},
	[]byte("aaaaaaaaaaaaaaaaaaaaaaaaaaaaaaaaaaaaaaaaaaaaaaaaaaaaaaaaaaaaaaaaa.b"), // 65-character label
	bytesOf('a', 254), bytesOf('a', 255), bytesOf('a', 256), bytesOf('.', 64),
}

func bytesOf(c byte, n int) []byte {
	b := make([]byte, n)
	for i := range b {
		b[i] = c
	}
	return b
}

// stringLike: universal string types, or a context-specific primitive element.
func stringLike(n *node) bool {
	if n.cons || len(n.tag) != 1 {
		return false
	}
	switch n.tag[0] {
	case 0x0c, 0x12, 0x13, 0x14, 0x16, 0x19, 0x1a, 0x1b, 0x1c, 0x1e:
		return true
	}
	return n.tag[0]&0xc0 == 0x80
}

// mutateTree applies mutation k to node index ni of a clone of root and
// returns the encoding, or nil if the mutation does not apply.
func mutateTree(root *node, ni, k int) []byte {
	t := cloneTree(root)
	refs := walk(t)
	if ni >= len(refs) {
		return nil
	}
	r := refs[ni]
	n := r.n
	setRaw := func(b []byte) {
		n.raw = b
		n.children = nil
		n.content = nil
	}
	switch {
	case k < len(replacements):
		setRaw(replacements[k])
	case k < len(replacements)+len(contentLens):
		l := contentLens[k-len(replacements)]
		body := n.body()
		if len(body) == l {
			return nil
		}
		nb := make([]byte, l)
		copy(nb, body)
		for i := len(body); i < l; i++ {
			nb[i] = byte(0x10 + i)
		}
		n.children = nil
		n.encap = 0
		n.raw = nil
		n.content = nb
		if n.cons {
			// keep constructed bit but opaque content
			n.cons = true
		}
	case k >= len(replacements)+len(contentLens)+14+12+len(bitStringKinds):
		if !stringLike(n) {
			return nil
		}
		n.children, n.encap, n.raw = nil, 0, nil
		n.content = append([]byte{}, hostileStrings[k-(len(replacements)+len(contentLens)+14+12+len(bitStringKinds))]...)
	case k >= len(replacements)+len(contentLens)+14+12:
		if len(n.tag) != 1 || n.tag[0] != 0x03 {
			return nil
		}
		body := n.body()
		if len(body) < 2 {
			return nil
		}
		kind := bitStringKinds[k-(len(replacements)+len(contentLens)+14+12)]
		data := append([]byte{}, body[1:]...)
		switch kind[1] {
		case 1:
			data = append(data, 0x80)
		case -1:
			data = data[:len(data)-1]
		}
		n.children, n.encap, n.raw = nil, 0, nil
		n.content = append([]byte{byte(kind[0])}, data...)
	default:
		switch k - len(replacements) - len(contentLens) {
		case 0: // delete
			if r.parent == nil {
				return nil
			}
			r.parent.children = append(r.parent.children[:r.idx:r.idx], r.parent.children[r.idx+1:]...)
			if len(r.parent.children) == 0 {
				r.parent.children = []*node{}
			}
		case 1: // duplicate
			if r.parent == nil {
				return append(n.encode(), n.encode()...)
			}
			ch := append([]*node{}, r.parent.children[:r.idx+1]...)
			ch = append(ch, cloneTree(n))
			r.parent.children = append(ch, r.parent.children[r.idx+1:]...)
		case 2: // swap with next sibling
			if r.parent == nil || r.idx+1 >= len(r.parent.children) {
				return nil
			}
			r.parent.children[r.idx], r.parent.children[r.idx+1] = r.parent.children[r.idx+1], r.parent.children[r.idx]
		case 3: // tag class -> context specific
			n.tag[0] = n.tag[0]&0x3f | 0x80
		case 4: // tag class -> application
			n.tag[0] = n.tag[0]&0x3f | 0x40
		case 5: // toggle constructed bit
			n.tag[0] ^= 0x20
		case 6: // tag number +1
			n.tag[0] = n.tag[0]&0xe0 | (n.tag[0]+1)&0x1f
		case 7: // high tag number form
			n.tag = []byte{n.tag[0] | 0x1f, 0x81, 0x00}
		case 8: // long form length
			n.lenForm = 1
		case 9: // over-long length
			n.lenForm = 2
		case 10: // indefinite length
			n.lenForm = 3
		case 11: // deep nesting: wrap in 200 SEQUENCEs
			inner := n.encode()
			for i := 0; i < 200; i++ {
				inner = append(append([]byte{0x30}, derLen(len(inner))...), inner...)
			}
			setRaw(inner)
		case 12: // content all zero
			body := n.body()
			n.children, n.encap, n.raw = nil, 0, nil
			n.content = make([]byte, len(body))
		case 13: // content all 0xff
			body := n.body()
			n.children, n.encap, n.raw = nil, 0, nil
			n.content = ff(len(body))
		case 14, 15, 16: // 1, 2, 3 zero bytes prepended to the content (padded integers / scalars / strings)
			body := n.body()
			k := k - len(replacements) - len(contentLens) - 13
			n.children, n.encap, n.raw = nil, 0, nil
			n.content = append(make([]byte, k), body...)
		case 17: // 0xff prepended
			body := n.body()
			n.children, n.encap, n.raw = nil, 0, nil
			n.content = append([]byte{0xff}, body...)
		case 18: // two zero bytes appended
			body := n.body()
			n.children, n.encap, n.raw = nil, 0, nil
			n.content = append(append([]byte{}, body...), 0, 0)
		case 19, 20, 21, 22, 23, 24, 25: // BER segmented (constructed) form of a primitive string, well formed or with a foreign child
			if n.cons && n.encap == 0 {
				return nil
			}
			body := n.body()
			n.children, n.encap, n.raw = nil, 0, nil
			h := len(body) / 2
			seg := func(b []byte) []byte { return append(append([]byte{0x04}, derLen(len(b))...), b...) }
			var inner []byte
			switch k - len(replacements) - len(contentLens) {
			case 19: // two OCTET STRING segments
				inner = append(seg(body[:h]), seg(body[h:])...)
			case 20: // one segment
				inner = seg(body)
			case 21: // a NULL after the segments
				inner = append(append(seg(body[:h]), seg(body[h:])...), 0x05, 0x00)
			case 22: // an INTEGER between the segments
				inner = append(append(seg(body[:h]), 0x02, 0x01, 0x00), seg(body[h:])...)
			case 23: // a nested constructed OCTET STRING
				in := seg(body[h:])
				inner = append(seg(body[:h]), append(append([]byte{0x24}, derLen(len(in))...), in...)...)
			case 24: // an empty segment and a BOOLEAN
				inner = append(append(seg(nil), seg(body)...), 0x01, 0x01, 0xff)
			case 25: // segments followed by an end-of-contents pair inside a definite length
				inner = append(append(seg(body[:h]), seg(body[h:])...), 0x00, 0x00)
			}
			n.tag[0] |= 0x20
			n.cons = true
			n.content = inner
			if (k-len(replacements)-len(contentLens))%2 == 1 {
				n.lenForm = 3 // indefinite length for the odd variants
			}
		}
	}
	return t.encode()
}
