package c13

import (
	"testing"
)

// Native coverage-guided fuzz targets (thorough tier only; the driver runs
// `go test -fuzz`). The semantic oracle is the same as in checkHostile: the
// call must return (a panic fails the fuzz run), must not modify its input, and
// password-KDF cost parameters are bounded.
func fuzzGroup(f *testing.F, groups ...string) {
	tgs := groupTargets(groups...)
	for i, tg := range tgs {
		for _, s := range tg.seeds {
			f.Add(uint8(i), s)
		}
		// hostile constants
		f.Add(uint8(i), []byte{0x30, 0x80})
		f.Add(uint8(i), []byte{0x30, 0x84, 0x7f, 0xff, 0xff, 0xff})
		f.Add(uint8(i), []byte{0x03, 0x01, 0x00})
		f.Add(uint8(i), []byte{0x04})
	}
	f.Fuzz(func(t *testing.T, idx uint8, data []byte) {
		tg := tgs[int(idx)%len(tgs)]
		if tg.kdf && kdfTooExpensive(data) {
			t.Skip()
		}
		if len(data) > 1<<16 {
			t.Skip()
		}
		in := make([]byte, len(data), len(data))
		copy(in, data)
		tg.call(in)
		if string(in) != string(data) {
			t.Fatalf("%s modified its input", tg.name)
		}
	})
}

func FuzzC13_SM2(f *testing.F)   { fuzzGroup(f, "sm2", "ecdh") }
func FuzzC13_SM9(f *testing.F)   { fuzzGroup(f, "sm9") }
func FuzzC13_X509(f *testing.F)  { fuzzGroup(f, "x509") }
func FuzzC13_PKCS8(f *testing.F) { fuzzGroup(f, "pkcs8") }
func FuzzC13_PKCS7(f *testing.F) { fuzzGroup(f, "pkcs7") }
func FuzzC13_CFCA(f *testing.F)  { fuzzGroup(f, "cfca") }
