// Package h is the common layer of the verification harness: it runs
// generated cases (rapid-driven or enumerated) against a check function,
// records evidence, journals cases for crash isolation, writes replay files,
// and consults the committed list of known findings.
//
// Every property is expressed as (generator, check): the generator produces a
// JSON-serialisable case value, the check is a pure function of that value.
// A failing case is therefore always replayable without the generator.
package h

import (
	"encoding/json"
	"flag"
	"fmt"
	"hash/fnv"
	"os"
	"path/filepath"
	"runtime/debug"
	"sort"
	"strconv"
	"strings"
	"sync"
	"testing"

	"pgregory.net/rapid"
)

// ---------------------------------------------------------------- environment

var (
	Tier    = envOr("VERIF_TIER", "quick")
	Cfg     = envOr("VERIF_CFG", "default")
	OutDir  = envOr("VERIF_OUT", "")
	Prop_   = envOr("VERIF_PROPERTY", "")
	Pkg     = envOr("VERIF_PKG", "")
	Replay  = envOr("VERIF_REPLAY", "")
	KFPath  = envOr("VERIF_KF", "/verif/known_findings.json")
	Seed    = envUint("VERIF_SEED", 1)
	Shard   = int(envUint("VERIF_SHARD", 0))
	NShards = int(envUint("VERIF_NSHARDS", 1))
	// QuickScale multiplies the rapid case counts of the quick tier.
	QuickScale = int(envUint("VERIF_QUICK_SCALE", 1))
	// ThoroughScale multiplies the rapid case counts of the thorough tier.
	ThoroughScale = int(envUint("VERIF_THOROUGH_SCALE", 1))
)

func envOr(k, d string) string {
	if v, ok := os.LookupEnv(k); ok && v != "" {
		return v
	}
	return d
}

func envUint(k string, d uint64) uint64 {
	if v, ok := os.LookupEnv(k); ok && v != "" {
		n, err := strconv.ParseUint(v, 0, 64)
		if err == nil {
			return n
		}
		// negative or odd seeds: hash them
		f := fnv.New64a()
		f.Write([]byte(v))
		return f.Sum64()
	}
	return d
}

// Thorough reports whether the thorough tier is running.
func Thorough() bool { return Tier == "thorough" }

// Scale picks a size by tier.
func Scale(quick, thorough int) int {
	if Thorough() {
		return thorough
	}
	return quick
}

// SubSeed derives a deterministic non-zero seed from VERIF_SEED, the
// configuration, the shard and the given labels.
func SubSeed(labels ...string) uint64 {
	f := fnv.New64a()
	fmt.Fprintf(f, "%d|%s|%d|%s", Seed, Cfg, Shard, strings.Join(labels, "|"))
	s := f.Sum64()
	if s == 0 {
		s = 1
	}
	return s
}

// ---------------------------------------------------------------- evidence

type testStats struct {
	Evaluations int            `json:"evaluations"`
	Classes     map[string]int `json:"classes"`
	Distinct    int            `json:"distinct_nontrivial"`
	Samples     []string       `json:"samples"`
	Exhaustive  bool           `json:"exhaustive,omitempty"`
	Known       map[string]int `json:"known,omitempty"`
	Excluded    int            `json:"excluded_by_known,omitempty"`
	seen        map[uint64]struct{}
	sampleN     int
}

var (
	mu       sync.Mutex
	stats    = map[string]*testStats{}
	observed = map[string]string{}
	kfOnce   sync.Once
	kfOpen   = map[string]string{} // id -> what
	kfProp   = map[string]string{}
)

func statFor(name string) *testStats {
	s := stats[name]
	if s == nil {
		s = &testStats{Classes: map[string]int{}, Known: map[string]int{}, seen: map[uint64]struct{}{}}
		stats[name] = s
	}
	return s
}

// Observe records a fact about the configuration actually exercised (e.g.
// the concrete type of a cipher.Block) so the driver can verify that a
// dispatch override took effect.
func Observe(key, value string) {
	mu.Lock()
	observed[key] = value
	mu.Unlock()
}

// Rec is handed to every check invocation to classify the case.
type Rec struct {
	labels []string
	nt     bool
	known  []string
	note   string
}

// Label adds a class label (histogrammed in the evidence).
func (r *Rec) Label(format string, a ...any) {
	if len(a) == 0 {
		r.labels = append(r.labels, format)
	} else {
		r.labels = append(r.labels, fmt.Sprintf(format, a...))
	}
}

// NT marks the case as non-trivial by the property's stated rule.
func (r *Rec) NT() { r.nt = true }

// NTIf marks the case as non-trivial when cond holds.
func (r *Rec) NTIf(cond bool) {
	if cond {
		r.nt = true
	}
}

// Note attaches free text to the sample of this case.
func (r *Rec) Note(format string, a ...any) { r.note = fmt.Sprintf(format, a...) }

// Known reports whether the known finding id is listed as open in
// known_findings.json; if so the hit is counted and the caller may exclude the
// case from the corresponding oracle. If it is not listed the caller must
// treat the disagreement as a violation.
func (r *Rec) Known(id string) bool {
	loadKF()
	if _, ok := kfOpen[id]; !ok {
		return false
	}
	for _, k := range r.known {
		if k == id {
			return true // counted once per case
		}
	}
	r.known = append(r.known, id)
	return true
}

func loadKF() {
	kfOnce.Do(func() {
		b, err := os.ReadFile(KFPath)
		if err != nil {
			return
		}
		var doc struct {
			Findings []struct {
				ID       string `json:"id"`
				Property string `json:"property"`
				Status   string `json:"status"`
				What     string `json:"what"`
			} `json:"findings"`
		}
		if json.Unmarshal(b, &doc) != nil {
			return
		}
		for _, f := range doc.Findings {
			if f.Status == "open" {
				kfOpen[f.ID] = f.What
				kfProp[f.ID] = f.Property
			}
		}
	})
}

// KFOpen reports whether a known finding is listed as open.
func KFOpen(id string) bool {
	loadKF()
	_, ok := kfOpen[id]
	return ok
}

func hashKey(parts ...string) uint64 {
	f := fnv.New64a()
	for _, p := range parts {
		f.Write([]byte(p))
		f.Write([]byte{0})
	}
	return f.Sum64()
}

func trunc(s string, n int) string {
	if len(s) > n {
		return s[:n] + fmt.Sprintf("...(%d bytes)", len(s))
	}
	return s
}

func record(name string, c any, r *Rec) {
	mu.Lock()
	defer mu.Unlock()
	s := statFor(name)
	s.Evaluations++
	for _, l := range r.labels {
		s.Classes[l]++
	}
	for _, k := range r.known {
		s.Known[k]++
	}
	if len(r.known) > 0 {
		s.Excluded++
	}
	if r.nt {
		s.Classes["nontrivial"]++
		var key string
		if k, ok := c.(interface{ Key() string }); ok {
			key = k.Key()
		} else {
			b, _ := json.Marshal(c)
			key = string(b)
		}
		hk := hashKey(name, Cfg, key)
		if _, dup := s.seen[hk]; !dup {
			s.seen[hk] = struct{}{}
			s.Distinct++
			// reservoir-free sampling: keep the 1st, 2nd, 4th, 8th ... distinct
			// non-trivial case (deterministic, spreads over the run), at most 8.
			s.sampleN++
			if s.sampleN&(s.sampleN-1) == 0 && len(s.Samples) < 8 {
				b, _ := json.Marshal(c)
				txt := fmt.Sprintf("%s[%s] %s", name, Cfg, trunc(string(b), 700))
				if len(r.labels) > 0 {
					txt += " classes=" + strings.Join(r.labels, ",")
				}
				if r.note != "" {
					txt += " note=" + r.note
				}
				s.Samples = append(s.Samples, txt)
			}
		}
	}
}

// MarkExhaustive declares that the named sweep enumerates its finite
// sub-domain completely.
func MarkExhaustive(name string) {
	mu.Lock()
	statFor(name).Exhaustive = true
	mu.Unlock()
}

// ---------------------------------------------------------------- replay / violations

// ReplayRecord is the on-disk form of a failing case.
type ReplayRecord struct {
	Property string          `json:"property"`
	Pkg      string          `json:"pkg"`
	Test     string          `json:"test"`
	Name     string          `json:"name"`
	Cfg      string          `json:"cfg"`
	Tier     string          `json:"tier"`
	Seed     uint64          `json:"seed"`
	Error    string          `json:"error,omitempty"`
	Case     json.RawMessage `json:"case"`
}

func writeRecord(path, test, name string, c any, errText string) {
	if OutDir == "" {
		return
	}
	b, err := json.Marshal(c)
	if err != nil {
		b, _ = json.Marshal(fmt.Sprintf("%+v", c))
	}
	rec := ReplayRecord{Property: Prop_, Pkg: Pkg, Test: test, Name: name, Cfg: Cfg, Tier: Tier, Seed: Seed, Error: trunc(errText, 4000), Case: b}
	out, _ := json.MarshalIndent(rec, "", " ")
	os.MkdirAll(filepath.Dir(path), 0o755)
	tmp := path + ".tmp"
	if os.WriteFile(tmp, out, 0o644) == nil {
		os.Rename(tmp, path)
	}
}

func violationPath(name string) string {
	return filepath.Join(OutDir, "violations", sanitize(name)+".json")
}

func sanitize(s string) string {
	return strings.Map(func(r rune) rune {
		if r >= 'a' && r <= 'z' || r >= 'A' && r <= 'Z' || r >= '0' && r <= '9' || r == '-' || r == '_' || r == '.' {
			return r
		}
		return '_'
	}, s)
}

var journalFile *os.File

func journal(test, name string, c any) {
	if OutDir == "" {
		return
	}
	b, err := json.Marshal(c)
	if err != nil {
		return
	}
	rec := ReplayRecord{Property: Prop_, Pkg: Pkg, Test: test, Name: name, Cfg: Cfg, Tier: Tier, Seed: Seed, Error: "process died while this case was in flight", Case: b}
	out, _ := json.Marshal(rec)
	if journalFile == nil {
		f, err := os.OpenFile(filepath.Join(OutDir, "journal.json"), os.O_CREATE|os.O_RDWR|os.O_TRUNC, 0o644)
		if err != nil {
			return
		}
		journalFile = f
	}
	// length-prefixed single record, rewritten in place
	hdr := fmt.Sprintf("%010d\n", len(out))
	journalFile.WriteAt([]byte(hdr), 0)
	journalFile.WriteAt(out, int64(len(hdr)))
}

func loadReplay() *ReplayRecord {
	if Replay == "" {
		return nil
	}
	b, err := os.ReadFile(Replay)
	if err != nil {
		fmt.Fprintf(os.Stderr, "HARNESS-ERROR cannot read replay file: %v\n", err)
		os.Exit(3)
	}
	// journal files carry a length header line
	if len(b) > 11 && b[10] == '\n' && b[0] >= '0' && b[0] <= '9' {
		n, _ := strconv.Atoi(string(b[:10]))
		if 11+n <= len(b) {
			b = b[11 : 11+n]
		}
	}
	var rec ReplayRecord
	if err := json.Unmarshal(b, &rec); err != nil {
		fmt.Fprintf(os.Stderr, "HARNESS-ERROR bad replay file: %v\n", err)
		os.Exit(3)
	}
	return &rec
}

// ---------------------------------------------------------------- running cases

// P configures one generated check.
type P struct {
	Name     string // unique within the package
	Quick    int    // rapid checks in the quick tier
	Thorough int    // rapid checks in the thorough tier
	Journal  bool   // write every case to the journal before running it (crash isolation)
}

func runCheck[C any](c C, check func(C, *Rec) error) (r *Rec, err error) {
	r = &Rec{}
	// faults on guard pages (gen.Guarded) become recoverable panics
	old := debug.SetPanicOnFault(true)
	defer debug.SetPanicOnFault(old)
	defer func() {
		if p := recover(); p != nil {
			err = fmt.Errorf("panic: %v\n%s", p, debug.Stack())
		}
	}()
	err = check(c, r)
	return
}

func replayOne[C any](t *testing.T, rec *ReplayRecord, check func(C, *Rec) error) {
	var c C
	if err := json.Unmarshal(rec.Case, &c); err != nil {
		t.Fatalf("HARNESS-ERROR cannot decode replay case: %v", err)
	}
	_, err := runCheck(c, check)
	if err != nil {
		writeRecord(violationPath(rec.Name), t.Name(), rec.Name, c, err.Error())
		t.Fatalf("replayed case still fails: %v", err)
	}
	t.Logf("replayed case passes")
}

// Prop runs check over cases drawn by gen under rapid (with shrinking).
func Prop[C any](t *testing.T, p P, gen func(*rapid.T) C, check func(C, *Rec) error) {
	t.Helper()
	if rec := loadReplay(); rec != nil {
		if rec.Name == p.Name {
			replayOne(t, rec, check)
		}
		return
	}
	n := Scale(p.Quick, p.Thorough)
	if !Thorough() && QuickScale > 1 {
		// spec.json "quick_scale": the quick-tier counts were tuned on a heavily
		// loaded machine; properties whose quick tier finishes in a few seconds
		// run more rapid cases (never more than the thorough tier)
		n *= QuickScale
		if p.Thorough > 0 && n > p.Thorough {
			n = p.Thorough
		}
	}
	if Thorough() && ThoroughScale > 1 {
		// spec.json "thorough_scale": properties whose thorough tier finishes in
		// a minute or two explore proportionally more cases
		n *= ThoroughScale
	}
	if NShards > 1 {
		n = (n + NShards - 1) / NShards
	}
	if n <= 0 {
		return
	}
	flag.Set("rapid.checks", strconv.Itoa(n))
	flag.Set("rapid.seed", strconv.FormatUint(SubSeed(t.Name(), p.Name), 10))
	flag.Set("rapid.nofailfile", "true")
	if os.Getenv("VERIF_SHRINKTIME") != "" {
		flag.Set("rapid.shrinktime", os.Getenv("VERIF_SHRINKTIME"))
	} else {
		flag.Set("rapid.shrinktime", "20s")
	}
	test := t.Name()
	rapid.Check(t, func(rt *rapid.T) {
		c := gen(rt)
		if p.Journal {
			journal(test, p.Name, c)
		}
		r, err := runCheck(c, check)
		if err != nil {
			writeRecord(violationPath(p.Name), test, p.Name, c, err.Error())
			rt.Fatalf("%s: %v", p.Name, err)
		}
		record(p.Name, c, r)
	})
}

// Sweep runs check over every case emitted by enum (smallest first is the
// caller's responsibility) and stops at the first failure.
func Sweep[C any](t *testing.T, p P, enum func(emit func(C)), check func(C, *Rec) error) {
	t.Helper()
	if rec := loadReplay(); rec != nil {
		if rec.Name == p.Name {
			replayOne(t, rec, check)
		}
		return
	}
	test := t.Name()
	idx := 0
	failed := false
	enum(func(c C) {
		if failed {
			return
		}
		i := idx
		idx++
		if NShards > 1 && i%NShards != Shard {
			return
		}
		if p.Journal {
			journal(test, p.Name, c)
		}
		r, err := runCheck(c, check)
		if err != nil {
			if keepGoing {
				// development aid: list every distinct failure site instead of stopping
				sig := firstRepoFrame(err.Error())
				if !seenFail[sig] {
					seenFail[sig] = true
					writeRecord(violationPath(fmt.Sprintf("%s-%d", p.Name, len(seenFail))), test, p.Name, c, err.Error())
					t.Errorf("%s: case %d: [%s] %s", p.Name, i, sig, trunc(err.Error(), 300))
				}
				return
			}
			failed = true
			writeRecord(violationPath(p.Name), test, p.Name, c, err.Error())
			t.Errorf("%s: case %d: %v", p.Name, i, err)
			return
		}
		record(p.Name, c, r)
	})
	if failed {
		t.FailNow()
	}
}

// ---------------------------------------------------------------- process entry

// HarnessError aborts the process with the exit status the driver maps to
// "inconclusive" (never a violation): the harness itself is broken.
func HarnessError(format string, a ...any) {
	msg := fmt.Sprintf(format, a...)
	fmt.Fprintf(os.Stderr, "HARNESS-ERROR %s\n", msg)
	if OutDir != "" {
		os.WriteFile(filepath.Join(OutDir, "harness_error"), []byte(msg), 0o644)
	}
	os.Exit(3)
}

// Main is called from TestMain. selftests validate the reference models and
// run before anything else.
func Main(m *testing.M, selftests ...func() error) {
	for _, st := range selftests {
		if err := st(); err != nil {
			HarnessError("reference model self-test failed: %v", err)
		}
	}
	code := m.Run()
	WriteFragment()
	os.Exit(code)
}

// WriteFragment writes the per-process evidence fragment.
func WriteFragment() {
	if OutDir == "" {
		return
	}
	mu.Lock()
	defer mu.Unlock()
	type frag struct {
		Cfg      string                `json:"cfg"`
		Tier     string                `json:"tier"`
		Seed     uint64                `json:"seed"`
		Shard    int                   `json:"shard"`
		Tests    map[string]*testStats `json:"tests"`
		Observed map[string]string     `json:"observed,omitempty"`
		KFWhat   map[string]string     `json:"kf_what,omitempty"`
	}
	f := frag{Cfg: Cfg, Tier: Tier, Seed: Seed, Shard: Shard, Tests: stats, Observed: observed, KFWhat: map[string]string{}}
	names := make([]string, 0, len(stats))
	for n, s := range stats {
		names = append(names, n)
		for k := range s.Known {
			f.KFWhat[k] = kfOpen[k]
		}
	}
	sort.Strings(names)
	out, _ := json.MarshalIndent(f, "", " ")
	os.WriteFile(filepath.Join(OutDir, "fragment.json"), out, 0o644)
}

// Violation records a violation found outside a check function (e.g. by a
// watchdog goroutine) so that the driver reports it with c as the replay case.
func Violation(test, name string, c any, errText string) {
	writeRecord(violationPath(name), test, name, c, errText)
}

var (
	keepGoing = os.Getenv("VERIF_KEEPGOING") != ""
	seenFail  = map[string]bool{}
)

// firstRepoFrame extracts the first stack line that points into the library
// under test, to group failures by site.
func firstRepoFrame(s string) string {
	for _, l := range strings.Split(s, "\n") {
		l = strings.TrimSpace(l)
		if (strings.HasPrefix(l, "/repo/") || strings.Contains(l, "/gmsm/")) && strings.Contains(l, ".go:") && !strings.Contains(l, "/verif/harness/") {
			if i := strings.Index(l, " +0x"); i > 0 {
				l = l[:i]
			}
			return l
		}
	}
	if i := strings.Index(s, "\n"); i > 0 {
		return s[:i]
	}
	return s
}
