package h

import (
	"encoding/hex"
	"encoding/json"
)

// B is a byte slice that serialises as a hex string, so that cases, samples
// and replay files are readable.
type B []byte

func (b B) MarshalJSON() ([]byte, error) { return json.Marshal(hex.EncodeToString(b)) }

func (b *B) UnmarshalJSON(data []byte) error {
	var s string
	if err := json.Unmarshal(data, &s); err != nil {
		return err
	}
	d, err := hex.DecodeString(s)
	if err != nil {
		return err
	}
	*b = d
	return nil
}

// Hex is a shorthand for hex.EncodeToString, truncated for error messages.
func Hex(b []byte) string {
	if len(b) > 96 {
		return hex.EncodeToString(b[:96]) + "...(" + itoa(len(b)) + " bytes)"
	}
	return hex.EncodeToString(b)
}

func itoa(n int) string {
	if n == 0 {
		return "0"
	}
	neg := n < 0
	if neg {
		n = -n
	}
	var d []byte
	for n > 0 {
		d = append([]byte{byte('0' + n%10)}, d...)
		n /= 10
	}
	if neg {
		d = append([]byte{'-'}, d...)
	}
	return string(d)
}
