// C18 — padding inverts exactly and accepts only well-formed input, for every
// block size. See DESIGN.md section 4, C18.
package c18

import (
	"bytes"
	"fmt"
	"os"
	"testing"

	"github.com/emmansun/gmsm/padding"
	"pgregory.net/rapid"
	"verif/harness/gen"
	"verif/harness/h"
)

func TestMain(m *testing.M) { h.Main(m, selfTest) }

var schemeNames = []string{"pkcs7", "x923", "iso9797m2", "iso9797m3"}

func newScheme(s, bs int) padding.Padding {
	switch s {
	case 0:
		return padding.NewPKCS7Padding(uint(bs))
	case 1:
		return padding.NewANSIX923Padding(uint(bs))
	case 2:
		return padding.NewISO9797M2Padding(uint(bs))
	default:
		return padding.NewISO9797M3Padding(uint(bs))
	}
}

// refPad is the documented form of each scheme, written from the definitions:
//
//	PKCS#7 (RFC 5652 6.3): k = bs - len mod bs bytes, each of value k.
//	ANSI X9.23: k-1 zero bytes then one byte of value k.
//	ISO/IEC 9797-1 method 2: 0x80 then as few zero bytes as reach a block boundary.
//	ISO/IEC 9797-1 method 3: one block holding the bit length (big-endian,
//	right-aligned), the data, then as few zero bytes as reach a block boundary
//	(one whole zero block for empty data).
func refPad(s, bs int, m []byte) []byte {
	out := append([]byte{}, m...)
	k := bs - len(m)%bs
	switch s {
	case 0:
		for i := 0; i < k; i++ {
			out = append(out, byte(k))
		}
	case 1:
		for i := 0; i < k-1; i++ {
			out = append(out, 0)
		}
		out = append(out, byte(k))
	case 2:
		out = append(out, 0x80)
		for i := 0; i < k-1; i++ {
			out = append(out, 0)
		}
	case 3:
		hdr := make([]byte, bs)
		bits := uint64(len(m)) * 8
		for i := bs - 1; i >= 0; i-- {
			hdr[i] = byte(bits)
			bits >>= 8
		}
		out = append(hdr, m...)
		if len(m) == 0 {
			out = append(out, make([]byte, bs)...)
		}
		for len(out)%bs != 0 {
			out = append(out, 0)
		}
	}
	return out
}

// refPreimage decides membership of s in the image of refPad by trying every
// candidate message that is a substring of s at the right place. It contains
// no unpadding logic of its own.
func refPreimage(sch, bs int, s []byte) ([]byte, bool) {
	if sch == 3 {
		if len(s) < bs {
			return nil, false
		}
		body := s[bs:]
		for k := 0; k <= len(body); k++ {
			if fitsM3(bs, k) && bytes.Equal(refPad(sch, bs, body[:k]), s) {
				return body[:k], true
			}
		}
		return nil, false
	}
	for k := 0; k <= len(s); k++ {
		if bytes.Equal(refPad(sch, bs, s[:k]), s) {
			return s[:k], true
		}
	}
	return nil, false
}

// fitsM3: method 3 can only represent messages whose bit length fits into one block.
func fitsM3(bs, n int) bool {
	if bs >= 8 {
		return true
	}
	return uint64(n)*8>>(8*uint(bs)) == 0
}

// fitsM3OrOther: ISO 9797-1 method 3 cannot represent long messages in tiny blocks.
func fitsM3OrOther(scheme, bs, n int) bool {
	if schemeNames[scheme] != "iso9797m3" {
		return true
	}
	return fitsM3(bs, n)
}

func selfTest() error {
	// spot values from the definitions / the repository's bs=16 test tables
	if got := refPad(0, 8, []byte{1, 2, 3}); !bytes.Equal(got, []byte{1, 2, 3, 5, 5, 5, 5, 5}) {
		return fmt.Errorf("refPad pkcs7: %x", got)
	}
	if got := refPad(1, 8, []byte{1, 2, 3}); !bytes.Equal(got, []byte{1, 2, 3, 0, 0, 0, 0, 5}) {
		return fmt.Errorf("refPad x923: %x", got)
	}
	if got := refPad(2, 4, []byte{1, 2, 3, 4}); !bytes.Equal(got, []byte{1, 2, 3, 4, 0x80, 0, 0, 0}) {
		return fmt.Errorf("refPad m2: %x", got)
	}
	if got := refPad(3, 16, []byte{1}); !bytes.Equal(got, append(append(make([]byte, 15), 8, 1), make([]byte, 15)...)) {
		return fmt.Errorf("refPad m3: %x", got)
	}
	if got := refPad(3, 4, nil); !bytes.Equal(got, make([]byte, 8)) {
		return fmt.Errorf("refPad m3 empty: %x", got)
	}
	if m, ok := refPreimage(2, 4, []byte{1, 0x80, 0, 0}); !ok || !bytes.Equal(m, []byte{1}) {
		return fmt.Errorf("refPreimage m2")
	}
	if _, ok := refPreimage(2, 4, []byte{0, 0, 0, 0}); ok {
		return fmt.Errorf("refPreimage m2 accepted all-zero")
	}
	return nil
}

// ---------------------------------------------------------------- round trip

type rtCase struct {
	Scheme  int
	BS      int
	Len     int
	Content int // 0 random; 1..5 padding-like tails
	Spare   int // spare capacity of the message slice
	Seed    uint64
}

func (c rtCase) Key() string {
	return fmt.Sprintf("%d/%d/%d/%d/%d", c.Scheme, c.BS, c.Len, c.Content, c.Spare)
}

func buildMsg(c rtCase) []byte {
	m := gen.Fill(gen.Mix(c.Seed, uint64(c.Scheme), uint64(c.BS), uint64(c.Len)), c.Len)
	n := len(m)
	if n == 0 {
		return m
	}
	switch c.Content {
	case 1:
		m[n-1] = 0x80
	case 2:
		m[n-1] = 0x00
	case 3:
		m[n-1] = byte(c.BS)
	case 4:
		m[n-1] = 0x01
	case 5:
		for i := n - 1; i >= 0 && i >= n-3; i-- {
			m[i] = 0
		}
		if n >= 3 {
			m[n-3] = 0x80
		} else {
			m[0] = 0x80
		}
	}
	return m
}

func checkRoundTrip(c rtCase, r *h.Rec) error { return checkRoundTripMsg(c, buildMsg(c), r) }

// checkRoundTripMsg is the round-trip check for an explicit message of c.Len
// bytes (the sweeps derive it from the case with buildMsg; the native fuzz
// target supplies its own bytes).
func checkRoundTripMsg(c rtCase, orig []byte, r *h.Rec) error {
	r.Label(schemeNames[c.Scheme])
	r.NTIf(c.BS != 16 || c.Spare > 0)
	if c.BS != 16 {
		r.Label("bs!=16")
	}
	if c.Spare > 0 {
		r.Label("spare>0")
	}
	if c.Content > 0 {
		r.Label("padlike-tail")
	}
	p := newScheme(c.Scheme, c.BS)
	if p.BlockSize() != c.BS {
		return fmt.Errorf("BlockSize()=%d want %d", p.BlockSize(), c.BS)
	}
	const sentinel = 0xA5
	backing := make([]byte, c.Len+c.Spare)
	for i := range backing {
		backing[i] = sentinel
	}
	copy(backing, orig)
	msg := backing[:c.Len]
	padded := p.Pad(msg)
	want := refPad(c.Scheme, c.BS, orig)
	if len(padded) == 0 || len(padded)%c.BS != 0 {
		return fmt.Errorf("Pad output length %d is not a positive multiple of %d", len(padded), c.BS)
	}
	if !bytes.Equal(backing[:c.Len], orig) {
		return fmt.Errorf("Pad modified the caller's message: %x -> %x", orig, backing[:c.Len])
	}
	if !bytes.Equal(padded, want) {
		return fmt.Errorf("Pad output %x differs from the documented form %x", padded, want)
	}
	// bytes of the backing array beyond what an append-style Pad may use stay untouched
	for i := len(want); i < len(backing); i++ {
		if backing[i] != sentinel {
			return fmt.Errorf("Pad wrote at backing offset %d beyond its result (len %d)", i, len(want))
		}
	}
	in := append([]byte{}, padded...)
	out, err := p.Unpad(in)
	if err != nil {
		return fmt.Errorf("Unpad(Pad(m)) failed: %v (padded=%x)", err, padded)
	}
	if !bytes.Equal(out, orig) {
		return fmt.Errorf("Unpad(Pad(m)) = %x want %x", out, orig)
	}
	if !bytes.Equal(in, padded) {
		return fmt.Errorf("Unpad modified its input")
	}
	// Scribble discipline: callers encrypt the padded block in place and reuse
	// buffers. Overwrite everything the first calls returned (whole capacity),
	// then pad and unpad the same message again with the same padder and with a
	// fresh one: results must not depend on memory handed out earlier (a result
	// aliasing a shared or cached array would now carry the scribble).
	scribble := func(b []byte) {
		b = b[:cap(b)]
		for i := range b {
			b[i] = 0xEE ^ byte(i)
		}
	}
	// ... and the mirror image: results the caller KEEPS must not change when the
	// padder is used again (a result aliasing library-owned memory would).
	other := gen.Fill(gen.Mix(c.Seed, 77), (c.Len+1)%(3*c.BS+1))
	if fitsM3OrOther(c.Scheme, c.BS, len(other)) {
		o2 := p.Pad(append([]byte{}, other...))
		if u2, err := p.Unpad(append([]byte{}, o2...)); err != nil || !bytes.Equal(u2, other) {
			return fmt.Errorf("second message on the same padder: Unpad(Pad(m2)) = %x, %v", u2, err)
		}
		p.Pad(nil)
	}
	if !bytes.Equal(padded, want) {
		return fmt.Errorf("a Pad result kept by the caller changed when the padder was used again: %x -> %x", want, padded)
	}
	if !bytes.Equal(out, orig) {
		return fmt.Errorf("an Unpad result kept by the caller changed when the padder was used again: %x -> %x", orig, out)
	}
	scribble(padded)
	scribble(out)
	for k, q := range []padding.Padding{p, newScheme(c.Scheme, c.BS)} {
		again := q.Pad(append(make([]byte, 0, c.Len), orig...))
		if !bytes.Equal(again, want) {
			return fmt.Errorf("Pad after earlier results were overwritten (padder %d) = %x, documented form %x", k, again, want)
		}
		back, err := q.Unpad(append([]byte{}, want...))
		if err != nil || !bytes.Equal(back, orig) {
			return fmt.Errorf("Unpad after earlier results were overwritten (padder %d) = %x, %v; want %x", k, back, err, orig)
		}
		scribble(again)
		scribble(back)
	}
	return nil
}

func TestC18_RoundTripExhaustive(t *testing.T) {
	spares := func(bs int) []int { return []int{0, 1, bs, 4 * bs} }
	full := h.Thorough()
	if full {
		h.MarkExhaustive("roundtrip")
	}
	h.MarkExhaustive("roundtrip")
	h.Sweep(t, h.P{Name: "roundtrip"}, func(emit func(rtCase)) {
		i := 0
		for bs := 1; bs <= 255; bs++ {
			for n := 0; n <= 3*bs+1; n++ {
				for s := 0; s < 4; s++ {
					for content := 0; content <= 5; content++ {
						if n == 0 && content > 0 {
							continue
						}
						sp := spares(bs)
						if full {
							for _, spare := range sp {
								emit(rtCase{s, bs, n, content, spare, h.Seed})
							}
						} else {
							// every (scheme, bs, len, content) with one spare class, rotating
							emit(rtCase{s, bs, n, content, sp[i%4], h.Seed})
							i++
						}
					}
				}
			}
		}
	}, checkRoundTrip)
}

// TestC18_RoundTripLong: message lengths where a length field or a loop counter
// grows a byte (31..33, 255..257, 8191..8193, 65535..65537 bytes and the largest
// length method 3 can represent in a tiny block), for small and common block
// sizes - the exhaustive sweep above stops at three blocks.
func TestC18_RoundTripLong(t *testing.T) {
	h.Sweep(t, h.P{Name: "roundtrip-long"}, func(emit func(rtCase)) {
		lens := []int{31, 32, 33, 63, 64, 65, 127, 128, 129, 255, 256, 257, 511, 512, 513, 1023, 1024, 1025, 4095, 4096, 4097, 8191, 8192, 8193, 65535, 65536, 65537}
		i := 0
		for _, bs := range []int{1, 2, 3, 4, 5, 6, 7, 8, 9, 15, 16, 17, 24, 32, 64, 128, 255} {
			for s := 0; s < 4; s++ {
				for _, n := range lens {
					if schemeNames[s] == "iso9797m3" && !fitsM3(bs, n) {
						continue
					}
					emit(rtCase{s, bs, n, i % 6, []int{0, 1, bs, 4 * bs}[i%4], h.Seed})
					i++
				}
				if schemeNames[s] == "iso9797m3" && bs < 8 {
					// the largest representable message: bit length 2^(8*bs) - 1 rounded down to bytes
					if max := (1<<(8*uint(bs)) - 1) / 8; max <= 1<<21 {
						emit(rtCase{s, bs, max, 0, 0, h.Seed})
						emit(rtCase{s, bs, max - 1, 0, 1, h.Seed})
					}
				}
			}
		}
	}, checkRoundTrip)
}

// ---------------------------------------------------------------- accept set

type accCase struct {
	Scheme int
	BS     int
	S      h.B
}

func checkAccept(c accCase, r *h.Rec) error {
	r.Label("accept-" + schemeNames[c.Scheme])
	r.NT()
	p := newScheme(c.Scheme, c.BS)
	in := append([]byte{}, c.S...)
	out, err := p.Unpad(in)
	pre, inImage := refPreimage(c.Scheme, c.BS, c.S)
	if inImage {
		r.Label("in-image")
	} else {
		r.Label("not-in-image")
	}
	if err == nil {
		if !bytes.Equal(refPad(c.Scheme, c.BS, out), c.S) || (c.Scheme == 3 && !fitsM3(c.BS, len(out))) {
			return fmt.Errorf("Unpad accepted %x (-> %x) which padding cannot produce (Pad(result)=%x)", c.S, out, refPad(c.Scheme, c.BS, out))
		}
		if !inImage {
			return fmt.Errorf("model disagreement: accepted %x, result re-pads to it, but preimage search failed", c.S)
		}
	} else if out != nil {
		return fmt.Errorf("Unpad returned both data %x and error %v", out, err)
	}
	if inImage {
		if err != nil {
			return fmt.Errorf("Unpad rejected %x although it is Pad(%x): %v", c.S, pre, err)
		}
		if !bytes.Equal(out, pre) {
			return fmt.Errorf("Unpad(%x) = %x want %x", c.S, out, pre)
		}
	}
	if !bytes.Equal(in, c.S) {
		return fmt.Errorf("Unpad modified its input")
	}
	return nil
}

func alphabet(bs int) []byte {
	a := []byte{0x00, 0x01, 0x02, 0x80}
	dup := false
	for _, x := range a {
		if x == byte(bs) {
			dup = true
		}
	}
	if !dup {
		a = append(a, byte(bs))
	}
	// one more value that is never a valid padding byte for bs<=4
	return append(a, 0x08, 0x10, 0x18, 0x20)
}

func TestC18_AcceptSetExhaustive(t *testing.T) {
	h.MarkExhaustive("acceptset-small")
	maxTotal := h.Scale(6, 8)
	h.Sweep(t, h.P{Name: "acceptset-small"}, func(emit func(accCase)) {
		for sch := 0; sch < 4; sch++ {
			for bs := 1; bs <= 4; bs++ {
				alpha := alphabet(bs)
				if sch != 3 {
					// 0x08.. only matter for the method 3 length block
					alpha = alpha[:len(alpha)-4]
				}
				for total := bs; total <= maxTotal; total += bs {
					s := make([]byte, total)
					idx := make([]int, total)
					for {
						for i := range s {
							s[i] = alpha[idx[i]]
						}
						emit(accCase{sch, bs, append([]byte{}, s...)})
						// next
						k := total - 1
						for k >= 0 {
							idx[k]++
							if idx[k] < len(alpha) {
								break
							}
							idx[k] = 0
							k--
						}
						if k < 0 {
							break
						}
					}
				}
			}
		}
	}, checkAccept)
}

func TestC18_AcceptSetRandom(t *testing.T) {
	h.Prop(t, h.P{Name: "acceptset-random", Quick: 30000, Thorough: 600000}, func(t *rapid.T) accCase {
		sch := rapid.IntRange(0, 3).Draw(t, "scheme")
		bs := rapid.OneOf(rapid.IntRange(1, 255), rapid.SampledFrom([]int{1, 2, 7, 8, 9, 15, 16, 17, 32, 255})).Draw(t, "bs")
		var s []byte
		switch rapid.IntRange(0, 3).Draw(t, "kind") {
		case 0, 1: // a valid padding with 0..3 bytes changed near the end / in the header
			n := rapid.IntRange(0, 3*bs+1).Draw(t, "len")
			m := rapid.SliceOfN(rapid.SampledFrom([]byte{0, 1, 0x80, byte(bs), 0xff, 7}), n, n).Draw(t, "m")
			s = refPad(sch, bs, m)
			k := rapid.IntRange(0, 3).Draw(t, "nmut")
			for i := 0; i < k; i++ {
				var pos int
				if rapid.Bool().Draw(t, "hdr") {
					pos = rapid.IntRange(0, min(len(s), bs)-1).Draw(t, "pos")
				} else {
					pos = len(s) - 1 - rapid.IntRange(0, min(len(s), 2*bs)-1).Draw(t, "rpos")
				}
				s[pos] = rapid.SampledFrom([]byte{0, 1, 2, 0x80, byte(bs), byte(bs - 1), byte(bs + 1), 0xff, 8, 16}).Draw(t, "v")
			}
		case 2: // block-aligned string over a padding-like alphabet
			nb := rapid.IntRange(1, 4).Draw(t, "blocks")
			s = rapid.SliceOfN(rapid.SampledFrom([]byte{0, 0, 0, 1, 2, 0x80, byte(bs), 8, 16}), nb*bs, nb*bs).Draw(t, "s")
		default: // whole extra/missing blocks on a valid padding
			n := rapid.IntRange(0, 2*bs).Draw(t, "len")
			s = refPad(sch, bs, gen.Fill(uint64(n)*131+uint64(bs), n))
			if rapid.Bool().Draw(t, "extend") {
				s = append(s, make([]byte, bs)...)
			} else if len(s) > bs {
				s = s[:len(s)-bs]
			}
		}
		return accCase{sch, bs, s}
	}, checkAccept)
}

// ---------------------------------------------------------------- robustness

type anyCase struct {
	Scheme int
	BS     int
	S      h.B
}

func TestC18_NoPanic(t *testing.T) {
	h.Prop(t, h.P{Name: "nopanic", Quick: 20000, Thorough: 400000}, func(t *rapid.T) anyCase {
		sch := rapid.IntRange(0, 3).Draw(t, "scheme")
		bs := rapid.IntRange(1, 255).Draw(t, "bs")
		n := rapid.OneOf(rapid.IntRange(0, 3*bs+2), rapid.IntRange(0, 20)).Draw(t, "n")
		s := rapid.SliceOfN(rapid.SampledFrom([]byte{0, 1, 0x80, byte(bs), 0xff, byte(n)}), n, n).Draw(t, "s")
		return anyCase{sch, bs, s}
	}, checkNoPanic)
}

func checkNoPanic(c anyCase, r *h.Rec) error {
	r.Label("nopanic-" + schemeNames[c.Scheme])
	aligned := len(c.S) > 0 && len(c.S)%c.BS == 0
	r.NTIf(!aligned)
	p := newScheme(c.Scheme, c.BS)
	out, err := p.Unpad(append([]byte{}, c.S...)) // a panic is caught by the harness and reported
	if !aligned && err == nil {
		return fmt.Errorf("Unpad accepted a string of length %d that is not a positive multiple of %d (-> %x)", len(c.S), c.BS, out)
	}
	if aligned {
		return checkAccept(accCase(c), &h.Rec{})
	}
	return nil
}

type ctorCase struct {
	Scheme int
	BS     int
}

func TestC18_Constructor(t *testing.T) {
	h.MarkExhaustive("constructor")
	h.Sweep(t, h.P{Name: "constructor"}, func(emit func(ctorCase)) {
		for s := 0; s < 4; s++ {
			for bs := 0; bs <= 300; bs++ {
				emit(ctorCase{s, bs})
			}
			emit(ctorCase{s, 1 << 16})
		}
	}, func(c ctorCase, r *h.Rec) (err error) {
		r.Label("ctor")
		r.NTIf(c.BS == 0 || c.BS > 255)
		panicked := false
		func() {
			defer func() {
				if recover() != nil {
					panicked = true
				}
			}()
			newScheme(c.Scheme, c.BS)
		}()
		wantPanic := c.BS == 0 || c.BS > 255
		if panicked != wantPanic {
			return fmt.Errorf("constructor(%d) panicked=%v, documented range is 1..255", c.BS, panicked)
		}
		return nil
	})
}

var _ = os.Getenv
