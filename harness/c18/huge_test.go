package c18

// Padding method 3 carries the BIT length of the message: at 2^29 bytes it
// passes 2^32 (seeded change C19-9-2 took it through a 32-bit variable; the
// change lives in padding/ and is a violation of this property as well). One
// message of 2^29 and one of 2^29+5 bytes (zero bytes with marked ends), block
// sizes 16 and 8: the length block, the zero fill and the round trip are
// compared piecewise without building a second reference copy (about 1.1 GiB
// for a few seconds).

import (
	"bytes"
	"encoding/binary"
	"fmt"
	"testing"

	"github.com/emmansun/gmsm/padding"
	"verif/harness/gen"
	"verif/harness/h"
)

type hugePadCase struct {
	BS    int
	Extra int
	Seed  uint64
}

func TestC18_Huge(t *testing.T) {
	h.Sweep(t, h.P{Name: "huge-method3"}, func(emit func(hugePadCase)) {
		emit(hugePadCase{16, 0, gen.Mix(h.Seed, 0x4801)})
		if h.Thorough() {
			emit(hugePadCase{8, 5, gen.Mix(h.Seed, 0x4802)})
			emit(hugePadCase{16, 1<<29 + 3, gen.Mix(h.Seed, 0x4803)}) // 2^30+3 bytes: bit length 2^33+24
		}
	}, func(c hugePadCase, r *h.Rec) error {
		r.Label("length>=2^29 bytes (bit length passes 2^32)")
		r.NT()
		n := 1<<29 + c.Extra
		msg := make([]byte, n)
		copy(msg, gen.Fill(gen.Mix(c.Seed, 2), 40))
		copy(msg[n-40:], gen.Fill(gen.Mix(c.Seed, 3), 40))
		head, tail := append([]byte{}, msg[:64]...), append([]byte{}, msg[n-64:]...)
		p := padding.NewISO9797M3Padding(uint(c.BS))
		out := p.Pad(msg)
		fill := (c.BS - n%c.BS) % c.BS
		if len(out) != c.BS+n+fill {
			return fmt.Errorf("method 3, block %d: Pad of %d bytes returned %d bytes, want %d", c.BS, n, len(out), c.BS+n+fill)
		}
		lb := make([]byte, c.BS)
		binary.BigEndian.PutUint64(lb[c.BS-8:], uint64(n)*8)
		if !bytes.Equal(out[:c.BS], lb) {
			return fmt.Errorf("method 3, block %d: length block of a %d-byte message = %x, want %x (bit length, big-endian, right-aligned)", c.BS, n, out[:c.BS], lb)
		}
		if !bytes.Equal(out[c.BS:c.BS+64], head) || !bytes.Equal(out[c.BS+n-64:c.BS+n], tail) || !bytes.Equal(out[c.BS+n:], make([]byte, fill)) {
			return fmt.Errorf("method 3, block %d: padded form of a %d-byte message does not carry the message followed by %d zero bytes", c.BS, n, fill)
		}
		for off := 64; off < n-64; off += 1 << 20 { // the zero middle, 1 MiB at a time
			end := off + 1<<20
			if end > n-64 {
				end = n - 64
			}
			if !bytes.Equal(out[c.BS+off:c.BS+end], msg[off:end]) {
				return fmt.Errorf("method 3, block %d: padded form differs from the message between bytes %d and %d", c.BS, off, end)
			}
		}
		if !bytes.Equal(msg[:64], head) || !bytes.Equal(msg[n-64:], tail) {
			return fmt.Errorf("Pad modified the caller's message")
		}
		back, err := p.Unpad(out)
		if err != nil {
			return fmt.Errorf("method 3, block %d: Unpad(Pad(m)) for a %d-byte message fails: %v", c.BS, n, err)
		}
		if len(back) != n || !bytes.Equal(back[:64], head) || !bytes.Equal(back[n-64:], tail) {
			return fmt.Errorf("method 3, block %d: Unpad(Pad(m)) returns %d bytes for a %d-byte message (or other ends)", c.BS, len(back), n)
		}
		return nil
	})
}
