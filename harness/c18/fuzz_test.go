package c18

// Native coverage-guided fuzz targets (thorough tier only; the driver runs
// `go test -fuzz`). Both targets decode the fuzzer's bytes into a well-formed
// case of the property's domain (a data-provider layer: selector bytes ->
// scheme / block size / flavour, length fields reduced modulo the legal range,
// the remaining bytes used as the message resp. the string to unpad) and then
// evaluate the SAME semantic oracle as the sweeps and rapid properties on every
// input: the documented-form model refPad, the image-membership search
// refPreimage, the caller-memory and scribble discipline of the round trip.

import (
	"encoding/binary"
	"runtime/debug"
	"testing"

	"verif/harness/h"
)

// ------------------------------------------------------------ Unpad / accept set

const accHdr = 10

// spread builds a string of total bytes from a short payload: the first split
// payload bytes are left-aligned (where method 3 keeps its length block), the
// remaining ones right-aligned (where the other schemes keep their padding) and
// everything in between is the fill byte. So a handful of bytes describe a
// hostile string for any block size up to 255.
func spread(total, split int, fill byte, payload []byte) []byte {
	s := make([]byte, total)
	for i := range s {
		s[i] = fill
	}
	if split > len(payload) {
		split = len(payload)
	}
	head, tail := payload[:split], payload[split:]
	copy(s, head)
	if len(tail) > total {
		tail = tail[len(tail)-total:]
	}
	copy(s[total-len(tail):], tail)
	return s
}

// decodeUnpad: every byte string of at least accHdr bytes is a (scheme, block
// size, string) case.
//
//	d[0]    bits 0-1 scheme, bits 2.. kind (mod 3):
//	        0 block-aligned string of 1..4 blocks spread from the payload
//	        1 refPad(message) with whole-block surgery and byte edits (near-valid)
//	        2 string of ANY length 0..4*bs+2 (checkNoPanic: non-aligned must fail)
//	d[1]    block size 1 + d[1] mod 255
//	d[2:4]  kind 0: blocks-1 (mod 4), split; kind 1: message length mod 3*bs+2;
//	        kind 2: string length mod 4*bs+3
//	d[4]    fill byte
//	d[5]    bits 0-1 block surgery (kind 1), bit 2/4 enable edit 1/2, bit 3/5 edit from the end
//	d[6:8]  edit 1 (offset, value), d[8:10] edit 2
//	d[10:]  payload
func decodeUnpad(d []byte) (c anyCase, anyLen bool, ok bool) {
	if len(d) < accHdr {
		return anyCase{}, false, false
	}
	c.Scheme = int(d[0] & 3)
	kind := int(d[0]>>2) % 3
	c.BS = 1 + int(d[1])%255
	bs := c.BS
	payload := d[accHdr:]
	var s []byte
	switch kind {
	case 0:
		s = spread((1+int(d[2]&3))*bs, int(d[3]), d[4], payload)
	case 1:
		n := int(binary.LittleEndian.Uint16(d[2:4])) % (3*bs + 2)
		m := spread(n, 0, d[4], payload)
		s = refPad(c.Scheme, bs, m)
		switch d[5] & 3 {
		case 1:
			s = append(s, make([]byte, bs)...)
		case 2:
			if len(s) > bs {
				s = s[:len(s)-bs]
			}
		case 3:
			s = append(s, s[len(s)-bs:]...)
		}
	default:
		anyLen = true
		s = spread(int(binary.LittleEndian.Uint16(d[2:4]))%(4*bs+3), int(d[5]>>6)*bs, d[4], payload)
	}
	for e := 0; e < 2 && len(s) > 0; e++ {
		if d[5]&(4<<(2*e)) == 0 {
			continue
		}
		pos := int(d[6+2*e]) % len(s)
		if d[5]&(8<<(2*e)) != 0 {
			pos = len(s) - 1 - pos
		}
		s[pos] = d[7+2*e]
	}
	c.S = s
	return c, anyLen, true
}

func FuzzC18_Unpad(f *testing.F) {
	seed := func(scheme, kind, bsm1 byte, f23 uint16, fill, flags byte, e1o, e1v, e2o, e2v byte, payload ...byte) {
		d := []byte{scheme | kind<<2, bsm1, byte(f23), byte(f23 >> 8), fill, flags, e1o, e1v, e2o, e2v}
		f.Add(append(d, payload...))
	}
	for s := byte(0); s < 4; s++ {
		// (a) genuine paddings: empty, short, whole-block and 3-block+1 messages
		seed(s, 1, 15, 0, 0x41, 0, 0, 0, 0, 0)
		seed(s, 1, 15, 5, 0x41, 0, 0, 0, 0, 0, 0x80, 0x00)
		seed(s, 1, 0, 4, 0x01, 0, 0, 0, 0, 0)
		seed(s, 1, 254, 3, 0xff, 0, 0, 0, 0, 0)
		// near-valid: surplus zero block, repeated block, one byte changed
		seed(s, 1, 15, 20, 0x41, 1, 0, 0, 0, 0)
		seed(s, 1, 7, 3, 0x41, 3, 0, 0, 0, 0)
		seed(s, 1, 15, 7, 0x41, 4|8, 2, 0x01, 0, 0)
		seed(s, 1, 15, 7, 0x41, 4, 3, 0x01, 0, 0)
		// (b) hostile block-aligned strings: all zero, marker / length bytes at the end
		seed(s, 0, 15, 0, 0x00, 0, 0, 0, 0, 0)
		seed(s, 0, 3, 1, 0x00, 0, 0, 0, 0, 0, 0x80)
		seed(s, 0, 3, 1, 0x00, 0, 0, 0, 0, 0, 0x05)
		seed(s, 0, 7, 2<<8, 0x00, 0, 0, 0, 0, 0, 0x00, 0x07, 0x80, 0x00, 0x01)
		seed(s, 0, 254, 0, 0x00, 0, 0, 0, 0, 0, 0xff)
		// any length: empty, one short of a block
		seed(s, 2, 15, 0, 0, 0, 0, 0, 0, 0)
		seed(s, 2, 15, 15, 0x0f, 0, 0, 0, 0, 0)
	}
	f.Fuzz(func(t *testing.T, data []byte) {
		c, anyLen, ok := decodeUnpad(data)
		if !ok {
			return
		}
		defer func() {
			if p := recover(); p != nil {
				t.Fatalf("panic: %v\n%s\ncase: scheme=%s bs=%d s=%x", p, debug.Stack(), schemeNames[c.Scheme], c.BS, []byte(c.S))
			}
		}()
		var err error
		if anyLen {
			err = checkNoPanic(c, &h.Rec{})
		} else {
			err = checkAccept(accCase(c), &h.Rec{})
		}
		if err != nil {
			t.Fatalf("%v\ncase: scheme=%s bs=%d s=%x", err, schemeNames[c.Scheme], c.BS, []byte(c.S))
		}
	})
}

// ------------------------------------------------------------ Pad / round trip

const rtHdr = 8

// lengths where a length field or a loop counter grows a byte
var rtBoundaryLens = []int{31, 32, 33, 255, 256, 257, 511, 512, 513, 4095, 4096, 4097, 8191, 8192, 8193, 65535, 65536, 65537}

// decodeRoundTrip: every byte string of at least rtHdr bytes is a (scheme,
// block size, message, spare capacity) case.
//
//	d[0]    bits 0-1 scheme, bits 2-3 length class, bits 4-6 spare-capacity class
//	d[1]    block size 1 + d[1] mod 255
//	d[2:4]  length field: class 0/1 mod 3*bs+2 (the property's exhaustive domain),
//	        class 2 mod 8200, class 3 a whole number of blocks below 8200 or
//	        (d[5] bit 7) a boundary length from rtBoundaryLens; reduced to what
//	        method 3 can represent in a tiny block
//	d[4]    spare capacity for class 4
//	d[5]    bits 0-2 tail variant of buildMsg (mod 6)
//	d[6:8]  content seed
//	d[8:]   message bytes, right-aligned (the tail is what the schemes look at)
func decodeRoundTrip(d []byte) (c rtCase, msg []byte, ok bool) {
	if len(d) < rtHdr {
		return rtCase{}, nil, false
	}
	c.Scheme = int(d[0] & 3)
	c.BS = 1 + int(d[1])%255
	bs := c.BS
	lf := int(binary.LittleEndian.Uint16(d[2:4]))
	switch (d[0] >> 2) & 3 {
	case 0, 1:
		c.Len = lf % (3*bs + 2)
	case 2:
		c.Len = lf % 8200
	default:
		if d[5]&0x80 != 0 {
			c.Len = rtBoundaryLens[lf%len(rtBoundaryLens)]
		} else {
			c.Len = lf % 8200
			c.Len -= c.Len % bs
		}
	}
	if c.Scheme == 3 && !fitsM3(bs, c.Len) {
		c.Len %= (1<<(8*uint(bs))-1)/8 + 1
	}
	overhead := bs - c.Len%bs
	switch (d[0] >> 4) & 7 {
	case 0:
		c.Spare = 0
	case 1:
		c.Spare = 1
	case 2:
		c.Spare = bs
	case 3:
		c.Spare = 4 * bs
	case 4:
		c.Spare = int(d[4])
	case 5:
		c.Spare = overhead
	case 6:
		c.Spare = overhead - 1
	default:
		c.Spare = overhead + bs
	}
	c.Content = int(d[5]&7) % 6
	if c.Len == 0 {
		c.Content = 0
	}
	c.Seed = uint64(binary.LittleEndian.Uint16(d[6:8]))
	msg = buildMsg(c)
	tail := d[rtHdr:]
	if len(tail) > len(msg) {
		tail = tail[len(tail)-len(msg):]
	}
	copy(msg[len(msg)-len(tail):], tail)
	return c, msg, true
}

func FuzzC18_RoundTrip(f *testing.F) {
	seed := func(scheme, lenClass, spareClass, bsm1 byte, lf uint16, spare, content byte, tail ...byte) {
		d := []byte{scheme | lenClass<<2 | spareClass<<4, bsm1, byte(lf), byte(lf >> 8), spare, content, 0x34, 0x12}
		f.Add(append(d, tail...))
	}
	for s := byte(0); s < 4; s++ {
		// (a) typical cases of the sweeps
		seed(s, 0, 0, 15, 0, 0, 0)
		seed(s, 0, 1, 15, 15, 0, 1)
		seed(s, 0, 2, 15, 16, 0, 2)
		seed(s, 0, 3, 15, 17, 0, 5)
		seed(s, 0, 0, 7, 25, 0, 3)
		// (b) boundaries: block size 1, 2 and 255, nil message with spare capacity,
		// spare capacity exactly / one short of / one block more than the padding needs,
		// padding-like message tails, lengths where a counter grows a byte
		seed(s, 0, 4, 0, 0, 7, 0)
		seed(s, 0, 5, 0, 3, 0, 0, 0x01)
		seed(s, 0, 6, 1, 5, 0, 0, 0x80, 0x00)
		seed(s, 0, 7, 254, 100, 0, 0, 0xff, 0xfe)
		seed(s, 0, 5, 254, 254, 0, 4)
		seed(s, 0, 7, 15, 31, 0, 0, 0x80, 0x00, 0x00)
		seed(s, 2, 2, 15, 4096, 0, 0)
		seed(s, 3, 3, 15, 6, 0, 0x80)
		seed(s, 3, 0, 7, 1024, 0, 0, 0x08, 0x08)
	}
	f.Fuzz(func(t *testing.T, data []byte) {
		c, msg, ok := decodeRoundTrip(data)
		if !ok {
			return
		}
		defer func() {
			if p := recover(); p != nil {
				t.Fatalf("panic: %v\n%s\ncase: %+v msg=%s", p, debug.Stack(), c, h.Hex(msg))
			}
		}()
		if err := checkRoundTripMsg(c, msg, &h.Rec{}); err != nil {
			t.Fatalf("%v\ncase: %+v msg=%s", err, c, h.Hex(msg))
		}
	})
}
