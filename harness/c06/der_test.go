package c06

// A small strict DER reader for  SEQUENCE { INTEGER r, INTEGER s }  and the
// encoders used to build canonical and deliberately non-canonical candidates.
// Written from ITU-T X.690 (8.1.2 identifier octets, 8.1.3 / 10.1 length
// octets, 8.3 integer contents); shares no code with /repo or with
// golang.org/x/crypto/cryptobyte. encoding/asn1 + re-marshal equality serves as
// a second opinion (asn1SecondOpinion).

import (
	"bytes"
	"encoding/asn1"
	"errors"
	"fmt"
	"math/big"
)

// derTLV reads one definite-length, minimally-length-encoded TLV with a
// single-octet identifier from the front of b.
func derTLV(b []byte) (tag byte, content, rest []byte, err error) {
	if len(b) < 2 {
		return 0, nil, nil, errors.New("short header")
	}
	tag = b[0]
	if tag&0x1f == 0x1f {
		return 0, nil, nil, errors.New("high-tag-number form")
	}
	l := int(b[1])
	hdr := 2
	if l >= 0x80 {
		nl := l & 0x7f
		if nl == 0 {
			return 0, nil, nil, errors.New("indefinite length")
		}
		if nl > 4 {
			return 0, nil, nil, errors.New("length of length > 4")
		}
		if len(b) < 2+nl {
			return 0, nil, nil, errors.New("short length octets")
		}
		if b[2] == 0 {
			return 0, nil, nil, errors.New("non-minimal length (leading zero octet)")
		}
		l = 0
		for i := 0; i < nl; i++ {
			l = l<<8 | int(b[2+i])
		}
		if l < 0x80 {
			return 0, nil, nil, errors.New("non-minimal length (long form below 128)")
		}
		hdr = 2 + nl
	}
	if len(b)-hdr < l {
		return 0, nil, nil, errors.New("content shorter than its length")
	}
	return tag, b[hdr : hdr+l], b[hdr+l:], nil
}

// derUint reads the contents octets of a non-negative, minimally encoded INTEGER.
func derUint(c []byte) (*big.Int, error) {
	if len(c) == 0 {
		return nil, errors.New("empty INTEGER")
	}
	if c[0]&0x80 != 0 {
		return nil, errors.New("negative INTEGER")
	}
	if len(c) > 1 && c[0] == 0 && c[1]&0x80 == 0 {
		return nil, errors.New("non-minimal INTEGER")
	}
	return new(big.Int).SetBytes(c), nil
}

// strictParse accepts exactly the DER encodings of SEQUENCE{INTEGER r>=0, INTEGER s>=0}.
func strictParse(sig []byte) (r, s *big.Int, err error) {
	tag, body, rest, err := derTLV(sig)
	if err != nil {
		return nil, nil, fmt.Errorf("outer: %v", err)
	}
	if tag != 0x30 {
		return nil, nil, fmt.Errorf("outer tag %#x is not SEQUENCE", tag)
	}
	if len(rest) != 0 {
		return nil, nil, errors.New("bytes after the SEQUENCE")
	}
	tag, rc, body, err := derTLV(body)
	if err != nil {
		return nil, nil, fmt.Errorf("r: %v", err)
	}
	if tag != 0x02 {
		return nil, nil, fmt.Errorf("r tag %#x is not INTEGER", tag)
	}
	if r, err = derUint(rc); err != nil {
		return nil, nil, fmt.Errorf("r: %v", err)
	}
	tag, sc, body, err := derTLV(body)
	if err != nil {
		return nil, nil, fmt.Errorf("s: %v", err)
	}
	if tag != 0x02 {
		return nil, nil, fmt.Errorf("s tag %#x is not INTEGER", tag)
	}
	if s, err = derUint(sc); err != nil {
		return nil, nil, fmt.Errorf("s: %v", err)
	}
	if len(body) != 0 {
		return nil, nil, errors.New("bytes after s inside the SEQUENCE")
	}
	return r, s, nil
}

// asn1SecondOpinion decides the same question with encoding/asn1: the input
// unmarshals into two integers with nothing left over, both are non-negative
// and marshalling them again reproduces the input byte for byte.
func asn1SecondOpinion(sig []byte) (r, s *big.Int, ok bool) {
	var v struct{ R, S *big.Int }
	rest, err := asn1.Unmarshal(sig, &v)
	if err != nil || len(rest) != 0 || v.R == nil || v.S == nil || v.R.Sign() < 0 || v.S.Sign() < 0 {
		return nil, nil, false
	}
	again, err := asn1.Marshal(v)
	if err != nil || !bytes.Equal(again, sig) {
		return nil, nil, false
	}
	return v.R, v.S, true
}

// ---------------------------------------------------------------- encoders

// lenOctets encodes a length; extra > 0 forces the long form with that many
// octets more than the minimum (extra = 1 on a short length gives 0x81 L).
func lenOctets(l, extra int) []byte {
	if l < 0x80 && extra == 0 {
		return []byte{byte(l)}
	}
	raw := []byte{byte(l)}
	for v := l >> 8; v > 0; v >>= 8 {
		raw = append([]byte{byte(v)}, raw...)
	}
	pad := extra
	if l < 0x80 {
		pad = extra - 1 // the first extra octet is the one that holds the value
	}
	for i := 0; i < pad; i++ {
		raw = append([]byte{0}, raw...)
	}
	return append([]byte{byte(0x80 | len(raw))}, raw...)
}

func tlv(tag byte, content []byte) []byte {
	out := append([]byte{tag}, lenOctets(len(content), 0)...)
	return append(out, content...)
}

func tlvLong(tag byte, content []byte, extra int) []byte {
	out := append([]byte{tag}, lenOctets(len(content), extra)...)
	return append(out, content...)
}

// intContent returns the minimal two's complement contents octets of v (any sign).
func intContent(v *big.Int) []byte {
	if v.Sign() >= 0 {
		b := v.Bytes()
		if len(b) == 0 {
			return []byte{0}
		}
		if b[0]&0x80 != 0 {
			b = append([]byte{0}, b...)
		}
		return b
	}
	// negative: minimal length L with -2^(8L-1) <= v
	for l := 1; ; l++ {
		lim := new(big.Int).Lsh(big.NewInt(1), uint(8*l-1))
		if new(big.Int).Neg(lim).Cmp(v) <= 0 {
			m := new(big.Int).Lsh(big.NewInt(1), uint(8*l))
			m.Add(m, v)
			out := make([]byte, l)
			m.FillBytes(out)
			return out
		}
	}
}

func derInt(v *big.Int) []byte { return tlv(0x02, intContent(v)) }

// derSig is the canonical DER encoding of SEQUENCE{r, s}.
func derSig(r, s *big.Int) []byte {
	return tlv(0x30, append(derInt(r), derInt(s)...))
}

// ---------------------------------------------------------------- self-test

func selfTestDER() error {
	bigH := func(s string) *big.Int { v, _ := new(big.Int).SetString(s, 16); return v }
	// encoder against encoding/asn1 on values around the sign-bit and length boundaries
	vals := []*big.Int{big.NewInt(0), big.NewInt(1), big.NewInt(127), big.NewInt(128), big.NewInt(255), big.NewInt(256),
		big.NewInt(-1), big.NewInt(-128), big.NewInt(-129), big.NewInt(-256), big.NewInt(-32768), big.NewInt(-32769),
		bigH("7fffffffffffffffffffffffffffffffffffffffffffffffffffffffffffffff"),
		bigH("8000000000000000000000000000000000000000000000000000000000000000"),
		bigH("ffffffffffffffffffffffffffffffffffffffffffffffffffffffffffffffff"),
		new(big.Int).Neg(bigH("8000000000000000000000000000000000000000000000000000000000000000")),
		new(big.Int).Lsh(big.NewInt(1), 1100)}
	for _, v := range vals {
		want, err := asn1.Marshal(v)
		if err != nil {
			return err
		}
		if got := derInt(v); !bytes.Equal(got, want) {
			return fmt.Errorf("derInt(%v) = %x, encoding/asn1 says %x", v, got, want)
		}
	}
	for _, a := range vals {
		for _, b := range vals {
			want, _ := asn1.Marshal(struct{ R, S *big.Int }{a, b})
			got := derSig(a, b)
			if !bytes.Equal(got, want) {
				return fmt.Errorf("derSig(%v,%v) = %x, encoding/asn1 says %x", a, b, got, want)
			}
			r, s, err := strictParse(got)
			if a.Sign() < 0 || b.Sign() < 0 {
				if err == nil {
					return fmt.Errorf("strictParse accepted negative %x", got)
				}
			} else if err != nil || r.Cmp(a) != 0 || s.Cmp(b) != 0 {
				return fmt.Errorf("strictParse(%x): %v", got, err)
			}
		}
	}
	// hand-written vectors: (bytes, strict?)
	vec := []struct {
		hex string
		ok  bool
	}{
		{"3006020101020102", true},
		{"3006020100020100", true},
		{"30070201010202 0080", true},
		{"300702020001020102", false},    // leading zero octet on r
		{"30060201ff020102", false},      // negative r
		{"3007020200ff020102", true},     // 255
		{"308106020101020102", false},    // long-form length below 128
		{"30820006020101020102", false},  // long form with leading zero
		{"3080020101020102 0000", false}, // indefinite
		{"300602010102010200", false},    // trailing byte after the SEQUENCE
		{"300702010102010200", false},    // trailing byte inside the SEQUENCE
		{"3003020101", false},            // one integer
		{"3009020101020102020103", false},
		{"3106020101020102", false}, // SET
		{"1006020101020102", false}, // primitive SEQUENCE
		{"3006030101020102", false}, // BIT STRING
		{"3006220101020102", false}, // constructed INTEGER
		{"30060200 01020102", false},
		{"30050200020102", false}, // empty INTEGER
		{"3000", false},
		{"30", false},
		{"", false},
		{"3006020101020102", true},
		{"30061f0201020102", false}, // high-tag-number form
		{"3005020101020102", false}, // SEQUENCE length one short
		{"3007020101020102", false}, // SEQUENCE length one long
		{"30060201010202 02", false},
	}
	for _, v := range vec {
		b := unhexSp(v.hex)
		_, _, err := strictParse(b)
		if (err == nil) != v.ok {
			return fmt.Errorf("strictParse(%x): err=%v, expected ok=%v", b, err, v.ok)
		}
		if _, _, ok := asn1SecondOpinion(b); ok != v.ok {
			return fmt.Errorf("asn1SecondOpinion(%x)=%v, expected %v", b, ok, v.ok)
		}
	}
	// a 200-byte integer needs the long form and must be accepted in exactly that form
	huge := new(big.Int).Lsh(big.NewInt(1), 1590)
	b := derSig(huge, big.NewInt(5))
	if b[1] != 0x81 {
		return fmt.Errorf("derSig(huge) header %x", b[:4])
	}
	if r, _, err := strictParse(b); err != nil || r.Cmp(huge) != 0 {
		return fmt.Errorf("strictParse(huge): %v", err)
	}
	if got := lenOctets(5, 1); !bytes.Equal(got, []byte{0x81, 5}) {
		return fmt.Errorf("lenOctets(5,1)=%x", got)
	}
	if got := lenOctets(5, 2); !bytes.Equal(got, []byte{0x82, 0, 5}) {
		return fmt.Errorf("lenOctets(5,2)=%x", got)
	}
	if got := lenOctets(200, 1); !bytes.Equal(got, []byte{0x82, 0, 200}) {
		return fmt.Errorf("lenOctets(200,1)=%x", got)
	}
	if got := lenOctets(0, 1); !bytes.Equal(got, []byte{0x81, 0}) {
		return fmt.Errorf("lenOctets(0,1)=%x", got)
	}
	return nil
}

func unhexSp(s string) []byte {
	var out []byte
	var hi, have = byte(0), false
	for i := 0; i < len(s); i++ {
		c := s[i]
		var v byte
		switch {
		case c >= '0' && c <= '9':
			v = c - '0'
		case c >= 'a' && c <= 'f':
			v = c - 'a' + 10
		case c >= 'A' && c <= 'F':
			v = c - 'A' + 10
		default:
			continue
		}
		if have {
			out = append(out, hi<<4|v)
			have = false
		} else {
			hi, have = v, true
		}
	}
	return out
}
