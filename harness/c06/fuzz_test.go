package c06

// Native coverage-guided fuzz targets (thorough tier only; the driver runs
// `go test -fuzz`). Each target decodes the fuzzer's bytes into a well-formed
// case of one of the package's case types - every byte string of at least the
// header length is a case the property quantifies over - and hands it to the
// SAME check function as the rapid / enumerated tests, so the semantic oracle
// (reference verdict equality, reference verification of library signatures,
// "every call on an invalid key fails") is evaluated on every input.
//
//	FuzzC06_Verify   bytes -> candCase  -> checkCand
//	FuzzC06_Sign     bytes -> complCase / shapeCase / retryCase -> checkComplete / checkShape / checkRetry
//	FuzzC06_History  bytes -> histCase (operation list on one key object) -> checkHistory
//
// Nothing here draws randomness: everything is a pure function of the input.

import (
	"encoding/binary"
	"math/big"
	"runtime/debug"
	"sync"
	"testing"

	"verif/harness/gen"
	"verif/harness/h"
	"verif/harness/ref"
)

// ---------------------------------------------------------------- byte reader

// fzReader consumes the input front to back; an exhausted reader yields zeros
// (so a short payload is still a case).
type fzReader struct{ b []byte }

func (r *fzReader) empty() bool { return len(r.b) == 0 }

func (r *fzReader) byte() byte {
	if len(r.b) == 0 {
		return 0
	}
	v := r.b[0]
	r.b = r.b[1:]
	return v
}

// bytes returns up to n bytes (fewer when the input ends).
func (r *fzReader) bytes(n int) []byte {
	if n > len(r.b) {
		n = len(r.b)
	}
	v := cp(r.b[:n])
	r.b = r.b[n:]
	return v
}

// padded returns exactly n bytes, zero-filled on the right when the input ends.
func (r *fzReader) padded(n int) []byte {
	out := make([]byte, n)
	copy(out, r.bytes(n))
	return out
}

func (r *fzReader) u16() int { return int(r.byte()) | int(r.byte())<<8 }

func (r *fzReader) u64() uint64 {
	return binary.LittleEndian.Uint64(r.padded(8))
}

// bigInt reads a length octet (reduced modulo maxLen+1) and that many
// big-endian bytes: a non-negative integer of at most maxLen bytes.
func (r *fzReader) bigInt(maxLen int) *big.Int {
	n := int(r.byte()) % (maxLen + 1)
	return new(big.Int).SetBytes(r.bytes(n))
}

func (r *fzReader) rest() []byte {
	v := cp(r.b)
	r.b = nil
	return v
}

// ---------------------------------------------------------------- shared pieces

// fzCurve: half of the selector values stay on the SM2 curve, the others pick
// one of the NIST curves the library routes to sm2_legacy.go.
func fzCurve(sel byte) *gcurve {
	if sel%8 < 4 {
		return nil
	}
	return legacyCurves[sel%8-4]
}

// fzKey returns a valid private scalar in [1, n-2] of the curve.
func fzKey(g *gcurve, kind int, seed uint64) *big.Int {
	if g == nil {
		d := keyOfKind(kind, seed)
		if !scalarValid(d) {
			return bi(3)
		}
		return d
	}
	switch kind {
	case 0:
		return bi(1)
	case 1:
		return bi(2)
	case 2:
		return sub(g.c.N, bi(2))
	case 3:
		return sub(g.c.N, bi(3))
	case 4:
		return bi(int64(3 + seed%65533))
	}
	return g.scalar(seed)
}

// fzArgs turns eight input bytes into an argument-discipline word: nibble k is
// the flavour of the k-th slice argument, bit 63 switches scribbling on.
func fzArgs(raw uint64) uint64 {
	if raw == 0 {
		return 0
	}
	return raw | argFlavoured
}

// fzUIDLen maps 16 bits to -1 (default id spelled out), 0 (none), 1..8191 and
// 8192..8194 (ids the standard cannot express).
func fzUIDLen(sel int) int { return sel%(maxUID+5) - 1 }

var fzDigestLens = []int{32, 32, 33, 48, 64, 66, 67, 200}

// fzInRange maps any non-negative integer into [1, n-1], leaving values that
// are already there alone.
func fzInRange(v, n *big.Int) *big.Int {
	if v.Sign() > 0 && v.Cmp(n) < 0 {
		return v
	}
	m := new(big.Int).Mod(v, sub(n, one))
	return m.Add(m, one)
}

// fzInt is the catalogue of replacements for r or s: the valid value, the
// boundary values of the range, values congruent to the valid one, values
// whose low bytes are the valid one, and integers taken from the input.
func fzInt(sel int, orig, other *big.Int, b *base, rd *fzReader) *big.Int {
	n := b.n()
	switch sel % 16 {
	case 0:
		return orig
	case 1:
		return bi(0)
	case 2:
		return cpi(n)
	case 3:
		return add(n, orig)
	case 4:
		return sub(b.two(), one)
	case 5:
		return sub(n, orig)
	case 6:
		return rd.bigInt(40)
	case 7:
		return new(big.Int).Neg(orig)
	case 8:
		bit := uint(rd.u16() % (8 * b.width()))
		if orig.Sign() < 0 {
			return orig
		}
		return new(big.Int).Xor(orig, new(big.Int).Lsh(one, bit))
	case 9:
		return sub(n, one)
	case 10:
		return bi(1)
	case 11:
		return sub(n, other) // with other = r: r + s = n, t = 0
	case 12:
		// far above the range, the valid value in the low bytes: orig + j*2^(8w)
		w := b.width() + int(rd.byte()%10)
		j := rd.bigInt(4)
		if j.Sign() == 0 {
			j = bi(1)
		}
		return add(orig, j.Lsh(j, uint(8*w)))
	case 13:
		return add(orig, b.two())
	case 14:
		return fzInRange(rd.bigInt(40), n)
	default:
		return add(add(n, n), orig)
	}
}

// fzPre builds one component of a pair that is then made to satisfy the bare
// verification equation by fitting the digest (craftDigest): in range, or out
// of range in exactly one way.
func fzPre(sel int, raw, other, n *big.Int) *big.Int {
	switch sel % 8 {
	case 0:
		return fzInRange(raw, n)
	case 1:
		return raw
	case 2:
		if other == nil {
			return sub(n, one)
		}
		return sub(n, fzInRange(other, n)) // r + s = n
	case 3:
		return add(fzInRange(raw, n), n)
	case 4:
		return bi(0)
	case 5:
		return cpi(n)
	case 6:
		return sub(n, one)
	default:
		return bi(1)
	}
}

// fzBuild is a small stack machine that assembles a candidate signature from
// the components of the base pair: literals, INTEGER contents of (replaced)
// r and s, TLV wrapping with minimal / long-form / wrong / indefinite lengths,
// concatenation, padding, truncation. The stack, bottom to top, is the result.
func fzBuild(rd *fzReader, b *base) []byte {
	const maxLen = 1 << 17
	var st [][]byte
	push := func(v []byte) { st = append(st, v) }
	top := func() []byte { return st[len(st)-1] }
	for steps := 0; !rd.empty() && steps < 64; steps++ {
		op := rd.byte()
		p := int(op >> 4)
		switch op & 15 {
		case 0:
			push(rd.bytes(p + 1))
		case 1:
			push(intContent(fzInt(p, b.R, b.S, b, rd)))
		case 2:
			push(intContent(fzInt(p, b.S, b.R, b, rd)))
		case 3, 4:
			v := b.R
			if op&15 == 4 {
				v = b.S
			}
			f := new(big.Int).Mod(v, b.two()).FillBytes(make([]byte, b.width()))
			if p&1 != 0 {
				f = append([]byte{0}, f...)
			}
			push(f)
		case 5, 6, 7:
			if len(st) == 0 {
				continue
			}
			tag := byte(0x30)
			switch op & 15 {
			case 5:
				tag = rd.byte()
			case 7:
				tag = 0x02
				p = 0
			default:
				p = 0
			}
			c := top()
			var out []byte
			switch {
			case p >= 1 && p <= 3:
				out = tlvLong(tag, c, p)
			case p == 4:
				out = append([]byte{tag, byte(len(c) - 1)}, c...)
			case p == 5:
				out = append([]byte{tag, byte(len(c) + 1)}, c...)
			case p == 6:
				out = append([]byte{tag, 0x80}, c...)
			case p == 7:
				out = append(append([]byte{tag, 0x80}, c...), 0, 0)
			default:
				out = tlv(tag, c)
			}
			st[len(st)-1] = out
		case 8:
			if len(st) >= 2 {
				a, c := st[len(st)-2], st[len(st)-1]
				st = st[:len(st)-1]
				st[len(st)-1] = append(cp(a), c...)
			}
		case 9:
			if len(st) > 0 {
				push(cp(top()))
			}
		case 10, 11:
			if len(st) > 0 {
				fill := byte(0)
				if op&15 == 11 {
					fill = 0xff
				}
				pad := make([]byte, p%3+1)
				for i := range pad {
					pad[i] = fill
				}
				st[len(st)-1] = append(pad, top()...)
			}
		case 12:
			push(derSig(b.R, b.S))
		case 13:
			if len(st) >= 2 {
				st[len(st)-1], st[len(st)-2] = st[len(st)-2], st[len(st)-1]
			}
		case 14:
			if len(st) > 0 {
				c := top()
				k := p + 1
				if k > len(c) {
					k = len(c)
				}
				st[len(st)-1] = c[:len(c)-k]
			}
		default:
			if len(st) > 0 {
				st = st[:len(st)-1]
			}
		}
		total := 0
		for _, v := range st {
			total += len(v)
		}
		if total > maxLen {
			break
		}
	}
	out := []byte{}
	for _, v := range st {
		out = append(out, v...)
	}
	if len(out) > maxLen {
		out = out[:maxLen]
	}
	return out
}

// fzBaseParams is everything a base (public key, context, base pair) is a pure
// function of. The fuzzer mostly mutates the payload behind an unchanged
// header, so bases are memoised (no result depends on whether the memo was hit;
// a base is never modified after it was built).
type fzBaseParams struct {
	mode, kind     int
	curveSel       byte
	keySeed        uint64
	uidLen, msgLen int
	digSel         byte
	preR, preS     int
	seed           uint64
	r0, s0         string // fitted modes: the integers read from the payload
}

type fzBaseEntry struct {
	b  base
	ok bool
}

var (
	fzBaseMu   sync.Mutex
	fzBaseMemo = map[fzBaseParams]fzBaseEntry{}
)

func fzBase(p fzBaseParams) (base, bool) {
	fzBaseMu.Lock()
	e, hit := fzBaseMemo[p]
	fzBaseMu.Unlock()
	if hit {
		return e.b, e.ok
	}
	b, ok := fzBuildBase(p)
	fzBaseMu.Lock()
	if len(fzBaseMemo) < 1024 {
		fzBaseMemo[p] = fzBaseEntry{b, ok}
	}
	fzBaseMu.Unlock()
	return b, ok
}

func fzBuildBase(p fzBaseParams) (base, bool) {
	g := fzCurve(p.curveSel)
	if p.mode == 2 || p.mode == 5 || p.mode == 6 {
		g = nil
	}
	model, n := ref.SM2, bigN
	if g != nil {
		model, n = g.c, g.c.N
	}
	seed := p.seed
	// extend a fitted digest by bytes that do not count (documented truncation)
	extend := func(b *base) {
		if ext := fzDigestLens[p.digSel%8] - 32; ext > 0 && (g == nil || 8*len(b.Digest) >= g.orderBits) {
			b.Digest = append(cp(b.Digest), gen.Fill(seed+4, ext)...)
			b.E = b.Digest
		}
	}
	fitted := func(pub ref.Point) (base, bool) {
		r0raw, _ := new(big.Int).SetString(p.r0, 16)
		s0raw, _ := new(big.Int).SetString(p.s0, 16)
		r0 := fzPre(p.preR, r0raw, nil, n)
		s0 := fzPre(p.preS, s0raw, r0, n)
		var b base
		var ok bool
		if g == nil {
			b, ok = craftedBase(pub, r0, s0)
		} else {
			b, ok = g.craftedBase(pub, r0, s0)
		}
		if ok {
			extend(&b)
		}
		return b, ok
	}
	switch p.mode {
	case 0:
		d := fzKey(g, p.kind, p.keySeed)
		if g == nil {
			return honestBase(d, seed, p.uidLen, seed+1, p.msgLen, seed+2), true
		}
		return g.honestBase(d, seed, p.uidLen, seed+1, p.msgLen, seed+2), true
	case 1:
		d := fzKey(g, p.kind, p.keySeed)
		dg := gen.Fill(seed+3, fzDigestLens[p.digSel%8])
		switch (p.digSel >> 4) % 4 {
		case 1:
			for i := range dg {
				dg[i] = 0
			}
		case 2:
			for i := range dg {
				dg[i] = 0xff
			}
		case 3:
			if g == nil { // e in [n, 2^256): reduced by the equation
				copy(dg, ref.Bytes32(add(bigN, new(big.Int).SetUint64(seed&0xffffffff))))
			}
		}
		if g == nil {
			return digestBase(d, seed, dg), true
		}
		return g.digestBase(d, seed, dg), true
	case 3:
		d := fzKey(g, p.kind, p.keySeed)
		b, ok := fitted(model.BaseMul(d))
		b.D = d
		return b, ok
	case 4:
		// the key holder's pair with [s]G + [t]P = infinity; the digest that would fit "x1 = 0"
		d := fzKey(g, p.kind, p.keySeed)
		t := fzNonce(g, seed+9)
		s := new(big.Int).Mod(new(big.Int).Neg(new(big.Int).Mul(t, d)), n)
		r := new(big.Int).Mod(sub(t, s), n)
		if r.Sign() == 0 || s.Sign() == 0 {
			return base{}, false
		}
		var dg []byte
		if g != nil {
			dg = g.digestOf(r)
		} else {
			dg = ref.Bytes32(r)
		}
		if p.digSel&0x80 != 0 {
			dg = gen.Fill(seed+5, len(dg))
		}
		b := base{G: g, D: d, Pub: model.BaseMul(d), Digest: dg, E: dg, R: r, S: s}
		extend(&b)
		return b, true
	case 5:
		P, s, t, _ := x1OverflowKey(p.keySeed)
		r := modN(sub(t, s))
		if P.Inf || r.Sign() == 0 {
			return base{}, false
		}
		b, ok := craftedBase(P, r, s)
		if ok {
			extend(&b)
		}
		return b, ok
	default: // 2, 6: a curve point nobody knows the discrete logarithm of
		return fitted(smallXPoint(int64(p.keySeed) + 1))
	}
}

// ---------------------------------------------------------------- FuzzC06_Verify

const fzVerifyHdr = 32

var (
	fzModeNames   = []string{"honest-msg", "honest-digest", "fitted-foreign-key", "fitted-own-key", "infinity", "x1>=n", "bad-pub"}
	fzFamilyNames = []string{"raw-bytes", "built", "ints", "context", "edits"}
)

// decodeVerify: header
//
//	 0     base mode (%7)        honest message / honest digest / pair fitted under a foreign key /
//	                             pair fitted under [d]G / [s]G+[t]P = infinity / x1 in [n,p) / invalid public key
//	 1     curve (%8)            0..3 SM2, 4..7 P-224/256/384/521 (modes 0, 1, 3, 4)
//	 2     key class (%8)
//	 3,4   key seed
//	 5,6   user id length class
//	 7,8   message length (%2049)
//	 9     digest length / content class
//	10     candidate family (%5) raw bytes / stack-built encoding / replaced integers / shifted context / byte edits
//	11,12  replacement selectors for r and s (family 2)
//	13,14  selectors for the fitted pair (modes 2, 3, 6)
//	15     context / public-key variant selector
//	16..23 argument discipline word
//	24..31 seed (nonce, message and id bytes)
//
// followed by the payload: for the fitted modes two length-prefixed integers,
// then the family's own bytes.
func decodeVerify(data []byte) (candCase, bool) {
	if len(data) < fzVerifyHdr {
		return candCase{}, false
	}
	rd := &fzReader{b: data}
	mode := int(rd.byte() % 7)
	curveSel := rd.byte()
	kind := int(rd.byte() % 8)
	keySeed := uint64(rd.u16())
	uidLen := fzUIDLen(rd.u16())
	msgLen := rd.u16() % 2049
	digSel := rd.byte()
	family := int(rd.byte() % 5)
	rSel, sSel := int(rd.byte()), int(rd.byte())
	preR, preS := int(rd.byte()), int(rd.byte())
	ctxSel := int(rd.byte())
	args := fzArgs(rd.u64())
	seed := rd.u64()

	g := fzCurve(curveSel)
	if mode == 2 || mode == 5 || mode == 6 {
		g = nil
	}
	model := ref.SM2
	if g != nil {
		model = g.c
	}
	bp := fzBaseParams{mode: mode, kind: kind, curveSel: curveSel % 8, keySeed: keySeed, seed: seed}
	switch mode {
	case 0:
		bp.uidLen, bp.msgLen = uidLen, msgLen
	case 1:
		bp.digSel = digSel
	case 2, 3, 6:
		bp.digSel, bp.preR, bp.preS = digSel%8, preR%8, preS%8
		bp.r0, bp.s0 = rd.bigInt(40).Text(16), rd.bigInt(40).Text(16)
	case 4:
		bp.digSel = digSel&0x80 | digSel%8
	default:
		bp.digSel = digSel % 8
	}
	if mode != 0 && mode != 1 && mode != 3 && mode != 4 {
		bp.kind, bp.curveSel = 0, 0
	}
	b, ok := fzBase(bp)
	if !ok {
		return candCase{}, false
	}

	c := b.cand("fuzz:" + fzModeNames[mode] + "/" + fzFamilyNames[family])
	if mode == 6 {
		// public keys that are not curve points (digest interfaces only, coordinates below 2^256)
		x, y := b.Pub.X, b.Pub.Y
		switch ctxSel % 8 {
		case 0:
			x = add(x, bigP) // small x: fits 32 bytes
		case 1:
			y = add(y, one)
		case 2:
			x, y = bi(0), bi(0)
		case 3:
			y = x
		case 4:
			x, y = y, x
		case 5:
			x, y = new(big.Int).SetBytes(rd.padded(32)), new(big.Int).SetBytes(rd.padded(32))
		case 6:
			x = new(big.Int).SetBytes(rd.padded(32))
		default:
			y = new(big.Int).SetBytes(rd.padded(32))
		}
		if x.Cmp(two256) >= 0 || y.Cmp(two256) >= 0 {
			return candCase{}, false
		}
		c.PubX, c.PubY = ref.Bytes32(x), ref.Bytes32(y)
	}

	switch family {
	case 0:
		c = c.withSig(rd.rest())
	case 1:
		c = c.withSig(fzBuild(rd, &b))
		c.Reenc = true
	case 2:
		r := fzInt(rSel, b.R, b.S, &b, rd)
		s := fzInt(sSel, b.S, r, &b, rd)
		c = c.withRS(r, s)
	case 3:
		c = c.withRS(b.R, b.S)
		sel, amount := ctxSel%6, 1+int(rd.byte()%3)
		switch {
		case sel == 4 && mode != 6:
			// another key: -P, P+G, 2P
			var o ref.Point
			switch (ctxSel >> 4) % 3 {
			case 0:
				o = model.Neg(b.Pub)
			case 1:
				o = model.Add(b.Pub, model.G)
			default:
				o = model.Add(b.Pub, b.Pub)
			}
			if o.Inf {
				return candCase{}, false
			}
			c.PubX, c.PubY = b.fixed(o.X), b.fixed(o.Y)
		case sel == 5 && b.msgMode():
			c.DigestMode, c.Digest = true, cp(b.E) // the digest interfaces with the digest of the message
		case b.msgMode():
			switch sel % 4 {
			case 0:
				c.MsgSeed += uint64(amount)
			case 1:
				c.UIDSeed += uint64(amount)
			case 2:
				c.MsgLen += amount - 1
			default:
				if c.UIDLen >= 0 {
					c.UIDLen += amount - 1
				} else {
					c.UIDLen = 0 // the default id: spelled out -> not given
				}
			}
		default:
			dg := cp(c.Digest)
			bit := rd.u16() % (8 * len(dg))
			dg[bit/8] ^= 0x80 >> (bit % 8)
			c.Digest = dg
		}
	default:
		sig := derSig(b.R, b.S)
		for i := 0; i < 4 && !rd.empty(); i++ {
			op, pos, val := rd.byte()%4, rd.u16(), rd.byte()
			if len(sig) == 0 && op != 1 {
				continue
			}
			switch op {
			case 0:
				sig[pos%len(sig)] = val
			case 1:
				p := pos % (len(sig) + 1)
				sig = append(sig[:p], append([]byte{val}, sig[p:]...)...)
			case 2:
				p := pos % len(sig)
				sig = append(sig[:p], sig[p+1:]...)
			default:
				sig[pos%len(sig)] ^= val | 1
			}
		}
		c = c.withSig(sig)
		c.Reenc = true
	}
	c.Args = args
	return c, true
}

// fzNonce returns a value in [1, n-1] of the given curve (nil: SM2).
func fzNonce(g *gcurve, seed uint64) *big.Int {
	if g == nil {
		return nonceFromSeed(seed)
	}
	return g.nonce(seed)
}

// fzRun runs one decoded case through its check function the way h.Prop does
// (faults and panics inside the library are violations).
func fzRun[C any](t *testing.T, c C, check func(C, *h.Rec) error) {
	old := debug.SetPanicOnFault(true)
	defer debug.SetPanicOnFault(old)
	defer func() {
		if p := recover(); p != nil {
			t.Fatalf("panic: %v\n%s\ncase: %+v", p, debug.Stack(), c)
		}
	}()
	if err := check(c, &h.Rec{}); err != nil {
		t.Fatalf("%v\ncase: %+v", err, c)
	}
}

type fzHeader struct {
	mode, curve, kind byte
	keySeed           uint16
	uid, msgLen       uint16
	dig, family       byte
	rSel, sSel        byte
	preR, preS, ctx   byte
	args, seed        uint64
}

func (hd fzHeader) bytes(payload ...[]byte) []byte {
	d := make([]byte, fzVerifyHdr)
	d[0], d[1], d[2] = hd.mode, hd.curve, hd.kind
	binary.LittleEndian.PutUint16(d[3:], hd.keySeed)
	binary.LittleEndian.PutUint16(d[5:], hd.uid)
	binary.LittleEndian.PutUint16(d[7:], hd.msgLen)
	d[9], d[10], d[11], d[12], d[13], d[14], d[15] = hd.dig, hd.family, hd.rSel, hd.sSel, hd.preR, hd.preS, hd.ctx
	binary.LittleEndian.PutUint64(d[16:], hd.args)
	binary.LittleEndian.PutUint64(d[24:], hd.seed)
	for _, p := range payload {
		d = append(d, p...)
	}
	return d
}

// lp is a length-prefixed integer as fzReader.bigInt reads it.
func lp(v *big.Int) []byte { b := v.Bytes(); return append([]byte{byte(len(b))}, b...) }

// FuzzC06_Verify: coverage-guided search over candidate signatures (attacker
// bytes, stack-built DER/BER structures around valid and fitted pairs, replaced
// integers, shifted context, invalid public keys) on the SM2 curve and the
// NIST curves; oracle = checkCand (verdict of every verification entry point
// == reference verdict).
func FuzzC06_Verify(f *testing.F) {
	const uidNone, uid16 = 1, 17 // fzUIDLen: value-1
	canon := []byte{0x01, 0x07, 0x02, 0x07, 0x08, 0x06}
	// the valid signature, built, for every base mode (SM2 curve)
	for m := byte(0); m < 6; m++ {
		var pair []byte
		if m == 2 || m == 3 {
			pair = append(lp(bi(1000)), lp(bi(77))...)
		}
		f.Add(fzHeader{mode: m, kind: 7, keySeed: 5, uid: uidNone, msgLen: 20, family: 1, seed: uint64(m) + 1}.bytes(pair, canon))
	}
	// ... and on the NIST curves: honest message, honest digest, fitted pair
	f.Add(fzHeader{mode: 0, curve: 4, kind: 7, keySeed: 9, uid: uid16, msgLen: 3, family: 1, seed: 7}.bytes(canon))
	f.Add(fzHeader{mode: 0, curve: 6, kind: 7, keySeed: 9, uid: uid16, msgLen: 3, family: 1, seed: 7}.bytes(canon))
	f.Add(fzHeader{mode: 3, curve: 5, kind: 4, keySeed: 9, family: 2, seed: 8}.bytes(lp(bi(128)), lp(bi(255))))
	f.Add(fzHeader{mode: 3, curve: 7, kind: 4, keySeed: 9, family: 2, seed: 8}.bytes(lp(bi(128)), lp(bi(255))))
	f.Add(fzHeader{mode: 1, curve: 7, kind: 2, dig: 5, family: 4, seed: 3}.bytes([]byte{0, 3, 0, 0x81}))
	// structural variations, built: long-form lengths, leading zero, trailing bytes inside / after, nested, wrong tags, indefinite
	for _, prog := range [][]byte{
		{0x01, 0x07, 0x02, 0x07, 0x08, 0x15, 0x30},                   // SEQUENCE length 0x81 L
		{0x01, 0x15, 0x02, 0x02, 0x07, 0x08, 0x06},                   // r length 0x81 L
		{0x01, 0x0a, 0x07, 0x02, 0x07, 0x08, 0x06},                   // r with a leading zero octet
		{0x01, 0x07, 0x02, 0x07, 0x08, 0x10, 0x05, 0x00, 0x08, 0x06}, // NULL inside the SEQUENCE
		{0x0c, 0x00, 0x00}, // one byte after the SEQUENCE
		{0x0c, 0x06},       // nested
		{0x01, 0x07, 0x02, 0x07, 0x08, 0x75, 0x30},             // indefinite length with end-of-contents
		{0x01, 0x05, 0x03, 0x02, 0x07, 0x08, 0x06},             // r as BIT STRING
		{0x03, 0x04, 0x08},                                     // raw r||s
		{0x13, 0x07, 0x02, 0x07, 0x08, 0x06},                   // fixed width with sign octet
		{0x31, 0x07, 0x02, 0x07, 0x08, 0x06},                   // n + r
		{0x01, 0x07, 0xc2, 0x00, 0x01, 0x01, 0x07, 0x08, 0x06}, // s + 2^256
		{0x0c, 0x0e},             // truncated
		{0x01, 0x07, 0x08, 0x06}, // one INTEGER
	} {
		f.Add(fzHeader{mode: 0, kind: 7, keySeed: 1, uid: uidNone, msgLen: 5, family: 1, seed: 11}.bytes(prog))
	}
	// attacker bytes as they are: empty, DER length edge cases, minimal structures
	for _, raw := range [][]byte{
		{}, {0x30, 0x80}, {0x30, 0x84, 0x7f, 0xff, 0xff, 0xff},
		{0x30, 0x06, 2, 1, 1, 2, 1, 1}, {0x30, 0x06, 2, 1, 0, 2, 1, 0}, {0x30, 0x06, 2, 1, 0xff, 2, 1, 1}, {0x30, 0x08, 2, 2, 0, 1, 2, 2, 0, 1},
	} {
		f.Add(fzHeader{mode: 1, kind: 0, family: 0, seed: 12}.bytes(raw))
	}
	// replaced integers, r and s each: 0, n, n + valid, 2^256-1, negative; n-1, valid + 2^256, 2n + valid
	for _, sel := range [][2]byte{{1, 0}, {0, 1}, {2, 0}, {0, 2}, {3, 0}, {0, 3}, {4, 0}, {0, 4}, {7, 0}, {0, 7}, {9, 0}, {13, 0}, {0, 15}} {
		f.Add(fzHeader{mode: 0, kind: 5, keySeed: 2, uid: uid16, msgLen: 64, family: 2, rSel: sel[0], sSel: sel[1], seed: 13}.bytes())
	}
	f.Add(fzHeader{mode: 0, kind: 7, uid: uidNone, family: 2, rSel: 12, seed: 14}.bytes([]byte{0, 1, 0x80})) // r + 0x80 * 2^256
	// fitted pairs at the edge of the range: r = 1; r = n-1, s = 2; r + n; s = 0
	f.Add(fzHeader{mode: 3, kind: 2, family: 2, preR: 7, seed: 15}.bytes(lp(bi(0)), lp(bi(12345))))
	f.Add(fzHeader{mode: 3, kind: 0, family: 2, preR: 6, seed: 15}.bytes(lp(bi(0)), lp(bi(2))))
	f.Add(fzHeader{mode: 3, kind: 7, family: 2, preR: 3, seed: 16}.bytes(lp(bi(200)), lp(bi(300))))
	f.Add(fzHeader{mode: 2, keySeed: 40, family: 2, preS: 4, seed: 17}.bytes(lp(bi(9)), lp(bi(0))))
	f.Add(fzHeader{mode: 2, keySeed: 41, dig: 4, family: 2, seed: 18}.bytes(lp(sub(bigN, bi(2))), lp(new(big.Int).Lsh(one, 255))))
	// context: other message, id of 8191 / 8192 bytes, default id spelled out, other key, digest bit flip
	f.Add(fzHeader{mode: 0, kind: 7, uid: uidNone, msgLen: 64, family: 3, ctx: 0, seed: 19}.bytes([]byte{0}))
	f.Add(fzHeader{mode: 0, kind: 7, uid: 8192, msgLen: 1, family: 3, ctx: 3, seed: 20}.bytes([]byte{1}))
	f.Add(fzHeader{mode: 0, kind: 7, uid: 0, msgLen: 1, family: 3, ctx: 3, seed: 21}.bytes([]byte{0}))
	f.Add(fzHeader{mode: 0, kind: 1, uid: uid16, msgLen: 1, family: 3, ctx: 4 | 0x10, seed: 22}.bytes([]byte{0}))
	f.Add(fzHeader{mode: 1, kind: 7, dig: 2, family: 3, ctx: 0, seed: 23}.bytes([]byte{0, 255, 0}))
	// invalid public keys
	for _, v := range []byte{0, 1, 2, 5, 6} {
		f.Add(fzHeader{mode: 6, keySeed: 3, family: 2, ctx: v, seed: 24}.bytes(lp(bi(5)), lp(bi(6)), ref.Bytes32(bigP), ref.Bytes32(sub(two256, one))))
	}
	// argument flavours: spare capacity everywhere + scribbling
	f.Add(fzHeader{mode: 0, kind: 7, uid: uid16, msgLen: 0, family: 1, args: 0x4444444444444444 | argScribble, seed: 25}.bytes(canon))
	f.Fuzz(func(t *testing.T, data []byte) {
		if len(data) > 1<<16 {
			t.Skip()
		}
		c, ok := decodeVerify(data)
		if !ok {
			return
		}
		fzRun(t, c, checkCand)
	})
}

// ---------------------------------------------------------------- FuzzC06_Sign

const fzSignHdr = 28

var fzDigestSigners = []int{4, 5, 6, 9}

// decodeSign: header
//
//	 0     case type (%3)   completeness / chosen pair (nonce and digest fitted so that the
//	                        signer must produce the pair read from the payload) / first stream
//	                        block and digest from the payload (redraw conditions)
//	 1     key class (%8)   2,3 key seed
//	 4     constructor (%4) 5 signing entry point (%10, or %4 over the digest signers)
//	 6,7   user id length class   8,9 message length (%2049)
//	10     digest length class
//	11     redraw path (%8)
//	12..19 argument discipline word   20..27 seed
func decodeSign(data []byte) (any, bool) {
	if len(data) < fzSignHdr {
		return nil, false
	}
	rd := &fzReader{b: data}
	typ := rd.byte() % 3
	kind := int(rd.byte() % 8)
	keySeed := uint64(rd.u16())
	ctor := int(rd.byte() % 4)
	sgn := int(rd.byte())
	uidLen := fzUIDLen(rd.u16())
	msgLen := rd.u16() % 2049
	digSel := rd.byte()
	path := int(rd.byte() % 8)
	args := fzArgs(rd.u64())
	seed := rd.u64()
	d := fzKey(nil, kind, keySeed)
	ext := gen.Fill(seed+4, fzDigestLens[digSel%8]-32)

	switch typ {
	case 0:
		c := complCase{KeyKind: kind, D: ref.Bytes32(d), Ctor: ctor, Signer: sgn % len(signers), UIDSeed: seed + 1,
			MsgLen: msgLen, MsgSeed: seed + 2, RandSeed: seed, Args: args}
		sg := signers[c.Signer]
		switch {
		case sg.defUID:
			c.UIDLen = 0 // these entry points take no id
		case !sg.msgMode && uidLen > maxUID:
			c.UIDLen = maxUID
		default:
			c.UIDLen = uidLen
		}
		if !sg.msgMode {
			c.DigLen = []int{0, 0, 32, 33, 40, 64, 65, 200}[digSel%8]
		}
		return c, true
	case 1:
		r := fzInRange(rd.bigInt(32), bigN)
		s := fzInRange(rd.bigInt(32), bigN)
		k := ref.SM2RecoverK(d, r, s)
		if k.Sign() == 0 {
			return nil, false
		}
		e := ref.Bytes32(modN(sub(r, ref.SM2.BaseMul(k).X)))
		return shapeCase{Shape: "fuzz", D: ref.Bytes32(d), K: ref.Bytes32(k), Digest: append(e, ext...), R: r.Text(16), S: s.Text(16),
			Signer: fzDigestSigners[sgn%4], Seed: seed}, true
	default:
		k1b := rd.padded(32)
		k1 := new(big.Int).SetBytes(k1b)
		name := []string{"r=0", "r+k=n", "s=0", "digest-from-input", "random-digest", "random-digest", "random-digest", "random-digest"}[path]
		dg := gen.Fill(seed+6, 32)
		if x := ref.SM2.BaseMul(modN(k1)); !x.Inf {
			switch path {
			case 0:
				dg = ref.Bytes32(modN(new(big.Int).Neg(x.X)))
			case 1:
				dg = ref.Bytes32(modN(sub(new(big.Int).Neg(k1), x.X)))
			case 2:
				rS0 := modN(new(big.Int).Mul(k1, new(big.Int).ModInverse(d, bigN)))
				dg = ref.Bytes32(modN(sub(rS0, x.X)))
			}
		}
		if path == 3 {
			dg = rd.padded(32)
		}
		return retryCase{D: ref.Bytes32(d), Path: name, K1: k1b, Digest: append(dg, ext...), Signer: fzDigestSigners[sgn%4], Seed: seed}, true
	}
}

func signSeed(typ, kind byte, keySeed uint16, ctor, sgn byte, uid, msgLen uint16, dig, path byte, args, seed uint64, payload ...[]byte) []byte {
	d := make([]byte, fzSignHdr)
	d[0], d[1], d[4], d[5], d[10], d[11] = typ, kind, ctor, sgn, dig, path
	binary.LittleEndian.PutUint16(d[2:], keySeed)
	binary.LittleEndian.PutUint16(d[6:], uid)
	binary.LittleEndian.PutUint16(d[8:], msgLen)
	binary.LittleEndian.PutUint64(d[12:], args)
	binary.LittleEndian.PutUint64(d[20:], seed)
	for _, p := range payload {
		d = append(d, p...)
	}
	return d
}

// FuzzC06_Sign: coverage-guided search over signing cases: every signing entry
// point x constructor x key / id / message / digest class, pairs (r, s) of any
// shape the signer is made to produce, and first nonce blocks with the digest
// fitted to the redraw conditions; oracle = checkComplete / checkShape /
// checkRetry (strict DER, reference verification equation, every verification
// entry point accepts).
func FuzzC06_Sign(f *testing.F) {
	for sgn := byte(0); sgn < 10; sgn++ {
		f.Add(signSeed(0, 7, uint16(sgn), sgn%4, sgn, 17, 10+uint16(sgn), sgn%8, 0, 0, uint64(sgn)+30))
	}
	f.Add(signSeed(0, 2, 0, 2, 0, 8192, 0, 0, 0, 0x1111111111111111, 41))             // d = n-2, id of 8191 bytes
	f.Add(signSeed(0, 0, 0, 3, 2, 8193, 64, 0, 0, 0, 42))                             // d = 1, id of 8192 bytes: refused
	f.Add(signSeed(0, 6, 255, 0, 2, 1, 55, 0, 0, 0x2222222222222222|argScribble, 43)) // d = 2^255, no id, buf[:0] flavours
	f.Add(signSeed(0, 7, 3, 1, 5, 0, 0, 7, 0, 0, 44))                                 // 200-byte digest
	for i, rs := range [][2]*big.Int{
		{new(big.Int).Lsh(one, 247), nonceFromSeed(1)}, {nonceFromSeed(2), sub(new(big.Int).Lsh(one, 248), one)},
		{sub(bigN, one), sub(bigN, one)}, {nonceFromSeed(3), nonceFromSeed(4)},
	} {
		f.Add(signSeed(1, 7, 7, 0, byte(i), 0, 0, byte(i), 0, 0, uint64(i)+50, lp(rs[0]), lp(rs[1])))
	}
	for p := byte(0); p < 5; p++ {
		f.Add(signSeed(2, 7, 8, 0, p, 0, 0, 0, p, 0, uint64(p)+60, ref.Bytes32(nonceFromSeed(uint64(p)+5)), ref.Bytes32(bigN)))
	}
	for i, k := range []*big.Int{bi(0), sub(bigN, one), sub(two256, one)} {
		f.Add(signSeed(2, 4, 9, 0, byte(i), 0, 0, 0, 4, 0, uint64(i)+70, ref.Bytes32(k)))
	}
	f.Fuzz(func(t *testing.T, data []byte) {
		if len(data) > 1<<12 {
			t.Skip()
		}
		c, ok := decodeSign(data)
		if !ok {
			return
		}
		switch c := c.(type) {
		case complCase:
			fzRun(t, c, checkComplete)
		case shapeCase:
			fzRun(t, c, checkShape)
		case retryCase:
			fzRun(t, c, checkRetry)
		}
	})
}

// ---------------------------------------------------------------- FuzzC06_History

const fzHistHdr = 8

var (
	fzHistUIDLens = []int{0, 0, 1, 16, 31, 32, 33, 63, 64, 65, 200, maxUID - 1, maxUID, 7, 2, 100}
	fzHistMsgLens = []int{0, 1, 32, 55, 56, 64, 100, 1000}
)

// decodeHistory: header
//
//	0    scalar class (%5)  raw bytes of 1..48 octets / n-1 + offset / a valid scalar (32 octets or
//	                        minimal) / a valid scalar + j*2^(8w) / the table of invalid scalars
//	1    constructor (%4)
//	2    class parameter    3,4 key seed   5 number of operations (1 + %8)   6,7 unused
//
// then the scalar's own bytes and 8 bytes per operation: op (%14), id class,
// message class, 2 bytes argument discipline (repeated over the word; the top
// bit of the second byte switches scribbling on), 3 bytes seed.
func decodeHistory(data []byte) (histCase, bool) {
	if len(data) < fzHistHdr {
		return histCase{}, false
	}
	rd := &fzReader{b: data}
	class := rd.byte() % 5
	c := histCase{Ctor: int(rd.byte() % 4)}
	par := rd.byte()
	keySeed := uint64(rd.u16())
	nOps := 1 + int(rd.byte()%8)
	rd.bytes(2)
	var d *big.Int
	switch class {
	case 0:
		raw := rd.padded(1 + int(par)%48)
		if new(big.Int).SetBytes(raw).Sign() == 0 {
			raw[len(raw)-1] = 1 // d = 0 is outside the statement
		}
		c.D = raw
	case 1:
		d = add(sub(bigN, one), rd.bigInt(8))
	case 2:
		d = fzKey(nil, int(par%8), keySeed)
		if par&0x80 == 0 {
			c.D = ref.Bytes32(d)
		}
	case 3:
		w := 32 + int(par%10)
		j := rd.bigInt(4)
		if j.Sign() == 0 {
			j = bi(1)
		}
		d = add(fzKey(nil, int(par>>4)%8, keySeed), j.Lsh(j, uint(8*w)))
	default:
		inv := invalidScalars()
		c.D = cp(inv[int(par)%len(inv)])
	}
	if c.D == nil {
		c.D = d.Bytes()
	}
	for i := 0; i < nOps; i++ {
		o := rd.padded(8)
		a := uint64(o[3]) | uint64(o[4]&0x7f)<<8
		var aw uint64
		if a != 0 {
			aw = a * 0x0001000100010001 &^ (argScribble | argFlavoured)
			aw |= argFlavoured
			if o[4]&0x80 != 0 {
				aw |= argScribble
			}
		}
		c.Ops = append(c.Ops, hop{
			Op:     int(o[0]) % opCount,
			UIDLen: fzHistUIDLens[int(o[1])%len(fzHistUIDLens)],
			MsgLen: fzHistMsgLens[int(o[2])%len(fzHistMsgLens)],
			Seed:   gen.Mix(uint64(o[5])|uint64(o[6])<<8|uint64(o[7])<<16, 0x6873),
			Args:   aw,
		})
	}
	return c, true
}

func histSeed(class, ctor, par byte, keySeed uint16, scalar []byte, ops ...[8]byte) []byte {
	d := make([]byte, fzHistHdr)
	d[0], d[1], d[2], d[5] = class, ctor, par, byte(len(ops)-1)
	binary.LittleEndian.PutUint16(d[3:], keySeed)
	d = append(d, scalar...)
	for _, o := range ops {
		d = append(d, o[:]...)
	}
	return d
}

// FuzzC06_History: the input is an operation list (the 10 signing entry
// points, signing with an id that is too long, signing without randomness,
// verify-last, verify-last-mutated) played on ONE key object built from a
// scalar of any width through any constructor; oracle = checkHistory (valid
// key: every signature valid and accepted, nothing handed out changes;
// scalar >= n-1: every call fails cleanly, never a panic).
func FuzzC06_History(f *testing.F) {
	op := func(o, uid, msg, a0, a1, s byte) [8]byte { return [8]byte{o, uid, msg, a0, a1, s, 0, 0} }
	three := [][8]byte{op(4, 0, 0, 0, 0, 1), op(2, 3, 2, 0x11, 0x11, 2), op(6, 0, 0, 0, 0, 3)}
	// valid keys: two different signers, verify, failing calls, the signers again
	f.Add(histSeed(2, 2, 7, 1, nil, op(0, 3, 2, 0, 0, 1), op(4, 0, 0, 0, 0, 2), op(12, 0, 0, 0, 0, 3), op(10, 1, 1, 0, 0, 4), op(11, 2, 1, 0, 0, 5), op(4, 0, 5, 0x44, 0xc4, 6), op(0, 3, 0, 0, 0, 7), op(13, 0, 0, 0, 0, 8)))
	f.Add(histSeed(2, 0, 2, 0, nil, op(7, 0, 3, 0, 0, 1), op(8, 0, 0, 0, 0, 2), op(3, 8, 4, 0x22, 0x22, 3), op(12, 0, 0, 0, 0, 4)))
	f.Add(histSeed(2, 3, 0x85, 9, nil, op(1, 12, 6, 0, 0, 1), op(5, 2, 0, 0, 0, 2), op(9, 0, 0, 0, 0, 3), op(13, 0, 0, 0, 0, 4)))
	f.Add(histSeed(2, 1, 0, 0, nil, op(2, 0, 0, 0, 0, 1), op(6, 0, 0, 0, 0, 2)))
	// scalars at and above n-1 (struct literal / FromECPrivateKey; the checking constructors must refuse)
	for i := byte(0); i < 10; i += 3 {
		f.Add(histSeed(4, 2+i%2, i, 0, nil, three...))
	}
	f.Add(histSeed(4, 0, 0, 0, nil, three...))
	f.Add(histSeed(4, 1, 5, 0, nil, three...))
	f.Add(histSeed(1, 3, 0, 0, []byte{1, 2}, three...))
	f.Add(histSeed(3, 2, 0x71, 4, []byte{1, 0x80}, three...))
	// raw scalars: all-0xff of 32 and 33 bytes, a short one
	f.Add(histSeed(0, 2, 31, 0, ref.Bytes32(sub(two256, one)), three...))
	f.Add(histSeed(0, 3, 32, 0, append([]byte{1}, make([]byte, 32)...), three...))
	f.Add(histSeed(0, 2, 1, 0, []byte{0, 5}, three...))
	f.Fuzz(func(t *testing.T, data []byte) {
		if len(data) > 1<<10 {
			t.Skip()
		}
		c, ok := decodeHistory(data)
		if !ok {
			return
		}
		fzRun(t, c, checkHistory)
	})
}
