package c06

// Keys on other curves than SM2's: sm2.SignASN1 / VerifyASN1 / Verify / ...
// accept *ecdsa keys on any elliptic.Curve and route everything but the SM2
// curve to the math/big code of sm2/sm2_legacy.go. The property statement
// quantifies over every public key and every verification entry point, so the
// same soundness and completeness oracles run for NIST P-224/256/384/521,
// against a generic model of GB/T 32918.2 over the curve's parameters.

import (
	"bytes"
	"crypto/ecdsa"
	"crypto/elliptic"
	"errors"
	"fmt"
	"math/big"
	"testing"

	"github.com/emmansun/gmsm/sm2"
	"verif/harness/gen"
	"verif/harness/h"
	"verif/harness/ref"
)

// gcurve is a short Weierstrass curve with a = -3 given by its published
// parameters (crypto/elliptic.CurveParams, data only), computed on with the
// affine textbook arithmetic of ref.Curve.
type gcurve struct {
	name      string
	ec        elliptic.Curve // the object handed to the library
	c         *ref.Curve
	byteLen   int // coordinate width (BitSize+7)/8
	orderBits int
}

func newGCurve(ec elliptic.Curve) *gcurve {
	p := ec.Params()
	a := new(big.Int).Sub(p.P, big.NewInt(3))
	return &gcurve{
		name: p.Name, ec: ec,
		c:         &ref.Curve{P: p.P, A: a, B: p.B, N: p.N, G: ref.Point{X: p.Gx, Y: p.Gy}},
		byteLen:   (p.BitSize + 7) / 8,
		orderBits: p.N.BitLen(),
	}
}

var legacyCurves = []*gcurve{newGCurve(elliptic.P224()), newGCurve(elliptic.P256()), newGCurve(elliptic.P384()), newGCurve(elliptic.P521())}

// sm2AsGeneric is the SM2 curve seen through the generic model; used by the
// self-test only, to tie the generic functions to the validated ref.SM2* ones.
var sm2AsGeneric = &gcurve{name: "sm2", c: ref.SM2, byteLen: 32, orderBits: 256}

func curveByName(name string) *gcurve {
	if name == "" {
		return nil
	}
	for _, g := range legacyCurves {
		if g.name == name {
			return g
		}
	}
	h.HarnessError("unknown curve %q in case", name)
	return nil
}

// legacySignSkipped: go1.23's crypto/elliptic P-256 scalar inversion is an
// unimplemented stub under -tags purego, so signing on NIST P-256 through
// sm2_legacy.go panics in that build (a toolchain matter); verification works.
func legacySignSkipped(g *gcurve) bool { return buildTag == "purego" && g.name == "P-256" }

func (g *gcurve) fixed(v *big.Int) []byte { return v.FillBytes(make([]byte, g.byteLen)) }

func (g *gcurve) modN(v *big.Int) *big.Int { return new(big.Int).Mod(v, g.c.N) }

func (g *gcurve) nonce(seed uint64) *big.Int {
	v := new(big.Int).SetBytes(gen.Fill(gen.Mix(seed, 0x6e6f6e), g.byteLen+8))
	v.Mod(v, sub(g.c.N, one))
	return v.Add(v, one)
}

func (g *gcurve) scalar(seed uint64) *big.Int {
	v := new(big.Int).SetBytes(gen.Fill(gen.Mix(seed, 0x6b6579), g.byteLen+8))
	v.Mod(v, sub(g.c.N, bi(2)))
	return v.Add(v, one)
}

// eOf converts a digest to the integer e: the left-most min(8*len, bits of n)
// bits (sm2.SignASN1: "If the hash is longer than the bit-length of the
// private key's curve order, the hash will be truncated to that length").
func (g *gcurve) eOf(hash []byte) *big.Int {
	e := new(big.Int).SetBytes(hash)
	if excess := 8*len(hash) - g.orderBits; excess > 0 {
		e.Rsh(e, uint(excess))
	}
	return e
}

// digestOf returns a digest of exactly the order's byte length whose eOf is e (e < 2^orderBits).
func (g *gcurve) digestOf(e *big.Int) []byte {
	l := (g.orderBits + 7) / 8
	v := new(big.Int).Lsh(e, uint(8*l-g.orderBits))
	return v.FillBytes(make([]byte, l))
}

// za = SM3(ENTL || ID || a || b || xG || yG || xA || yA), every field element byteLen wide.
func (g *gcurve) za(uid []byte, pub ref.Point) []byte {
	entl := len(uid) * 8
	in := []byte{byte(entl >> 8), byte(entl)}
	in = append(in, uid...)
	for _, v := range []*big.Int{g.c.A, g.c.B, g.c.G.X, g.c.G.Y, pub.X, pub.Y} {
		in = append(in, g.fixed(v)...)
	}
	d := ref.SM3(in)
	return d[:]
}

func (g *gcurve) digest(uid []byte, pub ref.Point, msg []byte) []byte {
	d := ref.SM3(append(g.za(uid, pub), msg...))
	return d[:]
}

// verifyRS: GB/T 32918.2 7.1 over this curve.
func (g *gcurve) verifyRS(pub ref.Point, e, r, s *big.Int) bool {
	c := g.c
	nm1 := sub(c.N, one)
	if r.Cmp(one) < 0 || r.Cmp(nm1) > 0 || s.Cmp(one) < 0 || s.Cmp(nm1) > 0 {
		return false
	}
	if pub.Inf || !c.OnCurve(pub) {
		return false
	}
	t := g.modN(add(r, s))
	if t.Sign() == 0 {
		return false
	}
	x1 := c.Add(c.BaseMul(s), c.Mul(t, pub))
	if x1.Inf {
		return false
	}
	return g.modN(add(e, x1.X)).Cmp(r) == 0
}

// signWithK: GB/T 32918.2 6.1 with a given nonce; ok = false: draw another.
func (g *gcurve) signWithK(d, e, k *big.Int) (r, s *big.Int, ok bool) {
	c := g.c
	x1 := c.BaseMul(k)
	if x1.Inf {
		return nil, nil, false
	}
	r = g.modN(add(e, x1.X))
	if r.Sign() == 0 || add(r, k).Cmp(c.N) == 0 {
		return nil, nil, false
	}
	inv := new(big.Int).ModInverse(g.modN(add(d, one)), c.N)
	s = g.modN(new(big.Int).Mul(sub(k, new(big.Int).Mul(r, d)), inv))
	if s.Sign() == 0 {
		return nil, nil, false
	}
	return r, s, true
}

func (g *gcurve) recoverK(d, r, s *big.Int) *big.Int {
	k := new(big.Int).Mul(add(d, one), s)
	return g.modN(k.Add(k, new(big.Int).Mul(r, d)))
}

// craft: the e for which x([s]G + [r+s]P) + e = r (mod n); see craftDigest.
func (g *gcurve) craft(pub ref.Point, r, s *big.Int) (*big.Int, bool) {
	c := g.c
	x1 := c.Add(c.BaseMul(g.modN(s)), c.Mul(g.modN(add(r, s)), pub))
	if x1.Inf {
		return nil, false
	}
	return g.modN(sub(r, x1.X)), true
}

func selfTestLegacyModel() error {
	// published parameters are consistent
	for _, g := range legacyCurves {
		if !g.c.OnCurve(g.c.G) || !g.c.BaseMul(g.c.N).Inf {
			return fmt.Errorf("c06: parameters of %s inconsistent", g.name)
		}
		if g.byteLen != map[string]int{"P-224": 28, "P-256": 32, "P-384": 48, "P-521": 66}[g.name] {
			return fmt.Errorf("c06: width of %s", g.name)
		}
	}
	// the generic functions agree with the validated SM2 reference on the SM2 curve
	g := sm2AsGeneric
	d := scalarFromSeed(3)
	pub := ref.SM2.BaseMul(d)
	uid, msg := []byte("ALICE123@YAHOO.COM"), []byte("message digest")
	if !bytes.Equal(g.za(uid, pub), ref.SM2ZA(uid, pub)) || !bytes.Equal(g.digest(uid, pub, msg), ref.SM2Digest(uid, pub, msg)) {
		return errors.New("c06: generic ZA/e differ from ref.SM2ZA/SM2Digest")
	}
	for i := uint64(0); i < 4; i++ {
		e := gen.Fill(i, 32)
		k := nonceFromSeed(i + 50)
		r, s, ok := ref.SM2SignWithK(d, e, k)
		r2, s2, ok2 := g.signWithK(d, g.eOf(e), k)
		if ok != ok2 || !ok || r.Cmp(r2) != 0 || s.Cmp(s2) != 0 {
			return errors.New("c06: generic signer differs from ref.SM2SignWithK")
		}
		if !g.verifyRS(pub, g.eOf(e), r, s) || g.verifyRS(pub, g.eOf(e), add(r, one), s) != ref.SM2VerifyRS(pub, e, add(r, one), s) {
			return errors.New("c06: generic verifier differs from ref.SM2VerifyRS")
		}
		if g.recoverK(d, r, s).Cmp(k) != 0 {
			return errors.New("c06: generic nonce recovery")
		}
	}
	// digest <-> e conversion on the one curve whose order is not a whole number of bytes
	p521 := legacyCurves[3]
	e := p521.nonce(9)
	if p521.eOf(p521.digestOf(e)).Cmp(e) != 0 || len(p521.digestOf(e)) != 66 {
		return errors.New("c06: P-521 digestOf/eOf")
	}
	if p521.eOf(append(p521.digestOf(e), 0xff, 0xff)).Cmp(new(big.Int).Rsh(new(big.Int).SetBytes(append(p521.digestOf(e), 0xff, 0xff)), 23)) != 0 {
		return errors.New("c06: P-521 eOf of a longer digest")
	}
	p224 := legacyCurves[0]
	if p224.eOf(bytes.Repeat([]byte{0xab}, 32)).Cmp(new(big.Int).SetBytes(bytes.Repeat([]byte{0xab}, 28))) != 0 {
		return errors.New("c06: P-224 eOf")
	}
	return nil
}

// ---------------------------------------------------------------- bases on legacy curves

func (g *gcurve) honestBase(d *big.Int, kSeed uint64, uidLen int, uidSeed uint64, msgLen int, msgSeed uint64) base {
	pub := g.c.BaseMul(d)
	e := g.digest(effUID(uidBytes(uidLen, uidSeed)), pub, msgBytes(msgLen, msgSeed))
	r, s := g.sign(d, g.eOf(e), kSeed)
	return base{G: g, D: d, Pub: pub, UIDLen: uidLen, UIDSeed: uidSeed, MsgLen: msgLen, MsgSeed: msgSeed, E: e, R: r, S: s}
}

func (g *gcurve) digestBase(d *big.Int, kSeed uint64, digest []byte) base {
	r, s := g.sign(d, g.eOf(digest), kSeed)
	return base{G: g, D: d, Pub: g.c.BaseMul(d), Digest: digest, E: digest, R: r, S: s}
}

func (g *gcurve) sign(d, e *big.Int, kSeed uint64) (r, s *big.Int) {
	k := g.nonce(kSeed)
	for {
		var ok bool
		if r, s, ok = g.signWithK(d, e, k); ok {
			return
		}
		k = add(g.modN(k), one)
	}
}

func (g *gcurve) craftedBase(pub ref.Point, r, s *big.Int) (base, bool) {
	e, ok := g.craft(pub, r, s)
	if !ok {
		return base{}, false
	}
	dg := g.digestOf(e)
	return base{G: g, Pub: pub, Digest: dg, E: dg, R: r, S: s}, true
}

// famLegacyCrafted: as famCrafted, over the base's curve.
func famLegacyCrafted(g *gcurve, pub ref.Point, d *big.Int, seed uint64, emit func(candCase)) {
	n := g.c.N
	mk := func(kind string, r, s *big.Int, accept bool) {
		b, ok := g.craftedBase(pub, r, s)
		if !ok {
			return
		}
		emit(b.cand(kind).withRS(r, s).expect(accept))
	}
	rr := func(i uint64) *big.Int { return g.nonce(gen.Mix(seed, i)) }
	nm1 := sub(n, one)
	mk("crafted-valid:r=1", bi(1), rr(1), true)
	mk("crafted-valid:s=1", rr(2), bi(1), true)
	mk("crafted-valid:r=n-1", nm1, rr(3), true)
	mk("crafted-valid:s=n-1", rr(4), nm1, true)
	mk("crafted-valid:r=128", bi(128), rr(6), true)
	mk("crafted-valid:s=255", rr(7), bi(255), true)
	short := new(big.Int).Rsh(rr(8), uint(g.orderBits/2))
	short.Add(short, one)
	mk("crafted-valid:r-short", short, rr(9), true)
	mk("crafted-valid:s-short", rr(10), short, true)
	mk("crafted:r+n", add(short, n), rr(11), false)
	mk("crafted:s+n", rr(12), add(short, n), false)
	mk("crafted:r=n", n, rr(17), false)
	mk("crafted:s=n", rr(18), n, false)
	mk("crafted:r=0", bi(0), rr(19), false)
	mk("crafted:s=0", rr(20), bi(0), false)
	s := rr(21)
	mk("crafted:t=0", sub(n, s), s, false)
	mk("crafted:t=0", bi(1), nm1, false)
	if d != nil {
		// [s]G + [t]P = infinity: s = -t*d. There is no x1; e = r would fit x1 = 0.
		t := rr(22)
		s := g.modN(new(big.Int).Neg(new(big.Int).Mul(t, d)))
		r := g.modN(sub(t, s))
		if r.Sign() > 0 && s.Sign() > 0 {
			dg := g.digestOf(r)
			b := base{G: g, Pub: pub, Digest: dg, E: dg, R: r, S: s}
			emit(b.cand("crafted:x1-is-infinity").withRS(r, s).expect(false))
		}
	}
}

// famLegacyBadPub: the valid signature (digest interfaces) under public keys
// that are not points of the curve: off the curve, coordinates out of range,
// (0,0), nil coordinates. All must be rejected, none may panic.
func famLegacyBadPub(b *base, emit func(candCase)) {
	g := b.G
	mk := func(kind string, x, y *big.Int, nilMask int) {
		c := b.cand(kind).withRS(b.R, b.S).expect(false)
		c.DigestMode, c.Digest = true, cp(b.E)
		if x.BitLen() > 8*g.byteLen || y.BitLen() > 8*g.byteLen {
			return
		}
		c.PubX, c.PubY, c.PubNil = g.fixed(x), g.fixed(y), nilMask
		emit(c)
	}
	x, y, p := b.Pub.X, b.Pub.Y, g.c.P
	mk("pub:y+1", x, add(y, one), 0)
	mk("pub:x+1", add(x, one), y, 0)
	mk("pub:swapped", y, x, 0)
	mk("pub:(0,0)", bi(0), bi(0), 0)
	mk("pub:(0,y)", bi(0), y, 0)
	mk("pub:x+p", add(x, p), y, 0) // fits the field width on P-521 only
	mk("pub:y+p", x, add(y, p), 0)
	mk("pub:x=p", p, y, 0)
	mk("pub:y=p", x, p, 0)
	mk("pub:x=2^w-1", sub(b.two(), one), y, 0)
	mk("pub:nil-x", x, y, 1)
	mk("pub:nil-y", x, y, 2)
	mk("pub:nil-both", x, y, 3)
}

// famLegacyCross: other key, message, id; digests with the same and with other left-most bits.
func famLegacyCross(b *base, seed uint64, emit func(candCase)) {
	g := b.G
	c := g.c
	for _, o := range []struct {
		name string
		p    ref.Point
	}{{"key:-P", c.Neg(b.Pub)}, {"key:P+G", c.Add(b.Pub, c.G)}, {"key:random", c.BaseMul(g.scalar(gen.Mix(seed, 77)))}} {
		if o.p.Inf || c.Equal(o.p, b.Pub) {
			continue
		}
		x := b.cand("other-"+o.name).withRS(b.R, b.S)
		x.PubX, x.PubY = g.fixed(o.p.X), g.fixed(o.p.Y)
		emit(x)
	}
	if b.msgMode() {
		x := b.cand("other-msg:len+1").withRS(b.R, b.S)
		x.MsgLen++
		emit(x.expect(false))
		x = b.cand("other-uid:len+1").withRS(b.R, b.S)
		x.UIDLen++
		emit(x.expect(false))
		if b.UIDLen == 0 {
			x = b.cand("same-uid:default-explicit").withRS(b.R, b.S)
			x.UIDLen = -1
			emit(x.expect(true))
		}
		x = b.cand("uid-too-long").withRS(b.R, b.S)
		x.UIDLen = maxUID + 1
		emit(x.expect(false))
		x = b.cand("digest-of-msg").withRS(b.R, b.S).expect(true)
		x.DigestMode, x.Digest = true, cp(b.E)
		emit(x)
	}
	dg := func(kind string, d []byte, exp int) {
		x := b.cand(kind).withRS(b.R, b.S)
		x.DigestMode, x.Digest, x.Expect = true, d, exp
		emit(x)
	}
	e := cp(b.E)
	flip := cp(e)
	flip[0] ^= 0x80
	dg("other-digest:bitflip", flip, 0)
	flip = cp(e)
	flip[len(flip)/2] ^= 0x01
	dg("other-digest:bitflip", flip, 0)
	// bits beyond the order's length do not count (documented truncation)
	if 8*len(e) > g.orderBits {
		same := cp(e)
		same[len(same)-1] ^= 0x01 // P-224: byte 32 of 28 significant; P-521: bit 528 of 521 significant
		dg("same-digest:insignificant-bit", same, 1)
	}
	long := append(cp(e), gen.Fill(seed, 2*g.byteLen)...)
	if 8*len(e) >= g.orderBits {
		dg("same-digest:extended", long, 1)
	} else {
		dg("other-digest:extended", long, 0) // a short digest extended: other left-most bits
	}
}

// ---------------------------------------------------------------- soundness on legacy curves

func TestC06_LegacySound(t *testing.T) {
	h.Sweep(t, h.P{Name: "legacy-sound"}, func(emit func(candCase)) {
		emit = withArgs(emit)
		rounds := h.Scale(1, 4)
		for round := 0; round < rounds; round++ {
			for ci, g := range legacyCurves {
				seed := gen.Mix(h.Seed, uint64(round), uint64(ci), 0x6c67)
				ds := []*big.Int{g.scalar(seed), bi(1), sub(g.c.N, bi(2)), bi(0x1234)}
				d := ds[(round+ci)%len(ds)]
				uidLen := []int{0, 16, 32, maxUID}[(round+ci)%4]
				// an honest message-mode signature and everything around it
				b := g.honestBase(d, seed, uidLen, seed+1, 40+ci, seed+2)
				famValid(&b, emit)
				famReenc(&b, emit)
				famInts(&b, emit)
				famLegacyCross(&b, seed, emit)
				famTrunc(&b, emit)
				famRandomRS(&b, seed, 6, emit)
				famSubstSparse(&b, seed, emit)
				// digests signed as such: SM3-sized, order-sized, longer
				for j, n := range []int{32, (g.orderBits + 7) / 8, g.byteLen + 17, 100} {
					if n < min(32, g.byteLen) {
						continue
					}
					db := g.digestBase(ds[(j+1)%len(ds)], seed+uint64(j), gen.Fill(seed+uint64(10+j), n))
					famValid(&db, emit)
					famLegacyCross(&db, seed+uint64(j), emit)
				}
				// fitted digests: special shapes, and exactly one check violated
				famLegacyCrafted(g, g.c.BaseMul(d), d, seed, emit)
				famLegacyBadPub(&b, emit)
			}
		}
	}, checkCand)
}

// famSubstSparse: two replacement values at every position (the full alphabet
// is exercised on the SM2 curve; the parser is shared).
func famSubstSparse(b *base, seed uint64, emit func(candCase)) {
	der := derSig(b.R, b.S)
	for i := range der {
		for _, v := range []byte{der[i] ^ byte(1<<(uint(i)%8)), byte(gen.Mix(seed, uint64(i)))} {
			if v == der[i] {
				continue
			}
			m := cp(der)
			m[i] = v
			emit(b.cand("subst-byte").withSig(m))
		}
	}
}

// ---------------------------------------------------------------- completeness on legacy curves

type legacyComplCase struct {
	Curve  string
	D      h.B
	Signer int
	UIDLen int
	MsgLen int
	DigLen int // digest signers: 0 = SM3(ZA || M); otherwise that many pseudo-random bytes
	Nonce  string
	K      h.B // first block of the random stream, already in the form the library's sampling keeps
	Seed   uint64
	Args   uint64
	Digest h.B // with Nonce: the digest fitted to the first stream block
}

func checkLegacyComplete(c legacyComplCase, rec *h.Rec) error {
	g := curveByName(c.Curve)
	sg := signers[c.Signer]
	rec.Label("curve:" + g.name)
	rec.Label("signer:" + sg.name)
	rec.NT()
	if legacySignSkipped(g) {
		rec.Label("skipped:P-256-signing-under-purego")
		return nil
	}
	d := new(big.Int).SetBytes(c.D)
	if d.Sign() <= 0 || d.Cmp(sub(g.c.N, one)) >= 0 {
		h.HarnessError("legacy completeness case with an invalid scalar")
	}
	pub := g.c.BaseMul(d)
	lp := &ecdsa.PublicKey{Curve: g.ec, X: cpi(pub.X), Y: cpi(pub.Y)}
	priv := &sm2.PrivateKey{PrivateKey: ecdsa.PrivateKey{PublicKey: *lp, D: cpi(d)}}
	args := newArgs(c.Args, rec)
	uid := uidBytes(c.UIDLen, c.Seed)
	msg := msgBytes(c.MsgLen, c.Seed)
	eMsg := g.digest(effUID(uid), pub, msg)
	if sg.msgMode {
		za, err := sm2.CalculateZA(lp, args.in("uid", uid))
		if aerr := args.done("CalculateZA"); aerr != nil {
			return aerr
		}
		if err != nil || !bytes.Equal(za, g.za(uid, pub)) {
			return fmt.Errorf("CalculateZA on %s (uid=%s) = %x, %v; GB/T 32918.2 5.5 with %d-byte field elements gives %x", g.name, h.Hex(uid), za, err, g.byteLen, g.za(uid, pub))
		}
	}
	var digest []byte
	switch {
	case sg.msgMode:
	case c.Nonce != "":
		digest = c.Digest
		rec.Label("nonce:" + c.Nonce)
	case c.DigLen == 0:
		digest = eMsg
	default:
		digest = gen.Fill(gen.Mix(c.Seed, 0x6469), c.DigLen)
		rec.Label("digest-len:%d", c.DigLen)
	}
	stream := append(cp(c.K), gen.Fill(gen.Mix(c.Seed, 0x7274), 16*g.byteLen)...)
	o := runSigner(c.Signer, randOf(stream), priv, uid, msg, digest, c.Seed, args)
	if o.argErr != nil {
		return o.argErr
	}
	ctx := fmt.Sprintf("curve=%s d=%x uid=%s msg=%s digest=%x first stream block=%x", g.name, []byte(c.D), h.Hex(uid), h.Hex(msg), digest, []byte(c.K))
	if o.err != nil {
		return fmt.Errorf("%s failed for a valid key: %v; %s", sg.name, o.err, ctx)
	}
	if err := o.normalise(sg); err != nil {
		return fmt.Errorf("%v; %s", err, ctx)
	}
	v := &vctx{pub: lp, args: args}
	if sg.msgMode || (c.DigLen == 0 && c.Nonce == "") {
		v.msgMode, v.uid, v.msg, v.e = true, uid, msg, eMsg
	} else {
		v.e = digest
	}
	if !g.verifyRS(pub, g.eOf(v.e), o.r, o.s) {
		return fmt.Errorf("signature from %s does not satisfy the GB/T 32918.2 verification equation over %s: sig=%x r=%s s=%s; %s", sg.name, g.name, o.sig, hexInt(o.r), hexInt(o.s), ctx)
	}
	if c.Nonce != "" {
		// which stream block became the nonce (evidence only)
		switch k := g.recoverK(d, o.r, o.s); {
		case k.Cmp(g.blockValue(stream)) == 0:
			rec.Label("nonce-used:first-block")
		case k.Cmp(g.blockValue(stream[len(c.K):])) == 0:
			rec.Label("nonce-used:second-block")
		default:
			rec.Label("nonce-used:other")
		}
	}
	for _, ep := range bytesEPs {
		if !ep.ok(v) {
			continue
		}
		got, err := ep.call(v, o.sig)
		if err != nil {
			return err
		}
		if !got {
			return fmt.Errorf("%s rejects the honest signature made by %s: sig=%x; %s", ep.name, sg.name, o.sig, ctx)
		}
	}
	for _, ep := range intsEPs {
		if !ep.ok(v) {
			continue
		}
		got, err := ep.call(v, o.r, o.s)
		if err != nil {
			return err
		}
		if !got {
			return fmt.Errorf("%s rejects the honest signature made by %s: r=%s s=%s; %s", ep.name, sg.name, hexInt(o.r), hexInt(o.s), ctx)
		}
	}
	return nil
}

// streamBlock renders a nonce as the bytes the library's sampling turns into
// it: byteLen bytes, of which the excess top bits are shifted out (P-521).
func (g *gcurve) streamBlock(k *big.Int) []byte {
	l := (g.orderBits + 7) / 8
	b := k.FillBytes(make([]byte, l))
	b[0] <<= uint(8*l - g.orderBits) // randFieldElement: b[0] >>= excess, the other bytes as they are
	return b
}

// blockValue is the integer the library's sampling makes of a stream block.
func (g *gcurve) blockValue(b []byte) *big.Int {
	l := (g.orderBits + 7) / 8
	c := cp(b[:l])
	c[0] >>= uint(8*l - g.orderBits)
	return new(big.Int).SetBytes(c)
}

func TestC06_LegacyComplete(t *testing.T) {
	h.Sweep(t, h.P{Name: "legacy-complete"}, func(emit func(legacyComplCase)) {
		legacySigners := []int{0, 1, 2, 3, 4, 5, 6, 7, 9} // all but the certificate signer (smx509 signs NIST keys with ECDSA)
		rounds := h.Scale(1, 5)
		n := uint64(0)
		for round := 0; round < rounds; round++ {
			for ci, g := range legacyCurves {
				seed := gen.Mix(h.Seed, uint64(round), uint64(ci), 0x6c63)
				hz := g.scalar(seed + 1)
				hz.Rsh(hz, 24)
				ds := []*big.Int{bi(1), bi(2), sub(g.c.N, bi(2)), sub(g.c.N, bi(3)), bi(0x1234), hz, g.scalar(seed + 2), g.scalar(seed + 3), new(big.Int).Lsh(one, uint(g.orderBits-2))}
				uids := []int{0, -1, 1, 16, 31, 32, 33, 64, maxUID}
				digLens := []int{0, 32, (g.orderBits + 7) / 8, g.byteLen + 1, 2 * g.byteLen, 200}
				for i, sgn := range legacySigners {
					for j := 0; j < 3; j++ {
						n++
						c := legacyComplCase{Curve: g.name, D: g.fixed(ds[(i+3*j+round)%len(ds)]), Signer: sgn,
							UIDLen: uids[(i+2*j+round)%len(uids)], MsgLen: []int{0, 1, 55, 64, 200}[(i+j)%5], Seed: gen.Mix(seed, n)}
						if signers[sgn].defUID {
							c.UIDLen = 0
						}
						if !signers[sgn].msgMode {
							c.DigLen = digLens[(i+j+round)%len(digLens)]
							if c.DigLen != 0 && c.DigLen < min(32, g.byteLen) {
								c.DigLen = 32
							}
						}
						if n%4 != 0 {
							c.Args = gen.Mix(seed, n, 0xa4) | argFlavoured
						}
						emit(c)
					}
				}
				// nonces the standard says must be redrawn, and extreme ones, through the digest signers
				d := ds[(round+ci)%len(ds)]
				k1 := g.nonce(seed + 4)
				x1 := g.c.BaseMul(k1).X
				rS0 := g.modN(new(big.Int).Mul(k1, new(big.Int).ModInverse(d, g.c.N)))
				for pi, p := range []struct {
					name string
					k, e *big.Int
				}{
					{"r=0", k1, g.modN(new(big.Int).Neg(x1))},
					{"r+k=n", k1, g.modN(sub(new(big.Int).Neg(k1), x1))},
					{"s=0", k1, g.modN(sub(rS0, x1))},
					{"k=0", bi(0), nil},
					{"k=n", g.c.N, nil},
					{"k=n-1", sub(g.c.N, one), nil},
					{"k=1", bi(1), nil},
				} {
					e := p.e
					if e == nil {
						e = g.nonce(seed + 5 + uint64(pi))
					}
					if p.e != nil {
						if _, _, ok := g.signWithK(d, e, p.k); ok {
							h.HarnessError("fitted digest for %s on %s does not force a redraw", p.name, g.name)
						}
					}
					n++
					c := legacyComplCase{Curve: g.name, D: g.fixed(d), Signer: []int{4, 5, 6, 9}[(pi+round)%4], Nonce: p.name,
						K: g.streamBlock(p.k), Digest: g.digestOf(e), Seed: gen.Mix(seed, n)}
					emit(c)
				}
			}
		}
	}, checkLegacyComplete)
}

// ---------------------------------------------------------------- invalid scalars on legacy curves

// legacyInvalidCase: three signing calls in a row on ONE key object whose
// scalar is outside [1, n-2], on a non-SM2 curve. Every call must return an
// error and no signature, must not panic, and must not sit in a loop eating
// randomness (for d = n-1 every nonce gives s = 0).
type legacyInvalidCase struct {
	Curve string
	D     string // signed hexadecimal
	Ops   []int  // signing entry points
	Seed  uint64
	Args  uint64
}

const legacyRandBudgetBlocks = 4 // blocks of randomness a refused signing call may have consumed

func checkLegacyInvalid(c legacyInvalidCase, rec *h.Rec) error {
	g := curveByName(c.Curve)
	rec.Label("curve:" + g.name)
	rec.NT()
	d, ok := new(big.Int).SetString(c.D, 16)
	if !ok {
		h.HarnessError("bad scalar %q", c.D)
	}
	n := g.c.N
	switch {
	case d.Sign() < 0:
		rec.Label("key-invalid:d<0")
	case d.Sign() == 0:
		rec.Label("key-invalid:d=0")
	case d.Cmp(sub(n, one)) == 0:
		rec.Label("key-invalid:d=n-1")
	case d.Cmp(n) == 0:
		rec.Label("key-invalid:d=n")
	case d.Cmp(sub(n, one)) > 0:
		rec.Label("key-invalid:d>n")
	default:
		h.HarnessError("valid scalar in an invalid-key case")
	}
	// memo of a pure function (several ms on P-521); no case depends on its content
	memoKey := g.name + "/" + c.D
	pubMemoMu.Lock()
	pub, hit := pubMemo[memoKey]
	pubMemoMu.Unlock()
	if !hit {
		pub = g.c.BaseMul(g.modN(d))
		if pub.Inf {
			pub = g.c.G
		}
		pubMemoMu.Lock()
		pubMemo[memoKey] = pub
		pubMemoMu.Unlock()
	}
	lp := &ecdsa.PublicKey{Curve: g.ec, X: cpi(pub.X), Y: cpi(pub.Y)}
	priv := &sm2.PrivateKey{PrivateKey: ecdsa.PrivateKey{PublicKey: *lp, D: cpi(d)}}
	blockLen := (g.orderBits + 7) / 8
	for i, id := range c.Ops {
		sg := signers[id]
		rec.Label("sign:" + sg.name)
		seed := gen.Mix(c.Seed, uint64(i))
		// a short finite source: if the library loops it runs dry quickly instead of hanging
		rd := randOf(gen.Fill(seed, 64*blockLen))
		args := newArgs(gen.Mix(c.Args, uint64(i))&^argScribble|c.Args&argScribble, rec)
		if c.Args == 0 {
			args = newArgs(0, rec)
		}
		uid := uidBytes([]int{0, 16, 1}[i%3], seed)
		msg := msgBytes([]int{3, 0, 70}[i%3], seed)
		var digest []byte
		if !sg.msgMode {
			digest = gen.Fill(seed+1, []int{32, blockLen, 100}[i%3])
		}
		o := runSigner(id, rd, priv, uid, msg, digest, seed, args)
		step := fmt.Sprintf("call %d/%d (%s) on one key object on %s with d=%s", i+1, len(c.Ops), sg.name, g.name, c.D)
		if rd.off > legacyRandBudgetBlocks*blockLen {
			return fmt.Errorf("%s: consumed %d bytes (%d blocks) of randomness before returning (err=%v): the call loops instead of refusing the scalar", step, rd.off, rd.off/blockLen, o.err)
		}
		if err := o.failedCleanly(sg); err != nil {
			return fmt.Errorf("%s: signing with a private scalar outside [1, n-2]: %v", step, err)
		}
	}
	return nil
}

func TestC06_LegacyInvalidKey(t *testing.T) {
	h.MarkExhaustive("legacy-invalid-key")
	h.Sweep(t, h.P{Name: "legacy-invalid-key"}, func(emit func(legacyInvalidCase)) {
		legacySigners := []int{0, 1, 2, 3, 4, 5, 6, 7, 9}
		k := uint64(0)
		for _, g := range legacyCurves {
			n := g.c.N
			ds := []*big.Int{bi(0), sub(n, one), n, add(n, one), add(n, bi(5)), add(n, n),
				new(big.Int).Lsh(one, uint(g.orderBits)), new(big.Int).Lsh(one, uint(8*g.byteLen+8)), new(big.Int).Lsh(one, 1000),
				add(new(big.Int).Lsh(one, uint(8*g.byteLen)), sub(n, one)), bi(-1), bi(-5), new(big.Int).Neg(n), new(big.Int).Neg(sub(n, bi(2)))}
			// far above n with a valid scalar in the low bytes
			for k, w := range wideValues(g.scalar(uint64(g.byteLen)), g.byteLen, 7) {
				if k%6 == 1 && w.v.Cmp(sub(n, one)) >= 0 { // (2^512 is a valid scalar on P-521)
					ds = append(ds, w.v)
				}
			}
			for _, d := range ds {
				// every signing entry point as the first call, each followed by two others
				for i, a := range legacySigners {
					k++
					c := legacyInvalidCase{Curve: g.name, D: d.Text(16), Seed: gen.Mix(h.Seed, k),
						Ops: []int{a, legacySigners[(i+int(k))%9], legacySigners[(i*2+3)%9]}}
					if k%4 != 0 {
						c.Args = gen.Mix(h.Seed, k, 0xa4) | argFlavoured
					}
					emit(c)
					// and the same entry point three times
					k++
					emit(legacyInvalidCase{Curve: g.name, D: d.Text(16), Seed: gen.Mix(h.Seed, k), Ops: []int{a, a, a}})
				}
			}
		}
	}, checkLegacyInvalid)
}
