//go:build !purego

package c06

const buildTag = "asm"
