package c06

import (
	"fmt"
	"math/big"
	"sync/atomic"
	"testing"

	"verif/harness/gen"
	"verif/harness/h"
	"verif/harness/ref"
)

// shapeCase makes the signer produce a signature whose r, s or both have a
// chosen shape (leading zero octets, values at the DER sign-octet boundary of
// every width). Honest signatures have such shapes with probability 2^-8L, so
// the class is constructed instead of sampled: for the wanted pair (r, s) and
// the key d the nonce is k = s(1+d) + r*d mod n, x1 = x([k]G) by the
// reference, and the digest is fitted as e = (r - x1) mod n. The scripted
// random stream starts with k.
type shapeCase struct {
	Shape  string
	D      h.B
	K      h.B // first 32 bytes of the stream
	Digest h.B
	R, S   string // the pair GB/T 32918.2 6.1 yields for (d, e, k), hexadecimal
	Signer int
	Seed   uint64
}

var shapeHits atomic.Int64

func zeroOctets(v *big.Int) int { return 32 - len(v.Bytes()) }

func checkShape(c shapeCase, rec *h.Rec) error {
	sg := signers[c.Signer]
	rec.Label("shape:" + c.Shape)
	rec.Label("signer:" + sg.name)
	d := new(big.Int).SetBytes(c.D)
	if !scalarValid(d) {
		h.HarnessError("shape case with an invalid scalar")
	}
	wantR, ok1 := new(big.Int).SetString(c.R, 16)
	wantS, ok2 := new(big.Int).SetString(c.S, 16)
	if !ok1 || !ok2 {
		h.HarnessError("shape case with bad integers")
	}
	rec.Label("r-leading-zero-octets:%d", zeroOctets(wantR))
	rec.Label("s-leading-zero-octets:%d", zeroOctets(wantS))
	rec.Label("der-int-lengths:%d/%d", len(intContent(wantR)), len(intContent(wantS)))
	pub := pubForScalar(d)
	priv, err := buildKey(2, c.D, pub)
	if err != nil {
		return err
	}
	stream := append(cp(c.K), gen.Fill(gen.Mix(c.Seed, 0x7368), 32*16)...)
	args := newArgs(gen.Mix(c.Seed, 0xa5)|argFlavoured, rec)
	o := runSigner(c.Signer, randOf(stream), priv, nil, nil, c.Digest, c.Seed, args)
	ctx := fmt.Sprintf("d=%x digest=%x first stream block=%x (GB/T 32918.2 6.1 gives r=%s s=%s for that nonce)", []byte(c.D), []byte(c.Digest), []byte(c.K), c.R, c.S)
	if o.err != nil {
		return fmt.Errorf("%s failed on a valid key: %v; %s", sg.name, o.err, ctx)
	}
	if err := o.normalise(sg); err != nil {
		return fmt.Errorf("%v; %s", err, ctx)
	}
	v := &vctx{pub: libPub(pub), e: c.Digest, args: args}
	if err := acceptEverywhere(sg.name, pub, v, &o); err != nil {
		return fmt.Errorf("%v; %s", err, ctx)
	}
	if o.r.Cmp(wantR) == 0 && o.s.Cmp(wantS) == 0 {
		// strict DER is unique, so the bytes are exactly derSig(wantR, wantS)
		rec.Label("shape-reached")
		rec.NT()
		shapeHits.Add(1)
	} else {
		// a valid signature from another nonce: allowed (the library does not
		// promise how it uses the stream), but the class was not reached
		rec.Label("shape-missed(other nonce)")
	}
	return nil
}

// shapeValues: integers below 2^248 covering 1, 2, 3, 8, 16, 31 leading zero
// octets with the top bit of the first non-zero octet set and clear, the
// boundary values of each width, small values and 2^k, 2^k - 1.
func shapeValues(seed uint64) []*big.Int {
	var out []*big.Int
	seen := map[string]bool{}
	add1 := func(v *big.Int) {
		if v.Sign() <= 0 || v.Cmp(bigN) >= 0 || seen[v.Text(16)] {
			return
		}
		seen[v.Text(16)] = true
		out = append(out, v)
	}
	pow := func(k uint) *big.Int { return new(big.Int).Lsh(one, k) }
	for _, l := range []int{1, 2, 3, 8, 16, 31} {
		w := 32 - l
		lo := gen.Fill(gen.Mix(seed, uint64(l), 1), w)
		lo[0] = lo[0]&0x7f | 0x01 // first octet 0x01..0x7f: no sign octet
		hi := gen.Fill(gen.Mix(seed, uint64(l), 2), w)
		hi[0] |= 0x80 // sign octet needed
		add1(new(big.Int).SetBytes(lo))
		add1(new(big.Int).SetBytes(hi))
		add1(pow(uint(8*w - 1)))           // 80 00 .. 00
		add1(sub(pow(uint(8*w-1)), one))   // 7f ff .. ff
		add1(sub(pow(uint(8*w)), one))     // ff ff .. ff
		add1(pow(uint(8 * (w - 1))))       // 01 00 .. 00
		add1(add(pow(uint(8*(w-1))), one)) // 01 00 .. 01
	}
	for _, v := range []int64{1, 2, 3, 0x7f, 0x80, 0x81, 0xff, 0x100, 0x101, 0x7fff, 0x8000, 0xffff, 0x10000} {
		add1(bi(v))
	}
	for _, k := range []uint{7, 8, 15, 16, 23, 24, 63, 64, 127, 128, 191, 192, 239, 240, 247} {
		add1(pow(k))
		add1(sub(pow(k), one))
	}
	return out
}

func TestC06_SignShape(t *testing.T) {
	h.Sweep(t, h.P{Name: "sign-shape"}, func(emit func(shapeCase)) {
		vals := shapeValues(h.Seed)
		ds := edgeScalars(gen.Mix(h.Seed, 0x5348))
		idx := 0
		pair := func(shape string, r, s *big.Int) {
			idx++
			d := ds[idx%len(ds)]
			k := ref.SM2RecoverK(d, r, s)
			if k.Sign() == 0 {
				return
			}
			x1 := ref.SM2.BaseMul(k).X
			e := ref.Bytes32(modN(sub(r, x1)))
			gr, gs, ok := ref.SM2SignWithK(d, e, k)
			if !ok {
				return // the standard would redraw (r + k = n): not a reachable pair for this key
			}
			if gr.Cmp(r) != 0 || gs.Cmp(s) != 0 {
				h.HarnessError("fitted digest does not yield the wanted pair: want (%x,%x) got (%x,%x)", r, s, gr, gs)
			}
			seed := gen.Mix(h.Seed, uint64(idx), 0x7061)
			for _, sgn := range []int{4, 5, 6, 9} {
				emit(shapeCase{Shape: shape, D: ref.Bytes32(d), K: ref.Bytes32(k), Digest: e, R: r.Text(16), S: s.Text(16), Signer: sgn, Seed: seed})
			}
		}
		for i, v := range vals {
			pair("r-chosen", v, nonceFromSeed(gen.Mix(h.Seed, uint64(i), 0x72)))
		}
		for i, v := range vals {
			pair("s-chosen", nonceFromSeed(gen.Mix(h.Seed, uint64(i), 0x73)), v)
		}
		for i, v := range vals {
			pair("both-chosen", v, vals[(i*7+3)%len(vals)])
		}
	}, checkShape)
	if h.Replay == "" && h.NShards == 1 && !t.Failed() && shapeHits.Load() == 0 {
		h.HarnessError("sign-shape: the library never used the first stream block as the nonce; the constructed class is not reached any more (adapt the scripted reader)")
	}
}
