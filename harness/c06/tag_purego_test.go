//go:build purego

package c06

const buildTag = "purego"
