package c06

import (
	"bytes"
	"fmt"
	"math/big"
	"strings"
	"sync"
	"testing"

	"pgregory.net/rapid"
	"verif/harness/gen"
	"verif/harness/h"
	"verif/harness/ref"
)

// candCase is one candidate signature offered to the verification entry
// points. It is self-contained: public key, what is verified (uid+message or a
// digest) and the candidate as bytes and/or as a pair of integers.
type candCase struct {
	Curve  string // "" = the SM2 curve; "P-224", "P-256", "P-384", "P-521" = keys the library routes to sm2_legacy.go
	Kind   string // candidate family (histogram label)
	Reenc  bool   // a re-encoding / structural variation of a pair (r,s) that is valid for (pub, e)
	Expect int    // generator's a-priori knowledge of the reference verdict: 0 none, 1 accept, 2 reject (a mismatch is a harness error)

	PubX, PubY h.B
	PubNil     int // 1: X is nil, 2: Y is nil, 3: both (non-SM2 curves, digest mode only)

	DigestMode bool
	Digest     h.B // digest mode: handed to the digest-based entry points as is
	UIDLen     int // message mode: -1 default id spelled out, 0 none, >0 that many bytes from UIDSeed
	UIDSeed    uint64
	MsgLen     int
	MsgSeed    uint64

	HasSig  bool
	Sig     h.B
	HasInts bool
	R, S    string // signed hexadecimal

	Args uint64 // argument discipline (nil / empty / buf[:0] flavours, spare capacity, scribbling), see argset
}

func (b *base) cand(kind string) candCase {
	c := candCase{Kind: kind, PubX: b.fixed(b.Pub.X), PubY: b.fixed(b.Pub.Y)}
	if b.G != nil {
		c.Curve = b.G.name
	}
	if b.msgMode() {
		c.UIDLen, c.UIDSeed, c.MsgLen, c.MsgSeed = b.UIDLen, b.UIDSeed, b.MsgLen, b.MsgSeed
	} else {
		c.DigestMode, c.Digest = true, cp(b.Digest)
	}
	return c
}

func (c candCase) withSig(sig []byte) candCase {
	c.HasSig, c.Sig = true, cp(sig)
	if c.Sig == nil {
		c.Sig = []byte{}
	}
	return c
}

func (c candCase) withInts(r, s *big.Int) candCase {
	c.HasInts, c.R, c.S = true, r.Text(16), s.Text(16)
	return c
}

// withRS offers the pair both as canonical DER and as integers.
func (c candCase) withRS(r, s *big.Int) candCase { return c.withSig(derSig(r, s)).withInts(r, s) }

func (c candCase) expect(accept bool) candCase {
	if accept {
		c.Expect = 1
	} else {
		c.Expect = 2
	}
	return c
}

func (c candCase) reenc() candCase { c.Reenc = true; return c }

// refVerdict memoises the reference verdict (a pure function of curve, public
// key, e, r, s - all of them in the key) across cases: the native fuzz targets
// offer the same pair in thousands of encodings, and the affine math/big
// arithmetic of the reference is what a case costs.
func refVerdict(key string, compute func() bool) bool {
	verdictMu.Lock()
	w, ok := verdictMemo[key]
	verdictMu.Unlock()
	if ok {
		return w
	}
	w = compute()
	verdictMu.Lock()
	if len(verdictMemo) < 8192 {
		verdictMemo[key] = w
	}
	verdictMu.Unlock()
	return w
}

var (
	verdictMu   sync.Mutex
	verdictMemo = map[string]bool{}
)

func checkCand(c candCase, rec *h.Rec) error {
	rec.Label(c.Kind)
	g := curveByName(c.Curve) // nil: the SM2 curve
	width, model := 32, ref.SM2
	if g != nil {
		rec.Label("curve:" + g.name)
		width, model = g.byteLen, g.c
	}
	if len(c.PubX) > width || len(c.PubY) > width {
		h.HarnessError("candidate public key coordinate longer than %d bytes", width)
	}
	pub := pointOf(c.PubX, c.PubY)
	pubOK := model.OnCurve(pub)
	if c.PubNil != 0 {
		pubOK = false
		if g == nil || !c.DigestMode {
			h.HarnessError("nil public key coordinate outside its domain (non-SM2 curve, digest mode)")
		}
	}
	if !pubOK {
		rec.Label("pub-invalid")
	}
	v := &vctx{pub: libPub(pub), args: newArgs(c.Args, rec)}
	if g != nil {
		v.pub.Curve = g.ec
	}
	if c.PubNil&1 != 0 {
		v.pub.X = nil
		rec.Label("pub-nil-coordinate")
	}
	if c.PubNil&2 != 0 {
		v.pub.Y = nil
		rec.Label("pub-nil-coordinate")
	}
	refused := false
	if c.DigestMode {
		if len(c.Digest) < min(32, width) {
			h.HarnessError("digest shorter than 32 bytes / the order generated (conversion to e is not documented)")
		}
		v.e = c.Digest
		if len(c.Digest) != 32 {
			rec.Label("digest-len!=32")
		}
	} else {
		if !pubOK {
			h.HarnessError("message-mode candidate with an invalid public key (CalculateSM2Hash documents a panic)")
		}
		v.msgMode = true
		v.uid = uidBytes(c.UIDLen, c.UIDSeed)
		v.msg = msgBytes(c.MsgLen, c.MsgSeed)
		if len(v.uid) > maxUID {
			refused = true // no ZA exists for such an id; the library documents an error
			rec.Label("uid>8191")
		} else {
			if g != nil {
				v.e = g.digest(effUID(v.uid), pub, v.msg)
			} else {
				v.e = ref.SM2Digest(effUID(v.uid), pub, v.msg)
			}
		}
	}
	var eInt []byte
	if v.e != nil {
		eInt = refE(v.e)
	}
	memo := map[string]bool{}
	want := func(r, s *big.Int) bool {
		if refused || c.PubNil != 0 {
			return false
		}
		k := r.Text(16) + "/" + s.Text(16)
		if w, ok := memo[k]; ok {
			return w
		}
		var w bool
		if g != nil {
			e := g.eOf(v.e)
			w = refVerdict(g.name+"|"+pub.X.Text(16)+"|"+pub.Y.Text(16)+"|"+e.Text(16)+"|"+k, func() bool { return g.verifyRS(pub, e, r, s) })
		} else {
			w = refVerdict("|"+pub.X.Text(16)+"|"+pub.Y.Text(16)+"|"+string(eInt)+"|"+k, func() bool { return ref.SM2VerifyRS(pub, eInt, r, s) })
		}
		memo[k] = w
		return w
	}
	where := func() string {
		if c.DigestMode {
			return fmt.Sprintf("pub=(%x,%x) digest=%x", c.PubX, c.PubY, c.Digest)
		}
		return fmt.Sprintf("pub=(%x,%x) uid=%s msg=%s e=%x", c.PubX, c.PubY, h.Hex(v.uid), h.Hex(v.msg), v.e)
	}
	verdictErr := func(ep string, got, w bool, what string) error {
		if got && !w {
			return fmt.Errorf("%s ACCEPTS a candidate the reference rejects: %s; %s", ep, what, where())
		}
		return fmt.Errorf("%s REJECTS a candidate the reference accepts: %s; %s", ep, what, where())
	}
	checkExpect := func(w bool) {
		if c.Expect == 1 && !w || c.Expect == 2 && w {
			h.HarnessError("generator expectation %d contradicts the reference verdict %v for %+v", c.Expect, w, c)
		}
	}

	if c.HasSig {
		r, s, perr := refParse(c.Sig)
		w := false
		if perr == nil {
			rec.Label("der-strict")
			w = want(r, s)
			rec.NTIf(!w)
		} else {
			rec.Label("der-rejected")
		}
		checkExpect(w)
		if w {
			rec.Label("ref-accept")
		} else {
			rec.Label("ref-reject")
		}
		rec.NTIf(c.Reenc)
		what := fmt.Sprintf("sig=%x", []byte(c.Sig))
		if perr != nil {
			what += fmt.Sprintf(" (not strict DER: %v)", perr)
		} else {
			what += fmt.Sprintf(" (r=%s s=%s)", hexInt(r), hexInt(s))
		}
		for _, ep := range bytesEPs {
			if !ep.ok(v) {
				continue
			}
			got, aerr := ep.call(v, c.Sig)
			if aerr != nil {
				return aerr
			}
			if got != w {
				return verdictErr(ep.name, got, w, what)
			}
		}
		if perr == nil {
			// the same pair through the integer interfaces
			for _, ep := range intsEPs {
				if !ep.ok(v) {
					continue
				}
				got, aerr := ep.call(v, r, s)
				if aerr != nil {
					return aerr
				}
				if got != w {
					return verdictErr(ep.name, got, w, what)
				}
			}
		}
	}
	if c.HasInts {
		r, ok1 := new(big.Int).SetString(c.R, 16)
		s, ok2 := new(big.Int).SetString(c.S, 16)
		if !ok1 || !ok2 {
			h.HarnessError("bad integers in case: %q %q", c.R, c.S)
		}
		w := want(r, s)
		checkExpect(w)
		rec.NTIf(!w)
		if w {
			rec.Label("ints-accept")
		} else {
			rec.Label("ints-reject")
		}
		what := fmt.Sprintf("r=%s s=%s", hexInt(r), hexInt(s))
		for _, ep := range intsEPs {
			if !ep.ok(v) {
				continue
			}
			got, aerr := ep.call(v, r, s)
			if aerr != nil {
				return aerr
			}
			if got != w {
				return verdictErr(ep.name, got, w, what)
			}
		}
	}
	return nil
}

// ---------------------------------------------------------------- candidate families

// substValues is the subset of replacement values used per position where the
// whole alphabet would be too expensive (TestC06_SubstExhaustive takes all 255).
func substValues(b byte) []byte {
	cands := []byte{b ^ 0x01, b ^ 0x80, b ^ 0xff, 0x00, 0xff, b + 1, b - 1, 0x02, 0x30, 0x80, 0x81, 0x7f, 0x20, 0x21}
	var out []byte
	seen := map[byte]bool{b: true}
	for _, v := range cands {
		if !seen[v] {
			seen[v] = true
			out = append(out, v)
		}
	}
	return out
}

// famValid: the signature itself.
func famValid(b *base, emit func(candCase)) {
	emit(b.cand("valid").withRS(b.R, b.S).expect(true))
}

// famTrunc: every proper prefix (and every proper suffix) of the DER encoding.
func famTrunc(b *base, emit func(candCase)) {
	der := derSig(b.R, b.S)
	for i := 0; i < len(der); i++ {
		emit(b.cand("truncated").withSig(der[:i]).reenc().expect(false))
	}
	for i := 1; i < len(der); i++ {
		emit(b.cand("truncated-front").withSig(der[i:]).reenc())
	}
}

func famSubst(b *base, all bool, emit func(candCase)) {
	der := derSig(b.R, b.S)
	for i := range der {
		if all {
			for v := 0; v < 256; v++ {
				if byte(v) == der[i] {
					continue
				}
				m := cp(der)
				m[i] = byte(v)
				emit(b.cand("subst-byte").withSig(m))
			}
			continue
		}
		for _, v := range substValues(der[i]) {
			m := cp(der)
			m[i] = v
			emit(b.cand("subst-byte").withSig(m))
		}
	}
}

// famReenc: DER/BER re-encodings and structural variations of the valid pair.
// None of them is the strict DER encoding, so all must be rejected.
func famReenc(b *base, emit func(candCase)) {
	rc, sc := intContent(b.R), intContent(b.S)
	ri, si := tlv(2, rc), tlv(2, sc)
	body := append(cp(ri), si...)
	good := tlv(0x30, body)
	e := func(kind string, sig []byte) {
		if bytes.Equal(sig, good) {
			return // the variation happens to coincide with the canonical encoding
		}
		emit(b.cand(kind).withSig(sig).reenc().expect(false))
	}
	cat := func(parts ...[]byte) []byte {
		var out []byte
		for _, p := range parts {
			out = append(out, p...)
		}
		return out
	}
	// long-form lengths
	for extra := 1; extra <= 4; extra++ {
		if extra <= 3 {
			e("len-longform-seq", tlvLong(0x30, body, extra))
		}
		e("len-longform-r", tlv(0x30, cat(tlvLong(2, rc, extra), si)))
		e("len-longform-s", tlv(0x30, cat(ri, tlvLong(2, sc, extra))))
	}
	e("len-longform-seq", cat([]byte{0x30, 0x84, 0, 0, 0, byte(len(body))}, body))
	e("len-longform-seq", cat([]byte{0x30, 0x85, 0, 0, 0, 0, byte(len(body))}, body))
	e("len-longform-all", tlvLong(0x30, cat(tlvLong(2, rc, 1), tlvLong(2, sc, 1)), 1))
	// leading zero octets
	for k := 1; k <= 2; k++ {
		z := make([]byte, k)
		e("int-leading-zero-r", tlv(0x30, cat(tlv(2, cat(z, rc)), si)))
		e("int-leading-zero-s", tlv(0x30, cat(ri, tlv(2, cat(z, sc)))))
	}
	e("int-leading-zero-both", tlv(0x30, cat(tlv(2, cat([]byte{0}, rc)), tlv(2, cat([]byte{0}, sc)))))
	// fixed-width 32/33-byte integers (what a naive encoder of r.FillBytes would emit)
	if fr := b.fixed(b.R); len(fr) != len(rc) {
		e("int-fixed-width", tlv(0x30, cat(tlv(2, fr), si)))
	}
	if fs := b.fixed(b.S); len(fs) != len(sc) {
		e("int-fixed-width", tlv(0x30, cat(ri, tlv(2, fs))))
	}
	e("int-fixed-width", tlv(0x30, cat(tlv(2, cat([]byte{0}, b.fixed(b.R))), tlv(2, cat([]byte{0}, b.fixed(b.S))))))
	// negative integers: sign octet dropped, two's complement of -r, 0xff padding
	if rc[0] == 0 && len(rc) > 1 {
		e("int-negative-unpadded-r", tlv(0x30, cat(tlv(2, rc[1:]), si)))
	}
	if sc[0] == 0 && len(sc) > 1 {
		e("int-negative-unpadded-s", tlv(0x30, cat(ri, tlv(2, sc[1:]))))
	}
	e("int-negative", derSig(new(big.Int).Neg(b.R), b.S))
	e("int-negative", derSig(b.R, new(big.Int).Neg(b.S)))
	e("int-negative", derSig(new(big.Int).Neg(b.R), new(big.Int).Neg(b.S)))
	e("int-negative", derSig(sub(b.R, b.two()), b.S)) // r - 2^w: same low bits
	e("int-negative", tlv(0x30, cat(tlv(2, cat([]byte{0xff}, rc)), si)))
	// trailing bytes inside the SEQUENCE
	for _, t := range [][]byte{{0}, {0, 0}, {2, 1, 0}, {5, 0}, {2, 0}, {0xff}} {
		e("trailing-inside", tlv(0x30, cat(body, t)))
	}
	e("trailing-inside", tlv(0x30, cat(body, si)))
	e("trailing-inside", tlv(0x30, cat(body, good)))
	// trailing bytes after the SEQUENCE
	for _, t := range [][]byte{{0}, {0, 0}, {5, 0}, {0x30, 0}, {0xff}, {2, 1, 1}} {
		e("trailing-after", cat(good, t))
	}
	e("trailing-after", cat(good, good))
	e("trailing-after", cat(good, make([]byte, 64)))
	// SEQUENCE length off by one in both directions (with and without the byte being there)
	e("seq-len-short", cat([]byte{0x30, byte(len(body) - 1)}, body))
	e("seq-len-long", cat([]byte{0x30, byte(len(body) + 1)}, body))
	e("seq-len-long", cat([]byte{0x30, byte(len(body) + 1)}, body, []byte{0}))
	e("int-len-short", tlv(0x30, cat([]byte{2, byte(len(rc) - 1)}, rc, si)))
	e("int-len-long", tlv(0x30, cat(ri, []byte{2, byte(len(sc) + 1)}, sc)))
	e("int-len-long", tlv(0x30, cat(ri, []byte{2, byte(len(sc) + 1)}, sc, []byte{0})))
	// indefinite length
	e("indefinite", cat([]byte{0x30, 0x80}, body, []byte{0, 0}))
	e("indefinite", cat([]byte{0x30, 0x80}, body))
	e("indefinite", tlv(0x30, cat([]byte{2, 0x80}, rc, []byte{0, 0}, si)))
	e("indefinite", tlv(0x30, cat([]byte{0x22, 0x80}, ri, []byte{0, 0}, si)))
	// wrong tags
	for _, t := range []byte{0x31, 0x10, 0x70, 0xb0, 0x24, 0x04, 0x02, 0x00, 0xff} {
		e("tag-seq", cat([]byte{t}, good[1:]))
	}
	e("tag-seq", cat([]byte{0x3f, 0x10}, good[1:])) // high-tag-number form of 16
	for _, t := range []byte{0x03, 0x04, 0x0a, 0x22, 0x82, 0x42, 0x01, 0x00, 0x05} {
		e("tag-int-r", tlv(0x30, cat([]byte{t}, ri[1:], si)))
		e("tag-int-s", tlv(0x30, cat(ri, []byte{t}, si[1:])))
	}
	e("tag-int-r", tlv(0x30, cat([]byte{0x1f, 0x02}, ri[1:], si)))
	// arity and nesting
	e("arity", tlv(0x30, ri))
	e("arity", tlv(0x30, cat(ri, si, si)))
	e("arity", tlv(0x30, nil))
	e("arity", ri)
	e("arity", cat(ri, si))
	e("arity", nil)
	e("nested", tlv(0x30, good))
	e("nested", tlv(0x30, cat(tlv(0x30, ri), tlv(0x30, si))))
	e("nested", tlv(0x30, cat(tlv(0x04, ri), tlv(0x04, si))))
	e("int-empty", tlv(0x30, cat([]byte{2, 0}, si)))
	e("int-empty", tlv(0x30, cat(ri, []byte{2, 0})))
	// the plain r||s format of GM/T 0009 is not an ASN.1 signature
	e("raw-rs", cat(b.fixed(b.R), b.fixed(b.S)))
	// r and s exchanged (a pair like any other; the reference decides)
	if b.R.Cmp(b.S) != 0 {
		emit(b.cand("swapped").withRS(b.S, b.R))
	}
}

// famInts: (r,s) with one or both components replaced by boundary values and
// by values congruent to the valid ones.
func famInts(b *base, emit func(candCase)) {
	r, s := b.R, b.S
	bigN, bigP, two256 := b.n(), b.p(), b.two() // of the curve the base lives on
	max := sub(two256, one)
	repl := func(name string, v *big.Int) {
		emit(b.cand("r:="+name).withRS(v, s))
		emit(b.cand("s:="+name).withRS(r, v))
	}
	repl("0", bi(0))
	repl("1", bi(1))
	repl("n", bigN)
	repl("n-1", sub(bigN, one))
	repl("n+1", add(bigN, one))
	repl("2^w-1", max)
	repl("2^w", two256)
	repl("p", bigP)
	emit(b.cand("r:=n+r").withRS(add(bigN, r), s).expect(false))
	emit(b.cand("s:=n+s").withRS(r, add(bigN, s)).expect(false))
	emit(b.cand("r:=n+r,s:=n+s").withRS(add(bigN, r), add(bigN, s)).expect(false))
	emit(b.cand("r:=2n+r").withRS(add(add(bigN, bigN), r), s).expect(false))
	emit(b.cand("r:=n-r").withRS(sub(bigN, r), s))
	emit(b.cand("s:=n-s").withRS(r, sub(bigN, s)))
	emit(b.cand("r:=n-r,s:=n-s").withRS(sub(bigN, r), sub(bigN, s)))
	emit(b.cand("r:=-r").withRS(new(big.Int).Neg(r), s).expect(false))
	emit(b.cand("s:=-s").withRS(r, new(big.Int).Neg(s)).expect(false))
	emit(b.cand("r:=r-n").withRS(sub(r, bigN), s).expect(false))
	emit(b.cand("r:=r+1").withRS(add(r, one), s))
	emit(b.cand("r:=r-1").withRS(sub(r, one), s))
	emit(b.cand("s:=s+1").withRS(r, add(s, one)))
	emit(b.cand("s:=s-1").withRS(r, sub(s, one)))
	emit(b.cand("r:=r*256").withRS(new(big.Int).Lsh(r, 8), s).expect(false))
	emit(b.cand("s:=s*256").withRS(r, new(big.Int).Lsh(s, 8)).expect(false))
	emit(b.cand("r:=r+2^w").withRS(add(r, two256), s).expect(false))
	emit(b.cand("s:=r").withRS(r, r))
	emit(b.cand("r:=s").withRS(s, s))
	emit(b.cand("both:=0").withRS(bi(0), bi(0)).expect(false))
	emit(b.cand("s:=n-r (t=0)").withRS(r, sub(bigN, r)).expect(false))
	emit(b.cand("huge").withRS(new(big.Int).Lsh(r, 1200), s).expect(false))
	// the whole width dimension: values whose low bytes are the valid r (resp. s)
	for _, w := range wideValues(r, b.width(), 1) {
		emit(b.cand("r:="+strings.Replace(w.name, "v", "r", 1)).withRS(w.v, s).expect(false))
	}
	for _, w := range wideValues(s, b.width(), 2) {
		emit(b.cand("s:="+strings.Replace(w.name, "v", "s", 1)).withRS(r, w.v).expect(false))
	}
	wr, ws := wideValues(r, b.width(), 3), wideValues(s, b.width(), 4)
	emit(b.cand("r,s:=wide").withRS(wr[5].v, ws[9].v).expect(false))
	// strict DER whose SEQUENCE / INTEGER length fields grow an octet: content of
	// 127/128, 255/256 and 65535/65536 bytes (short form -> 0x81 -> 0x82 -> 0x83)
	sLen := len(derInt(s))
	for _, total := range []int{127, 128, 255, 256, 65535, 65536} {
		// r = 0x01 followed by zero octets, sized so that the SEQUENCE content is exactly total bytes
		for rl := total - sLen - 4; rl <= total-sLen-2; rl++ {
			cand := new(big.Int).Lsh(one, uint(8*(rl-1)))
			if sig := derSig(cand, s); lenOfSeqContent(sig) == total {
				emit(b.cand(fmt.Sprintf("der-length-boundary:%d", total)).withSig(sig).expect(false))
			}
		}
	}
}

// lenOfSeqContent returns the content length of the outer TLV of a strict DER string.
func lenOfSeqContent(sig []byte) int {
	_, body, _, err := derTLV(sig)
	if err != nil {
		return -1
	}
	return len(body)
}

// famFlavours: zero-length arguments in their three forms (nil, []byte{},
// buf[:0] of a non-empty buffer), with and without scribbling: the empty
// signature, and the valid signature next to whatever of uid / msg is empty.
func famFlavours(b *base, emit func(candCase)) {
	for _, args := range []uint64{0x4444444444444444, 0x1111111111111111, 0x2222222222222222, 0x6666666666666666} {
		for _, scr := range []uint64{0, argScribble} {
			c := b.cand("empty-signature").withSig(nil).reenc().expect(false)
			c.Args = args | scr
			emit(c)
			c = b.cand("valid-with-arg-flavours").withRS(b.R, b.S).expect(true)
			c.Args = args | scr
			emit(c)
		}
	}
}

func famRandomRS(b *base, seed uint64, count int, emit func(candCase)) {
	for i := 0; i < count; i++ {
		r := b.nonce(gen.Mix(seed, uint64(i), 1))
		s := b.nonce(gen.Mix(seed, uint64(i), 2))
		switch i % 3 {
		case 0:
			emit(b.cand("random-rs").withRS(r, s))
		case 1:
			emit(b.cand("random-r").withRS(r, b.S))
		case 2:
			emit(b.cand("random-s").withRS(b.R, s))
		}
	}
}

// famCross: the valid signature against another key, message, id or digest.
func famCross(b *base, seed uint64, emit func(candCase)) {
	c := ref.SM2
	// other keys
	otherPubs := []struct {
		name string
		p    ref.Point
	}{
		{"key:-P", c.Neg(b.Pub)},
		{"key:P+G", c.Add(b.Pub, c.G)},
		{"key:2P", c.Add(b.Pub, b.Pub)},
		{"key:random", c.BaseMul(scalarFromSeed(gen.Mix(seed, 77)))},
		{"key:G", c.G},
	}
	for _, o := range otherPubs {
		if c.Equal(o.p, b.Pub) || o.p.Inf {
			continue
		}
		x := b.cand("other-"+o.name).withRS(b.R, b.S)
		x.PubX, x.PubY = ref.Bytes32(o.p.X), ref.Bytes32(o.p.Y)
		emit(x)
		if b.msgMode() {
			// same digest (computed under the signer's key), other verification key
			y := x
			y.DigestMode, y.Digest = true, cp(b.E)
			y.Kind = "other-" + o.name + "-same-digest"
			emit(y)
		}
	}
	if b.msgMode() {
		x := b.cand("other-msg:seed").withRS(b.R, b.S)
		x.MsgSeed++
		if b.MsgLen > 0 { // two empty messages are the same message
			emit(x.expect(false))
		}
		x = b.cand("other-msg:len+1").withRS(b.R, b.S)
		x.MsgLen++
		emit(x.expect(false))
		if b.MsgLen > 0 {
			x = b.cand("other-msg:len-1").withRS(b.R, b.S)
			x.MsgLen--
			emit(x.expect(false))
		}
		// ids
		x = b.cand("other-uid:len+1").withRS(b.R, b.S)
		if b.UIDLen >= 0 && b.UIDLen < maxUID {
			x.UIDLen++
			emit(x.expect(false))
		}
		if b.UIDLen > 1 {
			x = b.cand("other-uid:len-1").withRS(b.R, b.S)
			x.UIDLen--
			emit(x.expect(false))
			x = b.cand("other-uid:seed").withRS(b.R, b.S)
			x.UIDSeed++
			emit(x.expect(false))
		}
		switch {
		case b.UIDLen == 0:
			// none given == the default id spelled out
			x = b.cand("same-uid:default-explicit").withRS(b.R, b.S)
			x.UIDLen = -1
			emit(x.expect(true))
			x = b.cand("other-uid:16-random").withRS(b.R, b.S)
			x.UIDLen = 16
			emit(x.expect(false))
		case b.UIDLen == -1:
			x = b.cand("same-uid:default-implicit").withRS(b.R, b.S)
			x.UIDLen = 0
			emit(x.expect(true))
		default:
			x = b.cand("other-uid:none").withRS(b.R, b.S)
			x.UIDLen = 0
			emit(x.expect(false))
		}
		for _, l := range []int{maxUID + 1, maxUID + 2, 65536} {
			x = b.cand("uid-too-long").withRS(b.R, b.S)
			x.UIDLen = l
			emit(x.expect(false))
		}
		// the digest interfaces with the right digest ...
		x = b.cand("digest-of-msg").withRS(b.R, b.S).expect(true)
		x.DigestMode, x.Digest = true, cp(b.E)
		emit(x)
	}
	// ... and with related digests
	dg := func(kind string, d []byte, exp int) {
		x := b.cand(kind).withRS(b.R, b.S)
		x.DigestMode, x.Digest, x.Expect = true, d, exp
		emit(x)
	}
	e := refE(b.E)
	for _, bit := range []int{0, 7, 8, 127, 128, 248, 255} {
		d := cp(e)
		d[bit/8] ^= 0x80 >> (bit % 8)
		dg("other-digest:bitflip", d, 0)
	}
	ei := new(big.Int).SetBytes(e)
	if v := add(ei, one); v.Cmp(two256) < 0 {
		dg("other-digest:e+1", ref.Bytes32(v), 0)
	}
	if ei.Sign() > 0 {
		dg("other-digest:e-1", ref.Bytes32(sub(ei, one)), 0)
	}
	dg("other-digest:zero", make([]byte, 32), 0)
	if v := add(ei, bigN); v.Cmp(two256) < 0 {
		dg("same-digest:e+n", ref.Bytes32(v), 1) // congruent mod n: the same e
	}
	if ei.Cmp(bigN) >= 0 {
		dg("same-digest:e-n", ref.Bytes32(sub(ei, bigN)), 1)
	}
	// longer digests: only the left-most 32 bytes count (documented truncation)
	dg("same-digest:extended", append(cp(e), 0), 1)
	dg("same-digest:extended", append(cp(e), gen.Fill(seed, 32)...), 1)
	dg("other-digest:shifted", append([]byte{0}, e...), 0)
	dg("other-digest:rotated", append(cp(e[1:]), e[0], 0xaa), 0)
}

// famCrafted: pairs with a special shape, made valid (or "valid but for one
// check") for a digest computed to fit; digest mode only, any public key.
func famCrafted(pub ref.Point, seed uint64, emit func(candCase)) {
	mk := func(kind string, r, s *big.Int, accept bool) {
		b, ok := craftedBase(pub, r, s)
		if !ok {
			return
		}
		emit(b.cand(kind).withRS(r, s).expect(accept))
	}
	rr := func(i uint64) *big.Int { return nonceFromSeed(gen.Mix(seed, i)) }
	short := func(i uint64, bits uint) *big.Int {
		v := new(big.Int).Rsh(rr(i), 256-bits)
		return v.Add(v, one)
	}
	nm1 := sub(bigN, one)
	// valid pairs of unusual shape: the accept side of the boundary
	mk("crafted-valid:r=1", bi(1), rr(1), true)
	mk("crafted-valid:s=1", rr(2), bi(1), true)
	mk("crafted-valid:r=s=1", bi(1), bi(1), true)
	mk("crafted-valid:r=n-1", nm1, rr(3), true)
	mk("crafted-valid:s=n-1", rr(4), nm1, true)
	mk("crafted-valid:r=s=n-1", nm1, nm1, true)
	mk("crafted-valid:r=n-1,s=2", nm1, bi(2), true) // t = 1
	mk("crafted-valid:r=127", bi(127), rr(5), true)
	mk("crafted-valid:r=128", bi(128), rr(6), true) // one content octet plus a sign octet
	mk("crafted-valid:s=255", rr(7), bi(255), true)
	mk("crafted-valid:s=256", rr(8), bi(256), true)
	for _, bits := range []uint{8, 64, 128, 200, 224, 247, 248, 249, 255} {
		mk(fmt.Sprintf("crafted-valid:r<2^%d", bits), short(uint64(bits), bits), rr(9), true)
		mk(fmt.Sprintf("crafted-valid:s<2^%d", bits), rr(10), short(uint64(bits)+1000, bits), true)
	}
	// rejected only by the range checks: r or s congruent to a valid value
	small := short(20, 200)
	mk("crafted:r+n-fits-32-bytes", add(small, bigN), rr(11), false)
	mk("crafted:s+n-fits-32-bytes", rr(12), add(small, bigN), false)
	mk("crafted:r+n", add(rr(13), bigN), rr(14), false)
	mk("crafted:s+n", rr(15), add(rr(16), bigN), false)
	mk("crafted:r=n", bigN, rr(17), false) // r = 0 (mod n)
	mk("crafted:s=n", rr(18), bigN, false)
	// rejected only by r != 0, s != 0, t != 0
	mk("crafted:r=0", bi(0), rr(19), false)
	mk("crafted:s=0", rr(20), bi(0), false)
	s := rr(21)
	mk("crafted:t=0", sub(bigN, s), s, false)
	mk("crafted:t=0", bi(1), nm1, false)
	mk("crafted:t=0", nm1, bi(1), false)
	mk("crafted:t=n", add(sub(bigN, s), bigN), s, false)
}

// x1OverflowKey returns a public key P and scalars (s, t) such that
// [s]G + [t]P has an x coordinate in [n, p): the verification equation
// R = (e + x1) mod n then really reduces x1 (an event of probability 2^-128
// for honest signatures). P = [1/t](X - [s]G) for a chosen point X.
func x1OverflowKey(seed uint64) (P ref.Point, s, t *big.Int, X ref.Point) {
	c := ref.SM2
	for off := int64(seed % 1000); ; off++ {
		if p, ok := c.LiftX(add(bigN, bi(off)), uint(off&1)); ok {
			X = p
			break
		}
	}
	s, t = nonceFromSeed(gen.Mix(seed, 41)), nonceFromSeed(gen.Mix(seed, 42))
	tInv := new(big.Int).ModInverse(t, bigN)
	P = c.Mul(tInv, c.Add(X, c.Neg(c.BaseMul(s))))
	return
}

func famX1Overflow(seed uint64, emit func(candCase)) {
	P, s, t, X := x1OverflowKey(seed)
	r := modN(sub(t, s))
	if P.Inf || r.Sign() == 0 {
		return
	}
	b, ok := craftedBase(P, r, s)
	if !ok {
		return
	}
	emit(b.cand("crafted-valid:x1>=n").withRS(r, s).expect(true))
	// any other digest must fail, e.g. e + x1
	other := b
	other.Digest = ref.Bytes32(modN(add(new(big.Int).SetBytes(b.Digest), X.X)))
	other.E = other.Digest
	if !bytes.Equal(other.Digest, b.Digest) {
		emit(other.cand("crafted:x1>=n-wrong-digest").withRS(r, s).expect(false))
	}
}

// famInfinity: the holder of the private key can choose (r, s) so that
// [s]G + [t]P is the point at infinity (s = -t*d, r = t - s): there is no x1
// and the pair must be rejected whatever the digest - in particular for the
// digests e = r (mod n) that would fit "x1 = 0". Digest mode.
func famInfinity(d *big.Int, seed uint64, emit func(candCase)) {
	c := ref.SM2
	pub := c.BaseMul(d)
	for i := uint64(0); i < 2; i++ {
		t := nonceFromSeed(gen.Mix(seed, i, 0x696e66))
		s := modN(new(big.Int).Neg(new(big.Int).Mul(t, d)))
		r := modN(sub(t, s))
		if r.Sign() == 0 || s.Sign() == 0 {
			continue
		}
		if !c.Add(c.BaseMul(s), c.Mul(t, pub)).Inf {
			h.HarnessError("infinity construction does not give the point at infinity")
		}
		digests := [][]byte{ref.Bytes32(r), gen.Fill(gen.Mix(seed, i), 32), append(ref.Bytes32(r), 0x55)}
		if v := add(r, bigN); v.Cmp(two256) < 0 {
			digests = append(digests, ref.Bytes32(v))
		}
		for _, dg := range digests {
			b := base{D: d, Pub: pub, Digest: dg, E: dg, R: r, S: s}
			emit(b.cand("crafted:x1-is-infinity").withRS(r, s).expect(false))
		}
	}
}

// famBadPub: public keys that are not points of the curve, against a pair
// that is valid for the curve point they resemble. Digest mode only.
func famBadPub(seed uint64, emit func(candCase)) {
	c := ref.SM2
	pt := smallXPoint(int64(seed%1000) + 1)
	r, s := nonceFromSeed(gen.Mix(seed, 31)), nonceFromSeed(gen.Mix(seed, 32))
	b, ok := craftedBase(pt, r, s)
	if !ok {
		return
	}
	emit(b.cand("foreign-key-valid").withRS(r, s).expect(true))
	bad := func(kind string, x, y *big.Int) {
		k := b.cand(kind).withRS(r, s).expect(false)
		k.PubX, k.PubY = ref.Bytes32(x), ref.Bytes32(y)
		emit(k)
	}
	bad("pub:x+p", add(pt.X, bigP), pt.Y)
	bad("pub:y+1", pt.X, add(pt.Y, one))
	bad("pub:(0,0)", bi(0), bi(0))
	bad("pub:x=y", pt.X, pt.X)
	bad("pub:swapped", pt.Y, pt.X)
	// y + p fits only if y is small: take the negated point if that helps
	if y := pt.Y; add(y, bigP).Cmp(two256) < 0 {
		bad("pub:y+p", pt.X, add(y, bigP))
	} else if y := c.Neg(pt).Y; add(y, bigP).Cmp(two256) < 0 {
		nb, ok := craftedBase(c.Neg(pt), r, s)
		if ok {
			k := nb.cand("pub:y+p").withRS(r, s).expect(false)
			k.PubY = ref.Bytes32(add(y, bigP))
			emit(k)
		}
	}
}

// ---------------------------------------------------------------- bases

type baseSpec struct {
	d      *big.Int
	uidLen int
	msgLen int
}

func edgeScalars(seed uint64) []*big.Int {
	hz := scalarFromSeed(gen.Mix(seed, 5))
	hz.Rsh(hz, 16) // two leading zero octets
	return []*big.Int{
		bi(1), sub(bigN, bi(2)), scalarFromSeed(gen.Mix(seed, 6)), hz, bi(2),
		bi(0x1234), sub(bigN, bi(3)), new(big.Int).Lsh(one, 255), scalarFromSeed(gen.Mix(seed, 7)),
	}
}

// pickShape searches nonce seeds until r and s have the requested top bits
// (so that every combination of 32/33-octet INTEGERs occurs among the bases).
func pickShape(mk func(kSeed uint64) base, seed uint64, shape int) base {
	for i := uint64(0); ; i++ {
		b := mk(gen.Mix(seed, i))
		rHi := len(intContent(b.R)) == 33
		sHi := len(intContent(b.S)) == 33
		if rHi == (shape&1 != 0) && sHi == (shape&2 != 0) && len(b.R.Bytes()) == 32 && len(b.S.Bytes()) == 32 {
			return b
		}
	}
}

func honestBases(seed uint64, offset, count int) []base {
	ds := edgeScalars(seed)
	uidLens := []int{0, 16, maxUID, -1, 1, 63, 64, 65, 7}
	msgLens := []int{0, 64, 119, 2048, 1, 55, 56, 32, 300}
	var out []base
	for i := offset; i < offset+count; i++ {
		d, ul, ml := ds[i%len(ds)], uidLens[i%len(uidLens)], msgLens[i%len(msgLens)]
		s := gen.Mix(seed, uint64(i), 99)
		out = append(out, pickShape(func(k uint64) base { return honestBase(d, k, ul, s, ml, s+1) }, s, i%4))
	}
	return out
}

// withArgs gives three of four enumerated candidates a pseudo-random argument
// discipline word (half of those with scribbling); candidates that already
// carry one, and every fourth, are left alone.
func withArgs(emit func(candCase)) func(candCase) {
	i := uint64(0)
	return func(c candCase) {
		i++
		if c.Args == 0 && i%4 != 0 {
			c.Args = gen.Mix(h.Seed, i, 0xa4) | argFlavoured
		}
		emit(c)
	}
}

// ---------------------------------------------------------------- tests

// TestC06_Mutations: for a handful of honest signatures (all key classes, id
// classes, INTEGER shapes) every candidate family in full, except that
// single-byte substitutions use a subset of values per position.
func TestC06_Mutations(t *testing.T) {
	nb := h.Scale(4, 18)
	h.Sweep(t, h.P{Name: "mutations"}, func(emit func(candCase)) {
		emit = withArgs(emit)
		for i, b := range honestBases(h.Seed, 0, nb) {
			b := b
			s := gen.Mix(h.Seed, uint64(i), 1234)
			famValid(&b, emit)
			famFlavours(&b, emit)
			famReenc(&b, emit)
			famInts(&b, emit)
			famCross(&b, s, emit)
			famTrunc(&b, emit)
			famRandomRS(&b, s, 12, emit)
			famSubst(&b, false, emit)
		}
	}, checkCand)
}

// TestC06_Crafted: digest-mode material. Pairs of special shape made valid by
// a fitted digest (accept side), the same construction with exactly one of
// the range / non-zero checks violated (reject side), digests signed as such
// (32 bytes and longer), foreign and invalid public keys.
func TestC06_Crafted(t *testing.T) {
	rounds := h.Scale(2, 12)
	h.Sweep(t, h.P{Name: "crafted"}, func(emit func(candCase)) {
		emit = withArgs(emit)
		for i := 0; i < rounds; i++ {
			s := gen.Mix(h.Seed, uint64(i), 4321)
			ds := edgeScalars(s)
			d := ds[(i*5)%len(ds)]
			famCrafted(ref.SM2.BaseMul(d), s, emit)
			famInfinity(d, s, emit)
			famInfinity(ds[(i*5+1)%len(ds)], s+3, emit)
			famCrafted(smallXPoint(int64(s%5000)+2), s+1, emit)
			famBadPub(s, emit)
			famX1Overflow(s, emit)
			famX1Overflow(s+17, emit)
			// digests signed as such: random, small (so that e+n fits), >= n, and longer than 32 bytes
			small := gen.Fill(s, 32)
			copy(small, make([]byte, 5))
			big32 := ref.Bytes32(add(bigN, new(big.Int).SetBytes(gen.Fill(s+2, 8))))
			for j, dg := range [][]byte{gen.Fill(s+3, 32), small, big32, gen.Fill(s+4, 33), gen.Fill(s+5, 48), gen.Fill(s+6, 64), gen.Fill(s+7, 100), make([]byte, 32), ref.Bytes32(sub(two256, one))} {
				b := digestBase(ds[(i+j)%len(ds)], gen.Mix(s, uint64(j)), dg)
				famValid(&b, emit)
				famCross(&b, s+uint64(j), emit)
				if j%3 == 0 {
					famInts(&b, emit)
					famReenc(&b, emit)
				}
			}
		}
	}, checkCand)
}

// TestC06_SubstExhaustive: every single-byte substitution (all 255 other
// values at every position) and every truncation of the DER encoding of a
// valid signature.
func TestC06_SubstExhaustive(t *testing.T) {
	nb := h.Scale(1, 6)
	h.MarkExhaustive("subst-exhaustive")
	h.Sweep(t, h.P{Name: "subst-exhaustive"}, func(emit func(candCase)) {
		emit = withArgs(emit)
		for _, b := range honestBases(h.Seed+0x51, int(h.Seed%9), nb) {
			b := b
			famValid(&b, emit)
			famTrunc(&b, emit)
			famSubst(&b, true, emit)
		}
	}, checkCand)
}

// ---------------------------------------------------------------- random exploration

// randCase is what rapid draws; it is expanded deterministically into a
// candCase (recorded in the violation text) by expandRand.
type randCase struct {
	KeyKind int
	KeySeed uint64
	Mode    int // 0 message mode, 1 digest mode, 2 crafted digest under a foreign key, 3 crafted digest for a short r or s, 4 pair with [s]G+[t]P = infinity
	UIDLen  int
	MsgLen  int
	DigLen  int
	Seed    uint64
	Family  int
	Edits   []edit // byte-level edits for the structural families
	RSel    int
	SSel    int
	Args    uint64
}

type edit struct {
	Op  int // 0 substitute, 1 insert, 2 delete, 3 xor
	Pos int
	Val byte
}

func keyOfKind(kind int, seed uint64) *big.Int {
	switch kind {
	case 0:
		return bi(1)
	case 1:
		return bi(2)
	case 2:
		return sub(bigN, bi(2))
	case 3:
		return sub(bigN, bi(3))
	case 4: // small
		return bi(int64(3 + seed%65533))
	case 5: // leading zero octets
		v := scalarFromSeed(seed)
		return v.Rsh(v, uint(8*(1+seed%12)))
	case 6: // single bit
		return new(big.Int).Lsh(one, uint(seed%256))
	default:
		return scalarFromSeed(seed)
	}
}

var keyKindNames = []string{"d=1", "d=2", "d=n-2", "d=n-3", "d-small", "d-leading-zero-octets", "d-power-of-two", "d-uniform"}

// intChoices are the values r or s may be replaced with in the random family.
func intChoice(sel int, orig *big.Int, seed uint64) *big.Int {
	switch sel {
	case 0:
		return orig
	case 1:
		return bi(0)
	case 2:
		return bigN
	case 3:
		return add(bigN, orig)
	case 4:
		return sub(two256, one)
	case 5:
		return sub(bigN, orig)
	case 6:
		return nonceFromSeed(seed)
	case 7:
		return new(big.Int).Neg(orig)
	case 8:
		return new(big.Int).Xor(orig, new(big.Int).Lsh(one, uint(seed%256)))
	case 9:
		return sub(bigN, one)
	case 10:
		return bi(1)
	case 12, 13:
		// far above the range with the valid value in the low 32 bytes
		w := wideValues(orig, 32, seed)
		return w[int(seed>>8)%len(w)].v
	default:
		return new(big.Int).SetBytes(gen.Fill(seed, 32))
	}
}

func (rc randCase) expand() (candCase, bool) {
	d := keyOfKind(rc.KeyKind, rc.KeySeed)
	var b base
	switch rc.Mode {
	case 0:
		b = honestBase(d, rc.Seed, rc.UIDLen, rc.Seed+1, rc.MsgLen, rc.Seed+2)
	case 1:
		b = digestBase(d, rc.Seed, gen.Fill(rc.Seed+3, rc.DigLen))
	case 2:
		var ok bool
		b, ok = craftedBase(smallXPoint(int64(rc.KeySeed%100000)+1), nonceFromSeed(rc.Seed+4), nonceFromSeed(rc.Seed+5))
		if !ok {
			return candCase{}, false
		}
	case 4:
		// [s]G + [t]P = infinity (s = -t*d), digest fitted to "x1 = 0"; every family applies on top
		t := nonceFromSeed(rc.Seed + 9)
		s := modN(new(big.Int).Neg(new(big.Int).Mul(t, d)))
		r := modN(sub(t, s))
		if r.Sign() == 0 || s.Sign() == 0 {
			return candCase{}, false
		}
		dg := ref.Bytes32(r)
		b = base{D: d, Pub: ref.SM2.BaseMul(d), Digest: dg, E: dg, R: r, S: s}
	default:
		// a valid pair with a short r or s (so that n+r, n+s still fit into 32 bytes)
		bits := []uint{8, 64, 128, 200, 224}[rc.KeySeed%5]
		small := new(big.Int).Rsh(nonceFromSeed(rc.Seed+8), 256-bits)
		small.Add(small, one)
		r, s := small, nonceFromSeed(rc.Seed+5)
		if rc.KeySeed&8 != 0 {
			r, s = s, small
		}
		var ok bool
		b, ok = craftedBase(ref.SM2.BaseMul(d), r, s)
		if !ok {
			return candCase{}, false
		}
	}
	switch rc.Family {
	case 0: // byte edits of the valid encoding
		sig := derSig(b.R, b.S)
		for _, e := range rc.Edits {
			if len(sig) == 0 && e.Op != 1 {
				continue
			}
			switch e.Op {
			case 0:
				sig[e.Pos%len(sig)] = e.Val
			case 1:
				p := e.Pos % (len(sig) + 1)
				sig = append(sig[:p], append([]byte{e.Val}, sig[p:]...)...)
			case 2:
				p := e.Pos % len(sig)
				sig = append(sig[:p], sig[p+1:]...)
			case 3:
				sig[e.Pos%len(sig)] ^= e.Val | 1
			}
		}
		c := b.cand("random-edits").withSig(sig)
		c.Reenc = true
		return c, true
	case 1: // replaced integers
		r := intChoice(rc.RSel, b.R, rc.Seed+6)
		s := intChoice(rc.SSel, b.S, rc.Seed+7)
		return b.cand("random-int-replacement").withRS(r, s), true
	case 2: // replaced integers in a non-canonical encoding chosen by the edits
		r := intChoice(rc.RSel, b.R, rc.Seed+6)
		s := intChoice(rc.SSel, b.S, rc.Seed+7)
		rcn, scn := intContent(r), intContent(s)
		ex := [3]int{}
		pad := [2]int{}
		for i, e := range rc.Edits {
			switch e.Op {
			case 0, 1:
				ex[i%3] = int(e.Val % 4)
			default:
				pad[i%2] = int(e.Val % 3)
			}
		}
		rcn = append(make([]byte, pad[0]), rcn...)
		scn = append(make([]byte, pad[1]), scn...)
		sig := tlvLong(0x30, append(tlvLong(2, rcn, ex[1]), tlvLong(2, scn, ex[2])...), ex[0])
		c := b.cand("random-reencoding").withSig(sig)
		c.Reenc = r.Cmp(b.R) == 0 && s.Cmp(b.S) == 0 && (ex != [3]int{} || pad != [2]int{})
		return c, true
	default: // the untouched signature against shifted context
		c := b.cand("random-context").withRS(b.R, b.S)
		if b.msgMode() {
			switch rc.RSel % 4 {
			case 0:
				c.MsgSeed += uint64(rc.SSel)
			case 1:
				c.UIDSeed += uint64(rc.SSel)
			case 2:
				c.MsgLen += rc.SSel % 3
			default:
				if c.UIDLen >= 0 && c.UIDLen+rc.SSel%3 <= maxUID+1 {
					c.UIDLen += rc.SSel % 3
				}
			}
		} else {
			dg := cp(b.Digest)
			if rc.SSel > 0 {
				dg[(rc.SSel-1)%len(dg)] ^= byte(1 << (rc.RSel % 8))
			}
			c.Digest = dg
		}
		return c, true
	}
}

func TestC06_Random(t *testing.T) {
	h.Prop(t, h.P{Name: "random", Quick: 2000, Thorough: 30000}, func(rt *rapid.T) randCase {
		rc := randCase{
			KeyKind: rapid.IntRange(0, 7).Draw(rt, "keyKind"),
			KeySeed: rapid.Uint64().Draw(rt, "keySeed"),
			Mode:    rapid.SampledFrom([]int{0, 0, 0, 1, 1, 2, 3, 4}).Draw(rt, "mode"),
			UIDLen: rapid.OneOf(rapid.SampledFrom([]int{0, -1, 1, 16, 63, 64, 65, maxUID - 1, maxUID}),
				rapid.IntRange(0, 200), rapid.IntRange(0, maxUID)).Draw(rt, "uidLen"),
			MsgLen: gen.LenClass(2048, 64).Draw(rt, "msgLen"),
			DigLen: rapid.SampledFrom([]int{32, 32, 32, 33, 48, 64, 200}).Draw(rt, "digLen"),
			Seed:   rapid.Uint64().Draw(rt, "seed"),
			Family: rapid.SampledFrom([]int{0, 0, 0, 1, 1, 2, 2, 3}).Draw(rt, "family"),
			RSel:   rapid.IntRange(0, 13).Draw(rt, "rSel"),
			SSel:   rapid.IntRange(0, 13).Draw(rt, "sSel"),
		}
		rc.Args = drawArgs(rt)
		ne := rapid.IntRange(1, 3).Draw(rt, "nEdits")
		for i := 0; i < ne; i++ {
			rc.Edits = append(rc.Edits, edit{
				Op:  rapid.IntRange(0, 3).Draw(rt, "op"),
				Pos: rapid.IntRange(0, 80).Draw(rt, "pos"),
				Val: rapid.Byte().Draw(rt, "val"),
			})
		}
		return rc
	}, func(rc randCase, rec *h.Rec) error {
		c, ok := rc.expand()
		if !ok {
			rec.Label("skipped")
			return nil
		}
		c.Args = rc.Args
		rec.Label(keyKindNames[rc.KeyKind])
		rec.Label("mode-%d", rc.Mode)
		if err := checkCand(c, rec); err != nil {
			return fmt.Errorf("%v\nexpanded candidate: %+v", err, c)
		}
		return nil
	})
}
