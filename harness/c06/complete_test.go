package c06

import (
	"bytes"
	"crypto"
	"crypto/ecdsa"
	"errors"
	"fmt"
	"io"
	"math/big"
	"sync"
	"testing"

	"github.com/emmansun/gmsm/sm2"
	"pgregory.net/rapid"
	"verif/harness/gen"
	"verif/harness/h"
	"verif/harness/ref"
)

// ---------------------------------------------------------------- key objects

var ctorNames = []string{"NewPrivateKey", "NewPrivateKeyFromInt", "struct-literal", "FromECPrivateKey"}

// pubForScalar is the public point put next to a scalar in a directly built
// key object: [d mod n]G, or G where that is the point at infinity.
func pubForScalar(d *big.Int) ref.Point {
	key := d.Text(16)
	pubMemoMu.Lock()
	p, ok := pubMemo[key]
	pubMemoMu.Unlock()
	if ok {
		return p
	}
	p = ref.SM2.BaseMul(modN(d))
	if p.Inf {
		p = ref.SM2.G
	}
	pubMemoMu.Lock()
	if len(pubMemo) < 4096 {
		pubMemo[key] = p // memo of a pure function (1 ms each); no case depends on its content
	}
	pubMemoMu.Unlock()
	return p
}

var (
	pubMemoMu sync.Mutex
	pubMemo   = map[string]ref.Point{}
)

// buildKey makes a library key object for the scalar (big-endian bytes, any
// length) through one of the constructors. An error means the constructor
// refused the scalar.
func buildKey(ctor int, dBytes []byte, pub ref.Point) (*sm2.PrivateKey, error) {
	d := new(big.Int).SetBytes(dBytes)
	switch ctor {
	case 0:
		// the constructor must not keep a reference to the caller's bytes
		k := append(cp(dBytes), sentinel, sentinel)[:len(dBytes)]
		priv, err := sm2.NewPrivateKey(k)
		if k = k[:len(dBytes)+2]; k[len(dBytes)] != sentinel || k[len(dBytes)+1] != sentinel || !bytes.Equal(k[:len(dBytes)], dBytes) {
			return nil, fmt.Errorf("NewPrivateKey modified its argument or its spare capacity: %x", k)
		}
		scribble(k)
		return priv, err
	case 1:
		return sm2.NewPrivateKeyFromInt(d)
	case 2:
		return &sm2.PrivateKey{PrivateKey: ecdsa.PrivateKey{PublicKey: *libPub(pub), D: d}}, nil
	default:
		return new(sm2.PrivateKey).FromECPrivateKey(&ecdsa.PrivateKey{PublicKey: *libPub(pub), D: d})
	}
}

// ---------------------------------------------------------------- signing entry points

type signer struct {
	name    string
	msgMode bool // signs (uid, msg); otherwise a digest
	defUID  bool // the entry point fixes the default id
	ints    bool // returns (r, s) instead of DER
}

var signers = []signer{
	0: {"sm2.SignASN1(SM2SignerOption{gm})", true, false, false},
	1: {"PrivateKey.Sign(SM2SignerOption{gm})", true, false, false},
	2: {"PrivateKey.SignWithSM2", true, false, false},
	3: {"sm2.SignWithSM2 (legacy, r/s)", true, false, true},
	4: {"sm2.SignASN1(nil opts, digest)", false, false, false},
	5: {"PrivateKey.Sign(SM2SignerOption{no gm}, digest)", false, false, false},
	6: {"sm2.Sign (legacy, digest, r/s)", false, false, true},
	7: {"PrivateKey.Sign(DefaultSM2SignerOpts)", true, true, false},
	8: {"smx509.CreateCertificate", true, true, false},
	9: {"sm2.SignASN1(crypto.Hash opts, digest)", false, false, false},
}

type signOut struct {
	sig  []byte   // DER as returned by the library (bytes signers)
	r, s *big.Int // as returned (ints signers) or as strictly parsed from sig
	msg  []byte   // what was signed in message mode (differs from the input for the certificate signer)
	err  error
	// argErr: the call modified an argument or wrote into its spare capacity
	argErr error
}

// runSigner calls signing entry point id. uid/msg are used by message-mode
// signers, digest by the others.
func runSigner(id int, rnd io.Reader, priv *sm2.PrivateKey, uid, msg, digest []byte, seed uint64, a *argset) (o signOut) {
	o.msg = msg
	switch id {
	case 0:
		o.sig, o.err = sm2.SignASN1(rnd, priv, a.in("msg", msg), sm2.NewSM2SignerOption(true, a.in("uid", uid)))
	case 1:
		o.sig, o.err = priv.Sign(rnd, a.in("msg", msg), sm2.NewSM2SignerOption(true, a.in("uid", uid)))
	case 2:
		o.sig, o.err = priv.SignWithSM2(rnd, a.in("uid", uid), a.in("msg", msg))
	case 3:
		o.r, o.s, o.err = sm2.SignWithSM2(rnd, &priv.PrivateKey, a.in("uid", uid), a.in("msg", msg))
	case 4:
		o.sig, o.err = sm2.SignASN1(rnd, priv, a.in("hash", digest), nil)
	case 5:
		o.sig, o.err = priv.Sign(rnd, a.in("hash", digest), sm2.NewSM2SignerOption(false, a.in("uid", uid)))
	case 6:
		o.r, o.s, o.err = sm2.Sign(rnd, &priv.PrivateKey, a.in("hash", digest))
	case 7:
		o.sig, o.err = priv.Sign(rnd, a.in("msg", msg), sm2.DefaultSM2SignerOpts)
	case 8:
		o.msg, o.sig, o.err = certSign(rnd, priv, seed, a.scribbling())
	case 9:
		o.sig, o.err = sm2.SignASN1(rnd, priv, a.in("hash", digest), crypto.SHA256)
	default:
		h.HarnessError("no signer %d", id)
	}
	o.argErr = a.done(signers[id].name)
	if a.scribbling() {
		// what the library returned is the caller's to overwrite: keep copies,
		// scribble the originals; later calls must not be affected
		if o.sig != nil && id != 8 {
			ret := o.sig
			o.sig = cp(ret)
			scribble(ret)
		}
		if o.r != nil && o.s != nil {
			r, s := o.r, o.s
			o.r, o.s = cpi(r), cpi(s)
			r.SetUint64(0xdeadbeef)
			s.SetUint64(0xfeedface)
		}
	}
	return
}

// normalise checks the shape of a successful signer result and fills in both
// representations. The returned error is a violation.
func (o *signOut) normalise(sg signer) error {
	if o.argErr != nil {
		return o.argErr
	}
	if sg.ints {
		if o.r == nil || o.s == nil {
			return fmt.Errorf("%s returned no error but r=%v s=%v", sg.name, o.r, o.s)
		}
		o.sig = derSig(o.r, o.s)
		return nil
	}
	if o.sig == nil {
		return fmt.Errorf("%s returned neither a signature nor an error", sg.name)
	}
	r, s, err := refParse(o.sig)
	if err != nil {
		return fmt.Errorf("%s produced a signature that is not strict DER SEQUENCE{INTEGER,INTEGER}: %x (%v)", sg.name, o.sig, err)
	}
	o.r, o.s = r, s
	return nil
}

// failedCleanly checks the shape of a failed signer result.
func (o *signOut) failedCleanly(sg signer) error {
	if o.argErr != nil {
		return o.argErr
	}
	if o.err == nil {
		return fmt.Errorf("%s returned no error", sg.name)
	}
	if o.sig != nil || o.r != nil || o.s != nil {
		return fmt.Errorf("%s returned error %q together with a signature (sig=%x r=%v s=%v)", sg.name, o.err, o.sig, o.r, o.s)
	}
	return nil
}

// acceptEverywhere: the reference verification equation holds for (r,s) and
// every applicable library verification entry point accepts the signature.
func acceptEverywhere(sgName string, pub ref.Point, v *vctx, o *signOut) error {
	desc := func() string {
		return fmt.Sprintf("pub=(%x,%x) uid=%s msg=%s digest=%x sig=%x r=%s s=%s", ref.Bytes32(pub.X), ref.Bytes32(pub.Y), h.Hex(v.uid), h.Hex(v.msg), v.e, o.sig, hexInt(o.r), hexInt(o.s))
	}
	if !ref.SM2VerifyRS(pub, refE(v.e), o.r, o.s) {
		return fmt.Errorf("signature from %s does not satisfy the GB/T 32918.2 verification equation: %s", sgName, desc())
	}
	for _, ep := range bytesEPs {
		if !ep.ok(v) {
			continue
		}
		got, err := ep.call(v, o.sig)
		if err != nil {
			return err
		}
		if !got {
			return fmt.Errorf("%s rejects the honest signature made by %s: %s", ep.name, sgName, desc())
		}
	}
	for _, ep := range intsEPs {
		if !ep.ok(v) {
			continue
		}
		got, err := ep.call(v, o.r, o.s)
		if err != nil {
			return err
		}
		if !got {
			return fmt.Errorf("%s rejects the honest signature made by %s: %s", ep.name, sgName, desc())
		}
	}
	return nil
}

// ---------------------------------------------------------------- completeness

type complCase struct {
	KeyKind  int
	D        h.B // 32 bytes, in [1, n-2]
	Ctor     int
	Signer   int
	UIDLen   int
	UIDSeed  uint64
	MsgLen   int
	MsgSeed  uint64
	DigLen   int // digest signers: 0 = the SM2 digest of (uid, msg); >= 32 = that many pseudo-random bytes
	RandSeed uint64
	Args     uint64 // argument discipline, see argset
}

func checkComplete(c complCase, rec *h.Rec) error {
	sg := signers[c.Signer]
	rec.Label(keyKindNames[c.KeyKind])
	rec.Label("signer:" + sg.name)
	rec.Label("ctor:" + ctorNames[c.Ctor])
	d := new(big.Int).SetBytes(c.D)
	if len(c.D) != 32 || d.Sign() <= 0 || d.Cmp(sub(bigN, one)) >= 0 {
		h.HarnessError("completeness case with an invalid scalar %x", []byte(c.D))
	}
	pub := ref.SM2.BaseMul(d)
	priv, err := buildKey(c.Ctor, c.D, pub)
	if err != nil || priv == nil {
		return fmt.Errorf("%s refused the valid scalar %x: %v", ctorNames[c.Ctor], []byte(c.D), err)
	}
	if priv.X == nil || priv.Y == nil || priv.X.Cmp(pub.X) != 0 || priv.Y.Cmp(pub.Y) != 0 {
		return fmt.Errorf("%s(%x): public key (%s,%s) is not [d]G = (%s,%s)", ctorNames[c.Ctor], []byte(c.D), hexInt(priv.X), hexInt(priv.Y), hexInt(pub.X), hexInt(pub.Y))
	}
	uid := uidBytes(c.UIDLen, c.UIDSeed)
	msg := msgBytes(c.MsgLen, c.MsgSeed)
	switch {
	case len(uid) == 0:
		rec.Label("uid:none(default)")
	case c.UIDLen < 0:
		rec.Label("uid:default-explicit")
	case len(uid) > maxUID:
		rec.Label("uid:>8191")
	case len(uid) == maxUID:
		rec.Label("uid:8191")
	case len(uid) >= 31 && len(uid) <= 33:
		rec.Label("uid:31..33(ENTL 0x00f8/0x0100/0x0108)")
	case len(uid) >= 63 && len(uid) <= 65:
		rec.Label("uid:63..65")
	case len(uid) == 1:
		rec.Label("uid:1")
	case len(uid) == 16:
		rec.Label("uid:16")
	default:
		rec.Label("uid:other")
	}
	rec.NTIf(c.KeyKind != 7 || len(uid) != 0 || c.DigLen > 32)
	args := newArgs(c.Args, rec)

	// ---- ids the standard cannot express: every entry point must refuse
	if len(uid) > maxUID {
		if !sg.msgMode || sg.defUID {
			h.HarnessError("uid>8191 generated for signer %s", sg.name)
		}
		o := runSigner(c.Signer, newRand(c.RandSeed), priv, uid, msg, nil, c.RandSeed, args)
		if err := o.failedCleanly(sg); err != nil {
			return fmt.Errorf("user id of %d bytes (ENTL overflows 16 bits): %v", len(uid), err)
		}
		if za, err := sm2.CalculateZA(libPub(pub), cp(uid)); err == nil {
			return fmt.Errorf("CalculateZA accepted a user id of %d bytes: %x", len(uid), za)
		}
		return nil
	}

	// ---- ZA and e as the library computes them
	v := &vctx{pub: libPub(pub), args: args}
	eMsg := ref.SM2Digest(effUID(uid), pub, msg)
	if sg.msgMode || c.DigLen == 0 {
		za, err := sm2.CalculateZA(libPub(pub), args.in("uid", uid))
		if aerr := args.done("CalculateZA"); aerr != nil {
			return aerr
		}
		if err != nil || !bytes.Equal(za, ref.SM2ZA(uid, pub)) {
			return fmt.Errorf("CalculateZA(uid=%s) = %x, %v; GB/T 32918.2 5.5 gives %x", h.Hex(uid), za, err, ref.SM2ZA(uid, pub))
		}
		e, err := sm2.CalculateSM2Hash(libPub(pub), args.in("data", msg), args.in("uid", uid))
		if aerr := args.done("CalculateSM2Hash"); aerr != nil {
			return aerr
		}
		if err != nil || !bytes.Equal(e, eMsg) {
			return fmt.Errorf("CalculateSM2Hash(uid=%s, msg=%s) = %x, %v; reference e = %x", h.Hex(uid), h.Hex(msg), e, err, eMsg)
		}
	}
	var digest []byte
	if !sg.msgMode {
		if c.DigLen == 0 {
			digest = eMsg
		} else {
			if c.DigLen < 32 {
				h.HarnessError("digest shorter than 32 bytes")
			}
			digest = gen.Fill(gen.Mix(c.MsgSeed, 0x6469), c.DigLen)
			if c.DigLen == 32 {
				rec.Label("digest:random-32")
			} else {
				rec.Label("digest:random-longer")
			}
		}
	}

	o := runSigner(c.Signer, newRand(c.RandSeed), priv, uid, msg, digest, c.RandSeed, args)
	if o.argErr != nil {
		return o.argErr
	}
	if o.err != nil {
		return fmt.Errorf("%s failed for a valid key d=%x uid=%s msg=%s digest=%x: %v", sg.name, []byte(c.D), h.Hex(uid), h.Hex(msg), digest, o.err)
	}
	if err := o.normalise(sg); err != nil {
		return err
	}
	if sg.msgMode || c.DigLen == 0 {
		v.msgMode, v.uid, v.msg = true, uid, o.msg
		if c.Signer == 8 {
			v.e = ref.SM2Digest(ref.DefaultUID, pub, o.msg)
		} else {
			v.e = eMsg
		}
	} else {
		v.e = digest
	}
	return acceptEverywhere(sg.name, pub, v, &o)
}

func drawKey(rt *rapid.T) (kind int, d []byte) {
	kind = rapid.SampledFrom([]int{0, 1, 2, 3, 4, 5, 6, 7, 7, 7, 7}).Draw(rt, "keyKind")
	seed := rapid.Uint64().Draw(rt, "keySeed")
	return kind, ref.Bytes32(keyOfKind(kind, seed))
}

// drawArgs: a quarter of the cases plain, the rest with random flavours, half
// of those with scribbling.
func drawArgs(rt *rapid.T) uint64 {
	if rapid.IntRange(0, 3).Draw(rt, "plainArgs") == 0 {
		return 0
	}
	// rapid's integers lean towards small values: spread the drawn word over all nibbles
	a := gen.Mix(rapid.Uint64().Draw(rt, "args"), 0xa7)&^argScribble | argFlavoured
	if rapid.Bool().Draw(rt, "scribble") {
		a |= argScribble
	}
	return a
}

func drawUIDLen(rt *rapid.T, allowRefused bool) int {
	// 31/32/33: the ENTL bit count grows into its second octet (0x00f8 -> 0x0100)
	classes := []int{0, 0, -1, 1, 16, 31, 32, 33, 63, 64, 65, maxUID - 1, maxUID}
	if allowRefused {
		classes = append(classes, maxUID+1, maxUID+2, 16384, 65536)
	}
	return rapid.OneOf(rapid.SampledFrom(classes), rapid.IntRange(0, 130), rapid.IntRange(0, maxUID)).Draw(rt, "uidLen")
}

func TestC06_Complete(t *testing.T) {
	h.Prop(t, h.P{Name: "complete", Quick: 3000, Thorough: 30000}, func(rt *rapid.T) complCase {
		c := complCase{}
		var d []byte
		c.KeyKind, d = drawKey(rt)
		c.D = d
		c.Ctor = rapid.IntRange(0, 3).Draw(rt, "ctor")
		c.Signer = rapid.IntRange(0, len(signers)-1).Draw(rt, "signer")
		sg := signers[c.Signer]
		switch {
		case sg.defUID:
			c.UIDLen = rapid.SampledFrom([]int{0, 0, -1}).Draw(rt, "uidLen")
			if c.Signer == 7 || c.Signer == 8 {
				c.UIDLen = 0 // these entry points take no id at all
			}
		default:
			c.UIDLen = drawUIDLen(rt, sg.msgMode)
		}
		c.UIDSeed = rapid.Uint64().Draw(rt, "uidSeed")
		c.MsgLen = gen.LenClass(2048, 64).Draw(rt, "msgLen")
		c.MsgSeed = rapid.Uint64().Draw(rt, "msgSeed")
		if !sg.msgMode {
			c.DigLen = rapid.SampledFrom([]int{0, 0, 0, 32, 32, 33, 40, 64, 65, 200}).Draw(rt, "digLen")
		}
		c.RandSeed = rapid.Uint64().Draw(rt, "randSeed")
		c.Args = drawArgs(rt)
		return c
	}, checkComplete)
}

// ---------------------------------------------------------------- nonces that the standard says must be redrawn

// retryCase hands a digest signer a random stream whose first 32 bytes are a
// nonce for which GB/T 32918.2 6.1 demands another draw (r = 0, r + k = n,
// s = 0), or are not a nonce at all (0, >= n), or are an extreme nonce. The
// digest is fitted to the nonce. Whatever the library does with the stream,
// the signature it returns must be valid.
type retryCase struct {
	D      h.B
	Path   string
	K1     h.B // first 32 bytes of the stream
	Digest h.B
	Signer int
	Seed   uint64
}

func checkRetry(c retryCase, rec *h.Rec) error {
	sg := signers[c.Signer]
	rec.Label("nonce:" + c.Path)
	rec.Label("signer:" + sg.name)
	d := new(big.Int).SetBytes(c.D)
	pub := ref.SM2.BaseMul(d)
	priv, err := buildKey(2, c.D, pub)
	if err != nil {
		return err
	}
	rest := gen.Fill(gen.Mix(c.Seed, 0x7274), 32*16)
	stream := append(cp(c.K1), rest...)
	args := newArgs(gen.Mix(c.Seed, 0xa5)|argFlavoured, rec)
	o := runSigner(c.Signer, randOf(stream), priv, nil, nil, c.Digest, c.Seed, args)
	if o.err != nil {
		return fmt.Errorf("%s failed (nonce path %s, first stream block %x, digest %x, d=%x): %v", sg.name, c.Path, []byte(c.K1), []byte(c.Digest), []byte(c.D), o.err)
	}
	if err := o.normalise(sg); err != nil {
		return err
	}
	// which block of the stream became the nonce (evidence only)
	k := ref.SM2RecoverK(d, o.r, o.s)
	switch {
	case k.Cmp(new(big.Int).SetBytes(c.K1)) == 0:
		rec.Label("nonce-used:first-block")
	case k.Cmp(new(big.Int).SetBytes(rest[:32])) == 0:
		rec.Label("nonce-used:second-block")
		rec.NT()
	default:
		rec.Label("nonce-used:other")
	}
	v := &vctx{pub: libPub(pub), e: c.Digest, args: args}
	if err := acceptEverywhere(sg.name, pub, v, &o); err != nil {
		return fmt.Errorf("nonce path %s, first stream block %x: %v", c.Path, []byte(c.K1), err)
	}
	return nil
}

func TestC06_SignRetry(t *testing.T) {
	h.Sweep(t, h.P{Name: "sign-retry"}, func(emit func(retryCase)) {
		rounds := h.Scale(1, 6)
		for round := 0; round < rounds; round++ {
			for i, d := range edgeScalars(gen.Mix(h.Seed, uint64(round))) {
				seed := gen.Mix(h.Seed, uint64(round), uint64(i), 0x5252)
				k1 := nonceFromSeed(seed)
				x1 := ref.SM2.BaseMul(k1).X
				dInv := new(big.Int).ModInverse(d, bigN)
				rS0 := modN(new(big.Int).Mul(k1, dInv)) // r with k1 = r*d, i.e. s = 0
				paths := []struct {
					name   string
					k      *big.Int
					digest *big.Int
					redraw bool
				}{
					{"r=0", k1, modN(sub(bigN, x1)), true},
					{"r+k=n", k1, modN(sub(sub(bigN, k1), x1)), true},
					{"s=0", k1, modN(sub(rS0, x1)), true},
					{"k=0", bi(0), nil, false},
					{"k=n", bigN, nil, false},
					{"k=n+1", add(bigN, one), nil, false},
					{"k=2^256-1", sub(two256, one), nil, false},
					{"k=n-1", sub(bigN, one), nil, false},
					{"k=1", bi(1), nil, false},
					{"k=2", bi(2), nil, false},
				}
				for j, p := range paths {
					dg := gen.Fill(gen.Mix(seed, uint64(j)), 32)
					if p.digest != nil {
						dg = ref.Bytes32(p.digest)
					}
					if p.redraw {
						if _, _, ok := ref.SM2SignWithK(d, dg, p.k); ok {
							h.HarnessError("fitted digest for path %s does not force a redraw", p.name)
						}
					}
					for _, sgn := range []int{4, 5, 6, 9} {
						emit(retryCase{D: ref.Bytes32(d), Path: p.name, K1: ref.Bytes32(p.k), Digest: dg, Signer: sgn, Seed: seed})
					}
				}
			}
		}
	}, checkRetry)
}

var _ = errors.New
