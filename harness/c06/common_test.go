// C06 — SM2 signatures: honest ones verify; verification accepts exactly valid
// ones. See DESIGN.md section 4, C06.
//
// Trusted base: ref.SM3, ref.SM2 (affine textbook curve arithmetic, validated
// on the GB/T 32918.5 examples), the strict DER reader in der_test.go.
package c06

import (
	"bytes"
	"crypto/ecdsa"
	"crypto/x509/pkix"
	"encoding/asn1"
	"errors"
	"flag"
	"fmt"
	"io"
	"math/big"
	"os"
	"runtime/debug"
	"testing"
	"time"

	"github.com/emmansun/gmsm/sm2"
	"github.com/emmansun/gmsm/smx509"
	"verif/harness/gen"
	"verif/harness/h"
	"verif/harness/ref"
)

func TestMain(m *testing.M) {
	debug.SetGCPercent(400) // math/big garbage dominates; memory use stays small
	h.Observe("build", buildTag)
	h.Observe("GODEBUG", os.Getenv("GODEBUG"))
	// Native fuzzing only (no effect on any Test function): `go test -fuzz` hands
	// every input that reaches new coverage to a worker for minimisation, by
	// default for up to 60 s each - the whole budget of a target, during which the
	// worker runs no new inputs. The driver's command line does not set the flag;
	// bound the minimiser by executions instead (a flag given on the command line
	// still wins: flag.Parse runs later, inside m.Run).
	if f := flag.Lookup("test.fuzzminimizetime"); f != nil {
		f.Value.Set("50x")
	}
	h.Main(m, ref.SelfTestSM3, ref.SelfTestSM2, selfTestDER, selfTestModel, selfTestLegacyModel)
}

var (
	bigN   = ref.SM2N
	bigP   = ref.SM2P
	one    = big.NewInt(1)
	two256 = new(big.Int).Lsh(one, 256)
)

const maxUID = 8191 // ENTL is a 16-bit bit count: GB/T 32918.2 5.5; sm2.CalculateZA documents the refusal above it

func bi(v int64) *big.Int { return big.NewInt(v) }

func add(a, b *big.Int) *big.Int { return new(big.Int).Add(a, b) }
func sub(a, b *big.Int) *big.Int { return new(big.Int).Sub(a, b) }
func modN(a *big.Int) *big.Int   { return new(big.Int).Mod(a, bigN) }

// wideValues returns integers far above the range whose LOW `width` bytes are
// the valid in-range value v: v + j*2^(8w) for w = width .. width+8, 2*width,
// 4*width and j in {1, 0x80, 0xff, a random multi-byte value}. From w = width+1
// on the byte just above the low part is zero and the non-zero bytes sit
// further up, so a loader that only looks at the next byte, or at a fixed
// number of bytes, would silently truncate to v. Plus 2^k up to 2^1024 and
// all-0xff strings of width+1 .. 2*width+2 bytes.
func wideValues(v *big.Int, width int, seed uint64) []struct {
	name string
	v    *big.Int
} {
	var out []struct {
		name string
		v    *big.Int
	}
	put := func(name string, x *big.Int) {
		out = append(out, struct {
			name string
			v    *big.Int
		}{name, x})
	}
	ws := []int{}
	for w := width; w <= width+8; w++ {
		ws = append(ws, w)
	}
	ws = append(ws, 2*width, 4*width)
	for _, w := range ws {
		js := []*big.Int{bi(1), bi(0x80), bi(0xff), new(big.Int).SetBytes(gen.Fill(gen.Mix(seed, uint64(w)), 1+w%5))}
		for ji, j := range js {
			if j.Sign() == 0 {
				j = bi(3)
			}
			put(fmt.Sprintf("v+j*2^(8*(w+%d))", w-width), add(v, new(big.Int).Lsh(j, uint(8*w))))
			_ = ji
		}
	}
	for _, k := range []uint{uint(8*width + 8), uint(8*width + 9), 512, 521, 1023, 1024} {
		put("2^k", new(big.Int).Lsh(one, k))
		put("v+2^k", add(v, new(big.Int).Lsh(one, k)))
	}
	for _, l := range []int{width + 1, width + 2, 2 * width, 2*width + 2} {
		put("all-ff", sub(new(big.Int).Lsh(one, uint(8*l)), one))
	}
	return out
}

// ---------------------------------------------------------------- randomness for the library

// detReader is the deterministic random source handed to the library. Reads
// of exactly one byte (randutil.MaybeReadByte flips a coin on whether it makes
// one) are served from a constant and do not advance the stream, so the bytes
// the signing code samples its nonce from do not depend on that coin.
type detReader struct {
	stream []byte
	off    int
}

func (d *detReader) Read(p []byte) (int, error) {
	if len(p) == 1 {
		p[0] = 0x5a
		return 1, nil
	}
	if d.off >= len(d.stream) {
		return 0, io.EOF
	}
	n := copy(p, d.stream[d.off:])
	d.off += n
	return n, nil
}

func newRand(seed uint64) *detReader {
	return &detReader{stream: gen.Fill(gen.Mix(seed, 0x72616e64), 32*16)}
}

func randOf(stream []byte) *detReader { return &detReader{stream: stream} }

// ---------------------------------------------------------------- inputs

// uidBytes expands a user-id class: n > 0 pseudo-random bytes, 0 = none given
// (the library then documents the default id), -1 = the default id spelled out.
func uidBytes(n int, seed uint64) []byte {
	switch {
	case n < 0:
		return append([]byte{}, ref.DefaultUID...)
	case n == 0:
		return nil
	}
	return gen.Fill(gen.Mix(seed, 0x756964), n)
}

// effUID is the id that enters ZA: the documented default when none is given.
func effUID(uid []byte) []byte {
	if len(uid) == 0 {
		return ref.DefaultUID
	}
	return uid
}

func msgBytes(n int, seed uint64) []byte { return gen.Fill(gen.Mix(seed, 0x6d7367), n) }

// refE is the documented conversion of a digest to the integer e for a
// 256-bit order: the left-most 32 bytes (sm2.SignASN1: "If the hash is longer
// than the bit-length of the private key's curve order, the hash will be
// truncated to that length"). Shorter digests are not generated.
func refE(hash []byte) []byte {
	if len(hash) > 32 {
		return hash[:32]
	}
	return hash
}

func pointOf(x, y []byte) ref.Point {
	return ref.Point{X: new(big.Int).SetBytes(x), Y: new(big.Int).SetBytes(y)}
}

func libPub(p ref.Point) *ecdsa.PublicKey {
	return &ecdsa.PublicKey{Curve: sm2.P256(), X: new(big.Int).Set(p.X), Y: new(big.Int).Set(p.Y)}
}

func cp(b []byte) []byte {
	if b == nil {
		return nil
	}
	return append([]byte{}, b...)
}

func cpi(v *big.Int) *big.Int { return new(big.Int).Set(v) }

// scalarFromSeed returns a uniform-looking scalar in [1, n-2].
func scalarFromSeed(seed uint64) *big.Int {
	v := new(big.Int).SetBytes(gen.Fill(gen.Mix(seed, 0x6b6579), 40))
	v.Mod(v, sub(bigN, bi(2)))
	return v.Add(v, one)
}

// nonceFromSeed returns a nonce in [1, n-1].
func nonceFromSeed(seed uint64) *big.Int {
	v := new(big.Int).SetBytes(gen.Fill(gen.Mix(seed, 0x6e6f6e), 40))
	v.Mod(v, sub(bigN, one))
	return v.Add(v, one)
}

// ---------------------------------------------------------------- verification entry points

// vctx is what a verification entry point may look at.
type vctx struct {
	pub     *ecdsa.PublicKey
	msgMode bool   // uid/msg are meaningful (otherwise only the digest is)
	uid     []byte // as passed to the library (nil = not given)
	msg     []byte
	e       []byte // the digest handed to digest-based entry points (nil if the uid is refused)
	args    *argset
}

func (v *vctx) in(name string, b []byte) []byte { return v.args.in(name, b) }

type bytesEP struct {
	name string
	ok   func(v *vctx) bool
	f    func(v *vctx, sig []byte) bool
}

type intsEP struct {
	name string
	ok   func(v *vctx) bool
	f    func(v *vctx, r, s *big.Int) bool
}

func isDefaultUID(uid []byte) bool { return len(uid) == 0 || string(uid) == string(ref.DefaultUID) }

var bytesEPs = []bytesEP{
	{"VerifyASN1", func(v *vctx) bool { return v.e != nil },
		func(v *vctx, sig []byte) bool { return sm2.VerifyASN1(v.pub, v.in("hash", v.e), v.in("sig", sig)) }},
	{"VerifyASN1WithSM2", func(v *vctx) bool { return v.msgMode },
		func(v *vctx, sig []byte) bool {
			return sm2.VerifyASN1WithSM2(v.pub, v.in("uid", v.uid), v.in("msg", v.msg), v.in("sig", sig))
		}},
	{"smx509.CheckSignature", func(v *vctx) bool { return v.msgMode && isDefaultUID(v.uid) },
		func(v *vctx, sig []byte) bool {
			c := &smx509.Certificate{PublicKey: v.pub}
			return c.CheckSignature(smx509.SM2WithSM3, v.in("signed", v.msg), v.in("signature", sig)) == nil
		}},
	{"smx509.CheckSignatureWithDigest", func(v *vctx) bool { return v.e != nil && len(v.e) == 32 },
		func(v *vctx, sig []byte) bool {
			c := &smx509.Certificate{PublicKey: v.pub}
			return c.CheckSignatureWithDigest(smx509.SM2WithSM3, v.in("digest", v.e), v.in("signature", sig)) == nil
		}},
}

var intsEPs = []intsEP{
	{"Verify", func(v *vctx) bool { return v.e != nil },
		func(v *vctx, r, s *big.Int) bool { return sm2.Verify(v.pub, v.in("hash", v.e), cpi(r), cpi(s)) }},
	{"VerifyWithSM2", func(v *vctx) bool { return v.msgMode },
		func(v *vctx, r, s *big.Int) bool {
			return sm2.VerifyWithSM2(v.pub, v.in("uid", v.uid), v.in("msg", v.msg), cpi(r), cpi(s))
		}},
}

// call runs the entry point and then settles the argument discipline: inputs
// unmodified, spare capacity untouched, arguments scribbled if the case says so.
func (ep bytesEP) call(v *vctx, sig []byte) (bool, error) {
	got := ep.f(v, sig)
	return got, v.args.done(ep.name)
}

func (ep intsEP) call(v *vctx, r, s *big.Int) (bool, error) {
	got := ep.f(v, r, s)
	return got, v.args.done(ep.name)
}

// ---------------------------------------------------------------- argument discipline

// argset prepares every slice argument of a library call according to the
// case's Args word and checks/scribbles them when the call has returned.
//
//	Args == 0      plain private copies (nil stays nil), nothing scribbled
//	otherwise      the k-th slice argument since the start of the case uses
//	               nibble k mod 15 of Args:
//	                 bits 0-1  flavour of a zero-length argument: 0 nil,
//	                           1 []byte{}, 2 or 3 buf[:0] of a non-empty buffer
//	                 bit 2     non-empty argument gets spare capacity filled
//	                           with the sentinel 0xA5 (buf[:0] always has it)
//	               bit 63: after each call every argument buffer (content and
//	               spare capacity) is overwritten with garbage, and so are the
//	               slices / integers the library returned (after copying them)
//
// After each call: argument contents unchanged, sentinel intact (no entry
// point here documents append semantics). Later results on the same key /
// public key objects must still be right, which is what detects a retained
// reference.
type argset struct {
	mode  uint64
	idx   int
	slots []*slot
	rec   *h.Rec
	seen  map[string]bool
	// pool: in scribbling mode an argument buffer is reused for the next
	// argument of the same name (in this call or, through withPool, in later
	// steps of the same case) with its new content - what a caller that
	// recycles one buffer does. A reference retained by the library (say, as the
	// key of a cache) then sees different bytes under the same address.
	pool map[string][]byte
}

// withPool lets several argsets of one case share recycled buffers.
func (a *argset) withPool(p map[string][]byte) *argset { a.pool = p; return a }

type slot struct {
	name string
	full []byte
	n    int
	orig []byte
}

const (
	argScribble  = uint64(1) << 63
	argFlavoured = uint64(1) << 62 // no meaning of its own: makes a drawn Args word non-zero
	sentinel     = 0xA5
	spareCap     = 96 // room for an append of a default id, a digest, a signature
)

func newArgs(mode uint64, rec *h.Rec) *argset {
	return &argset{mode: mode, rec: rec, seen: map[string]bool{}, pool: map[string][]byte{}}
}

// alloc returns a buffer of n bytes, recycled from the pool when scribbling.
func (a *argset) alloc(name string, n int) []byte {
	if a.scribbling() {
		if old := a.pool[name]; cap(old) >= n && n > 0 {
			delete(a.pool, name)
			a.label("arg:recycled-buffer")
			return old[:n:n]
		}
	}
	return make([]byte, n)
}

func (a *argset) scribbling() bool { return a != nil && a.mode&argScribble != 0 }

func (a *argset) label(l string) {
	if a.rec != nil && !a.seen[l] {
		a.seen[l] = true
		a.rec.Label(l)
	}
}

func (a *argset) in(name string, b []byte) []byte {
	if a == nil || a.mode == 0 {
		return cp(b)
	}
	sel := (a.mode >> (uint(a.idx%15) * 4)) & 0xf
	a.idx++
	n := len(b)
	var full []byte
	switch {
	case n == 0 && sel&3 == 0:
		a.label("arg:nil")
		return nil
	case n == 0 && sel&3 == 1:
		a.label("arg:empty-non-nil")
		return []byte{}
	case n == 0:
		a.label("arg:buf[:0]")
		full = a.alloc(name, spareCap)
	case sel&4 != 0:
		a.label("arg:spare-capacity")
		full = a.alloc(name, n+spareCap)
	default:
		full = a.alloc(name, n)
	}
	copy(full, b)
	for i := n; i < len(full); i++ {
		full[i] = sentinel
	}
	a.slots = append(a.slots, &slot{name: name, full: full, n: n, orig: cp(b)})
	return full[:n]
}

func (a *argset) done(callee string) error {
	if a == nil {
		return nil
	}
	defer func() { a.slots = nil }()
	for _, s := range a.slots {
		if !bytes.Equal(s.full[:s.n], s.orig) {
			return fmt.Errorf("%s modified its argument %s: %s -> %s", callee, s.name, h.Hex(s.orig), h.Hex(s.full[:s.n]))
		}
		for i := s.n; i < len(s.full); i++ {
			if s.full[i] != sentinel {
				return fmt.Errorf("%s wrote into the spare capacity of its argument %s (len %d) at offset +%d: %x", callee, s.name, s.n, i-s.n, s.full[s.n:])
			}
		}
	}
	if a.scribbling() {
		a.label("arg:scribbled-after-call")
		for _, s := range a.slots {
			scribble(s.full)
			if cap(s.full) >= cap(a.pool[s.name]) {
				a.pool[s.name] = s.full
			}
		}
	}
	return nil
}

func scribble(b []byte) {
	for i := range b {
		b[i] = byte(0xEE ^ i*37)
	}
}

// ---------------------------------------------------------------- reference verdict

// refParse is strictParse with the encoding/asn1 second opinion; the two
// disagreeing means the harness is broken, never the library.
func refParse(sig []byte) (r, s *big.Int, err error) {
	r, s, err = strictParse(sig)
	r2, s2, ok2 := asn1SecondOpinion(sig)
	if (err == nil) != ok2 || (ok2 && (r.Cmp(r2) != 0 || s.Cmp(s2) != 0)) {
		h.HarnessError("strict DER reader and encoding/asn1 disagree on %x: strict err=%v, asn1 ok=%v", sig, err, ok2)
	}
	return
}

// ---------------------------------------------------------------- honest material built with the reference only

// base is a signature the reference model made (or crafted) together with
// everything needed to present it to the library.
type base struct {
	G       *gcurve  // nil: the SM2 curve
	D       *big.Int // nil if the private key is unknown
	Pub     ref.Point
	UIDLen  int
	UIDSeed uint64
	MsgLen  int
	MsgSeed uint64
	Digest  []byte // digest mode when non-nil
	E       []byte // the digest as handed to digest-based entry points
	R, S    *big.Int
}

func (b *base) msgMode() bool { return b.Digest == nil }

// parameters of the curve the base lives on
func (b *base) n() *big.Int {
	if b.G != nil {
		return b.G.c.N
	}
	return bigN
}

func (b *base) p() *big.Int {
	if b.G != nil {
		return b.G.c.P
	}
	return bigP
}

func (b *base) width() int {
	if b.G != nil {
		return b.G.byteLen
	}
	return 32
}

// two is 2^(8*width): the first value that does not fit a fixed-width field.
func (b *base) two() *big.Int { return new(big.Int).Lsh(one, uint(8*b.width())) }

func (b *base) fixed(v *big.Int) []byte { return v.FillBytes(make([]byte, b.width())) }

// nonce returns a value in [1, n-1] of the base's curve.
func (b *base) nonce(seed uint64) *big.Int {
	if b.G == nil {
		return nonceFromSeed(seed)
	}
	return b.G.nonce(seed)
}

// honestBase signs (uid, msg) with d and the nonce derived from kSeed, with the
// reference implementation of GB/T 32918.2 6.1.
func honestBase(d *big.Int, kSeed uint64, uidLen int, uidSeed uint64, msgLen int, msgSeed uint64) base {
	pub := ref.SM2.BaseMul(d)
	e := ref.SM2Digest(effUID(uidBytes(uidLen, uidSeed)), pub, msgBytes(msgLen, msgSeed))
	r, s := refSign(d, e, kSeed)
	return base{D: d, Pub: pub, UIDLen: uidLen, UIDSeed: uidSeed, MsgLen: msgLen, MsgSeed: msgSeed, E: e, R: r, S: s}
}

// digestBase signs a caller-supplied digest (32 bytes or longer).
func digestBase(d *big.Int, kSeed uint64, digest []byte) base {
	pub := ref.SM2.BaseMul(d)
	r, s := refSign(d, refE(digest), kSeed)
	return base{D: d, Pub: pub, Digest: digest, E: digest, R: r, S: s}
}

func refSign(d *big.Int, e []byte, kSeed uint64) (r, s *big.Int) {
	k := nonceFromSeed(kSeed)
	for {
		var ok bool
		if r, s, ok = ref.SM2SignWithK(d, e, k); ok {
			return
		}
		k = add(modN(k), one) // the standard: draw another k
	}
}

// craftDigest returns the digest e (32 bytes) for which x([s]G + [r+s]P) + e = r
// (mod n): every pair (r, s) satisfies the bare verification equation for
// exactly that e. When r, s are in [1, n-1] and r+s != 0 (mod n) the pair is a
// valid signature of e under P (no private key needed); when one of the range
// or t != 0 conditions fails it is precisely a candidate that only those
// checks keep out.
func craftDigest(pub ref.Point, r, s *big.Int) ([]byte, bool) {
	c := ref.SM2
	t := modN(add(r, s))
	x1 := c.Add(c.BaseMul(modN(s)), c.Mul(t, pub))
	if x1.Inf {
		return nil, false
	}
	return ref.Bytes32(modN(sub(r, x1.X))), true
}

func craftedBase(pub ref.Point, r, s *big.Int) (base, bool) {
	e, ok := craftDigest(pub, r, s)
	if !ok {
		return base{}, false
	}
	return base{Pub: pub, Digest: e, E: e, R: r, S: s}, true
}

// smallXPoint returns a curve point with a small x coordinate (so that x + p
// still fits into 32 bytes); nobody knows its discrete logarithm.
func smallXPoint(start int64) ref.Point {
	for x := start; ; x++ {
		if p, ok := ref.SM2.LiftX(bi(x), uint(x&1)); ok {
			return p
		}
	}
}

func selfTestModel() error {
	// the crafted-digest construction really yields valid signatures, and the
	// three "only the check keeps it out" constructions really are rejected
	d := scalarFromSeed(11)
	pub := ref.SM2.BaseMul(d)
	r, s := nonceFromSeed(12), nonceFromSeed(13)
	e, ok := craftDigest(pub, r, s)
	if !ok || !ref.SM2VerifyRS(pub, e, r, s) {
		return errors.New("c06: crafted digest does not make (r,s) valid")
	}
	foreign := smallXPoint(1)
	if !ref.SM2.OnCurve(foreign) {
		return errors.New("c06: smallXPoint off curve")
	}
	e, ok = craftDigest(foreign, r, s)
	if !ok || !ref.SM2VerifyRS(foreign, e, r, s) {
		return errors.New("c06: crafted digest under a foreign key does not verify")
	}
	for _, rs := range [][2]*big.Int{{sub(bigN, s), s}, {bi(0), s}, {r, bi(0)}, {add(bi(5), bigN), s}} {
		e, ok = craftDigest(pub, rs[0], rs[1])
		if !ok {
			return errors.New("c06: craftDigest failed")
		}
		if ref.SM2VerifyRS(pub, e, rs[0], rs[1]) {
			return errors.New("c06: reference accepted an out-of-range / t=0 pair")
		}
	}
	// the x1 >= n construction
	P, ss, tt, X := x1OverflowKey(3)
	if X.X.Cmp(bigN) < 0 || !ref.SM2.OnCurve(X) || !ref.SM2.OnCurve(P) || P.Inf {
		return errors.New("c06: x1OverflowKey point")
	}
	if got := ref.SM2.Add(ref.SM2.BaseMul(ss), ref.SM2.Mul(tt, P)); !ref.SM2.Equal(got, X) {
		return errors.New("c06: x1OverflowKey does not reproduce the chosen point")
	}
	// honest base verifies; nonce recovery closes the loop with the signer
	b := honestBase(d, 5, 16, 1, 100, 2)
	if !ref.SM2VerifyRS(b.Pub, b.E, b.R, b.S) {
		return errors.New("c06: honest base does not verify")
	}
	// deterministic reader: one-byte reads do not advance the stream
	rd := randOf([]byte{1, 2, 3, 4})
	var one1 [1]byte
	rd.Read(one1[:])
	two := make([]byte, 2)
	if n, _ := rd.Read(two); n != 2 || two[0] != 1 || two[1] != 2 {
		return errors.New("c06: detReader")
	}
	return nil
}

// ---------------------------------------------------------------- certificates (smx509 signing entry point)

var certEpoch = time.Unix(1700000000, 0).UTC()

// certSign lets smx509.CreateCertificate sign a self-signed certificate and
// returns the signed bytes (TBSCertificate) and the signature found in the
// result, taken apart with encoding/asn1 only.
func certSign(rand io.Reader, priv *sm2.PrivateKey, seed uint64, scribbleResult bool) (tbs, sig []byte, err error) {
	tmpl := &smx509.Certificate{
		SerialNumber: new(big.Int).SetUint64(seed | 1),
		Subject:      pkix.Name{CommonName: fmt.Sprintf("c06-%x", seed)},
		NotBefore:    certEpoch,
		NotAfter:     certEpoch.Add(24 * time.Hour),
	}
	der, err := smx509.CreateCertificate(rand, tmpl, tmpl, &priv.PublicKey, priv)
	if err != nil {
		return nil, nil, err
	}
	var outer struct {
		TBS asn1.RawValue
		Alg pkix.AlgorithmIdentifier
		Sig asn1.BitString
	}
	rest, err := asn1.Unmarshal(der, &outer)
	if err != nil || len(rest) != 0 {
		return nil, nil, fmt.Errorf("certificate does not parse with encoding/asn1: %v", err)
	}
	if !outer.Alg.Algorithm.Equal(asn1.ObjectIdentifier{1, 2, 156, 10197, 1, 501}) {
		return nil, nil, fmt.Errorf("certificate signature algorithm %v is not SM2-with-SM3", outer.Alg.Algorithm)
	}
	if outer.Sig.BitLength%8 != 0 {
		return nil, nil, fmt.Errorf("signature BIT STRING has %d bits", outer.Sig.BitLength)
	}
	tbs, sig = outer.TBS.FullBytes, outer.Sig.Bytes
	if scribbleResult {
		tbs, sig = cp(tbs), cp(sig)
		scribble(der)
	}
	return tbs, sig, nil
}

func hexInt(v *big.Int) string {
	if v == nil {
		return "<nil>"
	}
	return v.Text(16)
}
