package c06

import (
	"bytes"
	"fmt"
	"math/big"
	"testing"

	"pgregory.net/rapid"
	"verif/harness/gen"
	"verif/harness/h"
	"verif/harness/ref"
)

// histCase is a list of operations played on ONE key object (the lazily
// cached (d+1)^-1 lives in it).
type histCase struct {
	D    h.B // big-endian scalar, 1..40 bytes; valid iff 1 <= d <= n-2
	Ctor int
	Ops  []hop
}

type hop struct {
	Op     int
	UIDLen int
	MsgLen int
	Seed   uint64
	Args   uint64 // argument discipline for this step, see argset
}

const (
	opSignFirst      = 0
	opSignLast       = 9  // ops 0..9 are signers[op]
	opSignLongUID    = 10 // message-mode signing with an id of more than 8191 bytes: always an error
	opSignNoRand     = 11 // signing with an exhausted random source
	opVerifyLast     = 12 // the most recent signature through every verification entry point
	opVerifyMutated  = 13 // the most recent signature with one byte changed: library verdict == reference verdict
	opCount          = 14
	histMaxScalarLen = 160
)

func opName(op int) string {
	switch {
	case op <= opSignLast:
		return "sign:" + signers[op].name
	case op == opSignLongUID:
		return "sign:uid>8191"
	case op == opSignNoRand:
		return "sign:rand-exhausted"
	case op == opVerifyLast:
		return "verify-last"
	default:
		return "verify-last-mutated"
	}
}

func scalarValid(d *big.Int) bool { return d.Sign() > 0 && d.Cmp(sub(bigN, one)) < 0 }

func checkHistory(c histCase, rec *h.Rec) error {
	if len(c.D) == 0 || len(c.D) > histMaxScalarLen {
		h.HarnessError("history scalar length %d", len(c.D))
	}
	d := new(big.Int).SetBytes(c.D)
	if d.Sign() == 0 {
		h.HarnessError("history with d = 0 generated (outside the property statement)")
	}
	valid := scalarValid(d)
	pub := pubForScalar(d)
	rec.Label("ctor:" + ctorNames[c.Ctor])
	priv, err := buildKey(c.Ctor, c.D, pub)
	if valid {
		rec.Label("key-valid")
		if err != nil || priv == nil {
			if c.Ctor == 0 && len(c.D) != 32 {
				rec.Label("ctor-refused-length")
				return nil // NewPrivateKey documents "the length must be 32"
			}
			return fmt.Errorf("%s refused the valid scalar %x: %v", ctorNames[c.Ctor], []byte(c.D), err)
		}
	} else {
		switch {
		case d.Cmp(sub(bigN, one)) == 0:
			rec.Label("key-invalid:d=n-1")
		case d.Cmp(bigN) == 0:
			rec.Label("key-invalid:d=n")
		case d.Cmp(two256) < 0:
			rec.Label("key-invalid:n<d<2^256")
		default:
			rec.Label("key-invalid:d>=2^256")
		}
		if d.Cmp(two256) >= 0 && new(big.Int).Mod(d, two256).Cmp(sub(bigN, one)) < 0 && new(big.Int).Mod(d, two256).Sign() > 0 {
			rec.Label("key-invalid:valid-low-32-bytes")
		}
		if err != nil || priv == nil {
			rec.Label("ctor-refused")
			if priv != nil && err != nil {
				return fmt.Errorf("%s returned both a key and the error %v for d=%x", ctorNames[c.Ctor], err, []byte(c.D))
			}
			return nil // no key object, no history
		}
		if c.Ctor < 2 {
			// NewPrivateKey: "the length must be 32 ... the private key must be in [1, n-2]";
			// NewPrivateKeyFromInt goes through it
			return fmt.Errorf("%s accepted the scalar %x, which is outside [1, n-2]", ctorNames[c.Ctor], []byte(c.D))
		}
	}

	var last *signOut // most recent successful signature
	var lastV *vctx
	signCalls := 0
	// memory the library handed out (signatures returned in steps that do not
	// scribble) next to private copies: no later call may change it
	type handed struct {
		step    int
		ret     []byte
		r, s    *big.Int
		sigCopy []byte
		rc, sc  *big.Int
	}
	var out []handed
	pool := map[string][]byte{} // argument buffers recycled across the steps that scribble
	stillIntact := func(after string) error {
		for _, k := range out {
			if !bytes.Equal(k.ret, k.sigCopy) {
				return fmt.Errorf("%s: the signature slice returned in step %d changed afterwards: %x -> %x (the library reuses memory it handed out)", after, k.step, k.sigCopy, k.ret)
			}
			if k.r != nil && (k.r.Cmp(k.rc) != 0 || k.s.Cmp(k.sc) != 0) {
				return fmt.Errorf("%s: the integers returned in step %d changed afterwards", after, k.step)
			}
		}
		return nil
	}
	for i, op := range c.Ops {
		rec.Label(opName(op.Op))
		args := newArgs(op.Args, rec).withPool(pool)
		if i > 0 {
			if err := stillIntact(fmt.Sprintf("before step %d", i+1)); err != nil {
				return err
			}
		}
		step := fmt.Sprintf("step %d/%d (%s) on the key object d=%x built by %s", i+1, len(c.Ops), opName(op.Op), []byte(c.D), ctorNames[c.Ctor])
		if op.Op >= opVerifyLast {
			if last == nil {
				continue
			}
			if op.Op == opVerifyLast {
				lastV.args = args
				if err := acceptEverywhere("an earlier step", pub, lastV, last); err != nil {
					return fmt.Errorf("%s: %v", step, err)
				}
				continue
			}
			cand := candCase{Kind: "history-mutated", PubX: ref.Bytes32(pub.X), PubY: ref.Bytes32(pub.Y), DigestMode: true, Digest: lastV.e, Args: op.Args}
			sig := cp(last.sig)
			sig[int(op.Seed%uint64(len(sig)))] ^= byte(1 << (op.Seed >> 32 % 8))
			if err := checkCand(cand.withSig(sig), &h.Rec{}); err != nil {
				return fmt.Errorf("%s: %v", step, err)
			}
			continue
		}
		signCalls++
		id := op.Op
		uidLen := op.UIDLen
		rnd := newRand(op.Seed)
		switch op.Op {
		case opSignLongUID:
			id = int(op.Seed % 4) // the four message-mode signers that take an id
			uidLen = maxUID + 1 + op.UIDLen
		case opSignNoRand:
			id = int(op.Seed % 10)
			rnd = randOf(nil)
		}
		sg := signers[id]
		if sg.defUID || uidLen < 0 {
			uidLen = 0
		}
		uid := uidBytes(uidLen, op.Seed)
		msg := msgBytes(op.MsgLen, op.Seed)
		var digest []byte
		if !sg.msgMode {
			digest = gen.Fill(gen.Mix(op.Seed, 0x6469), 32)
		}
		o := runSigner(id, rnd, priv, uid, msg, digest, op.Seed, args)
		mustFail := !valid || op.Op == opSignLongUID
		if mustFail || (op.Op == opSignNoRand && o.err != nil) {
			if err := o.failedCleanly(sg); err != nil {
				why := "a private scalar >= n-1"
				if valid {
					why = "a user id of more than 8191 bytes / no randomness"
				}
				return fmt.Errorf("%s: signing with %s: %v", step, why, err)
			}
			continue
		}
		if o.err != nil {
			return fmt.Errorf("%s: signing failed on a valid key: %v", step, o.err)
		}
		if !args.scribbling() {
			k := handed{step: i + 1}
			if sg.ints {
				k.r, k.s, k.rc, k.sc = o.r, o.s, cpi(o.r), cpi(o.s)
			} else if id != 8 {
				k.ret, k.sigCopy = o.sig, cp(o.sig)
			}
			out = append(out, k)
		}
		if err := o.normalise(sg); err != nil {
			return fmt.Errorf("%s: %v", step, err)
		}
		v := &vctx{pub: libPub(pub), args: args}
		if sg.msgMode {
			v.msgMode, v.uid, v.msg = true, uid, o.msg
			v.e = ref.SM2Digest(effUID(uid), pub, o.msg)
		} else {
			v.e = digest
		}
		if !ref.SM2VerifyRS(pub, v.e, o.r, o.s) {
			return fmt.Errorf("%s: the signature does not satisfy the verification equation: uid=%s msg=%s digest=%x sig=%x", step, h.Hex(uid), h.Hex(msg), v.e, o.sig)
		}
		for _, ep := range bytesEPs[:2] {
			if !ep.ok(v) {
				continue
			}
			got, aerr := ep.call(v, o.sig)
			if aerr != nil {
				return fmt.Errorf("%s: %v", step, aerr)
			}
			if !got {
				return fmt.Errorf("%s: %s rejects the signature just made: uid=%s msg=%s digest=%x sig=%x", step, ep.name, h.Hex(uid), h.Hex(msg), v.e, o.sig)
			}
		}
		oo := o
		last, lastV = &oo, v
	}
	if err := stillIntact("at the end of the history"); err != nil {
		return err
	}
	rec.NTIf(signCalls >= 2)
	if signCalls >= 3 {
		rec.Label("sign-calls>=3")
	}
	return nil
}

// invalidScalars: n-1 and above, in 32 bytes and wider.
func invalidScalars() [][]byte {
	big1 := func(v *big.Int) []byte { return v.Bytes() }
	return [][]byte{
		big1(sub(bigN, one)),
		big1(bigN),
		big1(add(bigN, one)),
		big1(add(bigN, bi(5))),
		big1(sub(two256, one)),
		big1(two256),
		big1(add(two256, bi(5))),
		big1(add(two256, sub(bigN, one))), // n-1 + 2^256: congruent to n-1 in the low 256 bits
		big1(sub(new(big.Int).Lsh(one, 320), one)),
		big1(add(bigN, bigN)),
	}
}

// wideInvalidScalars: scalars far above n whose low 32 bytes are a valid
// scalar on their own (see wideValues).
func wideInvalidScalars(seed uint64) [][]byte {
	var out [][]byte
	for i, v := range []*big.Int{bi(5), scalarFromSeed(gen.Mix(seed, 0x77)), sub(bigN, bi(2))} {
		for k, w := range wideValues(v, 32, seed+uint64(i)) {
			if i > 0 && k%3 != i%3 {
				continue // the full list for the small scalar, a third of it for the others
			}
			out = append(out, w.v.Bytes())
		}
	}
	return out
}

// TestC06_HistoryInvalidKey: every invalid scalar x every constructor x every
// sequence of three signing entry points (10^3), enumerated completely.
func TestC06_HistoryInvalidKey(t *testing.T) {
	h.MarkExhaustive("history-invalid-key")
	h.Sweep(t, h.P{Name: "history-invalid-key"}, func(emit func(histCase)) {
		for _, d := range invalidScalars() {
			for ctor := 0; ctor < 4; ctor++ {
				if ctor < 2 {
					// the checking constructors: one case shows they refuse
					emit(histCase{D: d, Ctor: ctor, Ops: []hop{{Op: 0}, {Op: 0}, {Op: 0}}})
					continue
				}
				for a := opSignFirst; a <= opSignLast; a++ {
					for b := opSignFirst; b <= opSignLast; b++ {
						for c := opSignFirst; c <= opSignLast; c++ {
							seed := gen.Mix(h.Seed, uint64(a), uint64(b), uint64(c))
							// a quarter of the histories plain, the rest with argument flavours / scribbling
							var a1, a2, a3 uint64
							if (a+b+c)%4 != 0 {
								a1, a2, a3 = gen.Mix(seed, 1)|argFlavoured, gen.Mix(seed, 2)|argFlavoured, gen.Mix(seed, 3)|argFlavoured
							}
							emit(histCase{D: d, Ctor: ctor, Ops: []hop{
								{Op: a, UIDLen: 0, MsgLen: 3, Seed: seed, Args: a1},
								{Op: b, UIDLen: 16, MsgLen: 0, Seed: seed + 1, Args: a2},
								{Op: c, UIDLen: 1, MsgLen: 70, Seed: seed + 2, Args: a3}}})
						}
					}
				}
			}
		}
		// the width dimension: each wide scalar x every constructor x each signing
		// entry point first (followed by two others) and three times in a row
		for wi, d := range wideInvalidScalars(h.Seed) {
			for ctor := 0; ctor < 4; ctor++ {
				for a := opSignFirst; a <= opSignLast; a++ {
					if ctor < 2 && a > 0 {
						break // the checking constructors refuse: one case each
					}
					seed := gen.Mix(h.Seed, uint64(wi), uint64(ctor), uint64(a), 0x77)
					b, c := (a+1+wi)%(opSignLast+1), (a*3+2)%(opSignLast+1)
					emit(histCase{D: d, Ctor: ctor, Ops: []hop{{Op: a, MsgLen: 3, Seed: seed}, {Op: b, UIDLen: 16, Seed: seed + 1, Args: gen.Mix(seed, 1) | argFlavoured}, {Op: c, UIDLen: 1, MsgLen: 70, Seed: seed + 2}}})
					emit(histCase{D: d, Ctor: ctor, Ops: []hop{{Op: a, MsgLen: 3, Seed: seed}, {Op: a, UIDLen: 16, Seed: seed + 1}, {Op: a, UIDLen: 1, MsgLen: 70, Seed: seed + 2}}})
				}
			}
		}
	}, checkHistory)
}

// TestC06_History: rapid-drawn operation lists on valid and invalid key objects.
func TestC06_History(t *testing.T) {
	inv := invalidScalars()
	h.Prop(t, h.P{Name: "history", Quick: 500, Thorough: 6000}, func(rt *rapid.T) histCase {
		c := histCase{}
		if rapid.IntRange(0, 3).Draw(rt, "invalid") == 0 {
			if k := rapid.IntRange(0, 2).Draw(rt, "invKind"); k == 0 {
				c.D = cp(inv[rapid.IntRange(0, len(inv)-1).Draw(rt, "which")])
			} else if k == 1 {
				// a valid scalar in the low 32 bytes, something further up
				seed := rapid.Uint64().Draw(rt, "wideSeed")
				w := wideValues(keyOfKind(int(seed%8), seed), 32, seed)
				c.D = w[rapid.IntRange(0, len(w)-1).Draw(rt, "wide")].v.Bytes()
			} else {
				// n-1 + a random non-negative offset, up to 40 bytes wide
				off := new(big.Int).SetBytes(gen.Fill(rapid.Uint64().Draw(rt, "offSeed"), rapid.IntRange(0, 39).Draw(rt, "offLen")))
				v := add(sub(bigN, one), off)
				if len(v.Bytes()) > histMaxScalarLen {
					v = sub(bigN, one)
				}
				c.D = v.Bytes()
			}
			c.Ctor = rapid.SampledFrom([]int{2, 3, 2, 3, 0, 1}).Draw(rt, "ctor")
		} else {
			_, d := drawKey(rt)
			c.D = d
			c.Ctor = rapid.IntRange(0, 3).Draw(rt, "ctor")
			if c.Ctor != 0 && rapid.Bool().Draw(rt, "trim") {
				c.D = new(big.Int).SetBytes(d).Bytes() // without leading zero octets
			}
		}
		n := rapid.IntRange(3, 8).Draw(rt, "nOps")
		for i := 0; i < n; i++ {
			c.Ops = append(c.Ops, hop{
				Op:     rapid.OneOf(rapid.IntRange(0, opSignLast), rapid.IntRange(0, opCount-1)).Draw(rt, "op"),
				UIDLen: rapid.SampledFrom([]int{0, 0, 1, 16, 64, 200}).Draw(rt, "uidLen"),
				MsgLen: rapid.SampledFrom([]int{0, 1, 32, 100, 1000}).Draw(rt, "msgLen"),
				Seed:   rapid.Uint64().Draw(rt, "seed"),
				Args:   drawArgs(rt),
			})
		}
		return c
	}, checkHistory)
}

// TestC06_HistoryReuse: every ordered pair (a, b) of signing entry points on
// one valid key object, each in three argument disciplines (plain copies;
// flavours + spare capacity; the same with scribbling): a, b, verify-last, a
// failing call (id too long), another failing call (no randomness), b again,
// a again, verify-last, verify-last-mutated. After a successful and after a
// failed call the object must behave like a fresh one, nothing handed out
// earlier may change, nothing handed in may be kept.
func TestC06_HistoryReuse(t *testing.T) {
	h.Sweep(t, h.P{Name: "history-reuse"}, func(emit func(histCase)) {
		ds := edgeScalars(gen.Mix(h.Seed, 0x7275))
		n := 0
		for a := opSignFirst; a <= opSignLast; a++ {
			for b := opSignFirst; b <= opSignLast; b++ {
				for mode := 0; mode < 3; mode++ {
					n++
					seed := gen.Mix(h.Seed, uint64(n), 0x7265)
					ar := func(k uint64) uint64 {
						switch mode {
						case 0:
							return 0
						case 1:
							return gen.Mix(seed, k)&^argScribble | argFlavoured
						}
						return gen.Mix(seed, k) | argScribble
					}
					d := ds[n%len(ds)]
					emit(histCase{D: ref.Bytes32(d), Ctor: n % 4, Ops: []hop{
						{Op: a, UIDLen: 16, MsgLen: 33, Seed: seed, Args: ar(1)},
						{Op: b, UIDLen: 16, MsgLen: 33, Seed: seed + 1, Args: ar(2)}, // same lengths, other bytes: recycled buffers look alike
						{Op: opVerifyLast, Seed: seed + 2, Args: ar(3)},
						{Op: opSignLongUID, UIDLen: n % 3, MsgLen: 5, Seed: seed + 3, Args: ar(4)},
						{Op: opSignNoRand, UIDLen: 1, MsgLen: 5, Seed: seed + 4, Args: ar(5)},
						{Op: b, UIDLen: 0, MsgLen: 64, Seed: seed + 5, Args: ar(6)},
						{Op: a, UIDLen: 16, MsgLen: 0, Seed: seed + 6, Args: ar(7)},
						{Op: opVerifyLast, Seed: seed + 7, Args: ar(8)},
						{Op: opVerifyMutated, Seed: seed + 8, Args: ar(9)},
					}})
				}
			}
		}
	}, checkHistory)
}
