package c17

import (
	"bytes"
	"crypto/hmac"
	"crypto/sha256"
	"crypto/sha512"
	"encoding/hex"
	"fmt"
	"strings"

	"verif/harness/gen"
)

func unhex(s string) []byte {
	b, err := hex.DecodeString(s)
	if err != nil {
		panic("c17: bad hex in vector table: " + s)
	}
	return b
}

var vecHashName = map[string]string{
	"sha1.New": "sha1", "sha256.New": "sha256", "sha256.New224": "sha224",
	"sha512.New": "sha512", "sha512.New384": "sha384",
	"sha512.New512_224": "sha512_224", "sha512.New512_256": "sha512_256",
	"sm3.New": "sm3",
}

// cavpRun drives the model through the CAVP pr_false script: instantiate,
// reseed, generate, generate; it returns the states after each step and the
// bits returned by the second generate.
type cavpStates struct {
	v, o [4][]byte // after instantiate, reseed, generate 1, generate 2
	ret  []byte
}

func cavpRun(m mechSpec, gm bool, ent, nonce, pers, entR, addR, add1, add2 []byte, retLen int) (cavpStates, error) {
	var s cavpStates
	// level one interval; irrelevant for a two-generate script
	d, ec := newRef(m, gm, 1<<20, ent, nonce, pers)
	if ec != eOK {
		return s, fmt.Errorf("instantiate: %v", ec)
	}
	s.v[0], s.o[0] = d.c.state()
	if ec := d.Reseed(entR, addR); ec != eOK {
		return s, fmt.Errorf("reseed: %v", ec)
	}
	s.v[1], s.o[1] = d.c.state()
	if _, ec := d.Generate(retLen, add1); ec != eOK {
		return s, fmt.Errorf("generate 1: %v", ec)
	}
	s.v[2], s.o[2] = d.c.state()
	out, ec := d.Generate(retLen, add2)
	if ec != eOK {
		return s, fmt.Errorf("generate 2: %v", ec)
	}
	s.v[3], s.o[3] = d.c.state()
	s.ret = out
	return s, nil
}

func eqHex(what string, got []byte, want string) error {
	if want == "" {
		return nil
	}
	if !bytes.Equal(got, unhex(want)) {
		return fmt.Errorf("%s = %x, vector says %s", what, got, want)
	}
	return nil
}

// selfTestPrimitives: the model's own HMAC against crypto/hmac and RFC 4231
// test case 2; addMod wrap-around.
func selfTestPrimitives() error {
	got := hmacRef(hashPrims["sha256"], []byte("Jefe"), []byte("what do ya want for nothing?"))
	if hex.EncodeToString(got) != "5bdcc146bf60754e6a042426089575c75a003f089d2739839dec58b964ec3843" {
		return fmt.Errorf("hmacRef RFC 4231 case 2: %x", got)
	}
	for _, kl := range []int{0, 1, 63, 64, 65, 127, 128, 129, 200} {
		key := gen.Fill(uint64(kl)+7, kl)
		msg := gen.Fill(uint64(kl)+99, 77)
		h1 := hmac.New(sha256.New, key)
		h1.Write(msg)
		if !bytes.Equal(h1.Sum(nil), hmacRef(hashPrims["sha256"], key, msg)) {
			return fmt.Errorf("hmacRef(sha256) != crypto/hmac for key length %d", kl)
		}
		h2 := hmac.New(sha512.New384, key)
		h2.Write(msg)
		if !bytes.Equal(h2.Sum(nil), hmacRef(hashPrims["sha384"], key, msg)) {
			return fmt.Errorf("hmacRef(sha384) != crypto/hmac for key length %d", kl)
		}
	}
	if got := addMod(2, []byte{0xff, 0xff}, []byte{0x02}); !bytes.Equal(got, []byte{0x00, 0x01}) {
		return fmt.Errorf("addMod wrap: %x", got)
	}
	if got := addMod(3, []byte{0x01, 0xff}, []byte{0x01}, []byte{0xff, 0xff, 0xff, 0xff}); !bytes.Equal(got, []byte{0x00, 0x01, 0xff}) {
		return fmt.Errorf("addMod multi: %x", got)
	}
	return nil
}

// selfTestCAVP validates the NIST-mode model on the genuine CAVP excerpts
// (SHA-1/SHA-2/AES, all intermediate values and the returned bits). It must
// see at least one vector for every construction detail it relies on: with and
// without additional input, seedlen 440 and 888, AES-128/192/256.
func selfTestCAVP() error {
	n := map[string]int{}
	for i, v := range hashVectors {
		if v.GM || strings.HasPrefix(v.Hash, "sm3") {
			continue
		}
		m := mechSpec{"hash-" + vecHashName[v.Hash], "hash", vecHashName[v.Hash]}
		s, err := cavpRun(m, false, unhex(v.EntropyInput), unhex(v.Nonce), unhex(v.PersonalizationString),
			unhex(v.EntropyInputReseed), unhex(v.AdditionalInputReseed), unhex(v.AdditionalInput1), unhex(v.AdditionalInput2), len(v.Returnbits1)/2)
		if err != nil {
			return fmt.Errorf("CAVP Hash_DRBG #%d: %v", i, err)
		}
		for _, e := range []error{
			eqHex("V0", s.v[0], v.V0), eqHex("C0", s.o[0], v.C0), eqHex("V1", s.v[1], v.V1), eqHex("C1", s.o[1], v.C1),
			eqHex("V2", s.v[2], v.V2), eqHex("V3", s.v[3], v.V3), eqHex("ReturnedBits", s.ret, v.Returnbits1),
		} {
			if e != nil {
				return fmt.Errorf("CAVP Hash_DRBG #%d (%s): %v", i, v.Hash, e)
			}
		}
		n[m.Name]++
		if v.AdditionalInput1 != "" {
			n["hash+addl"]++
		}
	}
	for i, v := range hmacVectors {
		if v.GM || strings.HasPrefix(v.Hash, "sm3") {
			continue
		}
		m := mechSpec{"hmac-" + vecHashName[v.Hash], "hmac", vecHashName[v.Hash]}
		s, err := cavpRun(m, false, unhex(v.EntropyInput), unhex(v.Nonce), unhex(v.PersonalizationString),
			unhex(v.EntropyInputReseed), unhex(v.AdditionalInputReseed), unhex(v.AdditionalInput1), unhex(v.AdditionalInput2), len(v.Returnbits1)/2)
		if err != nil {
			return fmt.Errorf("CAVP HMAC_DRBG #%d: %v", i, err)
		}
		for _, e := range []error{
			eqHex("V0", s.v[0], v.V0), eqHex("K0", s.o[0], v.K0), eqHex("V1", s.v[1], v.V1), eqHex("K1", s.o[1], v.K1),
			eqHex("V2", s.v[2], v.V2), eqHex("K2", s.o[2], v.K2), eqHex("V3", s.v[3], v.V3), eqHex("K3", s.o[3], v.K3),
			eqHex("ReturnedBits", s.ret, v.Returnbits1),
		} {
			if e != nil {
				return fmt.Errorf("CAVP HMAC_DRBG #%d (%s): %v", i, v.Hash, e)
			}
		}
		n[m.Name]++
		if v.AdditionalInput1 != "" {
			n["hmac+addl"]++
		}
		if v.PersonalizationString != "" {
			n["hmac+pers"]++
		}
	}
	for i, v := range ctrVectors {
		if v.GM || v.Cipher != "aes.NewCipher" {
			continue
		}
		prim := fmt.Sprintf("aes%d", v.KeyLen*8)
		m := mechSpec{"ctr-" + prim, "ctr", prim}
		s, err := cavpRun(m, false, unhex(v.EntropyInput), unhex(v.Nonce), unhex(v.PersonalizationString),
			unhex(v.EntropyInputReseed), unhex(v.AdditionalInputReseed), unhex(v.AdditionalInput1), unhex(v.AdditionalInput2), len(v.Returnbits1)/2)
		if err != nil {
			return fmt.Errorf("CAVP CTR_DRBG #%d: %v", i, err)
		}
		for _, e := range []error{
			eqHex("V0", s.v[0], v.V0), eqHex("Key0", s.o[0], v.Key0), eqHex("V1", s.v[1], v.V1), eqHex("Key1", s.o[1], v.Key1),
			eqHex("V2", s.v[2], v.V2), eqHex("Key2", s.o[2], v.Key2), eqHex("V3", s.v[3], v.V3), eqHex("Key3", s.o[3], v.Key3),
			eqHex("ReturnedBits", s.ret, v.Returnbits1),
		} {
			if e != nil {
				return fmt.Errorf("CAVP CTR_DRBG #%d (%s): %v", i, prim, e)
			}
		}
		n[m.Name]++
		if v.AdditionalInput1 != "" {
			n["ctr+addl"]++
		}
	}
	for _, need := range []string{"hash-sha1", "hash-sha256", "hash-sha512", "hash+addl",
		"hmac-sha1", "hmac-sha256", "hmac-sha384", "hmac-sha512", "hmac+addl",
		"ctr-aes128", "ctr-aes192", "ctr-aes256", "ctr+addl"} {
		if n[need] == 0 {
			return fmt.Errorf("CAVP self-test saw no vector of class %q", need)
		}
	}
	return nil
}

// selfTestGMAnchors checks the GM-mode deltas (and the NIST constructions over
// SM3/SM4 with the harness' own ref.SM3/ref.SM4) against the repository's
// gm/SM vectors. These expectations are the repository's own; they anchor the
// model, they do not independently validate it (spec.json says so).
func selfTestGMAnchors() error {
	seen := 0
	for i, v := range hashVectors {
		if !strings.HasPrefix(v.Hash, "sm3") {
			continue
		}
		m := mechSpec{"hash-sm3", "hash", "sm3"}
		s, err := cavpRun(m, v.GM, unhex(v.EntropyInput), unhex(v.Nonce), unhex(v.PersonalizationString),
			unhex(v.EntropyInputReseed), unhex(v.AdditionalInputReseed), unhex(v.AdditionalInput1), unhex(v.AdditionalInput2), len(v.Returnbits1)/2)
		if err != nil {
			return fmt.Errorf("GM anchor Hash #%d: %v", i, err)
		}
		for _, e := range []error{
			eqHex("V0", s.v[0], v.V0), eqHex("C0", s.o[0], v.C0), eqHex("V1", s.v[1], v.V1), eqHex("C1", s.o[1], v.C1),
			eqHex("V2", s.v[2], v.V2), eqHex("V3", s.v[3], v.V3), eqHex("ReturnedBits", s.ret, v.Returnbits1),
		} {
			if e != nil {
				return fmt.Errorf("GM anchor Hash #%d (gm=%v): %v", i, v.GM, e)
			}
		}
		seen++
	}
	for i, v := range ctrVectors {
		if v.Cipher != "sm4.NewCipher" {
			continue
		}
		m := mechSpec{"ctr-sm4", "ctr", "sm4"}
		s, err := cavpRun(m, v.GM, unhex(v.EntropyInput), unhex(v.Nonce), unhex(v.PersonalizationString),
			unhex(v.EntropyInputReseed), unhex(v.AdditionalInputReseed), unhex(v.AdditionalInput1), unhex(v.AdditionalInput2), len(v.Returnbits1)/2)
		if err != nil {
			return fmt.Errorf("GM anchor CTR #%d: %v", i, err)
		}
		for _, e := range []error{
			eqHex("V0", s.v[0], v.V0), eqHex("Key0", s.o[0], v.Key0), eqHex("V1", s.v[1], v.V1), eqHex("Key1", s.o[1], v.Key1),
			eqHex("V2", s.v[2], v.V2), eqHex("Key2", s.o[2], v.Key2), eqHex("V3", s.v[3], v.V3), eqHex("Key3", s.o[3], v.Key3),
			eqHex("ReturnedBits", s.ret, v.Returnbits1),
		} {
			if e != nil {
				return fmt.Errorf("GM anchor CTR #%d (gm=%v): %v", i, v.GM, e)
			}
		}
		seen++
	}
	if seen < 4 {
		return fmt.Errorf("GM anchors: only %d SM3/SM4 vectors found", seen)
	}
	return nil
}
