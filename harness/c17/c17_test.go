// C17 - DRBGs follow SP 800-90A / GM/T 0105 exactly and never outlive reseed
// limits. See DESIGN.md section 4, C17, and spec.json.
//
// Files: model_test.go (the reference model), selftest_test.go + vectors_test.go
// (its validation on CAVP vectors), c17_test.go (generate/reseed histories),
// prng_test.go (the io.Reader wrapper under entropy faults), time_test.go (the
// GM time-interval scenario, thorough tier).
package c17

import (
	"bytes"
	"crypto/aes"
	"crypto/cipher"
	"crypto/sha1"
	"crypto/sha256"
	"crypto/sha512"
	"fmt"
	"hash"
	"strings"
	"sync"
	"testing"
	"time"

	"github.com/emmansun/gmsm/drbg"
	"github.com/emmansun/gmsm/sm3"
	"github.com/emmansun/gmsm/sm4"
	"pgregory.net/rapid"
	"verif/harness/gen"
	"verif/harness/h"
	"verif/harness/ref"
)

func TestMain(m *testing.M) {
	if b, err := sm4.NewCipher(make([]byte, 16)); err == nil {
		h.Observe("sm4.block", fmt.Sprintf("%T", b))
	}
	h.Main(m, ref.SelfTestSM3, func() error { return ref.SelfTestSM4(false) }, selfTestPrimitives, selfTestCAVP, selfTestGMAnchors)
}

// The reseed interval of the test security level is part of the property
// statement ("test level: 8"); it is deliberately NOT read from the library.
const (
	testInterval = 8
	sentinel     = 0xA5
)

// The hash constructor / block cipher and key size are instantiation inputs:
// every hash function of SP 800-90A rev.1 table 2 (SHA-1, SHA-224, SHA-256,
// SHA-384, SHA-512, SHA-512/224, SHA-512/256) plus SM3 (GM/T 0105) for both
// hash-based mechanisms, and SM4 / AES-128/192/256 for CTR_DRBG (the library
// only offers the variant with derivation function). The constructors reject
// no hash or cipher; for anything outside the tables (MD5, SHA-3, 64-bit block
// ciphers) the standards define no seedlen and nothing is asserted. The
// model's outlen / seedlen / blocklen come from the tables by hash identity
// (hashPrims), never from the library.
var mechs = []mechSpec{
	{"hash-sm3", "hash", "sm3"},
	{"hash-sha1", "hash", "sha1"},
	{"hash-sha224", "hash", "sha224"},
	{"hash-sha256", "hash", "sha256"},
	{"hash-sha384", "hash", "sha384"},
	{"hash-sha512", "hash", "sha512"},
	{"hash-sha512_224", "hash", "sha512_224"},
	{"hash-sha512_256", "hash", "sha512_256"},
	{"hmac-sm3", "hmac", "sm3"},
	{"hmac-sha1", "hmac", "sha1"},
	{"hmac-sha224", "hmac", "sha224"},
	{"hmac-sha256", "hmac", "sha256"},
	{"hmac-sha384", "hmac", "sha384"},
	{"hmac-sha512", "hmac", "sha512"},
	{"hmac-sha512_224", "hmac", "sha512_224"},
	{"hmac-sha512_256", "hmac", "sha512_256"},
	{"ctr-sm4", "ctr", "sm4"},
	{"ctr-aes128", "ctr", "aes128"},
	{"ctr-aes192", "ctr", "aes192"},
	{"ctr-aes256", "ctr", "aes256"},
}

func family(kind string) []mechSpec {
	var out []mechSpec
	for _, m := range mechs {
		if m.Kind == kind {
			out = append(out, m)
		}
	}
	return out
}

func mechByName(name string) mechSpec {
	for _, m := range mechs {
		if m.Name == name {
			return m
		}
	}
	panic("c17: unknown mechanism " + name)
}

// ---------------------------------------------------------------- library side

func libHash(prim string) func() hash.Hash {
	switch prim {
	case "sm3":
		return sm3.New
	case "sha1":
		return sha1.New
	case "sha224":
		return sha256.New224
	case "sha256":
		return sha256.New
	case "sha512_224":
		return sha512.New512_224
	case "sha512_256":
		return sha512.New512_256
	case "sha384":
		return sha512.New384
	case "sha512":
		return sha512.New
	}
	panic("c17: no library hash for " + prim)
}

func libCipher(prim string) (func([]byte) (cipher.Block, error), int) {
	switch prim {
	case "sm4":
		return sm4.NewCipher, 16
	case "aes128":
		return aes.NewCipher, 16
	case "aes192":
		return aes.NewCipher, 24
	case "aes256":
		return aes.NewCipher, 32
	}
	panic("c17: no library cipher for " + prim)
}

func libLevel(level string) (drbg.SecurityLevel, uint64, time.Duration) {
	switch level {
	case "test":
		return drbg.SECURITY_LEVEL_TEST, testInterval, 6 * time.Second
	case "two":
		return drbg.SECURITY_LEVEL_TWO, 1 << 10, 60 * time.Second
	case "one":
		return drbg.SECURITY_LEVEL_ONE, 1 << 20, 600 * time.Second
	}
	panic("c17: unknown level " + level)
}

// newLib instantiates the library's DRBG. With wrap set it goes through the
// convenience constructor (NewNIST*/NewGM*) where one exists for the pair.
func newLib(m mechSpec, gm bool, level drbg.SecurityLevel, wrap bool, ent, nonce, pers []byte) (drbg.DRBG, error) {
	switch m.Kind {
	case "hash":
		var d *drbg.HashDrbg
		var err error
		switch {
		case wrap && gm && m.Prim == "sm3":
			d, err = drbg.NewGMHashDrbg(level, ent, nonce, pers)
		case wrap && !gm:
			d, err = drbg.NewNISTHashDrbg(libHash(m.Prim), level, ent, nonce, pers)
		default:
			d, err = drbg.NewHashDrbg(libHash(m.Prim), level, gm, ent, nonce, pers)
		}
		if err != nil || d == nil {
			return nil, orNilObj(err, d == nil)
		}
		return d, nil
	case "hmac":
		var d *drbg.HmacDrbg
		var err error
		if wrap && !gm {
			d, err = drbg.NewNISTHmacDrbg(libHash(m.Prim), level, ent, nonce, pers)
		} else {
			d, err = drbg.NewHmacDrbg(libHash(m.Prim), level, gm, ent, nonce, pers)
		}
		if err != nil || d == nil {
			return nil, orNilObj(err, d == nil)
		}
		return d, nil
	default:
		var d *drbg.CtrDrbg
		var err error
		cp, kl := libCipher(m.Prim)
		switch {
		case wrap && gm && m.Prim == "sm4":
			d, err = drbg.NewGMCtrDrbg(level, ent, nonce, pers)
		case wrap && !gm:
			d, err = drbg.NewNISTCtrDrbg(cp, kl, level, ent, nonce, pers)
		default:
			d, err = drbg.NewCtrDrbg(cp, kl, level, gm, ent, nonce, pers)
		}
		if err != nil || d == nil {
			return nil, orNilObj(err, d == nil)
		}
		return d, nil
	}
}

var errNilObject = fmt.Errorf("c17: constructor returned neither an object nor an error")

func orNilObj(err error, isNil bool) error {
	if err == nil && isNil {
		return errNilObject
	}
	return err
}

func libClass(err error) errClass {
	switch {
	case err == nil:
		return eOK
	case err == drbg.ErrReseedRequired:
		return eReseed
	default:
		return eInvalid
	}
}

// ---------------------------------------------------------------- histories

type opT struct {
	K string `json:"k"`           // "gen" | "reseed"
	N int    `json:"n"`           // gen: requested bytes; reseed: entropy bytes
	A int    `json:"a"`           // additional input bytes; 0 = none
	Z int    `json:"z,omitempty"` // zero-length flavour of the additional input (a == 0) and of the output buffer (gen, n == 0): 0 nil, 1 []byte{}, 2 buf[:0]
}

type seqCase struct {
	Mech  string
	GM    bool
	Wrap  bool   // use the NewNIST*/NewGM* convenience constructor where there is one
	Level string // "test" (interval 8), "two" (1024), "one" (2^20)
	Ent   int    // instantiate: entropy / nonce / personalisation lengths
	Nonce int
	Pers  int
	Seed  uint64 // contents of all byte strings are gen.Fill(Mix(Seed, ...), len)
	// memory flavours, see mem_test.go
	Scribble bool // overwrite every argument (and the output buffer, once compared) right after the call
	Spare    bool // non-empty arguments and output buffers carry sentinel-filled spare capacity
	InstZ    int  // zero-length flavour of entropy / nonce / personalisation
	Ops      []opT
}

// Key: cases are distinct by mechanism, mode, input lengths and op sequence
// (not by the filler seed).
func (c seqCase) Key() string {
	var sb strings.Builder
	fmt.Fprintf(&sb, "%s/%v/%v/%s/%d/%d/%d/%v%v%d", c.Mech, c.GM, c.Wrap, c.Level, c.Ent, c.Nonce, c.Pers, c.Scribble, c.Spare, c.InstZ)
	if len(c.Ops) > 64 {
		// level sweeps: thousands of identical ops
		fmt.Fprintf(&sb, "/%d ops/%v", len(c.Ops), c.Ops[len(c.Ops)-8:])
		return sb.String()
	}
	for _, o := range c.Ops {
		fmt.Fprintf(&sb, "/%s%d.%d.%d", o.K[:1], o.N, o.A, o.Z)
	}
	return sb.String()
}

func (c seqCase) instInputs() (ent, nonce, pers []byte) {
	return gen.Fill(gen.Mix(c.Seed, 1), c.Ent), gen.Fill(gen.Mix(c.Seed, 2), c.Nonce), gen.Fill(gen.Mix(c.Seed, 3), c.Pers)
}

func (c seqCase) opInputs(i int) (entropy, addl []byte) {
	o := c.Ops[i]
	if o.K == "reseed" {
		entropy = gen.Fill(gen.Mix(c.Seed, 100+uint64(i), 1), o.N)
	}
	if o.A > 0 {
		addl = gen.Fill(gen.Mix(c.Seed, 100+uint64(i), 2), o.A)
	}
	return
}

type expect struct {
	need bool // NeedReseed() before the op
	ec   errClass
	out  []byte
}

// modelTranscript runs the whole history through the model first, so that the
// library run afterwards is as short as possible (GM mode has a wall-clock rule).
func modelTranscript(c seqCase, m mechSpec, interval uint64) (errClass, []expect) {
	ent, nonce, pers := c.instInputs()
	d, iec := newRef(m, c.GM, interval, ent, nonce, pers)
	if iec != eOK {
		return iec, nil
	}
	exps := make([]expect, len(c.Ops))
	for i, o := range c.Ops {
		entropy, addl := c.opInputs(i)
		exps[i].need = d.needReseed()
		if o.K == "gen" {
			exps[i].out, exps[i].ec = d.Generate(o.N, addl)
		} else {
			exps[i].ec = d.Reseed(entropy, addl)
		}
	}
	return eOK, exps
}

func classifySeq(c seqCase, m mechSpec, iec errClass, exps []expect, r *h.Rec) {
	mode := "nist"
	if c.GM {
		mode = "gm"
	}
	r.Label("%s/%s", c.Mech, mode)
	r.Label("mode-" + mode)
	if c.Level != "test" {
		r.Label("level-" + c.Level)
	}
	if iec != eOK {
		r.Label("instantiate-rejected")
		r.NT()
		return
	}
	crossings, refusedAfter, reseedSinceRefusal := 0, false, false
	prevRefused := false
	afterTooLong, afterRejected := false, false
	set := map[string]bool{}
	if c.Scribble {
		set["scribble-after-every-call"] = true
	} else {
		set["no-scribble"] = true
	}
	if c.Spare {
		set["spare-capacity"] = true
	}
	for i, o := range c.Ops {
		e := exps[i]
		if o.A == 0 {
			set["addl-"+zNames[o.Z]] = true
		}
		if o.K == "gen" && e.ec == eOK {
			if afterTooLong {
				set["output-after-too-long-request"] = true
			}
			if afterRejected {
				set["output-after-rejected-reseed"] = true
			}
			if o.N == 0 {
				set["out-"+zNames[(o.Z+1)%3]] = true
			}
		}
		if o.K == "gen" && e.ec == eInvalid {
			afterTooLong = true
		}
		if o.K == "reseed" && e.ec != eOK {
			afterRejected = true
		}
		if o.K == "gen" {
			switch e.ec {
			case eReseed:
				if !prevRefused {
					crossings++
				}
				prevRefused = true
				refusedAfter, reseedSinceRefusal = true, false
				set["gen-refused"] = true
				if o.A > 0 {
					set["gen-refused-with-addl"] = true
				}
				if o.N > m.maxRequest(c.GM) {
					set["gen-refused-and-too-long"] = true
				}
			case eInvalid:
				set["gen-too-long"] = true
			default:
				prevRefused = false
				if refusedAfter && reseedSinceRefusal {
					set["output-after-refusal+reseed"] = true
				}
				if o.A > 0 {
					set["gen-with-addl"] = true
				}
				if o.N == 0 {
					set["gen-0-bytes"] = true
				}
				if o.N > m.outlen() {
					set["gen-multi-block"] = true
				}
				if o.N == m.maxRequest(c.GM) {
					set["gen-max-request"] = true
				}
			}
		} else {
			if e.ec == eOK {
				prevRefused = false
				set["reseed-ok"] = true
				if refusedAfter {
					reseedSinceRefusal = true
				}
				if o.A > 0 {
					set["reseed-with-addl"] = true
				}
				if e.need {
					set["reseed-when-required"] = true
				} else {
					set["reseed-early"] = true
				}
			} else {
				set["reseed-rejected"] = true
			}
		}
	}
	for k := range set {
		r.Label(k)
	}
	if crossings > 0 {
		r.Label("crossed-interval")
	}
	if crossings >= 2 {
		r.Label("crossed-interval>=2x")
	}
	r.NTIf(crossings > 0 || set["gen-with-addl"] || set["reseed-with-addl"] || set["gen-refused-with-addl"] ||
		set["gen-too-long"] || set["reseed-rejected"])
}

func clockGuard(level string) time.Duration {
	_, _, ti := libLevel(level)
	return ti / 2
}

func checkSeq(c seqCase, r *h.Rec) error {
	return runSeq(c, mechByName(c.Mech), r)
}

func runSeq(c seqCase, m mechSpec, r *h.Rec) error {
	lvl, interval, _ := libLevel(c.Level)
	iec, exps := modelTranscript(c, m, interval)
	classifySeq(c, m, iec, exps, r)

	entD, nonceD, persD := c.instInputs()
	ent, nonce, pers := mkArg(entD, c.InstZ, c.Spare), mkArg(nonceD, c.InstZ, c.Spare), mkArg(persD, c.InstZ, c.Spare)
	start := time.Now() // only consulted in GM mode, see clockSkip
	d, err := newLib(m, c.GM, lvl, c.Wrap, ent.s, nonce.s, pers.s)
	if err == errNilObject {
		return err
	}
	if (err != nil) != (iec != eOK) {
		return fmt.Errorf("instantiate(entropy %d bytes, nonce %d, personalisation %d): library error %v, model %v (documented minimum entropy %d / nonce %d)",
			c.Ent, c.Nonce, c.Pers, err, iec, m.minEntropyInstantiate(c.GM), m.minNonce(c.GM))
	}
	if err != nil {
		return nil
	}
	for _, a := range []*arg{ent, nonce, pers} {
		if err := a.check("instantiate"); err != nil {
			return err
		}
		if c.Scribble {
			a.scribble(1)
		}
	}
	// clockSkip: GM mode refuses once 6 s (test level) have passed since the
	// last (re)seed. A history takes microseconds; if the process was stalled
	// for more than half the interval an unexpected refusal proves nothing, and
	// the case is dropped instead of being reported (one-sided, see spec.json).
	lastSeed := start
	clockSkip := func(got errClass) bool {
		if c.GM && got == eReseed && time.Since(lastSeed) > clockGuard(c.Level) {
			r.Label("dropped-clock-stall")
			return true
		}
		return false
	}
	if got, want := d.MaxBytesPerRequest(), m.maxRequest(c.GM); got != want {
		return fmt.Errorf("MaxBytesPerRequest() = %d, documented %d", got, want)
	}
	for i, o := range c.Ops {
		e := exps[i]
		entropyD, addlD := c.opInputs(i)
		entropy, addl := mkArg(entropyD, o.Z, c.Spare), mkArg(addlD, o.Z, c.Spare)
		if got := d.NeedReseed(); got != e.need {
			if got && clockSkip(eReseed) {
				return nil
			}
			return fmt.Errorf("op %d: NeedReseed() = %v, model %v (history %s)", i, got, e.need, describe(c, i))
		}
		if o.K == "gen" {
			ob := mkOut(o.N, (o.Z+1)%3, c.Spare)
			buf := ob.b
			err := d.Generate(buf, addl.s)
			got := libClass(err)
			if got != e.ec {
				if clockSkip(got) {
					return nil
				}
				return fmt.Errorf("op %d: Generate(%d bytes, addl %d): library %v (%v), model %v; history %s", i, o.N, o.A, got, err, e.ec, describe(c, i))
			}
			if cerr := ob.check(); cerr != nil {
				return fmt.Errorf("op %d: Generate(%d bytes): %v", i, o.N, cerr)
			}
			if e.ec == eOK {
				if !bytes.Equal(buf, e.out) {
					return fmt.Errorf("op %d: Generate(%d bytes, addl %s) = %s, specification says %s; history %s", i, o.N, h.Hex(addlD), h.Hex(buf), h.Hex(e.out), describe(c, i))
				}
			} else if j, ok := ob.untouched(); !ok {
				return fmt.Errorf("op %d: Generate refused (%v) but wrote to the output buffer at offset %d: %s; history %s", i, err, j, h.Hex(buf), describe(c, i))
			}
			if c.Scribble {
				ob.scribble(uint64(i))
			}
		} else {
			before := time.Now()
			err := d.Reseed(entropy.s, addl.s)
			if (err != nil) != (e.ec != eOK) {
				return fmt.Errorf("op %d: Reseed(entropy %d bytes, addl %d): library error %v, model %v (documented minimum %d); history %s", i, o.N, o.A, err, e.ec, m.minEntropyReseed(c.GM), describe(c, i))
			}
			if err == nil {
				lastSeed = before
			}
		}
		for _, a := range []*arg{entropy, addl} {
			if err := a.check(fmt.Sprintf("op %d (%s)", i, o.K)); err != nil {
				return err
			}
			if c.Scribble {
				a.scribble(uint64(i) + 2)
			}
		}
	}
	return nil
}

func describe(c seqCase, upto int) string {
	var sb strings.Builder
	fmt.Fprintf(&sb, "%s gm=%v inst(%d,%d,%d)", c.Mech, c.GM, c.Ent, c.Nonce, c.Pers)
	lo := 0
	if upto > 40 {
		lo = upto - 40
		sb.WriteString(" ...")
	}
	for i := lo; i <= upto && i < len(c.Ops); i++ {
		o := c.Ops[i]
		if o.K == "gen" {
			fmt.Fprintf(&sb, " G(%d,a%d)", o.N, o.A)
		} else {
			fmt.Fprintf(&sb, " R(%d,a%d)", o.N, o.A)
		}
	}
	return sb.String()
}

// ---------------------------------------------------------------- generators

func uniq(xs []int, lo, hi int) []int {
	var out []int
	seen := map[int]bool{}
	for _, x := range xs {
		if x >= lo && x <= hi && !seen[x] {
			seen[x] = true
			out = append(out, x)
		}
	}
	return out
}

// chance is true with a probability of roughly pct percent (pct <= 50).
// rapid's integer generators are biased towards small values (about half of
// the draws of IntRange(0,99) are uniform, the rest are small), so the rare
// branch is mapped to the LARGE values and the threshold is doubled; shrinking
// then moves towards the common branch.
func chance(t *rapid.T, label string, pct int) bool {
	return rapid.IntRange(0, 99).Draw(t, label) >= 100-2*pct
}

// drawLen: mostly a valid length (>= min), sometimes a below-minimum one.
func drawLen(t *rapid.T, label string, min, pctInvalid int) int {
	if chance(t, label+"Bad", pctInvalid) {
		return rapid.SampledFrom(uniq([]int{0, min - 1, min / 2, 1}, 0, min-1)).Draw(t, label)
	}
	return rapid.SampledFrom(uniq([]int{min, min, min + 1, 2 * min, 16, 24, 32, 48, 64, 100}, min, 1<<20)).Draw(t, label)
}

func requestSizes(m mechSpec, gm bool) (valid, over []int) {
	mx, out := m.maxRequest(gm), m.outlen()
	all := []int{0, 1, 15, 16, 17, 31, 32, 33, out - 1, out, out + 1, 2*out + 1, 3 * out, 255, 256, 257, mx - 1, mx, mx + 1, mx + 1, 2*mx + 3}
	if m.Kind == "hmac" {
		all = append(all, 65537) // one byte more than SP 800-90A's absolute maximum of 2^19 bits
	}
	return uniq(all, 0, mx), uniq(all, mx+1, 1<<20)
}

func drawOp(t *rapid.T, m mechSpec, gm bool, pReseed int) opT {
	var o opT
	valid, over := requestSizes(m, gm)
	if chance(t, "reseed", pReseed) {
		o.K = "reseed"
		o.N = drawLen(t, "entropy", m.minEntropyReseed(gm), 20)
	} else {
		o.K = "gen"
		if chance(t, "over", 8) {
			o.N = rapid.SampledFrom(over).Draw(t, "n")
		} else if chance(t, "big", 12) {
			o.N = rapid.SampledFrom(valid).Draw(t, "n")
		} else {
			// bias to the small sizes so that 30-step histories stay cheap
			small := uniq(valid, 0, 257)
			o.N = rapid.SampledFrom(small).Draw(t, "n")
		}
	}
	if rapid.Bool().Draw(t, "hasAddl") {
		o.A = rapid.SampledFrom([]int{1, 16, 32, 33, 55, 64, 111, 200, 255, 256, 257}).Draw(t, "addl")
	}
	o.Z = rapid.IntRange(0, 2).Draw(t, "zeroFlavour")
	return o
}

// pickMech draws a mechanism uniformly (rapid's SampledFrom favours the first
// elements; every hash / cipher must get its share of the cases).
func pickMech(t *rapid.T, list []mechSpec) mechSpec {
	u := rapid.Uint64().Draw(t, "mechSel")
	return list[gen.Mix(u, 0xC17)%uint64(len(list))]
}

func genSeq(kind string) func(*rapid.T) seqCase {
	fam := family(kind)
	return func(t *rapid.T) seqCase {
		m := pickMech(t, fam)
		gm := rapid.Bool().Draw(t, "gm")
		c := seqCase{Mech: m.Name, GM: gm, Level: "test"}
		c.Wrap = rapid.Bool().Draw(t, "wrap")
		c.Ent = drawLen(t, "ent", m.safeEntropy(gm), 3)
		c.Nonce = drawLen(t, "nonce", m.minNonce(gm), 3)
		c.Pers = rapid.SampledFrom([]int{0, 0, 1, 16, 32, 55, 100}).Draw(t, "pers")
		c.Seed = rapid.Uint64().Draw(t, "seed")
		c.Scribble = !chance(t, "noScribble", 25)
		c.Spare = rapid.Bool().Draw(t, "spare")
		c.InstZ = rapid.IntRange(0, 2).Draw(t, "instZero")
		// mostly long histories (the interval is 8): 30 - small
		n := 30 - rapid.IntRange(0, 30).Draw(t, "stepsLess")
		pReseed := rapid.SampledFrom([]int{6, 3, 12, 25}).Draw(t, "pReseed")
		for i := 0; i < n; i++ {
			c.Ops = append(c.Ops, drawOp(t, m, gm, pReseed))
		}
		return c
	}
}

func TestC17_SeqHash(t *testing.T) {
	h.Prop(t, h.P{Name: "seq-hash", Quick: 6000, Thorough: 150000}, genSeq("hash"), checkSeq)
}

func TestC17_SeqHmac(t *testing.T) {
	h.Prop(t, h.P{Name: "seq-hmac", Quick: 5000, Thorough: 120000}, genSeq("hmac"), checkSeq)
}

func TestC17_SeqCtr(t *testing.T) {
	h.Prop(t, h.P{Name: "seq-ctr", Quick: 6000, Thorough: 150000}, genSeq("ctr"), checkSeq)
}

// TestC17_Boundary enumerates, for every mechanism and mode, the histories
// around the reseed boundary: exactly `interval` generates, refused calls
// (with/without additional input, too long or not), an optional rejected
// reseed, the reseed, and a second full interval after it.
func TestC17_Boundary(t *testing.T) {
	h.MarkExhaustive("boundary")
	h.Sweep(t, h.P{Name: "boundary"}, func(emit func(seqCase)) {
		for _, m := range mechs {
			for _, gm := range []bool{false, true} {
				valid, over := requestSizes(m, gm)
				sizes := []int{valid[len(valid)-1], 1, m.outlen()}
				for v := 0; v < 128; v++ {
					bit := func(i int) bool { return v>>i&1 == 1 }
					c := seqCase{Mech: m.Name, GM: gm, Level: "test", Wrap: bit(6),
						Ent: m.safeEntropy(gm), Nonce: m.minNonce(gm), Seed: gen.Mix(h.Seed, uint64(v), uint64(len(m.Name)))}
					if bit(0) {
						c.Pers = 21
					}
					a := 0
					if bit(1) {
						a = 40
					}
					c.Scribble, c.Spare, c.InstZ = v%4 != 3, v%2 == 1, v%3
					g := func(n, a int) { c.Ops = append(c.Ops, opT{K: "gen", N: n, A: a, Z: (len(c.Ops) + v) % 3}) }
					for i := 0; i < testInterval; i++ {
						g(sizes[i%len(sizes)], a*(i%2))
						if i == 2 && bit(3) {
							g(over[0], a) // a too-long request inside the interval is refused and does not count
						}
						if i == 4 && bit(4) {
							c.Ops = append(c.Ops, opT{K: "reseed", N: 0, A: a, Z: v % 3}) // rejected: must not restart the interval
						}
					}
					// refused calls
					ra := 0
					if bit(2) {
						ra = 33
					}
					g(16, ra) // 16 <= every mode's maximum request
					if bit(3) {
						g(over[0], ra) // refused AND too long: still the reseed-required error
						g(0, 0)
					}
					if bit(4) {
						c.Ops = append(c.Ops, opT{K: "reseed", N: m.minEntropyReseed(gm) - 1, A: ra, Z: (v + 1) % 3}) // rejected (NIST: empty entropy)
						g(1, ra)
					}
					rsa := 0
					if bit(5) {
						rsa = 17
					}
					c.Ops = append(c.Ops, opT{K: "reseed", N: m.minEntropyReseed(gm), A: rsa})
					for i := 0; i < testInterval; i++ {
						g(sizes[(i+1)%len(sizes)], a*((i+1)%2))
					}
					g(1, 0)
					g(1, ra)
					c.Ops = append(c.Ops, opT{K: "reseed", N: 2 * m.minEntropyReseed(gm), A: 0})
					g(m.outlen(), 0)
					emit(c)
				}
			}
		}
	}, checkSeq)
}

// TestC17_Instantiate: instantiate inputs of ALL lengths from 0 to past twice
// the documented minimum (entropy and nonce independently), followed by two
// generates so that accepted inputs are also compared byte for byte.
func TestC17_Instantiate(t *testing.T) {
	h.MarkExhaustive("instantiate-lengths")
	h.Sweep(t, h.P{Name: "instantiate-lengths"}, func(emit func(seqCase)) {
		for _, m := range mechs {
			for _, gm := range []bool{false, true} {
				minE, minN := m.minEntropyInstantiate(gm), m.minNonce(gm)
				hiE, hiN := 2*minE+2, 2*minN+2
				if !gm {
					hiE, hiN = 70, 40
				}
				mk := func(e, n, p int) seqCase {
					return seqCase{Mech: m.Name, GM: gm, Level: "test", Wrap: (e+n)%2 == 1, Ent: e, Nonce: n, Pers: p,
						Seed:     gen.Mix(h.Seed, uint64(e), uint64(n), uint64(p)),
						Scribble: (e+n)%4 != 0, Spare: e%3 == 0, InstZ: (e + n + p) % 3,
						Ops: []opT{{K: "gen", N: m.outlen(), A: 0, Z: n % 3}, {K: "gen", N: 1, A: 9}}}
				}
				for _, p := range []int{0, 7, 64} {
					for e := 0; e <= hiE; e++ {
						for _, n := range uniq([]int{0, minN - 1, minN, 2 * minN}, 0, 1<<20) {
							emit(mk(e, n, p))
						}
					}
					for n := 0; n <= hiN; n++ {
						for _, e := range uniq([]int{0, minE - 1, minE, 2 * minE}, 0, 1<<20) {
							emit(mk(e, n, p))
						}
					}
				}
			}
		}
	}, checkSeq)
}

// TestC17_Levels: the other security levels. Level two (interval 1024) in the
// quick tier for every mechanism and mode, level one (2^20) in the thorough
// tier for one mechanism of each kind, and in both tiers the first 2^16+40
// generates of level one (the reseed counter outgrows two bytes); every output
// is compared.
func TestC17_Levels(t *testing.T) {
	h.Sweep(t, h.P{Name: "levels"}, func(emit func(seqCase)) {
		mk := func(m mechSpec, gm bool, level string, interval int) seqCase {
			c := seqCase{Mech: m.Name, GM: gm, Level: level, Ent: 2 * m.safeEntropy(gm), Nonce: 2*m.minNonce(gm) + 7,
				Pers: 3, Seed: gen.Mix(h.Seed, uint64(interval), uint64(len(m.Name))), Scribble: true, Spare: gm}
			if !gm {
				c.Ent, c.Nonce = 32, 16
			}
			for i := 0; i < interval; i++ {
				o := opT{K: "gen", N: 1 + i%5, Z: i % 3}
				if i%97 == 0 {
					o.A = 5
				}
				c.Ops = append(c.Ops, o)
			}
			c.Ops = append(c.Ops, opT{K: "gen", N: 1, A: 3}, opT{K: "gen", N: 0},
				opT{K: "reseed", N: 2 * m.minEntropyReseed(gm), A: 1}, opT{K: "gen", N: m.outlen()})
			return c
		}
		for _, m := range mechs {
			for _, gm := range []bool{false, true} {
				emit(mk(m, gm, "two", 1<<10))
			}
		}
		// level one cut short just behind the point where the reseed counter no longer
		// fits 16 bits (65535/65536 generates since the last reseed; seeded change
		// C17-8-2 truncated the counter that Hash_DRBG adds to V): one mechanism per
		// generator kind and mode in the quick tier as well
		for _, name := range []string{"hash-sha256", "hash-sm3", "hmac-sha256", "hmac-sm3", "ctr-aes128", "ctr-sm4"} {
			m := mechByName(name)
			emit(mk(m, m.Prim == "sm3" || m.Prim == "sm4", "one", 1<<16+40))
		}
		if h.Thorough() {
			for _, name := range []string{"hash-sha256", "hmac-sha256", "ctr-aes128", "hash-sm3", "ctr-sm4"} {
				m := mechByName(name)
				emit(mk(m, m.Prim == "sm3" || m.Prim == "sm4", "one", 1<<20))
			}
		}
	}, checkSeq)
}

// ---------------------------------------------------------------- input-length caps

var (
	bigOnce sync.Once
	bigBuf  []byte
)

// bigZeros: 2^27 zero bytes, allocated once and never written.
func bigZeros() []byte {
	bigOnce.Do(func() { bigBuf = make([]byte, maxInputBytes) })
	return bigBuf
}

type capCase struct {
	Mech  string
	GM    bool
	Which string // "entropy" | "nonce" | "personalization" | "reseed-entropy" | "reseed-additional"
}

// TestC17_InputCaps: the code documents MAX_BYTES (2^27) as the exclusive
// upper bound for entropy / personalisation / additional input and MAX_BYTES/2
// for the nonce. This is the refusal side for every mechanism and mode; the
// accepting side (one byte below) is TestC17_InputCapsAccept.
func TestC17_InputCaps(t *testing.T) {
	h.Sweep(t, h.P{Name: "input-caps"}, func(emit func(capCase)) {
		for _, m := range mechs {
			for _, gm := range []bool{false, true} {
				for _, w := range []string{"entropy", "nonce", "personalization", "reseed-entropy", "reseed-additional"} {
					emit(capCase{m.Name, gm, w})
				}
			}
		}
	}, func(c capCase, r *h.Rec) error {
		r.Label("cap-" + c.Which)
		r.NT()
		m := mechByName(c.Mech)
		big := bigZeros()
		ent := gen.Fill(1, 2*m.safeEntropy(true))
		nonce := gen.Fill(2, 2*m.minNonce(true))
		var pers []byte
		switch c.Which {
		case "entropy":
			ent = big
		case "nonce":
			nonce = big[:maxInputBytes/2]
		case "personalization":
			pers = big
		}
		d, err := newLib(m, c.GM, drbg.SECURITY_LEVEL_TEST, false, ent, nonce, pers)
		if strings.HasPrefix(c.Which, "reseed") {
			if err != nil {
				return fmt.Errorf("instantiate with valid inputs failed: %v", err)
			}
			if c.Which == "reseed-entropy" {
				err = d.Reseed(big, nil)
			} else {
				err = d.Reseed(ent, big)
			}
			if err == nil {
				return fmt.Errorf("Reseed accepted a %s of MAX_BYTES = 2^27 bytes; the documented bound is exclusive", c.Which)
			}
			// the refusal left the state alone: next output equals the model's
			ref, _ := newRef(m, c.GM, testInterval, ent, nonce, nil)
			want, _ := ref.Generate(m.outlen(), nil)
			got := make([]byte, m.outlen())
			if err := d.Generate(got, nil); err != nil {
				return fmt.Errorf("Generate after a rejected reseed: %v", err)
			}
			if !bytes.Equal(got, want) {
				return fmt.Errorf("output after a rejected over-long reseed = %x, specification says %x", got, want)
			}
			return nil
		}
		if err == nil {
			return fmt.Errorf("instantiate accepted a %s at the documented exclusive bound (2^27 bytes, nonce 2^26)", c.Which)
		}
		return nil
	})
}

var (
	patOnce sync.Once
	patBuf  []byte
)

// bigPattern: 2^27 bytes of a cheap non-constant pattern, read-only.
func bigPattern() []byte {
	patOnce.Do(func() {
		patBuf = make([]byte, maxInputBytes)
		x := uint32(0x9E3779B9)
		for i := range patBuf {
			x = x*1664525 + 1013904223
			patBuf[i] = byte(x >> 24)
		}
	})
	return patBuf
}

// TestC17_InputCapsAccept: the accepting side of every documented cap. An
// input one byte below the bound (2^27-1 bytes, nonce 2^26-1) is an ordinary
// instantiation / reseed input: it must be accepted and the next output must
// equal the model's. One mechanism of each kind over stdlib primitives (the
// naive model hashes / block-chains the whole 128 MiB), NIST mode (the cap
// expressions are shared by both modes).
func TestC17_InputCapsAccept(t *testing.T) {
	h.Sweep(t, h.P{Name: "input-caps-accept"}, func(emit func(capCase)) {
		for _, name := range []string{"hash-sha256", "hmac-sha256", "ctr-aes128"} {
			for _, w := range []string{"nonce", "entropy", "personalization", "reseed-entropy", "reseed-additional"} {
				emit(capCase{name, false, w})
			}
		}
	}, func(c capCase, r *h.Rec) error {
		r.Label("cap-1-" + c.Which)
		r.Label(c.Mech + "/nist")
		r.NT()
		m := mechByName(c.Mech)
		big := bigPattern()
		ent := gen.Fill(1, 32)
		nonce := gen.Fill(2, 16)
		var pers, rsEnt, rsAdd []byte
		switch c.Which {
		case "entropy":
			ent = big[:maxInputBytes-1]
		case "nonce":
			nonce = big[1 : maxInputBytes/2]
		case "personalization":
			pers = big[:maxInputBytes-1]
		case "reseed-entropy":
			rsEnt = big[1:]
		case "reseed-additional":
			rsEnt, rsAdd = gen.Fill(3, 32), big[:maxInputBytes-1]
		}
		ref, ec := newRef(m, c.GM, testInterval, ent, nonce, pers)
		if ec != eOK {
			return fmt.Errorf("c17 harness: model rejects a %s one byte below the cap", c.Which)
		}
		d, err := newLib(m, c.GM, drbg.SECURITY_LEVEL_TEST, false, ent, nonce, pers)
		if err != nil {
			return fmt.Errorf("instantiate rejected a %s of %d bytes, one below the documented exclusive bound: %v", c.Which, map[bool]int{true: maxInputBytes/2 - 1, false: maxInputBytes - 1}[c.Which == "nonce"], err)
		}
		if rsEnt != nil {
			if ref.Reseed(rsEnt, rsAdd) != eOK {
				return fmt.Errorf("c17 harness: model rejects the reseed")
			}
			if err := d.Reseed(rsEnt, rsAdd); err != nil {
				return fmt.Errorf("Reseed rejected a %s of 2^27-1 bytes, one below the documented exclusive bound: %v", c.Which, err)
			}
		}
		for i := 0; i < 2; i++ {
			want, _ := ref.Generate(m.outlen()+1, nil)
			got := make([]byte, m.outlen()+1)
			if err := d.Generate(got, nil); err != nil {
				return fmt.Errorf("Generate %d after a maximal %s: %v", i, c.Which, err)
			}
			if !bytes.Equal(got, want) {
				return fmt.Errorf("output %d after a %s one byte below the cap = %x, specification says %x", i, c.Which, got, want)
			}
		}
		return nil
	})
}

// ---------------------------------------------------------------- where a length or counter grows a byte

// TestC17_ByteBoundaries: input lengths, request sizes and Read sizes at
// 255/256/257 and 65535/65536/65537 bytes (the 32-bit length fields of
// Block_Cipher_df, the block counters of Hash_df / Hashgen / CTR and the byte
// counter of the reader wrapper; the reseed counter passes 255/256 in 'levels'
// at level two and 65535/65536 at level one in the thorough tier).
func TestC17_ByteBoundaries(t *testing.T) {
	lens := []int{255, 256, 257, 65535, 65536, 65537}
	h.Sweep(t, h.P{Name: "byte-boundaries"}, func(emit func(seqCase)) {
		for _, m := range mechs {
			for _, gm := range []bool{false, true} {
				mx := m.maxRequest(gm)
				req := func(n int) int {
					if n > mx {
						return mx
					}
					return n
				}
				for i, L := range lens {
					emit(seqCase{Mech: m.Name, GM: gm, Level: "test", Ent: L, Nonce: L, Pers: L,
						Seed: gen.Mix(h.Seed, uint64(L), uint64(len(m.Name))), Scribble: i%2 == 0, Spare: i%3 == 0,
						Ops: []opT{{K: "gen", N: req(256), A: L}, {K: "reseed", N: L, A: L}, {K: "gen", N: req(255), A: L},
							{K: "gen", N: req(257), A: 0, Z: i % 3}, {K: "reseed", N: L, A: 0, Z: (i + 1) % 3}, {K: "gen", N: req(L), A: 1}}})
				}
			}
		}
	}, checkSeq)
	h.Sweep(t, h.P{Name: "prng-byte-boundaries"}, func(emit func(prngCase)) {
		for i, m := range mechs {
			for _, gm := range []bool{false, true} {
				need := m.safeEntropy(gm)
				if need < 32 {
					need = 32
				}
				emit(prngCase{Mech: m.Name, GM: gm, Strength: need, Pers: 256, Seed: gen.Mix(h.Seed, uint64(i), 0xB0), Reads: lens,
					FailAt: -1, FailKind: "error", Scribble: i%2 == 0, Spare: i%2 == 1, PersZ: i % 3})
			}
		}
	}, checkPRNG)
}
