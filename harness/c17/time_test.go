package c17

import (
	"bytes"
	"fmt"
	"testing"
	"time"

	"github.com/emmansun/gmsm/drbg"
	"verif/harness/gen"
	"verif/harness/h"
)

// The GM time rule: "in GM mode, once the configured time has elapsed, every
// further generate call is refused with the reseed-required error, leaving
// state and output buffer untouched, until a reseed succeeds".
//
// This is the one test of the property that reads the wall clock (monotonic
// part of time.Now) and sleeps. It is one-sided:
//
//   - "refused after the interval" is asserted after the harness has measured
//     MORE than the 6 s test-level interval since a point in time that is not
//     earlier than the library's own time stamp (taken after the constructor
//     returned), so the library's clock reading can only be larger;
//   - "accepted before the interval" is asserted only if the harness measured
//     LESS than 3 s since a point taken before the constructor / reseed call;
//     otherwise the early part is skipped (label early-skipped);
//   - the NIST-mode twin never consults the clock, so "NIST mode is not refused
//     after the sleep" does not depend on timing at all.
//
// One case per mechanism (quick tier: one per generator kind), sharded so that
// the sleeps run in parallel.

type timeCase struct {
	Mech string
	Seed uint64
}

const (
	timeInterval = 6 * time.Second
	timeEarly    = 3 * time.Second
	timeMargin   = 300 * time.Millisecond
)

func TestC17_TimeInterval(t *testing.T) {
	// thorough: every mechanism; quick: one mechanism per generator source file
	// (hash_drbg.go, hmac_drbg.go, ctr_drbg.go - each keeps its own time stamp),
	// one shard each so the three 6.3 s sleeps run in parallel (seeded change C17-8-1)
	h.Sweep(t, h.P{Name: "gm-time-interval"}, func(emit func(timeCase)) {
		for _, m := range mechs {
			if !h.Thorough() && m.Name != "hash-sm3" && m.Name != "hmac-sm3" && m.Name != "ctr-sm4" {
				continue
			}
			emit(timeCase{m.Name, gen.Mix(h.Seed, uint64(len(m.Name)), 0x71)})
		}
	}, checkTime)
}

func checkTime(c timeCase, r *h.Rec) error {
	m := mechByName(c.Mech)
	r.Label("time/" + c.Mech)
	r.NT()
	ent := gen.Fill(gen.Mix(c.Seed, 1), 2*m.safeEntropy(true))
	nonce := gen.Fill(gen.Mix(c.Seed, 2), 2*m.minNonce(true)+1)
	pers := gen.Fill(gen.Mix(c.Seed, 3), 9)
	addl := gen.Fill(gen.Mix(c.Seed, 4), 20)
	reseedEnt := gen.Fill(gen.Mix(c.Seed, 5), 2*m.minEntropyReseed(true))
	n := m.maxRequest(true)
	if n > 24 {
		n = 24
	}
	strength := 2 * m.outlen()
	if strength < 32 {
		strength = 32
	}

	// models
	mg, _ := newRef(m, true, testInterval, ent, nonce, pers)
	mn, _ := newRef(m, false, testInterval, ent, nonce, pers)
	mp, ok := newRefPRNG(m, true, strength, pers, c.Seed, -1)
	if mg == nil || mn == nil || !ok {
		return fmt.Errorf("c17 harness: time scenario inputs do not instantiate the model")
	}

	// libraries
	t0 := time.Now()
	g, err := newLib(m, true, drbg.SECURITY_LEVEL_TEST, false, ent, nonce, pers)
	if err != nil {
		return fmt.Errorf("GM instantiate: %v", err)
	}
	nn, err := newLib(m, false, drbg.SECURITY_LEVEL_TEST, false, ent, nonce, pers)
	if err != nil {
		return fmt.Errorf("NIST instantiate: %v", err)
	}
	src := &scriptedReader{seed: c.Seed, failAt: -1}
	p, err := newLibPRNG(m, true, false, src, strength, pers)
	if err != nil {
		return fmt.Errorf("GM reader-wrapper constructor: %v", err)
	}
	t1 := time.Now() // not earlier than any of the library's time stamps

	gen1 := func(d drbg.DRBG, a []byte) ([]byte, error) {
		buf := make([]byte, n)
		for i := range buf {
			buf[i] = sentinel
		}
		return buf, d.Generate(buf, a)
	}
	untouched := func(b []byte) bool { return bytes.Equal(b, bytes.Repeat([]byte{sentinel}, len(b))) }

	// --- early part: two generates on each, one Read
	early := true
	for i := 0; i < 2; i++ {
		a := addl
		if i == 0 {
			a = nil
		}
		wantG, _ := mg.Generate(n, a)
		wantN, _ := mn.Generate(n, a)
		gotG, errG := gen1(g, a)
		gotN, errN := gen1(nn, a)
		if errN != nil || !bytes.Equal(gotN, wantN) {
			return fmt.Errorf("NIST twin, early generate %d: err=%v got %x want %x", i, errN, gotN, wantN)
		}
		if errG != nil || !bytes.Equal(gotG, wantG) {
			if time.Since(t0) >= timeEarly {
				early = false
				break
			}
			return fmt.Errorf("GM early generate %d (%v after instantiation): err=%v got %x want %x", i, time.Since(t0), errG, gotG, wantG)
		}
	}
	if early {
		wantP, _ := mp.read(10)
		gotP := make([]byte, 10)
		if _, err := p.Read(gotP); err != nil || !bytes.Equal(gotP, wantP) || !sameCalls(src.calls, mp.calls) {
			if time.Since(t0) < timeEarly {
				return fmt.Errorf("GM reader wrapper, early Read: err=%v got %x want %x, entropy calls %v want %v", err, gotP, wantP, src.calls, mp.calls)
			}
			early = false
		}
	}
	if !early {
		// the process was stalled for seconds during the early part: the model
		// and the library may already be out of step; nothing can be concluded.
		r.Label("early-skipped")
		return nil
	}
	if g.NeedReseed() && time.Since(t0) < timeEarly {
		return fmt.Errorf("GM NeedReseed() is true %v after instantiation with 2 of %d generates used", time.Since(t0), testInterval)
	}

	// --- a generate in the MIDDLE of the window: use must not restart the clock
	// (seeded change C17-9-1 stamped the time in Generate as well, so a generator
	// that is used at least once per interval never reached the limit). Accepted
	// is demanded only if less than 5 s were measured since before the constructor.
	for time.Since(t1) < timeInterval/2+200*time.Millisecond {
		time.Sleep(timeInterval/2 + 200*time.Millisecond - time.Since(t1) + 5*time.Millisecond)
	}
	{
		gotG, errG := gen1(g, addl)
		switch {
		case errG == nil:
			wantG, _ := mg.Generate(n, addl)
			if !bytes.Equal(gotG, wantG) {
				return fmt.Errorf("GM generate in the middle of the window (%v after instantiation): got %x want %x", time.Since(t0), gotG, wantG)
			}
			r.Label("mid-window-generate")
		case time.Since(t0) < 5*time.Second:
			return fmt.Errorf("GM generate %v after instantiation (interval %v) failed: %v", time.Since(t0), timeInterval, errG)
		default:
			r.Label("mid-skipped")
		}
	}

	// --- sleep past the interval
	for time.Since(t1) <= timeInterval+timeMargin {
		time.Sleep(timeInterval + timeMargin - time.Since(t1) + 10*time.Millisecond)
	}
	r.Label("slept-past-interval")

	// --- refusal, twice, with and without additional input; state untouched
	mg.expired = true
	if !g.NeedReseed() {
		return fmt.Errorf("GM NeedReseed() is false %v after instantiation (interval %v)", time.Since(t1), timeInterval)
	}
	for i, a := range [][]byte{addl, nil} {
		buf, err := gen1(g, a)
		if err != drbg.ErrReseedRequired {
			return fmt.Errorf("GM generate %d, %v after instantiation (interval %v): err=%v, want the reseed-required error", i, time.Since(t1), timeInterval, err)
		}
		if !untouched(buf) {
			return fmt.Errorf("GM generate refused by the time rule wrote to the output buffer: %x", buf)
		}
	}
	// the NIST twin has no time rule: 2 of 8 generates used, must go on
	wantN, _ := mn.Generate(n, addl)
	gotN, errN := gen1(nn, addl)
	if errN != nil || !bytes.Equal(gotN, wantN) {
		return fmt.Errorf("NIST twin after %v: err=%v got %x want %x (NIST mode has no time rule)", time.Since(t1), errN, gotN, wantN)
	}
	if nn.NeedReseed() {
		return fmt.Errorf("NIST twin NeedReseed() is true after %v with 3 of %d generates used", time.Since(t1), testInterval)
	}

	// --- reseed clears the time rule; the next outputs equal the model's, so a
	// refusal that advanced the state is caught
	t2 := time.Now()
	if err := g.Reseed(reseedEnt, addl); err != nil {
		return fmt.Errorf("GM reseed: %v", err)
	}
	if mg.Reseed(reseedEnt, addl) != eOK {
		return fmt.Errorf("c17 harness: model rejected the reseed")
	}
	for i := 0; i < 2; i++ {
		want, _ := mg.Generate(n, nil)
		got, err := gen1(g, nil)
		if err != nil || !bytes.Equal(got, want) {
			if time.Since(t2) >= timeEarly {
				r.Label("late-skipped")
				return nil
			}
			return fmt.Errorf("GM generate %d after reseed (%v after it): err=%v got %x want %x", i, time.Since(t2), err, got, want)
		}
	}
	r.Label("reseed-cleared-time-rule")

	// --- reader wrapper: after the interval the next Read must reseed from the
	// entropy source (one more call of `strength` bytes) and go on
	mp.d.expired = true
	wantP, _ := mp.read(10)
	gotP := make([]byte, 10)
	if _, err := p.Read(gotP); err != nil {
		return fmt.Errorf("GM reader wrapper, Read after the interval: %v", err)
	}
	if !sameCalls(src.calls, mp.calls) {
		return fmt.Errorf("GM reader wrapper, Read %v after instantiation: entropy calls %v, want %v (a reseed of %d bytes)", time.Since(t1), src.calls, mp.calls, strength)
	}
	if !bytes.Equal(gotP, wantP) {
		return fmt.Errorf("GM reader wrapper, Read after the time-forced reseed = %x, want %x", gotP, wantP)
	}
	r.Label("reader-reseeded-by-time")
	return nil
}
