package c17

import (
	"bytes"
	"errors"
	"fmt"
	"io"
	"testing"
	"time"

	"github.com/emmansun/gmsm/drbg"
	"pgregory.net/rapid"
	"verif/harness/gen"
	"verif/harness/h"
)

// ---------------------------------------------------------------- scripted entropy source

var errScripted = errors.New("c17: scripted entropy source failure")

var faultKinds = []string{"error", "short-1", "short-half", "zero", "short+err"}

// entropyBytes: what call number i of the entropy source returns for an n-byte
// request. Every call has its own stream, so a short read cannot shift later data.
func entropyBytes(seed uint64, i, n int) []byte { return gen.Fill(gen.Mix(seed, 0xE17, uint64(i)), n) }

// faultLen: how many bytes a misbehaving call delivers (always < n for n > 0).
func faultLen(kind string, n int) int {
	switch kind {
	case "short-1", "short+err":
		return n - 1
	case "short-half":
		return n / 2
	}
	return 0
}

type scriptedReader struct {
	seed   uint64
	failAt int
	kind   string
	calls  []int // requested length of every call
}

// runawayCalls bounds the number of entropy requests of one case (a case needs
// a few dozen at most): a wrapper that keeps reseeding without making progress
// gets an error from the source instead of hanging the check.
const runawayCalls = 2000

var errRunaway = errors.New("c17: entropy source asked 2000 times in one case - the wrapper reseeds without making progress")

func (s *scriptedReader) Read(p []byte) (int, error) {
	i := len(s.calls)
	if i >= runawayCalls {
		return 0, errRunaway
	}
	s.calls = append(s.calls, len(p))
	data := entropyBytes(s.seed, i, len(p))
	if i == s.failAt {
		k := faultLen(s.kind, len(p))
		if k < 0 {
			k = 0
		}
		copy(p, data[:k])
		switch s.kind {
		case "error":
			return 0, errScripted
		case "short+err":
			return k, io.ErrUnexpectedEOF
		}
		return k, nil
	}
	copy(p, data)
	return len(p), nil
}

// ---------------------------------------------------------------- model of the reader wrapper

// selectStrength follows the code's documentation: "the lowest security
// strength greater than or equal to the requested one from the set {112, 128,
// 192, 256}" bits; larger requests are passed through as the code does.
func selectStrength(requested int) int {
	for _, s := range []int{14, 16, 24, 32} {
		if requested <= s {
			return s
		}
	}
	return requested
}

type refPRNG struct {
	d        *refDRBG
	strength int
	seed     uint64
	failAt   int
	calls    []int
	faultHit bool
}

// entropy models one call of the entropy source; ok == false if it fails or is short.
func (p *refPRNG) entropy(n int) ([]byte, bool) {
	i := len(p.calls)
	p.calls = append(p.calls, n)
	if i == p.failAt {
		p.faultHit = true
		return nil, false
	}
	return entropyBytes(p.seed, i, n), true
}

func newRefPRNG(m mechSpec, gm bool, requested int, pers []byte, seed uint64, failAt int) (*refPRNG, bool) {
	p := &refPRNG{strength: selectStrength(requested), seed: seed, failAt: failAt}
	if gm && m.Kind != "hmac" && requested < 32 {
		return p, false
	}
	ent, ok := p.entropy(p.strength)
	if !ok {
		return p, false
	}
	nonce, ok := p.entropy(p.strength / 2)
	if !ok {
		return p, false
	}
	d, ec := newRef(m, gm, testInterval, ent, nonce, pers)
	if ec != eOK {
		return p, false
	}
	p.d = d
	return p, true
}

// read: chain requests of at most MaxBytesPerRequest; when the generator asks
// for a reseed, fetch `strength` bytes from the source and reseed.
func (p *refPRNG) read(n int) ([]byte, bool) {
	var out []byte
	for len(out) < n {
		chunk := n - len(out)
		if mx := p.d.m.maxRequest(p.d.gm); chunk > mx {
			chunk = mx
		}
		b, ec := p.d.Generate(chunk, nil)
		switch ec {
		case eOK:
			out = append(out, b...)
		case eReseed:
			ent, ok := p.entropy(p.strength)
			if !ok {
				return nil, false
			}
			if p.d.Reseed(ent, nil) != eOK {
				return nil, false
			}
		default:
			return nil, false
		}
	}
	return out, true
}

// ---------------------------------------------------------------- the check

type prngCase struct {
	Mech     string
	GM       bool
	Wrap     bool
	Strength int // requested security strength in bytes
	Pers     int
	Seed     uint64
	Reads    []int
	FailAt   int    // index of the entropy-source call that misbehaves; -1 = never
	FailKind string // see faultKinds
	// memory flavours, see mem_test.go; Read number i of 0 bytes uses zero-length flavour (i+PersZ)%3
	Scribble bool
	Spare    bool
	PersZ    int
}

func (c prngCase) Key() string {
	return fmt.Sprintf("%s/%v/%v/%d/%d/%v/%d/%s/%v%v%d", c.Mech, c.GM, c.Wrap, c.Strength, c.Pers, c.Reads, c.FailAt, c.FailKind, c.Scribble, c.Spare, c.PersZ)
}

func newLibPRNG(m mechSpec, gm, wrap bool, src io.Reader, strength int, pers []byte) (*drbg.DrbgPrng, error) {
	lvl := drbg.SECURITY_LEVEL_TEST
	switch m.Kind {
	case "hash":
		switch {
		case wrap && gm && m.Prim == "sm3":
			return drbg.NewGmHashDrbgPrng(src, strength, lvl, pers)
		case wrap && !gm:
			return drbg.NewNistHashDrbgPrng(libHash(m.Prim), src, strength, lvl, pers)
		}
		return drbg.NewHashDrbgPrng(libHash(m.Prim), src, strength, gm, lvl, pers)
	case "hmac":
		if wrap && !gm {
			return drbg.NewNistHmacDrbgPrng(libHash(m.Prim), src, strength, lvl, pers)
		}
		return drbg.NewHmacDrbgPrng(libHash(m.Prim), src, strength, gm, lvl, pers)
	}
	cp, kl := libCipher(m.Prim)
	switch {
	case wrap && gm && m.Prim == "sm4":
		return drbg.NewGmCtrDrbgPrng(src, strength, lvl, pers)
	case wrap && !gm:
		return drbg.NewNistCtrDrbgPrng(cp, kl, src, strength, lvl, pers)
	}
	return drbg.NewCtrDrbgPrng(cp, kl, src, strength, gm, lvl, pers)
}

func sameCalls(a, b []int) bool {
	if len(a) != len(b) {
		return false
	}
	for i := range a {
		if a[i] != b[i] {
			return false
		}
	}
	return true
}

func checkPRNG(c prngCase, r *h.Rec) error {
	m := mechByName(c.Mech)
	mode := "nist"
	if c.GM {
		mode = "gm"
	}
	r.Label("prng/%s/%s", c.Mech, mode)
	pers := gen.Fill(gen.Mix(c.Seed, 3), c.Pers)

	// model first
	mp, mok := newRefPRNG(m, c.GM, c.Strength, pers, c.Seed, c.FailAt)
	type res struct {
		out     []byte
		ok      bool
		calls   int
		faulted bool // the scripted fault has happened by the end of this Read
	}
	var want []res
	if mok {
		for _, n := range c.Reads {
			out, ok := mp.read(n)
			want = append(want, res{out, ok, len(mp.calls), mp.faultHit})
		}
	}
	reseeds := len(mp.calls) - 2
	failed := false
	for _, w := range want {
		if !w.ok {
			failed = true
		} else if failed && len(w.out) > 0 {
			r.Label("read-ok-after-failed-read")
			break
		}
	}
	if !mok {
		r.Label("prng-instantiate-rejected")
	}
	if mp.faultHit {
		r.Label("fault-hit/" + c.FailKind)
		if c.FailAt < 2 {
			r.Label("fault-at-instantiate")
		} else {
			r.Label("fault-at-reseed")
		}
	}
	if reseeds > 0 {
		r.Label("prng-reseeded")
	}
	if reseeds >= 2 {
		r.Label("prng-reseeded>=2x")
	}
	r.NTIf(mp.faultHit || reseeds > 0 || !mok)

	// library
	start := time.Now() // GM mode only: see the clock guard below
	src := &scriptedReader{seed: c.Seed, failAt: c.FailAt, kind: c.FailKind}
	persA := mkArg(pers, c.PersZ, c.Spare)
	p, err := newLibPRNG(m, c.GM, c.Wrap, src, c.Strength, persA.s)
	if cerr := persA.check("constructor (personalisation)"); cerr != nil {
		return cerr
	}
	if c.Scribble {
		persA.scribble(1)
		r.Label("scribble-after-every-call")
	}
	if c.Spare {
		r.Label("spare-capacity")
	}
	if (err != nil) != !mok {
		return fmt.Errorf("constructor(strength %d, fault %s at entropy call %d): library error %v, model ok=%v", c.Strength, c.FailKind, c.FailAt, err, mok)
	}
	if err != nil {
		return nil
	}
	if p == nil {
		return fmt.Errorf("constructor returned neither an object nor an error")
	}
	stalled := func() bool {
		// GM mode reseeds after 6 s wall time; a stalled process makes the
		// library reseed earlier than the model. Drop such a case (one-sided).
		if c.GM && time.Since(start) > 3*time.Second {
			r.Label("dropped-clock-stall")
			return true
		}
		return false
	}
	for i, n := range c.Reads {
		w := want[i]
		ob := mkOut(n, (i+c.PersZ)%3, c.Spare)
		buf := ob.b
		k, err := p.Read(buf)
		if cerr := ob.check(); cerr != nil {
			return fmt.Errorf("read %d (%d bytes): %v", i, n, cerr)
		}
		if n == 0 {
			r.Label("read-0-" + zNames[(i+c.PersZ)%3])
		}
		if err != nil && !w.faulted {
			// The wrapper's contract: an error only when the entropy source
			// fails or is short. Here the source delivered everything it was
			// asked for.
			if stalled() {
				return nil
			}
			return fmt.Errorf("read %d (%d bytes): Read failed (%v) although the entropy source delivered every byte it was asked for (calls %v, strength %d, reseed minimum %d); reads %v", i, n, err, src.calls, mp.strength, m.minEntropyReseed(c.GM), c.Reads)
		}
		if (err != nil) != !w.ok {
			if stalled() {
				return nil
			}
			return fmt.Errorf("read %d (%d bytes; fault %s at entropy call %d, %d calls so far): library error %v, model ok=%v; reads %v", i, n, c.FailKind, c.FailAt, len(src.calls), err, w.ok, c.Reads)
		}
		if err == nil {
			if k != n {
				return fmt.Errorf("read %d: Read returned n=%d for a %d-byte buffer without an error", i, k, n)
			}
			if !bytes.Equal(buf, w.out) {
				if stalled() {
					return nil
				}
				return fmt.Errorf("read %d (%d bytes) = %s, chained specification output %s; reads %v, entropy calls %v (model %v)", i, n, h.Hex(buf), h.Hex(w.out), c.Reads, src.calls, mp.calls[:w.calls])
			}
		}
		if !sameCalls(src.calls, mp.calls[:w.calls]) {
			if stalled() {
				return nil
			}
			return fmt.Errorf("read %d: entropy source was asked for %v, model %v (strength %d)", i, src.calls, mp.calls[:w.calls], mp.strength)
		}
		if c.Scribble {
			ob.scribble(uint64(i))
		}
	}
	return nil
}

func readSizes(m mechSpec, gm bool) []int {
	mx := m.maxRequest(gm)
	return uniq([]int{0, 1, mx - 1, mx, mx + 1, 3*mx + 7, 17, 2 * mx}, 0, 1<<20)
}

func TestC17_Prng(t *testing.T) {
	h.Prop(t, h.P{Name: "prng", Quick: 4000, Thorough: 100000}, func(t *rapid.T) prngCase {
		m := pickMech(t, mechs)
		gm := rapid.Bool().Draw(t, "gm")
		c := prngCase{Mech: m.Name, GM: gm, Wrap: rapid.Bool().Draw(t, "wrap"), FailAt: -1, FailKind: "error"}
		if chance(t, "oddStrength", 15) {
			c.Strength = rapid.SampledFrom([]int{0, 1, 14, 15, 16, 20, 24, 31, 32, 33, 48, 64}).Draw(t, "strength")
		} else {
			// a strength the mode accepts for this primitive
			need := m.minEntropyInstantiate(gm)
			if r := m.minEntropyReseed(gm); r > need {
				need = r
			}
			c.Strength = rapid.SampledFrom(uniq([]int{16, 24, 32, 48, 64, need}, need, 64)).Draw(t, "strength")
		}
		c.Pers = rapid.SampledFrom([]int{0, 0, 5, 32}).Draw(t, "pers")
		c.Seed = rapid.Uint64().Draw(t, "seed")
		c.Scribble = !chance(t, "noScribble", 25)
		c.Spare = rapid.Bool().Draw(t, "spare")
		c.PersZ = rapid.IntRange(0, 2).Draw(t, "persZero")
		sizes := readSizes(m, gm)
		n := rapid.IntRange(1, 12).Draw(t, "reads")
		n = 13 - n // mostly many reads
		pBig := rapid.SampledFrom([]int{35, 15, 5}).Draw(t, "pBig")
		for i := 0; i < n; i++ {
			if chance(t, "big", pBig) {
				c.Reads = append(c.Reads, 3*m.maxRequest(gm)+7)
			} else {
				c.Reads = append(c.Reads, rapid.SampledFrom(sizes).Draw(t, "size"))
			}
		}
		if rapid.Bool().Draw(t, "fault") {
			c.FailAt = rapid.IntRange(0, 7).Draw(t, "failAt")
			c.FailKind = rapid.SampledFrom(faultKinds).Draw(t, "failKind")
		}
		return c
	}, checkPRNG)
}

// TestC17_PrngFaults: for every mechanism and mode, a fixed read script that
// crosses the reseed interval several times, with the entropy source failing
// at EVERY call index in turn (0 = entropy, 1 = nonce, 2.. = reseeds), for
// every fault kind, plus the fault-free run.
func TestC17_PrngFaults(t *testing.T) {
	h.MarkExhaustive("prng-faults")
	h.Sweep(t, h.P{Name: "prng-faults"}, func(emit func(prngCase)) {
		for _, m := range mechs {
			for _, gm := range []bool{false, true} {
				need := m.minEntropyInstantiate(gm)
				if r := m.minEntropyReseed(gm); r > need {
					need = r
				}
				if need < 32 {
					need = 32
				}
				mx := m.maxRequest(gm)
				script := []int{3*mx + 7, mx + 1, 0, 1, mx - 1, mx, 3*mx + 7, 3*mx + 7, 17, 3*mx + 7, 2 * mx, 1}
				base := prngCase{Mech: m.Name, GM: gm, Strength: need, Pers: 11, Seed: gen.Mix(h.Seed, uint64(len(m.Name)), 77), Reads: script, FailAt: -1, FailKind: "error"}
				// how many entropy calls does the fault-free run make?
				mp, ok := newRefPRNG(m, gm, base.Strength, nil, base.Seed, -1)
				if !ok {
					panic("c17: prng-faults base case does not instantiate: " + m.Name)
				}
				for _, n := range script {
					mp.read(n)
				}
				emit(base)
				scr := base
				scr.Scribble, scr.Spare = true, true
				emit(scr)
				for i := 0; i < len(mp.calls); i++ {
					for j, k := range faultKinds {
						c := base
						c.FailAt, c.FailKind, c.Wrap = i, k, (i+j)%2 == 0
						c.Scribble, c.Spare, c.PersZ = (i+j)%4 != 0, j%2 == 0, (i+j)%3
						emit(c)
					}
				}
			}
		}
	}, checkPRNG)
}
