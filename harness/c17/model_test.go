// Reference model for C17: the three DRBG mechanisms of NIST SP 800-90A rev.1
// section 10, written from the text of the standard in the most direct form
// (byte strings, math/big for the modular additions, one primitive call per
// step) and parametrised by a hash function resp. a block cipher.
//
//	10.1.1  Hash_DRBG   (Hash_df 10.3.1, Hashgen 10.1.1.4)
//	10.1.2  HMAC_DRBG   (HMAC_DRBG_Update 10.1.2.2; HMAC itself from RFC 2104)
//	10.2.1  CTR_DRBG with derivation function, ctr_len = blocklen
//	        (CTR_DRBG_Update 10.2.1.2, Block_Cipher_df 10.3.2, BCC 10.3.3)
//
// Nothing here is taken from /repo/drbg. Primitives: crypto/sha1, sha256,
// sha512, aes from the Go standard library and the harness' own textbook
// ref.SM3 / ref.NewSM4 (the library's sm3/sm4 are NOT used by the model).
//
// The envelope (refDRBG) adds what SP 800-90A section 9 and the code's
// documentation fix around the mechanisms: reseed counter and interval,
// request-size limit, minimum input lengths, and - "GM mode" - the deltas
// that /repo/drbg documents against GM/T 0105-2021.
package c17

import (
	"crypto/aes"
	"crypto/sha1"
	"crypto/sha256"
	"crypto/sha512"
	"math/big"

	"verif/harness/ref"
)

// ---------------------------------------------------------------- primitives

type hashPrim struct {
	name     string
	sum      func([]byte) []byte
	outlen   int // bytes
	blocklen int // input block of the compression function (for HMAC), bytes
	seedlen  int // SP 800-90A table 2: 440 bits (55) or 888 bits (111)
}

var hashPrims = map[string]hashPrim{
	"sm3":        {"sm3", func(b []byte) []byte { d := ref.SM3(b); return d[:] }, 32, 64, 55}, // GM/T 0105: seedlen 440
	"sha1":       {"sha1", func(b []byte) []byte { d := sha1.Sum(b); return d[:] }, 20, 64, 55},
	"sha224":     {"sha224", func(b []byte) []byte { d := sha256.Sum224(b); return d[:] }, 28, 64, 55},
	"sha256":     {"sha256", func(b []byte) []byte { d := sha256.Sum256(b); return d[:] }, 32, 64, 55},
	"sha384":     {"sha384", func(b []byte) []byte { d := sha512.Sum384(b); return d[:] }, 48, 128, 111},
	"sha512":     {"sha512", func(b []byte) []byte { d := sha512.Sum512(b); return d[:] }, 64, 128, 111},
	"sha512_224": {"sha512_224", func(b []byte) []byte { d := sha512.Sum512_224(b); return d[:] }, 28, 128, 55},
	"sha512_256": {"sha512_256", func(b []byte) []byte { d := sha512.Sum512_256(b); return d[:] }, 32, 128, 55},
}

type cipherPrim struct {
	name     string
	keylen   int
	blocklen int
	newEnc   func(key []byte) func(in []byte) []byte
}

func aesEnc(key []byte) func([]byte) []byte {
	b, err := aes.NewCipher(key)
	if err != nil {
		panic(err)
	}
	return func(in []byte) []byte { out := make([]byte, 16); b.Encrypt(out, in); return out }
}

func sm4Enc(key []byte) func([]byte) []byte {
	k := ref.NewSM4(key)
	return func(in []byte) []byte { out := make([]byte, 16); k.Encrypt(out, in); return out }
}

var cipherPrims = map[string]cipherPrim{
	"sm4":    {"sm4", 16, 16, sm4Enc},
	"aes128": {"aes128", 16, 16, aesEnc},
	"aes192": {"aes192", 24, 16, aesEnc},
	"aes256": {"aes256", 32, 16, aesEnc},
}

// ---------------------------------------------------------------- helpers

func cat(parts ...[]byte) []byte {
	var out []byte
	for _, p := range parts {
		out = append(out, p...)
	}
	return out
}

func be32(x uint32) []byte { return []byte{byte(x >> 24), byte(x >> 16), byte(x >> 8), byte(x)} }

// addMod returns (sum of the big-endian integers terms) mod 2^(8*n) as n bytes.
func addMod(n int, terms ...[]byte) []byte {
	s := new(big.Int)
	for _, t := range terms {
		s.Add(s, new(big.Int).SetBytes(t))
	}
	m := new(big.Int).Lsh(big.NewInt(1), uint(8*n))
	s.Mod(s, m)
	return s.FillBytes(make([]byte, n))
}

func xorBytes(a, b []byte) []byte {
	if len(a) != len(b) {
		panic("model: xor of unequal lengths")
	}
	out := make([]byte, len(a))
	for i := range a {
		out[i] = a[i] ^ b[i]
	}
	return out
}

// hmacRef is HMAC per RFC 2104: H((K0 ^ opad) || H((K0 ^ ipad) || text)).
func hmacRef(p hashPrim, key, text []byte) []byte {
	k0 := key
	if len(k0) > p.blocklen {
		k0 = p.sum(k0)
	}
	k0 = append(append([]byte{}, k0...), make([]byte, p.blocklen-len(k0))...)
	ipad := make([]byte, p.blocklen)
	opad := make([]byte, p.blocklen)
	for i := range k0 {
		ipad[i] = k0[i] ^ 0x36
		opad[i] = k0[i] ^ 0x5c
	}
	return p.sum(cat(opad, p.sum(cat(ipad, text))))
}

// ---------------------------------------------------------------- mechanisms

// core is the working state of one mechanism; the reseed counter lives in the
// envelope and is passed to generate because Hash_DRBG adds it into V.
type core interface {
	instantiate(entropy, nonce, pers []byte)
	reseed(entropy, addl []byte)
	generate(n int, addl []byte, reseedCounter uint64) []byte
	state() (v, other []byte) // (V, C) resp. (V, Key): for the CAVP intermediate values
}

// --- 10.1.1 Hash_DRBG

type hashCore struct {
	p        hashPrim
	gmReseed bool // GM/T 0105 delta: reseed material 0x01 || entropy || V || additional
	V, C     []byte
}

// hashDF is Hash_df (10.3.1).
func (d *hashCore) hashDF(input []byte, nbytes int) []byte {
	var temp []byte
	counter := byte(1)
	for len(temp) < nbytes {
		temp = append(temp, d.p.sum(cat([]byte{counter}, be32(uint32(nbytes*8)), input))...)
		counter++
	}
	return temp[:nbytes]
}

func (d *hashCore) instantiate(entropy, nonce, pers []byte) {
	seed := d.hashDF(cat(entropy, nonce, pers), d.p.seedlen)
	d.V = seed
	d.C = d.hashDF(cat([]byte{0x00}, d.V), d.p.seedlen)
}

func (d *hashCore) reseed(entropy, addl []byte) {
	var material []byte
	if d.gmReseed {
		material = cat([]byte{0x01}, entropy, d.V, addl)
	} else {
		material = cat([]byte{0x01}, d.V, entropy, addl)
	}
	seed := d.hashDF(material, d.p.seedlen)
	d.V = seed
	d.C = d.hashDF(cat([]byte{0x00}, d.V), d.p.seedlen)
}

func (d *hashCore) generate(n int, addl []byte, reseedCounter uint64) []byte {
	sl := d.p.seedlen
	if len(addl) > 0 {
		w := d.p.sum(cat([]byte{0x02}, d.V, addl))
		d.V = addMod(sl, d.V, w)
	}
	// Hashgen
	var W []byte
	data := d.V
	for len(W) < n {
		W = append(W, d.p.sum(data)...)
		data = addMod(sl, data, []byte{1})
	}
	out := W[:n]
	H := d.p.sum(cat([]byte{0x03}, d.V))
	d.V = addMod(sl, d.V, H, d.C, new(big.Int).SetUint64(reseedCounter).Bytes())
	return out
}

func (d *hashCore) state() ([]byte, []byte) { return d.V, d.C }

// --- 10.1.2 HMAC_DRBG

type hmacCore struct {
	p      hashPrim
	Key, V []byte
}

func (d *hmacCore) update(provided []byte) {
	d.Key = hmacRef(d.p, d.Key, cat(d.V, []byte{0x00}, provided))
	d.V = hmacRef(d.p, d.Key, d.V)
	if len(provided) == 0 {
		return
	}
	d.Key = hmacRef(d.p, d.Key, cat(d.V, []byte{0x01}, provided))
	d.V = hmacRef(d.p, d.Key, d.V)
}

func (d *hmacCore) instantiate(entropy, nonce, pers []byte) {
	d.Key = make([]byte, d.p.outlen)
	d.V = make([]byte, d.p.outlen)
	for i := range d.V {
		d.V[i] = 0x01
	}
	d.update(cat(entropy, nonce, pers))
}

func (d *hmacCore) reseed(entropy, addl []byte) { d.update(cat(entropy, addl)) }

func (d *hmacCore) generate(n int, addl []byte, _ uint64) []byte {
	if len(addl) > 0 {
		d.update(addl)
	}
	var temp []byte
	for len(temp) < n {
		d.V = hmacRef(d.p, d.Key, d.V)
		temp = append(temp, d.V...)
	}
	out := temp[:n]
	d.update(addl)
	return out
}

func (d *hmacCore) state() ([]byte, []byte) { return d.V, d.Key }

// --- 10.2.1 CTR_DRBG with derivation function

type ctrCore struct {
	p      cipherPrim
	Key, V []byte
}

func (d *ctrCore) seedlen() int { return d.p.keylen + d.p.blocklen }

func (d *ctrCore) update(provided []byte) {
	enc := d.p.newEnc(d.Key)
	var temp []byte
	for len(temp) < d.seedlen() {
		d.V = addMod(d.p.blocklen, d.V, []byte{1})
		temp = append(temp, enc(d.V)...)
	}
	temp = xorBytes(temp[:d.seedlen()], provided)
	d.Key = temp[:d.p.keylen]
	d.V = temp[len(temp)-d.p.blocklen:]
}

// bcc is BCC (10.3.3).
func (d *ctrCore) bcc(enc func([]byte) []byte, data []byte) []byte {
	bl := d.p.blocklen
	chain := make([]byte, bl)
	for i := 0; i+bl <= len(data); i += bl {
		chain = enc(xorBytes(chain, data[i:i+bl]))
	}
	return chain
}

// df is Block_Cipher_df (10.3.2).
func (d *ctrCore) df(input []byte, nbytes int) []byte {
	bl, kl := d.p.blocklen, d.p.keylen
	S := cat(be32(uint32(len(input))), be32(uint32(nbytes)), input, []byte{0x80})
	for len(S)%bl != 0 {
		S = append(S, 0)
	}
	K := make([]byte, kl)
	for i := range K {
		K[i] = byte(i)
	}
	enc := d.p.newEnc(K)
	var temp []byte
	for i := uint32(0); len(temp) < kl+bl; i++ {
		IV := cat(be32(i), make([]byte, bl-4))
		temp = append(temp, d.bcc(enc, cat(IV, S))...)
	}
	K = temp[:kl]
	X := temp[kl : kl+bl]
	enc = d.p.newEnc(K)
	temp = nil
	for len(temp) < nbytes {
		X = enc(X)
		temp = append(temp, X...)
	}
	return temp[:nbytes]
}

func (d *ctrCore) instantiate(entropy, nonce, pers []byte) {
	material := d.df(cat(entropy, nonce, pers), d.seedlen())
	d.Key = make([]byte, d.p.keylen)
	d.V = make([]byte, d.p.blocklen)
	d.update(material)
}

func (d *ctrCore) reseed(entropy, addl []byte) {
	d.update(d.df(cat(entropy, addl), d.seedlen()))
}

func (d *ctrCore) generate(n int, addl []byte, _ uint64) []byte {
	if len(addl) > 0 {
		addl = d.df(addl, d.seedlen())
		d.update(addl)
	} else {
		addl = make([]byte, d.seedlen())
	}
	enc := d.p.newEnc(d.Key)
	var temp []byte
	for len(temp) < n {
		d.V = addMod(d.p.blocklen, d.V, []byte{1})
		temp = append(temp, enc(d.V)...)
	}
	out := temp[:n]
	d.update(addl)
	return out
}

func (d *ctrCore) state() ([]byte, []byte) { return d.V, d.Key }

// ---------------------------------------------------------------- envelope

type errClass int

const (
	eOK      errClass = iota
	eReseed           // the reseed-required error (drbg.ErrReseedRequired)
	eInvalid          // any other error: invalid length / too many bytes requested
)

func (e errClass) String() string {
	return [...]string{"ok", "reseed-required", "invalid-argument"}[e]
}

// mechSpec names one (mechanism, primitive) pair.
type mechSpec struct {
	Name string // e.g. "hash-sm3", "hmac-sha256", "ctr-aes192"
	Kind string // "hash" | "hmac" | "ctr"
	Prim string // key into hashPrims / cipherPrims
}

func (m mechSpec) outlen() int {
	if m.Kind == "ctr" {
		return cipherPrims[m.Prim].blocklen
	}
	return hashPrims[m.Prim].outlen
}

// The limits below are what /repo/drbg documents (constants MAX_BYTES_PER_GENERATE,
// the "(hd.gm && len(..) < ..)" conditions and their comments). SP 800-90A
// leaves the maximum request size to the implementation (at most 2^19 bits)
// and the code documents 2048 bytes (MaxBytesPerRequest) for NIST mode;
// GM/T 0105-2021 allows one output block per request. SP 800-90A's minimum
// entropy length is NOT enforced by the code in NIST mode ("for the min
// length, we just check <=0 now"), so the model's NIST minimum is 1 byte.
const (
	nistMaxRequest = 2048 // drbg.MAX_BYTES_PER_GENERATE
	maxInputBytes  = 1 << 27
)

func (m mechSpec) maxRequest(gm bool) int {
	if gm && m.Kind != "hmac" {
		return m.outlen()
	}
	return nistMaxRequest
}

func (m mechSpec) minEntropyInstantiate(gm bool) int {
	if gm {
		switch m.Kind {
		case "hash", "hmac": // hmac: the code's own GM flavour, same minimum as its Reseed
			return m.outlen()
		case "ctr":
			return 32
		}
	}
	return 1
}

// safeEntropy is an instantiate entropy length that is valid under every
// reading (at least the instantiate and the reseed minimum); the generators
// use it for their main path and visit the HMAC-GM "either" zone separately.
func (m mechSpec) safeEntropy(gm bool) int {
	a, b := m.minEntropyInstantiate(gm), m.minEntropyReseed(gm)
	if b > a {
		return b
	}
	return a
}

func (m mechSpec) minNonce(gm bool) int {
	if gm {
		switch m.Kind {
		case "hash":
			return m.outlen() / 2
		case "ctr":
			return 16
		}
	}
	return 1
}

func (m mechSpec) minEntropyReseed(gm bool) int {
	if gm {
		switch m.Kind {
		case "hash", "hmac":
			return m.outlen()
		case "ctr":
			return 32
		}
	}
	return 1
}

type refDRBG struct {
	m        mechSpec
	gm       bool
	interval uint64
	counter  uint64
	expired  bool // GM time rule: set by the time scenario after the interval has elapsed
	c        core
}

func newCore(m mechSpec, gm bool) core {
	switch m.Kind {
	case "hash":
		return &hashCore{p: hashPrims[m.Prim], gmReseed: gm}
	case "hmac":
		return &hmacCore{p: hashPrims[m.Prim]}
	case "ctr":
		return &ctrCore{p: cipherPrims[m.Prim]}
	}
	panic("model: unknown mechanism kind " + m.Kind)
}

func newRef(m mechSpec, gm bool, interval uint64, entropy, nonce, pers []byte) (*refDRBG, errClass) {
	if len(entropy) < m.minEntropyInstantiate(gm) || len(entropy) >= maxInputBytes {
		return nil, eInvalid
	}
	if len(nonce) < m.minNonce(gm) || len(nonce) >= maxInputBytes/2 {
		return nil, eInvalid
	}
	if len(pers) >= maxInputBytes {
		return nil, eInvalid
	}
	d := &refDRBG{m: m, gm: gm, interval: interval, c: newCore(m, gm)}
	d.c.instantiate(entropy, nonce, pers)
	d.counter = 1
	return d, eOK
}

func (d *refDRBG) needReseed() bool { return d.counter > d.interval || (d.gm && d.expired) }

func (d *refDRBG) Reseed(entropy, addl []byte) errClass {
	if len(entropy) < d.m.minEntropyReseed(d.gm) || len(entropy) >= maxInputBytes {
		return eInvalid
	}
	if len(addl) >= maxInputBytes {
		return eInvalid
	}
	d.c.reseed(entropy, addl)
	d.counter = 1
	d.expired = false
	return eOK
}

// Generate: the reseed gate comes first (the property: after `interval`
// generates EVERY further generate call is refused with the reseed-required
// error), then the request-size check; neither touches the state.
func (d *refDRBG) Generate(n int, addl []byte) ([]byte, errClass) {
	if d.needReseed() {
		return nil, eReseed
	}
	if n > d.m.maxRequest(d.gm) {
		return nil, eInvalid
	}
	out := d.c.generate(n, addl, d.counter)
	d.counter++
	return out, eOK
}
