package c17

import (
	"encoding/binary"
	"runtime/debug"
	"testing"

	"verif/harness/h"
)

// Native coverage-guided fuzz targets (thorough tier only; the driver runs
// `go test -fuzz`). Both targets are data providers: the fuzzer's bytes are
// decoded into a well-formed case of an existing case type (seqCase /
// prngCase: selector bytes -> choices, length fields reduced modulo the legal
// range, the filler seed taken from the input), and the case goes through the
// SAME check function as the rapid properties and sweeps (checkSeq /
// checkPRNG: the whole history is first run through the reference model, then
// error classes, output bytes, NeedReseed, buffers and argument slices are
// compared after every call). Every byte string of at least the header length
// is a case the property quantifies over; the security level is always "test"
// (interval 8) so that one input stays well under a millisecond-to-few-ms.

const (
	fuzzSeqHeader  = 16
	fuzzSeqMaxOps  = 40
	fuzzMaxInput   = 300 // entropy / nonce / personalisation / additional-input lengths 0..300
	fuzzPrngHeader = 14
	fuzzPrngReads  = 12
)

// decodeSeq: header (16 bytes) = mechanism, flags, entropy / nonce /
// personalisation lengths (16 bit each, mod 301), filler seed; then 4 bytes
// per op: selector, 16-bit size, additional-input length.
func decodeSeq(d []byte) (seqCase, bool) {
	if len(d) < fuzzSeqHeader {
		return seqCase{}, false
	}
	m := mechs[int(d[0])%len(mechs)]
	f := d[1]
	c := seqCase{Mech: m.Name, Level: "test"}
	c.GM = f&1 != 0
	c.Wrap = f&2 != 0
	c.Scribble = f&4 != 0
	c.Spare = f&8 != 0
	c.InstZ = int(f>>4) % 3
	c.Ent = int(binary.LittleEndian.Uint16(d[2:])) % (fuzzMaxInput + 1)
	c.Nonce = int(binary.LittleEndian.Uint16(d[4:])) % (fuzzMaxInput + 1)
	c.Pers = int(binary.LittleEndian.Uint16(d[6:])) % (fuzzMaxInput + 1)
	c.Seed = binary.LittleEndian.Uint64(d[8:])
	mx := m.maxRequest(c.GM)
	rest := d[fuzzSeqHeader:]
	for i := 0; i+3 < len(rest) && len(c.Ops) < fuzzSeqMaxOps; i += 4 {
		s := rest[i]
		x := int(binary.LittleEndian.Uint16(rest[i+1:]))
		var o opT
		if s&7 == 0 {
			o.K = "reseed"
			o.N = x % 131 // entropy 0..130: below, at and above every documented minimum (max 64)
		} else {
			o.K = "gen"
			if s&0x20 == 0 && mx > 258 {
				o.N = x % 259 // the cheap sizes, most of the time
			} else {
				o.N = x % (mx + 2) // request sizes 0..max+1
			}
		}
		o.Z = int(s>>3&3) % 3
		if s&0x40 != 0 {
			o.A = (int(rest[i+3]) | int(s>>7)<<8) % (fuzzMaxInput + 1)
		}
		c.Ops = append(c.Ops, o)
	}
	return c, true
}

func encodeSeq(mech int, flags byte, ent, nonce, pers int, seed uint64, ops ...[3]int) []byte {
	d := make([]byte, fuzzSeqHeader+4*len(ops))
	d[0], d[1] = byte(mech), flags
	binary.LittleEndian.PutUint16(d[2:], uint16(ent))
	binary.LittleEndian.PutUint16(d[4:], uint16(nonce))
	binary.LittleEndian.PutUint16(d[6:], uint16(pers))
	binary.LittleEndian.PutUint64(d[8:], seed)
	for i, o := range ops {
		// o = {selector, size, additional-input length}
		p := d[fuzzSeqHeader+4*i:]
		s := byte(o[0])
		if o[2] > 0 {
			s |= 0x40
			if o[2] > 255 {
				s |= 0x80
			}
		}
		p[0] = s
		binary.LittleEndian.PutUint16(p[1:], uint16(o[1]))
		p[3] = byte(o[2])
	}
	return d
}

func fuzzGuard(t *testing.T, what func() string) func() {
	old := debug.SetPanicOnFault(true)
	return func() {
		debug.SetPanicOnFault(old)
		if p := recover(); p != nil {
			t.Fatalf("panic: %v\n%s\ncase: %s", p, debug.Stack(), what())
		}
	}
}

// FuzzC17_Seq: generate/reseed histories of all 20 mechanisms in both modes,
// up to 40 ops (several reseed intervals), free lengths instead of the rapid
// alphabets; oracle = checkSeq (reference model, refusals leave buffer and
// state alone, memory discipline).
func FuzzC17_Seq(f *testing.F) {
	const (
		gen1   = 1    // gen, small size, z=0
		genBig = 0x21 // gen, size mod max+2
		genZ1  = 1 | 1<<3
		genZ2  = 1 | 2<<3
		rs     = 0 // reseed
	)
	hostileFor := map[string]bool{"hash-sm3": true, "hash-sha512": true, "hmac-sha256": true, "ctr-sm4": true, "ctr-aes256": true}
	for i, m := range mechs {
		for _, gm := range []bool{false, true} {
			fl := byte(0)
			if gm {
				fl = 1
			}
			e, n, mx, out := m.safeEntropy(gm), m.minNonce(gm), m.maxRequest(gm), m.outlen()
			if !gm {
				e, n = 32, 16
			}
			// a typical case: a full interval, a refusal, a reseed, output again
			ops := [][3]int{}
			for k := 0; k < testInterval; k++ {
				ops = append(ops, [3]int{gen1, out + k, (k % 2) * 7})
			}
			ops = append(ops, [3]int{gen1, 16, 0}, [3]int{rs, m.minEntropyReseed(gm) + 1, 23}, [3]int{gen1, 1, 0})
			if (i%2 == 0) == gm {
				f.Add(encodeSeq(i, fl|4|8, e, n, 7, uint64(i)+1, ops...))
			}
			if !hostileFor[m.Name] {
				continue // the hostile shapes below: a few mechanisms of each kind are enough as seeds
			}
			// boundary shapes: zero-byte request with additional input, max and max+1 requests,
			// too-long request with additional input, rejected reseeds (empty / one below the
			// minimum) inside and past the interval, reseed entropy longer than the digest
			f.Add(encodeSeq(i, fl|2, e, n, 0, 99,
				[3]int{genZ1, 0, 39}, [3]int{genBig, mx, 0}, [3]int{genBig, mx + 1, 55}, [3]int{gen1, out, 0},
				[3]int{rs, 0, 5}, [3]int{rs, m.minEntropyReseed(gm) - 1, 0}, [3]int{genZ2, 0, 0}, [3]int{gen1, 1, 0},
				[3]int{gen1, 1, 0}, [3]int{gen1, 1, 0}, [3]int{gen1, 1, 0}, [3]int{gen1, 1, 300},
				[3]int{genBig, mx + 1, 1}, [3]int{rs, 0, 0}, [3]int{gen1, 1, 0},
				[3]int{rs, 2*out + 1, 257}, [3]int{gen1, out + 1, 256}, [3]int{gen1, 255, 255}))
			// instantiate lengths: below the minimum, and 255/256/257
			f.Add(encodeSeq(i, fl, m.minEntropyInstantiate(gm)-1, n, 0, 5, [3]int{gen1, 1, 0}))
			f.Add(encodeSeq(i, fl|0x10, e, n-1, 0, 6, [3]int{gen1, 1, 0}))
			f.Add(encodeSeq(i, fl|0x20|8, 255, 256, 257, 7, [3]int{gen1, 17, 0}, [3]int{gen1, 33, 16}))
		}
	}
	f.Add(make([]byte, fuzzSeqHeader)) // no ops, empty entropy: instantiate rejected
	f.Fuzz(func(t *testing.T, data []byte) {
		c, ok := decodeSeq(data)
		if !ok {
			return
		}
		defer fuzzGuard(t, func() string { return describe(c, len(c.Ops)) })()
		if err := checkSeq(c, &h.Rec{}); err != nil {
			t.Fatalf("%v\ncase: %+v", err, c)
		}
	})
}

// decodePRNG: header (14 bytes) = mechanism, flags, requested strength 0..65,
// personalisation length, fault position (-1..10) and kind, filler seed; then
// 2 bytes per Read (up to 12): sizes 0..3*max+8, mostly around one request.
func decodePRNG(d []byte) (prngCase, bool) {
	if len(d) < fuzzPrngHeader {
		return prngCase{}, false
	}
	m := mechs[int(d[0])%len(mechs)]
	f := d[1]
	c := prngCase{Mech: m.Name}
	c.GM = f&1 != 0
	c.Wrap = f&2 != 0
	c.Scribble = f&4 != 0
	c.Spare = f&8 != 0
	c.PersZ = int(f>>4) % 3
	c.Strength = int(d[2]) % 66
	c.Pers = int(d[3])
	c.FailAt = int(d[4])%12 - 1
	c.FailKind = faultKinds[int(d[5])%len(faultKinds)]
	c.Seed = binary.LittleEndian.Uint64(d[6:])
	mx := m.maxRequest(c.GM)
	rest := d[fuzzPrngHeader:]
	for i := 0; i+1 < len(rest) && len(c.Reads) < fuzzPrngReads; i += 2 {
		x := int(binary.LittleEndian.Uint16(rest[i:]))
		if x&0x8000 != 0 {
			c.Reads = append(c.Reads, (x&0x7fff)%(3*mx+9))
		} else {
			c.Reads = append(c.Reads, (x&0x7fff)%(mx+2))
		}
	}
	return c, true
}

func encodePRNG(mech int, flags byte, strength, pers, failAt, kind int, seed uint64, reads ...int) []byte {
	d := make([]byte, fuzzPrngHeader+2*len(reads))
	d[0], d[1], d[2], d[3], d[4], d[5] = byte(mech), flags, byte(strength), byte(pers), byte(failAt+1), byte(kind)
	binary.LittleEndian.PutUint64(d[6:], seed)
	for i, n := range reads {
		binary.LittleEndian.PutUint16(d[fuzzPrngHeader+2*i:], uint16(n)|0x8000)
	}
	return d
}

// FuzzC17_Prng: the io.Reader wrapper over a scripted entropy source that
// misbehaves at one call index; oracle = checkPRNG (exactly len(p) bytes equal
// to the model's chained output, the model's sequence of entropy requests, an
// error iff the model's source failed).
func FuzzC17_Prng(f *testing.F) {
	for i, m := range mechs {
		if i%4 != 0 {
			continue
		}
		for _, gm := range []bool{false, true} {
			fl := byte(0)
			if gm {
				fl = 1
			}
			need := m.safeEntropy(gm)
			if need < 32 {
				need = 32
			}
			mx := m.maxRequest(gm)
			script := []int{3*mx + 7, mx + 1, 0, 1, mx - 1, mx, 3*mx + 7, 3*mx + 7, 17 % (mx + 2), 3*mx + 7, 2 * mx, 1}
			f.Add(encodePRNG(i, fl|4, need, 11, -1, 0, uint64(i)+3, script...))               // healthy source, three reseeds
			f.Add(encodePRNG(i, fl|8, need, 0, 2, 1+i%4, uint64(i)+4, script...))             // short at the first reseed
			f.Add(encodePRNG(i, fl|2, need, 32, 3, 0, uint64(i)+5, script...))                // error at the second reseed
			f.Add(encodePRNG(i, fl, need, 5, i/2%2, 3, uint64(i)+6, 1, 1))                    // nothing delivered at instantiate
			f.Add(encodePRNG(i, fl|0x10, []int{0, 1, 15, 33, 65}[i/2%5], 0, -1, 0, 9, mx, 1)) // odd strengths
		}
	}
	f.Add(make([]byte, fuzzPrngHeader))
	f.Fuzz(func(t *testing.T, data []byte) {
		c, ok := decodePRNG(data)
		if !ok {
			return
		}
		defer fuzzGuard(t, func() string { return c.Key() })()
		if err := checkPRNG(c, &h.Rec{}); err != nil {
			t.Fatalf("%v\ncase: %+v", err, c)
		}
	})
}
