package c17

import (
	"fmt"

	"verif/harness/gen"
)

// Memory flavours of slice arguments (follow-up classes 1 and 2):
//
//   - every argument is handed to the library as a PRIVATE copy (arg); with
//     Scribble the copy is overwritten with garbage as soon as the call (or
//     constructor) has returned, so a reference the library kept into caller
//     memory corrupts a LATER output, which is still compared with the model;
//   - a zero-length argument comes as nil (z=0), as []byte{} (z=1) or as
//     buf[:0] of a non-empty buffer (z=2);
//   - with Spare a non-empty argument has 24 bytes of spare capacity filled
//     with a sentinel that must stay untouched (none of the drbg APIs documents
//     append semantics); z=2 always has such a tail.
const (
	spareLen      = 24
	spareSentinel = 0x5C
)

var zNames = [...]string{"nil", "empty", "zero-of-buffer"}

type arg struct {
	s    []byte // what the library gets
	full []byte // backing array including the spare tail (nil for nil/empty)
	data []byte // pristine copy of the contents
}

func mkArg(data []byte, z int, spare bool) *arg {
	a := &arg{data: append([]byte{}, data...)}
	switch {
	case len(data) == 0 && z == 0:
		a.s = nil
	case len(data) == 0 && z == 1:
		a.s = []byte{}
	case len(data) == 0 || spare:
		a.full = make([]byte, len(data)+spareLen)
		copy(a.full, data)
		for i := len(data); i < len(a.full); i++ {
			a.full[i] = spareSentinel
		}
		a.s = a.full[:len(data)]
	default:
		a.full = append([]byte{}, data...)
		a.s = a.full[:len(data):len(data)]
	}
	return a
}

// check: the library neither modified the argument nor touched its spare capacity.
func (a *arg) check(what string) error {
	for i := range a.data {
		if a.full[i] != a.data[i] {
			return fmt.Errorf("%s: the call modified its input slice at offset %d", what, i)
		}
	}
	for i := len(a.data); i < len(a.full); i++ {
		if a.full[i] != spareSentinel {
			return fmt.Errorf("%s: the call wrote into the spare capacity of its input slice at offset +%d", what, i-len(a.data))
		}
	}
	return nil
}

// scribble overwrites the caller's memory after the call has returned.
func (a *arg) scribble(salt uint64) {
	copy(a.full, gen.Fill(gen.Mix(0x5C21BB1E, salt, uint64(len(a.full))), len(a.full)))
}

// outBuf is an output buffer of n sentinel bytes: cap-limited between canaries,
// or (spare) with a spare-capacity tail that must stay untouched; n == 0 comes
// in the three zero-length flavours.
type outBuf struct {
	b      []byte
	full   []byte
	canary *gen.Canary
}

func mkOut(n, z int, spare bool) *outBuf {
	o := &outBuf{}
	switch {
	case n == 0 && z == 0:
		o.b = nil
	case n == 0 && z == 1:
		o.b = []byte{}
	case n == 0 || spare:
		o.full = make([]byte, n+spareLen)
		for i := range o.full {
			o.full[i] = spareSentinel
		}
		o.b = o.full[:n]
	default:
		o.canary = gen.NewCanary(n, 32, 0x3C)
		o.b = o.canary.B()
	}
	for i := range o.b {
		o.b[i] = sentinel
	}
	return o
}

func (o *outBuf) check() error {
	if o.canary != nil {
		return o.canary.Check()
	}
	for i := len(o.b); i < len(o.full); i++ {
		if o.full[i] != spareSentinel {
			return fmt.Errorf("wrote into the spare capacity of the output buffer at offset +%d (len %d)", i-len(o.b), len(o.b))
		}
	}
	return nil
}

func (o *outBuf) untouched() (int, bool) {
	for i := range o.b {
		if o.b[i] != sentinel {
			return i, false
		}
	}
	return 0, true
}

func (o *outBuf) scribble(salt uint64) {
	copy(o.b, gen.Fill(gen.Mix(0x0B5C21BB, salt), len(o.b)))
}
