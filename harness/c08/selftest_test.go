package c08

import (
	"bytes"
	"encoding/hex"
	"fmt"
	"math/big"
	"strings"

	"verif/harness/ref"
)

// Self-tests of the key-agreement part of the shared SM2 model
// (ref.SM2KAP / ref.SM2KAPConfirm / ref.SM2XBar), which ref.SelfTestSM2 does
// not cover. Two published examples are used; neither value was produced by
// the library under test:
//
//  1. GM/T 0003.3-2012 / GB/T 32918.3-2016 annex A.2 (the standard's worked
//     example over its 256-bit sample curve, IDs ALICE123@YAHOO.COM /
//     BILL456@YAHOO.COM): ZA, ZB, RA, RB, K, S1=SB, S2=SA.
//  2. GM/T 0003.5-2012 / GB/T 32918.5-2017 annex B (the same exchange over the
//     recommended curve sm2p256v1, both IDs 1234567812345678).
//
// ref.SM2KAP reads the package variable ref.SM2 for its curve, so example 1 is
// run by pointing ref.SM2 at the sample curve for the duration of the
// self-test (single-threaded, before any test runs, restored afterwards). That
// way the very function used as the oracle is what gets validated.

func hx(s string) []byte {
	b, err := hex.DecodeString(strings.ReplaceAll(s, " ", ""))
	if err != nil {
		panic(err)
	}
	return b
}

func bx(s string) *big.Int { return new(big.Int).SetBytes(hx(s)) }

// zOn computes Z = SM3(ENTL || ID || a || b || xG || yG || xA || yA) for an
// arbitrary curve (ref.SM2ZA is bound to the recommended curve's constants).
func zOn(c *ref.Curve, uid []byte, pub ref.Point) []byte {
	entl := len(uid) * 8
	in := []byte{byte(entl >> 8), byte(entl)}
	in = append(in, uid...)
	for _, v := range []*big.Int{c.A, c.B, c.G.X, c.G.Y, pub.X, pub.Y} {
		in = append(in, ref.Bytes32(v)...)
	}
	d := ref.SM3(in)
	return d[:]
}

type kapVector struct {
	name             string
	curve            *ref.Curve
	idA, idB         string
	dA, dB, rA, rB   string
	xA, yA, xB, yB   string
	zA, zB           string
	x1, y1, x2, y2   string // RA, RB
	xV, yV           string // shared point (xU,yU)=(xV,yV)
	klen             int
	key, s1sB, s2sA  string
	haveV, havePubXY bool
}

var sampleCurveA2 = &ref.Curve{
	P: bx("8542D69E4C044F18E8B92435BF6FF7DE457283915C45517D722EDB8B08F1DFC3"),
	A: bx("787968B4FA32C3FD2417842E73BBFEFF2F3C848B6831D7E0EC65228B3937E498"),
	B: bx("63E4C6D3B23B0C849CF84241484BFE48F61D59A5B16BA06E6E12D1DA27C5249A"),
	N: bx("8542D69E4C044F18E8B92435BF6FF7DD297720630485628D5AE74EE7C32E79B7"),
	G: ref.Point{
		X: bx("421DEBD61B62EAB6746434EBC3CC315E32220B3BADD50BDC4C4E6C147FEDD43D"),
		Y: bx("0680512BCBB42C07D47349D2153B70C4E5D7FDFCBFA36EA1A85841B9E46E09A2"),
	},
}

var kapVectors = []kapVector{
	{
		name:  "GB/T 32918.3 annex A.2 (sample curve Fp-256)",
		curve: sampleCurveA2,
		idA:   "ALICE123@YAHOO.COM", idB: "BILL456@YAHOO.COM",
		dA: "6FCBA2EF9AE0AB902BC3BDE3FF915D44BA4CC78F88E2F8E7F8996D3B8CCEEDEE",
		dB: "5E35D7D3F3C54DBAC72E61819E730B019A84208CA3A35E4C2E353DFCCB2A3B53",
		rA: "83A2C9C8B96E5AF70BD480B472409A9A327257F1EBB73F5B073354B248668563",
		rB: "33FE21940342161C55619C4A0C060293D543C80AF19748CE176D83477DE71C80",
		xA: "3099093BF3C137D8FCBBCDF4A2AE50F3B0F216C3122D79425FE03A45DBFE1655",
		yA: "3DF79E8DAC1CF0ECBAA2F2B49D51A4B387F2EFAF482339086A27A8E05BAED98B",
		xB: "245493D446C38D8CC0F118374690E7DF633A8A4BFB3329B5ECE604B2B4F37F43",
		yB: "53C0869F4B9E17773DE68FEC45E14904E0DEA45BF6CECF9918C85EA047C60A4C",
		zA: "E4D1D0C3CA4C7F11BC8FF8CB3F4C02A78F108FA098E51A668487240F75E20F31",
		zB: "6B4B6D0E276691BD4A11BF72F4FB501AE309FDACB72FA6CC336E6656119ABD67",
		x1: "6CB5633816F4DD560B1DEC458310CBCC6856C09505324A6D23150C408F162BF0",
		y1: "0D6FCF62F1036C0A1B6DACCF57399223A65F7D7BF2D9637E5BBBEB857961BF1A",
		x2: "1799B2A2C778295300D9A2325C686129B8F2B5337B3DCF4514E8BBC19D900EE5",
		y2: "54C9288C82733EFDF7808AE7F27D0E732F7C73A7D9AC98B7D8740A91D0DB3CF4",
		xV: "47C826534DC2F6F1FBF28728DD658F21E174F48179ACEF2900F8B7F566E40905",
		yV: "2AF86EFE732CF12AD0E09A1F2556CC650D9CCCE3E249866BBB5C6846A4C4A295",
		klen: 16,
		key:  "55B0AC62A6B927BA23703832C853DED4",
		s1sB: "284C8F198F141B502E81250F1581C7E9EEB4CA6990F9E02DF388B45471F5BC5C",
		s2sA: "23444DAF8ED7534366CB901C84B3BDBB63504F4065C1116C91A4C00697E6CF7A",
		haveV: true, havePubXY: true,
	},
	{
		name:  "GB/T 32918.5 annex B (recommended curve)",
		curve: nil, // ref.SM2 itself
		idA:   "1234567812345678", idB: "1234567812345678",
		dA: "81EB26E941BB5AF16DF116495F90695272AE2CD63D6C4AE1678418BE48230029",
		dB: "785129917D45A9EA5437A59356B82338EAADDA6CEB199088F14AE10DEFA229B5",
		rA: "D4DE15474DB74D06491C440D305E012400990F3E390C7E87153C12DB2EA60BB3",
		rB: "7E07124814B309489125EAED101113164EBF0F3458C5BD88335C1F9D596243D6",
		xA: "160E12897DF4EDB61DD812FEB96748FBD3CCF4FFE26AA6F6DB9540AF49C94232",
		yA: "4A7DAD08BB9A459531694BEB20AA489D6649975E1BFCF8C4741B78B4B223007F",
		xB: "6AE848C57C53C7B1B5FA99EB2286AF078BA64C64591B8B566F7357D576F16DFB",
		yB: "EE489D771621A27B36C5C7992062E9CD09A9264386F3FBEA54DFF69305621C4D",
		zA: "3B85A57179E11E7E513AA622991F2CA74D1807A0BD4D4B38F90987A17AC245B1",
		zB: "79C988D63229D97EF19FE02CA1056E01E6A7411ED24694AA8F834F4A4AB022F7",
		x1: "64CED1BDBC99D590049B434D0FD73428CF608A5DB8FE5CE07F15026940BAE40E",
		y1: "376629C7AB21E7DB260922499DDB118F07CE8EAAE3E7720AFEF6A5CC062070C0",
		x2: "ACC27688A6F7B706098BC91FF3AD1BFF7DC2802CDB14CCCCDB0A90471F9BD707",
		y2: "2FEDAC0494B2FFC4D6853876C79B8F301C6573AD0AA50F39FC87181E1A1B46FE",
		klen: 16,
		key:  "6C89347354DE2484C60B4AB1FDE4C6E5",
		s1sB: "D3A0FE15DEE185CEAE907A6B595CC32A266ED7B3367E9983A896DC32FA20F8EB",
		s2sA: "18C7894B3816DF16CF07B05C5EC0BEF5D655D58F779CC1B400A4F3884644DB88",
		havePubXY: true,
	},
}

func selfTestKAP() error {
	for _, v := range kapVectors {
		if err := runKAPVector(v); err != nil {
			return fmt.Errorf("ref.SM2KAP self-test, %s: %v", v.name, err)
		}
	}
	// x-bar on hand-computed values: w = 127
	two127 := new(big.Int).Lsh(big.NewInt(1), 127)
	for _, tc := range []struct{ x, want *big.Int }{
		{big.NewInt(0), two127},
		{big.NewInt(5), new(big.Int).Add(two127, big.NewInt(5))},
		{two127, two127}, // bit 127 set, low bits clear
		{new(big.Int).Lsh(big.NewInt(1), 128), two127},                                                      // only bit 128
		{new(big.Int).Sub(new(big.Int).Lsh(big.NewInt(1), 256), big.NewInt(1)), new(big.Int).Sub(new(big.Int).Lsh(big.NewInt(1), 128), big.NewInt(1))}, // all ones
	} {
		if got := ref.SM2XBar(tc.x); got.Cmp(tc.want) != 0 {
			return fmt.Errorf("ref.SM2XBar(%x) = %x want %x", tc.x, got, tc.want)
		}
	}
	return nil
}

func runKAPVector(v kapVector) error {
	c := ref.SM2
	if v.curve != nil {
		saved := ref.SM2
		ref.SM2 = v.curve
		defer func() { ref.SM2 = saved }()
		c = v.curve
	}
	if !c.OnCurve(c.G) || !c.BaseMul(c.N).Inf {
		return fmt.Errorf("curve parameters inconsistent")
	}
	dA, dB, rA, rB := bx(v.dA), bx(v.dB), bx(v.rA), bx(v.rB)
	pA, pB := c.BaseMul(dA), c.BaseMul(dB)
	if v.havePubXY {
		if ref.Hex32(pA.X) != v.xA || ref.Hex32(pA.Y) != v.yA {
			return fmt.Errorf("PA = (%s,%s)", ref.Hex32(pA.X), ref.Hex32(pA.Y))
		}
		if ref.Hex32(pB.X) != v.xB || ref.Hex32(pB.Y) != v.yB {
			return fmt.Errorf("PB = (%s,%s)", ref.Hex32(pB.X), ref.Hex32(pB.Y))
		}
	}
	zA, zB := zOn(c, []byte(v.idA), pA), zOn(c, []byte(v.idB), pB)
	if !bytes.Equal(zA, hx(v.zA)) || !bytes.Equal(zB, hx(v.zB)) {
		return fmt.Errorf("ZA = %X ZB = %X", zA, zB)
	}
	if v.curve == nil {
		// on the recommended curve the shared ref.SM2ZA must give the same
		if !bytes.Equal(ref.SM2ZA([]byte(v.idA), pA), zA) || !bytes.Equal(ref.SM2ZA([]byte(v.idB), pB), zB) {
			return fmt.Errorf("ref.SM2ZA disagrees with the published Z values")
		}
	}
	RA, RB := c.BaseMul(rA), c.BaseMul(rB)
	if ref.Hex32(RA.X) != v.x1 || ref.Hex32(RA.Y) != v.y1 {
		return fmt.Errorf("RA = (%s,%s)", ref.Hex32(RA.X), ref.Hex32(RA.Y))
	}
	if ref.Hex32(RB.X) != v.x2 || ref.Hex32(RB.Y) != v.y2 {
		return fmt.Errorf("RB = (%s,%s)", ref.Hex32(RB.X), ref.Hex32(RB.Y))
	}
	// responder's view and initiator's view
	kB, vB, okB := ref.SM2KAP(dB, rB, pA, RA, zA, zB, v.klen)
	kA, vA, okA := ref.SM2KAP(dA, rA, pB, RB, zA, zB, v.klen)
	if !okA || !okB {
		return fmt.Errorf("SM2KAP refused the example")
	}
	if !c.Equal(vA, vB) {
		return fmt.Errorf("U != V")
	}
	if v.haveV && (ref.Hex32(vA.X) != v.xV || ref.Hex32(vA.Y) != v.yV) {
		return fmt.Errorf("V = (%s,%s)", ref.Hex32(vA.X), ref.Hex32(vA.Y))
	}
	if !bytes.Equal(kA, hx(v.key)) || !bytes.Equal(kB, hx(v.key)) {
		return fmt.Errorf("KA = %X KB = %X want %s", kA, kB, v.key)
	}
	s1, s2 := ref.SM2KAPConfirm(vA, zA, zB, RA, RB)
	if !bytes.Equal(s1, hx(v.s1sB)) {
		return fmt.Errorf("S1/SB = %X want %s", s1, v.s1sB)
	}
	if !bytes.Equal(s2, hx(v.s2sA)) {
		return fmt.Errorf("S2/SA = %X want %s", s2, v.s2sA)
	}
	return nil
}
