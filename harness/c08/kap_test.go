package c08

import (
	"bytes"
	"fmt"
	"math/big"
	"testing"

	"github.com/emmansun/gmsm/ecdh"
	"github.com/emmansun/gmsm/sm2"
	"github.com/emmansun/gmsm/sm3"
	"pgregory.net/rapid"
	"verif/harness/h"
	"verif/harness/ref"
)

// kapCase is one complete run of the protocol: initiator A, responder B.
type kapCase struct {
	DA, DB, RA, RB h.B     // static and ephemeral scalars, 32 bytes big-endian
	UA, UB         uidSpec // user ids
	KLen           int
	ConfA, ConfB   bool // genSignature of initiator / responder (optional confirmation)
	Reject         int  // class of blocks the library's rejection sampling must skip before the ephemeral
	Conv           bool // ecdh static keys obtained through sm2.PrivateKey.ECDH / sm2.PublicKeyToECDH
	GenKey         bool // ecdh ephemeral keys through Curve.GenerateKey with a scripted reader
	LatePeer       bool // sm2: NewKeyExchange without peer data, SetPeerParameters afterwards
}

// party is one side as the reference model sees it.
type party struct {
	d, r    *big.Int
	P, R    ref.Point
	uid     []byte // as handed to the library (nil = none given)
	z       []byte
	xbar, m *big.Int // x-bar of R, x-bar*r mod n
}

func newParty(d, r []byte, u uidSpec) party {
	p := party{d: fromB(d), r: fromB(r), uid: u.bytes()}
	p.P = ref.SM2.BaseMul(p.d)
	p.R = ref.SM2.BaseMul(p.r)
	p.z = ref.SM2ZA(effUID(p.uid), p.P)
	p.xbar = ref.SM2XBar(p.R.X)
	p.m = modN(mul(p.xbar, p.r))
	return p
}

// expect is what GB/T 32918.3 prescribes for the case, computed by the model.
type expect struct {
	A, B   party
	ok     bool // false: V is the point at infinity, both sides must fail (step B5/A6)
	key    []byte
	V      ref.Point
	s1, s2 []byte // S1 = SB (tag 0x02), S2 = SA (tag 0x03)
}

func refExpect(c kapCase) expect {
	e := expect{A: newParty(c.DA, c.RA, c.UA), B: newParty(c.DB, c.RB, c.UB)}
	kA, vA, okA := ref.SM2KAP(e.A.d, e.A.r, e.B.P, e.B.R, e.A.z, e.B.z, c.KLen)
	kB, vB, okB := ref.SM2KAP(e.B.d, e.B.r, e.A.P, e.A.R, e.A.z, e.B.z, c.KLen)
	if okA != okB || (okA && (!ref.SM2.Equal(vA, vB) || !bytes.Equal(kA, kB))) {
		// U = V is a theorem; if the model breaks it the model is broken
		h.HarnessError("reference model inconsistent: initiator and responder views differ for %+v", c)
	}
	e.ok = okA
	if e.ok {
		e.key, e.V = kA, vA
		e.s1, e.s2 = ref.SM2KAPConfirm(vA, e.A.z, e.B.z, e.A.R, e.B.R)
	}
	return e
}

func classifyKAP(c kapCase, e expect, r *h.Rec) {
	nt := false
	for _, s := range []struct {
		role string
		k    *big.Int
	}{{"dA", e.A.d}, {"dB", e.B.d}, {"rA", e.A.r}, {"rB", e.B.r}} {
		if cl := scalarClass(s.k); cl != "" {
			r.Label("%s %s", s.role[:1], cl)
			nt = true
		}
	}
	for _, p := range []party{e.A, e.B} {
		r.Label("x127=%d", p.R.X.Bit(127))
		sc := sumClass(p.d, p.m)
		r.Label(sc)
		if sc == "n<=d+m<2^256" || sc == "t=0" {
			nt = true
		}
		if p.d.Cmp(p.m) == 0 {
			r.Label("P=[xbar]R (peer adds by doubling)")
			nt = true
		}
		t := modN(add(p.d, p.m))
		if t.Cmp(one) == 0 || t.Cmp(nMinus1) == 0 {
			r.Label("t=+-1")
			nt = true
		}
	}
	r.Label(c.UA.class())
	r.Label(c.UB.class())
	if c.UA.N > 0 || c.UB.N > 0 || c.UA.Empty != 0 || c.UB.Empty != 0 {
		nt = true
	}
	switch {
	case c.KLen <= 32:
		r.Label("klen<=32")
	case c.KLen <= 300:
		r.Label("klen 33..300")
		nt = true
	default:
		r.Label("klen>300")
		nt = true
	}
	switch {
	case c.ConfA && c.ConfB:
		r.Label("confirm:both")
	case c.ConfA:
		r.Label("confirm:initiator-only")
	case c.ConfB:
		r.Label("confirm:responder-only")
	default:
		r.Label("confirm:none")
	}
	if c.Reject != 0 {
		r.Label("sampler skips blocks")
	}
	if c.Conv {
		r.Label("ecdh keys converted from sm2 keys")
	}
	if c.GenKey {
		r.Label("ecdh ephemeral via GenerateKey")
	}
	if c.LatePeer {
		r.Label("SetPeerParameters after construction")
	}
	if !e.ok {
		r.Label("negative: V at infinity")
		nt = true
	}
	r.NTIf(nt)
}

func checkKAP(c kapCase, r *h.Rec) error {
	if len(c.DA) != 32 || len(c.DB) != 32 || len(c.RA) != 32 || len(c.RB) != 32 || c.KLen < 1 {
		return fmt.Errorf("malformed case")
	}
	e := refExpect(c)
	classifyKAP(c, e, r)
	if err := runSM2(c, e); err != nil {
		return fmt.Errorf("sm2.KeyExchange: %v\n  dA=%x rA=%x\n  dB=%x rB=%x\n  uidA=%s uidB=%s klen=%d", err, c.DA, c.RA, c.DB, c.RB, h.Hex(e.A.uid), h.Hex(e.B.uid), c.KLen)
	}
	if err := runECDH(c, e, r); err != nil {
		return fmt.Errorf("ecdh SM2MQV/SM2SharedKey: %v\n  dA=%x rA=%x\n  dB=%x rB=%x\n  uidA=%s uidB=%s klen=%d", err, c.DA, c.RA, c.DB, c.RB, h.Hex(e.A.uid), h.Hex(e.B.uid), c.KLen)
	}
	return nil
}

// sm2Static builds the sm2 private key of a party and checks its public half.
func sm2Static(p party) (*sm2.PrivateKey, error) {
	priv, err := sm2.NewPrivateKey(b32(p.d))
	if err != nil {
		return nil, fmt.Errorf("NewPrivateKey(%x) refused a scalar in [1,n-2]: %v", p.d, err)
	}
	if !pubEq(&priv.PublicKey, p.P) {
		return nil, fmt.Errorf("public key of d=%x is %s, [d]G is %s", p.d, pubHex(&priv.PublicKey), ptHex(p.P))
	}
	return priv, nil
}

// newExchange creates one side's KeyExchange, with the peer data either given
// to the constructor or supplied afterwards (both documented).
func newExchange(priv *sm2.PrivateKey, peer ref.Point, uid, peerUID []byte, klen int, conf, late bool) (*sm2.KeyExchange, error) {
	if !late {
		return sm2.NewKeyExchange(priv, libPub(peer), cp(uid), cp(peerUID), klen, conf)
	}
	ke, err := sm2.NewKeyExchange(priv, nil, cp(uid), nil, klen, conf)
	if err != nil {
		return nil, err
	}
	if err := ke.SetPeerParameters(libPub(peer), cp(peerUID)); err != nil {
		return nil, fmt.Errorf("SetPeerParameters: %v", err)
	}
	return ke, nil
}

func runSM2(c kapCase, e expect) error {
	privA, err := sm2Static(e.A)
	if err != nil {
		return err
	}
	privB, err := sm2Static(e.B)
	if err != nil {
		return err
	}
	for _, zc := range []party{e.A, e.B} {
		z, err := sm2.CalculateZA(libPub(zc.P), effUID(zc.uid))
		if err != nil || !bytes.Equal(z, zc.z) {
			return fmt.Errorf("CalculateZA(uid=%s) = %x, %v; want %x", h.Hex(effUID(zc.uid)), z, err, zc.z)
		}
	}
	ini, err := newExchange(privA, e.B.P, e.A.uid, e.B.uid, c.KLen, c.ConfA, c.LatePeer)
	if err != nil {
		return fmt.Errorf("initiator NewKeyExchange: %v", err)
	}
	res, err := newExchange(privB, e.A.P, e.B.uid, e.A.uid, c.KLen, c.ConfB, c.LatePeer)
	if err != nil {
		return fmt.Errorf("responder NewKeyExchange: %v", err)
	}

	// A1-A3
	RAi, err := ini.InitKeyExchange(sm2Rand(c.RA, c.Reject))
	if err != nil {
		return fmt.Errorf("InitKeyExchange: %v", err)
	}
	if !pubEq(RAi, e.A.R) {
		return fmt.Errorf("InitKeyExchange returned RA=%s, [rA]G=%s for the injected rA", pubHex(RAi), ptHex(e.A.R))
	}
	RAwire := clonePub(RAi)

	// B1-B9
	RBi, sB, err := res.RepondKeyExchange(sm2Rand(c.RB, c.Reject), RAwire)
	if !e.ok {
		if err == nil {
			return fmt.Errorf("RepondKeyExchange succeeded although V is the point at infinity (tA=%x tB=%x); RB=%s sB=%x",
				modN(add(e.A.d, e.A.m)), modN(add(e.B.d, e.B.m)), pubHex(RBi), sB)
		}
		if RBi != nil || sB != nil {
			return fmt.Errorf("RepondKeyExchange returned data together with error %v", err)
		}
		// the initiator, given the responder's honest RB, must fail as well
		key, sA, err := ini.ConfirmResponder(libPub(e.B.R), nil)
		if err == nil {
			return fmt.Errorf("ConfirmResponder succeeded although U is the point at infinity; key=%x sA=%x", key, sA)
		}
		if key != nil || sA != nil {
			return fmt.Errorf("ConfirmResponder returned data together with error %v", err)
		}
		return nil
	}
	if err != nil {
		return fmt.Errorf("RepondKeyExchange: %v", err)
	}
	if !pubEq(RBi, e.B.R) {
		return fmt.Errorf("RepondKeyExchange returned RB=%s, [rB]G=%s for the injected rB", pubHex(RBi), ptHex(e.B.R))
	}
	if c.ConfB {
		if !bytes.Equal(sB, e.s1) {
			return fmt.Errorf("responder's SB=%x, GB/T 32918.3 value %x", sB, e.s1)
		}
	} else if sB != nil {
		return fmt.Errorf("responder without confirmation returned SB=%x", sB)
	}
	RBwire, sBwire := clonePub(RBi), cp(sB)

	// A4-A10
	keyA, sA, err := ini.ConfirmResponder(RBwire, sBwire)
	if err != nil {
		return fmt.Errorf("ConfirmResponder refused the honest responder (SB=%x): %v", sB, err)
	}
	if !bytes.Equal(keyA, e.key) {
		return fmt.Errorf("initiator key %s, GB/T 32918.3 value %s", h.Hex(keyA), h.Hex(e.key))
	}
	if c.ConfA {
		if !bytes.Equal(sA, e.s2) {
			return fmt.Errorf("initiator's SA=%x, GB/T 32918.3 value %x", sA, e.s2)
		}
	} else if sA != nil {
		return fmt.Errorf("initiator without confirmation returned SA=%x", sA)
	}

	// B10
	keyB, err := res.ConfirmInitiator(cp(sA))
	if err != nil {
		return fmt.Errorf("ConfirmInitiator refused the honest initiator (SA=%x): %v", sA, err)
	}
	if !bytes.Equal(keyB, e.key) {
		return fmt.Errorf("responder key %s, GB/T 32918.3 value %s (initiator has %s)", h.Hex(keyB), h.Hex(e.key), h.Hex(keyA))
	}
	if !bytes.Equal(keyA, keyB) {
		return fmt.Errorf("initiator key %s != responder key %s", h.Hex(keyA), h.Hex(keyB))
	}
	if len(keyA) != c.KLen {
		return fmt.Errorf("key length %d, asked for %d", len(keyA), c.KLen)
	}
	return nil
}

// ecdhSide holds one party's keys in the byte-oriented implementation.
type ecdhSide struct {
	s, e *ecdh.PrivateKey // e == nil: the ephemeral scalar is n-1, outside ecdh's key range
	P, R *ecdh.PublicKey
}

func ecdhParty(p party, c kapCase) (*ecdhSide, error) {
	curve := ecdh.P256()
	out := &ecdhSide{}
	var err error
	if c.Conv {
		priv, err := sm2.NewPrivateKey(b32(p.d))
		if err != nil {
			return nil, fmt.Errorf("sm2.NewPrivateKey: %v", err)
		}
		if out.s, err = priv.ECDH(); err != nil {
			return nil, fmt.Errorf("sm2.PrivateKey.ECDH: %v", err)
		}
		if out.P, err = sm2.PublicKeyToECDH(libPub(p.P)); err != nil {
			return nil, fmt.Errorf("sm2.PublicKeyToECDH: %v", err)
		}
	} else {
		if out.s, err = curve.NewPrivateKey(b32(p.d)); err != nil {
			return nil, fmt.Errorf("NewPrivateKey(d=%x): %v", p.d, err)
		}
		if out.P, err = curve.NewPublicKey(enc(p.P)); err != nil {
			return nil, fmt.Errorf("NewPublicKey(P=%x): %v", enc(p.P), err)
		}
	}
	if !bytes.Equal(out.s.Bytes(), b32(p.d)) {
		return nil, fmt.Errorf("static private key bytes %x want %x", out.s.Bytes(), b32(p.d))
	}
	if !bytes.Equal(out.s.PublicKey().Bytes(), enc(p.P)) || !bytes.Equal(out.P.Bytes(), enc(p.P)) {
		return nil, fmt.Errorf("static public key %x / %x, [d]G = %x", out.s.PublicKey().Bytes(), out.P.Bytes(), enc(p.P))
	}
	if out.R, err = curve.NewPublicKey(enc(p.R)); err != nil {
		return nil, fmt.Errorf("NewPublicKey(R=%x): %v", enc(p.R), err)
	}
	if p.r.Cmp(nMinus1) == 0 {
		// documented key range of the package is [1, n-2]; whatever it does with
		// n-1, the peer's view (which only needs R) is still checked
		if k, err := curve.NewPrivateKey(b32(p.r)); err == nil {
			out.e = k
		}
	} else {
		if c.GenKey {
			if out.e, err = curve.GenerateKey(ecdhRand(b32(p.r), c.Reject)); err != nil {
				return nil, fmt.Errorf("GenerateKey with scripted reader: %v", err)
			}
			if !bytes.Equal(out.e.Bytes(), b32(p.r)) {
				return nil, fmt.Errorf("GenerateKey produced %x from a reader scripted for %x", out.e.Bytes(), b32(p.r))
			}
		} else if out.e, err = curve.NewPrivateKey(b32(p.r)); err != nil {
			return nil, fmt.Errorf("NewPrivateKey(r=%x): %v", p.r, err)
		}
	}
	if out.e != nil && !bytes.Equal(out.e.PublicKey().Bytes(), enc(p.R)) {
		return nil, fmt.Errorf("ephemeral public key %x, [r]G = %x", out.e.PublicKey().Bytes(), enc(p.R))
	}
	z, err := out.P.SM2ZA(sm3.New(), cp(p.uid))
	if err != nil || !bytes.Equal(z, p.z) {
		return nil, fmt.Errorf("SM2ZA(uid=%s [len %d, nil=%v, cap>0=%v]) = %x, %v; want %x", h.Hex(p.uid), len(p.uid), p.uid == nil, cap(p.uid) > 0, z, err, p.z)
	}
	return out, nil
}

func runECDH(c kapCase, e expect, r *h.Rec) error {
	a, err := ecdhParty(e.A, c)
	if err != nil {
		return fmt.Errorf("initiator keys: %v", err)
	}
	b, err := ecdhParty(e.B, c)
	if err != nil {
		return fmt.Errorf("responder keys: %v", err)
	}
	type view struct {
		name      string
		self      *ecdhSide
		peer      *ecdhSide
		responder bool
		uid, puid []byte
	}
	for _, v := range []view{
		{"initiator", a, b, false, e.A.uid, e.B.uid},
		{"responder", b, a, true, e.B.uid, e.A.uid},
	} {
		if v.self.e == nil {
			r.Label("ecdh view skipped: own ephemeral n-1 outside its key range")
			continue
		}
		uv, err := v.self.s.SM2MQV(v.self.e, v.peer.P, v.peer.R)
		if !e.ok {
			if err == nil {
				return fmt.Errorf("%s: SM2MQV succeeded although the shared point is at infinity: %x", v.name, uv.Bytes())
			}
			continue
		}
		if err != nil {
			return fmt.Errorf("%s: SM2MQV: %v", v.name, err)
		}
		if !bytes.Equal(uv.Bytes(), enc(e.V)) {
			return fmt.Errorf("%s: SM2MQV point %x, GB/T 32918.3 value %x", v.name, uv.Bytes(), enc(e.V))
		}
		key, err := uv.SM2SharedKey(v.responder, c.KLen, v.self.s.PublicKey(), v.peer.P, cp(v.uid), cp(v.puid))
		if err != nil {
			return fmt.Errorf("%s: SM2SharedKey: %v", v.name, err)
		}
		if !bytes.Equal(key, e.key) {
			return fmt.Errorf("%s: SM2SharedKey %s, GB/T 32918.3 value (and sm2.KeyExchange result) %s", v.name, h.Hex(key), h.Hex(e.key))
		}
	}
	return nil
}

// ---------------------------------------------------------------- generators

func drawKLen(t *rapid.T) int {
	switch rapid.IntRange(0, 9).Draw(t, "klenKind") {
	case 0, 1, 2:
		return rapid.SampledFrom([]int{16, 32, 48}).Draw(t, "klenCommon")
	case 3, 4, 5, 6:
		return rapid.IntRange(1, 300).Draw(t, "klen")
	case 7:
		return rapid.SampledFrom([]int{31, 33, 63, 64, 65, 511, 512, 513, 1024, 4095, 4096}).Draw(t, "klenEdge")
	}
	return rapid.IntRange(301, 4096).Draw(t, "klenLong")
}

func drawKAP(t *rapid.T) kapCase {
	dA, rA := drawSide(t, "A")
	dB, rB := drawSide(t, "B")
	c := kapCase{
		DA: b32(dA), RA: b32(rA), DB: b32(dB), RB: b32(rB),
		UA: drawUID(t, "uidA"), UB: drawUID(t, "uidB"),
		KLen:  drawKLen(t),
		ConfA: rapid.Bool().Draw(t, "confA"), ConfB: rapid.Bool().Draw(t, "confB"),
	}
	if rapid.IntRange(0, 3).Draw(t, "rej") == 0 {
		c.Reject = rapid.IntRange(1, 4).Draw(t, "rejectClass")
	}
	c.Conv = rapid.Bool().Draw(t, "conv")
	c.GenKey = rapid.Bool().Draw(t, "genkey")
	c.LatePeer = rapid.IntRange(0, 3).Draw(t, "late") == 0
	if rapid.IntRange(0, 15).Draw(t, "sameUID") == 0 {
		c.UB = c.UA
	}
	return c
}

// TestC08_Agreement: complete protocol runs over drawn scalars, ids, key
// lengths and confirmation settings; every value either party outputs is
// compared with GB/T 32918.3 as computed by the model, and the ecdh package is
// run on the same inputs.
func TestC08_Agreement(t *testing.T) {
	h.Prop(t, h.P{Name: "agreement", Quick: 700, Thorough: 20000, Journal: true}, drawKAP, checkKAP)
}

// TestC08_EdgeScalarSweep: the cross product of edge scalars for one side
// against fixed and edge scalars of the other, both roles.
func TestC08_EdgeScalarSweep(t *testing.T) {
	edgesD := []*big.Int{bi(1), bi(2), sub(bigN, bi(3)), nMinus2}
	edgesR := []*big.Int{bi(1), bi(2), nMinus2, nMinus1}
	for _, s := range sampledScalars {
		edgesR = append(edgesR, bx(s.k))
	}
	h.MarkExhaustive("edge-scalars")
	h.Sweep(t, h.P{Name: "edge-scalars", Journal: true}, func(emit func(kapCase)) {
		ud, ur := uniformScalar(h.Seed), uniformScalar(h.Seed+1)
		i := 0
		mk := func(dA, rA, dB, rB *big.Int) {
			i++
			emit(kapCase{DA: b32(dA), RA: b32(rA), DB: b32(dB), RB: b32(rB), KLen: 16 + i%40,
				ConfA: true, ConfB: true, Conv: i%2 == 0, GenKey: i%3 == 0, LatePeer: i%5 == 0})
		}
		for _, d := range edgesD {
			for _, r := range edgesR {
				mk(d, r, ud, ur) // edge initiator, ordinary responder
				mk(ud, ur, d, r) // ordinary initiator, edge responder
				mk(d, r, d, r)   // both parties hold the same keys
			}
		}
		// edge ephemerals on both sides
		for _, r1 := range edgesR {
			for _, r2 := range edgesR {
				mk(ud, r1, ur, r2)
			}
		}
		// edge statics on both sides
		for _, d1 := range edgesD {
			for _, d2 := range edgesD {
				mk(d1, ur, d2, ud)
			}
		}
		// every implicit-signature class for each side, for a few ephemerals
		eph := []*big.Int{ur, ud, bi(1), nMinus1, bx(sampledScalars[0].k), bx(sampledScalars[3].k)}
		if h.Thorough() {
			for k := 0; k < 24; k++ {
				eph = append(eph, uniformScalar(h.Seed+100+uint64(k)))
			}
		}
		for _, r := range eph {
			_, m := implicitParts(r)
			for ci, class := range dependentClasses {
				d := dependentStatic(class, m, h.Seed+uint64(ci))
				if d == nil {
					continue
				}
				mk(d, r, ud, ur)
				mk(ud, ur, d, r)
			}
		}
	}, checkKAP)
}

// TestC08_KeyLengths: every key length 1..300 and selected lengths up to
// 4 KiB and around 8160/8192/65536 bytes (thorough: every length up to 1100),
// for a fixed pair of parties.
func TestC08_KeyLengths(t *testing.T) {
	h.MarkExhaustive("key-lengths")
	h.Sweep(t, h.P{Name: "key-lengths"}, func(emit func(kapCase)) {
		base := kapCase{
			DA: b32(uniformScalar(h.Seed + 11)), RA: b32(uniformScalar(h.Seed + 12)),
			DB: b32(uniformScalar(h.Seed + 13)), RB: b32(uniformScalar(h.Seed + 14)),
			UA: uidSpec{N: 5, Seed: h.Seed}, UB: uidSpec{N: 3, Seed: h.Seed + 1},
			ConfA: true, ConfB: true,
		}
		upto := h.Scale(300, 1100)
		for n := 1; n <= upto; n++ {
			c := base
			c.KLen = n
			c.Conv = n%2 == 0
			emit(c)
		}
		// ... and the lengths where the KDF's block counter grows a byte:
		// 8160 = 255 blocks, 8161..8192 = 256 blocks; 65535..65537 bytes
		for _, n := range []int{511, 512, 513, 1023, 1024, 1025, 2047, 2048, 2049, 4064, 4095, 4096,
			8128, 8159, 8160, 8161, 8191, 8192, 8193, 8224, 65535, 65536, 65537} {
			if n > upto {
				c := base
				c.KLen = n
				emit(c)
			}
		}
	}, checkKAP)
}

// TestC08_UIDs: user-id length pairs (none given, the default spelled out, 1,
// 16, 64, 8191 bytes, and every length 0..70 against a fixed peer id).
func TestC08_UIDs(t *testing.T) {
	h.MarkExhaustive("uids")
	h.Sweep(t, h.P{Name: "uids"}, func(emit func(kapCase)) {
		base := kapCase{
			DA: b32(uniformScalar(h.Seed + 21)), RA: b32(uniformScalar(h.Seed + 22)),
			DB: b32(uniformScalar(h.Seed + 23)), RB: b32(uniformScalar(h.Seed + 24)),
			KLen: 48, ConfA: true, ConfB: true,
		}
		specs := []uidSpec{{N: 0}, {N: 0, Empty: 1}, {N: 0, Empty: 2}, {N: -1}, {N: 1}, {N: 16}, {N: 64}, {N: maxUID}}
		i := 0
		for _, ua := range specs {
			for _, ub := range specs {
				c := base
				c.UA, c.UB = ua, ub
				c.UA.Seed, c.UB.Seed = h.Seed, h.Seed+7
				// every combination of key construction / late peer data over the pairs
				c.Conv, c.LatePeer, c.GenKey = i%2 == 0, i%3 == 0, i%5 == 0
				i++
				emit(c)
			}
		}
		// each flavour of "none given" against itself with the peer data supplied late and early
		for _, e := range []int{0, 1, 2} {
			for _, late := range []bool{false, true} {
				c := base
				c.UA, c.UB = uidSpec{Empty: e}, uidSpec{Empty: e}
				c.LatePeer = late
				emit(c)
			}
		}
		// identical ids on both sides
		for _, l := range []int{1, 16, maxUID} {
			c := base
			c.UA, c.UB = uidSpec{N: l, Seed: h.Seed}, uidSpec{N: l, Seed: h.Seed}
			emit(c)
		}
		for l := 0; l <= 70; l++ {
			c := base
			c.UA, c.UB = uidSpec{N: l, Seed: h.Seed + 3}, uidSpec{N: 16, Seed: h.Seed + 4}
			emit(c)
			c.UA, c.UB = c.UB, c.UA
			emit(c)
		}
		for _, l := range []int{127, 128, 255, 256, 1000, 4096, 8190} {
			c := base
			c.UA, c.UB = uidSpec{N: l, Seed: h.Seed + 5}, uidSpec{N: maxUID + 1 - l, Seed: h.Seed + 6}
			emit(c)
		}
	}, checkKAP)
}
