package c08

import (
	"bytes"
	"fmt"
	"testing"

	"github.com/emmansun/gmsm/sm2"
	"pgregory.net/rapid"
	"verif/harness/gen"
	"verif/harness/h"
	"verif/harness/ref"
)

// Negative protocol runs: a confirmation value that is not the right one must
// be refused, and parties that disagree about an identity or a static key
// must not end up with the same key.

type confCase struct {
	Base kapCase // both parties ask for confirmation
	Mut  string
	Pos  int    // byte position for flips
	Bit  int    // bit for flips
	Seed uint64 // for substituted values
}

var confMutations = []string{
	"flip SB", "flip SA", "truncate SB", "truncate SA", "extend SB", "extend SA",
	"SB:=S2 (tags swapped)", "SA:=S1 (tags swapped)", "SB of another session", "SA of another session",
	"SB all zero", "SA empty non-nil", "SB random", "SA random",
	"responder believes another uidA", "initiator believes another uidB",
	"responder has uids swapped", "responder holds another PA", "initiator holds another PB",
}

func checkConf(c confCase, r *h.Rec) error {
	b := c.Base
	// The party that has to produce the confirmation value under attack asks
	// for confirmation; whether the verifying party itself generates one is
	// part of the case: a value that is present must be verified either way
	// (documented on ConfirmResponder: "If the peer's signature is not empty,
	// then it will also validate the peer's signature").
	onSB := c.Mut == "flip SB" || c.Mut == "truncate SB" || c.Mut == "extend SB" || c.Mut == "SB:=S2 (tags swapped)" ||
		c.Mut == "SB of another session" || c.Mut == "SB all zero" || c.Mut == "SB random"
	onSA := c.Mut == "flip SA" || c.Mut == "truncate SA" || c.Mut == "extend SA" || c.Mut == "SA:=S1 (tags swapped)" ||
		c.Mut == "SA of another session" || c.Mut == "SA empty non-nil" || c.Mut == "SA random"
	iniConf, resConf := true, true
	if onSB {
		iniConf = b.ConfA
	} else if onSA {
		resConf = b.ConfB
	}
	if !iniConf {
		r.Label("verifier does not generate its own confirmation")
	}
	if !resConf {
		r.Label("verifier does not generate its own confirmation")
	}
	b.ConfA, b.ConfB = true, true
	e := refExpect(b)
	r.Label("mutation:" + c.Mut)
	r.NT()
	if !e.ok {
		r.Label("skipped: V at infinity")
		return nil
	}
	privA, err := sm2Static(e.A)
	if err != nil {
		return err
	}
	privB, err := sm2Static(e.B)
	if err != nil {
		return err
	}
	desc := fmt.Sprintf("\n  mutation=%q pos=%d bit=%d\n  dA=%x rA=%x\n  dB=%x rB=%x\n  uidA=%s uidB=%s klen=%d",
		c.Mut, c.Pos, c.Bit, b.DA, b.RA, b.DB, b.RB, h.Hex(e.A.uid), h.Hex(e.B.uid), b.KLen)

	// what each party believes about the other
	iniPeerP, iniPeerUID := e.B.P, e.B.uid // initiator's idea of B
	resPeerP, resPeerUID := e.A.P, e.A.uid // responder's idea of A
	resOwnUID := e.B.uid
	otherUID := gen.Fill(gen.Mix(c.Seed, 0x6f75), 1+int(c.Seed%40))
	otherP := ref.SM2.BaseMul(uniformScalar(gen.Mix(c.Seed, 0x6f7470)))
	switch c.Mut {
	case "responder believes another uidA":
		resPeerUID = otherUID
	case "initiator believes another uidB":
		iniPeerUID = otherUID
	case "responder has uids swapped":
		resPeerUID, resOwnUID = e.B.uid, e.A.uid
	case "responder holds another PA":
		resPeerP = otherP
	case "initiator holds another PB":
		iniPeerP = otherP
	}
	beliefsDiffer := !bytes.Equal(effUID(iniPeerUID), effUID(resOwnUID)) || !bytes.Equal(effUID(resPeerUID), effUID(e.A.uid)) ||
		!ref.SM2.Equal(iniPeerP, e.B.P) || !ref.SM2.Equal(resPeerP, e.A.P)

	ini, err := newExchange(privA, iniPeerP, e.A.uid, iniPeerUID, b.KLen, iniConf, false)
	if err != nil {
		return fmt.Errorf("initiator NewKeyExchange: %v%s", err, desc)
	}
	res, err := newExchange(privB, resPeerP, resOwnUID, resPeerUID, b.KLen, resConf, false)
	if err != nil {
		return fmt.Errorf("responder NewKeyExchange: %v%s", err, desc)
	}
	RA, err := ini.InitKeyExchange(sm2Rand(b.RA, 0))
	if err != nil || !pubEq(RA, e.A.R) {
		return fmt.Errorf("InitKeyExchange: %s, %v%s", pubHex(RA), err, desc)
	}
	RB, sB, err := res.RepondKeyExchange(sm2Rand(b.RB, 0), clonePub(RA))

	// the model's view of each party under its own beliefs
	selfB := e.B
	selfB.uid, selfB.z = resOwnUID, ref.SM2ZA(effUID(resOwnUID), e.B.P)
	expB := refOneSided(selfB, resPeerP, e.A.R, resPeerUID, true, b.KLen)
	expA := refOneSided(e.A, iniPeerP, e.B.R, iniPeerUID, false, b.KLen)
	if !expA.ok || !expB.ok {
		r.Label("skipped: a mismatched view has V at infinity")
		return nil
	}
	if err != nil || !pubEq(RB, e.B.R) {
		return fmt.Errorf("RepondKeyExchange: %s, %v%s", pubHex(RB), err, desc)
	}
	if resConf && !bytes.Equal(sB, expB.s1) || !resConf && sB != nil {
		return fmt.Errorf("responder's SB=%x, GB/T 32918.3 value under its own view %x (genSignature=%v)%s", sB, expB.s1, resConf, desc)
	}

	if beliefsDiffer {
		r.Label("views differ")
		// the model says the honest SB does not verify under the initiator's view
		if bytes.Equal(expA.s1, expB.s1) {
			h.HarnessError("model: differing views give the same S1 for %+v", c)
		}
		key, sA, err := ini.ConfirmResponder(clonePub(RB), cp(sB))
		if err == nil {
			return fmt.Errorf("initiator accepted SB although the parties' views differ: key=%x sA=%x%s", key, sA, desc)
		}
		if key != nil || sA != nil {
			return fmt.Errorf("ConfirmResponder returned data together with the error %v%s", err, desc)
		}
		// without the responder's confirmation the initiator goes on; its own
		// SA must then be refused by the responder, and the keys are those of
		// the respective views
		ini2, err := newExchange(privA, iniPeerP, e.A.uid, iniPeerUID, b.KLen, true, false)
		if err != nil {
			return fmt.Errorf("initiator NewKeyExchange: %v%s", err, desc)
		}
		if _, err := ini2.InitKeyExchange(sm2Rand(b.RA, 0)); err != nil {
			return fmt.Errorf("InitKeyExchange: %v%s", err, desc)
		}
		keyA, sA, err := ini2.ConfirmResponder(clonePub(RB), nil)
		if err != nil {
			return fmt.Errorf("ConfirmResponder without SB: %v%s", err, desc)
		}
		if !bytes.Equal(keyA, expA.key) || !bytes.Equal(sA, expA.s2) {
			return fmt.Errorf("initiator key/SA %s/%x, GB/T 32918.3 values under its view %s/%x%s", h.Hex(keyA), sA, h.Hex(expA.key), expA.s2, desc)
		}
		if k, err := res.ConfirmInitiator(cp(sA)); err == nil {
			return fmt.Errorf("responder accepted SA although the parties' views differ: key=%x%s", k, desc)
		} else if k != nil {
			return fmt.Errorf("ConfirmInitiator returned key %x together with the error %v%s", k, err, desc)
		}
		keyB, err := res.ConfirmInitiator(nil)
		if err != nil {
			return fmt.Errorf("ConfirmInitiator(nil): %v%s", err, desc)
		}
		if !bytes.Equal(keyB, expB.key) {
			return fmt.Errorf("responder key %s, GB/T 32918.3 value under its view %s%s", h.Hex(keyB), h.Hex(expB.key), desc)
		}
		if bytes.Equal(expA.key, expB.key) {
			r.Label("model keys collide (short key)")
		} else if bytes.Equal(keyA, keyB) {
			return fmt.Errorf("parties with differing views derived the same key %s%s", h.Hex(keyA), desc)
		}
		return nil
	}

	// tampered confirmation values on an otherwise honest run
	other := b
	other.RB = b32(uniformScalar(gen.Mix(c.Seed, 0x7262)))
	var eo expect
	mutate := func(s []byte, s1 bool) ([]byte, bool) {
		s = cp(s)
		switch c.Mut {
		case "flip SB", "flip SA":
			s[c.Pos%len(s)] ^= 1 << uint(c.Bit%8)
		case "truncate SB", "truncate SA":
			s = s[:c.Pos%len(s)]
			if len(s) == 0 {
				// documented: an empty SB means "no confirmation sent" for the
				// initiator; keep one byte so that the value is a wrong one
				s = []byte{0}
			}
		case "extend SB", "extend SA":
			s = append(s, byte(c.Seed))
		case "SB:=S2 (tags swapped)":
			s = cp(e.s2)
		case "SA:=S1 (tags swapped)":
			s = cp(e.s1)
		case "SB of another session", "SA of another session":
			eo = refExpect(other)
			if !eo.ok {
				return nil, false
			}
			if s1 {
				s = cp(eo.s1)
			} else {
				s = cp(eo.s2)
			}
		case "SB all zero":
			s = make([]byte, 32)
		case "SA empty non-nil":
			s = []byte{}
		case "SB random", "SA random":
			s = gen.Fill(c.Seed, 32)
		}
		return s, true
	}
	if onSB {
		bad, ok := mutate(e.s1, true)
		if !ok || bytes.Equal(bad, e.s1) {
			r.Label("skipped: mutation is the identity")
			return nil
		}
		key, sA, err := ini.ConfirmResponder(clonePub(RB), bad)
		if err == nil {
			return fmt.Errorf("initiator accepted the wrong SB %x (right one %x): key=%x sA=%x%s", bad, e.s1, key, sA, desc)
		}
		if key != nil || sA != nil {
			return fmt.Errorf("ConfirmResponder returned data together with the error %v%s", err, desc)
		}
		return nil
	}
	key, sA, err := ini.ConfirmResponder(clonePub(RB), cp(sB))
	if err != nil || !bytes.Equal(key, e.key) || !bytes.Equal(sA, e.s2) {
		return fmt.Errorf("honest ConfirmResponder: key=%x sA=%x err=%v%s", key, sA, err, desc)
	}
	if !onSA {
		r.Label("skipped: mutation is the identity")
		return nil
	}
	bad, ok := mutate(sA, false)
	if !ok || bytes.Equal(bad, e.s2) && bad != nil {
		r.Label("skipped: mutation is the identity")
		return nil
	}
	k, err := res.ConfirmInitiator(bad)
	if err == nil {
		return fmt.Errorf("responder accepted the wrong SA %x (right one %x): key=%x%s", bad, e.s2, k, desc)
	}
	if k != nil {
		return fmt.Errorf("ConfirmInitiator returned key %x together with the error %v%s", k, err, desc)
	}
	// the refusal must not be sticky in the wrong direction: the right value
	// is still accepted afterwards and yields the right key
	k, err = res.ConfirmInitiator(cp(sA))
	if err != nil || !bytes.Equal(k, e.key) {
		return fmt.Errorf("after refusing a wrong SA the right SA gave key=%x err=%v%s", k, err, desc)
	}
	return nil
}

func TestC08_Confirmation(t *testing.T) {
	h.Prop(t, h.P{Name: "confirmation", Quick: 350, Thorough: 8000, Journal: true}, func(t *rapid.T) confCase {
		b := kapCase{
			DA: b32(uniformScalar(rapid.Uint64().Draw(t, "dA"))), RA: b32(uniformScalar(rapid.Uint64().Draw(t, "rA"))),
			DB: b32(uniformScalar(rapid.Uint64().Draw(t, "dB"))), RB: b32(uniformScalar(rapid.Uint64().Draw(t, "rB"))),
			UA: drawUID(t, "uidA"), UB: drawUID(t, "uidB"),
			KLen: rapid.SampledFrom([]int{1, 16, 16, 32, 48, 100}).Draw(t, "klen"),
			ConfA: rapid.Bool().Draw(t, "verifierConfA"), ConfB: rapid.Bool().Draw(t, "verifierConfB"),
		}
		return confCase{Base: b, Mut: rapid.SampledFrom(confMutations).Draw(t, "mutation"),
			Pos: rapid.IntRange(0, 31).Draw(t, "pos"), Bit: rapid.IntRange(0, 7).Draw(t, "bit"), Seed: rapid.Uint64().Draw(t, "seed")}
	}, checkConf)
}

// TestC08_FlipExhaustive: every single-bit flip of SB and of SA for one
// session is refused.
func TestC08_FlipExhaustive(t *testing.T) {
	h.MarkExhaustive("flip-every-bit")
	h.Sweep(t, h.P{Name: "flip-every-bit"}, func(emit func(confCase)) {
		b := kapCase{
			DA: b32(uniformScalar(h.Seed + 31)), RA: b32(uniformScalar(h.Seed + 32)),
			DB: b32(uniformScalar(h.Seed + 33)), RB: b32(uniformScalar(h.Seed + 34)),
			UA: uidSpec{N: 5, Seed: h.Seed}, KLen: 16, ConfA: true, ConfB: true,
		}
		step := h.Scale(3, 1)
		for _, m := range []string{"flip SB", "flip SA"} {
			for i := 0; i < 256; i += step {
				bb := b
				bb.ConfA, bb.ConfB = i%2 == 0, i%2 == 0 // does the verifier generate a confirmation itself?
				emit(confCase{Base: bb, Mut: m, Pos: i / 8, Bit: i % 8})
			}
			for n := 1; n < 32; n += 5 {
				emit(confCase{Base: b, Mut: "truncate S" + m[6:], Pos: n})
			}
		}
	}, checkConf)
}

// ---------------------------------------------------------------- documented misuse

type misuseCase struct {
	Kind string
	Seed uint64
}

var misuseKinds = []string{
	"SetPeerParameters twice", "SetPeerParameters after constructor gave the peer", "SetPeerParameters(nil) is a no-op",
	"respond without peer", "confirm without peer", "peer on another curve",
	"own uid 8192", "peer uid 8192", "late peer uid 8192", "own uid 65536", "peer uid 8200",
	"ecdh uid 8192", "ecdh peer uid 8192", "ecdh SM2ZA uid 8192", "ecdh SM2ZA uid 8191",
	"zero-length uid flavours mean the default id", "sm2.CalculateZA does not substitute the default",
	"ecdh private key out of range", "ecdh private key wrong length", "sm2 private key out of range",
}

func checkMisuse(c misuseCase, r *h.Rec) error {
	r.Label("misuse:" + c.Kind)
	r.NT()
	A := newParty(b32(uniformScalar(c.Seed+1)), b32(uniformScalar(c.Seed+2)), uidSpec{N: 4, Seed: c.Seed})
	B := newParty(b32(uniformScalar(c.Seed+3)), b32(uniformScalar(c.Seed+4)), uidSpec{N: 7, Seed: c.Seed + 1})
	C := newParty(b32(uniformScalar(c.Seed+5)), b32(uniformScalar(c.Seed+6)), uidSpec{N: 9, Seed: c.Seed + 2})
	privA, err := sm2Static(A)
	if err != nil {
		return err
	}
	long := func(n int) []byte { return gen.Fill(c.Seed, n) }
	// finish runs A as initiator against the honest view of B and checks the key
	finish := func(ke *sm2.KeyExchange) error {
		exp := refOneSided(A, B.P, B.R, B.uid, false, 24)
		RA, err := ke.InitKeyExchange(sm2Rand(b32(A.r), 0))
		if err != nil || !pubEq(RA, A.R) {
			return fmt.Errorf("InitKeyExchange: %s, %v", pubHex(RA), err)
		}
		key, sA, err := ke.ConfirmResponder(libPub(B.R), cp(exp.s1))
		if err != nil || !bytes.Equal(key, exp.key) || !bytes.Equal(sA, exp.s2) {
			return fmt.Errorf("exchange with the first peer: key=%x sA=%x err=%v, want %x %x", key, sA, err, exp.key, exp.s2)
		}
		return nil
	}
	curveEC := ecdhCurve()
	switch c.Kind {
	case "SetPeerParameters twice":
		// documented: "该方法只能调用一次不可重复调用，若多次调用或peerPub、peerUID已经存在则会发生错误"
		ke, err := sm2.NewKeyExchange(privA, nil, A.uid, nil, 24, true)
		if err != nil {
			return fmt.Errorf("NewKeyExchange without peer: %v", err)
		}
		if err := ke.SetPeerParameters(libPub(B.P), cp(B.uid)); err != nil {
			return fmt.Errorf("first SetPeerParameters: %v", err)
		}
		if err := ke.SetPeerParameters(libPub(C.P), cp(C.uid)); err == nil {
			return fmt.Errorf("second SetPeerParameters did not fail")
		}
		if err := ke.SetPeerParameters(libPub(B.P), cp(B.uid)); err == nil {
			return fmt.Errorf("second SetPeerParameters (same values) did not fail")
		}
		return finish(ke) // and the first peer is still the one in effect
	case "SetPeerParameters after constructor gave the peer":
		ke, err := sm2.NewKeyExchange(privA, libPub(B.P), A.uid, B.uid, 24, true)
		if err != nil {
			return fmt.Errorf("NewKeyExchange: %v", err)
		}
		if err := ke.SetPeerParameters(libPub(C.P), cp(C.uid)); err == nil {
			return fmt.Errorf("SetPeerParameters did not fail although the constructor had the peer")
		}
		return finish(ke)
	case "SetPeerParameters(nil) is a no-op":
		ke, err := sm2.NewKeyExchange(privA, libPub(B.P), A.uid, B.uid, 24, true)
		if err != nil {
			return fmt.Errorf("NewKeyExchange: %v", err)
		}
		if err := ke.SetPeerParameters(nil, cp(C.uid)); err != nil {
			return fmt.Errorf("SetPeerParameters(nil, uid): %v", err)
		}
		return finish(ke)
	case "respond without peer":
		ke, err := sm2.NewKeyExchange(privA, nil, A.uid, nil, 24, true)
		if err != nil {
			return fmt.Errorf("NewKeyExchange without peer: %v", err)
		}
		RB, sB, err := ke.RepondKeyExchange(sm2Rand(b32(A.r), 0), libPub(B.R))
		if err == nil || RB != nil || sB != nil {
			return fmt.Errorf("RepondKeyExchange without peer data: RB=%s sB=%x err=%v", pubHex(RB), sB, err)
		}
		// documented flow: set the peer now and go on
		if err := ke.SetPeerParameters(libPub(B.P), cp(B.uid)); err != nil {
			return fmt.Errorf("SetPeerParameters: %v", err)
		}
		exp := refOneSided(A, B.P, B.R, B.uid, true, 24)
		RB, sB, err = ke.RepondKeyExchange(sm2Rand(b32(A.r), 0), libPub(B.R))
		if err != nil || !pubEq(RB, A.R) || !bytes.Equal(sB, exp.s1) {
			return fmt.Errorf("RepondKeyExchange after SetPeerParameters: RB=%s sB=%x err=%v want sB=%x", pubHex(RB), sB, err, exp.s1)
		}
		key, err := ke.ConfirmInitiator(cp(exp.s2))
		if err != nil || !bytes.Equal(key, exp.key) {
			return fmt.Errorf("ConfirmInitiator: key=%x err=%v want %x", key, err, exp.key)
		}
		return nil
	case "confirm without peer":
		ke, err := sm2.NewKeyExchange(privA, nil, A.uid, nil, 24, true)
		if err != nil {
			return fmt.Errorf("NewKeyExchange without peer: %v", err)
		}
		if _, err := ke.InitKeyExchange(sm2Rand(b32(A.r), 0)); err != nil {
			return fmt.Errorf("InitKeyExchange: %v", err)
		}
		key, sA, err := ke.ConfirmResponder(libPub(B.R), nil)
		if err == nil || key != nil || sA != nil {
			return fmt.Errorf("ConfirmResponder without peer data: key=%x sA=%x err=%v", key, sA, err)
		}
		if err := ke.SetPeerParameters(libPub(B.P), cp(B.uid)); err != nil {
			return fmt.Errorf("SetPeerParameters: %v", err)
		}
		exp := refOneSided(A, B.P, B.R, B.uid, false, 24)
		key, sA, err = ke.ConfirmResponder(libPub(B.R), cp(exp.s1))
		if err != nil || !bytes.Equal(key, exp.key) || !bytes.Equal(sA, exp.s2) {
			return fmt.Errorf("ConfirmResponder after SetPeerParameters: key=%x sA=%x err=%v", key, sA, err)
		}
		return nil
	case "peer on another curve":
		pub := libPub(B.P)
		pub.Curve = otherCurve()
		if ke, err := sm2.NewKeyExchange(privA, pub, A.uid, B.uid, 24, true); err == nil || ke != nil {
			return fmt.Errorf("NewKeyExchange accepted a peer key on %s", pub.Curve.Params().Name)
		}
		return nil
	case "own uid 8192", "own uid 65536":
		n := 8192
		if c.Kind == "own uid 65536" {
			n = 65536
		}
		if ke, err := sm2.NewKeyExchange(privA, libPub(B.P), long(n), B.uid, 24, true); err == nil || ke != nil {
			return fmt.Errorf("NewKeyExchange accepted an own uid of %d bytes (ENTL is 16 bits)", n)
		}
		return nil
	case "peer uid 8192", "peer uid 8200":
		n := 8192
		if c.Kind == "peer uid 8200" {
			n = 8200
		}
		if ke, err := sm2.NewKeyExchange(privA, libPub(B.P), A.uid, long(n), 24, true); err == nil || ke != nil {
			return fmt.Errorf("NewKeyExchange accepted a peer uid of %d bytes (ENTL is 16 bits)", n)
		}
		return nil
	case "late peer uid 8192":
		ke, err := sm2.NewKeyExchange(privA, nil, A.uid, nil, 24, true)
		if err != nil {
			return fmt.Errorf("NewKeyExchange without peer: %v", err)
		}
		if err := ke.SetPeerParameters(libPub(B.P), long(8192)); err == nil {
			return fmt.Errorf("SetPeerParameters accepted a peer uid of 8192 bytes")
		}
		return nil
	case "ecdh uid 8192", "ecdh peer uid 8192":
		exp := refOneSided(A, B.P, B.R, B.uid, false, 24)
		s, _ := curveEC.NewPrivateKey(b32(A.d))
		e, _ := curveEC.NewPrivateKey(b32(A.r))
		pP, _ := curveEC.NewPublicKey(enc(B.P))
		pR, _ := curveEC.NewPublicKey(enc(B.R))
		uv, err := s.SM2MQV(e, pP, pR)
		if err != nil || !bytes.Equal(uv.Bytes(), enc(exp.V)) {
			return fmt.Errorf("SM2MQV: %v", err)
		}
		uid, puid := cp(A.uid), cp(B.uid)
		if c.Kind == "ecdh uid 8192" {
			uid = long(8192)
		} else {
			puid = long(8192)
		}
		if key, err := uv.SM2SharedKey(false, 24, s.PublicKey(), pP, uid, puid); err == nil || key != nil {
			return fmt.Errorf("SM2SharedKey accepted a uid of 8192 bytes: key=%x", key)
		}
		return nil
	case "ecdh SM2ZA uid 8192", "ecdh SM2ZA uid 8191":
		pP, _ := curveEC.NewPublicKey(enc(B.P))
		n := 8192
		if c.Kind == "ecdh SM2ZA uid 8191" {
			n = 8191
		}
		z, err := pP.SM2ZA(newSM3(), long(n))
		if n == 8192 {
			if err == nil || z != nil {
				return fmt.Errorf("SM2ZA accepted a uid of 8192 bytes: %x", z)
			}
			return nil
		}
		if err != nil || !bytes.Equal(z, ref.SM2ZA(long(n), B.P)) {
			return fmt.Errorf("SM2ZA(8191-byte uid) = %x, %v", z, err)
		}
		return nil
	case "zero-length uid flavours mean the default id":
		// nil, []byte{} and buf[:0] in every uid parameter of both packages
		exp := refOneSided(newParty(b32(A.d), b32(A.r), uidSpec{}), B.P, B.R, nil, false, 24)
		s, _ := curveEC.NewPrivateKey(b32(A.d))
		e, _ := curveEC.NewPrivateKey(b32(A.r))
		pP, _ := curveEC.NewPublicKey(enc(B.P))
		pR, _ := curveEC.NewPublicKey(enc(B.R))
		zDefault := ref.SM2ZA(ref.DefaultUID, B.P)
		for fu := 0; fu < 3; fu++ {
			z, err := pP.SM2ZA(newSM3(), uidSpec{Empty: fu}.bytes())
			if err != nil || !bytes.Equal(z, zDefault) {
				return fmt.Errorf("ecdh SM2ZA(zero-length uid, flavour %d) = %x, %v; Z of the default id is %x", fu, z, err, zDefault)
			}
			for fp := 0; fp < 3; fp++ {
				uid, puid := uidSpec{Empty: fu}, uidSpec{Empty: fp}
				uv, err := s.SM2MQV(e, pP, pR)
				if err != nil {
					return fmt.Errorf("SM2MQV: %v", err)
				}
				key, err := uv.SM2SharedKey(false, 24, s.PublicKey(), pP, uid.bytes(), puid.bytes())
				if err != nil || !bytes.Equal(key, exp.key) {
					return fmt.Errorf("ecdh SM2SharedKey(uid flavour %d, remoteUID flavour %d) = %x, %v; with the default ids the key is %x", fu, fp, key, err, exp.key)
				}
				for _, late := range []bool{false, true} {
					ke, err := newExchange(privA, B.P, uid.bytes(), puid.bytes(), 24, true, late)
					if err != nil {
						return fmt.Errorf("NewKeyExchange(uid flavour %d, peerUID flavour %d, late=%v): %v", fu, fp, late, err)
					}
					if _, err := ke.InitKeyExchange(sm2Rand(b32(A.r), 0)); err != nil {
						return fmt.Errorf("InitKeyExchange: %v", err)
					}
					k2, sA, err := ke.ConfirmResponder(libPub(B.R), cp(exp.s1))
					if err != nil || !bytes.Equal(k2, exp.key) || !bytes.Equal(sA, exp.s2) {
						return fmt.Errorf("sm2.KeyExchange(uid flavour %d, peerUID flavour %d, late=%v): key=%x sA=%x err=%v; with the default ids %x %x", fu, fp, late, k2, sA, err, exp.key, exp.s2)
					}
				}
			}
		}
		return nil
	case "sm2.CalculateZA does not substitute the default":
		// documented: "This function will NOT use default UID even the uid argument is empty"
		want := ref.SM2ZA(nil, B.P) // ENTL = 0
		for f := 0; f < 3; f++ {
			z, err := sm2.CalculateZA(libPub(B.P), uidSpec{Empty: f}.bytes())
			if err != nil || !bytes.Equal(z, want) {
				return fmt.Errorf("sm2.CalculateZA(zero-length uid, flavour %d) = %x, %v; Z with ENTL=0 is %x", f, z, err, want)
			}
		}
		return nil
	case "ecdh private key out of range":
		for _, k := range [][]byte{make([]byte, 32), b32(nMinus1), b32(bigN), b32(add(bigN, one)), bytes.Repeat([]byte{0xff}, 32)} {
			if key, err := curveEC.NewPrivateKey(k); err == nil {
				return fmt.Errorf("ecdh NewPrivateKey accepted %x (documented range [1, n-2]): %x", k, key.Bytes())
			}
		}
		for _, k := range [][]byte{b32(one), b32(nMinus2)} {
			if _, err := curveEC.NewPrivateKey(k); err != nil {
				return fmt.Errorf("ecdh NewPrivateKey refused %x: %v", k, err)
			}
		}
		return nil
	case "ecdh private key wrong length":
		for _, n := range []int{0, 1, 31, 33, 64} {
			k := bytes.Repeat([]byte{1}, n)
			if key, err := curveEC.NewPrivateKey(k); err == nil {
				return fmt.Errorf("ecdh NewPrivateKey accepted a %d-byte key: %x", n, key.Bytes())
			}
		}
		return nil
	case "sm2 private key out of range":
		for _, k := range [][]byte{make([]byte, 32), b32(nMinus1), b32(bigN), bytes.Repeat([]byte{0xff}, 32)} {
			if key, err := sm2.NewPrivateKey(k); err == nil {
				return fmt.Errorf("sm2.NewPrivateKey accepted %x (documented range [1, n-2]): %x", k, key.D)
			}
		}
		return nil
	}
	return fmt.Errorf("unknown misuse kind %q", c.Kind)
}

func TestC08_Misuse(t *testing.T) {
	h.MarkExhaustive("misuse")
	h.Sweep(t, h.P{Name: "misuse"}, func(emit func(misuseCase)) {
		for i, k := range misuseKinds {
			emit(misuseCase{Kind: k, Seed: h.Seed + uint64(i)*16})
		}
	}, checkMisuse)
}
