package c08

import (
	"bytes"
	"crypto/ecdsa"
	"fmt"
	"math/big"
	"testing"

	"github.com/emmansun/gmsm/ecdh"
	"github.com/emmansun/gmsm/sm2"
	"pgregory.net/rapid"
	"verif/harness/gen"
	"verif/harness/h"
	"verif/harness/ref"
)

// One-sided runs: this party holds (d, r); the peer's static and ephemeral
// points are arbitrary coordinate pairs - valid points whose discrete
// logarithm nobody knows (constructed x-coordinates: low half all ones, all
// zero, x = 0, tiny y, ...), or invalid ones that must be refused.

// peerCase: coordinates are big-endian magnitudes of any length (so that
// values >= 2^256 can be expressed); Neg* make the big.Int negative (only the
// math/big API can even express that).
type peerCase struct {
	D, R         h.B
	Responder    bool // role of this party
	PX, PY       h.B  // peer's static point
	RX, RY       h.B  // peer's ephemeral point
	NegX, NegY   bool // sign of the ephemeral point's coordinates
	StaticBad    bool // the static point (not the ephemeral one) is the invalid one under test
	UID, PeerUID uidSpec
	KLen         int
	Conf         bool   // this party's genSignature
	GiveS        bool   // hand the peer's (model-computed) confirmation value to this party
	Kind         string // how the generator built the peer points (label)
}

// validCoords: canonical affine coordinates of a point of the curve.
func validCoords(x, y []byte, negX, negY bool) (ref.Point, bool) {
	X, Y := fromB(x), fromB(y)
	if negX && X.Sign() != 0 || negY && Y.Sign() != 0 {
		return ref.Point{}, false
	}
	p := ref.Point{X: X, Y: Y}
	if X.Cmp(bigP) >= 0 || Y.Cmp(bigP) >= 0 || !ref.SM2.OnCurve(p) {
		return ref.Point{}, false
	}
	return p, true
}

func rawPub(x, y []byte, negX, negY bool) *ecdsa.PublicKey {
	X, Y := fromB(x), fromB(y)
	if negX {
		X.Neg(X)
	}
	if negY {
		Y.Neg(Y)
	}
	return &ecdsa.PublicKey{Curve: sm2.P256(), X: X, Y: Y}
}

// fits32 returns the 04||X||Y encoding if both magnitudes fit 32 bytes.
func rawEnc(x, y []byte) ([]byte, bool) {
	X, Y := fromB(x), fromB(y)
	if X.BitLen() > 256 || Y.BitLen() > 256 {
		return nil, false
	}
	return append(append([]byte{4}, b32(X)...), b32(Y)...), true
}

// oneSided is the model's view of this party's computation.
type oneSided struct {
	ok     bool
	key    []byte
	V      ref.Point
	s1, s2 []byte
	za, zb []byte
}

func refOneSided(self party, peerP, peerR ref.Point, peerUID []byte, responder bool, klen int) oneSided {
	pz := ref.SM2ZA(effUID(peerUID), peerP)
	o := oneSided{za: self.z, zb: pz}
	ra, rb := self.R, peerR
	if responder {
		o.za, o.zb = pz, self.z
		ra, rb = peerR, self.R
	}
	o.key, o.V, o.ok = ref.SM2KAP(self.d, self.r, peerP, peerR, o.za, o.zb, klen)
	if o.ok {
		o.s1, o.s2 = ref.SM2KAPConfirm(o.V, o.za, o.zb, ra, rb)
	}
	return o
}

// callNoPanic runs f and reports a panic as text.
func callNoPanic(f func()) (panicked string) {
	defer func() {
		if p := recover(); p != nil {
			panicked = fmt.Sprint(p)
		}
	}()
	f()
	return ""
}

func checkPeer(c peerCase, r *h.Rec) error {
	if len(c.D) != 32 || len(c.R) != 32 || c.KLen < 1 {
		return fmt.Errorf("malformed case")
	}
	self := newParty(c.D, c.R, c.UID)
	peerUID := c.PeerUID.bytes()
	peerP, pOK := validCoords(c.PX, c.PY, false, false)
	peerR, rOK := validCoords(c.RX, c.RY, c.NegX, c.NegY)
	role := "initiator"
	if c.Responder {
		role = "responder"
	}
	r.Label("role:" + role)
	r.Label("peer:" + c.Kind)
	r.Label(c.UID.class())
	r.Label(c.PeerUID.class())
	r.NTIf(true) // every case here has a constructed or invalid peer point
	desc := func() string {
		return fmt.Sprintf("\n  role=%s d=%x r=%x\n  peer static (%x,%x)\n  peer ephemeral (%s%x,%s%x)\n  uid=%s peerUID=%s klen=%d",
			role, c.D, c.R, c.PX, c.PY, sign(c.NegX), c.RX, sign(c.NegY), c.RY, h.Hex(self.uid), h.Hex(peerUID), c.KLen)
	}
	priv, err := sm2Static(self)
	if err != nil {
		return err
	}

	switch {
	case pOK && rOK:
		r.Label("valid peer points")
		exp := refOneSided(self, peerP, peerR, peerUID, c.Responder, c.KLen)
		if !exp.ok {
			r.Label("negative: V at infinity")
		} else {
			r.Label("xbar(peer R) bit127=%d", peerR.X.Bit(127))
		}
		if err := peerSM2Valid(c, self, priv, peerP, peerR, peerUID, exp); err != nil {
			return fmt.Errorf("sm2.KeyExchange (%s): %v%s", role, err, desc())
		}
		if err := peerECDHValid(c, self, peerP, peerR, peerUID, exp, r); err != nil {
			return fmt.Errorf("ecdh (%s): %v%s", role, err, desc())
		}
	case pOK && !rOK:
		r.Label("negative: invalid peer ephemeral")
		if err := peerSM2BadEphemeral(c, self, priv, peerP, peerUID); err != nil {
			return fmt.Errorf("sm2.KeyExchange (%s): %v%s", role, err, desc())
		}
		if e, ok := rawEnc(c.RX, c.RY); ok && !c.NegX && !c.NegY {
			if err := encodingRefused(e); err != nil {
				return fmt.Errorf("%v%s", err, desc())
			}
		}
		if c.RX != nil && c.RY != nil {
			if k, err := sm2.PublicKeyToECDH(rawPub(c.RX, c.RY, c.NegX, c.NegY)); err == nil {
				return fmt.Errorf("sm2.PublicKeyToECDH accepted an invalid point as %x%s", k.Bytes(), desc())
			}
		}
	case !pOK && rOK:
		r.Label("negative: invalid peer static key")
		if e, ok := rawEnc(c.PX, c.PY); ok {
			if err := encodingRefused(e); err != nil {
				return fmt.Errorf("%v%s", err, desc())
			}
		}
		if k, err := sm2.PublicKeyToECDH(rawPub(c.PX, c.PY, false, false)); err == nil {
			return fmt.Errorf("sm2.PublicKeyToECDH accepted an invalid point as %x%s", k.Bytes(), desc())
		}
		if err := peerSM2BadStatic(c, self, priv, peerR, peerUID, r); err != nil {
			return fmt.Errorf("sm2.KeyExchange (%s): %v%s", role, err, desc())
		}
	default:
		return fmt.Errorf("malformed case: both peer points invalid")
	}
	return nil
}

func sign(neg bool) string {
	if neg {
		return "-"
	}
	return ""
}

// encodingRefused: every byte-oriented constructor must refuse the encoding.
func encodingRefused(e []byte) error {
	if k, err := ecdh.P256().NewPublicKey(cp(e)); err == nil {
		return fmt.Errorf("ecdh.P256().NewPublicKey accepted the invalid point %x (as %x)", e, k.Bytes())
	}
	if k, err := sm2.NewPublicKey(cp(e)); err == nil {
		return fmt.Errorf("sm2.NewPublicKey accepted the invalid point %x (as %s)", e, pubHex(k))
	}
	return nil
}

// peerSM2Valid runs this party's side of sm2.KeyExchange against valid peer points.
func peerSM2Valid(c peerCase, self party, priv *sm2.PrivateKey, peerP, peerR ref.Point, peerUID []byte, exp oneSided) error {
	ke, err := newExchange(priv, peerP, self.uid, peerUID, c.KLen, c.Conf, false)
	if err != nil {
		return fmt.Errorf("NewKeyExchange: %v", err)
	}
	if !c.Responder {
		RA, err := ke.InitKeyExchange(sm2Rand(c.R, 0))
		if err != nil || !pubEq(RA, self.R) {
			return fmt.Errorf("InitKeyExchange: %s, %v; [r]G=%s", pubHex(RA), err, ptHex(self.R))
		}
		var sB []byte
		if c.GiveS && exp.ok {
			sB = cp(exp.s1)
		}
		key, sA, err := ke.ConfirmResponder(libPub(peerR), sB)
		if !exp.ok {
			if err == nil {
				return fmt.Errorf("ConfirmResponder succeeded although U is the point at infinity: key=%x", key)
			}
			return nil
		}
		if err != nil {
			return fmt.Errorf("ConfirmResponder(SB=%x): %v", sB, err)
		}
		if !bytes.Equal(key, exp.key) {
			return fmt.Errorf("key %s, GB/T 32918.3 value %s (V=%s)", h.Hex(key), h.Hex(exp.key), ptHex(exp.V))
		}
		if c.Conf && !bytes.Equal(sA, exp.s2) || !c.Conf && sA != nil {
			return fmt.Errorf("SA=%x, GB/T 32918.3 value %x (genSignature=%v)", sA, exp.s2, c.Conf)
		}
		return nil
	}
	RB, sB, err := ke.RepondKeyExchange(sm2Rand(c.R, 0), libPub(peerR))
	if !exp.ok {
		if err == nil {
			return fmt.Errorf("RepondKeyExchange succeeded although V is the point at infinity: RB=%s sB=%x", pubHex(RB), sB)
		}
		return nil
	}
	if err != nil || !pubEq(RB, self.R) {
		return fmt.Errorf("RepondKeyExchange: %s, %v; [r]G=%s", pubHex(RB), err, ptHex(self.R))
	}
	if c.Conf && !bytes.Equal(sB, exp.s1) || !c.Conf && sB != nil {
		return fmt.Errorf("SB=%x, GB/T 32918.3 value %x (genSignature=%v)", sB, exp.s1, c.Conf)
	}
	var sA []byte
	if c.GiveS {
		sA = cp(exp.s2)
	}
	key, err := ke.ConfirmInitiator(sA)
	if err != nil {
		return fmt.Errorf("ConfirmInitiator(SA=%x): %v", sA, err)
	}
	if !bytes.Equal(key, exp.key) {
		return fmt.Errorf("key %s, GB/T 32918.3 value %s (V=%s)", h.Hex(key), h.Hex(exp.key), ptHex(exp.V))
	}
	return nil
}

func peerECDHValid(c peerCase, self party, peerP, peerR ref.Point, peerUID []byte, exp oneSided, r *h.Rec) error {
	curve := ecdh.P256()
	if self.r.Cmp(nMinus1) == 0 {
		r.Label("ecdh view skipped: own ephemeral n-1 outside its key range")
		return nil
	}
	s, err := curve.NewPrivateKey(b32(self.d))
	if err != nil {
		return fmt.Errorf("NewPrivateKey(d): %v", err)
	}
	e, err := curve.NewPrivateKey(b32(self.r))
	if err != nil {
		return fmt.Errorf("NewPrivateKey(r): %v", err)
	}
	pP, err := curve.NewPublicKey(enc(peerP))
	if err != nil {
		return fmt.Errorf("NewPublicKey refused the valid point %x: %v", enc(peerP), err)
	}
	pR, err := curve.NewPublicKey(enc(peerR))
	if err != nil {
		return fmt.Errorf("NewPublicKey refused the valid point %x: %v", enc(peerR), err)
	}
	uv, err := s.SM2MQV(e, pP, pR)
	if !exp.ok {
		if err == nil {
			return fmt.Errorf("SM2MQV succeeded although the shared point is at infinity: %x", uv.Bytes())
		}
		return nil
	}
	if err != nil {
		return fmt.Errorf("SM2MQV: %v", err)
	}
	if !bytes.Equal(uv.Bytes(), enc(exp.V)) {
		return fmt.Errorf("SM2MQV point %x, GB/T 32918.3 value %x", uv.Bytes(), enc(exp.V))
	}
	key, err := uv.SM2SharedKey(c.Responder, c.KLen, s.PublicKey(), pP, cp(self.uid), cp(peerUID))
	if err != nil {
		return fmt.Errorf("SM2SharedKey: %v", err)
	}
	if !bytes.Equal(key, exp.key) {
		return fmt.Errorf("SM2SharedKey %s, GB/T 32918.3 value %s", h.Hex(key), h.Hex(exp.key))
	}
	return nil
}

// peerSM2BadEphemeral: an invalid ephemeral point must be refused with an
// error (documented on RepondKeyExchange / ConfirmResponder: "validate the
// peer's Ephemeral Public Key"), without any output.
func peerSM2BadEphemeral(c peerCase, self party, priv *sm2.PrivateKey, peerP ref.Point, peerUID []byte) error {
	ke, err := newExchange(priv, peerP, self.uid, peerUID, c.KLen, c.Conf, false)
	if err != nil {
		return fmt.Errorf("NewKeyExchange: %v", err)
	}
	bad := rawPub(c.RX, c.RY, c.NegX, c.NegY)
	if !c.Responder {
		if _, err := ke.InitKeyExchange(sm2Rand(c.R, 0)); err != nil {
			return fmt.Errorf("InitKeyExchange: %v", err)
		}
		var sB []byte
		if c.GiveS {
			sB = bytes.Repeat([]byte{0xa5}, 32)
		}
		var key, sA []byte
		if p := callNoPanic(func() { key, sA, err = ke.ConfirmResponder(bad, sB) }); p != "" {
			return fmt.Errorf("ConfirmResponder panicked on an invalid responder point: %s", p)
		}
		if err == nil {
			return fmt.Errorf("ConfirmResponder accepted an invalid responder point: key=%x sA=%x", key, sA)
		}
		if key != nil || sA != nil {
			return fmt.Errorf("ConfirmResponder returned data together with the error %v", err)
		}
		return nil
	}
	var RB *ecdsa.PublicKey
	var sB []byte
	if p := callNoPanic(func() { RB, sB, err = ke.RepondKeyExchange(sm2Rand(c.R, 0), bad) }); p != "" {
		return fmt.Errorf("RepondKeyExchange panicked on an invalid initiator point: %s", p)
	}
	if err == nil {
		return fmt.Errorf("RepondKeyExchange accepted an invalid initiator point: RB=%s sB=%x", pubHex(RB), sB)
	}
	if RB != nil || sB != nil {
		return fmt.Errorf("RepondKeyExchange returned data together with the error %v", err)
	}
	return nil
}

// peerSM2BadStatic: an invalid static peer key must never lead to a key.
func peerSM2BadStatic(c peerCase, self party, priv *sm2.PrivateKey, peerR ref.Point, peerUID []byte, r *h.Rec) error {
	bad := rawPub(c.PX, c.PY, false, false)
	var (
		stage    string
		err      error
		key, sig []byte
	)
	panicked := callNoPanic(func() {
		var ke *sm2.KeyExchange
		stage = "NewKeyExchange"
		if ke, err = sm2.NewKeyExchange(priv, bad, cp(self.uid), cp(peerUID), c.KLen, c.Conf); err != nil {
			return
		}
		if !c.Responder {
			stage = "InitKeyExchange"
			if _, err = ke.InitKeyExchange(sm2Rand(c.R, 0)); err != nil {
				return
			}
			stage = "ConfirmResponder"
			key, sig, err = ke.ConfirmResponder(libPub(peerR), nil)
			return
		}
		stage = "RepondKeyExchange"
		if _, sig, err = ke.RepondKeyExchange(sm2Rand(c.R, 0), libPub(peerR)); err != nil {
			return
		}
		stage = "ConfirmInitiator"
		key, err = ke.ConfirmInitiator(nil)
	})
	if panicked != "" {
		return fmt.Errorf("an invalid static peer public key caused a panic at %s instead of an error: %s", stage, panicked)
	}
	if err == nil {
		return fmt.Errorf("an invalid static peer public key was accepted: key=%x confirmation=%x", key, sig)
	}
	if key != nil {
		return fmt.Errorf("%s returned key %x together with the error %v", stage, key, err)
	}
	r.Label("invalid static key refused with an error at " + stage)
	return nil
}

// ---------------------------------------------------------------- generators

// liftPattern returns a curve point whose x has the given low 128 bits; the
// high half starts at hi and is incremented until x is on the curve.
func liftPattern(hi, lo *big.Int, odd uint) ref.Point {
	hi = new(big.Int).Set(hi)
	maxHi := new(big.Int).Rsh(bigP, 128)
	for i := 0; i < 1000; i++ {
		if hi.Cmp(maxHi) >= 0 {
			hi.SetInt64(0)
		}
		x := add(new(big.Int).Lsh(hi, 128), lo)
		if pt, ok := ref.SM2.LiftX(x, odd); ok {
			return pt
		}
		hi.Add(hi, one)
	}
	panic("liftPattern: no point found")
}

var lowPatterns = []struct {
	name string
	lo   func(seed uint64) *big.Int
}{
	{"x low half all ones", func(uint64) *big.Int { return sub(two128, one) }},
	{"x low half zero", func(uint64) *big.Int { return new(big.Int) }},
	{"x low half = 2^127", func(uint64) *big.Int { return new(big.Int).Set(two127) }},
	{"x low half = 2^127-1", func(uint64) *big.Int { return sub(two127, one) }},
	{"x low half = 1", func(uint64) *big.Int { return bi(1) }},
	{"x low half = 2^128-2^64", func(uint64) *big.Int { return sub(two128, new(big.Int).Lsh(one, 64)) }},
	{"x low half = 2^64-1", func(uint64) *big.Int { return sub(new(big.Int).Lsh(one, 64), one) }},
	{"x low half random", func(s uint64) *big.Int { return fromB(gen.Fill(s, 16)) }},
}

// drawValidPoint draws a valid point of a remarkable shape; the discrete
// logarithm is unknown for all but the "[k]G" kinds.
func drawValidPoint(t *rapid.T, label string) (ref.Point, string) {
	kind := rapid.IntRange(0, 11).Draw(t, label+"Kind")
	seed := rapid.Uint64().Draw(t, label+"Seed")
	odd := uint(seed & 1)
	switch kind {
	case 0, 1, 2, 3:
		pat := rapid.SampledFrom(lowPatterns).Draw(t, label+"Pat")
		hiKind := rapid.IntRange(0, 2).Draw(t, label+"Hi")
		hi := fromB(gen.Fill(seed^0x6869, 16))
		name := pat.name
		switch hiKind {
		case 1:
			hi = new(big.Int) // x < 2^128
			name += ", high half ~0"
		case 2:
			hi = sub(new(big.Int).Rsh(bigP, 128), bi(int64(1+seed%200))) // x close to p
			name += ", x close to p"
		}
		return liftPattern(hi, pat.lo(seed), odd), name
	case 4:
		i := int(seed % uint64(len(smallXPoints)))
		pt := smallXPoints[i]
		if odd == 1 {
			pt = ref.SM2.Neg(pt)
		}
		return pt, fmt.Sprintf("x=%d", smallXPoints[i].X)
	case 5:
		q := smallYPoints[seed%uint64(len(smallYPoints))]
		pt := ref.Point{X: bx(q.x), Y: bi(q.y)}
		if odd == 1 {
			return ref.SM2.Neg(pt), "y=p-tiny"
		}
		return pt, "y tiny"
	case 6:
		if odd == 1 {
			return ref.SM2.Neg(ref.SM2.G), "-G"
		}
		return ref.SM2.G, "G"
	case 7:
		// x = p-1-k: the largest x-coordinates
		for k := int64(1 + seed%50); ; k++ {
			if pt, ok := ref.SM2.LiftX(sub(bigP, bi(k)), odd); ok {
				return pt, "x=p-small"
			}
		}
	}
	return ref.SM2.BaseMul(uniformScalar(seed)), "[k]G uniform"
}

func coords(p ref.Point) (h.B, h.B) { return b32(p.X), b32(p.Y) }

func drawPeerValid(t *rapid.T) peerCase {
	d, r := drawSide(t, "self")
	c := peerCase{D: b32(d), R: b32(r), Responder: rapid.Bool().Draw(t, "responder"),
		UID: drawUID(t, "uid"), PeerUID: drawUID(t, "peerUID"), KLen: drawKLen(t),
		Conf: rapid.Bool().Draw(t, "conf"), GiveS: rapid.Bool().Draw(t, "giveS")}
	pr, kr := drawValidPoint(t, "peerR")
	var pp ref.Point
	var kp string
	switch rapid.IntRange(0, 9).Draw(t, "staticKind") {
	case 0:
		// P_peer = -[x-bar]R_peer: the base point of the final multiplication is the identity
		pp, kp = ref.SM2.Neg(ref.SM2.Mul(ref.SM2XBar(pr.X), pr)), "P=-[xbar]R (identity base)"
	case 1:
		// P_peer = [x-bar]R_peer: the implementation's addition is a doubling
		pp, kp = ref.SM2.Mul(ref.SM2XBar(pr.X), pr), "P=[xbar]R (doubling)"
	case 2:
		pp, kp = pr, "P=R"
	case 3:
		pp, kp = ref.SM2.BaseMul(d), "P=own P"
	case 4, 5:
		pp, kp = drawValidPoint(t, "peerP")
	default:
		pp, kp = ref.SM2.BaseMul(uniformScalar(rapid.Uint64().Draw(t, "peerPSeed"))), "[k]G uniform"
	}
	if rapid.IntRange(0, 19).Draw(t, "reflect") == 0 {
		// reflection: the peer sends back this party's own ephemeral point
		pr, kr = ref.SM2.BaseMul(r), "R=own R (reflection)"
	}
	c.PX, c.PY = coords(pp)
	c.RX, c.RY = coords(pr)
	c.Kind = "R: " + kr + " | P: " + kp
	return c
}

// TestC08_PeerPoints: valid peer points of remarkable shape, one-sided.
func TestC08_PeerPoints(t *testing.T) {
	h.Prop(t, h.P{Name: "peer-points", Quick: 600, Thorough: 15000, Journal: true}, drawPeerValid, checkPeer)
}

// invalidCoords produces an invalid coordinate pair of the named kind from a
// valid base point.
var invalidKinds = []string{
	"infinity (0,0)", "y+1", "y^1", "x+1", "swapped", "x+p", "y+p", "x=p", "y=p", "x=2^256-1", "y=2^256-1",
	"x+2^256", "y+2^256", "random pair", "(x,0)", "(0,0)+p", "negative x", "negative y", "y=-y mod p with x+p",
	"other curve (b+1)", "x>=p and off curve",
}

func invalidCoords(kind string, seed uint64) (x, y *big.Int, negX, negY bool) {
	base := ref.SM2.BaseMul(uniformScalar(seed))
	x, y = new(big.Int).Set(base.X), new(big.Int).Set(base.Y)
	ff := sub(two256, one)
	switch kind {
	case "infinity (0,0)":
		return new(big.Int), new(big.Int), false, false
	case "y+1":
		y.Add(y, one).Mod(y, bigP)
	case "y^1":
		y.Xor(y, one)
	case "x+1":
		x.Add(x, one).Mod(x, bigP)
	case "swapped":
		x, y = y, x
	case "x+p":
		q := smallXPoints[seed%uint64(len(smallXPoints))]
		x, y = add(q.X, bigP), new(big.Int).Set(q.Y)
	case "y+p":
		q := smallYPoints[seed%uint64(len(smallYPoints))]
		x, y = bx(q.x), add(bi(q.y), bigP)
	case "x=p":
		// (0, sqrt(b)) is a point; x = p is its non-canonical alias
		x, y = new(big.Int).Set(bigP), new(big.Int).Set(smallXPoints[0].Y)
	case "y=p":
		y = new(big.Int).Set(bigP)
	case "x=2^256-1":
		x = ff
	case "y=2^256-1":
		y = ff
	case "x+2^256":
		x.Add(x, two256)
	case "y+2^256":
		y.Add(y, two256)
	case "random pair":
		x = fromB(gen.Fill(seed, 32))
		x.Mod(x, bigP)
		y = fromB(gen.Fill(seed+1, 32))
		y.Mod(y, bigP)
	case "(x,0)":
		y = new(big.Int)
	case "(0,0)+p":
		x, y = new(big.Int).Set(bigP), new(big.Int).Set(bigP)
	case "negative x":
		negX = true
	case "negative y":
		negY = true
	case "y=-y mod p with x+p":
		q := smallXPoints[seed%uint64(len(smallXPoints))]
		x, y = add(q.X, bigP), sub(bigP, q.Y)
	case "other curve (b+1)":
		// a point of y^2 = x^3 + ax + (b+1): the classic invalid-curve input
		for xi := fromB(gen.Fill(seed, 31)); ; xi.Add(xi, one) {
			rhs := new(big.Int).Exp(xi, bi(3), bigP)
			rhs.Add(rhs, mul(ref.SM2A, xi)).Add(rhs, ref.SM2B).Add(rhs, one).Mod(rhs, bigP)
			if yy := new(big.Int).ModSqrt(rhs, bigP); yy != nil {
				x, y = new(big.Int).Set(xi), yy
				break
			}
		}
	case "x>=p and off curve":
		x = add(bigP, bi(int64(5+seed%1000)))
	}
	return
}

func drawPeerInvalid(t *rapid.T) peerCase {
	d, r := uniformScalar(rapid.Uint64().Draw(t, "dSeed")), uniformScalar(rapid.Uint64().Draw(t, "rSeed"))
	c := peerCase{D: b32(d), R: b32(r), Responder: rapid.Bool().Draw(t, "responder"),
		UID: drawUID(t, "uid"), PeerUID: drawUID(t, "peerUID"), KLen: rapid.IntRange(1, 64).Draw(t, "klen"),
		Conf: rapid.Bool().Draw(t, "conf"), GiveS: rapid.Bool().Draw(t, "giveS")}
	kind := rapid.SampledFrom(invalidKinds).Draw(t, "invalidKind")
	seed := rapid.Uint64().Draw(t, "seed")
	good := ref.SM2.BaseMul(uniformScalar(seed ^ 0x676f6f64))
	x, y, nx, ny := invalidCoords(kind, seed)
	c.StaticBad = rapid.IntRange(0, 3).Draw(t, "target") == 0 && !nx && !ny
	if c.StaticBad {
		c.PX, c.PY = x.Bytes(), y.Bytes()
		c.RX, c.RY = coords(good)
		c.Kind = "static: " + kind
	} else {
		c.PX, c.PY = coords(good)
		c.RX, c.RY, c.NegX, c.NegY = x.Bytes(), y.Bytes(), nx, ny
		c.Kind = "ephemeral: " + kind
	}
	return c
}

// TestC08_InvalidPeer: peer points that are not points of the curve.
func TestC08_InvalidPeer(t *testing.T) {
	h.Prop(t, h.P{Name: "invalid-peer", Quick: 1000, Thorough: 20000, Journal: true}, drawPeerInvalid, func(c peerCase, r *h.Rec) error {
		// the generator must really have produced an invalid point
		_, pOK := validCoords(c.PX, c.PY, false, false)
		_, rOK := validCoords(c.RX, c.RY, c.NegX, c.NegY)
		if pOK && rOK {
			r.Label("generator produced a valid point (control)")
		}
		return checkPeer(c, r)
	})
}

// TestC08_Encodings: byte encodings the ecdh/sm2 constructors document as
// refused (identity, compressed, hybrid, wrong length), and positive controls.
func TestC08_Encodings(t *testing.T) {
	type encCase struct {
		E     h.B
		Kind  string
		Valid bool
	}
	h.MarkExhaustive("encodings")
	h.Sweep(t, h.P{Name: "encodings"}, func(emit func(encCase)) {
		pts := []ref.Point{ref.SM2.G, smallXPoints[0], {X: bx(smallYPoints[0].x), Y: bi(smallYPoints[0].y)}, ref.SM2.BaseMul(uniformScalar(h.Seed))}
		emit(encCase{E: nil, Kind: "empty"})
		emit(encCase{E: []byte{0}, Kind: "identity 00"})
		emit(encCase{E: []byte{4}, Kind: "prefix only"})
		emit(encCase{E: make([]byte, 65), Kind: "65 zero bytes"})
		emit(encCase{E: append([]byte{4}, make([]byte, 64)...), Kind: "04 + zero coordinates"})
		for _, p := range pts {
			u := enc(p)
			emit(encCase{E: u, Kind: "uncompressed", Valid: true})
			emit(encCase{E: ref.SM2.Compressed(p), Kind: "compressed (documented as refused)"})
			for _, pre := range []byte{0, 1, 2, 3, 5, 6, 7, 0x84, 0xff} {
				e := cp(u)
				e[0] = pre
				emit(encCase{E: e, Kind: fmt.Sprintf("prefix %02x with 64 coordinate bytes", pre)})
			}
			emit(encCase{E: u[:64], Kind: "truncated"})
			emit(encCase{E: append(cp(u), 0), Kind: "one byte too long"})
			emit(encCase{E: u[:33], Kind: "04 + x only"})
			for i := 1; i < 65; i += 7 {
				e := cp(u)
				e[i] ^= 0x10
				emit(encCase{E: e, Kind: "one bit flipped"})
			}
		}
	}, func(c encCase, r *h.Rec) error {
		r.Label("encoding:" + c.Kind)
		r.NTIf(!c.Valid)
		_, modelErr := ref.SM2.Decode(c.E)
		valid := modelErr == nil && len(c.E) == 65
		if valid != c.Valid && c.Kind != "one bit flipped" {
			return fmt.Errorf("generator/model mismatch for %x", c.E)
		}
		k, err := ecdh.P256().NewPublicKey(cp(c.E))
		k2, err2 := sm2.NewPublicKey(cp(c.E))
		if valid {
			if err != nil || !bytes.Equal(k.Bytes(), c.E) {
				return fmt.Errorf("ecdh NewPublicKey(%x) = %v", c.E, err)
			}
			if err2 != nil || !bytes.Equal(enc(ref.Point{X: k2.X, Y: k2.Y}), c.E) {
				return fmt.Errorf("sm2.NewPublicKey(%x) = %v", c.E, err2)
			}
			return nil
		}
		if err == nil {
			return fmt.Errorf("ecdh NewPublicKey accepted %x (%s) as %x", c.E, c.Kind, k.Bytes())
		}
		if err2 == nil {
			return fmt.Errorf("sm2.NewPublicKey accepted %x (%s) as %s", c.E, c.Kind, pubHex(k2))
		}
		return nil
	})
}
