//go:build c08search

package c08

// How the sampledScalars in common_test.go were found: walk R = [k0+i]G with the
// reference model only (one affine addition per step) and keep the first k
// whose x-coordinate's low half (the part that enters x-bar) matches a
// pattern. The start value is a 33-byte number (larger than n); the constants
// recorded in common_test.go are the found k reduced mod n (same point). Run with
//
//	go test -tags verif,c08search -run TestSearchSampled -count=1 ./c08

import (
	"fmt"
	"math/big"
	"testing"

	"verif/harness/ref"
)

func TestSearchSampled(t *testing.T) {
	c := ref.SM2
	k := new(big.Int).SetBytes(hx("5A17C08C08C08C08C08C08C08C08C08C08C08C08C08C08C08C08C08C08C08C0811"))
	R := c.BaseMul(k)
	mask := new(big.Int).Sub(new(big.Int).Lsh(big.NewInt(1), 128), big.NewInt(1))
	const bits = 20
	found := map[string]bool{}
	for i := 0; len(found) < 4 && i < 1<<24; i++ {
		l := new(big.Int).And(R.X, mask)
		top := new(big.Int).Rsh(l, 128-bits).Uint64() // top `bits` bits of the low half, bit 127 first
		var name string
		switch top {
		case 1<<bits - 1:
			name = "ones"
		case 0:
			name = "zeros"
		case 1 << (bits - 1):
			name = "b127only"
		case 1<<(bits-1) - 1:
			name = "b127clear-rest-ones"
		}
		if name != "" && !found[name] {
			found[name] = true
			fmt.Printf("%s k=%064X x=%064X\n", name, k, R.X)
		}
		R = c.Add(R, c.G)
		k.Add(k, big.NewInt(1))
	}
}
