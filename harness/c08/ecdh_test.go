package c08

import (
	"bytes"
	"crypto/elliptic"
	"fmt"
	"hash"
	"math/big"
	"testing"

	"github.com/emmansun/gmsm/ecdh"
	"github.com/emmansun/gmsm/sm2"
	"github.com/emmansun/gmsm/sm3"
	"github.com/emmansun/gmsm/verifhook"
	"pgregory.net/rapid"
	"verif/harness/gen"
	"verif/harness/h"
	"verif/harness/ref"
)

func ecdhCurve() ecdh.Curve      { return ecdh.P256() }
func otherCurve() elliptic.Curve { return elliptic.P256() }
func newSM3() hash.Hash          { return sm3.New() }

// ---------------------------------------------------------------- plain ECDH

// dhCase: ECDH(d, Q) with Q = [K]G when K is set, else the explicit point.
type dhCase struct {
	D      h.B
	K      h.B // optional: discrete logarithm of Q
	QX, QY h.B
	Kind   string
}

func checkDH(c dhCase, r *h.Rec) error {
	d := fromB(c.D)
	Q, ok := validCoords(c.QX, c.QY, false, false)
	if !ok || len(c.D) != 32 {
		return fmt.Errorf("malformed case")
	}
	r.Label("Q: " + c.Kind)
	nt := c.Kind != "[k]G uniform"
	if cl := scalarClass(d); cl != "" {
		r.Label("d %s", cl)
		nt = true
	}
	r.NTIf(nt)
	want := ref.SM2.Mul(d, Q)
	if want.Inf {
		h.HarnessError("model: [d]Q is the identity for d=%x in [1,n-1]", d)
	}
	curve := ecdh.P256()
	priv, err := curve.NewPrivateKey(c.D)
	if err != nil {
		return fmt.Errorf("NewPrivateKey(%x): %v", c.D, err)
	}
	pub, err := curve.NewPublicKey(enc(Q))
	if err != nil {
		return fmt.Errorf("NewPublicKey(%x): %v", enc(Q), err)
	}
	got, err := priv.ECDH(pub)
	if err != nil {
		return fmt.Errorf("ECDH(d=%x, Q=%x): %v", c.D, enc(Q), err)
	}
	if !bytes.Equal(got, b32(want.X)) {
		return fmt.Errorf("ECDH(d=%x, Q=%x) = %x, x([d]Q) = %x", c.D, enc(Q), got, b32(want.X))
	}
	// ECDH(d, -Q) has the same x
	neg, err := curve.NewPublicKey(enc(ref.SM2.Neg(Q)))
	if err != nil {
		return fmt.Errorf("NewPublicKey(-Q): %v", err)
	}
	if g2, err := priv.ECDH(neg); err != nil || !bytes.Equal(g2, got) {
		return fmt.Errorf("ECDH(d, -Q) = %x, %v; ECDH(d, Q) = %x", g2, err, got)
	}
	// the math/big curve API of the sm2 package computes the same point
	x, y := sm2.P256().ScalarMult(Q.X, Q.Y, d.Bytes())
	if x.Cmp(want.X) != 0 || y.Cmp(want.Y) != 0 {
		return fmt.Errorf("sm2.P256().ScalarMult(Q, d=%x) = (%x,%x), [d]Q = %s", d, x, y, ptHex(want))
	}
	if len(c.K) == 32 {
		k := fromB(c.K)
		if k.Cmp(nMinus2) <= 0 && k.Sign() > 0 {
			// symmetric: ECDH(k, [d]G) is the same value
			pk, err := curve.NewPrivateKey(c.K)
			if err != nil {
				return fmt.Errorf("NewPrivateKey(%x): %v", c.K, err)
			}
			if !bytes.Equal(pk.PublicKey().Bytes(), enc(Q)) {
				return fmt.Errorf("PublicKey of k=%x is %x, [k]G = %x", c.K, pk.PublicKey().Bytes(), enc(Q))
			}
			if !bytes.Equal(priv.PublicKey().Bytes(), enc(ref.SM2.BaseMul(d))) {
				return fmt.Errorf("PublicKey of d=%x is %x, [d]G = %x", c.D, priv.PublicKey().Bytes(), enc(ref.SM2.BaseMul(d)))
			}
			sym, err := pk.ECDH(priv.PublicKey())
			if err != nil || !bytes.Equal(sym, got) {
				return fmt.Errorf("ECDH(k, [d]G) = %x, %v; ECDH(d, [k]G) = %x (d=%x k=%x)", sym, err, got, c.D, c.K)
			}
		}
	}
	return nil
}

func TestC08_ECDH(t *testing.T) {
	h.Prop(t, h.P{Name: "ecdh", Quick: 1000, Thorough: 20000, Journal: true}, func(t *rapid.T) dhCase {
		d := drawScalar(t, "d", false)
		c := dhCase{D: b32(d)}
		if rapid.Bool().Draw(t, "viaScalar") {
			k := drawScalar(t, "k", false)
			c.K = b32(k)
			c.QX, c.QY = coords(ref.SM2.BaseMul(k))
			c.Kind = "[k]G"
			if scalarClass(k) == "" {
				c.Kind = "[k]G uniform"
			}
			return c
		}
		var q ref.Point
		q, c.Kind = drawValidPoint(t, "Q")
		c.QX, c.QY = coords(q)
		return c
	}, checkDH)
}

// ---------------------------------------------------------------- implicit signature (internal/sm2ec through verifhook)

// isCase: t = (D + XBar * R) mod n, the limb-level step the byte-oriented
// implementation performs in internal/sm2ec.ImplicitSig.
type isCase struct {
	D, R, XBar h.B
}

func checkImplicitSig(c isCase, r *h.Rec) error {
	d, e, x := fromB(c.D), fromB(c.R), fromB(c.XBar)
	m := modN(mul(x, e))
	sc := sumClass(d, m)
	r.Label(sc)
	switch {
	case x.Cmp(two127) == 0:
		r.Label("xbar=2^127")
	case x.Cmp(sub(two128, one)) == 0:
		r.Label("xbar=2^128-1")
	}
	r.NTIf(sc != "d+m<n" && sc != "d+m>=2^256" || scalarClass(d) != "" || scalarClass(e) != "")
	want := modN(add(d, m))
	got, err := verifhook.ImplicitSig(cp(c.D), cp(c.R), cp(c.XBar))
	if err != nil {
		return fmt.Errorf("ImplicitSig(d=%x, r=%x, xbar=%x): %v", c.D, c.R, c.XBar, err)
	}
	if !bytes.Equal(got, b32(want)) {
		return fmt.Errorf("ImplicitSig(d=%x, r=%x, xbar=%x) = %x, (d + xbar*r) mod n = %x [%s]", c.D, c.R, c.XBar, got, b32(want), sc)
	}
	return nil
}

func TestC08_ImplicitSig(t *testing.T) {
	h.Prop(t, h.P{Name: "implicit-sig", Quick: 60000, Thorough: 1000000, Journal: true}, func(t *rapid.T) isCase {
		e := drawScalar(t, "r", false)
		var x *big.Int
		switch rapid.IntRange(0, 5).Draw(t, "xKind") {
		case 0:
			x = new(big.Int).Set(two127)
		case 1:
			x = sub(two128, one)
		case 2:
			x = add(two127, bi(int64(rapid.IntRange(0, 3).Draw(t, "xLow"))))
		default:
			x = add(two127, new(big.Int).Rsh(fromB(gen.Fill(rapid.Uint64().Draw(t, "xSeed"), 16)), 1))
		}
		m := modN(mul(x, e))
		var d *big.Int
		if rapid.IntRange(0, 2).Draw(t, "dep") == 0 {
			// t = 0 is part of the function's domain here (the caller refuses it later)
			d = dependentStatic(rapid.SampledFrom(dependentClasses).Draw(t, "depClass"), m, rapid.Uint64().Draw(t, "depSeed"))
		}
		if d == nil {
			d = drawScalar(t, "d", false)
		}
		return isCase{D: b32(d), R: b32(e), XBar: b32(x)}
	}, checkImplicitSig)
}
