package c08

import (
	"bytes"
	"crypto/ecdsa"
	"fmt"
	"math/big"
	"testing"

	"github.com/emmansun/gmsm/ecdh"
	"github.com/emmansun/gmsm/sm2"
	"pgregory.net/rapid"
	"verif/harness/gen"
	"verif/harness/h"
	"verif/harness/ref"
)

// Histories on ONE pair of KeyExchange objects (and one set of ecdh key
// objects): several complete exchanges in a row, failing steps in between,
// every byte slice handed to the library scribbled over right after the call
// returns, every byte slice returned by the library scribbled over once it has
// been copied, input slices carrying sentinel-filled spare capacity. Every
// later output must still be the GB/T 32918.3 value of a fresh object.
//
// What is scribbled and asserted: byte slices (uids, private-key and
// public-key encodings, confirmation values in and out, derived keys).
// *ecdsa.PublicKey / *big.Int objects are Go key objects that the API takes
// and returns by pointer; whether the library aliases those is recorded as an
// observation (TestC08_AliasObservations), not asserted.

type histCase struct {
	DA, DB       h.B
	RA, RB       []h.B // one ephemeral pair per round
	UA, UB       uidSpec
	KLen         int
	ConfA, ConfB bool
	Scribble     bool  // overwrite handed-in / returned byte slices after each call
	Spare        bool  // hand byte slices in with sentinel-filled spare capacity
	Layout       int   // 0: every byte argument a private copy; 1, 2: all byte arguments of a call are views into ONE message-like buffer (call order / reversed), each with its natural capacity reaching to the end of the buffer (>= 256 bytes behind the last one)
	Fail         []int // per round: failing step injected before the good one (see failKinds)
	NoSB         int   // flavour of "no confirmation sent" when the responder generates none: nil, []byte{}, buf[:0]
	LatePeer     bool
	Destroy      bool // Destroy both objects at the end and check what it must not touch
}

var failKinds = []string{"none", "invalid RA to responder", "invalid RB to initiator", "wrong SB", "wrong SA", "SA of a previous/other session"}

const sentinel = 0xEE

// arg prepares a private copy of b for handing to the library: same flavour of
// nil/empty, optionally with 24 bytes of spare capacity filled with a sentinel.
func arg(b []byte, spare bool) []byte {
	if !spare || b == nil {
		return cp(b)
	}
	buf := bytes.Repeat([]byte{sentinel}, len(b)+24)
	copy(buf, b)
	return buf[:len(b)]
}

// after verifies that the library neither modified the argument nor wrote into
// its spare capacity, then (if asked) overwrites all of it with garbage.
func after(what string, a, orig []byte, scribble bool) error {
	if !bytes.Equal(a, orig) {
		return fmt.Errorf("%s: the library modified its input slice: %x -> %x", what, orig, a)
	}
	full := a[:cap(a)]
	for i := len(a); i < len(full); i++ {
		if cap(a) == len(orig)+24 && full[i] != sentinel { // only slices made by arg(.., spare) carry the sentinel
			return fmt.Errorf("%s: the library wrote into the spare capacity of its input slice at offset %d", what, i)
		}
	}
	if scribble {
		for i := range full {
			full[i] = byte(0xA5 + 7*i)
		}
	}
	return nil
}

// taken copies a returned slice and (if asked) overwrites the original.
func taken(b []byte, scribble bool) []byte {
	out := cp(b)
	if scribble {
		for i := range b {
			b[i] = byte(0x5C + 3*i)
		}
	}
	return out
}

// frame is one patterned buffer laid out like a received protocol message:
// 32 bytes of pattern, the byte arguments of one call back to back, 256 bytes
// of pattern. The views handed to the library are plain sub-slices, so each
// has spare capacity up to the end of the buffer and the next argument sits
// directly behind the previous one - code that appends to an argument writes
// into its neighbour or into the tail.
type frame struct{ buf, orig []byte }

func newFrame(reverse bool, parts [][]byte) (*frame, [][]byte) {
	n := 32 + 256
	for _, p := range parts {
		n += len(p)
	}
	f := &frame{buf: make([]byte, n)}
	for i := range f.buf {
		f.buf[i] = byte(0xC3 ^ i*29)
	}
	views := make([][]byte, len(parts))
	off := 32
	for k := range parts {
		i := k
		if reverse {
			i = len(parts) - 1 - k
		}
		if parts[i] == nil {
			continue // "not given" stays nil
		}
		copy(f.buf[off:], parts[i])
		views[i] = f.buf[off : off+len(parts[i])] // capacity reaches to the end of the buffer
		off += len(parts[i])
	}
	f.orig = append([]byte{}, f.buf...)
	return f, views
}

// callArgs are the byte arguments of one library call.
type callArgs struct {
	c     *histCase
	parts [][]byte
	v     [][]byte
	f     *frame
}

func (c *histCase) args(parts ...[]byte) *callArgs {
	a := &callArgs{c: c, parts: parts}
	if c.Layout != 0 {
		a.f, a.v = newFrame(c.Layout == 2, parts)
		return a
	}
	for _, p := range parts {
		a.v = append(a.v, arg(p, c.Spare))
	}
	return a
}

// done checks that the library left the caller's memory alone - the arguments
// themselves, their spare capacity, and for a frame every byte of the whole
// buffer - and then (if asked) overwrites all of it.
func (a *callArgs) done(what string) error {
	if a.f == nil {
		for i := range a.parts {
			if err := after(what, a.v[i], a.parts[i], a.c.Scribble); err != nil {
				return err
			}
		}
		return nil
	}
	if !bytes.Equal(a.f.buf, a.f.orig) {
		i := 0
		for a.f.buf[i] == a.f.orig[i] {
			i++
		}
		return fmt.Errorf("%s: the library wrote into the caller's buffer (arguments are views into one %d-byte message buffer, first changed byte at offset %d, argument lengths %v starting at offset 32, reversed=%v)",
			what, len(a.f.buf), i, lens(a.parts), a.c.Layout == 2)
	}
	if a.c.Scribble {
		for i := range a.f.buf {
			a.f.buf[i] = byte(0xA5 + 7*i)
		}
	}
	return nil
}

func lens(p [][]byte) []int {
	out := make([]int, len(p))
	for i := range p {
		out[i] = len(p[i])
	}
	return out
}

func checkHistory(c histCase, r *h.Rec) error {
	rounds := len(c.RA)
	if rounds == 0 || len(c.RB) != rounds || len(c.Fail) != rounds || c.KLen < 1 {
		return fmt.Errorf("malformed case")
	}
	r.NT()
	r.Label("rounds=%d", rounds)
	if c.Scribble {
		r.Label("scribble")
	} else {
		r.Label("no scribble")
	}
	if c.Spare {
		r.Label("spare capacity with sentinel")
	}
	r.Label(c.UA.class())
	r.Label(c.UB.class())
	r.Label("layout:%s", []string{"private copies", "one message buffer, call order", "one message buffer, reversed order"}[c.Layout])
	A := newParty(c.DA, c.RA[0], c.UA)
	B := newParty(c.DB, c.RB[0], c.UB)
	desc := fmt.Sprintf("\n  dA=%x dB=%x uidA=%s uidB=%s klen=%d confA=%v confB=%v scribble=%v spare=%v layout=%d", c.DA, c.DB, h.Hex(A.uid), h.Hex(B.uid), c.KLen, c.ConfA, c.ConfB, c.Scribble, c.Spare, c.Layout)

	// ---- key objects from byte encodings that are scribbled afterwards
	mkPriv := func(d []byte) (*sm2.PrivateKey, error) {
		a := c.args(d)
		k, err := sm2.NewPrivateKey(a.v[0])
		if err != nil {
			return nil, err
		}
		return k, a.done("sm2.NewPrivateKey")
	}
	privA, err := mkPriv(c.DA)
	if err != nil {
		return fmt.Errorf("%v%s", err, desc)
	}
	privB, err := mkPriv(c.DB)
	if err != nil {
		return fmt.Errorf("%v%s", err, desc)
	}
	dAcopy, dBcopy := new(big.Int).Set(privA.D), new(big.Int).Set(privB.D)

	// ---- the two KeyExchange objects, uid slices scribbled after the constructor
	mkKE := func(priv *sm2.PrivateKey, peer ref.Point, uid, peerUID []byte, conf bool) (*sm2.KeyExchange, *ecdsa.PublicKey, error) {
		a := c.args(uid, peerUID)
		ua, pa := a.v[0], a.v[1]
		pub := libPub(peer)
		var ke *sm2.KeyExchange
		var err error
		if c.LatePeer {
			if ke, err = sm2.NewKeyExchange(priv, nil, ua, nil, c.KLen, conf); err == nil {
				err = ke.SetPeerParameters(pub, pa)
			}
		} else {
			ke, err = sm2.NewKeyExchange(priv, pub, ua, pa, c.KLen, conf)
		}
		if err != nil {
			return nil, nil, err
		}
		if err := a.done("NewKeyExchange/SetPeerParameters uid, peerUID"); err != nil {
			return nil, nil, err
		}
		// the Z of an identity through the one-shot helper, same discipline
		za := c.args(effUID(uid))
		if z, err := sm2.CalculateZA(&priv.PublicKey, za.v[0]); err != nil || !bytes.Equal(z, ref.SM2ZA(effUID(uid), ref.Point{X: priv.X, Y: priv.Y})) {
			return nil, nil, fmt.Errorf("sm2.CalculateZA = %x, %v", z, err)
		}
		if err := za.done("sm2.CalculateZA uid"); err != nil {
			return nil, nil, err
		}
		return ke, pub, nil
	}
	ini, pubBobj, err := mkKE(privA, B.P, A.uid, B.uid, c.ConfA)
	if err != nil {
		return fmt.Errorf("initiator: %v%s", err, desc)
	}
	res, pubAobj, err := mkKE(privB, A.P, B.uid, A.uid, c.ConfB)
	if err != nil {
		return fmt.Errorf("responder: %v%s", err, desc)
	}

	// ---- ecdh key objects, reused over all rounds
	curve := ecdh.P256()
	mkE := func(d []byte) (*ecdh.PrivateKey, error) {
		a := c.args(d)
		k, err := curve.NewPrivateKey(a.v[0])
		if err != nil {
			return nil, err
		}
		return k, a.done("ecdh NewPrivateKey")
	}
	mkP := func(p ref.Point) (*ecdh.PublicKey, error) {
		e := enc(p)
		a := c.args(e)
		k, err := curve.NewPublicKey(a.v[0])
		if err != nil {
			return nil, err
		}
		return k, a.done("ecdh NewPublicKey")
	}
	esA, err := mkE(c.DA)
	if err != nil {
		return fmt.Errorf("%v%s", err, desc)
	}
	esB, err := mkE(c.DB)
	if err != nil {
		return fmt.Errorf("%v%s", err, desc)
	}
	epA, err := mkP(A.P)
	if err != nil {
		return fmt.Errorf("%v%s", err, desc)
	}
	epB, err := mkP(B.P)
	if err != nil {
		return fmt.Errorf("%v%s", err, desc)
	}
	// Bytes() hands out copies: scribbling them must not reach the key objects
	taken(esA.Bytes(), c.Scribble)
	taken(epB.Bytes(), c.Scribble)
	taken(esA.PublicKey().Bytes(), c.Scribble)

	var prevS2 []byte
	for i := 0; i < rounds; i++ {
		kc := kapCase{DA: c.DA, DB: c.DB, RA: c.RA[i], RB: c.RB[i], UA: c.UA, UB: c.UB, KLen: c.KLen, ConfA: c.ConfA, ConfB: c.ConfB}
		e := refExpect(kc)
		rd := fmt.Sprintf(" [round %d of %d, rA=%x rB=%x]%s", i+1, rounds, c.RA[i], c.RB[i], desc)
		fail := failKinds[c.Fail[i]]
		if fail != "none" {
			r.Label("failing step first: " + fail)
		}
		bad := rawPub(b32(add(e.A.R.X, one)), b32(e.A.R.Y), false, false) // off curve

		RAi, err := ini.InitKeyExchange(sm2Rand(c.RA[i], 0))
		if err != nil || !pubEq(RAi, e.A.R) {
			return fmt.Errorf("InitKeyExchange: %s, %v; [rA]G=%s%s", pubHex(RAi), err, ptHex(e.A.R), rd)
		}
		RAwire := clonePub(RAi)

		if fail == "invalid RA to responder" {
			if RB, sB, err := res.RepondKeyExchange(sm2Rand(c.RB[i], 0), bad); err == nil {
				return fmt.Errorf("RepondKeyExchange accepted an invalid RA: RB=%s sB=%x%s", pubHex(RB), sB, rd)
			}
		}
		RBi, sBret, err := res.RepondKeyExchange(sm2Rand(c.RB[i], 0), RAwire)
		if !e.ok {
			r.Label("round with V at infinity (refused, next round goes on)")
			if err == nil {
				return fmt.Errorf("RepondKeyExchange succeeded although V is at infinity%s", rd)
			}
			if k, s, err := ini.ConfirmResponder(libPub(e.B.R), nil); err == nil {
				return fmt.Errorf("ConfirmResponder succeeded although U is at infinity: %x %x%s", k, s, rd)
			}
			continue
		}
		if err != nil || !pubEq(RBi, e.B.R) {
			return fmt.Errorf("RepondKeyExchange: %s, %v; [rB]G=%s%s", pubHex(RBi), err, ptHex(e.B.R), rd)
		}
		RBwire := clonePub(RBi)
		sB := taken(sBret, c.Scribble)
		if c.ConfB && !bytes.Equal(sB, e.s1) || !c.ConfB && sB != nil {
			return fmt.Errorf("SB=%x, GB/T 32918.3 value %x (genSignature=%v)%s", sB, e.s1, c.ConfB, rd)
		}
		if !c.ConfB {
			// "no confirmation sent" in each of its flavours
			sB = uidSpec{Empty: c.NoSB}.bytes()
			r.Label("no SB given as flavour %d", c.NoSB)
		}

		if fail == "invalid RB to initiator" {
			if k, s, err := ini.ConfirmResponder(bad, cp(sB)); err == nil {
				return fmt.Errorf("ConfirmResponder accepted an invalid RB: key=%x sA=%x%s", k, s, rd)
			}
		}
		if fail == "wrong SB" && c.ConfB {
			w := cp(sB)
			w[i%len(w)] ^= 0x40
			wa := c.args(w, A.uid, B.uid) // the ids are bystanders in the same message
			if k, s, err := ini.ConfirmResponder(clonePub(RBwire), wa.v[0]); err == nil {
				return fmt.Errorf("ConfirmResponder accepted a wrong SB: key=%x sA=%x%s", k, s, rd)
			}
			if err := wa.done("ConfirmResponder sB"); err != nil {
				return fmt.Errorf("%v%s", err, rd)
			}
		}
		sBa := c.args(sB, enc(e.B.R), A.uid)
		rbArg := clonePub(RBwire)
		keyAret, sAret, err := ini.ConfirmResponder(rbArg, sBa.v[0])
		if err != nil {
			return fmt.Errorf("ConfirmResponder (after %q): %v%s", fail, err, rd)
		}
		if err := sBa.done("ConfirmResponder sB"); err != nil {
			return fmt.Errorf("%v%s", err, rd)
		}
		keyA, sA := taken(keyAret, c.Scribble), taken(sAret, c.Scribble)
		if !bytes.Equal(keyA, e.key) {
			return fmt.Errorf("initiator key %s, GB/T 32918.3 value %s%s", h.Hex(keyA), h.Hex(e.key), rd)
		}
		if c.ConfA && !bytes.Equal(sA, e.s2) || !c.ConfA && sA != nil {
			return fmt.Errorf("SA=%x, GB/T 32918.3 value %x (genSignature=%v)%s", sA, e.s2, c.ConfA, rd)
		}

		if c.ConfA {
			var w []byte
			switch fail {
			case "wrong SA":
				w = cp(sA)
				w[(5*i+3)%len(w)] ^= 0x01
			case "SA of a previous/other session":
				w = cp(prevS2) // a value that was right one round ago must not be right now
				if w == nil {
					w = cp(e.s1)
				}
			}
			if w != nil && !bytes.Equal(w, e.s2) {
				wa := c.args(w, B.uid)
				if k, err := res.ConfirmInitiator(wa.v[0]); err == nil {
					return fmt.Errorf("ConfirmInitiator accepted the wrong SA %x (right one %x): key=%x%s", w, e.s2, k, rd)
				}
				if err := wa.done("ConfirmInitiator s1"); err != nil {
					return fmt.Errorf("%v%s", err, rd)
				}
			}
		}
		sAa := c.args(sA, A.uid, B.uid)
		keyBret, err := res.ConfirmInitiator(sAa.v[0])
		if err != nil {
			return fmt.Errorf("ConfirmInitiator (after %q): %v%s", fail, err, rd)
		}
		if err := sAa.done("ConfirmInitiator s1"); err != nil {
			return fmt.Errorf("%v%s", err, rd)
		}
		keyB := taken(keyBret, c.Scribble)
		if !bytes.Equal(keyB, e.key) {
			return fmt.Errorf("responder key %s, GB/T 32918.3 value %s%s", h.Hex(keyB), h.Hex(e.key), rd)
		}
		// the final steps are repeatable and unaffected by what happened to the
		// slices of the first time
		if k2, err := res.ConfirmInitiator(cp(sA)); err != nil || !bytes.Equal(k2, e.key) {
			return fmt.Errorf("second ConfirmInitiator: key=%x err=%v, want %x%s", k2, err, e.key, rd)
		}
		rbArg2 := clonePub(RBwire)
		if k2, s2, err := ini.ConfirmResponder(rbArg2, cp(sB)); err != nil || !bytes.Equal(k2, e.key) || !bytes.Equal(s2, sA) {
			return fmt.Errorf("second ConfirmResponder: key=%x sA=%x err=%v, want %x %x%s", k2, s2, err, e.key, sA, rd)
		}
		if c.Destroy && i == rounds-1 {
			// The initiator is done and destroys its object while the responder's object
			// is still in use (seeded change C08-9-1: Destroy also wiped the public-key objects
			// the caller had passed in, so with shared pointers the other party's R_A /
			// R_B turned into (0,0)). Objects handed to the library stay the caller's.
			r.Label("initiator destroyed while the responder object is still in use")
			if p := callNoPanic(func() { ini.Destroy() }); p != "" {
				return fmt.Errorf("Destroy panicked: %s%s", p, rd)
			}
			if !pubEq(rbArg, e.B.R) || !pubEq(rbArg2, e.B.R) {
				return fmt.Errorf("Destroy of the initiator object modified the R_B object the caller had passed to ConfirmResponder: now %s, was %s%s", pubHex(rbArg), ptHex(e.B.R), rd)
			}
			if !pubEq(RAwire, e.A.R) || !pubEq(RBwire, e.B.R) {
				return fmt.Errorf("Destroy of the initiator object modified a public-key object held by the caller%s", rd)
			}
			if k2, err := res.ConfirmInitiator(cp(sA)); err != nil || !bytes.Equal(k2, e.key) {
				return fmt.Errorf("ConfirmInitiator after the OTHER party destroyed its object: key=%x err=%v, want %x%s", k2, err, e.key, rd)
			}
		}
		prevS2 = e.s2

		// ---- ecdh on the same long-lived key objects
		if fromB(c.RA[i]).Cmp(nMinus1) != 0 && fromB(c.RB[i]).Cmp(nMinus1) != 0 {
			eeA, err := mkE(c.RA[i])
			if err != nil {
				return fmt.Errorf("%v%s", err, rd)
			}
			eeB, err := mkE(c.RB[i])
			if err != nil {
				return fmt.Errorf("%v%s", err, rd)
			}
			for _, v := range []struct {
				name         string
				s, e         *ecdh.PrivateKey
				pP, pR       *ecdh.PublicKey
				resp         bool
				uid, peerUID []byte
			}{
				{"initiator", esA, eeA, epB, eeB.PublicKey(), false, A.uid, B.uid},
				{"responder", esB, eeB, epA, eeA.PublicKey(), true, B.uid, A.uid},
			} {
				for rep := 0; rep < 2; rep++ {
					uv, err := v.s.SM2MQV(v.e, v.pP, v.pR)
					if err != nil {
						return fmt.Errorf("ecdh %s SM2MQV: %v%s", v.name, err, rd)
					}
					if got := taken(uv.Bytes(), c.Scribble); !bytes.Equal(got, enc(e.V)) {
						return fmt.Errorf("ecdh %s SM2MQV point %x, GB/T 32918.3 value %x%s", v.name, got, enc(e.V), rd)
					}
					ua := c.args(v.uid, v.peerUID)
					kret, err := uv.SM2SharedKey(v.resp, c.KLen, v.s.PublicKey(), v.pP, ua.v[0], ua.v[1])
					if err != nil {
						return fmt.Errorf("ecdh %s SM2SharedKey: %v%s", v.name, err, rd)
					}
					if err := ua.done("ecdh " + v.name + " SM2SharedKey uid, remoteUID"); err != nil {
						return fmt.Errorf("%v%s", err, rd)
					}
					if rep == 0 {
						za := c.args(v.peerUID, v.uid)
						z, err := v.pP.SM2ZA(newSM3(), za.v[0])
						wantZ := e.B.z
						if v.resp {
							wantZ = e.A.z
						}
						if err != nil || !bytes.Equal(z, wantZ) {
							return fmt.Errorf("ecdh %s SM2ZA = %x, %v; want %x%s", v.name, z, err, wantZ, rd)
						}
						if err := za.done("ecdh SM2ZA uid"); err != nil {
							return fmt.Errorf("%v%s", err, rd)
						}
					}
					if k := taken(kret, c.Scribble); !bytes.Equal(k, e.key) {
						return fmt.Errorf("ecdh %s SM2SharedKey (call %d) %s, GB/T 32918.3 value %s%s", v.name, rep+1, h.Hex(k), h.Hex(e.key), rd)
					}
				}
			}
			// plain ECDH on the same objects, result scribbled, repeated
			want := b32(ref.SM2.Mul(e.A.d, e.B.P).X)
			for rep := 0; rep < 2; rep++ {
				x, err := esA.ECDH(epB)
				if err != nil || !bytes.Equal(x, want) {
					return fmt.Errorf("ecdh ECDH (call %d) = %x, %v; x([dA]PB) = %x%s", rep+1, x, err, want, rd)
				}
				taken(x, c.Scribble)
			}
		}
	}

	// ---- caller-owned objects are what they were
	if privA.D.Cmp(dAcopy) != 0 || privB.D.Cmp(dBcopy) != 0 || !pubEq(&privA.PublicKey, A.P) || !pubEq(&privB.PublicKey, B.P) {
		return fmt.Errorf("the exchange modified a caller's private key object%s", desc)
	}
	if !pubEq(pubBobj, B.P) || !pubEq(pubAobj, A.P) {
		return fmt.Errorf("the exchange modified a caller's peer public key object%s", desc)
	}
	if c.Destroy {
		r.Label("Destroy")
		// documented: "Destroy clear all internal state and Ephemeral
		// private/public keys." It must not reach anything the caller owns and
		// must be harmless when repeated.
		for k := 0; k < 2; k++ {
			if p := callNoPanic(func() { ini.Destroy(); res.Destroy() }); p != "" {
				return fmt.Errorf("Destroy (call %d) panicked: %s%s", k+1, p, desc)
			}
		}
		if privA.D.Cmp(dAcopy) != 0 || privB.D.Cmp(dBcopy) != 0 || !pubEq(&privA.PublicKey, A.P) || !pubEq(&privB.PublicKey, B.P) {
			return fmt.Errorf("Destroy modified a caller's private key object%s", desc)
		}
		if !pubEq(pubBobj, B.P) || !pubEq(pubAobj, A.P) {
			return fmt.Errorf("Destroy modified a caller's peer public key object%s", desc)
		}
		// fresh objects from the same caller-owned keys work as ever
		kc := kapCase{DA: c.DA, DB: c.DB, RA: c.RA[0], RB: c.RB[0], UA: c.UA, UB: c.UB, KLen: c.KLen, ConfA: c.ConfA, ConfB: c.ConfB}
		e := refExpect(kc)
		if e.ok {
			ini2, err := sm2.NewKeyExchange(privA, pubBobj, cp(A.uid), cp(B.uid), c.KLen, c.ConfA)
			if err != nil {
				return fmt.Errorf("NewKeyExchange after Destroy of another object: %v%s", err, desc)
			}
			if _, err := ini2.InitKeyExchange(sm2Rand(c.RA[0], 0)); err != nil {
				return fmt.Errorf("InitKeyExchange: %v%s", err, desc)
			}
			k, _, err := ini2.ConfirmResponder(libPub(e.B.R), nil)
			if err != nil || !bytes.Equal(k, e.key) {
				return fmt.Errorf("fresh object after Destroy of another: key=%x err=%v want %x%s", k, err, e.key, desc)
			}
		}
	}
	return nil
}

func drawHistory(t *rapid.T) histCase {
	rounds := rapid.IntRange(1, 3).Draw(t, "rounds")
	c := histCase{
		DA: b32(uniformScalar(rapid.Uint64().Draw(t, "dA"))), DB: b32(uniformScalar(rapid.Uint64().Draw(t, "dB"))),
		UA: drawUID(t, "uidA"), UB: drawUID(t, "uidB"),
		KLen:  rapid.SampledFrom([]int{1, 16, 16, 32, 33, 100}).Draw(t, "klen"),
		ConfA: rapid.IntRange(0, 3).Draw(t, "confA") != 0, ConfB: rapid.IntRange(0, 3).Draw(t, "confB") != 0,
		Scribble: rapid.IntRange(0, 3).Draw(t, "scribble") != 0, Spare: rapid.Bool().Draw(t, "spare"),
		Layout: rapid.SampledFrom([]int{0, 1, 1, 2, 2}).Draw(t, "layout"),
		NoSB: rapid.IntRange(0, 2).Draw(t, "noSB"), LatePeer: rapid.Bool().Draw(t, "late"), Destroy: rapid.Bool().Draw(t, "destroy"),
	}
	for i := 0; i < rounds; i++ {
		var rA, rB *big.Int
		if rapid.IntRange(0, 5).Draw(t, "sameEph") == 0 && i > 0 {
			// the same ephemerals again: the round must give the same values again
			rA, rB = fromB(c.RA[i-1]), fromB(c.RB[i-1])
		} else {
			rA, rB = drawScalar(t, "rA", true), drawScalar(t, "rB", true)
		}
		c.RA, c.RB = append(c.RA, b32(rA)), append(c.RB, b32(rB))
		c.Fail = append(c.Fail, rapid.IntRange(0, len(failKinds)-1).Draw(t, "fail"))
	}
	return c
}

// TestC08_Histories: object reuse, failing steps, scribbled and spare-capacity slices.
func TestC08_Histories(t *testing.T) {
	h.Prop(t, h.P{Name: "histories", Quick: 160, Thorough: 5000, Journal: true}, drawHistory, checkHistory)
}

// ---------------------------------------------------------------- aliasing of key objects (observation only)

type aliasCase struct {
	Kind string
	Seed uint64
}

var aliasKinds = []string{
	"peer static key object mutated after NewKeyExchange",
	"initiator's ephemeral point object mutated after RepondKeyExchange, before ConfirmInitiator",
	"point returned by InitKeyExchange mutated before ConfirmResponder",
	"point returned by RepondKeyExchange mutated before ConfirmInitiator",
	"use after Destroy",
}

// TestC08_AliasObservations records - without asserting anything beyond "no
// key for a peer other than the intended one is silently produced AND the
// model agrees" being either true or false - whether sm2.KeyExchange keeps
// references to the *ecdsa.PublicKey objects it is given / hands out. These
// are Go key objects passed by pointer, not byte slices; the decision for the
// SM9 analogue was to record such retention, not to flag it.
func TestC08_AliasObservations(t *testing.T) {
	h.Sweep(t, h.P{Name: "alias-observations"}, func(emit func(aliasCase)) {
		for i, k := range aliasKinds {
			emit(aliasCase{Kind: k, Seed: h.Seed + uint64(i)})
		}
	}, func(c aliasCase, r *h.Rec) error {
		r.NT()
		A := newParty(b32(uniformScalar(c.Seed+1)), b32(uniformScalar(c.Seed+2)), uidSpec{})
		B := newParty(b32(uniformScalar(c.Seed+3)), b32(uniformScalar(c.Seed+4)), uidSpec{})
		privA, err := sm2Static(A)
		if err != nil {
			return err
		}
		garble := func(p *ecdsa.PublicKey) { p.X.SetInt64(5); p.Y.SetInt64(7) }
		obs := func(same bool, panicked string, err error) {
			switch {
			case panicked != "":
				r.Label("observation: %s -> later step panics (%s): object is aliased", c.Kind, panicked)
			case err != nil:
				r.Label("observation: %s -> later step fails with an error: object is aliased", c.Kind)
			case same:
				r.Label("observation: %s -> later step unaffected: object was copied", c.Kind)
			default:
				r.Label("observation: %s -> later step gives other values without error: object is aliased", c.Kind)
			}
		}
		switch c.Kind {
		case aliasKinds[0]:
			exp := refOneSided(A, B.P, B.R, nil, false, 16)
			pub := libPub(B.P)
			ke, err := sm2.NewKeyExchange(privA, pub, nil, nil, 16, true)
			if err != nil {
				return err
			}
			garble(pub)
			var key []byte
			p := callNoPanic(func() {
				if _, err = ke.InitKeyExchange(sm2Rand(b32(A.r), 0)); err == nil {
					key, _, err = ke.ConfirmResponder(libPub(B.R), nil)
				}
			})
			obs(bytes.Equal(key, exp.key), p, err)
		case aliasKinds[1], aliasKinds[3]:
			exp := refOneSided(A, B.P, B.R, nil, true, 16)
			ke, err := sm2.NewKeyExchange(privA, libPub(B.P), nil, nil, 16, true)
			if err != nil {
				return err
			}
			peerR := libPub(B.R)
			RB, _, err := ke.RepondKeyExchange(sm2Rand(b32(A.r), 0), peerR)
			if err != nil {
				return err
			}
			if c.Kind == aliasKinds[1] {
				garble(peerR)
			} else {
				garble(RB)
			}
			var key []byte
			p := callNoPanic(func() { key, err = ke.ConfirmInitiator(cp(exp.s2)) })
			obs(bytes.Equal(key, exp.key), p, err)
		case aliasKinds[2]:
			exp := refOneSided(A, B.P, B.R, nil, false, 16)
			ke, err := sm2.NewKeyExchange(privA, libPub(B.P), nil, nil, 16, true)
			if err != nil {
				return err
			}
			RA, err := ke.InitKeyExchange(sm2Rand(b32(A.r), 0))
			if err != nil {
				return err
			}
			garble(RA)
			var key []byte
			p := callNoPanic(func() { key, _, err = ke.ConfirmResponder(libPub(B.R), cp(exp.s1)) })
			obs(bytes.Equal(key, exp.key), p, err)
		case aliasKinds[4]:
			exp := refOneSided(A, B.P, B.R, nil, true, 16)
			ke, err := sm2.NewKeyExchange(privA, libPub(B.P), nil, nil, 16, false)
			if err != nil {
				return err
			}
			if _, _, err := ke.RepondKeyExchange(sm2Rand(b32(A.r), 0), libPub(B.R)); err != nil {
				return err
			}
			ke.Destroy()
			var key []byte
			p := callNoPanic(func() { key, err = ke.ConfirmInitiator(nil) })
			switch {
			case p != "":
				r.Label("observation: ConfirmInitiator after Destroy panics")
			case err != nil:
				r.Label("observation: ConfirmInitiator after Destroy returns an error")
			case bytes.Equal(key, exp.key):
				// the documented purpose of Destroy is that the secrets are gone
				return fmt.Errorf("after Destroy the object still derives the session key %x", key)
			default:
				r.Label("observation: ConfirmInitiator after Destroy returns bytes that are not the session key, without error")
			}
		}
		return nil
	})
}

var _ = gen.Fill
