package c08

import (
	"bytes"
	"encoding/binary"
	"fmt"
	"math/big"
	"runtime/debug"
	"testing"

	"github.com/emmansun/gmsm/ecdh"
	"github.com/emmansun/gmsm/sm2"
	"verif/harness/gen"
	"verif/harness/h"
	"verif/harness/ref"
)

// Native coverage-guided fuzz targets (thorough tier; the driver runs
// `go test -fuzz`). A data-provider layer turns EVERY sufficiently long byte
// string into a well-formed case of one of the package's case types; the
// oracle is the same check function the rapid properties and sweeps use
// (reference model of GB/T 32918.3, refusal of invalid points), evaluated on
// every input. Nothing is random: the library's readers are the scripted
// readers built from the case.

// ---------------------------------------------------------------- data provider

// fzUIDs: the user-id flavours a nibble selects.
var fzUIDs = []uidSpec{
	{N: 0}, {N: 0, Empty: 1}, {N: 0, Empty: 2}, {N: -1}, {N: 1}, {N: 16}, {N: 64}, {N: 5},
	{N: 32}, {N: 33}, {N: 100}, {N: 200}, {N: maxUID}, {N: 0}, {N: 16}, {N: 2},
}

func fzUID(sel byte, seed uint64) uidSpec {
	u := fzUIDs[sel&15]
	if u.N > 0 {
		u.Seed = seed
	}
	return u
}

// fzKLen: 1..300 for most selector values, otherwise a length where the KDF's
// block structure changes.
func fzKLen(k uint16) int {
	if k < 0xff00 {
		return 1 + int(k)%300
	}
	return []int{511, 512, 513, 1024, 4096, 8160, 8161, 8192}[k&7]
}

// fzScalar reduces 32 bytes into [1, max]: v -> (v-1 mod max) + 1, so that the
// bytes of an in-range scalar mean that scalar (0 means max).
func fzScalar(b []byte, max *big.Int) *big.Int {
	v := fromB(b)
	v.Sub(v, one).Mod(v, max)
	return v.Add(v, one)
}

// fzSide decodes one party's (static, ephemeral) scalars; dep != 0 derives the
// static scalar from the ephemeral one so that the implicit signature falls
// into the chosen class (t = 0, t = +-1, the carry classes, P = [xbar]R).
func fzSide(dB, rB []byte, dep byte, seed uint64) (d, r *big.Int) {
	r = fzScalar(rB, nMinus1)
	if k := int(dep) % (2 * len(dependentClasses)); k >= len(dependentClasses) {
		_, m := implicitParts(r)
		if d = dependentStatic(dependentClasses[k-len(dependentClasses)], m, seed); d != nil {
			return d, r
		}
	}
	return fzScalar(dB, nMinus2), r
}

// fzLift returns the curve point whose x is the first x' >= x mod p with a
// point above it (parity of y as asked).
func fzLift(xb []byte, odd uint) ref.Point {
	x := fromB(xb)
	x.Mod(x, bigP)
	for i := 0; i < 4000; i++ {
		if pt, ok := ref.SM2.LiftX(x, odd); ok {
			return pt
		}
		if x.Add(x, one); x.Cmp(bigP) >= 0 {
			x.SetInt64(0)
		}
	}
	return ref.SM2.G
}

const (
	fzPeerMin = 143
	fzRunsMin = 143
)

// decodePeer: bytes -> peerCase (one-sided run against constructed peer points)
// plus an optional raw point encoding (the tail).
//
//	[0]      flags: responder, conf, giveS, payload is the STATIC point, negX, negY, -, -
//	[1]      low nibble: payload mode; high nibble: kind of the other (always valid) point
//	[2]      uid selectors (own, peer)
//	[3:5]    key length selector
//	[5:13]   seed (uid bytes, other point)
//	[13]     dependent-static selector, [14] width selector of raw coordinates
//	[15:47]  d    [47:79] r
//	[79:143] payload coordinates X, Y
//	[143:]   tail: encoding form, prefix, length, raw bytes
func decodePeer(b []byte) (peerCase, []byte, bool) {
	if len(b) < 16 {
		return peerCase{}, nil, false
	}
	if len(b) < fzPeerMin { // a shortened input is the same case with zero bytes behind it
		b = append(append([]byte{}, b...), make([]byte, fzPeerMin-len(b))...)
	}
	f := b[0]
	seed := binary.LittleEndian.Uint64(b[5:13])
	d, r := fzSide(b[15:47], b[47:79], b[13], seed)
	c := peerCase{D: b32(d), R: b32(r), Responder: f&1 != 0, Conf: f&2 != 0, GiveS: f&4 != 0, StaticBad: f&8 != 0,
		UID: fzUID(b[2], seed), PeerUID: fzUID(b[2]>>4, seed+1),
		KLen: fzKLen(binary.LittleEndian.Uint16(b[3:5]))}
	px, py := b[79:111], b[111:143]
	var X, Y *big.Int
	valid := false // the payload is known to be a canonical valid point
	var pay ref.Point
	mode := int(b[1]&15) % 7
	switch mode {
	case 0: // raw coordinates, optionally widened by leading bytes (v + j*2^(8w))
		X, Y = fromB(px), fromB(py)
		if w := b[14]; w&0x80 != 0 {
			wide := append([]byte{1 + w&3}, make([]byte, int(w>>2)&7)...)
			if w&0x40 != 0 {
				Y = fromB(append(wide, b32(Y)...))
			} else {
				X = fromB(append(wide, b32(X)...))
			}
		}
		c.Kind = "fuzz: raw coordinates"
		if !c.StaticBad {
			c.NegX, c.NegY = f&16 != 0, f&32 != 0
		}
	case 1, 2: // a valid point above the given x
		pay, valid = fzLift(px, uint(py[31]&1)), true
		c.Kind = "fuzz: lifted x"
	case 3: // lifted, then made non-canonical / off curve in one component
		pt := fzLift(px, uint(py[31]&1))
		X, Y = new(big.Int).Set(pt.X), new(big.Int).Set(pt.Y)
		switch py[30] % 6 {
		case 0:
			Y.Add(Y, one).Mod(Y, bigP)
		case 1:
			X.Add(X, one).Mod(X, bigP)
		case 2:
			Y.Add(Y, bigP)
		case 3:
			X.Add(X, bigP)
		case 4:
			X, Y = Y, X
		case 5:
			Y.SetInt64(0)
		}
		c.Kind = "fuzz: lifted x, one component altered"
	case 4, 5: // fixtures with a tiny coordinate; mode 5 adds p to it (still fits 256 bits)
		i := int(py[31])
		if i&1 == 0 {
			q := smallYPoints[(i>>1)%len(smallYPoints)]
			pay = ref.Point{X: bx(q.x), Y: bi(q.y)}
		} else {
			pay = smallXPoints[(i>>1)%len(smallXPoints)]
		}
		if mode == 4 {
			valid = true
			c.Kind = "fuzz: tiny-coordinate point"
		} else {
			X, Y = new(big.Int).Set(pay.X), new(big.Int).Set(pay.Y)
			if i&1 == 0 {
				Y.Add(Y, bigP)
			} else {
				X.Add(X, bigP)
			}
			c.Kind = "fuzz: tiny coordinate + p"
		}
	case 6: // (0,0), (p,p), (x,p), (p,y)
		pt := fzLift(px, 0)
		X, Y = new(big.Int), new(big.Int)
		switch py[30] & 3 {
		case 1:
			X, Y = new(big.Int).Set(bigP), new(big.Int).Set(bigP)
		case 2:
			X, Y = new(big.Int).Set(pt.X), new(big.Int).Set(bigP)
		case 3:
			X, Y = new(big.Int).Set(bigP), new(big.Int).Set(pt.Y)
		}
		c.Kind = "fuzz: zero / p coordinates"
	}
	if valid {
		X, Y = pay.X, pay.Y
	}
	// the other point is always valid
	var other ref.Point
	switch kind := int(b[1]>>4) % 8; {
	case kind == 1:
		other = ref.SM2.G
	case kind == 2:
		other = ref.SM2.Neg(ref.SM2.G)
	case kind == 3 && valid:
		other = pay // P = R
	case (kind == 4 || kind == 5) && valid && !c.StaticBad:
		// P = +-[xbar]R: doubling / identity in the peer-side addition
		other = ref.SM2.Mul(ref.SM2XBar(pay.X), pay)
		if kind == 5 {
			other = ref.SM2.Neg(other)
		}
	default:
		other = fzLift(gen.Fill(seed^0x6f74686572, 32), uint(seed&1))
	}
	ox, oy := coords(other)
	if c.StaticBad {
		c.PX, c.PY = X.Bytes(), Y.Bytes()
		c.RX, c.RY = ox, oy
	} else {
		c.PX, c.PY = ox, oy
		c.RX, c.RY = X.Bytes(), Y.Bytes()
	}

	// tail -> a byte encoding for the constructors
	var e []byte
	if t := b[fzPeerMin:]; len(t) >= 3 {
		switch t[0] % 3 {
		case 0:
			e = append([]byte{}, t[1:]...)
		case 1: // the other (valid) point with any prefix and length
			e = append(enc(other), t[3:]...)
			e[0] = t[1]
			e = e[:int(t[2])%(len(e)+1)]
		case 2: // prefix + payload coordinates as they are
			e = append(append([]byte{t[1]}, px...), py...)
			e = e[:1+int(t[2])%len(e)]
		}
		if len(e) > 200 {
			e = e[:200]
		}
	}
	return c, e, true
}

// checkEncoding: ecdh.P256().NewPublicKey and sm2.NewPublicKey accept exactly
// the uncompressed encodings of points of the curve other than infinity
// (model verdict), and hand back the same point.
func checkEncoding(e []byte) error {
	pt, merr := ref.SM2.Decode(e)
	valid := merr == nil && len(e) == 65 && !pt.Inf
	k, err := ecdh.P256().NewPublicKey(cp(e))
	k2, err2 := sm2.NewPublicKey(cp(e))
	if valid {
		if err != nil || !bytes.Equal(k.Bytes(), e) {
			return fmt.Errorf("ecdh NewPublicKey(%x) refused / changed a valid point: %v", e, err)
		}
		if err2 != nil || !pubEq(k2, pt) {
			return fmt.Errorf("sm2.NewPublicKey(%x) = %s, %v", e, pubHex(k2), err2)
		}
		return nil
	}
	if err == nil {
		return fmt.Errorf("ecdh NewPublicKey accepted %x (not the uncompressed encoding of a curve point) as %x", e, k.Bytes())
	}
	if err2 == nil {
		return fmt.Errorf("sm2.NewPublicKey accepted %x (not the uncompressed encoding of a curve point) as %s", e, pubHex(k2))
	}
	return nil
}

// decodeRuns: bytes -> a complete two-party run (kapCase) or, if bit 7 of the
// first byte is set, a history on one pair of objects (histCase).
//
//	[0]       flags: confA, confB, conv, genKey, latePeer, scribble-off, spare, history
//	[1]       kap: reject class; history: layout, noSB, destroy
//	[2]       uid selectors   [3:5] key length   [5:13] seed
//	[13] [14] dependent-static selectors of A and B (kap only)
//	[15:47] dA  [47:79] rA  [79:111] dB  [111:143] rB
//	[143:]    history: rounds, failing steps, further ephemerals
func decodeRuns(b []byte) (kapCase, *histCase, bool) {
	if len(b) < 16 {
		return kapCase{}, nil, false
	}
	if len(b) < fzRunsMin { // a shortened input is the same case with zero bytes behind it
		b = append(append([]byte{}, b...), make([]byte, fzRunsMin-len(b))...)
	}
	f := b[0]
	seed := binary.LittleEndian.Uint64(b[5:13])
	depA, depB := b[13], b[14]
	if f&0x80 != 0 {
		depA, depB = 0, 0
	}
	dA, rA := fzSide(b[15:47], b[47:79], depA, seed)
	dB, rB := fzSide(b[79:111], b[111:143], depB, seed+1)
	k := kapCase{DA: b32(dA), RA: b32(rA), DB: b32(dB), RB: b32(rB),
		UA: fzUID(b[2], seed), UB: fzUID(b[2]>>4, seed+1),
		KLen:  fzKLen(binary.LittleEndian.Uint16(b[3:5])),
		ConfA: f&1 != 0, ConfB: f&2 != 0, Conv: f&4 != 0, GenKey: f&8 != 0, LatePeer: f&16 != 0,
		Reject: int(b[1]) % 5}
	if f&0x80 == 0 {
		return k, nil, true
	}
	if k.UA.N == maxUID { // histories hash every id many times: keep them short
		k.UA.N = 48
	}
	if k.UB.N == maxUID {
		k.UB.N = 48
	}
	hc := &histCase{DA: k.DA, DB: k.DB, UA: k.UA, UB: k.UB, KLen: 1 + (k.KLen-1)%100, ConfA: k.ConfA, ConfB: k.ConfB,
		Scribble: f&32 == 0, Spare: f&64 != 0, LatePeer: k.LatePeer,
		Layout: int(b[1]&3) % 3, NoSB: int(b[1]>>2&3) % 3, Destroy: b[1]&16 != 0}
	t := b[fzRunsMin:]
	rounds := 1
	if len(t) > 0 {
		rounds = 1 + int(t[0])%2 // two rounds are enough for reuse; keeps one exec near 0.1 s
	}
	for i := 0; i < rounds; i++ {
		ra, rb := k.RA, k.RB
		fail := 0
		if 1+i < len(t) {
			fail = int(t[1+i]&15) % len(failKinds)
			if i > 0 && t[1+i]&0x80 == 0 { // otherwise: the same ephemerals again
				off := 4 + 64*(i-1)
				if off+64 <= len(t) {
					ra, rb = b32(fzScalar(t[off:off+32], nMinus1)), b32(fzScalar(t[off+32:off+64], nMinus1))
				} else {
					ra = b32(fzScalar(gen.Fill(seed+uint64(10*i), 32), nMinus1))
					rb = b32(fzScalar(gen.Fill(seed+uint64(10*i+1), 32), nMinus1))
				}
			}
		}
		hc.RA, hc.RB, hc.Fail = append(hc.RA, ra), append(hc.RB, rb), append(hc.Fail, fail)
	}
	return k, hc, true
}

// ---------------------------------------------------------------- seeds

type fzBuf []byte

func (b fzBuf) put(off int, v *big.Int) fzBuf { copy(b[off:off+32], b32(v)); return b }

func fzPeerSeed(flags, modes, uids byte, klen uint16, d, r, x, y *big.Int, tail ...byte) []byte {
	b := make(fzBuf, fzPeerMin)
	b.put(15, d).put(47, r).put(79, x).put(111, y)
	b[0], b[1], b[2] = flags, modes, uids
	binary.LittleEndian.PutUint16(b[3:], klen)
	binary.LittleEndian.PutUint64(b[5:], 0x0123456789abcdef)
	return append(b, tail...)
}

func fzRunsSeed(flags, sel, uids byte, klen uint16, depA, depB byte, dA, rA, dB, rB *big.Int, tail ...byte) []byte {
	b := make(fzBuf, fzRunsMin)
	b.put(15, dA).put(47, rA).put(79, dB).put(111, rB)
	b[0], b[1], b[2], b[13], b[14] = flags, sel, uids, depA, depB
	binary.LittleEndian.PutUint16(b[3:], klen)
	binary.LittleEndian.PutUint64(b[5:], 0xfedcba9876543210)
	return append(b, tail...)
}

func fzGuard(t *testing.T, what func() string) func() {
	old := debug.SetPanicOnFault(true)
	return func() {
		debug.SetPanicOnFault(old)
		if p := recover(); p != nil {
			t.Fatalf("panic: %v\n%s\ncase: %s", p, debug.Stack(), what())
		}
	}
}

// FuzzC08_Peer: one party against peer points decoded from bytes (raw, lifted,
// non-canonical, off-curve, widened, negative coordinates) through checkPeer -
// valid points: key / confirmation values equal the model's, both packages;
// invalid points: refused with an error, no panic, no data - and a raw byte
// encoding through the constructors against the model's accept set.
func FuzzC08_Peer(f *testing.F) {
	d, r := uniformScalar(1), uniformScalar(2)
	q := ref.SM2.BaseMul(uniformScalar(3))
	ff := sub(two256, one)
	tiny := bx(smallYPoints[0].x)
	for _, fl := range []byte{0, 1 | 2 | 4, 8, 9} {
		f.Add(fzPeerSeed(fl, 0x00, 0x00, 15, d, r, q.X, q.Y))                       // raw, valid
		f.Add(fzPeerSeed(fl, 0x01, 0x31, 47, d, r, q.X, bi(int64(fl))))             // lifted
		f.Add(fzPeerSeed(fl, 0x00, 0x52, 31, d, r, q.X, add(q.Y, one)))             // raw, off curve
		f.Add(fzPeerSeed(fl, 0x03, 0x00, 32, d, r, q.X, bi(int64(fl)<<8)))          // lifted, altered
		f.Add(fzPeerSeed(fl, 0x04, 0x10, 16, d, r, one, bi(int64(fl))))             // tiny coordinate fixtures
		f.Add(fzPeerSeed(fl, 0x06, 0x00, 16, d, r, q.X, bi(int64(fl)<<8)))          // (0,0), (p,p), ...
		f.Add(fzPeerSeed(fl, 0x31, 0xc4, 299, bi(1), nMinus1, sub(bigP, one), one)) // P = R, edge scalars (0 -> max)
	}
	f.Add(fzPeerSeed(0, 0x00, 0, 15, d, r, tiny, bi(1)))                // raw: the curve point with y = 1
	f.Add(fzPeerSeed(0, 0x00, 0, 15, d, r, new(big.Int), new(big.Int))) // raw (0,0)
	f.Add(fzPeerSeed(1, 0x00, 0, 15, d, r, ff, ff))
	f.Add(fzPeerSeed(0, 0x00, 0, 15, d, r, bigP, q.Y))
	f.Add(fzPeerSeed(1, 0x00, 0, 15, d, r, q.X, bigN))
	f.Add(fzPeerSeed(0x10, 0x00, 0, 15, d, r, q.X, q.Y)) // negative x
	f.Add(fzPeerSeed(0x21, 0x00, 0, 15, d, r, q.X, q.Y)) // negative y
	f.Add(fzPeerSeed(0, 0x41, 0, 15, d, r, q.X, one))    // P = [xbar]R
	f.Add(fzPeerSeed(1, 0x51, 0, 15, d, r, q.X, one))    // P = -[xbar]R: V at infinity
	w := fzPeerSeed(0, 0x00, 0, 15, d, r, q.X, q.Y)
	w[14] = 0x80 // x + 2^256
	f.Add(w)
	w = fzPeerSeed(9, 0x00, 0, 15, d, r, q.X, q.Y)
	w[14] = 0xc0 | 3<<2 // y + 2^280
	f.Add(w)
	dep := fzPeerSeed(1, 0x01, 0, 15, d, r, q.X, one)
	dep[13] = byte(len(dependentClasses)) // own t = 0
	f.Add(dep)
	// encodings in the tail
	g := enc(ref.SM2.G)
	base := func(tail ...byte) []byte { return fzPeerSeed(0, 0x01, 0, 15, d, r, q.X, one, tail...) }
	f.Add(base(append([]byte{0}, g...)...))
	f.Add(base(append([]byte{0}, ref.SM2.Compressed(ref.SM2.G)...)...))
	f.Add(base(0, 0, 0))
	f.Add(base(0, 4, 0))
	f.Add(base(append([]byte{0, 4}, make([]byte, 64)...)...))
	f.Add(base(1, 4, 65))
	f.Add(base(1, 6, 65))
	f.Add(base(1, 4, 64))
	f.Add(base(1, 4, 66, 0))
	f.Add(base(2, 4, 64))

	f.Fuzz(func(t *testing.T, data []byte) {
		c, e, ok := decodePeer(data)
		if !ok {
			return
		}
		defer fzGuard(t, func() string { return fmt.Sprintf("%+v encoding %x", c, e) })()
		if err := checkPeer(c, &h.Rec{}); err != nil {
			t.Fatalf("%v\ncase: %+v", err, c)
		}
		if e != nil {
			if err := checkEncoding(e); err != nil {
				t.Fatalf("%v", err)
			}
		}
	})
}

// FuzzC08_Runs: complete two-party runs (checkKAP: sm2.KeyExchange, ecdh
// SM2MQV/SM2SharedKey and the model agree; V at infinity refused) with all four
// scalars, ids, key length and options decoded from bytes, or - selected by a
// flag - an operation history on one pair of objects (checkHistory: rounds,
// failing steps, argument layout, scribbling, Destroy decoded from bytes).
func FuzzC08_Runs(f *testing.F) {
	dA, rA, dB, rB := uniformScalar(11), uniformScalar(12), uniformScalar(13), uniformScalar(14)
	nd := byte(len(dependentClasses))
	f.Add(fzRunsSeed(0, 0, 0x00, 15, 0, 0, dA, rA, dB, rB))
	f.Add(fzRunsSeed(1|2, 0, 0x00, 31, 0, 0, dA, rA, dB, rB))
	f.Add(fzRunsSeed(1|2|4|8, 1, 0x53, 47, 0, 0, dA, rA, dB, rB))
	f.Add(fzRunsSeed(2|4, 4, 0xc4, 99, 0, 0, dA, rA, dB, rB))
	f.Add(fzRunsSeed(1|8, 3, 0x35, 299, 0, 0, dA, rA, dB, rB))
	f.Add(fzRunsSeed(1|2, 0, 0x00, 0xff05, 0, 0, dA, rA, dB, rB))
	f.Add(fzRunsSeed(1|2|8, 0, 0x00, 15, 0, 0, bi(1), bi(1), nMinus2, nMinus1)) // edge scalars
	f.Add(fzRunsSeed(1|2, 0, 0x00, 15, 0, 0, new(big.Int), new(big.Int), bi(2), bi(2)))
	f.Add(fzRunsSeed(1|2, 2, 0x00, 15, 0, 0, bx(sampledScalars[0].k), bx(sampledScalars[1].k), bx(sampledScalars[2].k), bx(sampledScalars[3].k)))
	f.Add(fzRunsSeed(1|2, 0, 0x00, 15, 0, 0, two128, sub(two128, one), sub(bigN, two128), two127))
	for i := byte(0); i < nd; i++ {
		f.Add(fzRunsSeed(1|2|4, 0, 0x00, 15, nd+i, 0, dA, rA, dB, rB))
		f.Add(fzRunsSeed(1|2|8, 0, 0x10, 15, 0, nd+i, dA, rA, dB, rB))
	}
	// histories
	f.Add(fzRunsSeed(0x80|1|2, 0, 0x00, 15, 0, 0, dA, rA, dB, rB))
	f.Add(fzRunsSeed(0x80|1|2, 1, 0x54, 32, 0, 0, dA, rA, dB, rB, 1, 0, 0x83))
	f.Add(fzRunsSeed(0x80|1|2|16|64, 2|16, 0x21, 15, 0, 0, dA, rA, dB, rB, 2, 3, 4, 5))
	f.Add(fzRunsSeed(0x80|1, 1|4, 0x00, 15, 0, 0, dA, rA, dB, rB, 1, 1, 2))
	f.Add(fzRunsSeed(0x80|2|32, 2|8, 0x0b, 99, 0, 0, dA, rA, dB, rB, 1, 2, 0x85))

	f.Fuzz(func(t *testing.T, data []byte) {
		k, hc, ok := decodeRuns(data)
		if !ok {
			return
		}
		if hc != nil {
			defer fzGuard(t, func() string { return fmt.Sprintf("%+v", *hc) })()
			if err := checkHistory(*hc, &h.Rec{}); err != nil {
				t.Fatalf("%v\ncase: %+v", err, *hc)
			}
			return
		}
		defer fzGuard(t, func() string { return fmt.Sprintf("%+v", k) })()
		if err := checkKAP(k, &h.Rec{}); err != nil {
			t.Fatalf("%v\ncase: %+v", err, k)
		}
	})
}

var _ = sm2.P256
