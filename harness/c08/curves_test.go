package c08

import (
	"bytes"
	"crypto/ecdsa"
	"crypto/elliptic"
	"fmt"
	"math/big"
	"testing"

	"github.com/emmansun/gmsm/sm2"
	"pgregory.net/rapid"
	"verif/harness/gen"
	"verif/harness/h"
	"verif/harness/ref"
)

// The curve is an input dimension: sm2.KeyExchange is generic over
// elliptic.Curve (the repository's own annex A.2 test runs it on the
// standard's sample curve), so "for all static and ephemeral key pairs"
// includes keys on NIST P-224/P-256/P-384/P-521. This file holds a model of
// GB/T 32918.3 that is generic over the curve and the runs against it.
//
// Generic model, from the standard: coordinates and curve constants are
// encoded in l = ceil(log2 p / 8) bytes (GB/T 32918.1 4.2.5/4.2.8), Z =
// SM3(ENTL || ID || a || b || xG || yG || xA || yA), w = ceil(ceil(log2 n)/2) - 1
// from the ORDER n, x-bar = 2^w + (x & (2^w - 1)), t = (d + x-bar r) mod n,
// V = [h t](P + [x-bar]R) with h = 1, K = KDF(xV || yV || ZA || ZB, klen),
// S = SM3(tag || yV || SM3(xV || ZA || ZB || x1 || y1 || x2 || y2)).
// Curve constants of the NIST curves are taken as data from the Go standard
// library (not from the library under test); selfTestGeneric checks them for
// consistency and runs the generic model on both published examples.

type gcurve struct {
	name  string
	c     *ref.Curve
	lib   elliptic.Curve
	width int  // bytes per field element
	w     uint // ceil(ceil(log2 n)/2) - 1
}

// ceilLog2 returns ceil(log2 n) for n >= 2.
func ceilLog2(n *big.Int) int { return sub(n, one).BitLen() }

func wOf(n *big.Int) uint {
	l := ceilLog2(n)
	return uint(l/2 + l%2 - 1)
}

func newGCurve(name string, lib elliptic.Curve) *gcurve {
	p := lib.Params()
	c := &ref.Curve{P: p.P, A: sub(p.P, bi(3)), B: p.B, N: p.N, G: ref.Point{X: p.Gx, Y: p.Gy}}
	return &gcurve{name: name, c: c, lib: lib, width: (p.P.BitLen() + 7) / 8, w: wOf(p.N)}
}

var gcurves = map[string]*gcurve{}
var gcurveNames = []string{"P-224", "P-256", "P-384", "P-521", "sm2p256v1"}

func init() {
	gcurves["P-224"] = newGCurve("P-224", elliptic.P224())
	gcurves["P-256"] = newGCurve("P-256", elliptic.P256())
	gcurves["P-384"] = newGCurve("P-384", elliptic.P384())
	gcurves["P-521"] = newGCurve("P-521", elliptic.P521())
	// control: the recommended curve through the generic model (constants from ref, not from the library)
	gcurves["sm2p256v1"] = &gcurve{name: "sm2p256v1", c: ref.SM2, lib: sm2.P256(), width: 32, w: wOf(ref.SM2N)}
}

func (g *gcurve) fe(v *big.Int) []byte {
	b := make([]byte, g.width)
	v.FillBytes(b)
	return b
}

func (g *gcurve) z(uid []byte, pub ref.Point) []byte {
	entl := len(uid) * 8
	in := []byte{byte(entl >> 8), byte(entl)}
	in = append(in, uid...)
	for _, v := range []*big.Int{g.c.A, g.c.B, g.c.G.X, g.c.G.Y, pub.X, pub.Y} {
		in = append(in, g.fe(v)...)
	}
	d := ref.SM3(in)
	return d[:]
}

func (g *gcurve) xbar(x *big.Int) *big.Int {
	tw := new(big.Int).Lsh(one, g.w)
	r := new(big.Int).And(x, sub(tw, one))
	return r.Add(r, tw)
}

func (g *gcurve) kap(dSelf, rSelf *big.Int, pPeer, rPeer ref.Point, za, zb []byte, klen int) (key []byte, v ref.Point, ok bool) {
	c := g.c
	if rPeer.Inf || !c.OnCurve(rPeer) || pPeer.Inf || !c.OnCurve(pPeer) {
		return nil, ref.Point{}, false
	}
	own := c.BaseMul(rSelf)
	t := mul(g.xbar(own.X), rSelf)
	t.Add(t, dSelf).Mod(t, c.N)
	v = c.Mul(t, c.Add(pPeer, c.Mul(g.xbar(rPeer.X), rPeer)))
	if v.Inf {
		return nil, v, false
	}
	in := append(append([]byte{}, g.fe(v.X)...), g.fe(v.Y)...)
	in = append(append(in, za...), zb...)
	return ref.SM3KDF(in, klen), v, true
}

func (g *gcurve) confirm(v ref.Point, za, zb []byte, ra, rb ref.Point) (s1, s2 []byte) {
	in := append([]byte{}, g.fe(v.X)...)
	in = append(append(in, za...), zb...)
	for _, x := range []*big.Int{ra.X, ra.Y, rb.X, rb.Y} {
		in = append(in, g.fe(x)...)
	}
	inner := ref.SM3(in)
	mk := func(tag byte) []byte {
		d := ref.SM3(append(append([]byte{tag}, g.fe(v.Y)...), inner[:]...))
		return d[:]
	}
	return mk(0x02), mk(0x03)
}

func selfTestGeneric() error {
	// w = ceil(ceil(log2 n)/2) - 1, by hand: 224 -> 111, 256 -> 127, 384 -> 191, 521 -> 260
	for name, want := range map[string]uint{"P-224": 111, "P-256": 127, "P-384": 191, "P-521": 260, "sm2p256v1": 127} {
		g := gcurves[name]
		if g.w != want {
			return fmt.Errorf("generic model: w(%s) = %d want %d", name, g.w, want)
		}
		if !g.c.OnCurve(g.c.G) || !g.c.BaseMul(g.c.N).Inf || !g.c.N.ProbablyPrime(20) || !g.c.P.ProbablyPrime(20) {
			return fmt.Errorf("generic model: parameters of %s inconsistent", name)
		}
	}
	if wOf(bi(8)) != 1 || wOf(bi(9)) != 1 || wOf(bi(16)) != 1 || wOf(bi(17)) != 2 || wOf(bi(33)) != 2 {
		return fmt.Errorf("generic model: wOf on small values")
	}
	for name, want := range map[string]int{"P-224": 28, "P-256": 32, "P-384": 48, "P-521": 66} {
		if gcurves[name].width != want {
			return fmt.Errorf("generic model: width(%s)", name)
		}
	}
	// both published examples through the generic model
	for _, v := range kapVectors {
		g := gcurves["sm2p256v1"]
		if v.curve != nil {
			g = &gcurve{name: "sample", c: v.curve, width: 32, w: wOf(v.curve.N)}
		}
		c := g.c
		dA, dB, rA, rB := bx(v.dA), bx(v.dB), bx(v.rA), bx(v.rB)
		pA, pB, RA, RB := c.BaseMul(dA), c.BaseMul(dB), c.BaseMul(rA), c.BaseMul(rB)
		zA, zB := g.z([]byte(v.idA), pA), g.z([]byte(v.idB), pB)
		if !bytes.Equal(zA, hx(v.zA)) || !bytes.Equal(zB, hx(v.zB)) {
			return fmt.Errorf("generic model, %s: ZA/ZB", v.name)
		}
		kA, vA, okA := g.kap(dA, rA, pB, RB, zA, zB, v.klen)
		kB, vB, okB := g.kap(dB, rB, pA, RA, zA, zB, v.klen)
		if !okA || !okB || !c.Equal(vA, vB) || !bytes.Equal(kA, hx(v.key)) || !bytes.Equal(kB, hx(v.key)) {
			return fmt.Errorf("generic model, %s: K = %X / %X", v.name, kA, kB)
		}
		s1, s2 := g.confirm(vA, zA, zB, RA, RB)
		if !bytes.Equal(s1, hx(v.s1sB)) || !bytes.Equal(s2, hx(v.s2sA)) {
			return fmt.Errorf("generic model, %s: S1/S2", v.name)
		}
	}
	return nil
}

// ---------------------------------------------------------------- cases

type curveCase struct {
	Curve          string
	DA, DB, RA, RB h.B // scalars (any length, already in range)
	UA, UB         uidSpec
	KLen           int
	ConfA, ConfB   bool
	LatePeer       bool
	Neg            string // negative variant run after the honest exchange ("" = none)
	Other          string // the other curve for mixed-curve variants
	Seed           uint64
}

var curveNegs = []string{
	"", "", "",
	"ephemeral off curve", "ephemeral infinity (0,0)", "ephemeral x+p", "ephemeral y=p", "ephemeral too wide",
	"static off curve", "static infinity (0,0)", "static x+p",
	"wrong SB", "wrong SA",
	"mixed: peer static key on another curve", "mixed: peer ephemeral point of another curve", "mixed: valid point labelled with another curve",
}

// gRand scripts the reader for randFieldElement on a curve whose order has L
// bits: a block of ceil(L/8) bytes whose first byte is shifted right by the
// excess 8*ceil(L/8) - L bits (sm2_legacy.go randFieldElement). The dropped
// low bits of the first byte are set to ones.
func gRand(g *gcurve, r *big.Int) *scriptReader {
	l := g.c.N.BitLen()
	n := (l + 7) / 8
	b := make([]byte, n)
	r.FillBytes(b)
	if excess := uint(n*8 - l); excess > 0 {
		b[0] = b[0]<<excess | byte(1<<excess-1)
	}
	return &scriptReader{stream: b}
}

func (g *gcurve) pub(p ref.Point) *ecdsa.PublicKey {
	return &ecdsa.PublicKey{Curve: g.lib, X: new(big.Int).Set(p.X), Y: new(big.Int).Set(p.Y)}
}

func (g *gcurve) priv(d *big.Int, p ref.Point) *sm2.PrivateKey {
	k := new(sm2.PrivateKey)
	k.Curve = g.lib
	k.D = new(big.Int).Set(d)
	k.X, k.Y = new(big.Int).Set(p.X), new(big.Int).Set(p.Y)
	return k
}

func (g *gcurve) exchange(priv *sm2.PrivateKey, peer *ecdsa.PublicKey, uid, peerUID []byte, klen int, conf, late bool) (*sm2.KeyExchange, error) {
	// both identities are views into one message-like buffer (see frame in
	// history_test.go), peer's id before the own one when the peer comes late
	f, v := newFrame(late, [][]byte{uid, peerUID})
	var ke *sm2.KeyExchange
	var err error
	if !late {
		ke, err = sm2.NewKeyExchange(priv, peer, v[0], v[1], klen, conf)
	} else if ke, err = sm2.NewKeyExchange(priv, nil, v[0], nil, klen, conf); err == nil {
		err = ke.SetPeerParameters(peer, v[1])
	}
	if !bytes.Equal(f.buf, f.orig) {
		return nil, fmt.Errorf("NewKeyExchange/SetPeerParameters wrote into the caller's buffer holding uid and peerUID")
	}
	return ke, err
}

func checkCurve(c curveCase, r *h.Rec) error {
	g := gcurves[c.Curve]
	if g == nil || c.KLen < 1 {
		return fmt.Errorf("malformed case")
	}
	r.NT()
	r.Label("curve:" + c.Curve)
	if c.Neg != "" {
		r.Label("%s negative: %s", c.Curve, c.Neg)
	}
	cv := g.c
	dA, dB, rA, rB := fromB(c.DA), fromB(c.DB), fromB(c.RA), fromB(c.RB)
	for _, k := range []*big.Int{dA, dB, rA, rB} {
		if k.Sign() <= 0 || k.Cmp(cv.N) >= 0 {
			return fmt.Errorf("malformed case: scalar out of range")
		}
		if k.Cmp(bi(3)) <= 0 || k.Cmp(sub(cv.N, bi(3))) >= 0 {
			r.Label("%s edge scalar", c.Curve)
		}
	}
	uidA, uidB := c.UA.bytes(), c.UB.bytes()
	PA, PB, RA, RB := cv.BaseMul(dA), cv.BaseMul(dB), cv.BaseMul(rA), cv.BaseMul(rB)
	zA, zB := g.z(effUID(uidA), PA), g.z(effUID(uidB), PB)
	key, V, ok := g.kap(dA, rA, PB, RB, zA, zB, c.KLen)
	keyB, VB, okB := g.kap(dB, rB, PA, RA, zA, zB, c.KLen)
	if ok != okB || ok && (!cv.Equal(V, VB) || !bytes.Equal(key, keyB)) {
		h.HarnessError("generic model inconsistent on %s for %+v", c.Curve, c)
	}
	r.Label("%s x-bar bit w of RA.x = %d", c.Curve, RA.X.Bit(int(g.w)))
	desc := fmt.Sprintf("\n  curve=%s dA=%x rA=%x\n  dB=%x rB=%x\n  uidA=%s uidB=%s klen=%d neg=%q", c.Curve, dA, rA, dB, rB, h.Hex(uidA), h.Hex(uidB), c.KLen, c.Neg)

	privA, privB := g.priv(dA, PA), g.priv(dB, PB)
	ini, err := g.exchange(privA, g.pub(PB), uidA, uidB, c.KLen, c.ConfA, c.LatePeer)
	if err != nil {
		return fmt.Errorf("initiator NewKeyExchange: %v%s", err, desc)
	}
	res, err := g.exchange(privB, g.pub(PA), uidB, uidA, c.KLen, c.ConfB, c.LatePeer)
	if err != nil {
		return fmt.Errorf("responder NewKeyExchange: %v%s", err, desc)
	}
	for _, zc := range []struct {
		p   ref.Point
		uid []byte
		z   []byte
	}{{PA, uidA, zA}, {PB, uidB, zB}} {
		if z, err := sm2.CalculateZA(g.pub(zc.p), effUID(zc.uid)); err != nil || !bytes.Equal(z, zc.z) {
			return fmt.Errorf("CalculateZA = %x, %v; GB/T 32918.2 5.5 value %x%s", z, err, zc.z, desc)
		}
	}
	RAi, err := ini.InitKeyExchange(gRand(g, rA))
	if err != nil || !pubEq(RAi, RA) {
		return fmt.Errorf("InitKeyExchange: RA=%s, %v; [rA]G=%s for the injected rA%s", pubHex(RAi), err, ptHex(RA), desc)
	}
	RBi, sB, err := res.RepondKeyExchange(gRand(g, rB), clonePub(RAi))
	if !ok {
		r.Label("%s negative: V at infinity", c.Curve)
		if err == nil {
			return fmt.Errorf("RepondKeyExchange succeeded although V is at infinity%s", desc)
		}
		if k, s, err := ini.ConfirmResponder(g.pub(RB), nil); err == nil {
			return fmt.Errorf("ConfirmResponder succeeded although U is at infinity: %x %x%s", k, s, desc)
		}
		return nil
	}
	if err != nil || !pubEq(RBi, RB) {
		return fmt.Errorf("RepondKeyExchange: RB=%s, %v; [rB]G=%s%s", pubHex(RBi), err, ptHex(RB), desc)
	}
	s1, s2 := g.confirm(V, zA, zB, RA, RB)
	if c.ConfB && !bytes.Equal(sB, s1) || !c.ConfB && sB != nil {
		return fmt.Errorf("SB=%x, GB/T 32918.3 value %x (genSignature=%v)%s", sB, s1, c.ConfB, desc)
	}
	keyA, sA, err := ini.ConfirmResponder(clonePub(RBi), cp(sB))
	if err != nil {
		return fmt.Errorf("ConfirmResponder refused the honest responder: %v%s", err, desc)
	}
	if !bytes.Equal(keyA, key) {
		return fmt.Errorf("initiator key %s, GB/T 32918.3 value %s (w=%d, V=%s)%s", h.Hex(keyA), h.Hex(key), g.w, ptHex(V), desc)
	}
	if c.ConfA && !bytes.Equal(sA, s2) || !c.ConfA && sA != nil {
		return fmt.Errorf("SA=%x, GB/T 32918.3 value %x (genSignature=%v)%s", sA, s2, c.ConfA, desc)
	}
	kB, err := res.ConfirmInitiator(cp(sA))
	if err != nil {
		return fmt.Errorf("ConfirmInitiator refused the honest initiator: %v%s", err, desc)
	}
	if !bytes.Equal(kB, key) || !bytes.Equal(kB, keyA) {
		return fmt.Errorf("responder key %s, initiator key %s, GB/T 32918.3 value %s%s", h.Hex(kB), h.Hex(keyA), h.Hex(key), desc)
	}
	if c.Neg == "" {
		return nil
	}
	if err := curveNegative(c, g, r, privA, privB, PA, PB, RA, RB, uidA, uidB, s1, s2, key); err != nil {
		return fmt.Errorf("%v%s", err, desc)
	}
	return nil
}

// curveNegative runs one refusal scenario on fresh objects of the same keys.
func curveNegative(c curveCase, g *gcurve, r *h.Rec, privA, privB *sm2.PrivateKey, PA, PB, RA, RB ref.Point, uidA, uidB, s1, s2, key []byte) error {
	cv := g.c
	rA, rB := fromB(c.RA), fromB(c.RB)
	og := gcurves[c.Other]
	// refusedEphemeral: both roles must refuse the point with an error, no panic, no data
	refusedEphemeral := func(bad *ecdsa.PublicKey, what string) error {
		ini, err := g.exchange(privA, g.pub(PB), uidA, uidB, c.KLen, c.ConfA, false)
		if err != nil {
			return err
		}
		if _, err := ini.InitKeyExchange(gRand(g, rA)); err != nil {
			return err
		}
		var k, s []byte
		if p := callNoPanic(func() { k, s, err = ini.ConfirmResponder(bad, nil) }); p != "" {
			return fmt.Errorf("ConfirmResponder panicked on %s: %s", what, p)
		}
		if err == nil || k != nil || s != nil {
			return fmt.Errorf("ConfirmResponder did not refuse %s %s: key=%x sA=%x err=%v", what, pubHex(bad), k, s, err)
		}
		res, err := g.exchange(privB, g.pub(PA), uidB, uidA, c.KLen, c.ConfB, false)
		if err != nil {
			return err
		}
		var R *ecdsa.PublicKey
		if p := callNoPanic(func() { R, s, err = res.RepondKeyExchange(gRand(g, rB), bad) }); p != "" {
			return fmt.Errorf("RepondKeyExchange panicked on %s: %s", what, p)
		}
		if err == nil || R != nil || s != nil {
			return fmt.Errorf("RepondKeyExchange did not refuse %s %s: RB=%s sB=%x err=%v", what, pubHex(bad), pubHex(R), s, err)
		}
		return nil
	}
	refusedStatic := func(bad *ecdsa.PublicKey, what string) error {
		for _, late := range []bool{false, true} {
			var ke *sm2.KeyExchange
			var err error
			if p := callNoPanic(func() { ke, err = g.exchange(privA, bad, uidA, uidB, c.KLen, true, late) }); p != "" {
				return fmt.Errorf("NewKeyExchange/SetPeerParameters panicked on %s: %s", what, p)
			}
			if err == nil {
				return fmt.Errorf("NewKeyExchange/SetPeerParameters (late=%v) accepted %s %s", late, what, pubHex(bad))
			}
			if !late && ke != nil {
				return fmt.Errorf("NewKeyExchange returned an object together with the error for %s", what)
			}
		}
		return nil
	}
	twoW := new(big.Int).Lsh(one, uint(8*g.width))
	switch c.Neg {
	case "ephemeral off curve":
		return refusedEphemeral(&ecdsa.PublicKey{Curve: g.lib, X: new(big.Int).Set(RB.X), Y: new(big.Int).Mod(add(RB.Y, one), cv.P)}, "an off-curve point")
	case "ephemeral infinity (0,0)":
		return refusedEphemeral(&ecdsa.PublicKey{Curve: g.lib, X: new(big.Int), Y: new(big.Int)}, "(0,0)")
	case "ephemeral x+p", "static x+p":
		var q ref.Point
		for x := int64(0); ; x++ {
			if pt, ok := cv.LiftX(bi(x), uint(c.Seed&1)); ok {
				q = pt
				break
			}
		}
		bad := &ecdsa.PublicKey{Curve: g.lib, X: add(q.X, cv.P), Y: new(big.Int).Set(q.Y)}
		if c.Neg == "static x+p" {
			return refusedStatic(bad, "a static key with x >= p (congruent to a valid point)")
		}
		return refusedEphemeral(bad, "a point with x >= p (congruent to a valid point)")
	case "ephemeral y=p":
		return refusedEphemeral(&ecdsa.PublicKey{Curve: g.lib, X: new(big.Int).Set(RB.X), Y: new(big.Int).Set(cv.P)}, "y = p")
	case "ephemeral too wide":
		return refusedEphemeral(&ecdsa.PublicKey{Curve: g.lib, X: add(RB.X, twoW), Y: new(big.Int).Set(RB.Y)}, "a coordinate wider than the field")
	case "static off curve":
		return refusedStatic(&ecdsa.PublicKey{Curve: g.lib, X: new(big.Int).Mod(add(PB.X, one), cv.P), Y: new(big.Int).Set(PB.Y)}, "an off-curve static key")
	case "static infinity (0,0)":
		return refusedStatic(&ecdsa.PublicKey{Curve: g.lib, X: new(big.Int), Y: new(big.Int)}, "the static key (0,0)")
	case "wrong SB", "wrong SA":
		ini, err := g.exchange(privA, g.pub(PB), uidA, uidB, c.KLen, true, false)
		if err != nil {
			return err
		}
		res, err := g.exchange(privB, g.pub(PA), uidB, uidA, c.KLen, true, false)
		if err != nil {
			return err
		}
		RAi, err := ini.InitKeyExchange(gRand(g, rA))
		if err != nil {
			return err
		}
		RBi, sB, err := res.RepondKeyExchange(gRand(g, rB), clonePub(RAi))
		if err != nil || !bytes.Equal(sB, s1) {
			return fmt.Errorf("RepondKeyExchange: sB=%x err=%v want %x", sB, err, s1)
		}
		if c.Neg == "wrong SB" {
			w := cp(sB)
			w[c.Seed%32] ^= 1 << (c.Seed >> 8 % 8)
			if k, s, err := ini.ConfirmResponder(clonePub(RBi), w); err == nil || k != nil || s != nil {
				return fmt.Errorf("ConfirmResponder accepted the wrong SB %x: key=%x sA=%x err=%v", w, k, s, err)
			}
			return nil
		}
		k, sA, err := ini.ConfirmResponder(clonePub(RBi), cp(sB))
		if err != nil || !bytes.Equal(k, key) || !bytes.Equal(sA, s2) {
			return fmt.Errorf("ConfirmResponder: key=%x sA=%x err=%v", k, sA, err)
		}
		w := cp(sA)
		w[c.Seed%32] ^= 1 << (c.Seed >> 8 % 8)
		if k, err := res.ConfirmInitiator(w); err == nil || k != nil {
			return fmt.Errorf("ConfirmInitiator accepted the wrong SA %x: key=%x err=%v", w, k, err)
		}
		return nil
	case "mixed: peer static key on another curve":
		// a perfectly valid key of the other curve; HEAD refuses on the Curve comparison
		r.Label("mixed with " + c.Other)
		op := og.c.BaseMul(uniformScalarOn(og, c.Seed))
		return refusedStatic(og.pub(op), "a peer static key on "+c.Other)
	case "mixed: peer ephemeral point of another curve":
		// a valid point of the other curve, labelled as such: not a point of this curve
		r.Label("mixed with " + c.Other)
		op := og.c.BaseMul(uniformScalarOn(og, c.Seed))
		if cv.OnCurve(op) {
			return nil
		}
		return refusedEphemeral(og.pub(op), "an ephemeral point of "+c.Other)
	case "mixed: valid point labelled with another curve":
		// observation only: the Curve field of an ephemeral point is not looked at
		r.Label("mixed with " + c.Other)
		ini, err := g.exchange(privA, g.pub(PB), uidA, uidB, c.KLen, false, false)
		if err != nil {
			return err
		}
		if _, err := ini.InitKeyExchange(gRand(g, rA)); err != nil {
			return err
		}
		lab := g.pub(RB)
		lab.Curve = og.lib
		var k []byte
		p := callNoPanic(func() { k, _, err = ini.ConfirmResponder(lab, nil) })
		switch {
		case p != "":
			r.Label("observation: mislabelled valid ephemeral -> panic")
		case err != nil:
			r.Label("observation: mislabelled valid ephemeral -> refused")
		case bytes.Equal(k, key):
			r.Label("observation: mislabelled valid ephemeral -> Curve field ignored, right key")
		default:
			return fmt.Errorf("a valid ephemeral point labelled %s gave the key %x, GB/T 32918.3 value %x", c.Other, k, key)
		}
		return nil
	}
	return fmt.Errorf("unknown negative kind %q", c.Neg)
}

func uniformScalarOn(g *gcurve, seed uint64) *big.Int {
	v := fromB(gen.Fill(gen.Mix(seed, 0x6763), g.width+8))
	v.Mod(v, sub(g.c.N, bi(2)))
	return v.Add(v, one)
}

func drawScalarOn(t *rapid.T, g *gcurve, label string, ephemeral bool) *big.Int {
	switch rapid.IntRange(0, 9).Draw(t, label+"Kind") {
	case 0:
		return bi(int64(rapid.IntRange(1, 3).Draw(t, label+"Low")))
	case 1:
		lo := 2
		if ephemeral {
			lo = 1 // randFieldElement admits n-1
		}
		return sub(g.c.N, bi(int64(rapid.IntRange(lo, 3).Draw(t, label+"High"))))
	}
	return uniformScalarOn(g, rapid.Uint64().Draw(t, label+"Seed"))
}

func drawCurveCase(t *rapid.T) curveCase {
	name := rapid.SampledFrom(gcurveNames).Draw(t, "curve")
	g := gcurves[name]
	c := curveCase{Curve: name, UA: drawUID(t, "uidA"), UB: drawUID(t, "uidB"),
		KLen:  rapid.SampledFrom([]int{1, 16, 32, 48, 65, 67, 133, 200}).Draw(t, "klen"),
		ConfA: rapid.Bool().Draw(t, "confA"), ConfB: rapid.Bool().Draw(t, "confB"), LatePeer: rapid.Bool().Draw(t, "late"),
		Neg: rapid.SampledFrom(curveNegs).Draw(t, "neg"), Seed: rapid.Uint64().Draw(t, "seed")}
	others := []string{}
	for _, n := range gcurveNames {
		if n != name {
			others = append(others, n)
		}
	}
	c.Other = rapid.SampledFrom(others).Draw(t, "other")
	rA, rB := drawScalarOn(t, g, "rA", true), drawScalarOn(t, g, "rB", true)
	dA, dB := drawScalarOn(t, g, "dA", false), drawScalarOn(t, g, "dB", false)
	if rapid.IntRange(0, 9).Draw(t, "t0") == 0 {
		// t_A = 0: dA = -xbar(RA) rA mod n, V at infinity
		m := mul(g.xbar(g.c.BaseMul(rA).X), rA)
		m.Mod(m, g.c.N)
		if d := sub(g.c.N, m); d.Sign() > 0 && d.Cmp(sub(g.c.N, bi(2))) <= 0 {
			dA = d
		}
	}
	c.DA, c.DB, c.RA, c.RB = dA.Bytes(), dB.Bytes(), rA.Bytes(), rB.Bytes()
	return c
}

// TestC08_Curves: sm2.KeyExchange with keys on NIST P-224/P-256/P-384/P-521
// (and the recommended curve as a control) against the curve-generic model.
func TestC08_Curves(t *testing.T) {
	h.Prop(t, h.P{Name: "curves", Quick: 110, Thorough: 3000, Journal: true}, drawCurveCase, checkCurve)
}

// TestC08_CurvesSweep: every curve x every negative variant once, fixed scalars.
func TestC08_CurvesSweep(t *testing.T) {
	h.Sweep(t, h.P{Name: "curves-sweep", Journal: true}, func(emit func(curveCase)) {
		i := 0
		for _, name := range gcurveNames {
			g := gcurves[name]
			seen := map[string]bool{}
			for _, neg := range curveNegs {
				if seen[neg] {
					continue
				}
				seen[neg] = true
				i++
				other := gcurveNames[(i+1)%len(gcurveNames)]
				if other == name {
					other = gcurveNames[(i+2)%len(gcurveNames)]
				}
				emit(curveCase{Curve: name, Other: other,
					DA: uniformScalarOn(g, h.Seed+1).Bytes(), DB: uniformScalarOn(g, h.Seed+2).Bytes(),
					RA: uniformScalarOn(g, h.Seed+3).Bytes(), RB: uniformScalarOn(g, h.Seed+4).Bytes(),
					UA: uidSpec{N: i % 3, Seed: h.Seed}, UB: uidSpec{N: 0, Empty: i % 3}, KLen: 16 + i, ConfA: true, ConfB: true,
					LatePeer: i%2 == 0, Neg: neg, Seed: h.Seed + uint64(i)*977})
			}
		}
	}, checkCurve)
}
