//go:build !purego

package c08

const buildTag = "asm"
