// C08 — SM2 key agreement: both parties and both implementations derive the
// same key. See DESIGN.md section 4, C08.
//
// Trusted base: ref.SM3 / ref.SM3KDF, the affine textbook curve model ref.SM2
// and ref.SM2KAP / ref.SM2KAPConfirm / ref.SM2XBar, validated in this package's
// self-test on the key-exchange examples of GB/T 32918.3 annex A.2 and
// GB/T 32918.5 annex B (selftest_test.go).
package c08

import (
	"bytes"
	"crypto/ecdsa"
	"errors"
	"fmt"
	"io"
	"math/big"
	"os"
	"testing"

	"github.com/emmansun/gmsm/ecdh"
	"github.com/emmansun/gmsm/sm2"
	"pgregory.net/rapid"
	"verif/harness/gen"
	"verif/harness/h"
	"verif/harness/ref"
)

func TestMain(m *testing.M) {
	h.Observe("build", buildTag)
	h.Observe("GODEBUG", os.Getenv("GODEBUG"))
	h.Main(m, ref.SelfTestSM3, ref.SelfTestSM2, selfTestKAP, selfTestFixtures, selfTestGeneric)
}

var (
	bigN    = ref.SM2N
	bigP    = ref.SM2P
	one     = big.NewInt(1)
	nMinus1 = new(big.Int).Sub(ref.SM2N, big.NewInt(1))
	nMinus2 = new(big.Int).Sub(ref.SM2N, big.NewInt(2))
	two127  = new(big.Int).Lsh(big.NewInt(1), 127)
	two128  = new(big.Int).Lsh(big.NewInt(1), 128)
	two256  = new(big.Int).Lsh(big.NewInt(1), 256)
)

// maxUID: ENTL is a 16-bit bit count (GB/T 32918.2 5.5). sm2.CalculateZA and
// ecdh's SM2ZA both document/implement the refusal of longer ids.
const maxUID = 8191

func bi(v int64) *big.Int        { return big.NewInt(v) }
func add(a, b *big.Int) *big.Int { return new(big.Int).Add(a, b) }
func sub(a, b *big.Int) *big.Int { return new(big.Int).Sub(a, b) }
func mul(a, b *big.Int) *big.Int { return new(big.Int).Mul(a, b) }
func modN(a *big.Int) *big.Int   { return new(big.Int).Mod(a, bigN) }
func fromB(b []byte) *big.Int    { return new(big.Int).SetBytes(b) }
func b32(v *big.Int) []byte      { return ref.Bytes32(v) }

// cp copies a byte slice for handing to the library and preserves what kind
// of "nothing" it is: nil stays nil, a zero-length non-nil slice stays one
// ([]byte{} with no capacity, or a zero-length sub-slice of a non-empty
// buffer) - code that tests `x == nil` where it means `len(x) == 0` treats
// them differently.
func cp(b []byte) []byte {
	switch {
	case b == nil:
		return nil
	case len(b) == 0 && cap(b) > 0:
		return emptySubSlice()
	case len(b) == 0:
		return []byte{}
	}
	return append([]byte{}, b...)
}

// emptySubSlice is buf[:0] of a non-empty buffer: length 0, non-nil, data behind it.
func emptySubSlice() []byte {
	buf := []byte("not-a-user-id---")
	return buf[:0]
}

// ---------------------------------------------------------------- randomness handed to the library

// scriptReader is the deterministic random source handed to the library.
// Reads of exactly one byte (randutil.MaybeReadByte flips a coin on whether it
// makes one; ecdh.GenerateKey calls it, sm2's randFieldElement does not) are
// served from a constant and do not advance the script, so the 32-byte blocks
// the library samples its ephemeral scalar from do not depend on that coin.
// After the script the reader fails: a library that wants more than was
// scripted gets an error instead of silently different bytes.
type scriptReader struct {
	stream []byte
	off    int
}

func (s *scriptReader) Read(p []byte) (int, error) {
	if len(p) == 1 {
		p[0] = 0x5a
		return 1, nil
	}
	if s.off >= len(s.stream) {
		return 0, io.EOF
	}
	n := copy(p, s.stream[s.off:])
	s.off += n
	return n, nil
}

// rejectBlocks are 32-byte blocks that rejection sampling of a scalar in
// [1, n-1] must skip (sm2 randFieldElement: zero and >= n are skipped).
func rejectBlocks(class int) [][]byte {
	zero := make([]byte, 32)
	ff := bytes.Repeat([]byte{0xff}, 32)
	switch class {
	case 1:
		return [][]byte{zero}
	case 2:
		return [][]byte{b32(bigN)}
	case 3:
		return [][]byte{ff}
	case 4:
		return [][]byte{zero, b32(add(bigN, one)), ff}
	}
	return nil
}

// sm2Rand scripts the reader for sm2.KeyExchange: the rejected blocks, then r.
func sm2Rand(r []byte, reject int) *scriptReader {
	var s []byte
	for _, b := range rejectBlocks(reject) {
		s = append(s, b...)
	}
	return &scriptReader{stream: append(s, r...)}
}

// ecdhRand scripts the reader for ecdh.Curve.GenerateKey, which XORs 0x42 into
// byte 1 of every sampled block before range-checking it against [1, n-2]
// (documented in its source: "rand will return all zeros and NewPrivateKey
// will reject the zero key").
func ecdhRand(r []byte, reject int) *scriptReader {
	var s []byte
	blocks := rejectBlocks(reject)
	if reject != 0 {
		blocks = append(blocks, b32(nMinus1)) // n-1 is outside ecdh's key range
	}
	for _, b := range append(blocks, r) {
		x := cp(b)
		x[1] ^= 0x42
		s = append(s, x...)
	}
	return &scriptReader{stream: s}
}

// ---------------------------------------------------------------- user ids

// uidSpec describes a user id: N > 0 pseudo-random bytes from Seed, N == 0 none
// given, N == -1 the default id spelled out. "None given" comes in three Go
// flavours, selected by Empty (an explicit field: nil and empty byte strings
// look the same in JSON): 0 = nil, 1 = []byte{}, 2 = buf[:0] of a non-empty
// buffer. Both packages map every length-0 id to the default id
// 1234567812345678 (sm2.NewKeyExchange and SetPeerParameters test
// `len(uid) == 0` / `len(peerUID) == 0`, ecdh's sm2za tests `len(uid) == 0`),
// so all three must behave alike and the two packages must agree.
type uidSpec struct {
	N     int
	Seed  uint64
	Empty int
}

func (u uidSpec) bytes() []byte {
	switch {
	case u.N < 0:
		return cp(ref.DefaultUID)
	case u.N == 0:
		switch u.Empty {
		case 1:
			return []byte{}
		case 2:
			return emptySubSlice()
		}
		return nil
	}
	return gen.Fill(gen.Mix(u.Seed, 0x756964), u.N)
}

// effUID is the id that enters Z: the documented default when none is given.
func effUID(uid []byte) []byte {
	if len(uid) == 0 {
		return ref.DefaultUID
	}
	return uid
}

func (u uidSpec) class() string {
	switch {
	case u.N < 0:
		return "uid:default-spelled-out"
	case u.N == 0 && u.Empty == 1:
		return "uid:zero-length non-nil []byte{}->default"
	case u.N == 0 && u.Empty == 2:
		return "uid:zero-length sub-slice buf[:0]->default"
	case u.N == 0:
		return "uid:nil->default"
	case u.N == 1, u.N == 16, u.N == 64, u.N == maxUID:
		return fmt.Sprintf("uid:len=%d", u.N)
	case u.N > maxUID:
		return "uid:too-long"
	}
	return "uid:other-len"
}

func drawUID(t *rapid.T, label string) uidSpec {
	n := rapid.SampledFrom([]int{0, 0, 0, -1, 1, 16, 16, 64, maxUID, -2, -2}).Draw(t, label+"Len")
	if n == -2 {
		n = rapid.IntRange(1, 200).Draw(t, label+"LenAny")
	}
	u := uidSpec{N: n, Seed: rapid.Uint64().Draw(t, label+"Seed")}
	if n == 0 {
		u.Empty = rapid.IntRange(0, 2).Draw(t, label+"EmptyFlavour")
	}
	return u
}

// special reports whether the id is more than "nil -> default".
func (u uidSpec) special() bool { return u.N != 0 || u.Empty != 0 }

// ---------------------------------------------------------------- scalars

// uniformScalar returns a uniform-looking scalar in [1, n-2].
func uniformScalar(seed uint64) *big.Int {
	v := fromB(gen.Fill(gen.Mix(seed, 0x6b6579), 40))
	v.Mod(v, nMinus2)
	return v.Add(v, one)
}

// Scalars whose ephemeral point has a remarkable low half of x (the part that
// enters x-bar), found by sampling with the reference model (search_test.go):
// bits 127..108 of x all ones / bit 127 clear and bits 126..108 ones / only
// bit 127 / all zero; the walk started above n, the scalars below are the
// found ones reduced mod n. selfTestFixtures re-checks [k]G and the patterns.
var sampledScalars = []struct{ name, k, x string }{
	{"x[127:108]=ones", "17C08C62C08C08C08C08C08C08C08C3AAB2F7D16AC6AEF5098ACC0CA6B95628A", "5076370878664B5C3D546386D97C8852FFFFF5FD81B8797EB15800EA1B3F6BAA"},
	{"x[127]=0,x[126:108]=ones", "17C08C62C08C08C08C08C08C08C08C3AAB2F7D16AC6AEF5098ACC0CA6B98CEA4", "D130F7401E27A4D5DE4B41854DB08F617FFFF0F7723382258AF8F7F8A5A53CB3"},
	{"x[127]=1,x[126:108]=0", "17C08C62C08C08C08C08C08C08C08C3AAB2F7D16AC6AEF5098ACC0CA6B9CA8D9", "DF976B1FEE023A0E66C35E32E9A10E41800009137FD85F18BEBAB650063CF65A"},
	{"x[127:108]=0", "17C08C62C08C08C08C08C08C08C08C3AAB2F7D16AC6AEF5098ACC0CA6BB9BF2D", "818E47CBB1CA220E9041189447844F080000027C8CEAEA537C06184D085420C0"},
}

// Curve points with a tiny y (found offline as roots of x^3+ax+b-y^2 by
// gcd(x^p-x, f); re-checked against the model's OnCurve in selfTestFixtures):
// y + p still fits 256 bits, which gives an encoding with y >= p that is
// congruent to a valid point.
var smallYPoints = []struct {
	x string
	y int64
}{
	{"9C17043EFFE1A805A74A9A5E70B9D659705D3242094A566DC016F49311178D1F", 1},
	{"3B404F94E46027D11401987CD5ACB2953E4BFF91A7D856B40986700015B4F8A6", 2},
	{"1800FFCB38194CE0905766DFD6B9CE196095203D481BA8E4E614749D615CD506", 3},
}

// smallXPoints: the first few x = 0,1,2,... that are x-coordinates of curve
// points (x + p still fits 256 bits). Filled by selfTestFixtures.
var smallXPoints []ref.Point

func selfTestFixtures() error {
	c := ref.SM2
	for _, s := range sampledScalars {
		k := bx(s.k)
		if k.Sign() <= 0 || k.Cmp(nMinus2) > 0 {
			return fmt.Errorf("sampled scalar %s out of range", s.name)
		}
		R := c.BaseMul(k)
		if ref.Hex32(R.X) != s.x {
			return fmt.Errorf("sampled scalar %s: x = %s", s.name, ref.Hex32(R.X))
		}
		top := new(big.Int).Rsh(new(big.Int).And(R.X, sub(two128, one)), 108).Uint64()
		want := map[string]uint64{"x[127:108]=ones": 1<<20 - 1, "x[127]=0,x[126:108]=ones": 1<<19 - 1, "x[127]=1,x[126:108]=0": 1 << 19, "x[127:108]=0": 0}[s.name]
		if top != want {
			return fmt.Errorf("sampled scalar %s: pattern %x", s.name, top)
		}
	}
	for _, q := range smallYPoints {
		if !c.OnCurve(ref.Point{X: bx(q.x), Y: bi(q.y)}) {
			return fmt.Errorf("small-y fixture y=%d is not on the curve", q.y)
		}
	}
	smallXPoints = nil
	for x := int64(0); len(smallXPoints) < 4 && x < 64; x++ {
		if pt, ok := c.LiftX(bi(x), uint(x&1)); ok {
			if !c.OnCurve(pt) {
				return fmt.Errorf("LiftX(%d) not on curve", x)
			}
			smallXPoints = append(smallXPoints, pt)
		}
	}
	if len(smallXPoints) < 4 {
		return errors.New("no small-x points found")
	}
	return nil
}

// scalarClass names what is special about a scalar (empty = nothing).
func scalarClass(k *big.Int) string {
	switch {
	case k.Cmp(bi(3)) <= 0:
		return "edge:1..3"
	case k.Cmp(nMinus1) == 0:
		return "edge:n-1"
	case k.Cmp(sub(bigN, bi(4))) >= 0:
		return "edge:n-4..n-2"
	case k.BitLen() <= 128:
		return "edge:<=128bit"
	case k.Cmp(sub(bigN, two128)) >= 0:
		return "edge:n-2^128.."
	}
	for _, s := range sampledScalars {
		if k.Cmp(bx(s.k)) == 0 {
			return "sampled:" + s.name
		}
	}
	// sparse / dense bit patterns
	pc := 0
	for _, w := range k.Bits() {
		for ; w != 0; w &= w - 1 {
			pc++
		}
	}
	if pc <= 4 || pc >= 250 {
		return "edge:sparse/dense"
	}
	return ""
}

// drawScalar draws a scalar in [1, n-2] (or up to n-1 for ephemerals, which
// sm2's sampler admits): mostly uniform, otherwise an edge value.
func drawScalar(t *rapid.T, label string, ephemeral bool) *big.Int {
	kind := rapid.IntRange(0, 15).Draw(t, label+"Kind")
	switch kind {
	case 10:
		return bi(int64(rapid.IntRange(1, 3).Draw(t, label+"Low")))
	case 11:
		lo := 2
		if ephemeral {
			lo = 1
		}
		return sub(bigN, bi(int64(rapid.IntRange(lo, 4).Draw(t, label+"High"))))
	case 12:
		// 2^k, 2^k-1, 2^k+1
		k := rapid.IntRange(2, 255).Draw(t, label+"Pow")
		v := new(big.Int).Lsh(one, uint(k))
		v.Add(v, bi(int64(rapid.IntRange(-1, 1).Draw(t, label+"PowD"))))
		if v.Cmp(nMinus2) > 0 {
			v = sub(bigN, bi(2))
		}
		return v
	case 13:
		if ephemeral {
			return bx(rapid.SampledFrom(sampledScalars).Draw(t, label+"Sampled").k)
		}
	case 14:
		// close to n or short
		s := rapid.Uint64().Draw(t, label+"Seed")
		v := fromB(gen.Fill(s, 16))
		if rapid.Bool().Draw(t, label+"Near") {
			v = sub(sub(bigN, bi(2)), v)
		}
		if v.Sign() == 0 {
			v = bi(1)
		}
		return v
	}
	return uniformScalar(rapid.Uint64().Draw(t, label+"Seed"))
}

// implicitParts returns x-bar of [r]G and m = x-bar * r mod n.
func implicitParts(r *big.Int) (xbar, m *big.Int) {
	R := ref.SM2.BaseMul(r)
	xbar = ref.SM2XBar(R.X)
	return xbar, modN(mul(xbar, r))
}

// dependentStatic returns a static scalar d in [1, n-2] that puts the implicit
// signature t = (d + x-bar r) mod n of this side into a chosen class, given
// m = x-bar*r mod n; nil if the class is not reachable for this m.
//
//	"t=0"        d + m = n        (V is the point at infinity: must be refused)
//	"t=1"        d + m = n + 1
//	"t=n-1"      d + m = n - 1
//	"sum=n+small" d + m in [n, 2^256): the sum needs the subtraction of n but has no carry out of 256 bits
//	"sum=2^256-1", "sum=2^256": either side of the 256-bit carry
//	"P=[xbar]R"  d = m: the peer's addition P + [x-bar]R is a doubling
//	"P=-[xbar]R" = "t=0"
func dependentStatic(class string, m *big.Int, seed uint64) *big.Int {
	var d *big.Int
	switch class {
	case "t=0":
		d = sub(bigN, m)
	case "t=1":
		d = add(sub(bigN, m), one)
	case "t=n-1":
		d = sub(nMinus1, m)
	case "sum=n+small":
		delta := fromB(gen.Fill(seed, 40))
		delta.Mod(delta, sub(two256, bigN))
		d = add(sub(bigN, m), delta)
	case "sum=2^256-1":
		d = sub(sub(two256, one), m)
	case "sum=2^256":
		d = sub(two256, m)
	case "P=[xbar]R":
		d = new(big.Int).Set(m)
	}
	if d == nil || d.Sign() <= 0 || d.Cmp(nMinus2) > 0 {
		return nil
	}
	return d
}

var dependentClasses = []string{"t=0", "t=1", "t=n-1", "sum=n+small", "sum=n+small", "sum=2^256-1", "sum=2^256", "P=[xbar]R"}

// drawSide draws one party's (static, ephemeral) scalars.
func drawSide(t *rapid.T, label string) (d, r *big.Int) {
	r = drawScalar(t, label+"r", true)
	if rapid.IntRange(0, 7).Draw(t, label+"Dep") == 0 {
		_, m := implicitParts(r)
		class := rapid.SampledFrom(dependentClasses).Draw(t, label+"DepClass")
		if d = dependentStatic(class, m, rapid.Uint64().Draw(t, label+"DepSeed")); d != nil {
			return d, r
		}
	}
	return drawScalar(t, label+"d", false), r
}

// sumClass classifies the integer d + (x-bar r mod n) the way the limb
// arithmetic of the byte-oriented implementation sees it.
func sumClass(d, m *big.Int) string {
	s := add(d, m)
	switch {
	case s.Cmp(bigN) == 0:
		return "t=0"
	case s.Cmp(bigN) < 0:
		return "d+m<n"
	case s.Cmp(two256) < 0:
		return "n<=d+m<2^256"
	}
	return "d+m>=2^256"
}

// ---------------------------------------------------------------- conversions

func libPub(p ref.Point) *ecdsa.PublicKey {
	return &ecdsa.PublicKey{Curve: sm2.P256(), X: new(big.Int).Set(p.X), Y: new(big.Int).Set(p.Y)}
}

func clonePub(p *ecdsa.PublicKey) *ecdsa.PublicKey {
	return &ecdsa.PublicKey{Curve: p.Curve, X: new(big.Int).Set(p.X), Y: new(big.Int).Set(p.Y)}
}

func pubEq(p *ecdsa.PublicKey, q ref.Point) bool {
	return p != nil && p.X != nil && p.Y != nil && !q.Inf && p.X.Cmp(q.X) == 0 && p.Y.Cmp(q.Y) == 0
}

func pubHex(p *ecdsa.PublicKey) string {
	if p == nil || p.X == nil || p.Y == nil {
		return "<nil>"
	}
	return fmt.Sprintf("(%x,%x)", p.X, p.Y)
}

func ptHex(p ref.Point) string {
	if p.Inf {
		return "<infinity>"
	}
	return fmt.Sprintf("(%x,%x)", p.X, p.Y)
}

func enc(p ref.Point) []byte { return ref.SM2.Uncompressed(p) }

var (
	_ = testing.Short
	_ = ecdh.P256
	_ = h.Hex
)
