// C20 — shared keys, ciphers and certificate pools are safe for concurrent use.
// See DESIGN.md section 4, C20. Built with -race: the race detector is oracle
// (1); oracle (2) is that every operation's result under concurrency equals the
// result of the same operation on an identical fresh object run sequentially.
package c20

import (
	"bytes"
	"crypto/cipher"
	"crypto/ecdsa"
	"crypto/elliptic"
	"crypto/x509"
	"crypto/x509/pkix"
	"encoding/hex"
	"encoding/pem"
	"fmt"
	"math/big"
	"runtime"
	"sync"
	"testing"
	"time"

	gmcipher "github.com/emmansun/gmsm/cipher"
	"github.com/emmansun/gmsm/ecdh"
	"github.com/emmansun/gmsm/pkcs"
	"github.com/emmansun/gmsm/sm2"
	"github.com/emmansun/gmsm/sm2/sm2ec"
	"github.com/emmansun/gmsm/sm3"
	"github.com/emmansun/gmsm/sm4"
	"github.com/emmansun/gmsm/sm9"
	"github.com/emmansun/gmsm/smx509"
	"pgregory.net/rapid"
	"verif/harness/gen"
	"verif/harness/h"
)

func TestMain(m *testing.M) { h.Main(m) }

// ccase is one concurrent scenario: a kind of shared object, a schedule shape
// (GOMAXPROCS, number of goroutines, per-goroutine operation lists) and a seed
// from which the fresh object and all inputs are derived.
type ccase struct {
	Kind  string
	Procs int
	Ops   [][]int // Ops[g] = operation indices executed by goroutine g, in order
	Seed  uint64
}

// kind describes a shared-object kind: setup builds a FRESH shared object (so
// every lazily initialised cache is cold), ops are the operations goroutines
// may issue on it. Every op is a deterministic function of (object, g, i,
// seed) and returns a printable result.
type kind struct {
	name  string
	setup func(seed uint64) any
	ops   []op
}

type op struct {
	name string
	lazy bool // first use initialises a lazy cache of the shared object
	f    func(obj any, g, i int, seed uint64) (string, error)
}

func must[T any](v T, err error) T {
	if err != nil {
		panic(err)
	}
	return v
}

func rnd(seed uint64, g, i int) *gen.DetReader {
	return gen.NewDetReader(gen.Mix(seed, uint64(g)+1, uint64(i)+1))
}

func hx(b []byte) string { return hex.EncodeToString(b) }

// Shared inputs. Every byte slice that several goroutines hand to the library at
// once (identities, digests, signatures, ciphertexts, keys, AAD) is a copy with
// spare capacity behind it, filled with a pattern: a callee that appends to its
// argument (`append(uid, hid)`) or scribbles behind it writes to memory all the
// other goroutines pass too - the race detector reports the write, results go
// wrong when the appended bytes differ per call, and checkShared sees the
// changed pattern afterwards.
type sharedBuf struct {
	full []byte // len = cap
	n    int
	orig []byte
}

var (
	sharedMu  sync.Mutex
	sharedReg []sharedBuf
)

const spareLen = 24

func shared(b []byte) []byte {
	full := make([]byte, len(b)+spareLen)
	copy(full, b)
	for i := len(b); i < len(full); i++ {
		full[i] = 0xA5 ^ byte(i)
	}
	sharedMu.Lock()
	sharedReg = append(sharedReg, sharedBuf{full, len(b), append([]byte{}, b...)})
	sharedMu.Unlock()
	return full[:len(b):len(full)]
}

func resetShared() {
	sharedMu.Lock()
	sharedReg = nil
	sharedMu.Unlock()
}

func checkShared() error {
	sharedMu.Lock()
	defer sharedMu.Unlock()
	for _, sb := range sharedReg {
		if !bytes.Equal(sb.full[:sb.n], sb.orig) {
			return fmt.Errorf("a shared input (%d bytes, %x...) was modified by the library", sb.n, sb.orig[:min(8, sb.n)])
		}
		for i := sb.n; i < len(sb.full); i++ {
			if sb.full[i] != 0xA5^byte(i) {
				return fmt.Errorf("the library wrote into the spare capacity behind a shared input (%d bytes, %q...): offset +%d = %#x", sb.n, sb.orig[:min(12, sb.n)], i-sb.n, sb.full[i])
			}
		}
	}
	return nil
}

// ---------------------------------------------------------------- kinds

type sm2Obj struct {
	priv    *sm2.PrivateKey
	pub     *ecdsa.PublicKey // separate public key object (shared too)
	peer    *sm2.PrivateKey
	ct      []byte
	ctBig   []byte          // 300..470-byte message: the KDF runs its 8-lane batches plus a tail
	legacy  *sm2.PrivateKey // a key on NIST P-256: the generic (non-SM2-curve) code path
	ctForms [][]byte        // shared ciphertexts for priv and legacy with compressed, hybrid and uncompressed C1
	ctFormK []*sm2.PrivateKey
	ctASN1  []byte
	hash    []byte
	sig     []byte
	peerPub *ecdsa.PublicKey
	uidA    []byte
	uidB    []byte
}

func newSM2Obj(seed uint64) any {
	o := &sm2Obj{}
	d := gen.Fill(gen.Mix(seed, 1), 32)
	d[0] &= 0x7f
	o.priv = must(sm2.NewPrivateKey(d))
	o.pub = must(sm2.NewPublicKey(elliptic.Marshal(sm2.P256(), o.priv.X, o.priv.Y)))
	d2 := gen.Fill(gen.Mix(seed, 2), 32)
	d2[0] &= 0x7f
	o.peer = must(sm2.NewPrivateKey(d2))
	o.peerPub = must(sm2.NewPublicKey(elliptic.Marshal(sm2.P256(), o.peer.X, o.peer.Y)))
	// artefacts made with an independent copy of the key so the shared key stays cold
	cp := must(sm2.NewPrivateKey(d))
	msg := gen.Fill(gen.Mix(seed, 3), 40)
	o.ct = shared(must(sm2.Encrypt(gen.NewDetReader(seed+9), &cp.PublicKey, msg, nil)))
	o.ctASN1 = shared(must(sm2.EncryptASN1(gen.NewDetReader(seed+10), &cp.PublicKey, msg)))
	o.ctBig = shared(must(sm2.Encrypt(gen.NewDetReader(seed+12), &cp.PublicKey, gen.Fill(gen.Mix(seed, 5), 300+int(seed%171)), nil)))
	o.legacy = new(sm2.PrivateKey)
	o.legacy.Curve = elliptic.P256()
	o.legacy.D = new(big.Int).SetBytes(gen.Fill(gen.Mix(seed, 6), 31))
	o.legacy.X, o.legacy.Y = elliptic.P256().ScalarBaseMult(o.legacy.D.Bytes())
	lcp := &sm2.PrivateKey{PrivateKey: ecdsa.PrivateKey{PublicKey: ecdsa.PublicKey{Curve: elliptic.P256(), X: o.legacy.X, Y: o.legacy.Y}, D: o.legacy.D}}
	for k, key := range []*sm2.PrivateKey{cp, lcp} {
		for f, form := range []sm2.EncrypterOpts{*sm2.NewPlainEncrypterOpts(sm2.MarshalCompressed, sm2.C1C3C2), *sm2.NewPlainEncrypterOpts(sm2.MarshalHybrid, sm2.C1C3C2), *sm2.NewPlainEncrypterOpts(sm2.MarshalUncompressed, sm2.C1C2C3)} {
			form := form
			ct := must(sm2.Encrypt(gen.NewDetReader(seed+20+uint64(3*k+f)), &key.PublicKey, msg, &form))
			o.ctForms = append(o.ctForms, shared(ct))
			o.ctFormK = append(o.ctFormK, []*sm2.PrivateKey{o.priv, o.legacy}[k])
		}
	}
	o.hash = shared(gen.Fill(gen.Mix(seed, 4), 32))
	o.sig = shared(must(sm2.SignASN1(gen.NewDetReader(seed+11), cp, o.hash, nil)))
	o.uidA = shared([]byte("alice"))
	o.uidB = shared([]byte("bob"))
	return o
}

var kindSM2 = kind{name: "sm2-key", setup: newSM2Obj, ops: []op{
	{"sign", true, func(obj any, g, i int, seed uint64) (string, error) {
		o := obj.(*sm2Obj)
		hash := gen.Fill(gen.Mix(seed, 100, uint64(g), uint64(i)), 32)
		sig, err := sm2.SignASN1(rnd(seed, g, i), o.priv, hash, nil)
		if err != nil {
			return "", err
		}
		if !sm2.VerifyASN1(o.pub, hash, sig) {
			return "", fmt.Errorf("signature made concurrently does not verify")
		}
		return hx(sig), nil
	}},
	{"sign-sm2opt", true, func(obj any, g, i int, seed uint64) (string, error) {
		o := obj.(*sm2Obj)
		msg := gen.Fill(gen.Mix(seed, 101, uint64(g), uint64(i)), 50)
		var uid []byte // default identity for even calls, the shared one for odd calls
		opts := sm2.DefaultSM2SignerOpts
		if (g+i)%2 == 1 {
			uid = o.uidA
			opts = sm2.NewSM2SignerOption(true, o.uidA)
		}
		sig, err := o.priv.Sign(rnd(seed, g, i), msg, opts)
		if err != nil {
			return "", err
		}
		if !sm2.VerifyASN1WithSM2(o.pub, uid, msg, sig) {
			return "", fmt.Errorf("SM2 signature made concurrently does not verify")
		}
		return hx(sig), nil
	}},
	{"decrypt", false, func(obj any, g, i int, seed uint64) (string, error) {
		o := obj.(*sm2Obj)
		pt, err := sm2.Decrypt(o.priv, o.ct)
		if err != nil {
			return "", err
		}
		pt2, err := o.priv.Decrypt(nil, o.ctASN1, sm2.ASN1DecrypterOpts)
		if err != nil {
			return "", err
		}
		return hx(pt) + "/" + hx(pt2), nil
	}},
	{"decrypt-refused-then-valid", false, func(obj any, g, i int, seed uint64) (string, error) {
		// failure paths release resources too (pooled hash states, scratch buffers):
		// a refused ciphertext followed by valid ones, from many goroutines at once
		o := obj.(*sm2Obj)
		bad := append([]byte{}, o.ctBig...)
		bad[len(bad)-1-(g+i)%40] ^= 0x01
		if _, err := sm2.Decrypt(o.priv, bad); err == nil {
			return "", fmt.Errorf("tampered ciphertext accepted")
		}
		pt, err := sm2.Decrypt(o.priv, o.ctBig)
		if err != nil {
			return "", fmt.Errorf("valid ciphertext refused after a refused one: %v", err)
		}
		msg := gen.Fill(gen.Mix(seed, 104, uint64(g), uint64(i)), 225+(g*37+i*101)%300)
		ct, err := sm2.Encrypt(rnd(seed, g, i), o.pub, msg, nil)
		if err != nil {
			return "", err
		}
		pt2, err := sm2.Decrypt(o.priv, ct)
		if err != nil || !bytes.Equal(pt2, msg) {
			return "", fmt.Errorf("long ciphertext made concurrently does not decrypt: %v", err)
		}
		return hx(pt[:16]) + "/" + hx(ct[len(ct)-16:]), nil
	}},
	{"decrypt-shared-forms", false, func(obj any, g, i int, seed uint64) (string, error) {
		// one ciphertext SLICE per C1 form (compressed, hybrid, uncompressed) and per
		// code path (SM2 curve, generic curve), opened by every goroutine: a decoder
		// that normalises its input in place - even temporarily - races on it
		o := obj.(*sm2Obj)
		res := ""
		for k, ct := range o.ctForms {
			var opts *sm2.DecrypterOpts
			if k%3 == 2 {
				opts = sm2.NewPlainDecrypterOpts(sm2.C1C2C3)
			}
			pt, err := o.ctFormK[k].Decrypt(nil, ct, opts)
			if err != nil {
				return "", fmt.Errorf("shared ciphertext %d (C1 form %d, key %d) refused under concurrency: %v", k, k%3, k/3, err)
			}
			res += hx(pt[:4])
		}
		return res, nil
	}},
	{"verify", false, func(obj any, g, i int, seed uint64) (string, error) {
		o := obj.(*sm2Obj)
		ok := sm2.VerifyASN1(o.pub, o.hash, o.sig)
		bad := sm2.VerifyASN1(o.pub, o.hash[1:], o.sig)
		return fmt.Sprint(ok, bad), nil
	}},
	{"encrypt", false, func(obj any, g, i int, seed uint64) (string, error) {
		o := obj.(*sm2Obj)
		msg := gen.Fill(gen.Mix(seed, 102, uint64(g), uint64(i)), 33)
		ct, err := sm2.Encrypt(rnd(seed, g, i), o.pub, msg, nil)
		if err != nil {
			return "", err
		}
		pt, err := sm2.Decrypt(o.priv, ct)
		if err != nil || !bytes.Equal(pt, msg) {
			return "", fmt.Errorf("ciphertext made concurrently does not decrypt: %v", err)
		}
		return hx(ct), nil
	}},
	{"legacy-sign-two-keys", false, func(obj any, g, i int, seed uint64) (string, error) {
		// the package-level r/s entry points, used at once with two different shared
		// keys: any state kept between calls (a memo of "the" key, a scratch buffer)
		// makes one goroutine sign with the other's key
		o := obj.(*sm2Obj)
		key, pub := o.priv, o.pub
		if (g+i)%2 == 1 {
			key, pub = o.peer, o.peerPub
		}
		hash := gen.Fill(gen.Mix(seed, 103, uint64(g), uint64(i)), 32)
		r, s, err := sm2.Sign(rnd(seed, g, 2*i), &key.PrivateKey, hash)
		if err != nil {
			return "", err
		}
		if !sm2.Verify(pub, hash, r, s) {
			return "", fmt.Errorf("sm2.Sign under concurrency: signature does not verify under the requested key")
		}
		r2, s2, err := sm2.SignWithSM2(rnd(seed, g, 2*i+1), &key.PrivateKey, o.uidA, hash)
		if err != nil {
			return "", err
		}
		if !sm2.VerifyWithSM2(pub, o.uidA, hash, r2, s2) {
			return "", fmt.Errorf("sm2.SignWithSM2 under concurrency: signature does not verify under the requested key")
		}
		sig, err := sm2.SignASN1(rnd(seed, g, 2*i), key, hash, nil)
		if err != nil {
			return "", err
		}
		if !sm2.VerifyASN1(pub, hash, sig) {
			return "", fmt.Errorf("SignASN1 under concurrency: signature does not verify under the requested key")
		}
		return r.Text(16) + "/" + s.Text(16) + "/" + r2.Text(16) + "/" + hx(sig), nil
	}},
	{"ecdh-convert", false, func(obj any, g, i int, seed uint64) (string, error) {
		o := obj.(*sm2Obj)
		k, err := o.priv.ECDH()
		if err != nil {
			return "", err
		}
		p, err := sm2.PublicKeyToECDH(o.peerPub)
		if err != nil {
			return "", err
		}
		s, err := k.ECDH(p)
		if err != nil {
			return "", err
		}
		return hx(k.PublicKey().Bytes()) + "/" + hx(s), nil
	}},
	{"key-exchange", false, func(obj any, g, i int, seed uint64) (string, error) {
		o := obj.(*sm2Obj)
		// the static keys are shared, the KeyExchange objects are per goroutine
		a, err := sm2.NewKeyExchange(o.priv, o.peerPub, o.uidA, o.uidB, 32, true)
		if err != nil {
			return "", err
		}
		b, err := sm2.NewKeyExchange(o.peer, o.pub, o.uidB, o.uidA, 32, true)
		if err != nil {
			return "", err
		}
		rA, err := a.InitKeyExchange(rnd(seed, g, 2*i))
		if err != nil {
			return "", err
		}
		rB, s2, err := b.RepondKeyExchange(rnd(seed, g, 2*i+1), rA)
		if err != nil {
			return "", err
		}
		k1, s1, err := a.ConfirmResponder(rB, s2)
		if err != nil {
			return "", err
		}
		k2, err := b.ConfirmInitiator(s1)
		if err != nil {
			return "", err
		}
		if !bytes.Equal(k1, k2) {
			return "", fmt.Errorf("key exchange under concurrency: keys differ")
		}
		return hx(k1), nil
	}},
}}

type ecdhObj struct {
	priv, eph *ecdh.PrivateKey
	peer      *ecdh.PublicKey
	peerEph   *ecdh.PublicKey
	uidA      []byte
	uidB      []byte
}

var kindECDH = kind{name: "ecdh-key", setup: func(seed uint64) any {
	mk := func(k uint64) *ecdh.PrivateKey {
		d := gen.Fill(gen.Mix(seed, k), 32)
		d[0] &= 0x7f
		return must(ecdh.P256().NewPrivateKey(d))
	}
	o := &ecdhObj{priv: mk(1), eph: mk(2), uidA: shared([]byte("a")), uidB: shared([]byte("b"))}
	// the peer's public keys come from bytes, computed with independent key objects
	o.peer = must(ecdh.P256().NewPublicKey(mk(3).PublicKey().Bytes()))
	o.peerEph = must(ecdh.P256().NewPublicKey(mk(4).PublicKey().Bytes()))
	return o
}, ops: []op{
	{"public-key", true, func(obj any, g, i int, seed uint64) (string, error) {
		o := obj.(*ecdhObj)
		return hx(o.priv.PublicKey().Bytes()) + "/" + hx(o.eph.PublicKey().Bytes()), nil
	}},
	{"ecdh", false, func(obj any, g, i int, seed uint64) (string, error) {
		o := obj.(*ecdhObj)
		s, err := o.priv.ECDH(o.peer)
		return hx(s), err
	}},
	{"sm2mqv", true, func(obj any, g, i int, seed uint64) (string, error) {
		o := obj.(*ecdhObj)
		v, err := o.priv.SM2MQV(o.eph, o.peer, o.peerEph)
		if err != nil {
			return "", err
		}
		k, err := v.SM2SharedKey(false, 32, o.priv.PublicKey(), o.peer, o.uidA, o.uidB)
		return hx(v.Bytes()) + "/" + hx(k), err
	}},
}}

type sm9SignObj struct {
	master *sm9.SignMasterPrivateKey
	pub    *sm9.SignMasterPublicKey
	user   *sm9.SignPrivateKey
	pub2   *sm9.SignMasterPublicKey // a second, unrelated master key and user key
	user2  *sm9.SignPrivateKey
	uid    []byte
	uidB   []byte
	hash   []byte
	sig    []byte
}

var kindSM9Sign = kind{name: "sm9-sign-key", setup: func(seed uint64) any {
	o := &sm9SignObj{uid: shared([]byte("alice@c20")), uidB: shared([]byte("bob"))}
	o.master = must(sm9.GenerateSignMasterKey(gen.NewDetReader(gen.Mix(seed, 1))))
	// a public key object of its own, parsed from bytes: cold caches
	o.pub = must(sm9.UnmarshalSignMasterPublicKeyRaw(o.master.PublicKey().Bytes()))
	o.user = must(o.master.GenerateUserKey(o.uid, 1))
	mOther := must(sm9.GenerateSignMasterKey(gen.NewDetReader(gen.Mix(seed, 7))))
	o.pub2 = must(sm9.UnmarshalSignMasterPublicKeyRaw(mOther.PublicKey().Bytes()))
	o.user2 = must(mOther.GenerateUserKey(o.uidB, 1))
	// signature made with an independent copy
	m2 := must(sm9.GenerateSignMasterKey(gen.NewDetReader(gen.Mix(seed, 1))))
	u2 := must(m2.GenerateUserKey(o.uid, 1))
	o.hash = shared(gen.Fill(gen.Mix(seed, 2), 32))
	o.sig = shared(must(sm9.SignASN1(gen.NewDetReader(seed+5), u2, o.hash)))
	return o
}, ops: []op{
	{"sign", true, func(obj any, g, i int, seed uint64) (string, error) {
		o := obj.(*sm9SignObj)
		hash := gen.Fill(gen.Mix(seed, 200, uint64(g), uint64(i)), 32)
		sig, err := sm9.SignASN1(rnd(seed, g, i), o.user, hash)
		if err != nil {
			return "", err
		}
		if !sm9.VerifyASN1(o.pub, o.uid, 1, hash, sig) {
			return "", fmt.Errorf("SM9 signature made concurrently does not verify")
		}
		return hx(sig), nil
	}},
	{"verify", true, func(obj any, g, i int, seed uint64) (string, error) {
		o := obj.(*sm9SignObj)
		ok := sm9.VerifyASN1(o.pub, o.uid, 1, o.hash, o.sig)
		bad := sm9.VerifyASN1(o.pub, o.uidB, 1, o.hash, o.sig)
		return fmt.Sprint(ok, bad), nil
	}},
	{"sign-other-master", true, func(obj any, g, i int, seed uint64) (string, error) {
		o := obj.(*sm9SignObj)
		hash := gen.Fill(gen.Mix(seed, 201, uint64(g), uint64(i)), 32)
		sig, err := sm9.SignASN1(rnd(seed, g, i), o.user2, hash)
		if err != nil {
			return "", err
		}
		if !sm9.VerifyASN1(o.pub2, o.uidB, 1, hash, sig) || sm9.VerifyASN1(o.pub, o.uidB, 1, hash, sig) {
			return "", fmt.Errorf("SM9 signature by the second key: verifies under the wrong master key or not under its own")
		}
		return hx(sig), nil
	}},
	{"verify-via-master", true, func(obj any, g, i int, seed uint64) (string, error) {
		o := obj.(*sm9SignObj)
		return fmt.Sprint(o.master.PublicKey().Verify(o.uid, 1, o.hash, o.sig)), nil
	}},
	{"marshal", false, func(obj any, g, i int, seed uint64) (string, error) {
		o := obj.(*sm9SignObj)
		a, err := o.user.MarshalASN1()
		if err != nil {
			return "", err
		}
		b, err := o.pub.MarshalCompressedASN1()
		return hx(a) + "/" + hx(b), err
	}},
}}

type sm9EncObj struct {
	master *sm9.EncryptMasterPrivateKey
	pub    *sm9.EncryptMasterPublicKey
	user   *sm9.EncryptPrivateKey
	peer   *sm9.EncryptPrivateKey
	pub2   *sm9.EncryptMasterPublicKey // a second, unrelated master key and user key
	user2  *sm9.EncryptPrivateKey
	userKX *sm9.EncryptPrivateKey // hid 2 keys for the key exchange
	peerKX *sm9.EncryptPrivateKey
	uid    []byte
	uidB   []byte
	ct     []byte
	key    []byte
	wrap   []byte
}

var kindSM9Enc = kind{name: "sm9-encrypt-key", setup: func(seed uint64) any {
	o := &sm9EncObj{uid: shared([]byte("alice@c20")), uidB: shared([]byte("bob@c20"))}
	o.master = must(sm9.GenerateEncryptMasterKey(gen.NewDetReader(gen.Mix(seed, 1))))
	o.pub = must(sm9.UnmarshalEncryptMasterPublicKeyRaw(o.master.PublicKey().Bytes()))
	o.user = must(o.master.GenerateUserKey(o.uid, 3))
	o.peer = must(o.master.GenerateUserKey(o.uidB, 3))
	mOther := must(sm9.GenerateEncryptMasterKey(gen.NewDetReader(gen.Mix(seed, 7))))
	o.pub2 = must(sm9.UnmarshalEncryptMasterPublicKeyRaw(mOther.PublicKey().Bytes()))
	o.user2 = must(mOther.GenerateUserKey(o.uid, 3))
	o.userKX = must(o.master.GenerateUserKey(o.uid, 2))
	o.peerKX = must(o.master.GenerateUserKey(o.uidB, 2))
	m2 := must(sm9.GenerateEncryptMasterKey(gen.NewDetReader(gen.Mix(seed, 1))))
	msg := gen.Fill(gen.Mix(seed, 2), 70)
	o.ct = shared(must(sm9.Encrypt(gen.NewDetReader(seed+5), m2.PublicKey(), o.uid, 3, msg, nil)))
	o.key, o.wrap, _ = sm9.WrapKey(gen.NewDetReader(seed+6), m2.PublicKey(), o.uid, 3, 32)
	o.wrap = shared(o.wrap)
	return o
}, ops: []op{
	{"wrap", true, func(obj any, g, i int, seed uint64) (string, error) {
		o := obj.(*sm9EncObj)
		k, c, err := sm9.WrapKey(rnd(seed, g, i), o.pub, o.uid, 3, 48)
		if err != nil {
			return "", err
		}
		k2, err := sm9.UnwrapKey(o.user, o.uid, c, 48)
		if err != nil || !bytes.Equal(k, k2) {
			return "", fmt.Errorf("key wrapped concurrently does not unwrap: %v", err)
		}
		return hx(k) + "/" + hx(c), nil
	}},
	{"wrap-other-master", true, func(obj any, g, i int, seed uint64) (string, error) {
		o := obj.(*sm9EncObj)
		k, c, err := sm9.WrapKey(rnd(seed, g, i), o.pub2, o.uid, 3, 40)
		if err != nil {
			return "", err
		}
		k2, err := sm9.UnwrapKey(o.user2, o.uid, c, 40)
		if err != nil || !bytes.Equal(k, k2) {
			return "", fmt.Errorf("key wrapped for the second master key does not unwrap: %v", err)
		}
		if k3, err := sm9.UnwrapKey(o.user, o.uid, c, 40); err == nil && bytes.Equal(k, k3) {
			return "", fmt.Errorf("key wrapped for the second master key unwraps under the first")
		}
		return hx(k) + "/" + hx(c), nil
	}},
	{"unwrap", true, func(obj any, g, i int, seed uint64) (string, error) {
		o := obj.(*sm9EncObj)
		k, err := sm9.UnwrapKey(o.user, o.uid, o.wrap, 32)
		if err != nil {
			return "", err
		}
		if !bytes.Equal(k, o.key) {
			return "", fmt.Errorf("unwrap under concurrency returned a different key")
		}
		return hx(k), nil
	}},
	{"encrypt", true, func(obj any, g, i int, seed uint64) (string, error) {
		o := obj.(*sm9EncObj)
		msg := gen.Fill(gen.Mix(seed, 300, uint64(g), uint64(i)), 45)
		ct, err := sm9.Encrypt(rnd(seed, g, i), o.master.PublicKey(), o.uid, 3, msg, sm9.SM4CBCEncrypterOpts)
		if err != nil {
			return "", err
		}
		pt, err := sm9.Decrypt(o.user, o.uid, ct, sm9.SM4CBCEncrypterOpts)
		if err != nil || !bytes.Equal(pt, msg) {
			return "", fmt.Errorf("SM9 ciphertext made concurrently does not decrypt: %v", err)
		}
		return hx(ct), nil
	}},
	{"decrypt", true, func(obj any, g, i int, seed uint64) (string, error) {
		o := obj.(*sm9EncObj)
		pt, err := sm9.Decrypt(o.user, o.uid, o.ct, nil)
		return hx(pt), err
	}},
	{"decrypt-refused-then-valid", true, func(obj any, g, i int, seed uint64) (string, error) {
		o := obj.(*sm9EncObj)
		bad := append([]byte{}, o.ct...)
		bad[len(bad)-1-(g+i)%30] ^= 0x01
		if _, err := sm9.Decrypt(o.user, o.uid, bad, nil); err == nil {
			return "", fmt.Errorf("tampered SM9 ciphertext accepted")
		}
		msg := gen.Fill(gen.Mix(seed, 301, uint64(g), uint64(i)), 200+(g*41+i*97)%300) // XOR mode: KDF output = message length + 32
		ct, err := sm9.Encrypt(rnd(seed, g, i), o.pub, o.uid, 3, msg, nil)
		if err != nil {
			return "", err
		}
		pt, err := sm9.Decrypt(o.user, o.uid, ct, nil)
		if err != nil || !bytes.Equal(pt, msg) {
			return "", fmt.Errorf("long SM9 ciphertext made concurrently does not decrypt after a refused one: %v", err)
		}
		return hx(ct[len(ct)-16:]), nil
	}},
	{"key-exchange", true, func(obj any, g, i int, seed uint64) (string, error) {
		o := obj.(*sm9EncObj)
		// hid 2 here while wrap/encrypt use hid 3 on the same shared identities
		a := o.userKX.NewKeyExchange(o.uid, o.uidB, 16, true)
		b := o.peerKX.NewKeyExchange(o.uidB, o.uid, 16, true)
		rA, err := a.InitKeyExchange(rnd(seed, g, 2*i), 2)
		if err != nil {
			return "", err
		}
		rB, sB, err := b.RespondKeyExchange(rnd(seed, g, 2*i+1), 2, rA)
		if err != nil {
			return "", err
		}
		k1, sA, err := a.ConfirmResponder(rB, sB)
		if err != nil {
			return "", err
		}
		k2, err := b.ConfirmInitiator(sA)
		if err != nil {
			return "", err
		}
		if !bytes.Equal(k1, k2) {
			return "", fmt.Errorf("SM9 key exchange under concurrency: keys differ")
		}
		return hx(k1), nil
	}},
}}

type sm4Obj struct {
	block  cipher.Block
	gcm    cipher.AEAD
	gcm13  cipher.AEAD
	ccm    cipher.AEAD
	block2 cipher.Block // another key, used at the same time
	gcm2   cipher.AEAD
	key    []byte
	aad    []byte
	nonce  []byte
	sealed [3][]byte // one message per AEAD sealed under the shared nonce and aad
}

var kindSM4 = kind{name: "sm4-block-aead", setup: func(seed uint64) any {
	o := &sm4Obj{key: shared(gen.Fill(gen.Mix(seed, 1), 16))}
	o.block = must(sm4.NewCipher(o.key))
	o.gcm = must(cipher.NewGCM(o.block))
	o.gcm13 = must(cipher.NewGCMWithTagSize(o.block, 13))
	o.ccm = must(gmcipher.NewCCM(o.block))
	o.block2 = must(sm4.NewCipher(gen.Fill(gen.Mix(seed, 9), 16)))
	o.gcm2 = must(cipher.NewGCM(o.block2))
	o.aad = shared(gen.Fill(gen.Mix(seed, 2), 21))
	o.nonce = shared(gen.Fill(gen.Mix(seed, 3), 12))
	// sealed with an independent cipher object
	b2 := must(sm4.NewCipher(o.key))
	msg := gen.Fill(gen.Mix(seed, 4), 77)
	for i, a := range []cipher.AEAD{must(cipher.NewGCM(b2)), must(cipher.NewGCMWithTagSize(b2, 13)), must(gmcipher.NewCCM(b2))} {
		o.sealed[i] = shared(a.Seal(nil, o.nonce, msg, o.aad))
	}
	return o
}, ops: []op{
	{"block", false, func(obj any, g, i int, seed uint64) (string, error) {
		o := obj.(*sm4Obj)
		in := gen.Fill(gen.Mix(seed, 400, uint64(g), uint64(i)), 16)
		out := make([]byte, 16)
		o.block.Encrypt(out, in)
		back := make([]byte, 16)
		o.block.Decrypt(back, out)
		if !bytes.Equal(back, in) {
			return "", fmt.Errorf("block decrypt(encrypt(x)) != x under concurrency")
		}
		return hx(out), nil
	}},
	{"modes", false, func(obj any, g, i int, seed uint64) (string, error) {
		o := obj.(*sm4Obj)
		n := 16 * (1 + (g+3*i)%20)
		in := gen.Fill(gen.Mix(seed, 401, uint64(g), uint64(i)), n)
		iv := gen.Fill(gen.Mix(seed, 402, uint64(g), uint64(i)), 16)
		res := ""
		out := make([]byte, n)
		cipher.NewCBCEncrypter(o.block, iv).CryptBlocks(out, in)
		res += hx(out[n-16:])
		back := make([]byte, n)
		cipher.NewCBCDecrypter(o.block, iv).CryptBlocks(back, out)
		if !bytes.Equal(back, in) {
			return "", fmt.Errorf("CBC round trip failed under concurrency")
		}
		cipher.NewCTR(o.block, iv).XORKeyStream(out, in)
		res += hx(out[n-16:])
		gmcipher.NewECBEncrypter(o.block).CryptBlocks(out, in)
		res += hx(out[n-16:])
		cipher.NewCFBEncrypter(o.block, iv).XORKeyStream(out, in)
		res += hx(out[n-16:])
		cipher.NewOFB(o.block, iv).XORKeyStream(out, in)
		res += hx(out[n-16:])
		x := must(gmcipher.NewXTSEncrypter(sm4.NewCipher, o.key, iv, iv))
		x.CryptBlocks(out, in)
		res += hx(out[n-16:])
		return res, nil
	}},
	{"gcm", false, func(obj any, g, i int, seed uint64) (string, error) {
		o := obj.(*sm4Obj)
		n := (g*37 + i*11) % 200
		in := gen.Fill(gen.Mix(seed, 403, uint64(g), uint64(i)), n)
		nonce := gen.Fill(gen.Mix(seed, 404, uint64(g), uint64(i)), 12)
		res := ""
		for _, a := range []cipher.AEAD{o.gcm, o.gcm13, o.ccm} {
			ct := a.Seal(nil, nonce, in, nonce[:5])
			pt, err := a.Open(nil, nonce, ct, nonce[:5])
			if err != nil || !bytes.Equal(pt, in) {
				return "", fmt.Errorf("AEAD %T round trip failed under concurrency: %v", a, err)
			}
			res += hx(ct) + "/"
		}
		return res, nil
	}},
	{"second-key", false, func(obj any, g, i int, seed uint64) (string, error) {
		o := obj.(*sm4Obj)
		n := 16 * (1 + (g+5*i)%12)
		in := gen.Fill(gen.Mix(seed, 406, uint64(g), uint64(i)), n)
		out := make([]byte, n)
		gmcipher.NewECBEncrypter(o.block2).CryptBlocks(out, in)
		back := make([]byte, n)
		gmcipher.NewECBDecrypter(o.block2).CryptBlocks(back, out)
		if !bytes.Equal(back, in) {
			return "", fmt.Errorf("ECB round trip with the second key failed under concurrency")
		}
		nonce := gen.Fill(gen.Mix(seed, 407, uint64(g), uint64(i)), 12)
		ct := o.gcm2.Seal(nil, nonce, in, o.aad)
		if _, err := o.gcm.Open(nil, nonce, ct, o.aad); err == nil {
			return "", fmt.Errorf("GCM message sealed under the second key opens under the first")
		}
		if pt, err := o.gcm2.Open(nil, nonce, ct, o.aad); err != nil || !bytes.Equal(pt, in) {
			return "", fmt.Errorf("GCM round trip with the second key failed under concurrency: %v", err)
		}
		return hx(out[:16]) + hx(ct[len(ct)-16:]), nil
	}},
	{"open-shared", false, func(obj any, g, i int, seed uint64) (string, error) {
		// every goroutine opens the same ciphertext slices with the same nonce and aad slices
		o := obj.(*sm4Obj)
		res := ""
		for k, a := range []cipher.AEAD{o.gcm, o.gcm13, o.ccm} {
			pt, err := a.Open(nil, o.nonce, o.sealed[k], o.aad)
			if err != nil {
				return "", fmt.Errorf("AEAD %T Open of a shared ciphertext failed under concurrency: %v", a, err)
			}
			res += hx(pt[:8]) + "/"
		}
		return res, nil
	}},
	{"open-refused-then-valid", false, func(obj any, g, i int, seed uint64) (string, error) {
		o := obj.(*sm4Obj)
		res := ""
		for k, a := range []cipher.AEAD{o.gcm, o.gcm13, o.ccm} {
			bad := append([]byte{}, o.sealed[k]...)
			bad[(g*7+i)%len(bad)] ^= 0x80
			if _, err := a.Open(nil, o.nonce, bad, o.aad); err == nil {
				return "", fmt.Errorf("AEAD %T opened a tampered message", a)
			}
			pt, err := a.Open(nil, o.nonce, o.sealed[k], o.aad)
			if err != nil {
				return "", fmt.Errorf("AEAD %T refused a valid message after a tampered one: %v", a, err)
			}
			res += hx(pt[:4])
		}
		return res, nil
	}},
	{"construct-aead", false, func(obj any, g, i int, seed uint64) (string, error) {
		o := obj.(*sm4Obj)
		a := must(cipher.NewGCM(o.block))
		c := must(gmcipher.NewCCM(o.block))
		nonce := gen.Fill(gen.Mix(seed, 405, uint64(g), uint64(i)), 12)
		return hx(a.Seal(nil, nonce, nonce, nil)) + hx(c.Seal(nil, nonce, nonce, nil)), nil
	}},
}}

var kindHashCtor = kind{name: "hash-constructors", setup: func(seed uint64) any { return nil }, ops: []op{
	{"sm3", false, func(obj any, g, i int, seed uint64) (string, error) {
		in := gen.Fill(gen.Mix(seed, 500, uint64(g), uint64(i)), (g*13+i*29)%300)
		hh := sm3.New()
		hh.Write(in)
		a := hh.Sum(nil)
		b := sm3.Sum(in)
		if !bytes.Equal(a, b[:]) {
			return "", fmt.Errorf("sm3.New and sm3.Sum disagree under concurrency")
		}
		// output lengths on both sides of the multi-lane KDF's batch sizes (4 and 8 blocks, with and without a tail)
		k := sm3.Kdf(in, []int{100, 225, 300, 470, 1000, 32, 256}[(g+i)%7])
		return hx(a) + hx(k), nil
	}},
	{"pkcs-registry", false, func(obj any, g, i int, seed uint64) (string, error) {
		c1, err := pkcs.GetCipher(pkix.AlgorithmIdentifier{Algorithm: pkcs.SM4GCM.OID()})
		if err != nil {
			return "", err
		}
		c2, err := pkcs.GetCipher(pkix.AlgorithmIdentifier{Algorithm: pkcs.AES128CBC.OID()})
		if err != nil {
			return "", err
		}
		return fmt.Sprint(c1.KeySize(), c2.KeySize(), c1.OID(), c2.OID()), nil
	}},
	{"sm2-internal-singleton", true, func(obj any, g, i int, seed uint64) (string, error) {
		// sm2's internal curve singleton and sm2ec's precomputed tables through the key API
		k := gen.Fill(gen.Mix(seed, 502, uint64(g), uint64(i)), 32)
		k[0] &= 0x7f
		priv, err := sm2.NewPrivateKey(k)
		if err != nil {
			return "", err
		}
		pub, err := sm2.NewPublicKey(elliptic.Marshal(sm2.P256(), priv.X, priv.Y))
		if err != nil {
			return "", err
		}
		sig, err := sm2.SignASN1(rnd(seed, g, i), priv, k, nil)
		if err != nil {
			return "", err
		}
		if !sm2.VerifyASN1(pub, k, sig) {
			return "", fmt.Errorf("signature does not verify")
		}
		return hx(sig), nil
	}},
	{"sm9-internal-singleton", true, func(obj any, g, i int, seed uint64) (string, error) {
		// bn256 generator tables through master key generation
		a, err := sm9.GenerateSignMasterKey(rnd(seed, g, 2*i))
		if err != nil {
			return "", err
		}
		b, err := sm9.GenerateEncryptMasterKey(rnd(seed, g, 2*i+1))
		if err != nil {
			return "", err
		}
		return hx(a.PublicKey().Bytes()) + hx(b.PublicKey().Bytes()), nil
	}},
	{"ecdh-internal-singleton", true, func(obj any, g, i int, seed uint64) (string, error) {
		k := gen.Fill(gen.Mix(seed, 503, uint64(g), uint64(i)), 32)
		k[0] &= 0x7f
		p, err := ecdh.P256().NewPrivateKey(k)
		if err != nil {
			return "", err
		}
		q, err := ecdh.P256().NewPublicKey(p.PublicKey().Bytes())
		if err != nil {
			return "", err
		}
		s, err := p.ECDH(q)
		return hx(s), err
	}},
	{"curves", true, func(obj any, g, i int, seed uint64) (string, error) {
		k := gen.Fill(gen.Mix(seed, 501, uint64(g), uint64(i)), 32)
		x1, y1 := sm2.P256().ScalarBaseMult(k)
		x2, y2 := sm2ec.P256().ScalarBaseMult(k)
		if x1.Cmp(x2) != 0 || y1.Cmp(y2) != 0 {
			return "", fmt.Errorf("curve singletons disagree")
		}
		k[0] &= 0x7f
		p, err := ecdh.P256().NewPrivateKey(k)
		if err != nil {
			return "", err
		}
		return hx(p.PublicKey().Bytes()) + x1.Text(16), nil
	}},
	// the shared curve object through the generic elliptic.Curve API, with scalars of
	// every width the contract allows (shorter and LONGER than the field: reduced mod n)
	// - seeded change C20-9-1 kept the reduction of an over-long scalar in a field of
	// the curve object
	{"curve-generic-api", false, func(obj any, g, i int, seed uint64) (string, error) {
		widths := []int{1, 8, 31, 32, 33, 40, 48, 64, 71, 72}
		w := widths[int(gen.Mix(seed, 502, uint64(g), uint64(i))%uint64(len(widths)))]
		k := gen.Fill(gen.Mix(seed, 503, uint64(g), uint64(i)), w)
		c := sm2ec.P256()
		x1, y1 := c.ScalarBaseMult(k)
		k2 := gen.Fill(gen.Mix(seed, 504, uint64(g), uint64(i)), widths[(i+g)%len(widths)])
		x2, y2 := c.ScalarMult(x1, y1, k2)
		x3, y3 := sm2.P256().ScalarMult(x1, y1, k2)
		if x2.Cmp(x3) != 0 || y2.Cmp(y3) != 0 {
			return "", fmt.Errorf("curve singletons disagree on ScalarMult with a %d-byte scalar", len(k2))
		}
		if !c.IsOnCurve(x2, y2) && (x2.Sign() != 0 || y2.Sign() != 0) {
			return "", fmt.Errorf("ScalarMult with a %d-byte scalar returned a point off the curve", len(k2))
		}
		x4, y4 := c.Add(x1, y1, x2, y2)
		x5, y5 := c.Double(x2, y2)
		return x1.Text(16) + y1.Text(16) + x2.Text(16) + y2.Text(16) + x4.Text(16) + y4.Text(16) + x5.Text(16) + y5.Text(16), nil
	}},
}}

// ---------------------------------------------------------------- cert pool

type poolObj struct {
	pool       *smx509.CertPool
	leaves     []*smx509.Certificate
	extraRoots []*smx509.Certificate // further roots with the SAME subject as three roots in the pool
	extraLeaf  []*smx509.Certificate // leaves signed by them
	at         time.Time
}

var (
	pkiOnce  sync.Once
	pkiPEM   []byte   // roots + intermediates as PEM (parsed lazily by the pool)
	pkiLeaf  [][]byte // leaf DER
	pkiXRoot [][]byte // extra same-subject roots, not in the shared pool
	pkiXLeaf [][]byte
)

func buildPKI() {
	pkiOnce.Do(func() {
		nb := time.Date(2020, 1, 1, 0, 0, 0, 0, time.UTC)
		na := time.Date(2045, 1, 1, 0, 0, 0, 0, time.UTC)
		r := gen.NewDetReader(0xC20)
		mk := func(cn string, isCA bool, pub *ecdsa.PublicKey, parent *x509.Certificate, signer any, serial int64) []byte {
			t := &x509.Certificate{SerialNumber: big.NewInt(serial), Subject: pkix.Name{CommonName: cn}, NotBefore: nb, NotAfter: na,
				KeyUsage: x509.KeyUsageCertSign | x509.KeyUsageDigitalSignature, BasicConstraintsValid: true, IsCA: isCA, DNSNames: []string{cn + ".example"}}
			if parent == nil {
				parent = t
			}
			return must(smx509.CreateCertificate(r, t, parent, pub, signer))
		}
		for ri := 0; ri < 3; ri++ {
			rk := must(sm2.GenerateKey(r))
			rootDER := mk(fmt.Sprintf("root%d", ri), true, &rk.PublicKey, nil, rk, int64(10+ri))
			root := must(smx509.ParseCertificate(rootDER)).ToX509()
			pkiPEM = append(pkiPEM, pem.EncodeToMemory(&pem.Block{Type: "CERTIFICATE", Bytes: rootDER})...)
			for li := 0; li < 3; li++ {
				lk := must(sm2.GenerateKey(r))
				pkiLeaf = append(pkiLeaf, mk(fmt.Sprintf("leaf%d-%d", ri, li), false, &lk.PublicKey, root, rk, int64(100+10*ri+li)))
			}
		}
		// a re-keyed CA: five roots with one subject; three go into the shared pool
		// (their per-subject index then has spare capacity), two are added by the
		// goroutines to private clones
		for ri := 0; ri < 5; ri++ {
			rk := must(sm2.GenerateKey(r))
			rootDER := mk("rekeyed", true, &rk.PublicKey, nil, rk, int64(500+ri))
			root := must(smx509.ParseCertificate(rootDER)).ToX509()
			lk := must(sm2.GenerateKey(r))
			leaf := mk(fmt.Sprintf("rekeyed-leaf%d", ri), false, &lk.PublicKey, root, rk, int64(600+ri))
			if ri < 3 {
				pkiPEM = append(pkiPEM, pem.EncodeToMemory(&pem.Block{Type: "CERTIFICATE", Bytes: rootDER})...)
				pkiLeaf = append(pkiLeaf, leaf)
			} else {
				pkiXRoot = append(pkiXRoot, rootDER)
				pkiXLeaf = append(pkiXLeaf, leaf)
			}
		}
	})
}

var kindPool = kind{name: "cert-pool", setup: func(seed uint64) any {
	buildPKI()
	o := &poolObj{pool: smx509.NewCertPool(), at: time.Date(2030, 1, 1, 0, 0, 0, 0, time.UTC)}
	if !o.pool.AppendCertsFromPEM(pkiPEM) { // lazily parsed entries: cold for every iteration
		panic("AppendCertsFromPEM failed")
	}
	for _, l := range pkiLeaf {
		o.leaves = append(o.leaves, must(smx509.ParseCertificate(l)))
	}
	for i := range pkiXRoot {
		o.extraRoots = append(o.extraRoots, must(smx509.ParseCertificate(pkiXRoot[i])))
		o.extraLeaf = append(o.extraLeaf, must(smx509.ParseCertificate(pkiXLeaf[i])))
	}
	return o
}, ops: []op{
	{"verify-leaf", true, func(obj any, g, i int, seed uint64) (string, error) {
		o := obj.(*poolObj)
		leaf := o.leaves[(g*5+i)%len(o.leaves)]
		chains, err := leaf.Verify(smx509.VerifyOptions{Roots: o.pool, CurrentTime: o.at})
		if err != nil {
			return "", fmt.Errorf("Verify of a good leaf failed under concurrency: %v", err)
		}
		return fmt.Sprint(len(chains), len(chains[0]), chains[0][len(chains[0])-1].Subject.CommonName), nil
	}},
	{"clone-add-verify", true, func(obj any, g, i int, seed uint64) (string, error) {
		// every goroutine extends a PRIVATE clone of the shared pool: clones must not
		// share anything writable with the source or with each other
		o := obj.(*poolObj)
		c := o.pool.Clone()
		k := (g + i) % len(o.extraRoots)
		res := ""
		for j := 0; j <= (g+i)%2; j++ { // clones holding different numbers of certificates
			x := (k + j) % len(o.extraRoots)
			c.AddCert(o.extraRoots[x])
			chains, err := o.extraLeaf[x].Verify(smx509.VerifyOptions{Roots: c, CurrentTime: o.at})
			if err != nil {
				return "", fmt.Errorf("leaf of a root added to a private clone does not verify against that clone: %v", err)
			}
			res += fmt.Sprint(len(chains), chains[0][len(chains[0])-1].SerialNumber) + ";"
		}
		if _, err := o.extraLeaf[k].Verify(smx509.VerifyOptions{Roots: o.pool, CurrentTime: o.at}); err == nil {
			return "", fmt.Errorf("a certificate added to a clone became trusted in the shared pool")
		}
		leaf := o.leaves[(g*7+i)%len(o.leaves)]
		if _, err := leaf.Verify(smx509.VerifyOptions{Roots: c, CurrentTime: o.at}); err != nil {
			return "", fmt.Errorf("a leaf of the shared pool does not verify against the clone: %v", err)
		}
		return res + fmt.Sprint(len(c.Subjects())), nil
	}},
	{"pool-read", true, func(obj any, g, i int, seed uint64) (string, error) {
		o := obj.(*poolObj)
		c := o.pool.Clone()
		return fmt.Sprint(len(o.pool.Subjects()), o.pool.Equal(c)), nil
	}},
}}

var kinds = []kind{kindSM2, kindECDH, kindSM9Sign, kindSM9Enc, kindSM4, kindHashCtor, kindPool}

func kindByName(n string) *kind {
	for i := range kinds {
		if kinds[i].name == n {
			return &kinds[i]
		}
	}
	return nil
}

// ---------------------------------------------------------------- running a scenario

func runOps(k *kind, obj any, ops [][]int, seed uint64, concurrent bool) ([][]string, error) {
	res := make([][]string, len(ops))
	errs := make([]error, len(ops))
	one := func(g int) {
		defer func() {
			if p := recover(); p != nil {
				buf := make([]byte, 4096)
				buf = buf[:runtime.Stack(buf, false)]
				errs[g] = fmt.Errorf("panic in goroutine %d: %v\n%s", g, p, buf)
			}
		}()
		for i, oi := range ops[g] {
			s, err := k.ops[oi].f(obj, g, i, seed)
			if err != nil {
				errs[g] = fmt.Errorf("goroutine %d op %d (%s): %v", g, i, k.ops[oi].name, err)
				return
			}
			res[g] = append(res[g], s)
		}
	}
	if !concurrent {
		for g := range ops {
			one(g)
		}
	} else {
		var start, done sync.WaitGroup
		start.Add(1)
		for g := range ops {
			done.Add(1)
			go func(g int) {
				defer done.Done()
				start.Wait() // barrier: everybody's first use happens together
				one(g)
			}(g)
		}
		start.Done()
		done.Wait()
	}
	for _, e := range errs {
		if e != nil {
			return nil, e
		}
	}
	return res, nil
}

func checkConcurrent(c ccase, r *h.Rec) error {
	k := kindByName(c.Kind)
	if k == nil {
		return fmt.Errorf("HARNESS: unknown kind %q", c.Kind)
	}
	r.Label("kind:" + c.Kind)
	r.Label(fmt.Sprintf("procs:%d", c.Procs))
	r.Label(fmt.Sprintf("goroutines:%d", len(c.Ops)))
	firstLazy := 0
	for _, ol := range c.Ops {
		if len(ol) > 0 && k.ops[ol[0]%len(k.ops)].lazy {
			firstLazy++
		}
	}
	r.NTIf(firstLazy >= 2)
	if firstLazy >= 2 {
		r.Label("raced-lazy-init")
	}
	ops := make([][]int, len(c.Ops))
	for g := range c.Ops {
		for _, o := range c.Ops[g] {
			ops[g] = append(ops[g], o%len(k.ops))
			r.Label("op:" + c.Kind + "/" + k.ops[o%len(k.ops)].name)
		}
	}
	old := runtime.GOMAXPROCS(c.Procs)
	defer runtime.GOMAXPROCS(old)
	resetShared()
	conc, err := runOps(k, k.setup(c.Seed), ops, c.Seed, true)
	if err != nil {
		return fmt.Errorf("concurrent run: %v", err)
	}
	if err := checkShared(); err != nil {
		return fmt.Errorf("concurrent run: %v", err)
	}
	resetShared()
	seq, err := runOps(k, k.setup(c.Seed), ops, c.Seed, false)
	if err != nil {
		return fmt.Errorf("HARNESS? sequential run failed: %v", err)
	}
	for g := range conc {
		for i := range conc[g] {
			if conc[g][i] != seq[g][i] {
				return fmt.Errorf("goroutine %d op %d (%s): concurrent result differs from the sequential result of the same call on an identical fresh object:\n concurrent %s\n sequential %s",
					g, i, k.ops[ops[g][i]].name, h.Hex([]byte(conc[g][i])), h.Hex([]byte(seq[g][i])))
			}
		}
	}
	return nil
}

func genCase(kindName string) func(*rapid.T) ccase {
	return func(rt *rapid.T) ccase {
		k := kindByName(kindName)
		g := rapid.IntRange(2, 16).Draw(rt, "goroutines")
		ops := make([][]int, g)
		// most goroutines start with a lazy-initialising op so first use is raced
		for i := range ops {
			n := rapid.IntRange(1, 4).Draw(rt, "nops")
			for j := 0; j < n; j++ {
				ops[i] = append(ops[i], rapid.IntRange(0, len(k.ops)-1).Draw(rt, "op"))
			}
		}
		return ccase{Kind: kindName, Procs: rapid.SampledFrom([]int{2, 4, 16}).Draw(rt, "procs"), Ops: ops, Seed: rapid.Uint64().Draw(rt, "seed")}
	}
}

func runKind(t *testing.T, kindName string, quick, thorough int) {
	if h.Cfg == "purego" {
		// the pure-Go field arithmetic is ~20x slower under the race detector;
		// the lazy-initialisation code under test is the same Go code in both builds
		div := 5
		if kindName == "sm9-sign-key" || kindName == "sm9-encrypt-key" {
			div = 20
		}
		quick, thorough = (quick+div-1)/div, (thorough+div-1)/div
	}
	h.Prop(t, h.P{Name: "concurrent-" + kindName, Quick: quick, Thorough: thorough}, genCase(kindName), checkConcurrent)
}

func TestC20_SM2Key(t *testing.T)     { runKind(t, "sm2-key", 150, 2500) }
func TestC20_ECDHKey(t *testing.T)    { runKind(t, "ecdh-key", 200, 4000) }
func TestC20_SM9SignKey(t *testing.T) { runKind(t, "sm9-sign-key", 60, 800) }
func TestC20_SM9EncKey(t *testing.T)  { runKind(t, "sm9-encrypt-key", 50, 700) }
func TestC20_SM4(t *testing.T)        { runKind(t, "sm4-block-aead", 200, 4000) }
func TestC20_HashCurves(t *testing.T) { runKind(t, "hash-constructors", 200, 4000) }
func TestC20_CertPool(t *testing.T)   { runKind(t, "cert-pool", 100, 1500) }

// Cold-start tests: every process-wide lazily initialised singleton (curve
// parameter singletons, precomputed generator tables) is touched for the first
// time from 16 goroutines at once. The driver runs each Test function - and
// each shard of it - in its own process, so the first case of each is a real
// cold start; the shards multiply the number of cold starts.
func coldTest(t *testing.T, name string, first []string) {
	k := kindByName("hash-constructors")
	idx := func(n string) int {
		for i, o := range k.ops {
			if o.name == n {
				return i
			}
		}
		panic("no op " + n)
	}
	h.Sweep(t, h.P{Name: "cold-" + name}, func(emit func(ccase)) {
		// the first NShards cases are the cold start of each shard's process
		for i := 0; i < h.NShards+h.Scale(3, 12); i++ {
			ops := make([][]int, 16)
			for g := range ops {
				ops[g] = []int{idx(first[(g+i)%len(first)]), idx("sm3"), idx("curves")}
			}
			emit(ccase{Kind: "hash-constructors", Procs: []int{16, 4, 2}[i%3], Ops: ops, Seed: h.Seed*1000 + uint64(i)})
		}
	}, checkConcurrent)
}

func TestC20_ColdCurves(t *testing.T) { coldTest(t, "curves", []string{"curves"}) }
func TestC20_ColdSM2(t *testing.T)    { coldTest(t, "sm2", []string{"sm2-internal-singleton"}) }
func TestC20_ColdSM9(t *testing.T)    { coldTest(t, "sm9", []string{"sm9-internal-singleton"}) }
func TestC20_ColdECDH(t *testing.T)   { coldTest(t, "ecdh", []string{"ecdh-internal-singleton"}) }
func TestC20_ColdMixed(t *testing.T) {
	coldTest(t, "mixed", []string{"sm2-internal-singleton", "sm9-internal-singleton", "ecdh-internal-singleton", "curves", "pkcs-registry"})
}

// TestC20_ColdKeys: the per-object lazy caches, raced right at process start.
func TestC20_ColdKeys(t *testing.T) {
	h.Sweep(t, h.P{Name: "cold-keys"}, func(emit func(ccase)) {
		for _, kn := range []string{"sm9-sign-key", "sm9-encrypt-key", "sm2-key", "ecdh-key", "cert-pool"} {
			k := kindByName(kn)
			for rep := 0; rep < h.NShards; rep++ {
				ops := make([][]int, 16)
				for g := range ops {
					ops[g] = []int{(g + rep) % len(k.ops)}
				}
				emit(ccase{Kind: kn, Procs: 16, Ops: ops, Seed: h.Seed + uint64(rep)})
			}
		}
	}, checkConcurrent)
}
