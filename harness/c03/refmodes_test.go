// Textbook compositions of the block-cipher modes of operation, written from
// the definitions (NIST SP 800-38A, IEEE P1619, GB/T 17964-2021, Schneier 9.10,
// Wang-Feng-Wu HCTR) in the most naive form over any block primitive. They
// share no code with /repo; selftest_test.go validates them over AES against
// the Go standard library, x/crypto/xts and published vectors before they are
// applied to the reference SM4.
package c03

import (
	"math/big"
)

// blk is the only thing a composition may use: the raw block permutation.
type blk interface {
	Encrypt(dst, src []byte)
	Decrypt(dst, src []byte)
}

const bs = 16

func xorb(a, b []byte) []byte { // len(b) >= len(a)
	out := make([]byte, len(a))
	for i := range a {
		out[i] = a[i] ^ b[i]
	}
	return out
}

func encB(b blk, x []byte) []byte {
	o := make([]byte, bs)
	b.Encrypt(o, x[:bs])
	return o
}

func decB(b blk, x []byte) []byte {
	o := make([]byte, bs)
	b.Decrypt(o, x[:bs])
	return o
}

func clone(b []byte) []byte { return append([]byte{}, b...) }

// ---------------------------------------------------------------- SP 800-38A

// refECB: C_i = E(P_i).
func refECB(b blk, dec bool, in []byte) []byte {
	var out []byte
	for off := 0; off < len(in); off += bs {
		if dec {
			out = append(out, decB(b, in[off:])...)
		} else {
			out = append(out, encB(b, in[off:])...)
		}
	}
	return out
}

// refCBC: C_i = E(P_i xor C_{i-1}), C_0 = IV.
func refCBC(b blk, dec bool, iv, in []byte) []byte {
	var out []byte
	prev := clone(iv)
	for off := 0; off < len(in); off += bs {
		cur := in[off : off+bs]
		if dec {
			out = append(out, xorb(decB(b, cur), prev)...)
			prev = clone(cur)
		} else {
			c := encB(b, xorb(cur, prev))
			out = append(out, c...)
			prev = c
		}
	}
	return out
}

// refCFB: CFB-128. O_i = E(I_i), C_i = P_i xor O_i, I_1 = IV, I_{i+1} = C_i;
// a final partial segment uses the leading bytes of O_i.
func refCFB(b blk, dec bool, iv, in []byte) []byte {
	var out []byte
	reg := clone(iv)
	for off := 0; off < len(in); off += bs {
		n := len(in) - off
		if n > bs {
			n = bs
		}
		ks := encB(b, reg)
		seg := xorb(in[off:off+n], ks)
		out = append(out, seg...)
		if n == bs {
			if dec {
				reg = clone(in[off : off+bs])
			} else {
				reg = seg
			}
		}
	}
	return out
}

// refOFB: O_i = E(O_{i-1}), O_0 = IV, C_i = P_i xor O_i.
func refOFB(b blk, iv, in []byte) []byte {
	var out []byte
	reg := clone(iv)
	for off := 0; off < len(in); off += bs {
		n := len(in) - off
		if n > bs {
			n = bs
		}
		reg = encB(b, reg)
		out = append(out, xorb(in[off:off+n], reg)...)
	}
	return out
}

// refCTR: T_i = (IV + i) mod 2^128 as a big-endian integer, C_i = P_i xor E(T_i).
func refCTR(b blk, iv, in []byte) []byte {
	var out []byte
	base := new(big.Int).SetBytes(iv)
	mod := new(big.Int).Lsh(big.NewInt(1), 128)
	for off, i := 0, int64(0); off < len(in); off, i = off+bs, i+1 {
		n := len(in) - off
		if n > bs {
			n = bs
		}
		t := new(big.Int).Add(base, big.NewInt(i))
		t.Mod(t, mod)
		ctr := t.FillBytes(make([]byte, bs))
		out = append(out, xorb(in[off:off+n], encB(b, ctr))...)
	}
	return out
}

// ctrCarries reports which carry chains the counter sequence IV..IV+nblocks-1
// exercises (a wrap of the low 32, 64 or all 128 bits).
func ctrCarries(iv []byte, nblocks int) (c32, c64, c128 bool) {
	if nblocks <= 1 {
		return
	}
	base := new(big.Int).SetBytes(iv)
	last := new(big.Int).Add(base, big.NewInt(int64(nblocks-1)))
	sh := func(x *big.Int, n uint) *big.Int { return new(big.Int).Rsh(x, n) }
	c32 = sh(base, 32).Cmp(sh(last, 32)) != 0
	c64 = sh(base, 64).Cmp(sh(last, 64)) != 0
	c128 = sh(last, 128).Sign() != 0
	return
}

// ---------------------------------------------------------------- GB/T 17964 BC, OFBNLF

// refBC: F_1 = IV, C_i = E(P_i xor F_i), F_{i+1} = F_i xor C_i.
func refBC(b blk, dec bool, iv, in []byte) []byte {
	var out []byte
	f := clone(iv)
	for off := 0; off < len(in); off += bs {
		cur := in[off : off+bs]
		if dec {
			out = append(out, xorb(decB(b, cur), f)...)
			f = xorb(f, cur)
		} else {
			c := encB(b, xorb(cur, f))
			out = append(out, c...)
			f = xorb(f, c)
		}
	}
	return out
}

// refOFBNLF: K_0 = IV, K_i = E_K(K_{i-1}), C_i = E_{K_i}(P_i).
func refOFBNLF(mk func(key []byte) blk, dec bool, key, iv, in []byte) []byte {
	var out []byte
	master := mk(key)
	k := clone(iv)
	for off := 0; off < len(in); off += bs {
		k = encB(master, k)
		sub := mk(k)
		if dec {
			out = append(out, decB(sub, in[off:])...)
		} else {
			out = append(out, encB(sub, in[off:])...)
		}
	}
	return out
}

// ---------------------------------------------------------------- XTS

// The 16-byte tweak is a polynomial over GF(2) modulo x^128+x^7+x^2+x+1.
// IEEE P1619: bit k (k=0 least significant) of byte j is the coefficient of
// x^(8j+k). GB/T 17964-2021: the bits of every byte are taken in the opposite
// order, bit k of byte j is the coefficient of x^(8j+7-k).
func tweakToPoly(t []byte, gb bool) (p [128]byte) {
	for j := 0; j < 16; j++ {
		for k := 0; k < 8; k++ {
			idx := 8*j + k
			if gb {
				idx = 8*j + 7 - k
			}
			p[idx] = (t[j] >> uint(k)) & 1
		}
	}
	return
}

func polyToTweak(p [128]byte, gb bool) []byte {
	t := make([]byte, 16)
	for j := 0; j < 16; j++ {
		for k := 0; k < 8; k++ {
			idx := 8*j + k
			if gb {
				idx = 8*j + 7 - k
			}
			t[j] |= p[idx] << uint(k)
		}
	}
	return t
}

// mulAlpha multiplies the tweak by x; reduced reports whether the x^128 term
// had to be reduced (the "carry" branch of every implementation).
func mulAlpha(t []byte, gb bool) (out []byte, reduced bool) {
	p := tweakToPoly(t, gb)
	var q [128]byte
	for i := 0; i < 127; i++ {
		q[i+1] = p[i]
	}
	if p[127] == 1 {
		reduced = true
		q[0] ^= 1
		q[1] ^= 1
		q[2] ^= 1
		q[7] ^= 1
	}
	return polyToTweak(q, gb), reduced
}

// refXTS: T_0 = E_K2(tweak), T_{j+1} = T_j * x, C_j = E_K1(P_j xor T_j) xor T_j,
// with ciphertext stealing (IEEE P1619 5.3.2/5.4.2) for a final partial block.
// len(in) >= 16. reductions counts how many doublings took the reduce branch.
func refXTS(b1, b2 blk, gb, dec bool, tweak, in []byte) (out []byte, reductions int) {
	t := encB(b2, tweak)
	one := func(x, tw []byte) []byte {
		if dec {
			return xorb(decB(b1, xorb(x, tw)), tw)
		}
		return xorb(encB(b1, xorb(x, tw)), tw)
	}
	next := func(tw []byte) []byte {
		n, red := mulAlpha(tw, gb)
		if red {
			reductions++
		}
		return n
	}
	m := len(in) / bs // full blocks
	r := len(in) % bs
	full := m
	if r != 0 {
		full = m - 1 // the last full block takes part in the stealing
	}
	for j := 0; j < full; j++ {
		out = append(out, one(in[bs*j:bs*j+bs], t)...)
		t = next(t)
	}
	if r == 0 {
		return
	}
	tm1 := t        // T_{m-1}
	tm := next(tm1) // T_m
	lastFull := in[bs*(m-1) : bs*m]
	tail := in[bs*m:]
	if !dec {
		cc := one(lastFull, tm1)
		pp := append(clone(tail), cc[r:]...)
		out = append(out, one(pp, tm)...)
		out = append(out, cc[:r]...)
	} else {
		pp := one(lastFull, tm)
		cc := append(clone(tail), pp[r:]...)
		out = append(out, one(cc, tm1)...)
		out = append(out, pp[:r]...)
	}
	return
}

// ---------------------------------------------------------------- HCTR

// gfMulGCM multiplies two elements of GF(2^128) in the representation used by
// GCM and by GB/T 17964-2021 HCTR (first bit of the string = coefficient of
// x^0, modulus 1+x+x^2+x^7+x^128): NIST SP 800-38D algorithm 1, bit-serial.
func gfMulGCM(x, y []byte) []byte {
	be := func(b []byte) (v uint64) {
		for _, c := range b[:8] {
			v = v<<8 | uint64(c)
		}
		return
	}
	xh, xl := be(x[:8]), be(x[8:16])
	vh, vl := be(y[:8]), be(y[8:16])
	var zh, zl uint64
	for i := 0; i < 128; i++ {
		var bit uint64
		if i < 64 {
			bit = (xh >> uint(63-i)) & 1
		} else {
			bit = (xl >> uint(127-i)) & 1
		}
		if bit == 1 {
			zh ^= vh
			zl ^= vl
		}
		lsb := vl & 1
		vl = vl>>1 | vh<<63
		vh >>= 1
		if lsb == 1 {
			vh ^= 0xe1 << 56
		}
	}
	out := make([]byte, 16)
	for i := 0; i < 8; i++ {
		out[i] = byte(zh >> uint(56-8*i))
		out[8+i] = byte(zl >> uint(56-8*i))
	}
	return out
}

// hctrHash: H_h(M||T) = X_1 h^(m+1) + ... + X_m h^2 + |M||T| h where X is
// M||T padded with zero bits to whole blocks and the last term is the bit
// length of M||T as a 128-bit big-endian integer (Horner form).
//
// kf selects the bug-compatible variant documented as known finding
// KF-C03-hctr-partial-tweak: when M ends in a partial block of r bytes the
// block after "M_tail || T[:16-r]" is built by copying T[r:] (instead of
// T[16-r:]) over the previous block and clearing bytes r..15.
func hctrHash(hkey, m, tweak []byte, kf bool) []byte {
	var x []byte
	r := len(m) % bs
	if !kf || r == 0 {
		x = append(clone(m), tweak...)
		for len(x)%bs != 0 {
			x = append(x, 0)
		}
	} else {
		x = clone(m[:len(m)-r])
		pb := append(clone(m[len(m)-r:]), tweak[:bs-r]...)
		x = append(x, pb...)
		second := clone(pb)
		copy(second, tweak[r:]) // the defective slice expression
		for i := r; i < bs; i++ {
			second[i] = 0
		}
		x = append(x, second...)
	}
	y := make([]byte, bs)
	for off := 0; off < len(x); off += bs {
		y = gfMulGCM(xorb(y, x[off:off+bs]), hkey)
	}
	bits := new(big.Int).SetInt64(int64(len(m)+len(tweak)) * 8)
	y = gfMulGCM(xorb(y, bits.FillBytes(make([]byte, bs))), hkey)
	return y
}

// refHCTR: M = M_1 || N (|M_1| = 16).
//
//	MM = M_1 xor H(N||T); CC = E(MM); S = MM xor CC;
//	D = N xor (E(S xor 1) || E(S xor 2) || ...) truncated; C_1 = CC xor H(D||T).
//
// Decryption runs the same steps with E^-1 in the middle.
func refHCTR(b blk, dec bool, tweak, hkey, in []byte, kf bool) []byte {
	first, rest := in[:bs], in[bs:]
	a := xorb(first, hctrHash(hkey, rest, tweak, kf))
	var c []byte
	if dec {
		c = decB(b, a)
	} else {
		c = encB(b, a)
	}
	s := xorb(a, c)
	var d []byte
	for off, i := 0, int64(1); off < len(rest); off, i = off+bs, i+1 {
		n := len(rest) - off
		if n > bs {
			n = bs
		}
		ctr := xorb(s, big.NewInt(i).FillBytes(make([]byte, bs)))
		d = append(d, xorb(rest[off:off+n], encB(b, ctr))...)
	}
	o1 := xorb(c, hctrHash(hkey, d, tweak, kf))
	return append(o1, d...)
}
