// C03 - cipher modes equal their standard definitions for all lengths and
// call splits. See DESIGN.md section 4, C03.
//
// Every mode is driven through three code paths obtained by wrapping the SM4
// block (native / plain / batched), on guard-page buffers, one-shot and split
// into several calls, and compared with the textbook compositions of
// refmodes_test.go over the reference SM4.
package c03

import (
	"bytes"
	"crypto/cipher"
	"encoding/binary"
	"fmt"
	"runtime"
	"sort"
	"strings"
	"testing"
	"unsafe"

	gcipher "github.com/emmansun/gmsm/cipher"
	"github.com/emmansun/gmsm/sm4"
	"pgregory.net/rapid"
	"verif/harness/gen"
	"verif/harness/h"
	"verif/harness/ref"
)

func TestMain(m *testing.M) { h.Main(m, selfTestModels) }

const kfHCTR = "KF-C03-hctr-partial-tweak"

// ---------------------------------------------------------------- code paths

const (
	pNative  = 0 // the block exactly as sm4.NewCipher returns it (fused assembly where the CPU tier has it)
	pPlain   = 1 // struct{cipher.Block}: every fast-path interface hidden
	pBatched = 2 // only BlockSize/Encrypt/Decrypt + Concurrency/EncryptBlocks/DecryptBlocks
)

var pathNames = []string{"native", "plain", "batched"}

type concBlocks interface {
	Concurrency() int
	EncryptBlocks(dst, src []byte)
	DecryptBlocks(dst, src []byte)
}

type plainBlock struct{ cipher.Block }

// batchBlock exposes the concurrent-blocks interface and nothing else, so the
// batched Go loops of internal/cipher/xts and cipher/hctr.go run instead of
// the fused implementations (on amd64 this is the only way to reach the Go
// batch code that e.g. ppc64x runs natively over the same sm4 block type).
//
// With the tier's own multi-block assembly behind it (nat != nil) the wrapper
// is transparent by default: the caller's slices are handed on untouched,
// exactly what the library's loops would give the sm4 block on an
// architecture without fused XTS. With trim, and always for the synthetic
// widths, one batch is exactly Concurrency() blocks taken from the front.
type batchBlock struct {
	b    cipher.Block
	nat  concBlocks // the block's own multi-block assembly, nil if it has none or a synthetic width is asked for
	conc int
	trim bool
}

func (w *batchBlock) BlockSize() int          { return w.b.BlockSize() }
func (w *batchBlock) Encrypt(dst, src []byte) { w.b.Encrypt(dst, src) }
func (w *batchBlock) Decrypt(dst, src []byte) { w.b.Decrypt(dst, src) }
func (w *batchBlock) Concurrency() int        { return w.conc }

func (w *batchBlock) EncryptBlocks(dst, src []byte) { w.batch(dst, src, false) }
func (w *batchBlock) DecryptBlocks(dst, src []byte) { w.batch(dst, src, true) }

func (w *batchBlock) batch(dst, src []byte, dec bool) {
	n := w.conc * bs
	if len(src) < n || len(dst) < n {
		panic(fmt.Sprintf("batched block handed %d/%d bytes, less than one batch of %d", len(dst), len(src), n))
	}
	if w.nat == nil || w.trim {
		dst, src = dst[:n:n], src[:n:n]
	}
	if w.nat != nil {
		if dec {
			w.nat.DecryptBlocks(dst, src)
		} else {
			w.nat.EncryptBlocks(dst, src)
		}
		return
	}
	for i := 0; i < n; i += bs {
		if dec {
			w.b.Decrypt(dst[i:i+bs], src[i:i+bs])
		} else {
			w.b.Encrypt(dst[i:i+bs], src[i:i+bs])
		}
	}
}

const synthConc = 4 // batch width of the batched path where the tier has no multi-block primitive

func newBlock(path, conc int, trim bool, key []byte) (cipher.Block, error) {
	b, err := sm4.NewCipher(key)
	if err != nil {
		return nil, err
	}
	switch path {
	case pPlain:
		return plainBlock{b}, nil
	case pBatched:
		w := &batchBlock{b: b, conc: conc, trim: trim}
		if conc == 0 {
			if nat, ok := b.(concBlocks); ok {
				w.nat, w.conc = nat, nat.Concurrency()
			} else {
				w.conc = synthConc
			}
		}
		return w, nil
	}
	return b, nil
}

// nativeConc is the batch width of the native block (0: single-block tier).
var nativeConc = func() int {
	b, err := sm4.NewCipher(make([]byte, 16))
	if err != nil {
		panic(err)
	}
	if nat, ok := b.(concBlocks); ok {
		return nat.Concurrency()
	}
	return 0
}()

// ---------------------------------------------------------------- cases

type mcase struct {
	Mode     string // ecb cbc cfb ofb ctr bc ofbnlf xts gbxts hctr
	Dec      bool
	Path     int
	Conc     int    // batched path: 0 = the tier's own batch (4 synthetic if none); >0 = synthetic batch of that many blocks
	Trim     bool   // batched path over the tier's own batch: cut the slices to one batch before handing them on
	KeySeed  uint64 // key = Fill(KeySeed,16); second key (XTS tweak key, HCTR hash key) = Fill(KeySeed+1,16)
	IV       h.B    // IV / initial counter / tweak, 16 bytes (unused for ecb)
	Sector   bool   // XTS: use the ...WithSector constructor (IV = little-endian sector number || 0^64)
	Len      int
	Seed     uint64 // message = Fill(Seed, Len)
	Parts    []int  // lengths of the successive calls on one object; empty = one call
	InPlace  bool   // dst == src
	GStart   bool   // guard page before the start of the buffers instead of after their end
	DstLong  bool   // disjoint only: hand over all of the remaining dst, not just len(src) bytes
	Align    bool   // buffers on the heap at SrcOff/DstOff bytes from a 64-byte-aligned base with canaries on both sides (no guard pages)
	SrcOff   int    // 0..15
	DstOff   int    // 0..15 (in place: dst == src at SrcOff)
	Adj      int    // Align, disjoint: 1 = dst directly behind src in one allocation, 2 = dst directly before src
	IVOff    int    // 0..15: offset of the iv/tweak slice handed to constructors and SetIV from a 64-byte-aligned base (keys at 7*IVOff, 11*IVOff mod 16)
	Scribble bool   // >= 2 calls: run every call through one reused scratch buffer and overwrite everything handed to a call before the next one
	SetIV    bool   // block modes offering SetIV: check that SetIV restarts the chain
	Flip     int    // XTS/HCTR: tweak bit to flip for the sensitivity relation, -1 = none
}

func (c mcase) Key() string {
	return fmt.Sprintf("%s/%v/%d/%d%v/%x/%x/%v/%d/%x/%v/%v%v%v%v/%d", c.Mode, c.Dec, c.Path, c.Conc, c.Trim, c.KeySeed, []byte(c.IV), c.Sector,
		c.Len, c.Seed, c.Parts, c.InPlace, c.GStart, c.DstLong, c.SetIV, c.Flip) + fmt.Sprint(c.Scribble, c.Align, c.SrcOff, c.DstOff, c.Adj, c.IVOff)
}

func (c *mcase) keys() (k1, k2 []byte) { return gen.Fill(c.KeySeed, 16), gen.Fill(c.KeySeed+1, 16) }

func isStream(mode string) bool { return mode == "cfb" || mode == "ofb" || mode == "ctr" }
func isXTS(mode string) bool    { return mode == "xts" || mode == "gbxts" }
func isBlockMode(mode string) bool {
	return mode == "ecb" || mode == "cbc" || mode == "bc" || mode == "ofbnlf"
}
func minLen(mode string) int {
	if isXTS(mode) || mode == "hctr" {
		return bs
	}
	return 0
}
func hasDirection(mode string) bool { return mode != "ofb" && mode != "ctr" }

// model applies the textbook definition over the reference SM4.
func (c *mcase) model(dec bool, iv, in []byte, kf bool) []byte {
	k1, k2 := c.keys()
	b := ref.NewSM4(k1)
	switch c.Mode {
	case "ecb":
		return refECB(b, dec, in)
	case "cbc":
		return refCBC(b, dec, iv, in)
	case "cfb":
		return refCFB(b, dec, iv, in)
	case "ofb":
		return refOFB(b, iv, in)
	case "ctr":
		return refCTR(b, iv, in)
	case "bc":
		return refBC(b, dec, iv, in)
	case "ofbnlf":
		return refOFBNLF(func(k []byte) blk { return ref.NewSM4(k) }, dec, k1, iv, in)
	case "xts", "gbxts":
		out, _ := refXTS(b, ref.NewSM4(k2), c.Mode == "gbxts", dec, iv, in)
		return out
	case "hctr":
		return refHCTR(b, dec, iv, k2, in, kf)
	}
	panic("unknown mode " + c.Mode)
}

// obj is one mode object of the implementation under test.
type obj struct {
	bm  cipher.BlockMode
	st  cipher.Stream
	lp  gcipher.LengthPreservingMode
	dec bool
}

func (o *obj) call(dst, src []byte) {
	switch {
	case o.bm != nil:
		o.bm.CryptBlocks(dst, src)
	case o.st != nil:
		o.st.XORKeyStream(dst, src)
	case o.dec:
		o.lp.DecryptBytes(dst, src)
	default:
		o.lp.EncryptBytes(dst, src)
	}
}

func (o *obj) typeName() string {
	switch {
	case o.bm != nil:
		return fmt.Sprintf("%T", o.bm)
	case o.st != nil:
		return fmt.Sprintf("%T", o.st)
	}
	return fmt.Sprintf("%T", o.lp)
}

// scribble overwrites memory the implementation was handed with garbage: a
// mode object must not keep references into its caller's memory.
func scribble(b []byte) {
	for i := range b {
		b[i] = byte(0xd3 + 29*i)
	}
}

// newObj builds one mode object. The key, IV and tweak slices handed to the
// constructors are private copies that are overwritten as soon as the
// constructor has returned.
//
// Before that they are compared with the original values: no constructor may
// modify an argument slice. The slices sit at chosen offsets from a
// 64-byte-aligned base.
func (c *mcase) newObj(dec bool, iv []byte) (*obj, error) {
	a := c.placeArgs(iv)
	o, err := c.build(dec, a.k1, a.k2, a.iv)
	if err != nil {
		return nil, err
	}
	return o, a.done()
}

// argModified is the error for a constructor or call that changed one of its
// argument slices.
type argModified struct{ what string }

func (e argModified) Error() string { return e.what }

type ctorArgs struct {
	k1, k2, iv    []byte
	wk1, wk2, wiv []byte
	cans          [][]byte
}

func place(v []byte, off int) (data []byte, cans [][]byte) {
	d, pre, post := alignedBuf(len(v), off)
	copy(d, v)
	return d, [][]byte{pre, post}
}

func (c *mcase) placeArgs(iv []byte) *ctorArgs {
	a := &ctorArgs{}
	a.wk1, a.wk2 = c.keys()
	a.wiv = clone(iv)
	var c1, c2, c3 [][]byte
	a.k1, c1 = place(a.wk1, c.IVOff*7%16)
	a.k2, c2 = place(a.wk2, c.IVOff*11%16)
	a.iv, c3 = place(a.wiv, c.IVOff%16)
	a.cans = append(append(c1, c2...), c3...)
	return a
}

// done checks the argument slices after the constructors have returned and
// then overwrites them.
func (a *ctorArgs) done() error {
	var err error
	switch {
	case !bytes.Equal(a.k1, a.wk1):
		err = argModified{fmt.Sprintf("a constructor modified its key argument: %x -> %x", a.wk1, a.k1)}
	case !bytes.Equal(a.k2, a.wk2):
		err = argModified{fmt.Sprintf("a constructor modified its second key (tweak key / hash key) argument: %x -> %x", a.wk2, a.k2)}
	case !bytes.Equal(a.iv, a.wiv):
		err = argModified{fmt.Sprintf("a constructor modified its iv/tweak argument: %x -> %x", a.wiv, a.iv)}
	}
	for _, cn := range a.cans {
		if err == nil && !canaryOK(cn) {
			err = argModified{"a constructor wrote next to one of its argument slices"}
		}
	}
	scribble(a.k1)
	scribble(a.k2)
	scribble(a.iv)
	return err
}

// pair builds two objects of opposite direction from the SAME argument
// slices, firstDec first, and only then checks and overwrites the slices.
func (c *mcase) pair(firstDec bool, iv []byte) (first, second *obj, err error) {
	a := c.placeArgs(iv)
	if first, err = c.build(firstDec, a.k1, a.k2, a.iv); err != nil {
		return
	}
	if second, err = c.build(!firstDec, a.k1, a.k2, a.iv); err != nil {
		return
	}
	err = a.done()
	return
}

func (c *mcase) build(dec bool, k1, k2, iv []byte) (*obj, error) {
	creator := func(k []byte) (cipher.Block, error) { return newBlock(c.Path, c.Conc, c.Trim, k) }
	o := &obj{dec: dec}
	var err error
	if isXTS(c.Mode) {
		sector := c.Sector && bytes.Equal(iv[8:], make([]byte, 8))
		sn := binary.LittleEndian.Uint64(iv[:8])
		gb := c.Mode == "gbxts"
		switch {
		case !gb && !dec && !sector:
			o.bm, err = gcipher.NewXTSEncrypter(creator, k1, k2, iv)
		case !gb && !dec && sector:
			o.bm, err = gcipher.NewXTSEncrypterWithSector(creator, k1, k2, sn)
		case !gb && dec && !sector:
			o.bm, err = gcipher.NewXTSDecrypter(creator, k1, k2, iv)
		case !gb && dec && sector:
			o.bm, err = gcipher.NewXTSDecrypterWithSector(creator, k1, k2, sn)
		case gb && !dec && !sector:
			o.bm, err = gcipher.NewGBXTSEncrypter(creator, k1, k2, iv)
		case gb && !dec && sector:
			o.bm, err = gcipher.NewGBXTSEncrypterWithSector(creator, k1, k2, sn)
		case gb && dec && !sector:
			o.bm, err = gcipher.NewGBXTSDecrypter(creator, k1, k2, iv)
		default:
			o.bm, err = gcipher.NewGBXTSDecrypterWithSector(creator, k1, k2, sn)
		}
		return o, err
	}
	if c.Mode == "ofbnlf" {
		if dec {
			o.bm, err = gcipher.NewOFBNLFDecrypter(creator, k1, iv)
		} else {
			o.bm, err = gcipher.NewOFBNLFEncrypter(creator, k1, iv)
		}
		return o, err
	}
	b, err := creator(k1)
	if err != nil {
		return nil, err
	}
	switch c.Mode {
	case "ecb":
		if dec {
			o.bm = gcipher.NewECBDecrypter(b)
		} else {
			o.bm = gcipher.NewECBEncrypter(b)
		}
	case "cbc":
		if dec {
			o.bm = cipher.NewCBCDecrypter(b, iv)
		} else {
			o.bm = cipher.NewCBCEncrypter(b, iv)
		}
	case "cfb":
		if dec {
			o.st = cipher.NewCFBDecrypter(b, iv)
		} else {
			o.st = cipher.NewCFBEncrypter(b, iv)
		}
	case "ofb":
		o.st = cipher.NewOFB(b, iv)
	case "ctr":
		o.st = cipher.NewCTR(b, iv)
	case "bc":
		if dec {
			o.bm = gcipher.NewBCDecrypter(b, iv)
		} else {
			o.bm = gcipher.NewBCEncrypter(b, iv)
		}
	case "hctr":
		o.lp, err = gcipher.NewHCTR(b, iv, k2)
	default:
		return nil, fmt.Errorf("unknown mode %q", c.Mode)
	}
	return o, err
}

// ---------------------------------------------------------------- running the implementation on guarded buffers

const (
	margin   = 48 // canary bytes on the accessible side of a guarded buffer
	dstExtra = 40 // spare room behind len(src) in a "dst longer than src" destination
	patDst   = 0x5c
	patCan   = 0xa5
)

type bufOpt struct {
	inPlace, gStart, dstLong, scribble bool
	align                              bool // heap buffers at chosen offsets from a 64-byte-aligned base, canaries on both sides
	srcOff, dstOff                     int
	adj                                int // align, disjoint: 1 dst directly behind src, 2 dst directly before src (one allocation)
}

// alignedBuf returns n bytes that start off bytes behind a 64-byte-aligned
// address, with canary strips directly before and after them.
func alignedBuf(n, off int) (data, pre, post []byte) {
	raw := make([]byte, n+2*margin+64+16)
	pad := int((64 - uintptr(unsafe.Pointer(&raw[margin]))%64) % 64)
	start := margin + pad + off
	pre, data, post = raw[start-margin:start], raw[start:start+n:start+n], raw[start+n:start+n+margin]
	for i := range pre {
		pre[i], post[i] = patCan, patCan
	}
	return
}

// bufs is what one call sequence (or, scribbled, one call) works on.
type bufs struct {
	src, dst []byte // dst has `room` bytes; dst == src in place
	cans     [][]byte
	free     func()
}

func provision(n, room int, o bufOpt) bufs {
	if !o.align {
		gs, src, scan := guarded(n, o.gStart, 0)
		b := bufs{src: src, dst: src, cans: [][]byte{scan}, free: gs.Free}
		if !o.inPlace {
			gd, dst, dcan := guarded(room, o.gStart, 1)
			b.dst, b.cans = dst, append(b.cans, dcan)
			b.free = func() { gs.Free(); gd.Free() }
		}
		return b
	}
	nop := func() {}
	switch {
	case o.inPlace:
		d, pre, post := alignedBuf(n, o.srcOff)
		return bufs{d, d, [][]byte{pre, post}, nop}
	case o.adj == 1:
		d, pre, post := alignedBuf(n+room, o.srcOff)
		return bufs{d[:n:n], d[n : n+room : n+room], [][]byte{pre, post}, nop}
	case o.adj == 2:
		d, pre, post := alignedBuf(room+n, o.dstOff)
		return bufs{d[room : room+n : room+n], d[:room:room], [][]byte{pre, post}, nop}
	}
	sd, spre, spost := alignedBuf(n, o.srcOff)
	dd, dpre, dpost := alignedBuf(room, o.dstOff)
	return bufs{sd, dd, [][]byte{spre, spost, dpre, dpost}, nop}
}

func (b *bufs) cansOK() bool {
	for _, c := range b.cans {
		if !canaryOK(c) {
			return false
		}
	}
	return true
}

// Guard-page regions are mapped once per process and reused (mapping four
// fresh regions per call made the kernel the bottleneck); every use
// re-initialises the bytes it hands out, so no information flows between cases.
const regionSize = 3 * 4096

type region struct{ g *gen.Guarded }

func (region) Free() {}

var regionPool [2][3]*gen.Guarded // [guard at start][slot]

type freer interface{ Free() }

// guarded returns n data bytes that touch an inaccessible page at their end
// (or, with gStart, at their start) and a canary strip on the other side.
// slot selects one of the reusable regions (src, dst, third party).
func guarded(n int, gStart bool, slot int) (g freer, data, canary []byte) {
	var B []byte
	if n+margin <= regionSize {
		o := 0
		if gStart {
			o = 1
		}
		if regionPool[o][slot] == nil {
			regionPool[o][slot] = gen.NewGuarded(regionSize, !gStart)
		}
		g = region{}
		B = regionPool[o][slot].B
		if gStart {
			B = B[: n+margin : n+margin]
		} else {
			B = B[regionSize-n-margin:]
		}
	} else {
		fresh := gen.NewGuarded(n+margin, !gStart)
		g, B = fresh, fresh.B
	}
	if gStart {
		data, canary = B[:n:n], B[n:]
	} else {
		canary, data = B[:margin], B[margin:]
	}
	for i := range canary {
		canary[i] = patCan
	}
	return
}

func canaryOK(c []byte) bool {
	for _, x := range c {
		if x != patCan {
			return false
		}
	}
	return true
}

// run feeds msg through one fresh mode object in the given sequence of calls
// and returns the output, or an error if anything outside dst[:len(src)] of a
// call was modified. A read or write beyond the buffers faults on the guard
// page and surfaces as a panic (caught by the harness).
func (c *mcase) run(dec bool, iv, msg []byte, parts []int, o bufOpt) ([]byte, error) {
	ob, err := c.newObj(dec, iv)
	if err != nil {
		if _, ok := err.(argModified); ok {
			return nil, err
		}
		return nil, fmt.Errorf("constructor failed: %v", err)
	}
	n := len(msg)
	if o.scribble && len(parts) >= 2 {
		return c.runScribbled(ob, msg, parts, o)
	}
	// with dstLong the destination has room beyond len(src), which the
	// interfaces allow and promise not to touch
	room := n
	if o.dstLong {
		room = n + dstExtra
	}
	b := provision(n, room, o)
	defer b.free()
	src, dst := b.src, b.dst
	copy(src, msg)
	if !o.inPlace {
		for i := range dst {
			dst[i] = patDst
		}
	}
	if len(parts) == 0 {
		parts = []int{n}
	}
	off := 0
	for i, p := range parts {
		s := src[off : off+p : off+p]
		var d []byte
		switch {
		case o.inPlace:
			d = s
		case o.dstLong:
			d = dst[off:]
		default:
			d = dst[off : off+p : off+p]
		}
		ob.call(d, s)
		off += p
		where := fmt.Sprintf("call %d/%d (%d bytes at offset %d of %d)", i+1, len(parts), p, off-p, n)
		if o.inPlace {
			if !bytes.Equal(src[off:], msg[off:]) {
				return nil, fmt.Errorf("%s, in place: bytes after the slice handed over were modified", where)
			}
		} else {
			for k := off; k < len(dst); k++ {
				if dst[k] != patDst {
					return nil, fmt.Errorf("%s: dst byte %d beyond dst[:len(src)] was written (dst len %d)", where, k, len(d))
				}
			}
			if !bytes.Equal(src, msg) {
				return nil, fmt.Errorf("%s: src was modified", where)
			}
		}
		if !b.cansOK() {
			return nil, fmt.Errorf("%s: bytes next to the buffer were overwritten", where)
		}
	}
	if off != n {
		return nil, fmt.Errorf("harness: parts %v do not add up to %d", parts, n)
	}
	return clone(dst[:n]), nil
}

// runScribbled is the history in which the caller owns one scratch buffer: each
// call gets its input copied into the (reused) guarded scratch regions, the
// output is copied out, and then everything that was handed to the call - src,
// dst including its spare room - is overwritten with garbage before the next
// call. An object that chains from a reference into caller memory instead of
// from its own copy goes wrong here.
func (c *mcase) runScribbled(ob *obj, msg []byte, parts []int, o bufOpt) ([]byte, error) {
	n := len(msg)
	out := make([]byte, 0, n)
	off := 0
	for i, p := range parts {
		room := p
		if o.dstLong {
			room = p + dstExtra
		}
		b := provision(p, room, o)
		s, full := b.src, b.dst
		copy(s, msg[off:off+p])
		d := s
		if !o.inPlace {
			for k := range full {
				full[k] = patDst
			}
			d = full
		}
		ob.call(d, s)
		where := fmt.Sprintf("call %d/%d (%d bytes at offset %d of %d, scratch buffer)", i+1, len(parts), p, off, n)
		var err error
		if !o.inPlace {
			for k := p; k < len(full); k++ {
				if full[k] != patDst {
					err = fmt.Errorf("%s: dst byte %d beyond dst[:len(src)] was written (dst len %d)", where, k, len(full))
					break
				}
			}
			if err == nil && !bytes.Equal(s, msg[off:off+p]) {
				err = fmt.Errorf("%s: src was modified", where)
			}
		}
		if err == nil && !b.cansOK() {
			err = fmt.Errorf("%s: bytes next to the buffer were overwritten", where)
		}
		out = append(out, d[:p]...)
		scribble(s)
		scribble(full)
		b.free()
		if err != nil {
			return nil, err
		}
		off += p
	}
	if off != n {
		return nil, fmt.Errorf("harness: parts %v do not add up to %d", parts, n)
	}
	return out, nil
}

// ---------------------------------------------------------------- the check

func hctrKFClass(n int) bool {
	r := (n - bs) % bs
	return r != 0 && r != 8
}

// bulkWidth is the widest unit the path processes at once (bytes); 16 when it
// only ever works block by block.
func (c *mcase) bulkWidth() int {
	switch c.Path {
	case pNative:
		if nativeConc > 0 {
			return nativeConc * bs
		}
	case pBatched:
		if c.Conc > 0 {
			return c.Conc * bs
		}
		if nativeConc > 0 {
			return nativeConc * bs
		}
		return synthConc * bs
	}
	return bs
}

// smallestBulk is the smallest multi-block step of the path (the fused
// assembly has a 4-block loop in every tier), 0 if there is none.
func (c *mcase) smallestBulk() int {
	switch c.Path {
	case pNative:
		if nativeConc > 0 {
			return 4 * bs
		}
	case pBatched:
		if w := c.bulkWidth(); w > bs {
			return w
		}
	}
	return 0
}

func (c *mcase) valid() error {
	if c.Path < 0 || c.Path > 2 || c.Len < minLen(c.Mode) || c.Conc < 0 || c.Conc > 64 {
		return fmt.Errorf("malformed case")
	}
	if c.Mode != "ecb" && len(c.IV) != bs {
		return fmt.Errorf("malformed case: IV")
	}
	if isBlockMode(c.Mode) && c.Len%bs != 0 {
		return fmt.Errorf("malformed case: length")
	}
	sum := 0
	for i, p := range c.Parts {
		if p < 0 {
			return fmt.Errorf("malformed case: parts")
		}
		if isBlockMode(c.Mode) && p%bs != 0 {
			return fmt.Errorf("malformed case: parts")
		}
		if isXTS(c.Mode) && (p < bs || (p%bs != 0 && i != len(c.Parts)-1)) {
			return fmt.Errorf("malformed case: parts")
		}
		sum += p
	}
	if len(c.Parts) > 0 && (sum != c.Len || c.Mode == "hctr") {
		return fmt.Errorf("malformed case: parts")
	}
	if c.Flip >= 128 {
		return fmt.Errorf("malformed case: flip")
	}
	if c.SrcOff < 0 || c.SrcOff > 15 || c.DstOff < 0 || c.DstOff > 15 || c.IVOff < 0 || c.IVOff > 15 || c.Adj < 0 || c.Adj > 2 {
		return fmt.Errorf("malformed case: alignment")
	}
	return nil
}

const xtsTailClass = "XTS: >=1 full bulk batch followed by a 1..15-byte tail"

func (c *mcase) classify(r *h.Rec, red int) {
	dir := "enc"
	if c.Dec {
		dir = "dec"
	}
	if !hasDirection(c.Mode) {
		dir = "xor"
	}
	r.Label(c.Mode)
	r.Label("%s/%s/%s", c.Mode, dir, pathNames[c.Path])
	r.Label("path=" + pathNames[c.Path])
	if c.Path == pBatched {
		switch {
		case c.Conc > 0:
			r.Label("batched-synthetic-width=%d", c.Conc)
		case nativeConc == 0:
			r.Label("batched-synthetic-width=%d", synthConc)
		case c.Trim:
			r.Label("batched-own-asm-batch,trimmed")
		default:
			r.Label("batched-own-asm-batch,transparent")
		}
	}
	n := c.Len
	bulk := c.bulkWidth()
	switch {
	case n == 0:
		r.Label("len=0")
	case n%bs != 0:
		r.Label("len mod 16 != 0")
	case n%bulk != 0:
		r.Label("len mod 16 == 0, len mod bulk != 0")
	default:
		r.Label("len mod bulk == 0")
	}
	if n >= bulk && bulk > bs {
		r.Label("len>=1 bulk")
	}
	if n > 600 {
		r.Label("len>600")
	}
	switch {
	case n >= 4080 && n <= 4128:
		r.Label("len 4080..4128 (256 blocks +-)")
	case n >= 65519 && n <= 65553:
		r.Label("len 64KiB +-17")
	case n == 131088:
		r.Label("len 128KiB+16")
	case n >= 1048560:
		r.Label("len ~1MiB")
	}
	if len(c.Parts) >= 2 {
		r.Label("calls>=2")
		if c.Scribble {
			r.Label("calls>=2: scratch buffer reused, handed memory scribbled between calls")
		} else {
			r.Label("calls>=2: consecutive parts of one buffer")
		}
		r.Label("calls=%d", len(c.Parts))
	} else {
		r.Label("calls=1")
	}
	if c.IVOff%16 != 0 {
		r.Label("constructor key/iv/tweak slices misaligned")
	}
	switch {
	case c.Align:
		so, do := c.SrcOff, c.DstOff
		switch {
		case c.InPlace:
			do = so
			r.Label("buf=heap+canaries,inplace")
		case c.Adj == 1:
			do = (so + c.Len) % 16
			r.Label("buf=heap+canaries,dst directly behind src")
		case c.Adj == 2:
			room := c.Len
			if c.DstLong {
				room += dstExtra
			}
			so = (do + room) % 16
			r.Label("buf=heap+canaries,dst directly before src")
		default:
			r.Label("buf=heap+canaries,disjoint")
		}
		switch {
		case so%16 != 0 && do%16 != 0:
			r.Label("align: src and dst not 16-byte aligned")
		case so%16 != 0:
			r.Label("align: src not 16-byte aligned")
		case do%16 != 0:
			r.Label("align: dst not 16-byte aligned")
		default:
			r.Label("align: src and dst 16-byte aligned")
		}
	case c.InPlace && c.GStart:
		r.Label("buf=inplace,guard-at-start")
	case c.InPlace:
		r.Label("buf=inplace,guard-at-end")
	case c.GStart:
		r.Label("buf=disjoint,guard-at-start")
	default:
		r.Label("buf=disjoint,guard-at-end")
	}
	if c.DstLong && !c.InPlace {
		r.Label("dst longer than src")
	}
	carry := false
	if c.Mode == "ctr" {
		c32, c64, c128 := ctrCarries(c.IV, (n+bs-1)/bs)
		if c32 {
			r.Label("ctr-carry-2^32")
		}
		if c64 {
			r.Label("ctr-carry-2^64")
		}
		if c128 {
			r.Label("ctr-wrap-2^128")
		}
		carry = c32 || c64 || c128
		for _, bits := range []uint{8, 16, 24} {
			if ctrCarryAt(c.IV, (n+bs-1)/bs, bits) {
				r.Label("ctr-carry-2^%d", bits)
			}
		}
	}
	if isXTS(c.Mode) {
		if red > 0 {
			r.Label("xts-mul2-reduces")
			carry = true
		} else if n > bs {
			r.Label("xts-mul2-never-reduces")
		}
		if c.Sector {
			r.Label("xts-WithSector")
		}
		if n%bs != 0 {
			r.Label("xts-ciphertext-stealing")
			if sb := c.smallestBulk(); sb > 0 && n >= sb {
				r.Label(xtsTailClass)
				if n%sb < bs {
					r.Label("XTS: 1..15-byte tail directly after a bulk batch")
				}
			}
		}
	}
	if c.Mode == "hctr" {
		if hctrKFClass(n) {
			r.Label("hctr (len-16) mod 16 not in {0,8}")
		} else {
			r.Label("hctr (len-16) mod 16 in {0,8}")
		}
		switch blocks := (n - bs + bs - 1) / bs; { // the internal counter runs 1..blocks
		case blocks > 65535:
			r.Label("hctr-counter crosses 65535/65536")
		case blocks > 255:
			r.Label("hctr-counter crosses 255/256")
		}
	}
	r.NTIf(n%bulk != 0 || len(c.Parts) >= 2 || carry)
}

func flipBit(iv []byte, bit int) []byte {
	out := clone(iv)
	out[bit/8] ^= 0x80 >> uint(bit%8)
	return out
}

func checkCase(c mcase, r *h.Rec) error {
	if err := c.valid(); err != nil {
		return nil // only reachable through a hand-edited replay file
	}
	msg := gen.Fill(c.Seed, c.Len)
	iv := []byte(c.IV)
	if c.Mode == "ecb" {
		iv = make([]byte, bs)
	}
	// every model evaluation of this case is over msg; memoise by (tweak, variant)
	memo := map[string][]byte{}
	xtsRed := 0
	modelOf := func(iv []byte, kf bool) []byte {
		key := fmt.Sprintf("%x/%v", iv, kf)
		if w, ok := memo[key]; ok {
			return w
		}
		var w []byte
		if isXTS(c.Mode) {
			k1, k2 := c.keys()
			var red int
			w, red = refXTS(ref.NewSM4(k1), ref.NewSM4(k2), c.Mode == "gbxts", c.Dec, iv, msg)
			if len(memo) == 0 {
				xtsRed = red
			}
		} else {
			w = c.model(c.Dec, iv, msg, kf)
		}
		memo[key] = w
		return w
	}
	modelOf(iv, false)
	c.classify(r, xtsRed)
	desc := func() string {
		k1, k2 := c.keys()
		return fmt.Sprintf("mode=%s dec=%v path=%s conc=%d trim=%v key=%x key2=%x iv=%x len=%d parts=%v inplace=%v guardstart=%v dstlong=%v scribble=%v align=%v(src+%d dst+%d adj=%d iv+%d) msg=%s",
			c.Mode, c.Dec, pathNames[c.Path], c.Conc, c.Trim, k1, k2, iv, c.Len, c.Parts, c.InPlace, c.GStart, c.DstLong, c.Scribble, c.Align, c.SrcOff, c.DstOff, c.Adj, c.IVOff, h.Hex(msg))
	}
	opt := bufOpt{inPlace: c.InPlace, gStart: c.GStart, dstLong: c.DstLong, scribble: c.Scribble,
		align: c.Align, srcOff: c.SrcOff, dstOff: c.DstOff, adj: c.Adj}
	// the other runs of this case use the other in-place/guard arrangement and swap the offsets
	alt := func(inPlace, gStart bool) bufOpt {
		return bufOpt{inPlace: inPlace, gStart: gStart, align: c.Align, srcOff: c.DstOff, dstOff: c.SrcOff, adj: c.Adj}
	}
	// consult the list of known findings at most once per case, so that the
	// evidence counts cases, not oracle calls
	kfAsked, kfOpen := false, false
	known := func() bool {
		if !kfAsked {
			kfAsked, kfOpen = true, r.Known(kfHCTR)
		}
		return kfOpen
	}

	// compare against the definition; for HCTR inputs of the known-finding
	// class the documented wrong behaviour is matched by the second model
	oracle := func(iv, got []byte, what string) (kfHit bool, err error) {
		want := modelOf(iv, false)
		if bytes.Equal(got, want) {
			return false, nil
		}
		if c.Mode == "hctr" && hctrKFClass(len(msg)) && bytes.Equal(got, modelOf(iv, true)) && known() {
			return true, nil
		}
		d := 0
		for d < len(got) && d < len(want) && got[d] == want[d] {
			d++
		}
		return false, fmt.Errorf("%s differs from the textbook definition at byte %d: got %s want %s [%s]", what, d, h.Hex(got[d:]), h.Hex(want[d:]), desc())
	}

	got, err := c.run(c.Dec, iv, msg, c.Parts, opt)
	if err != nil {
		return fmt.Errorf("%v [%s]", err, desc())
	}
	if len(got) != len(msg) {
		return fmt.Errorf("output length %d != input length %d", len(got), len(msg))
	}
	kfHit, err := oracle(iv, got, "output")
	if err != nil {
		return err
	}
	if kfHit {
		r.Label("hctr matches the known-finding model")
	}

	// Decrypt(Encrypt(m)) == m with a fresh object, other buffer arrangement
	invDec := !c.Dec && hasDirection(c.Mode)
	back, err := c.run(invDec, iv, got, nil, alt(!c.InPlace, !c.GStart))
	if err != nil {
		return fmt.Errorf("inverse direction (dec=%v inplace=%v guardstart=%v): %v [%s]", invDec, !c.InPlace, !c.GStart, err, desc())
	}
	if !bytes.Equal(back, msg) {
		d := 0
		for d < len(back) && back[d] == msg[d] {
			d++
		}
		return fmt.Errorf("the inverse direction (fresh object, dec=%v inplace=%v guardstart=%v, one call) applied to the output %s does not give the input back, first difference at byte %d: %s [%s]",
			invDec, !c.InPlace, !c.GStart, h.Hex(got), d, h.Hex(back[d:]), desc())
	}

	// an encrypter and a decrypter built from the SAME key/iv/tweak slices, in
	// either order, are both the textbook objects for those values
	if hasDirection(c.Mode) {
		first, second, err := c.pair(c.Dec, iv)
		if err != nil {
			return fmt.Errorf("building a dec=%v and then a dec=%v object from the same argument slices: %v [%s]", c.Dec, !c.Dec, err, desc())
		}
		in := clone(msg)
		o1 := make([]byte, len(msg))
		first.call(o1, in)
		in2 := clone(got)
		o2 := make([]byte, len(msg))
		second.call(o2, in2)
		if !bytes.Equal(o1, got) || !bytes.Equal(o2, msg) {
			return fmt.Errorf("objects built as a pair (dec=%v first) from the same argument slices differ from objects built alone: %s / %s [%s]", c.Dec, h.Hex(o1), h.Hex(o2), desc())
		}
		if !bytes.Equal(in, msg) || !bytes.Equal(in2, got) {
			return fmt.Errorf("a call modified its src although dst != src [%s]", desc())
		}
	}

	// several calls on one object == one call (model-free form of the split relation)
	if len(c.Parts) >= 2 || c.Mode == "hctr" {
		one, err := c.run(c.Dec, iv, msg, nil, alt(!c.InPlace, c.GStart))
		if err != nil {
			return fmt.Errorf("one-shot run: %v [%s]", err, desc())
		}
		if !bytes.Equal(one, got) {
			return fmt.Errorf("result of calls %v (inplace=%v) differs from one call (inplace=%v): %s vs %s [%s]", c.Parts, c.InPlace, !c.InPlace, h.Hex(got), h.Hex(one), desc())
		}
	}

	// an HCTR object keeps no state between calls: the same object gives the
	// same answer again, also after having processed something else
	if c.Mode == "hctr" {
		ob, err := c.newObj(c.Dec, iv)
		if err != nil {
			return err
		}
		in := clone(msg)
		out := make([]byte, len(msg))
		ob.call(out, in)
		first := clone(out)
		scribble(in)
		scribble(out)
		other := gen.Fill(c.Seed+11, bs+int(c.Seed%40))
		ob.call(make([]byte, len(other)), other)
		scribble(other)
		out2 := make([]byte, len(msg))
		ob.call(out2, msg)
		out = first
		if !bytes.Equal(out, got) || !bytes.Equal(out2, got) {
			return fmt.Errorf("reusing one HCTR object changes its answer: %s / %s vs %s [%s]", h.Hex(out), h.Hex(out2), h.Hex(got), desc())
		}
	}

	// SetIV restarts the chain
	if c.SetIV && (c.Mode == "cbc" || c.Mode == "bc" || c.Mode == "ofbnlf") {
		other := xorb(iv, gen.Fill(c.Seed+7, bs))
		other[0] ^= 1
		ob, err := c.newObj(c.Dec, other)
		if err != nil {
			return err
		}
		if s, ok := ob.bm.(interface{ SetIV([]byte) }); ok {
			r.Label("SetIV")
			var prevOut, prevSnap []byte
			for round := 0; round < 2; round++ {
				ivc, ivcans := place(iv, c.IVOff%16)
				s.SetIV(ivc)
				if !bytes.Equal(ivc, iv) || !canaryOK(ivcans[0]) || !canaryOK(ivcans[1]) {
					return fmt.Errorf("SetIV modified its argument (%x -> %x) or wrote next to it [%s]", iv, ivc, desc())
				}
				scribble(ivc)
				if prevOut != nil {
					if !bytes.Equal(prevOut, prevSnap) {
						return fmt.Errorf("SetIV wrote into the dst of the previous CryptBlocks call [%s]", desc())
					}
					scribble(prevOut)
				}
				in := clone(msg)
				out := make([]byte, len(msg))
				ob.bm.CryptBlocks(out, in)
				if !bytes.Equal(out, got) {
					return fmt.Errorf("after SetIV (round %d) the object does not behave like a fresh one: %s [%s]", round, h.Hex(out), desc())
				}
				scribble(in)
				prevOut, prevSnap = out, clone(out)
			}
		}
	}

	// tweak sensitivity: a different tweak gives a different result
	if c.Flip >= 0 && (isXTS(c.Mode) || c.Mode == "hctr") {
		r.Label("tweak-bit-flip")
		iv2 := flipBit(iv, c.Flip)
		got2, err := c.run(c.Dec, iv2, msg, nil, opt)
		if err != nil {
			return fmt.Errorf("flipped tweak: %v [%s]", err, desc())
		}
		if _, err := oracle(iv2, got2, fmt.Sprintf("output under tweak %x", iv2)); err != nil {
			return err
		}
		if bytes.Equal(got2, got) {
			// only waived for tweak bits the bug-compatible model itself ignores
			waived := false
			if c.Mode == "hctr" && hctrKFClass(c.Len) &&
				bytes.Equal(modelOf(iv, true), modelOf(iv2, true)) && known() {
				waived = true
				r.Label("hctr tweak bit ignored (known finding)")
			}
			if !waived {
				return fmt.Errorf("flipping tweak bit %d (tweak %x -> %x) does not change the output [%s]", c.Flip, iv, iv2, desc())
			}
		}
	}
	return nil
}

// ---------------------------------------------------------------- generators

var modeIdx = map[string]uint64{"ecb": 1, "cbc": 2, "cfb": 3, "ofb": 4, "ctr": 5, "bc": 6, "ofbnlf": 7, "xts": 8, "gbxts": 9, "hctr": 10}

// structured encrypted tweaks: every carry chain of the doubling, both
// reduction branches in both bit orders
var structuredT = []string{
	"ffffffffffffffffffffffffffffffff",
	"80000000000000000000000000000000",
	"00000000000000000000000000000001",
	"00000000000000000000000000000080",
	"01000000000000000000000000000000",
	"ffffffff000000000000000000000000",
	"00000000ffffffff00000000ffffffff",
	"7fffffffffffffffffffffffffffffff",
	"fffffffffffffffffffffffffffffffe",
	"ffffffffffffff7f80ffffffffffffff",
	"00000000000000010000000000000000",
	"00000000000000800000000000000000",
	"00000000000000000100000000000000",
	"00000000000000008000000000000000",
	"00000000000000000000000000000081",
}

// tweakFor returns the tweak whose encryption under the tweak key is T.
func tweakFor(keySeed uint64, T []byte) []byte {
	k2 := gen.Fill(keySeed+1, 16)
	out := make([]byte, bs)
	ref.NewSM4(k2).Decrypt(out, T)
	return out
}

// sweepCases enumerates every admitted length up to the tier bound, smallest
// first, for each direction, path and buffer arrangement.
func sweepCases(mode string, emit func(mcase)) {
	maxLen := h.Scale(600, 4096)
	step := 1
	if isBlockMode(mode) {
		step = bs
	}
	dirs := []bool{false, true}
	if !hasDirection(mode) {
		dirs = []bool{false}
	}
	mi := modeIdx[mode]
	for n := minLen(mode); n <= maxLen; n += step {
		for _, dec := range dirs {
			for path := 0; path < 3; path++ {
				for v := 0; v < 6; v++ {
					// whole-block lengths are always 16-byte aligned in the guard-page
					// buffers, so they get both alignment variants; other lengths
					// are misaligned there already and get one, alternating
					if n%bs != 0 && v >= 4 && (v-4) != (n+path)%2 {
						continue
					}
					c := mcase{Mode: mode, Dec: dec, Path: path, Len: n, Flip: -1}
					if v >= 4 {
						// alignment flavour: nothing 16-byte aligned (guard-page
						// buffers of whole blocks always are); 4 disjoint, 5 in place
						c.Align = true
						c.SrcOff = 1 + (n/bs+3*path)%15
						c.DstOff = 1 + (n/bs*7+path+5)%15
						c.IVOff = 1 + (n+path)%15
						c.Adj = (n/bs + path) % 3
					}
					c.KeySeed = gen.Mix(h.Seed, mi, uint64(n), 1)
					c.Seed = gen.Mix(h.Seed, mi, uint64(n), uint64(v), 2)
					c.InPlace = v&1 == 1
					c.GStart = v&2 == 2 && v < 4
					c.DstLong = (n+v)%3 == 0
					ivSeed := gen.Mix(h.Seed, mi, uint64(n), uint64(v), 3)
					c.IV = gen.Fill(ivSeed, bs)
					switch {
					case mode == "ctr":
						j := (n/3 + 5*v) % 21
						switch (n + v) % 4 {
						case 1:
							c.IV = carryIV(32, j, ivSeed)
						case 2:
							c.IV = carryIV(64, j, ivSeed)
						case 3:
							c.IV = carryIV(128, j, ivSeed)
						}
					case isXTS(mode):
						switch (n + v) % 5 {
						case 1:
							c.Sector = true
							c.IV = sectorTweak(ivSeed >> uint(ivSeed%61))
						case 2:
							c.IV = tweakFor(c.KeySeed, unhex(structuredT[(n/5+v)%len(structuredT)]))
						}
					}
					if (isXTS(mode) || mode == "hctr") && (v == (n+path)%4 || v >= 4) {
						c.Flip = (n*13 + v*37) % 128
						if c.Sector {
							c.Flip %= 64
						}
					}
					c.SetIV = (n/bs+v)%2 == 0
					emit(c)
				}
			}
		}
	}
}

// ctrCarryAt: does the counter sequence IV..IV+nblocks-1 carry out of its low `bits` bits?
func ctrCarryAt(iv []byte, nblocks int, bits uint) bool {
	if nblocks <= 1 {
		return false
	}
	var low uint64
	for _, b := range iv[8:] {
		low = low<<8 | uint64(b)
	}
	mask := uint64(1)<<bits - 1
	return low&mask+uint64(nblocks-1) > mask
}

// boundaryCases: lengths and counters at which a length or counter field
// grows a byte - 256 blocks, 64 KiB, 128 KiB (thorough: 1 MiB) - for every
// mode x direction x path, in place and disjoint, one call and two calls cut
// at a batch boundary.
func boundaryCases(mode string, emit func(mcase)) {
	var lens []int
	add := func(ns ...int) {
		for _, n := range ns {
			if isBlockMode(mode) && n%bs != 0 {
				continue
			}
			dup := false
			for _, m := range lens {
				dup = dup || m == n
			}
			if !dup {
				lens = append(lens, n)
			}
		}
	}
	add(4080, 4095, 4096, 4097, 4112)
	if mode == "hctr" { // 16 + 256 blocks +- : the internal counter reaches 255, 256, 257
		add(4111, 4113, 4127, 4128)
	}
	add(65536-17, 65536-16, 65536-1, 65536, 65536+1, 65536+16, 65536+17)
	if isXTS(mode) {
		for r := 2; r < 16; r++ {
			add(65536 + r)
		}
	}
	add(131072 + 16)
	if mode == "hctr" { // 16 + 65537 blocks + 5 bytes: the internal counter crosses 65535/65536
		add(1048576 + 16 + 16 + 5)
	}
	if h.Thorough() {
		add(1048576-16, 1048576-1, 1048576, 1048576+1, 1048576+16, 1048576+17)
	}
	dirs := []bool{false, true}
	if !hasDirection(mode) {
		dirs = []bool{false}
	}
	mi := modeIdx[mode]
	for li, n := range lens {
		// arrangements: 0 disjoint/one call, 1 in place/two calls, 2 in place/one call, 3 disjoint/two calls
		vs := []int{0, 1, 2, 3}
		switch {
		case n > 1000000:
			vs = []int{li % 4}
		case n > 65537 && n < 65552, n > 131072:
			vs = []int{2 * (li % 2), 2*(li%2) + 1}
		}
		if mode == "hctr" && len(vs) == 4 {
			vs = []int{0, 2, 3}[:2+li%2] // single calls only: the split arrangements would repeat 0 and 2
		}
		for _, dec := range dirs {
			for path := 0; path < 3; path++ {
				for _, v := range vs {
					c := mcase{Mode: mode, Dec: dec, Path: path, Len: n, Flip: -1}
					c.KeySeed = gen.Mix(h.Seed, mi, uint64(n), 11)
					c.Seed = gen.Mix(h.Seed, mi, uint64(n), uint64(v), 12)
					c.InPlace = v == 1 || v == 2
					c.GStart = (li+v)%2 == 1
					if (li+v+path)%3 == 0 {
						c.Align = true
						c.SrcOff = 1 + (li+3*path+v)%15
						c.DstOff = 1 + (7*li+path+5*v)%15
						c.IVOff = 1 + (li+path)%15
						c.Adj = (li + v) % 3
					}
					c.DstLong = v == 3
					ivSeed := gen.Mix(h.Seed, mi, uint64(n), uint64(v), 13)
					c.IV = gen.Fill(ivSeed, bs)
					if v%2 == 1 && mode != "hctr" {
						if cut := (n - 17) / 256 * 256; cut > 0 {
							c.Parts = []int{cut, n - cut}
							c.Scribble = true
						}
					}
					if mode == "ctr" {
						// low 8/16/24/32 bits of the counter wrap inside the message
						nb := (n + bs - 1) / bs
						bits := []int{16, 24, 16, 32, 8, 64}[(li+v+path)%6]
						j := []int{0, 1, 255, 256, nb / 2, nb - 2}[(li+2*v+path)%6]
						if bits == 8 && j > 255 {
							j = 255
						}
						c.IV = carryIV(bits, j, ivSeed)
					}
					if (isXTS(mode) || mode == "hctr") && v == 0 && n < 1000000 {
						c.Flip = (n*13 + path*37) % 128
					}
					emit(c)
				}
			}
		}
	}
}

const rapidMaxLen = 8192

func drawLen(t *rapid.T, mode string) int {
	lo := minLen(mode)
	var n int
	switch rapid.IntRange(0, 9).Draw(t, "lenKind") {
	case 0, 1, 2, 3, 4, 5:
		w := rapid.SampledFrom([]int{16, 64, 128, 256}).Draw(t, "w")
		k := rapid.OneOf(rapid.IntRange(0, 9), rapid.IntRange(0, rapidMaxLen/w)).Draw(t, "k")
		d := rapid.SampledFrom([]int{0, 1, -1, 8, 15, -15, -8}).Draw(t, "d")
		n = k*w + d
	case 6:
		n = rapid.IntRange(0, 80).Draw(t, "small")
	default:
		n = rapid.IntRange(lo, rapidMaxLen).Draw(t, "uniform")
	}
	if n < lo {
		n = lo
	}
	if n > rapidMaxLen {
		n = rapidMaxLen
	}
	if isBlockMode(mode) {
		n -= n % bs
	}
	// the minimum length is hit by every clamp above; keep it rare
	if n == lo && rapid.IntRange(0, 7).Draw(t, "keepMin") != 0 {
		n = lo + bs*rapid.IntRange(1, 12).Draw(t, "bump")
		if !isBlockMode(mode) {
			n += rapid.SampledFrom([]int{0, 1, 8, 15}).Draw(t, "bumpOff")
		}
	}
	return n
}

func clamp(x, lo, hi int) int {
	if x < lo {
		return lo
	}
	if x > hi {
		return hi
	}
	return x
}

func drawParts(t *rapid.T, mode string, n int) []int {
	k := rapid.SampledFrom([]int{1, 1, 2, 2, 3, 4, 5, 6}).Draw(t, "ncalls")
	if k == 1 || mode == "hctr" {
		return nil
	}
	var cuts []int
	nb := n / bs
	for i := 0; i < k-1; i++ {
		var cut int
		switch {
		case isXTS(mode):
			if nb < 2 {
				return nil
			}
			cut = bs * rapid.IntRange(1, nb-1).Draw(t, "cutBlock")
		case isBlockMode(mode):
			cut = bs * rapid.IntRange(0, nb).Draw(t, "cutBlock")
		default:
			switch rapid.IntRange(0, 2).Draw(t, "cutKind") {
			case 0:
				cut = rapid.IntRange(0, n).Draw(t, "cut")
			case 1:
				cut = clamp(bs*rapid.IntRange(0, nb).Draw(t, "cutBlock")+rapid.SampledFrom([]int{0, 1, -1, 15}).Draw(t, "cutOff"), 0, n)
			default: // around the refill boundaries of the 512-byte keystream buffer and the batch widths
				w := rapid.SampledFrom([]int{64, 128, 512}).Draw(t, "cutW")
				cut = clamp(w*rapid.IntRange(0, n/w).Draw(t, "cutK")+rapid.SampledFrom([]int{0, 1, -1, -16, -17}).Draw(t, "cutOff"), 0, n)
			}
		}
		cuts = append(cuts, cut)
	}
	sort.Ints(cuts)
	var parts []int
	prev := 0
	for _, cut := range cuts {
		if isXTS(mode) && cut == prev {
			continue // XTS admits no empty call
		}
		parts = append(parts, cut-prev)
		prev = cut
	}
	parts = append(parts, n-prev)
	if len(parts) < 2 {
		return nil
	}
	return parts
}

func drawIV(t *rapid.T, c *mcase) h.B {
	seed := rapid.Uint64().Draw(t, "ivSeed")
	iv := gen.Fill(seed, bs)
	switch {
	case c.Mode == "ctr":
		kind := rapid.IntRange(0, 4).Draw(t, "ctrKind")
		if kind >= 2 {
			j := rapid.OneOf(rapid.IntRange(0, 20), rapid.IntRange(0, 600)).Draw(t, "j")
			iv = carryIV([]int{32, 64, 128}[kind-2], j, seed)
		}
	case isXTS(c.Mode):
		switch rapid.IntRange(0, 4).Draw(t, "tweakKind") {
		case 2:
			c.Sector = true
			iv = sectorTweak(rapid.OneOf(rapid.Uint64Range(0, 1000), rapid.Uint64()).Draw(t, "sector"))
		case 3, 4:
			T := unhex(rapid.SampledFrom(structuredT).Draw(t, "T"))
			if rapid.Bool().Draw(t, "Tnoise") {
				// keep the structured end, randomise the other half
				copy(T[4:12], gen.Fill(seed, 8))
			}
			iv = tweakFor(c.KeySeed, T)
		}
	}
	return iv
}

func genCase(mode string) func(*rapid.T) mcase {
	return func(t *rapid.T) mcase {
		c := mcase{Mode: mode, Flip: -1}
		c.Path = rapid.IntRange(0, 2).Draw(t, "path")
		if c.Path == pBatched {
			c.Conc = rapid.SampledFrom([]int{0, 0, 0, 0, 1, 2, 3, 4, 8, 16}).Draw(t, "conc")
			c.Trim = c.Conc == 0 && rapid.IntRange(0, 3).Draw(t, "trim") == 0
		}
		if hasDirection(mode) {
			c.Dec = rapid.Bool().Draw(t, "dec")
		}
		c.KeySeed = rapid.Uint64().Draw(t, "keySeed")
		c.Seed = rapid.Uint64().Draw(t, "msgSeed")
		c.Len = drawLen(t, mode)
		c.IV = drawIV(t, &c)
		c.Parts = drawParts(t, mode, c.Len)
		c.InPlace = rapid.Bool().Draw(t, "inPlace")
		c.GStart = rapid.Bool().Draw(t, "guardAtStart")
		c.DstLong = rapid.Bool().Draw(t, "dstLong")
		c.SetIV = rapid.Bool().Draw(t, "setIV")
		if rapid.IntRange(0, 2).Draw(t, "align") == 0 {
			c.Align = true
			offs := rapid.OneOf(rapid.IntRange(0, 15), rapid.SampledFrom([]int{0, 1, 8, 15}))
			c.SrcOff = offs.Draw(t, "srcOff")
			c.DstOff = offs.Draw(t, "dstOff")
			c.Adj = rapid.IntRange(0, 2).Draw(t, "adj")
		}
		if rapid.Bool().Draw(t, "ivMisaligned") {
			c.IVOff = rapid.IntRange(1, 15).Draw(t, "ivOff")
		}
		c.Scribble = len(c.Parts) >= 2 && rapid.IntRange(0, 4).Draw(t, "contiguous") != 0
		if isXTS(mode) || mode == "hctr" {
			hi := 127
			if c.Sector {
				hi = 63
			}
			c.Flip = rapid.IntRange(-1, hi).Draw(t, "flip")
		}
		return c
	}
}

// ---------------------------------------------------------------- tests

// observe records which implementation each path really reached.
func observe(mode string) {
	b, err := sm4.NewCipher(make([]byte, 16))
	if err != nil {
		h.HarnessError("sm4.NewCipher: %v", err)
	}
	bt := fmt.Sprintf("%T", b)
	h.Observe("sm4.block", bt)
	h.Observe("sm4.concurrency", fmt.Sprint(nativeConc))
	// a dispatch override that silently did not take effect must not be
	// counted as coverage of that tier
	switch h.Cfg {
	case "noaes", "purego":
		if bt != "*sm4.sm4Cipher" || nativeConc != 0 {
			h.HarnessError("configuration %s did not select the generic SM4 block (got %s, concurrency %d)", h.Cfg, bt, nativeConc)
		}
	case "noavx2", "noavx":
		if nativeConc != 4 {
			h.HarnessError("configuration %s did not select the 4-block SM4 tier (got %s, concurrency %d)", h.Cfg, bt, nativeConc)
		}
	}
	for path := 0; path < 3; path++ {
		for _, dec := range []bool{false, true} {
			c := mcase{Mode: mode, Path: path}
			o, err := c.newObj(dec, make([]byte, bs))
			if _, modified := err.(argModified); err != nil && !modified {
				h.HarnessError("constructor %s: %v", mode, err)
			}
			d := "enc"
			if dec {
				d = "dec"
			}
			h.Observe(fmt.Sprintf("%s.%s.%s", mode, pathNames[path], d), o.typeName())
		}
	}
}

func family(t *testing.T, mode string, quick, thorough int) {
	observe(mode)
	h.MarkExhaustive(mode + "-lengths")
	h.Sweep(t, h.P{Name: mode + "-lengths", Journal: true}, func(emit func(mcase)) { sweepCases(mode, emit) }, checkCase)
	h.Sweep(t, h.P{Name: mode + "-boundaries", Journal: true}, func(emit func(mcase)) { boundaryCases(mode, emit) }, checkCase)
	h.Prop(t, h.P{Name: mode + "-rapid", Quick: quick, Thorough: thorough, Journal: true}, genCase(mode), checkCase)
}

func TestC03_ECB(t *testing.T)    { family(t, "ecb", 6000, 50000) }
func TestC03_CBC(t *testing.T)    { family(t, "cbc", 8000, 60000) }
func TestC03_CFB(t *testing.T)    { family(t, "cfb", 6000, 40000) }
func TestC03_OFB(t *testing.T)    { family(t, "ofb", 5000, 40000) }
func TestC03_CTR(t *testing.T)    { family(t, "ctr", 10000, 80000) }
func TestC03_BC(t *testing.T)     { family(t, "bc", 6000, 40000) }
func TestC03_OFBNLF(t *testing.T) { family(t, "ofbnlf", 3000, 20000) }
func TestC03_XTS(t *testing.T)    { family(t, "xts", 8000, 60000) }
func TestC03_GBXTS(t *testing.T)  { family(t, "gbxts", 8000, 60000) }
func TestC03_HCTR(t *testing.T)   { family(t, "hctr", 3000, 30000) }

// ---------------------------------------------------------------- documented panics

type panicCase struct {
	Mode string
	Dec  bool
	Path int
	Len  int
	Kind string // dst+1 dst+15 dst+16 dst-1 (inexact overlap), short (len(dst) = len(src)-1)
	Seed uint64
}

// checkPanics: inexact overlap and a too short dst are documented to panic;
// the call must do so in an orderly way - no memory fault, nothing written
// next to the buffers.
func checkPanics(c panicCase, r *h.Rec) error {
	r.Label("panic/" + c.Kind)
	r.Label("panic/" + c.Mode)
	r.NT()
	mc := mcase{Mode: c.Mode, Path: c.Path, KeySeed: c.Seed, IV: gen.Fill(c.Seed+3, bs)}
	ob, err := mc.newObj(c.Dec, mc.IV)
	if err != nil {
		return err
	}
	n := c.Len
	msg := gen.Fill(c.Seed, n)
	var dst, src []byte
	var cans [][]byte
	var spare, spareWant []byte
	switch c.Kind {
	case "short":
		gs, s, sc := guarded(n, false, 0)
		defer gs.Free()
		gd, d, dc := guarded(n-1, false, 1)
		defer gd.Free()
		copy(s, msg)
		src, dst, cans = s, d, [][]byte{sc, dc}
	case "shortcap", "emptycap":
		// a too short dst that HAS room behind its length (seeded change C03-8-1: a
		// reslice dst[:len(src)] before the length check turns the documented panic
		// into a write behind len(dst)); the spare capacity is caller memory
		gs, s, sc := guarded(n, false, 0)
		defer gs.Free()
		copy(s, msg)
		heap := gen.Fill(c.Seed^0x5ca1ab1e, n+64)
		spareWant = append([]byte{}, heap...)
		keep := n - 1
		if c.Kind == "emptycap" {
			keep = 0
		}
		src, dst, cans = s, heap[:keep], [][]byte{sc}
		spare = heap[keep:]
		spareWant = spareWant[keep:]
	default:
		shift := map[string]int{"dst+1": 1, "dst+15": 15, "dst+16": 16, "dst-1": -1}[c.Kind]
		a := shift
		if a < 0 {
			a = -a
		}
		g, buf, can := guarded(n+a, false, 2)
		defer g.Free()
		cans = [][]byte{can}
		if shift > 0 {
			src, dst = buf[:n:n], buf[shift:shift+n]
		} else {
			dst, src = buf[:n:n], buf[a:a+n]
		}
		copy(src, msg)
	}
	var pv any
	panicked := false
	func() {
		defer func() {
			if pv = recover(); pv != nil {
				panicked = true
			}
		}()
		ob.call(dst, src)
	}()
	what := fmt.Sprintf("mode=%s dec=%v path=%s len=%d kind=%s", c.Mode, c.Dec, pathNames[c.Path], n, c.Kind)
	if !bytes.Equal(spare, spareWant) {
		return fmt.Errorf("call with a dst of %d bytes (src %d bytes) wrote behind len(dst) into the caller's spare capacity [%s]", len(dst), n, what)
	}
	if !panicked {
		return fmt.Errorf("call with %s did not panic although the interface documents that it does [%s]", c.Kind, what)
	}
	if e, ok := pv.(runtime.Error); ok {
		s := e.Error()
		if strings.Contains(s, "fault address") || strings.Contains(s, "invalid memory address") {
			return fmt.Errorf("call with %s hit a memory fault instead of an orderly panic: %v [%s]", c.Kind, e, what)
		}
	}
	for _, can := range cans {
		if !canaryOK(can) {
			return fmt.Errorf("call with %s wrote next to the buffers before panicking [%s]", c.Kind, what)
		}
	}
	return nil
}

func TestC03_Panics(t *testing.T) {
	modes := []string{"ecb", "cbc", "cfb", "ofb", "ctr", "bc", "ofbnlf", "xts", "gbxts", "hctr"}
	h.Sweep(t, h.P{Name: "documented-panics", Journal: true}, func(emit func(panicCase)) {
		for _, n := range []int{16, 32, 33, 64, 65, 128, 129, 144, 256, 272, 528} {
			for _, mode := range modes {
				if isBlockMode(mode) && n%bs != 0 {
					continue
				}
				for _, dec := range []bool{false, true} {
					if dec && !hasDirection(mode) {
						continue
					}
					for path := 0; path < 3; path++ {
						for _, kind := range []string{"dst+1", "dst+15", "dst+16", "dst-1", "short", "shortcap", "emptycap"} {
							if kind == "dst+16" && n <= 16 {
								continue // adjacent, not overlapping
							}
							emit(panicCase{mode, dec, path, n, kind, gen.Mix(h.Seed, uint64(n), modeIdx[mode])})
						}
					}
				}
			}
		}
	}, checkPanics)
}
