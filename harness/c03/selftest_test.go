package c03

import (
	"bytes"
	"crypto/aes"
	"crypto/cipher"
	"encoding/binary"
	"encoding/hex"
	"fmt"

	"golang.org/x/crypto/xts"
	"verif/harness/gen"
	"verif/harness/ref"
)

func unhex(s string) []byte {
	b, err := hex.DecodeString(s)
	if err != nil {
		panic(err)
	}
	return b
}

func mustAES(key []byte) cipher.Block {
	b, err := aes.NewCipher(key)
	if err != nil {
		panic(err)
	}
	return b
}

func sectorTweak(sector uint64) []byte {
	t := make([]byte, 16)
	binary.LittleEndian.PutUint64(t, sector)
	return t
}

// selfTestModels validates every composition of refmodes_test.go before it is
// used as an oracle. Nothing here touches the implementation under test.
func selfTestModels() error {
	if err := ref.SelfTestSM4(false); err != nil {
		return err
	}
	for _, st := range []func() error{stSP80038A, stStdlibAES, stXTSAES, stXTSVectors, stGF, stSM4Vectors, stStructural} {
		if err := st(); err != nil {
			return err
		}
	}
	return nil
}

const nistP = "6bc1bee22e409f96e93d7e117393172aae2d8a571e03ac9c9eb76fac45af8e5130c81c46a35ce411e5fbc1191a0a52eff69f2445df4f9b17ad2b417be66c3710"

// NIST SP 800-38A appendix F (AES-128).
func stSP80038A() error {
	b := mustAES(unhex("2b7e151628aed2a6abf7158809cf4f3c"))
	p := unhex(nistP)
	iv := unhex("000102030405060708090a0b0c0d0e0f")
	ctr := unhex("f0f1f2f3f4f5f6f7f8f9fafbfcfdfeff")
	type v struct {
		name string
		enc  func() []byte
		dec  func(c []byte) []byte
		want string
	}
	vs := []v{
		{"F.1.1 ECB-AES128", func() []byte { return refECB(b, false, p) }, func(c []byte) []byte { return refECB(b, true, c) },
			"3ad77bb40d7a3660a89ecaf32466ef97f5d3d58503b9699de785895a96fdbaaf43b1cd7f598ece23881b00e3ed0306887b0c785e27e8ad3f8223207104725dd4"},
		{"F.2.1 CBC-AES128", func() []byte { return refCBC(b, false, iv, p) }, func(c []byte) []byte { return refCBC(b, true, iv, c) },
			"7649abac8119b246cee98e9b12e9197d5086cb9b507219ee95db113a917678b273bed6b8e3c1743b7116e69e222295163ff1caa1681fac09120eca307586e1a7"},
		{"F.3.13 CFB128-AES128", func() []byte { return refCFB(b, false, iv, p) }, func(c []byte) []byte { return refCFB(b, true, iv, c) },
			"3b3fd92eb72dad20333449f8e83cfb4ac8a64537a0b3a93fcde3cdad9f1ce58b26751f67a3cbb140b1808cf187a4f4dfc04b05357c5d1c0eeac4c66f9ff7f2e6"},
		{"F.4.1 OFB-AES128", func() []byte { return refOFB(b, iv, p) }, func(c []byte) []byte { return refOFB(b, iv, c) },
			"3b3fd92eb72dad20333449f8e83cfb4a7789508d16918f03f53c52dac54ed8259740051e9c5fecf64344f7a82260edcc304c6528f659c77866a510d9c1d6ae5e"},
		{"F.5.1 CTR-AES128", func() []byte { return refCTR(b, ctr, p) }, func(c []byte) []byte { return refCTR(b, ctr, c) },
			"874d6191b620e3261bef6864990db6ce9806f66b7970fdff8617187bb9fffdff5ae4df3edbd5d35e5b4f09020db03eab1e031dda2fbe03d1792170a0f3009cee"},
	}
	for _, x := range vs {
		c := x.enc()
		if !bytes.Equal(c, unhex(x.want)) {
			return fmt.Errorf("SP 800-38A %s: model gives %x", x.name, c)
		}
		if !bytes.Equal(x.dec(c), p) {
			return fmt.Errorf("SP 800-38A %s: model decryption does not invert", x.name)
		}
	}
	return nil
}

// carryIV returns 2^bits-1-j as a 128-bit big-endian value, the bytes above
// `bits` filled from seed.
func carryIV(bits int, j int, seed uint64) []byte {
	iv := gen.Fill(seed, 16)
	n := bits / 8
	for i := 16 - n; i < 16; i++ {
		iv[i] = 0xff
	}
	// subtract j from the low n bytes (j is small, never borrows out of them)
	borrow := j
	for i := 15; i >= 16-n && borrow > 0; i-- {
		d := borrow & 0xff
		borrow >>= 8
		if int(iv[i]) < d {
			iv[i] = byte(int(iv[i]) + 256 - d)
			borrow++
		} else {
			iv[i] -= byte(d)
		}
	}
	return iv
}

// Agreement with crypto/cipher over AES-128/256 on many lengths, including
// counters that wrap at 32, 64 and 128 bits.
func stStdlibAES() error {
	for trial := 0; trial < 60; trial++ {
		seed := uint64(trial)*7919 + 11
		key := gen.Fill(seed, 16+16*(trial%2))
		b := mustAES(key)
		n := []int{0, 1, 15, 16, 17, 31, 32, 33, 47, 64, 100, 255, 256, 257, 511, 512, 513, 1000}[trial%18]
		msg := gen.Fill(seed+1, n)
		iv := gen.Fill(seed+2, 16)
		switch trial % 4 {
		case 1:
			iv = carryIV(32, trial%5, seed+3)
		case 2:
			iv = carryIV(64, trial%7, seed+3)
		case 3:
			iv = carryIV(128, trial%3, seed+3)
		}
		out := make([]byte, n)
		cipher.NewCTR(b, iv).XORKeyStream(out, msg)
		if got := refCTR(b, iv, msg); !bytes.Equal(got, out) {
			return fmt.Errorf("refCTR != crypto/cipher CTR over AES (n=%d iv=%x)", n, iv)
		}
		cipher.NewOFB(b, iv).XORKeyStream(out, msg)
		if got := refOFB(b, iv, msg); !bytes.Equal(got, out) {
			return fmt.Errorf("refOFB != crypto/cipher OFB over AES (n=%d)", n)
		}
		cipher.NewCFBEncrypter(b, iv).XORKeyStream(out, msg)
		if got := refCFB(b, false, iv, msg); !bytes.Equal(got, out) {
			return fmt.Errorf("refCFB enc != crypto/cipher CFB over AES (n=%d)", n)
		}
		cipher.NewCFBDecrypter(b, iv).XORKeyStream(out, msg)
		if got := refCFB(b, true, iv, msg); !bytes.Equal(got, out) {
			return fmt.Errorf("refCFB dec != crypto/cipher CFB over AES (n=%d)", n)
		}
		nb := n - n%16
		cipher.NewCBCEncrypter(b, iv).CryptBlocks(out[:nb], msg[:nb])
		if got := refCBC(b, false, iv, msg[:nb]); !bytes.Equal(got, out[:nb]) {
			return fmt.Errorf("refCBC enc != crypto/cipher CBC over AES (n=%d)", nb)
		}
		cipher.NewCBCDecrypter(b, iv).CryptBlocks(out[:nb], msg[:nb])
		if got := refCBC(b, true, iv, msg[:nb]); !bytes.Equal(got, out[:nb]) {
			return fmt.Errorf("refCBC dec != crypto/cipher CBC over AES (n=%d)", nb)
		}
	}
	return nil
}

// Agreement with golang.org/x/crypto/xts over AES on block-aligned data units.
func stXTSAES() error {
	for trial := 0; trial < 40; trial++ {
		seed := uint64(trial)*104729 + 5
		klen := 16 + 16*(trial%2)
		key := gen.Fill(seed, 2*klen)
		c, err := xts.NewCipher(aes.NewCipher, key)
		if err != nil {
			return err
		}
		n := 16 * (1 + (trial*7)%40)
		msg := gen.Fill(seed+1, n)
		sector := gen.Mix(seed, 9)
		if trial%3 == 0 {
			sector = uint64(trial)
		}
		want := make([]byte, n)
		c.Encrypt(want, msg, sector)
		b1, b2 := mustAES(key[:klen]), mustAES(key[klen:])
		got, _ := refXTS(b1, b2, false, false, sectorTweak(sector), msg)
		if !bytes.Equal(got, want) {
			return fmt.Errorf("refXTS enc != x/crypto/xts over AES (n=%d sector=%d)", n, sector)
		}
		c.Decrypt(want, msg, sector)
		got, _ = refXTS(b1, b2, false, true, sectorTweak(sector), msg)
		if !bytes.Equal(got, want) {
			return fmt.Errorf("refXTS dec != x/crypto/xts over AES (n=%d sector=%d)", n, sector)
		}
	}
	return nil
}

// IEEE P1619 annex B vectors (AES), including data units with a partial final
// block (vectors 15-18 and the 25-byte units), and the GB/T 17964-2021 B.7
// example (SM4, GB bit order, 3 blocks + 8 bytes).
func stXTSVectors() error {
	type v struct {
		name   string
		key    string
		sector uint64
		pt, ct string
	}
	vs := []v{
		{"P1619 vector 1", "0000000000000000000000000000000000000000000000000000000000000000", 0,
			"0000000000000000000000000000000000000000000000000000000000000000",
			"917cf69ebd68b2ec9b9fe9a3eadda692cd43d2f59598ed858c02c2652fbf922e"},
		{"P1619 vector 2", "1111111111111111111111111111111122222222222222222222222222222222", 0x3333333333,
			"4444444444444444444444444444444444444444444444444444444444444444",
			"c454185e6a16936e39334038acef838bfb186fff7480adc4289382ecd6d394f0"},
		{"P1619 vector 3", "fffefdfcfbfaf9f8f7f6f5f4f3f2f1f022222222222222222222222222222222", 0x3333333333,
			"4444444444444444444444444444444444444444444444444444444444444444",
			"af85336b597afc1a900b2eb21ec949d292df4c047e0b21532186a5971a227a89"},
		{"P1619 vector 15 (17 bytes)", "fffefdfcfbfaf9f8f7f6f5f4f3f2f1f0bfbebdbcbbbab9b8b7b6b5b4b3b2b1b0", 0x123456789a,
			"000102030405060708090a0b0c0d0e0f10", "6c1625db4671522d3d7599601de7ca09ed"},
		{"P1619 vector 16 (18 bytes)", "fffefdfcfbfaf9f8f7f6f5f4f3f2f1f0bfbebdbcbbbab9b8b7b6b5b4b3b2b1b0", 0x123456789a,
			"000102030405060708090a0b0c0d0e0f1011", "d069444b7a7e0cab09e24447d24deb1fedbf"},
		{"P1619 vector 17 (19 bytes)", "fffefdfcfbfaf9f8f7f6f5f4f3f2f1f0bfbebdbcbbbab9b8b7b6b5b4b3b2b1b0", 0x123456789a,
			"000102030405060708090a0b0c0d0e0f101112", "e5df1351c0544ba1350b3363cd8ef4beedbf9d"},
		{"P1619 vector 18 (20 bytes)", "fffefdfcfbfaf9f8f7f6f5f4f3f2f1f0bfbebdbcbbbab9b8b7b6b5b4b3b2b1b0", 0x123456789a,
			"000102030405060708090a0b0c0d0e0f10111213", "9d84c813f719aa2c7be3f66171c7c5c2edbf9dac"},
		{"XTS-AES-128 25-byte unit a", "c46acc2e7e013cb71cdbf750cf76b000249fbf4fb6cd17607773c23ffa2c4330", 94,
			"7e9c2289cba460e470222953439cdaa892a5433d4dab2a3f67", "9af624641d42b036377ef37b4a158f49e49f6ee308ad449ecf"},
		{"XTS-AES-128 25-byte unit b", "56ffcc9bbbdf413f0fc0f888f44b7493bb1925a39b8adf02d9009bb16db0a887", 144,
			"9a839cc14363bafcfc0cc93b14f8e769d35b94cc98267438e3", "fbd8dcfc4d662259f48b151728c3b37233a35127a77051ee9d"},
		{"XTS-AES-128 25-byte unit c", "7454a43b87b1cf0dec95032c22873be3cace3bb795568854c1a008c07c5813f3", 108,
			"41088fa15195b2733fe824d2c1fdc8306080863945fb2a73cf", "f916d877f817ae390f42dc54723bda0ad3ba5f331a72d05ccb"},
	}
	for _, x := range vs {
		key := unhex(x.key)
		b1, b2 := mustAES(key[:len(key)/2]), mustAES(key[len(key)/2:])
		pt, ct := unhex(x.pt), unhex(x.ct)
		if got, _ := refXTS(b1, b2, false, false, sectorTweak(x.sector), pt); !bytes.Equal(got, ct) {
			return fmt.Errorf("refXTS %s: encrypt gives %x", x.name, got)
		}
		if got, _ := refXTS(b1, b2, false, true, sectorTweak(x.sector), ct); !bytes.Equal(got, pt) {
			return fmt.Errorf("refXTS %s: decrypt gives %x", x.name, got)
		}
	}
	// GB/T 17964-2021 B.7 (marked as such in /repo/cipher/xts_sm4_test.go)
	key := unhex("2B7E151628AED2A6ABF7158809CF4F3C000102030405060708090A0B0C0D0E0F")
	tweak := unhex("F0F1F2F3F4F5F6F7F8F9FAFBFCFDFEFF")
	pt := unhex("6BC1BEE22E409F96E93D7E117393172AAE2D8A571E03AC9C9EB76FAC45AF8E5130C81C46A35CE411E5FBC1191A0A52EFF69F2445DF4F9B17")
	ct := unhex("E9538251C71D7B80BBE4483FEF497BD12C5C581BD6242FC51E08964FB4F60FDB0BA42F63499279213D318D2C11F6886E903BE7F93A1B3479")
	b1, b2 := ref.NewSM4(key[:16]), ref.NewSM4(key[16:])
	if got, _ := refXTS(b1, b2, true, false, tweak, pt); !bytes.Equal(got, ct) {
		return fmt.Errorf("refXTS GB/T 17964-2021 B.7: encrypt gives %x", got)
	}
	if got, _ := refXTS(b1, b2, true, true, tweak, ct); !bytes.Equal(got, pt) {
		return fmt.Errorf("refXTS GB/T 17964-2021 B.7: decrypt gives %x", got)
	}
	return nil
}

// The GF(2^128) multiply of the HCTR model is the GCM one: rebuild the GCM
// tag from it over AES and compare with crypto/cipher (plus SP 800-38D /
// McGrew-Viega test case 2), and tie it to the GB/T XTS doubling.
func stGF() error {
	ghash := func(hk, aad, ct []byte) []byte {
		y := make([]byte, 16)
		feed := func(d []byte) {
			for off := 0; off < len(d); off += 16 {
				blk := make([]byte, 16)
				copy(blk, d[off:])
				y = gfMulGCM(xorb(y, blk), hk)
			}
		}
		feed(aad)
		feed(ct)
		l := make([]byte, 16)
		binary.BigEndian.PutUint64(l, uint64(len(aad))*8)
		binary.BigEndian.PutUint64(l[8:], uint64(len(ct))*8)
		return gfMulGCM(xorb(y, l), hk)
	}
	tag := func(b cipher.Block, nonce, aad, ct []byte) []byte {
		hk := encB(b, make([]byte, 16))
		j0 := append(clone(nonce), 0, 0, 0, 1)
		return xorb(ghash(hk, aad, ct), encB(b, j0))
	}
	zero := mustAES(make([]byte, 16))
	if got := tag(zero, make([]byte, 12), nil, unhex("0388dace60b6a392f328c2b971b2fe78")); !bytes.Equal(got, unhex("ab6e47d42cec13bdf53a67b21257bddf")) {
		return fmt.Errorf("gfMulGCM: GCM test case 2 tag = %x", got)
	}
	for trial := 0; trial < 24; trial++ {
		seed := uint64(trial)*31337 + 3
		b := mustAES(gen.Fill(seed, 16))
		g, err := cipher.NewGCM(b)
		if err != nil {
			return err
		}
		nonce := gen.Fill(seed+1, 12)
		aad := gen.Fill(seed+2, (trial*5)%37)
		pt := gen.Fill(seed+3, (trial*13)%70)
		sealed := g.Seal(nil, nonce, pt, aad)
		ct, want := sealed[:len(pt)], sealed[len(pt):]
		if got := tag(b, nonce, aad, ct); !bytes.Equal(got, want) {
			return fmt.Errorf("gfMulGCM: GCM tag rebuilt from the model differs from crypto/cipher (trial %d)", trial)
		}
	}
	// x (the polynomial "x") is 0x40 00..00 in this representation; multiplying
	// by it is the GB/T 17964 XTS doubling.
	x := make([]byte, 16)
	x[0] = 0x40
	for trial := 0; trial < 64; trial++ {
		t := gen.Fill(uint64(trial)+77, 16)
		if trial%4 == 0 {
			t[15] |= 1
		}
		d, _ := mulAlpha(t, true)
		if !bytes.Equal(d, gfMulGCM(t, x)) {
			return fmt.Errorf("mulAlpha(GB) disagrees with gfMulGCM(t, x) for %x", t)
		}
	}
	return nil
}

// SM4 mode examples of draft-ribose-cfrg-sm4 (appendix A.2), over the
// reference SM4.
func stSM4Vectors() error {
	b := ref.NewSM4(unhex("0123456789abcdeffedcba9876543210"))
	iv := unhex("000102030405060708090a0b0c0d0e0f")
	p32 := unhex("aaaaaaaabbbbbbbbccccccccddddddddeeeeeeeeffffffffaaaaaaaabbbbbbbb")
	p64 := unhex("aaaaaaaaaaaaaaaabbbbbbbbbbbbbbbbccccccccccccccccddddddddddddddddeeeeeeeeeeeeeeeeffffffffffffffffaaaaaaaaaaaaaaaabbbbbbbbbbbbbbbb")
	chk := func(name string, got []byte, want string) error {
		if !bytes.Equal(got, unhex(want)) {
			return fmt.Errorf("draft-ribose-cfrg-sm4 %s: model gives %x", name, got)
		}
		return nil
	}
	for _, e := range []error{
		chk("A.2.1.1 SM4-ECB", refECB(b, false, p32), "5ec8143de509cff7b5179f8f474b86192f1d305a7fb17df985f81c8482192304"),
		chk("A.2.2.1 SM4-CBC", refCBC(b, false, iv, p32), "78ebb11cc40b0a48312aaeb2040244cb4cb7016951909226979b0d15dc6a8f6d"),
		chk("A.2.3.1 SM4-OFB", refOFB(b, iv, p32), "ac3236cb861dd316e6413b4e3c7524b71d01aca2487ca582cbf5463e6698539b"),
		chk("A.2.4.1 SM4-CFB", refCFB(b, false, iv, p32), "ac3236cb861dd316e6413b4e3c7524b769d4c54ed433b9a0346009beb37b2b3f"),
		chk("A.2.5.1 SM4-CTR", refCTR(b, iv, p64), "ac3236cb970cc20791364c395a1342d1a3cbc1878c6f30cd074cce385cdd70c7f234bc0e24c11980fd1286310ce37b926e02fcd0faa0baf38b2933851d824514"),
	} {
		if e != nil {
			return e
		}
	}
	return nil
}

// Structural checks of the models that have no independent implementation to
// compare with (BC, OFBNLF, HCTR): inversion, the defining recurrences
// re-expressed through already validated pieces, and the tweak/bit sensitivity
// that distinguishes the correct HCTR hash from the bug-compatible one.
func stStructural() error {
	key := gen.Fill(4242, 16)
	b := ref.NewSM4(key)
	a := mustAES(key)
	mk := func(k []byte) blk { return ref.NewSM4(k) }
	mkA := func(k []byte) blk { return mustAES(k) }
	iv := gen.Fill(4243, 16)
	for nb := 0; nb <= 9; nb++ {
		msg := gen.Fill(uint64(nb)+1, 16*nb)
		for _, bb := range []blk{b, a} {
			c := refBC(bb, false, iv, msg)
			if !bytes.Equal(refBC(bb, true, iv, c), msg) {
				return fmt.Errorf("refBC does not invert (%d blocks)", nb)
			}
			// BC block i is a one-block CBC encryption under IV xor C_1 xor ... xor C_{i-1}
			f := clone(iv)
			for i := 0; i < nb; i++ {
				if !bytes.Equal(refCBC(bb, false, f, msg[16*i:16*i+16]), c[16*i:16*i+16]) {
					return fmt.Errorf("refBC block %d is not E(P xor F)", i)
				}
				f = xorb(f, c[16*i:16*i+16])
			}
		}
		for _, m := range []func([]byte) blk{mk, mkA} {
			c := refOFBNLF(m, false, key, iv, msg)
			if !bytes.Equal(refOFBNLF(m, true, key, iv, c), msg) {
				return fmt.Errorf("refOFBNLF does not invert (%d blocks)", nb)
			}
			// the block keys are the OFB output blocks of the master key
			ks := refOFB(m(key), iv, make([]byte, 16*nb))
			for i := 0; i < nb; i++ {
				if !bytes.Equal(refECB(m(ks[16*i:16*i+16]), false, msg[16*i:16*i+16]), c[16*i:16*i+16]) {
					return fmt.Errorf("refOFBNLF block %d is not E_{K_i}(P_i)", i)
				}
			}
		}
	}
	tweak := gen.Fill(4244, 16)
	hkey := gen.Fill(4245, 16)
	for n := 16; n <= 100; n++ {
		msg := gen.Fill(uint64(n), n)
		r := (n - 16) % 16
		for _, bb := range []blk{b, a} {
			c := refHCTR(bb, false, tweak, hkey, msg, false)
			if len(c) != n || !bytes.Equal(refHCTR(bb, true, tweak, hkey, c, false), msg) {
				return fmt.Errorf("refHCTR does not invert (n=%d)", n)
			}
			ckf := refHCTR(bb, false, tweak, hkey, msg, true)
			if !bytes.Equal(refHCTR(bb, true, tweak, hkey, ckf, true), msg) {
				return fmt.Errorf("bug-compatible refHCTR does not invert (n=%d)", n)
			}
			if same := bytes.Equal(c, ckf); same != (r == 0 || r == 8) {
				return fmt.Errorf("bug-compatible HCTR model equals the correct one = %v for r=%d", same, r)
			}
			// the correct model depends on every tweak bit and every message bit
			for bit := 0; bit < 128; bit += 7 {
				t2 := clone(tweak)
				t2[bit/8] ^= 0x80 >> uint(bit%8)
				if bytes.Equal(refHCTR(bb, false, t2, hkey, msg, false), c) {
					return fmt.Errorf("refHCTR ignores tweak bit %d (n=%d)", bit, n)
				}
			}
			m2 := clone(msg)
			m2[n-1] ^= 1
			c2 := refHCTR(bb, false, tweak, hkey, m2, false)
			if bytes.Equal(c2[:16], c[:16]) {
				return fmt.Errorf("refHCTR: first block does not depend on the last message byte (n=%d)", n)
			}
		}
	}
	return nil
}
