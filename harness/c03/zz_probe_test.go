package c03

import (
	"bytes"
	"crypto/cipher"
	"fmt"
	"testing"

	gcipher "github.com/emmansun/gmsm/cipher"
	"github.com/emmansun/gmsm/sm4"
	"verif/harness/gen"
	"verif/harness/ref"
)

func TestProbeHCTRVectors(t *testing.T) {
	key := unhex("2B7E151628AED2A6ABF7158809CF4F3C")
	hk := unhex("000102030405060708090A0B0C0D0E0F")
	tw := unhex("F0F1F2F3F4F5F6F7F8F9FAFBFCFDFEFF")
	p := unhex(nistP)
	vs := []struct{ n int; ct string }{
		{64, "9cd7481d3b7ca904b14b4084d9d4c83ed39eac8e16747895fc2ae1eecd220276af3d0d2f21cb3807561347c81ad138117dd85c652afe16a47dc68eb884068ae3"},
		{60, "f7505aff357ac13107cdb2848c6bb2dcdda473f7a6ea939d44f52c986c11ca9341042f2b0091a1ca5c8f708cae8ca6a5c59e2228b3616c4455627722"},
		{16, "b7b1dd75f608012dc69621d4ea720a60"},
	}
	for _, v := range vs {
		got := refHCTR(ref.NewSM4(key), false, tw, hk, p[:v.n], false)
		gotKF := refHCTR(ref.NewSM4(key), false, tw, hk, p[:v.n], true)
		fmt.Printf("n=%d model==repo:%v kfmodel==repo:%v\n", v.n, bytes.Equal(got, unhex(v.ct)), bytes.Equal(gotKF, unhex(v.ct)))
	}
	// BC / OFBNLF unmarked repo vectors
	iv := unhex("000102030405060708090A0B0C0D0E0F")
	fmt.Printf("BC model==repo vector: %v\n", bytes.Equal(refBC(ref.NewSM4(key), false, iv, p), unhex("AC529AF989A62FCE9CDDC5FFB84125CAFB8CDE77339FFE481D113C40BBD5B6786FFC9916F98F94FF12D78319707E240428718707605BC1EAC503153EBAA0FB1D")))
	fmt.Printf("OFBNLF model==repo vector: %v\n", bytes.Equal(refOFBNLF(func(k []byte) blk { return ref.NewSM4(k) }, false, key, iv, p), unhex("00A5B5C9E645557C20CE7F267736F308A18037828850B9D78883CA622851F86CB7CAEFDFB6D4CABA6AE2D2FCE369CEB31001DD71FDDA9341F8D221CB720FF27B")))
}

type fwdBlock struct {
	b   cipher.Block
	nat concBlocks
}

func (w *fwdBlock) BlockSize() int                { return 16 }
func (w *fwdBlock) Encrypt(dst, src []byte)       { w.b.Encrypt(dst, src) }
func (w *fwdBlock) Decrypt(dst, src []byte)       { w.b.Decrypt(dst, src) }
func (w *fwdBlock) Concurrency() int              { return w.nat.Concurrency() }
func (w *fwdBlock) EncryptBlocks(dst, src []byte) { w.nat.EncryptBlocks(dst, src) }
func (w *fwdBlock) DecryptBlocks(dst, src []byte) { w.nat.DecryptBlocks(dst, src) }

func TestProbeFwd(t *testing.T) {
	key := gen.Fill(1, 16)
	key2 := gen.Fill(2, 16)
	tw := gen.Fill(3, 16)
	creator := func(k []byte) (cipher.Block, error) {
		b, _ := sm4.NewCipher(k)
		return &fwdBlock{b, b.(concBlocks)}, nil
	}
	fmt.Println("native concurrency", nativeConc)
	for _, gb := range []bool{false} {
		for _, dec := range []bool{false, true} {
			for _, inplace := range []bool{false, true} {
				var bad []int
				for n := 16; n <= 700; n++ {
					msg := gen.Fill(uint64(n), n)
					want, _ := refXTS(ref.NewSM4(key), ref.NewSM4(key2), gb, dec, tw, msg)
					var bm cipher.BlockMode
					if dec {
						bm, _ = gcipher.NewXTSDecrypter(creator, key, key2, tw)
					} else {
						bm, _ = gcipher.NewXTSEncrypter(creator, key, key2, tw)
					}
					src := clone(msg)
					dst := make([]byte, n)
					if inplace {
						dst = src
					}
					bm.CryptBlocks(dst, src)
					if !bytes.Equal(dst, want) {
						bad = append(bad, n)
					}
				}
				fmt.Printf("forwarding wrapper: dec=%v inplace=%v wrong lengths: %v\n", dec, inplace, bad)
			}
		}
	}
}
