package c03

import (
	"encoding/binary"
	"runtime/debug"
	"sort"
	"testing"

	"verif/harness/h"
)

var fuzzModes = []string{"ecb", "cbc", "cfb", "ofb", "ctr", "bc", "ofbnlf", "xts", "gbxts", "hctr"}

// decodeCase turns arbitrary bytes into a well-formed case (mode, direction,
// path, batch width, key, IV/tweak, length, call partition, buffer
// arrangement). Every byte string of at least 40 bytes decodes to a case the
// property quantifies over.
func decodeCase(d []byte) (mcase, bool) {
	if len(d) < 40 {
		return mcase{}, false
	}
	c := mcase{Flip: -1}
	c.Mode = fuzzModes[int(d[0])%len(fuzzModes)]
	f := d[1]
	c.Dec = f&1 != 0 && hasDirection(c.Mode)
	c.InPlace = f&2 != 0
	c.GStart = f&4 != 0
	c.DstLong = f&8 != 0
	c.SetIV = f&16 != 0
	c.Path = int(f>>5) % 3
	if c.Path == pBatched {
		c.Conc = []int{0, 0, 0, 1, 2, 3, 4, 8}[d[2]&7]
		c.Trim = c.Conc == 0 && d[2]&8 != 0
	}
	lo := minLen(c.Mode)
	c.Len = lo + int(binary.LittleEndian.Uint16(d[3:5]))%(2049-lo)
	if isBlockMode(c.Mode) {
		c.Len -= c.Len % bs
	}
	c.KeySeed = binary.LittleEndian.Uint64(d[5:13])
	c.Seed = binary.LittleEndian.Uint64(d[13:21])
	c.IV = append([]byte{}, d[21:37]...)
	if isXTS(c.Mode) && d[2]&16 != 0 {
		c.Sector = true
		for i := 8; i < 16; i++ {
			c.IV[i] = 0
		}
	}
	if isXTS(c.Mode) || c.Mode == "hctr" {
		if d[37]&0x80 == 0 {
			c.Flip = int(d[37] & 0x7f)
			if c.Sector {
				c.Flip %= 64
			}
		}
	}
	// call partition: up to 5 cut points, two bytes each
	if c.Mode != "hctr" {
		var cuts []int
		rest := d[38:]
		for i := 0; i+1 < len(rest) && len(cuts) < 5; i += 2 {
			x := int(binary.LittleEndian.Uint16(rest[i:]))
			switch {
			case isXTS(c.Mode):
				nb := c.Len / bs
				if nb < 2 {
					continue
				}
				cuts = append(cuts, bs*(1+x%(nb-1)))
			case isBlockMode(c.Mode):
				cuts = append(cuts, bs*(x%(c.Len/bs+1)))
			default:
				cuts = append(cuts, x%(c.Len+1))
			}
		}
		sort.Ints(cuts)
		prev := 0
		for _, cut := range cuts {
			if isXTS(c.Mode) && cut == prev {
				continue
			}
			c.Parts = append(c.Parts, cut-prev)
			prev = cut
		}
		if len(c.Parts) > 0 {
			c.Parts = append(c.Parts, c.Len-prev)
		}
	}
	c.Scribble = len(c.Parts) >= 2 && d[2]&32 == 0
	if d[2]&64 != 0 {
		c.Align = true
		c.SrcOff, c.DstOff, c.Adj = int(d[13]&15), int(d[14]&15), int(d[15])%3
	}
	c.IVOff = int(d[16] & 15)
	return c, c.valid() == nil
}

// FuzzC03_Modes: coverage-guided search over (mode, path, key, iv, partition,
// length) decoded from bytes; the oracle is the same checkCase as everywhere.
func FuzzC03_Modes(f *testing.F) {
	seed := func(mode, flags, conc byte, n uint16, cuts ...uint16) {
		d := make([]byte, 38+2*len(cuts))
		d[0], d[1], d[2] = mode, flags, conc
		binary.LittleEndian.PutUint16(d[3:], n)
		for i := 5; i < 38; i++ {
			d[i] = byte(i * 37)
		}
		for i, c := range cuts {
			binary.LittleEndian.PutUint16(d[38+2*i:], c)
		}
		for len(d) < 40 {
			d = append(d, 0)
		}
		f.Add(d)
	}
	for m := byte(0); m < 10; m++ {
		seed(m, 0, 0, 0)
		seed(m, 1, 0, 65-16)           // decrypt, native, 64+1 (49 above the XTS minimum)
		seed(m, 2|64, 0, 256-16, 8, 3) // in place, batched with the tier's own batch
		seed(m, 8|32, 0, 129, 4)       // plain, dst longer than src
		seed(m, 1|64, 3, 600, 100, 200, 300)
	}
	f.Fuzz(func(t *testing.T, data []byte) {
		c, ok := decodeCase(data)
		if !ok {
			return
		}
		old := debug.SetPanicOnFault(true)
		defer debug.SetPanicOnFault(old)
		defer func() {
			if p := recover(); p != nil {
				t.Fatalf("panic: %v\n%s\ncase: %+v", p, debug.Stack(), c)
			}
		}()
		if err := checkCase(c, &h.Rec{}); err != nil {
			t.Fatalf("%v\ncase: %+v", err, c)
		}
	})
}
