// Reference models of the eight block-cipher MACs of GB/T 15852.1-2020
// (schemes 1-6 = ISO/IEC 9797-1:2011 MAC algorithms 1-6, scheme 5 = CMAC of
// NIST SP 800-38B, scheme 7 = TrCBC, scheme 8 = CBCR0), written from the
// definitions in the most naive form: one block at a time, math/big for the
// GF(2^n) doubling, a bit-serial loop for the rotations. Nothing here is
// shared with or derived from /repo; the models are validated in selfTest on
// published vectors before they are used as an oracle.
package c19

import (
	"bytes"
	"crypto/aes"
	"crypto/cipher"
	"crypto/des"
	"encoding/hex"
	"fmt"
	"math/big"

	"verif/harness/ref"
)

// ---------------------------------------------------------------- ciphers

const (
	ciSM4 = iota
	ciAES128
	ciAES256
	ciDES
	ci3DES
	nCiphers
)

var (
	ciphNames  = []string{"sm4", "aes128", "aes256", "des", "3des"}
	ciphKeyLen = []int{16, 16, 32, 8, 24}
	ciphBS     = []int{16, 16, 16, 8, 8}
)

// refCipher is the block cipher used by the models: the shared textbook SM4,
// and the standard library's AES / DES / TDEA.
func refCipher(ci int, key []byte) cipher.Block {
	var b cipher.Block
	var err error
	switch ci {
	case ciSM4:
		return ref.NewSM4(key)
	case ciAES128, ciAES256:
		b, err = aes.NewCipher(key)
	case ciDES:
		b, err = des.NewCipher(key)
	case ci3DES:
		b, err = des.NewTripleDESCipher(key)
	default:
		panic("refCipher: bad cipher index")
	}
	if err != nil {
		panic(err)
	}
	return b
}

// ---------------------------------------------------------------- padding

// refPad2: ISO/IEC 9797-1 padding method 2 - a single 1 bit, then as few 0
// bits as reach a block boundary.
func refPad2(bs int, m []byte) []byte {
	out := append([]byte{}, m...)
	out = append(out, 0x80)
	for len(out)%bs != 0 {
		out = append(out, 0x00)
	}
	return out
}

// refPad3: ISO/IEC 9797-1 padding method 3 - the data right-padded with as
// few 0 bits as give a positive whole number of blocks, left-padded with one
// block L holding the bit length of the unpadded data, big-endian,
// right-aligned.
func refPad3(bs int, m []byte) []byte {
	body := append([]byte{}, m...)
	for len(body) == 0 || len(body)%bs != 0 {
		body = append(body, 0x00)
	}
	l := make([]byte, bs)
	bits := new(big.Int).Mul(big.NewInt(int64(len(m))), big.NewInt(8))
	bits.FillBytes(l) // big-endian, right-aligned; panics if it does not fit
	return append(l, body...)
}

// ---------------------------------------------------------------- helpers

func xorBlock(a, b []byte) []byte {
	if len(a) != len(b) {
		panic("xorBlock: length mismatch")
	}
	out := make([]byte, len(a))
	for i := range a {
		out[i] = a[i] ^ b[i]
	}
	return out
}

func enc(e cipher.Block, x []byte) []byte {
	out := make([]byte, len(x))
	e.Encrypt(out, x)
	return out
}

func dec(e cipher.Block, x []byte) []byte {
	out := make([]byte, len(x))
	e.Decrypt(out, x)
	return out
}

func splitBlocks(bs int, d []byte) [][]byte {
	if len(d) == 0 || len(d)%bs != 0 {
		panic("splitBlocks: not a positive whole number of blocks")
	}
	var out [][]byte
	for i := 0; i < len(d); i += bs {
		out = append(out, d[i:i+bs])
	}
	return out
}

// getBit / setBit number the bits of a block from the left, bit 0 being the
// most significant bit of byte 0 (the standard's b_1).
func getBit(x []byte, i int) byte { return x[i/8] >> (7 - uint(i%8)) & 1 }
func setBit(x []byte, i int, v byte) {
	x[i/8] &^= 1 << (7 - uint(i%8))
	x[i/8] |= v << (7 - uint(i%8))
}

// rotl1 / rotr1: cyclic rotation of the n-bit string by one position.
func rotl1(x []byte) []byte {
	n := 8 * len(x)
	out := make([]byte, len(x))
	for i := 0; i < n; i++ {
		setBit(out, i, getBit(x, (i+1)%n))
	}
	return out
}

func rotr1(x []byte) []byte {
	n := 8 * len(x)
	out := make([]byte, len(x))
	for i := 0; i < n; i++ {
		setBit(out, (i+1)%n, getBit(x, i))
	}
	return out
}

// shl1 is NOT part of any definition: the non-cyclic shift (top bit dropped,
// 0 shifted in) used only by the bug-compatible CBCR model.
func shl1(x []byte) []byte {
	n := 8 * len(x)
	out := make([]byte, len(x))
	for i := 0; i+1 < n; i++ {
		setBit(out, i, getBit(x, i+1))
	}
	return out
}

// gfDouble multiplies the n-bit string by x in GF(2^n) represented modulo the
// lexicographically first irreducible polynomial of minimum weight
// (SP 800-38B 5.3 / ISO/IEC 9797-1 6.2.3 "multx"):
//
//	n = 128: x^128 + x^7 + x^2 + x + 1   (R_128 = 0^120 10000111)
//	n =  64: x^64  + x^4 + x^3 + x + 1   (R_64  = 0^59  11011)
func gfDouble(l []byte) []byte {
	n := uint(8 * len(l))
	var low int64
	switch n {
	case 128:
		low = 1<<7 | 1<<2 | 1<<1 | 1
	case 64:
		low = 1<<4 | 1<<3 | 1<<1 | 1
	default:
		panic("gfDouble: no polynomial for this block size")
	}
	v := new(big.Int).SetBytes(l)
	v.Lsh(v, 1)
	if v.Bit(int(n)) == 1 {
		v.SetBit(v, int(n), 0)
		v.Xor(v, big.NewInt(low))
	}
	out := make([]byte, len(l))
	v.FillBytes(out)
	return out
}

// ---------------------------------------------------------------- the MACs

// Model variants. vStd is the standard; vCBCRShift reproduces the one
// documented wrong behaviour (DESIGN 2.7) and is used only for the known finding.
const (
	vStd       = iota
	vCBCRShift // KF-C19-cbcr-shift: CBCR left "rotation" of the padded case is a shift
)

// refMAC returns the full-size (one block) MAC value and whether truncation
// keeps the rightmost bytes (TrCBC, padded case) instead of the leftmost.
//
// pad is 2 or 3 and only used by schemes 1-4 and 6 (5, 7, 8 define their own).
// k1 is K, k2 is K' for the two-key schemes.
func refMAC(scheme, ci, pad int, k1, k2, msg []byte, variant int) (full []byte, right bool) {
	bs := ciphBS[ci]
	e := refCipher(ci, k1)
	zero := make([]byte, bs)
	padded := func() [][]byte {
		switch pad {
		case 2:
			return splitBlocks(bs, refPad2(bs, msg))
		case 3:
			return splitBlocks(bs, refPad3(bs, msg))
		}
		panic("refMAC: bad padding method")
	}
	switch scheme {
	case 1: // CBC-MAC: H_j = e_K(H_{j-1} xor D_j), G = H_q
		h := zero
		for _, d := range padded() {
			h = enc(e, xorBlock(h, d))
		}
		return h, false
	case 2: // EMAC: G = e_K'(H_q)
		h := zero
		for _, d := range padded() {
			h = enc(e, xorBlock(h, d))
		}
		return enc(refCipher(ci, k2), h), false
	case 3: // ANSI retail MAC: G = e_K(d_K'(H_q))
		h := zero
		for _, d := range padded() {
			h = enc(e, xorBlock(h, d))
		}
		return enc(e, dec(refCipher(ci, k2), h)), false
	case 4: // MacDES: H_1 = e_K''(e_K(D_1)), G = e_K'(H_q), K'' = K' xor F0F0..
		k3 := make([]byte, len(k2))
		for i := range k2 {
			k3[i] = k2[i] ^ 0xF0
		}
		ds := padded()
		h := enc(refCipher(ci, k3), enc(e, ds[0]))
		for _, d := range ds[1:] {
			h = enc(e, xorBlock(h, d))
		}
		return enc(refCipher(ci, k2), h), false
	case 5: // CMAC (SP 800-38B 6.1, 6.2)
		l := enc(e, zero)
		sk1 := gfDouble(l)
		sk2 := gfDouble(sk1)
		var ds [][]byte
		var last []byte
		if len(msg) > 0 && len(msg)%bs == 0 {
			ds = splitBlocks(bs, msg)
			last = xorBlock(ds[len(ds)-1], sk1)
		} else {
			ds = splitBlocks(bs, refPad2(bs, msg)) // M_n* || 1 0..0
			last = xorBlock(ds[len(ds)-1], sk2)
		}
		h := zero
		for _, d := range ds[:len(ds)-1] {
			h = enc(e, xorBlock(h, d))
		}
		return enc(e, xorBlock(h, last)), false
	case 6: // LMAC: K1 = e_K(0..01), K2 = e_K(0..02); last block under K2
		c1 := make([]byte, bs)
		c1[bs-1] = 1
		c2 := make([]byte, bs)
		c2[bs-1] = 2
		if ciphKeyLen[ci] != bs {
			panic("refMAC: LMAC key derivation is only modelled for key length == block length")
		}
		e1 := refCipher(ci, enc(e, c1))
		e2 := refCipher(ci, enc(e, c2))
		ds := padded()
		h := zero
		for _, d := range ds[:len(ds)-1] {
			h = enc(e1, xorBlock(h, d))
		}
		return enc(e2, xorBlock(h, ds[len(ds)-1])), false
	case 7: // TrCBC: whole blocks -> no padding, leftmost bits; else 10* and rightmost bits
		var ds [][]byte
		if len(msg) > 0 && len(msg)%bs == 0 {
			ds = splitBlocks(bs, msg)
		} else {
			ds = splitBlocks(bs, refPad2(bs, msg))
			right = true
		}
		h := zero
		for _, d := range ds {
			h = enc(e, xorBlock(h, d))
		}
		return h, right
	case 8: // CBCR0: H_0 = e_K(0^n); last: whole blocks -> >>> 1, else 10* and <<< 1
		var ds [][]byte
		isPadded := false
		if len(msg) > 0 && len(msg)%bs == 0 {
			ds = splitBlocks(bs, msg)
		} else {
			ds = splitBlocks(bs, refPad2(bs, msg))
			isPadded = true
		}
		h := enc(e, zero)
		for _, d := range ds[:len(ds)-1] {
			h = enc(e, xorBlock(h, d))
		}
		x := xorBlock(h, ds[len(ds)-1])
		switch {
		case !isPadded:
			x = rotr1(x)
		case variant == vCBCRShift:
			x = shl1(x)
		default:
			x = rotl1(x)
		}
		return enc(e, x), false
	}
	panic("refMAC: bad scheme")
}

// truncTag keeps size bytes of the full MAC value.
func truncTag(full []byte, size int, right bool) []byte {
	if right {
		return full[len(full)-size:]
	}
	return full[:size]
}

// ---------------------------------------------------------------- self-test

func unhex(s string) []byte {
	b, err := hex.DecodeString(s)
	if err != nil {
		panic(err)
	}
	return b
}

func selfTest() error {
	if err := ref.SelfTestSM4(false); err != nil {
		return err
	}
	// --- helpers
	if got := rotl1([]byte{0x80, 0x01}); !bytes.Equal(got, []byte{0x00, 0x03}) {
		return fmt.Errorf("rotl1: %x", got)
	}
	if got := rotr1([]byte{0x80, 0x01}); !bytes.Equal(got, []byte{0xC0, 0x00}) {
		return fmt.Errorf("rotr1: %x", got)
	}
	if got := shl1([]byte{0x80, 0x01}); !bytes.Equal(got, []byte{0x00, 0x02}) {
		return fmt.Errorf("shl1: %x", got)
	}
	for _, x := range [][]byte{{0x12, 0x34, 0x56, 0x78, 0x9a, 0xbc, 0xde, 0xf1}, {0xff}, {0x80, 0, 0, 1}} {
		if !bytes.Equal(rotr1(rotl1(x)), x) || !bytes.Equal(rotl1(rotr1(x)), x) {
			return fmt.Errorf("rotl1/rotr1 are not inverse on %x", x)
		}
	}
	if got := refPad3(8, []byte{1, 2, 3}); !bytes.Equal(got, []byte{0, 0, 0, 0, 0, 0, 0, 24, 1, 2, 3, 0, 0, 0, 0, 0}) {
		return fmt.Errorf("refPad3: %x", got)
	}
	if got := refPad3(8, nil); !bytes.Equal(got, make([]byte, 16)) {
		return fmt.Errorf("refPad3 empty: %x", got)
	}
	if got := refPad2(8, []byte{1, 2, 3, 4, 5, 6, 7, 8}); !bytes.Equal(got, []byte{1, 2, 3, 4, 5, 6, 7, 8, 0x80, 0, 0, 0, 0, 0, 0, 0}) {
		return fmt.Errorf("refPad2: %x", got)
	}

	// --- NIST SP 800-38B appendix D: subkeys and examples
	nistMsg := unhex("6bc1bee22e409f96e93d7e117393172aae2d8a571e03ac9c9eb76fac45af8e5130c81c46a35ce411e5fbc1191a0a52eff69f2445df4f9b17ad2b417be66c3710")
	{
		k := unhex("2b7e151628aed2a6abf7158809cf4f3c")
		l := enc(refCipher(ciAES128, k), make([]byte, 16))
		k1 := gfDouble(l)
		k2 := gfDouble(k1)
		if hex.EncodeToString(l) != "7df76b0c1ab899b33e42f047b91b546f" || hex.EncodeToString(k1) != "fbeed618357133667c85e08f7236a8de" || hex.EncodeToString(k2) != "f7ddac306ae266ccf90bc11ee46d513b" {
			return fmt.Errorf("CMAC-AES-128 subkeys: L=%x K1=%x K2=%x", l, k1, k2)
		}
	}
	{
		k := unhex("8aa83bf8cbda10620bc1bf19fbb6cd58bc313d4a371ca8b5")
		l := enc(refCipher(ci3DES, k), make([]byte, 8))
		k1 := gfDouble(l)
		k2 := gfDouble(k1)
		if hex.EncodeToString(l) != "c8cc74e98a7329a2" || hex.EncodeToString(k1) != "9198e9d314e6535f" || hex.EncodeToString(k2) != "2331d3a629cca6a5" {
			return fmt.Errorf("CMAC-TDEA3 subkeys: L=%x K1=%x K2=%x", l, k1, k2)
		}
	}
	type cmacVec struct {
		ci   int
		key  string
		mlen int
		tag  string
	}
	tdea2 := "4cf15134a2850dd58a3d10ba80570d384cf15134a2850dd5"
	tdea3 := "8aa83bf8cbda10620bc1bf19fbb6cd58bc313d4a371ca8b5"
	aes128 := "2b7e151628aed2a6abf7158809cf4f3c"
	aes256 := "603deb1015ca71be2b73aef0857d77811f352c073b6108d72d9810a30914dff4"
	for i, v := range []cmacVec{
		{ciAES128, aes128, 0, "bb1d6929e95937287fa37d129b756746"},
		{ciAES128, aes128, 16, "070a16b46b4d4144f79bdd9dd04a287c"},
		{ciAES128, aes128, 40, "dfa66747de9ae63030ca32611497c827"},
		{ciAES128, aes128, 64, "51f0bebf7e3b9d92fc49741779363cfe"},
		{ciAES256, aes256, 0, "028962f61b7bf89efc6b551f4667d983"},
		{ciAES256, aes256, 16, "28a7023f452e8f82bd4bf28d8c37c35c"},
		{ciAES256, aes256, 40, "aaf3d8f1de5640c232f5b169b9c911e6"},
		{ciAES256, aes256, 64, "e1992190549f6ed5696a2c056c315410"},
		{ci3DES, tdea3, 0, "b7a688e122ffaf95"},
		{ci3DES, tdea3, 8, "8e8f293136283797"},
		{ci3DES, tdea3, 20, "743ddbe0ce2dc2ed"},
		{ci3DES, tdea3, 32, "33e6b1092400eae5"},
		{ci3DES, tdea2, 0, "bd2ebf9a3ba00361"},
		{ci3DES, tdea2, 8, "4ff2ab813c53ce83"},
		{ci3DES, tdea2, 20, "62dd1b471902bd4e"},
		{ci3DES, tdea2, 32, "31b1e431dabc4eb8"},
	} {
		got, _ := refMAC(5, v.ci, 0, unhex(v.key), nil, nistMsg[:v.mlen], vStd)
		if hex.EncodeToString(got) != v.tag {
			return fmt.Errorf("SP 800-38B CMAC example #%d (%s, Mlen=%d): model %x, published %s", i, ciphNames[v.ci], v.mlen, got, v.tag)
		}
	}

	// --- GB/T 15852.1-2020 annex B (SM4), as attributed to the standard by the
	// comments of /repo/cbcmac/cbcmac_test.go. TestCBCRMAC vector 0 (empty
	// message) is deliberately NOT used: it reproduces the dropped bit of the
	// CBCR left shift (DESIGN section 5 row 19).
	k1 := unhex("0123456789abcdeffedcba9876543210")
	k2 := unhex("4149d2aded9456681ec8b511d9e7ee04")
	m32 := []byte("This is the test message for mac")
	m25 := []byte("This is the test message ")
	type gbVec struct {
		scheme, pad int
		msg         []byte
		size        int
		tag         string
	}
	for i, v := range []gbVec{
		{1, 2, nil, 16, "8c338e5a27e349beae39214feda97099"},
		{1, 2, m32, 16, "4b6553af3c4e27448412315ac7849535"},
		{1, 2, m25, 16, "421ad1690aa152e2846fa2a5d83445a9"},
		{1, 3, m32, 16, "71af7e4553404cbcc4f2973cdbd0f063"},
		{1, 3, m25, 16, "6a4a86f5b5e468dad27df25fb9d9be16"},
		{2, 2, nil, 16, "2cf6edf63cce144489eaddf07b4938db"},
		{2, 2, m32, 16, "e423e35599afd948aec50bdee838e9ea"},
		{2, 2, m25, 16, "f02625cead008d4efbf3f0b2b0c2a75b"},
		{2, 3, m32, 16, "4003ba1b6adc53a826e82fcea16afaac"},
		{2, 3, m25, 16, "ffd5f1f2e5eda5cbf402d65a5b0b1953"},
		{3, 2, nil, 16, "b4736be9a174faa34db1e9f1dacd5d62"},
		{3, 2, m32, 16, "51e9928c2238330c3231b8752a9afd7f"},
		{3, 2, m25, 16, "197247229ce9d7b6ae405bf885b27057"},
		{3, 3, m32, 16, "7cd48c4242e45575e51aaf0dcc7a208c"},
		{3, 3, m25, 16, "3c430f1ea43b540c68457e249c46f1db"},
		{4, 2, nil, 16, "0c560096b609ed0eaa39afd6e2666511"},
		{4, 2, m32, 16, "7e1a9a5e0ef0947f25cb9485261c985c"},
		{4, 2, m25, 16, "949476d35f17261e1fb8c4396d62dc05"},
		{4, 3, m32, 16, "28a70d6bccf74422462058abbc27f6ae"},
		{4, 3, m25, 16, "c9d34e16c49ab64357a2618debd1032f"},
		{5, 0, nil, 16, "29e154322e5c7bd8ee6a25ba549b24bc"},
		{5, 0, m32, 16, "692c437100f3b5ee2b8abcef373d990c"},
		{5, 0, m25, 16, "4738a6c760b280fc0c8a8af3886e9f5d"},
		{6, 2, nil, 16, "cd7ed27964e257c077f055f8ee383c3f"},
		{6, 2, m32, 16, "a0c465ee5896972f8337aa1f92c99d10"},
		{6, 2, m25, 16, "60dd955ed0ca3d7a64227174dd98dd81"},
		{6, 3, m32, 16, "43050d51c656ae60be273fbea4870ef1"},
		{6, 3, m25, 16, "61e00049e26962a36fedba8d4f52f0ad"},
		{7, 0, nil, 8, "ae39214feda97099"},
		{7, 0, m32, 8, "16e02904efb765b7"},
		{7, 0, m25, 8, "846fa2a5d83445a9"},
		{8, 0, m32, 16, "e40ed79c3149a1c9d42f04c423049935"},
		{8, 0, m25, 16, "a99d13013e892ee2c25be2daaa6c82e8"},
	} {
		full, right := refMAC(v.scheme, ciSM4, v.pad, k1, k2, v.msg, vStd)
		got := truncTag(full, v.size, right)
		if hex.EncodeToString(got) != v.tag {
			return fmt.Errorf("GB/T 15852.1 annex B vector #%d (scheme %d, padding %d, %d bytes): model %x, published %s", i, v.scheme, v.pad, len(v.msg), got, v.tag)
		}
	}
	// The bug-compatible CBCR model must differ from the standard one exactly
	// when the bit rotated out is 1, and must reproduce the one value of the
	// repository's test table that the standard model does not (vector 0).
	{
		std, _ := refMAC(8, ciSM4, 0, k1, nil, nil, vStd)
		kf, _ := refMAC(8, ciSM4, 0, k1, nil, nil, vCBCRShift)
		if bytes.Equal(std, kf) || hex.EncodeToString(kf) != "909f5e6ed15518c01252302383c63e8c" {
			return fmt.Errorf("CBCR empty message: standard model %x, shift model %x (TestCBCRMAC vector 0 is 909f5e6e...)", std, kf)
		}
	}
	return nil
}
