package c19

// Native coverage-guided fuzz targets (thorough tier only; the driver runs
// `go test -fuzz`). A data-provider layer turns the fuzzer's bytes into
// well-formed cases of the package's existing case types (histCase, valCase,
// bitCase, keyCase); the oracles are the package's own check functions
// (checkHist, checkVal, checkBit, checkKeys: independent GB/T 15852.1 models,
// fresh-object history independence, size, argument / key-memory integrity,
// one-bit injectivity, bug-compatible model for the open CBCR finding), each
// evaluated on every input with a fresh h.Rec. Nothing is random: every case
// is a pure function of the input bytes.

import (
	"bytes"
	"encoding/binary"
	"encoding/json"
	"fmt"
	"runtime/debug"
	"testing"

	"verif/harness/h"
)

const fuzzHdr = 21 // scheme, cipher, ctor, size, flags, key seed (8), message seed (8)

// fuzzSchemes: all eight constructions; CMAC (the only one with a streaming
// face, i.e. with a state machine worth searching) gets a third of the space.
var fuzzSchemes = []int{1, 2, 3, 4, 5, 6, 7, 8, 5, 5, 5, 5}

// decodeObj: five selector bytes and a key seed -> a MAC object the package's
// generators could have produced. cmacBias widens CMAC's share (op target).
func decodeObj(d []byte, cmacBias bool) (o Obj, flags byte, seed uint64) {
	if cmacBias {
		o.Scheme = fuzzSchemes[int(d[0])%len(fuzzSchemes)]
	} else {
		o.Scheme = 1 + int(d[0])%8
	}
	cs := ciphersForCfg()
	o.Ci = cs[int(d[1])%len(cs)]
	if !validCombo(o.Scheme, o.Ci) {
		o.Ci = ciSM4 // LMAC needs key length == block length
	}
	pv := padVariants(o.Scheme)
	o.Pad = pv[int(d[2])%len(pv)]
	bs := o.bs()
	if d[3]&0x80 != 0 {
		o.Size = bs
	} else {
		o.Size = 1 + int(d[3])%bs
	}
	o.KeySeed = binary.LittleEndian.Uint64(d[5:13])
	return o, d[4], binary.LittleEndian.Uint64(d[13:21])
}

// decodeLen: a length selector. pos is the number of bytes streamed so far
// (0 for one-shot messages), so that "up to the next block boundary" can be
// asked for directly; the other modes are plain reductions.
func decodeLen(mode byte, x, pos, bs, hi int) int {
	switch mode % 8 {
	case 0:
		return 0
	case 1:
		return 1 + x%(bs-1)
	case 2:
		return bs - pos%bs // ends exactly on a block boundary
	case 3:
		return bs - pos%bs + bs*(1+x%3)
	case 4:
		return bs * (1 + x%4)
	case 5:
		k := bs - pos%bs + []int{-1, 1}[x&1]
		if k < 0 {
			k += bs
		}
		return k
	case 6:
		return x % (5*bs + 2)
	}
	return x % (hi + 1)
}

var fuzzContents = []int{0, 0, 0, 1, 2, 3, 4, 5, 6}

// decodeFlavour: zero-length flavour, spare capacity class and content
// variant of one slice argument.
func decodeFlavour(f byte, bs int) (z, spare, content int) {
	z = int(f) % 3
	switch int(f) / 3 % 6 {
	case 2:
		spare = 1
	case 3:
		spare = bs - 1
	case 4:
		spare = bs
	case 5:
		spare = 4 * bs
	}
	content = fuzzContents[int(f)/18%len(fuzzContents)]
	return
}

// decodeHist: bytes -> one history on ONE object (op list of histCase).
// Header (fuzzHdr bytes), then 4 bytes per op: kind/length-mode, length (2),
// flavour. Constructions without a streaming face get MAC ops only (at most
// 4, as in TestC19_RandomHistories); CMAC gets Write/Sum/Reset/MAC (at most
// 12, as in TestC19_CMACStateMachine).
func decodeHist(d []byte) (histCase, bool) {
	if len(d) < fuzzHdr+4 {
		return histCase{}, false
	}
	o, flags, seed := decodeObj(d, true)
	bs := o.bs()
	c := histCase{Obj: o, Seed: seed, Scribble: flags&3 != 0, KeyFlav: int(flags>>2) % 3}
	maxOps := 4
	if o.Scheme == 5 {
		maxOps = 12
	}
	pos := 0
	for rest := d[fuzzHdr:]; len(rest) >= 4 && len(c.Ops) < maxOps; rest = rest[4:] {
		kind, mode := rest[0]%8, rest[0]>>3
		x := int(binary.LittleEndian.Uint16(rest[1:3]))
		z, spare, content := decodeFlavour(rest[3], bs)
		switch {
		case o.Scheme != 5 || kind == 7:
			c.Ops = append(c.Ops, Op{K: "mac", N: decodeLen(mode, x, 0, bs, 2048), C: content, Spare: spare, Z: z})
			pos = 0 // the interpreter resets a CMAC object after MAC
		case kind <= 3:
			n := decodeLen(mode, x, pos, bs, 1024)
			pos += n
			c.Ops = append(c.Ops, Op{K: "write", N: n, C: content, Spare: spare, Z: z})
		case kind <= 5:
			c.Ops = append(c.Ops, Op{K: "sum", N: x % 4, Spare: spare, Z: z})
		default:
			pos = 0
			c.Ops = append(c.Ops, Op{K: "reset"})
		}
	}
	return c, true
}

// caseJSON prints a decoded case the way the replay files do (the case types
// embed Obj, whose String method would hide the other fields under %+v).
func caseJSON(c any) string {
	b, err := json.Marshal(c)
	if err != nil {
		return fmt.Sprintf("%#v", c)
	}
	return string(b)
}

func fuzzGuard(t *testing.T, what func() string) func() {
	old := debug.SetPanicOnFault(true)
	return func() {
		debug.SetPanicOnFault(old)
		if p := recover(); p != nil {
			t.Fatalf("panic: %v\n%s\ncase: %s", p, debug.Stack(), what())
		}
	}
}

// hdr builds a header for the seed corpus.
func fuzzHeader(scheme, ci, pad, size byte, flags byte, salt byte) []byte {
	d := make([]byte, fuzzHdr)
	d[0], d[1], d[2], d[3], d[4] = scheme, ci, pad, size, flags
	for i := 5; i < fuzzHdr; i++ {
		d[i] = byte(i*37) ^ salt
	}
	return d
}

// opBytes: one op of the seed corpus. kind 0 = write, 4 = sum, 6 = reset, 7 = mac.
func opBytes(kind, mode byte, x uint16, flav byte) []byte {
	return []byte{kind | mode<<3, byte(x), byte(x >> 8), flav}
}

// FuzzC19_Ops: op-sequence interpreter. Bytes -> (construction, cipher,
// constructor flavour, tag size, keys, key-slice flavour, scribble discipline)
// + a list of MAC / Write / Sum / Reset operations with lengths aimed at and
// around block boundaries, zero-length flavours and spare capacities; the
// oracle is checkHist (every tag == independent model == fresh object).
func FuzzC19_Ops(f *testing.F) {
	cat := func(parts ...[]byte) []byte { return bytes.Join(parts, nil) }
	const (
		w, s, rs, mc = 0, 4, 6, 7
		anyLen       = 7 // length mode "x mod (hi+1)"
	)
	// (a) typical cases: MAC(m1); MAC(m2) for every construction, SM4 and an 8-byte-block cipher
	for sc := byte(0); sc < 8; sc++ {
		f.Add(cat(fuzzHeader(sc, 0, sc, 0x80, 1, sc), opBytes(mc, anyLen, 20, 0), opBytes(mc, anyLen, 3, 5)))
		f.Add(cat(fuzzHeader(sc, 3, sc+1, 3, 4, sc), opBytes(mc, anyLen, 17, 13), opBytes(mc, anyLen, 8, 0), opBytes(mc, 0, 0, 1)))
	}
	// (b) hostile histories for the streaming face (scheme selector 4 = CMAC)
	for _, ci := range []byte{0, 3} {
		full, short := byte(0x80), byte(4)
		// a write that completes a partial block exactly, Sum right there (5+11 / 16+7+9)
		f.Add(cat(fuzzHeader(4, ci, 0, full, 1, ci), opBytes(w, anyLen, 5, 0), opBytes(w, 2, 0, 0), opBytes(s, 0, 0, 0)))
		f.Add(cat(fuzzHeader(4, ci, 0, short, 0, ci), opBytes(w, 4, 0, 0), opBytes(w, anyLen, 7, 0), opBytes(w, 2, 0, 0), opBytes(s, 0, 2, 0)))
		// an empty write (nil, []byte{}, buf[:0]) while a full block is held back, then Sum / more data
		for z := byte(0); z < 3; z++ {
			f.Add(cat(fuzzHeader(4, ci, 0, full, z, ci), opBytes(w, 4, 1, 0), opBytes(w, 0, 0, z), opBytes(s, 0, 0, z), opBytes(w, anyLen, 3, 0)))
		}
		// Sum on the empty state, then Write; Sum without Reset
		f.Add(cat(fuzzHeader(4, ci, 0, full, 1, ci), opBytes(s, 0, 0, 0), opBytes(w, anyLen, 21, 0), opBytes(s, 0, 1, 3)))
		// streamed data, then one-shot MAC; long message, MAC of a short one on a short-tag object
		f.Add(cat(fuzzHeader(4, ci, 0, short, 1, ci), opBytes(w, anyLen, 9, 0), opBytes(mc, anyLen, 11, 0), opBytes(w, anyLen, 40, 0)))
		f.Add(cat(fuzzHeader(4, ci, 0, short, 2, ci), opBytes(mc, anyLen, 50, 0), opBytes(mc, anyLen, 3, 0), opBytes(rs, 0, 0, 0), opBytes(w, anyLen, 3, 0)))
		// a write ending on a block boundary from a buffer the caller overwrites (scribble), byte-wise boundary crossing
		f.Add(cat(fuzzHeader(4, ci, 0, full, 3, ci), opBytes(w, 4, 0, 12), opBytes(s, 0, 0, 0), opBytes(w, 5, 1, 0), opBytes(w, 1, 0, 0), opBytes(s, 0, 3, 9)))
		// 255 / 256 bytes
		f.Add(cat(fuzzHeader(4, ci, 0, 7, 1, ci), opBytes(w, anyLen, 255, 0), opBytes(s, 0, 0, 0), opBytes(w, anyLen, 1, 0), opBytes(s, 0, 0, 0), opBytes(w, anyLen, 1, 0)))
	}
	// (c) boundary values of one-shot MACs: empty message in every flavour, one block, 255/256, 2048; spare capacity
	for _, sc := range []byte{0, 3, 5, 6, 7} {
		f.Add(cat(fuzzHeader(sc, 0, 2, 0x80, 1, 9), opBytes(mc, 0, 0, 0), opBytes(mc, 0, 0, 1), opBytes(mc, 0, 0, 2), opBytes(mc, 4, 0, 12)))
		f.Add(cat(fuzzHeader(sc, 4, 1, 5, 2, 9), opBytes(mc, anyLen, 255, 15), opBytes(mc, anyLen, 256, 12), opBytes(mc, anyLen, 2048, 3)))
	}
	f.Fuzz(func(t *testing.T, data []byte) {
		c, ok := decodeHist(data)
		if !ok {
			return
		}
		defer fuzzGuard(t, func() string { return caseJSON(c) })()
		if err := checkHist(c, &h.Rec{}); err != nil {
			t.Fatalf("%v\ncase: %s", err, caseJSON(c))
		}
	})
}

// rawCase: a message given byte for byte (the other case types expand their
// messages from a seed). Checked with the same oracles as checkVal.
type rawCase struct {
	Obj
	Msg      h.B
	Spare, Z int
	Cut      int // CMAC: the message is also streamed as Write(msg[:Cut]); Sum; Write(msg[Cut:]); Sum
	Scribble bool
	KeyFlav  int
}

func checkRaw(c rawCase, r *h.Rec) error {
	o := c.Obj
	m, km, err := newLibK(o, c.KeyFlav, c.Scribble)
	if err != nil {
		return err
	}
	var seen [3]bool
	var keep retainer
	tag, err := macCall(m, o, c.Msg, c.Spare, c.Z, c.Scribble, r, &seen, &keep)
	if err != nil {
		return err
	}
	if err := checkTag(o, c.Msg, tag, r, "raw message, fresh object"); err != nil {
		return err
	}
	if cm, ok := m.(cmacFace); ok {
		cm.Reset()
		for i, part := range [][]byte{c.Msg[:c.Cut], c.Msg[c.Cut:]} {
			p, backing := argSlice(part, c.Spare, (c.Z+i)%3, &seen)
			if n, err := cm.Write(p); n != len(part) || err != nil {
				return fmt.Errorf("%v: Write(%d bytes) = (%d, %v)", o, len(part), n, err)
			}
			if !bytes.Equal(p, part) || !spareUntouched(backing, len(part)) {
				return fmt.Errorf("%v: Write modified its argument or the spare capacity behind it", o)
			}
			if c.Scribble {
				scribble(backing)
			}
			streamed := []byte(c.Msg[:c.Cut])
			if i == 1 {
				streamed = c.Msg
			}
			sum := cm.Sum(nil)
			keep.keep(sum, "Sum")
			if err := checkTag(o, streamed, sum, r, fmt.Sprintf("raw message, Sum after write %d of 2 (cut at %d)", i+1, c.Cut)); err != nil {
				return err
			}
		}
		cm.Reset()
	}
	again, err := macCall(m, o, c.Msg, 0, (c.Z+1)%3, c.Scribble, r, &seen, &keep)
	if err != nil {
		return err
	}
	if !bytes.Equal(again, tag) {
		return fmt.Errorf("%v: MAC(m) on a fresh object = %s, again on the same object = %s (m=%s)", o, h.Hex(tag), h.Hex(again), h.Hex(c.Msg))
	}
	if err := keep.verify(o, "the raw-message history"); err != nil {
		return err
	}
	return km.verify(o, "the raw-message history")
}

// fuzzValue is what FuzzC19_Value decodes: exactly one of the four is set.
type fuzzValue struct {
	Val  *valCase
	Bit  *bitCase
	Keys *keyCase
	Raw  *rawCase
}

const fuzzValHdr = fuzzHdr + 8

// decodeValue: header as in decodeHist, then kind, length mode, length (2),
// flavour, block, bit, cut; the bytes after that are the raw message of kind 3.
func decodeValue(d []byte) (fuzzValue, bool) {
	if len(d) < fuzzValHdr {
		return fuzzValue{}, false
	}
	o, flags, seed := decodeObj(d, false)
	bs := o.bs()
	p := d[fuzzHdr:]
	x := int(binary.LittleEndian.Uint16(p[2:4]))
	z, spare, content := decodeFlavour(p[4], bs)
	scrib, flav := flags&3 != 0, int(flags>>2)%3
	switch p[0] % 4 {
	case 0:
		n := decodeLen(p[1], x, 0, bs, 4100)
		if p[1]%8 == 3 { // k*bs - 1, k*bs, k*bs + 1 for k up to 256
			n = bs*(1+x%256) + int(p[5])%3 - 1
		}
		if n == 0 {
			content = 0
		}
		if p[6]&1 != 0 {
			spare = int(p[5]) % (4*bs + 1) // any spare capacity, the exact padding length included
		}
		return fuzzValue{Val: &valCase{o, n, content, spare, seed, z, scrib, flav}}, true
	case 1:
		o.Size = bs // one-bit pairs are compared on full-size tags
		n := 1 + decodeLen(p[1], x, 0, bs, 1024)
		lastBlk := (n - 1) / bs
		blk := lastBlk
		if p[5]&0x80 != 0 {
			blk = int(p[5]&0x7f) % (lastBlk + 1)
		}
		bit := int(p[6]) % (8 * min(bs, n-blk*bs))
		return fuzzValue{Bit: &bitCase{o, n, blk, bit, content, seed}}, true
	case 2:
		return fuzzValue{Keys: &keyCase{o, flav, decodeLen(p[1], x, 0, bs, 256), seed, scrib}}, true
	}
	msg := append([]byte{}, d[fuzzValHdr:]...)
	if len(msg) > 4096 {
		msg = msg[:4096]
	}
	if p[6]&1 != 0 {
		spare = int(p[5]) % (4*bs + 1)
	}
	return fuzzValue{Raw: &rawCase{o, msg, spare, z, int(p[7]) % (len(msg) + 1), scrib, flav}}, true
}

// FuzzC19_Value: one object, one message. Bytes select among the package's
// value case (checkVal: tag == model, size, message / key memory intact,
// MAC(m); MAC(m'); MAC(m) == fresh), a one-bit pair (checkBit: injectivity of
// the chain on full-size tags), several objects from the same key slices
// (checkKeys) and a message given byte for byte (checkRaw: same oracles, the
// fuzzer controls the message and the bytes next to the padding).
func FuzzC19_Value(f *testing.F) {
	tail := func(kind, mode byte, x uint16, flav, b5, b6, b7 byte) []byte {
		return []byte{kind, mode, byte(x), byte(x >> 8), flav, b5, b6, b7}
	}
	cat := func(parts ...[]byte) []byte { return bytes.Join(parts, nil) }
	for sc := byte(0); sc < 8; sc++ {
		// value cases: empty (three flavours via flav), one block with spare capacity, ragged, k*bs-1 near 256 blocks
		f.Add(cat(fuzzHeader(sc, 0, sc, 0x80, 1, sc), tail(0, 0, 0, sc%3, 0, 0, 0)))
		f.Add(cat(fuzzHeader(sc, sc, 2, 7, 6, sc), tail(0, 4, 0, 12+18*3, 0, 0, 0)))
		f.Add(cat(fuzzHeader(sc, 4, 1, 0x80, 9, sc), tail(0, 7, 255+uint16(sc), 15, 7, 1, 0)))
		// one-bit pairs: top bit of the last block, a bit of an earlier block
		f.Add(cat(fuzzHeader(sc, 0, sc, 0x80, 1, sc), tail(1, 4, 1, 0, 0, 0, 0)))
		if sc%2 == 0 {
			f.Add(cat(fuzzHeader(sc, 3, 2, 0x80, 2, sc), tail(1, 7, 20, 18*4, 0x80, 15, 0)))
		} else {
			// key arguments: views into one buffer, spare capacity
			f.Add(cat(fuzzHeader(sc, 2, sc, 5, 8|1, sc), tail(2, 7, 35, 0, 0, 0, 0)))
		}
		// raw messages: empty, method-2 look-alike, all ff with spare capacity of exactly the padding
		f.Add(cat(fuzzHeader(sc, 0, 2, 0x80, 1, sc), tail(3, 0, 0, 2, 0, 0, 0)))
		f.Add(cat(fuzzHeader(sc, 1, 0, 4, 0, sc), tail(3, 0, 0, 12, 11, 1, 5), []byte("message\x80\x00\x00\x00\x00")))
	}
	f.Add(cat(fuzzHeader(2, 0, 0, 0x80, 0, 1), tail(0, 3, 254, 12, 0, 0, 0))) // 255 blocks - 1
	f.Add(cat(fuzzHeader(4, 0, 0, 7, 0, 1), tail(0, 3, 255, 0, 2, 0, 0)))     // 256 blocks + 1, CMAC, 8-byte tag
	f.Add(cat(fuzzHeader(0, 3, 2, 0x80, 0, 1), tail(3, 0, 0, 0, 0, 0, 3), bytes.Repeat([]byte{0xff}, 8)))
	f.Fuzz(func(t *testing.T, data []byte) {
		v, ok := decodeValue(data)
		if !ok {
			return
		}
		var err error
		var desc string
		r := &h.Rec{}
		switch {
		case v.Val != nil:
			desc = "value " + caseJSON(*v.Val)
			defer fuzzGuard(t, func() string { return desc })()
			err = checkVal(*v.Val, r)
		case v.Bit != nil:
			desc = "one-bit pair " + caseJSON(*v.Bit)
			defer fuzzGuard(t, func() string { return desc })()
			err = checkBit(*v.Bit, r)
		case v.Keys != nil:
			desc = "key arguments " + caseJSON(*v.Keys)
			defer fuzzGuard(t, func() string { return desc })()
			err = checkKeys(*v.Keys, r)
		default:
			desc = "raw message " + caseJSON(*v.Raw)
			defer fuzzGuard(t, func() string { return desc })()
			err = checkRaw(*v.Raw, r)
		}
		if err != nil {
			t.Fatalf("%v\ncase: %s", err, desc)
		}
	})
}
