// C19 - block-cipher MACs depend only on (key, message), match GB/T 15852.1
// and the requested size. See DESIGN.md section 4, C19.
package c19

import (
	"bytes"
	"crypto/aes"
	"crypto/cipher"
	"crypto/des"
	"fmt"
	"hash"
	"testing"
	"unsafe"

	"github.com/emmansun/gmsm/cbcmac"
	"github.com/emmansun/gmsm/padding"
	"github.com/emmansun/gmsm/sm4"
	"pgregory.net/rapid"
	"verif/harness/gen"
	"verif/harness/h"
)

func TestMain(m *testing.M) {
	if b, err := sm4.NewCipher(make([]byte, 16)); err == nil {
		h.Observe("sm4.block", fmt.Sprintf("%T", b))
	}
	h.Main(m, selfTest)
}

const kfCBCR = "KF-C19-cbcr-shift"

var schemeNames = []string{"", "1-cbcmac", "2-emac", "3-ansiretail", "4-macdes", "5-cmac", "6-lmac", "7-trcbc", "8-cbcr"}

// ---------------------------------------------------------------- the object under test

// Obj names one MAC object: construction, cipher, constructor flavour, tag
// size and key material (expanded from KeySeed).
type Obj struct {
	Scheme  int    // 1..8
	Ci      int    // cipher index (ciSM4 ...)
	Pad     int    // 0: plain constructor (documented default = method 2); 2 / 3: ...WithPadding constructor with that method
	Size    int    // requested tag size in bytes
	KeySeed uint64 // keys = gen.Fill(gen.Mix(KeySeed, 1|2), key length)
}

func (o Obj) String() string {
	return fmt.Sprintf("%s/%s/pad%d/size%d/key%x", schemeNames[o.Scheme], ciphNames[o.Ci], o.Pad, o.Size, o.KeySeed)
}

func (o Obj) bs() int { return ciphBS[o.Ci] }

func (o Obj) keys() (k1, k2 []byte) {
	n := ciphKeyLen[o.Ci]
	return gen.Fill(gen.Mix(o.KeySeed, 1), n), gen.Fill(gen.Mix(o.KeySeed, 2), n)
}

// padMethod is the ISO/IEC 9797-1 padding method the object is documented to use.
func (o Obj) padMethod() int {
	if o.Pad == 3 {
		return 3
	}
	return 2
}

// hasPadCtor: schemes with a ...WithPadding constructor.
func hasPadCtor(scheme int) bool { return scheme <= 4 || scheme == 6 }

// validCombo: combinations the constructors' key handling allows and the
// model defines. LMAC feeds two derived one-block values back into the
// cipher constructor as keys, which only works (and is only defined here) for
// ciphers whose key length equals the block length.
func validCombo(scheme, ci int) bool {
	if scheme == 6 {
		return ciphKeyLen[ci] == ciphBS[ci]
	}
	return true
}

func libCreator(ci int) func(key []byte) (cipher.Block, error) {
	switch ci {
	case ciSM4:
		return sm4.NewCipher // the implementation under test (dispatch tier depends on the configuration)
	case ciAES128, ciAES256:
		return aes.NewCipher
	case ciDES:
		return des.NewCipher
	case ci3DES:
		return des.NewTripleDESCipher
	}
	panic("bad cipher index")
}

func padFunc(pad int) padding.NewPaddingFunc {
	if pad == 3 {
		return padding.NewISO9797M3Padding
	}
	return padding.NewISO9797M2Padding
}

// cmacFace is what NewCMAC's result offers (hash.Hash plus MAC).
type cmacFace interface {
	hash.Hash
	MAC(src []byte) []byte
}

// newLib builds the object under test with an explicit size (so that the
// constructor sweep can pass invalid ones).
func newLib(o Obj) cbcmac.BlockCipherMAC { return newLibS(o, false) }

// scribble overwrites every byte the caller owns, spare capacity included.
func scribble(b []byte) {
	b = b[:cap(b)]
	for i := range b {
		b[i] = 0xEE ^ byte(i*29)
	}
}

// newLibS is newLib with the "scribble" discipline: the key slices handed to
// the cipher / MAC constructors are private copies that are overwritten with
// garbage as soon as the constructor has returned; an object that kept a
// reference into them computes wrong tags from then on.
func newLibS(o Obj, scrib bool) cbcmac.BlockCipherMAC {
	km := newKeyMat(o, kfExact) // fresh slices on every call; not verified here (fresh-object reference, constructor sweep)
	m := buildLib(o, km.k1, km.k2)
	if scrib {
		km.scribbleKeys()
	}
	return m
}

// Flavours of the key slices handed to the constructors. Constructor
// arguments are caller memory too: a constructor (or a later operation
// deriving a subkey lazily) must not write to them, to their spare capacity
// or to their neighbours in a shared key-material buffer.
const (
	kfExact = 0 // two separate slices, len == cap
	kfSpare = 1 // two separate slices with sentinel-filled spare capacity
	kfViews = 2 // views into ONE buffer: canary | k1 | gap | k2 | room for a k3 | canary (plain sub-slices: cap runs to the end of the buffer)
)

var keyFlavNames = []string{"keys:exact-slices", "keys:spare-capacity", "keys:views-into-one-buffer"}

// keyMat is the caller's key memory: the slices handed to the constructors,
// the buffers behind them and a private copy of every byte of those buffers.
type keyMat struct {
	k1, k2      []byte
	bufs, wants [][]byte
}

func newKeyMat(o Obj, flav int) *keyMat {
	a, b := o.keys()
	n := len(a)
	fill := func(size int) []byte {
		buf := make([]byte, size)
		for i := range buf {
			buf[i] = sentinel
		}
		return buf
	}
	km := &keyMat{}
	switch flav {
	case kfExact:
		km.k1, km.k2 = append(make([]byte, 0, n), a...), append(make([]byte, 0, n), b...)
		km.bufs = [][]byte{km.k1, km.k2}
	case kfSpare:
		b1, b2 := fill(n+1), fill(2*n+5)
		copy(b1, a)
		copy(b2, b)
		km.k1, km.k2 = b1[:n], b2[:n]
		km.bufs = [][]byte{b1, b2}
	case kfViews:
		buf := fill(4 + n + 3 + n + n + 4)
		km.k1 = buf[4 : 4+n]
		km.k2 = buf[4+n+3 : 4+n+3+n]
		copy(km.k1, a)
		copy(km.k2, b)
		km.bufs = [][]byte{buf}
	default:
		panic("bad key flavour")
	}
	km.rebase()
	return km
}

// rebase records what the caller's key memory holds now.
func (km *keyMat) rebase() {
	km.wants = km.wants[:0]
	for _, b := range km.bufs {
		km.wants = append(km.wants, append([]byte{}, b...))
	}
}

// scribbleKeys: the caller reuses its key memory for something else.
func (km *keyMat) scribbleKeys() {
	for _, b := range km.bufs {
		scribble(b)
	}
	km.rebase()
}

// verify: nothing the library did wrote to the caller's key memory.
func (km *keyMat) verify(o Obj, after string) error {
	for i, b := range km.bufs {
		if !bytes.Equal(b, km.wants[i]) {
			return fmt.Errorf("%v: the caller's key memory (key slices, their spare capacity and neighbours; buffer %d) was %s and is %s after %s: the library wrote to a constructor argument",
				o, i, h.Hex(km.wants[i]), h.Hex(b), after)
		}
	}
	return nil
}

// newLibK builds the object from key slices of the given flavour, checks
// that the constructor left the caller's key memory alone and, with scrib,
// overwrites that memory afterwards. The caller keeps verifying km after
// every later operation (a lazily derived subkey may write later).
func newLibK(o Obj, flav int, scrib bool) (cbcmac.BlockCipherMAC, *keyMat, error) {
	km := newKeyMat(o, flav)
	m := buildLib(o, km.k1, km.k2)
	if err := km.verify(o, "the constructor returned"); err != nil {
		return nil, nil, err
	}
	if scrib {
		km.scribbleKeys()
	}
	return m, km, nil
}

func buildLib(o Obj, k1, k2 []byte) cbcmac.BlockCipherMAC {
	cr := libCreator(o.Ci)
	blk := func() cipher.Block {
		b, err := cr(k1)
		if err != nil {
			panic(err)
		}
		return b
	}
	switch o.Scheme {
	case 1:
		if o.Pad == 0 {
			return cbcmac.NewCBCMAC(blk(), o.Size)
		}
		return cbcmac.NewCBCMACWithPadding(blk(), o.Size, padFunc(o.Pad))
	case 2:
		if o.Pad == 0 {
			return cbcmac.NewEMAC(cr, k1, k2, o.Size)
		}
		return cbcmac.NewEMACWithPadding(cr, k1, k2, o.Size, padFunc(o.Pad))
	case 3:
		if o.Pad == 0 {
			return cbcmac.NewANSIRetailMAC(cr, k1, k2, o.Size)
		}
		return cbcmac.NewANSIRetailMACWithPadding(cr, k1, k2, o.Size, padFunc(o.Pad))
	case 4:
		if o.Pad == 0 {
			return cbcmac.NewMACDES(cr, k1, k2, o.Size)
		}
		return cbcmac.NewMACDESWithPadding(cr, k1, k2, o.Size, padFunc(o.Pad))
	case 5:
		return cbcmac.NewCMAC(blk(), o.Size)
	case 6:
		if o.Pad == 0 {
			return cbcmac.NewLMAC(cr, k1, o.Size)
		}
		return cbcmac.NewLMACWithPadding(cr, k1, o.Size, padFunc(o.Pad))
	case 7:
		return cbcmac.NewTRCBCMAC(blk(), o.Size)
	case 8:
		return cbcmac.NewCBCRMAC(blk(), o.Size)
	}
	panic("bad scheme")
}

// label records the object's classes and the object part of the NT rule.
func (o Obj) label(r *h.Rec) {
	r.Label(schemeNames[o.Scheme])
	r.Label(ciphNames[o.Ci])
	if o.bs() == 8 {
		r.Label("bs=8")
		r.NT()
	}
	if o.Size < o.bs() {
		r.Label("size<bs")
		r.NT()
	} else {
		r.Label("size=bs")
	}
	switch o.Pad {
	case 2:
		r.Label("withpadding-m2")
	case 3:
		r.Label("withpadding-m3")
		r.NT()
	}
}

// ---------------------------------------------------------------- messages

// Content variants: 0 pseudo-random, 1 all 0x00, 2 all 0xff, 3 random ending
// in 0x80 (looks like method-2 padding), 4 random ending in 0x80 00 00,
// 5 random with the first byte of the last block forced to 0x80 / 6 to 0x00
// (the bit a non-cyclic CBCR shift would drop).
const nContent = 7

func buildMsg(seed uint64, n, content, bs int) []byte {
	m := gen.Fill(gen.Mix(seed, uint64(n), 0x6d7367), n)
	if n == 0 {
		return m
	}
	switch content {
	case 1:
		for i := range m {
			m[i] = 0
		}
	case 2:
		for i := range m {
			m[i] = 0xff
		}
	case 3:
		m[n-1] = 0x80
	case 4:
		for i := n - 1; i >= 0 && i >= n-3; i-- {
			m[i] = 0
		}
		if n >= 3 {
			m[n-3] = 0x80
		} else {
			m[0] = 0x80
		}
	case 5:
		m[(n-1)/bs*bs] |= 0x80
	case 6:
		m[(n-1)/bs*bs] &^= 0x80
	}
	return m
}

const sentinel = 0xA5

// Flavours of a zero-length slice argument (h.B cannot tell them apart, so
// the cases carry the flavour explicitly).
const (
	zNil   = 0 // nil
	zEmpty = 1 // []byte{}
	zBuf0  = 2 // buf[:0] of a non-empty buffer (spare capacity >= 1, sentinel-filled)
)

var zNames = []string{"zero-length:nil", "zero-length:[]byte{}", "zero-length:buf[:0]"}

// argSlice returns the slice handed to the library for the bytes m: a private
// copy inside a backing array that has spare more bytes of capacity,
// pre-filled with a sentinel. For a zero-length m the flavour z decides
// between nil, []byte{} and buf[:0] (nil and []byte{} have no capacity, so
// spare is ignored for them; buf[:0] has at least one spare byte).
func argSlice(m []byte, spare, z int, seen *[3]bool) (msg, backing []byte) {
	if len(m) == 0 {
		seen[z] = true
		switch z {
		case zNil:
			return nil, nil
		case zEmpty:
			return []byte{}, nil
		}
		spare = max(spare, 1)
	}
	backing = make([]byte, len(m)+spare)
	for i := range backing {
		backing[i] = sentinel
	}
	copy(backing, m)
	return backing[:len(m)], backing
}

// labelFlavours records which zero-length flavours a case handed over.
func labelFlavours(r *h.Rec, seen *[3]bool) {
	for z, ok := range seen {
		if ok {
			r.Label(zNames[z])
			r.NT()
		}
	}
}

func spareUntouched(backing []byte, n int) bool {
	for i := n; i < len(backing); i++ {
		if backing[i] != sentinel {
			return false
		}
	}
	return true
}

func lenLabels(r *h.Rec, n, bs int) {
	switch {
	case n == 0:
		r.Label("len=0")
	case n < bs:
		r.Label("len<bs")
	case n == bs:
		r.Label("len=bs")
	case n%bs == 0:
		r.Label("len=k*bs")
	case n%bs == 1:
		r.Label("len=k*bs+1")
	case n%bs == bs-1:
		r.Label("len=k*bs-1")
	default:
		r.Label("len-other-residue")
	}
	if n > 6*bs {
		r.Label("len>6bs")
	}
}

// ---------------------------------------------------------------- oracles

// checkTag decides the value and size relations for one tag: got must be the
// model's full MAC truncated to o.Size. Disagreements that a bug-compatible
// model reproduces exactly are excused only while the corresponding finding
// is listed as open.
func checkTag(o Obj, msg, got []byte, r *h.Rec, what string) error {
	if len(got) != o.Size {
		return fmt.Errorf("%s: %v: tag has %d bytes, requested %d (msg=%s tag=%s)", what, o, len(got), o.Size, h.Hex(msg), h.Hex(got))
	}
	k1, k2 := o.keys()
	full, right := refMAC(o.Scheme, o.Ci, o.padMethod(), k1, k2, msg, vStd)
	want := truncTag(full, o.Size, right)
	if bytes.Equal(got, want) {
		return nil
	}
	if o.Scheme == 8 {
		fullKF, rightKF := refMAC(o.Scheme, o.Ci, o.padMethod(), k1, k2, msg, vCBCRShift)
		if bytes.Equal(got, truncTag(fullKF, o.Size, rightKF)) && r.Known(kfCBCR) {
			r.Label("known:" + kfCBCR + ":value")
			return nil
		}
	}
	return fmt.Errorf("%s: %v: tag %s differs from the GB/T 15852.1 value %s (full MAC %s) for the %d-byte message %s; keys %s / %s",
		what, o, h.Hex(got), h.Hex(want), h.Hex(full), len(msg), h.Hex(msg), h.Hex(k1), h.Hex(k2))
}

// freshTag is the model-free reference for history independence: the same
// message on a brand-new object, in one MAC call, from a private copy.
func freshTag(o Obj, msg []byte) []byte {
	return newLib(o).MAC(append([]byte{}, msg...))
}

// ---------------------------------------------------------------- value sweep

type valCase struct {
	Obj
	Len      int
	Content  int
	Spare    int
	Seed     uint64
	Z        int  // flavour of the zero-length message (Len == 0 only): zNil, zEmpty, zBuf0
	Scribble bool // overwrite keys, message slice and returned tag after each call
	KeyFlav  int  // flavour of the key slices handed to the constructor: kfExact, kfSpare, kfViews
}

func (c valCase) Key() string {
	return fmt.Sprintf("%d/%d/%d/%d/%d/%d/%d/%d/%v/%d", c.Scheme, c.Ci, c.Pad, c.Size, c.Len, c.Content, c.Spare, c.Z, c.Scribble, c.KeyFlav)
}

// retainer is the mirror image of the scribble discipline: every slice the
// object hands back during a history (MAC results, Sum results) is KEPT by
// the "caller" together with a private copy of its whole capacity taken at
// once (after the caller's own scribbling, if any). After every later
// operation on the object - and on any other object of the library - and at
// the end of the history each kept slice must still hold exactly what the
// caller last saw in it: a result that aliases the object's internal state, a
// reused working buffer, another result or library-owned memory changes
// under the caller's hands. (Sum(dst) appending into dst's own backing array
// is fine: that memory is the caller's and every op uses a buffer of its own.)
type retainer struct {
	items []keptSlice
}

type keptSlice struct {
	s, want []byte
	what    string
}

func (k *retainer) keep(s []byte, what string) {
	s = s[:cap(s)]
	k.items = append(k.items, keptSlice{s, append([]byte{}, s...), what})
}

func (k *retainer) verify(o Obj, after string) error {
	for _, it := range k.items {
		if !bytes.Equal(it.s, it.want) {
			return fmt.Errorf("%v: the slice returned by %s was %s when the caller kept it and is %s after %s: the result aliases memory that the object, a later result or the library still writes to",
				o, it.what, h.Hex(it.want), h.Hex(it.s), after)
		}
	}
	return nil
}

// overlaps reports whether the memory of a (whole capacity) and b (whole
// capacity) intersect.
func overlaps(a, b []byte) bool {
	a, b = a[:cap(a)], b[:cap(b)]
	if len(a) == 0 || len(b) == 0 {
		return false
	}
	a0 := uintptr(unsafe.Pointer(unsafe.SliceData(a)))
	b0 := uintptr(unsafe.Pointer(unsafe.SliceData(b)))
	return a0 < b0+uintptr(len(b)) && b0 < a0+uintptr(len(a))
}

// macCall runs MAC on a private copy of orig handed over in the flavour
// (spare, z), checks that the message bytes are intact and returns a private
// copy of the tag. With scrib the argument slice (spare capacity included)
// and the returned slice (up to its capacity) are overwritten with garbage
// afterwards: nothing the object does later may depend on either.
//
// The returned slice is kept in keep (see retainer); it must not share memory
// with the caller's message slice or its spare capacity (MAC documents no
// append semantics for its result).
func macCall(m cbcmac.BlockCipherMAC, o Obj, orig []byte, spare, z int, scrib bool, r *h.Rec, seen *[3]bool, keep *retainer) ([]byte, error) {
	msg, backing := argSlice(orig, spare, z, seen)
	ret := m.MAC(msg)
	tag := append([]byte{}, ret...)
	if overlaps(ret, backing) || overlaps(ret, msg) {
		return nil, fmt.Errorf("%v: the slice returned by MAC shares memory with the caller's message slice (len %d, spare capacity %d)", o, len(orig), spare)
	}
	if !bytes.Equal(msg, orig) {
		return nil, fmt.Errorf("%v: MAC modified the caller's message (spare capacity %d): %s -> %s", o, spare, h.Hex(orig), h.Hex(msg))
	}
	if backing != nil && !spareUntouched(backing, len(orig)) {
		// append-style padding into the caller's spare capacity: outside the
		// property statement (only the message bytes are protected); recorded
		r.Label("observed:spare-capacity-written")
	}
	if scrib {
		scribble(ret)
		scribble(backing)
	}
	keep.keep(ret, fmt.Sprintf("MAC(%d bytes)", len(orig)))
	return tag, nil
}

func checkVal(c valCase, r *h.Rec) error {
	o := c.Obj
	bs := o.bs()
	o.label(r)
	lenLabels(r, c.Len, bs)
	if c.Spare > 0 {
		r.Label("spare>0")
		r.NT()
	}
	if c.Content > 0 {
		r.Label("structured-content")
	}
	if c.Scribble {
		r.Label("scribble")
	}
	orig := buildMsg(c.Seed, c.Len, c.Content, bs)
	r.Label(keyFlavNames[c.KeyFlav])
	m, km, err := newLibK(o, c.KeyFlav, c.Scribble)
	if err != nil {
		return err
	}
	if m.Size() != o.Size {
		return fmt.Errorf("%v: Size() = %d, requested %d", o, m.Size(), o.Size)
	}
	if cm, ok := m.(cmacFace); ok && cm.BlockSize() != bs {
		return fmt.Errorf("%v: BlockSize() = %d, cipher block size %d", o, cm.BlockSize(), bs)
	}
	var seen [3]bool
	var keep retainer
	tag, err := macCall(m, o, orig, c.Spare, c.Z, c.Scribble, r, &seen, &keep)
	if err != nil {
		return err
	}
	if err := km.verify(o, "the first MAC"); err != nil {
		return err
	}
	labelFlavours(r, &seen)
	if err := checkTag(o, orig, tag, r, "fresh object"); err != nil {
		return err
	}
	if m.Size() != o.Size {
		return fmt.Errorf("%v: Size() = %d after MAC, requested %d", o, m.Size(), o.Size)
	}
	// cheap history: another message of another length class, then m again
	other := buildMsg(c.Seed^0x5a5a, c.Len+bs/2+1, 0, bs)
	if _, err := macCall(m, o, other, 0, zEmpty, c.Scribble, &h.Rec{}, &seen, &keep); err != nil {
		return err
	}
	if err := keep.verify(o, "MAC(m') on the same object"); err != nil {
		return err
	}
	again, err := macCall(m, o, orig, 0, (c.Z+1)%3, c.Scribble, &h.Rec{}, &seen, &keep)
	if err != nil {
		return err
	}
	if err := keep.verify(o, "MAC(m'); MAC(m) on the same object"); err != nil {
		return err
	}
	if err := km.verify(o, "MAC(m); MAC(m'); MAC(m)"); err != nil {
		return err
	}
	if !bytes.Equal(again, tag) {
		return fmt.Errorf("%v: MAC(m) on a fresh object = %s, after MAC(m); MAC(m') on the same object = %s (m=%s, m'=%s, scribble=%v)", o, h.Hex(tag), h.Hex(again), h.Hex(orig), h.Hex(other), c.Scribble)
	}
	return nil
}

// ciphersForCfg: only SM4 comes from the library and changes with the
// dispatch configuration; AES/DES/TDEA are the standard library's in every
// configuration and are exercised in the default configuration only.
func ciphersForCfg() []int {
	if h.Cfg == "default" {
		return []int{ciSM4, ciAES128, ciAES256, ciDES, ci3DES}
	}
	return []int{ciSM4}
}

func padVariants(scheme int) []int {
	if hasPadCtor(scheme) {
		return []int{0, 2, 3}
	}
	return []int{0}
}

func spareClasses(bs int) []int { return []int{0, 1, bs, 4 * bs} }

func enumVal(emit func(valCase), ciphers []int) {
	full := h.Thorough()
	i := 0
	for _, ci := range ciphers {
		bs := ciphBS[ci]
		for n := 0; n <= 5*bs+1; n++ {
			for scheme := 1; scheme <= 8; scheme++ {
				if !validCombo(scheme, ci) {
					continue
				}
				for _, pad := range padVariants(scheme) {
					for size := 1; size <= bs; size++ {
						ks := gen.Mix(h.Seed, uint64(scheme), uint64(ci), uint64(pad), uint64(n), uint64(size))
						for _, spare := range spareClasses(bs) {
							if full {
								for content := 0; content < nContent; content++ {
									if n == 0 && content > 0 {
										continue
									}
									emit(valCase{Obj{scheme, ci, pad, size, ks}, n, content, spare, ks, zBuf0, content%2 == 0, (content + spare) % 3})
									if n == 0 && spare == 0 {
										emit(valCase{Obj{scheme, ci, pad, size, ks}, n, content, spare, ks, zNil, true, kfViews})
										emit(valCase{Obj{scheme, ci, pad, size, ks}, n, content, spare, ks, zEmpty, false, kfSpare})
									}
								}
							} else {
								// every (scheme, cipher, ctor, size, len, spare class); content rotates
								content := i % nContent
								if n == 0 {
									content = 0
								}
								// three quarters of the cases scribble; the zero-length message
								// comes as nil and []byte{} (no capacity) and as buf[:0] (spare >= 1)
								z := zBuf0
								if n == 0 && spare == 0 {
									z = size % 2 // zNil / zEmpty
								}
								emit(valCase{Obj{scheme, ci, pad, size, ks}, n, content, spare, ks, z, i%4 != 3, i / 4 % 3})
								i++
							}
						}
					}
				}
			}
		}
	}
}

func TestC19_ValueSweepSM4(t *testing.T) {
	h.MarkExhaustive("value-sm4")
	h.Sweep(t, h.P{Name: "value-sm4"}, func(emit func(valCase)) { enumVal(emit, []int{ciSM4}) }, checkVal)
}

func TestC19_ValueSweepOther(t *testing.T) {
	if h.Cfg != "default" {
		t.Skip("AES/DES/TDEA are the standard library's in every configuration")
	}
	h.MarkExhaustive("value-other")
	h.Sweep(t, h.P{Name: "value-other"}, func(emit func(valCase)) {
		enumVal(emit, []int{ciDES, ci3DES, ciAES128, ciAES256})
	}, checkVal)
}

// ---------------------------------------------------------------- histories (op lists)

// Op is one step of a history on ONE object.
//
//	mac   : MAC(msg) with msg = buildMsg(seed_i, N, C) in a slice with Spare spare capacity
//	write : (CMAC) Write(N bytes)                       - extends the streamed message
//	sum   : (CMAC) Sum(prefix of N bytes)               - must not disturb the state
//	reset : (CMAC) Reset()
//
// The state of the streaming face after MAC() is not specified anywhere, so
// the interpreter follows every mac op on a CMAC object with an explicit
// Reset() and starts a new streamed message.
type Op struct {
	K     string `json:"k"`
	N     int    `json:"n"`
	C     int    `json:"c,omitempty"`
	Spare int    `json:"spare,omitempty"` // spare capacity of the slice argument (mac, write, sum)
	Z     int    `json:"z,omitempty"`     // flavour of a zero-length slice argument: zNil, zEmpty, zBuf0
}

type histCase struct {
	Obj
	Ops      []Op
	Seed     uint64
	Scribble bool // overwrite keys, every slice argument and every returned slice right after the call
	KeyFlav  int  // flavour of the key slices handed to the constructor: kfExact, kfSpare, kfViews
}

func (c histCase) Key() string {
	s := fmt.Sprintf("%d/%d/%d/%d/%x/%v/%d", c.Scheme, c.Ci, c.Pad, c.Size, c.KeySeed, c.Scribble, c.KeyFlav)
	for _, op := range c.Ops {
		s += fmt.Sprintf("|%s%d.%d.%d.%d", op.K[:1], op.N, op.C, op.Spare, op.Z)
	}
	return s
}

func checkHist(c histCase, r *h.Rec) error {
	o := c.Obj
	bs := o.bs()
	o.label(r)
	if c.Scribble {
		r.Label("scribble")
	}
	r.Label(keyFlavNames[c.KeyFlav])
	m, km, err := newLibK(o, c.KeyFlav, c.Scribble)
	if err != nil {
		return err
	}
	cm, isCMAC := m.(cmacFace)
	if isCMAC != (o.Scheme == 5) {
		return fmt.Errorf("%v: hash.Hash face present = %v", o, isCMAC)
	}
	var stream []byte // bytes written since the last Reset
	var seen [3]bool
	var keep retainer // every slice the object handed back, see retainer
	nMac, nWrite, nSum, empties, boundary := 0, 0, 0, 0, 0
	// sumCheck: Sum(in) with in = prefixLen bytes in the flavour (spare, z);
	// Sum is documented to append, so spare capacity of in may be used.
	sumCheck := func(i, prefixLen, spare, z int) error {
		prefix := gen.Fill(gen.Mix(c.Seed, uint64(i), 0x707265), prefixLen)
		in, backing := argSlice(prefix, spare, z, &seen)
		out := cm.Sum(in)
		if len(out) < prefixLen || !bytes.Equal(out[:prefixLen], prefix) || !bytes.Equal(in, prefix) {
			return fmt.Errorf("op %d: %v: Sum(in) does not start with in or modified in: in=%s now %s out=%s", i, o, h.Hex(prefix), h.Hex(in), h.Hex(out))
		}
		tag := append([]byte{}, out[prefixLen:]...)
		if c.Scribble {
			scribble(out)
			scribble(backing)
		}
		keep.keep(out, fmt.Sprintf("Sum (op %d, %d-byte prefix, flavour %d, spare %d)", i, prefixLen, z, spare))
		after := describe(c.Ops[:min(i, len(c.Ops))])
		// model-free relation first: it needs no reference to be believed
		if fresh := freshTag(o, stream); !bytes.Equal(tag, fresh) {
			return fmt.Errorf("op %d: %v: history dependence: Sum after %s = %s, MAC of the same %d bytes on a fresh object = %s (streamed message %s, scribble=%v)",
				i, o, after, h.Hex(tag), len(stream), h.Hex(fresh), h.Hex(stream), c.Scribble)
		}
		if err := checkTag(o, stream, tag, r, fmt.Sprintf("op %d: Sum after %s", i, after)); err != nil {
			return err
		}
		return nil
	}
	for i, op := range c.Ops {
		switch op.K {
		case "mac":
			nMac++
			orig := buildMsg(gen.Mix(c.Seed, uint64(i)), op.N, op.C, bs)
			tag, err := macCall(m, o, orig, op.Spare, op.Z, c.Scribble, r, &seen, &keep)
			if err != nil {
				return fmt.Errorf("op %d: %v", i, err)
			}
			if fresh := freshTag(o, orig); !bytes.Equal(tag, fresh) {
				return fmt.Errorf("op %d: %v: history dependence: MAC(m) after %s = %s, on a fresh object = %s (m=%s, scribble=%v)", i, o, describe(c.Ops[:i]), h.Hex(tag), h.Hex(fresh), h.Hex(orig), c.Scribble)
			}
			if err := checkTag(o, orig, tag, r, fmt.Sprintf("op %d: MAC after %s", i, describe(c.Ops[:i]))); err != nil {
				return err
			}
			if isCMAC {
				cm.Reset()
				stream = stream[:0]
			}
		case "write":
			if !isCMAC {
				return fmt.Errorf("harness: write op on a scheme without a streaming face")
			}
			nWrite++
			if op.N == 0 {
				empties++
			} else if (len(stream)+op.N)%bs == 0 {
				boundary++
			}
			data := buildMsg(gen.Mix(c.Seed, uint64(i)), op.N, op.C, bs)
			p, backing := argSlice(data, op.Spare, op.Z, &seen)
			n, err := cm.Write(p)
			if n != op.N || err != nil {
				return fmt.Errorf("op %d: %v: Write(%d bytes) = (%d, %v)", i, o, op.N, n, err)
			}
			// io.Writer: "Write must not modify the slice data, even temporarily.
			// Implementations must not retain p."
			if !bytes.Equal(p, data) || !spareUntouched(backing, op.N) {
				return fmt.Errorf("op %d: %v: Write modified its argument or the spare capacity behind it", i, o)
			}
			if c.Scribble {
				scribble(backing)
			}
			stream = append(stream, data...)
		case "sum":
			if !isCMAC {
				return fmt.Errorf("harness: sum op on a scheme without a streaming face")
			}
			nSum++
			if err := sumCheck(i, op.N, op.Spare, op.Z); err != nil {
				return err
			}
		case "reset":
			if !isCMAC {
				return fmt.Errorf("harness: reset op on a scheme without a streaming face")
			}
			cm.Reset()
			stream = stream[:0]
		default:
			return fmt.Errorf("harness: unknown op %q", op.K)
		}
		if m.Size() != o.Size {
			return fmt.Errorf("op %d: %v: Size() = %d", i, o, m.Size())
		}
		// after every operation (and the fresh-object computations that went
		// with it) everything handed back earlier is still what the caller saw
		if err := keep.verify(o, describe(c.Ops[:i+1])); err != nil {
			return fmt.Errorf("op %d: %v", i, err)
		}
		if err := km.verify(o, describe(c.Ops[:i+1])); err != nil {
			return fmt.Errorf("op %d: %v", i, err)
		}
	}
	if isCMAC {
		// every streaming history ends in an observation, twice (Sum; Sum)
		final := seen // the closing observations do not count as generated flavours
		for k := 0; k < 2; k++ {
			if err := sumCheck(len(c.Ops), 0, k*2*bs, zBuf0*k); err != nil {
				return err
			}
		}
		seen = final
		if err := keep.verify(o, describe(c.Ops)+"; Sum; Sum"); err != nil {
			return err
		}
		got := cm.MAC(append([]byte{}, stream...))
		keep.keep(got, "the closing MAC")
		if !bytes.Equal(got, freshTag(o, stream)) {
			return fmt.Errorf("%v: history dependence: final MAC(m) after %s = %s, fresh = %s", o, describe(c.Ops), h.Hex(got), h.Hex(freshTag(o, stream)))
		}
		cm.Reset()
		cm.Write([]byte{0x5a})
		cm.Sum(nil)
	}
	if err := keep.verify(o, "the whole history "+describe(c.Ops)); err != nil {
		return err
	}
	if err := km.verify(o, "the whole history "+describe(c.Ops)); err != nil {
		return err
	}
	if len(keep.items) > 1 {
		r.Label("retained-results>1")
	}
	labelFlavours(r, &seen)
	if nMac+nWrite > 1 || (nWrite > 0 && nSum > 0) {
		r.NT()
	}
	if nMac > 1 {
		r.Label("reuse:mac;mac")
	}
	if nWrite > 1 {
		r.Label("partition")
	}
	if nSum > 0 && nWrite > 0 {
		r.Label("interleaved-sum")
	}
	if empties > 0 {
		r.Label("empty-write")
	}
	if boundary > 0 {
		r.Label("write-ends-on-block-boundary")
	}
	if nMac > 0 && nWrite > 0 {
		r.Label("mac-between-writes")
	}
	return nil
}

func describe(ops []Op) string {
	if len(ops) == 0 {
		return "nothing (fresh object)"
	}
	s := ""
	for i, op := range ops {
		if i > 0 {
			s += "; "
		}
		if i >= 12 {
			s += fmt.Sprintf("... (%d ops)", len(ops))
			break
		}
		switch op.K {
		case "reset":
			s += "Reset"
		default:
			s += fmt.Sprintf("%s(%d)", op.K, op.N)
		}
	}
	return s
}

// histKey varies the key with the shape of the case, so that both values of
// the subkey-derivation carry bits occur many times.
func histKey(parts ...int) uint64 {
	u := make([]uint64, len(parts))
	for i, p := range parts {
		u[i] = uint64(p)
	}
	return gen.Mix(h.Seed, u...)
}

// TestC19_ReusePairs: MAC(m1); MAC(m2) on one object for every pair of
// lengths, every construction.
func TestC19_ReusePairs(t *testing.T) {
	h.MarkExhaustive("reuse-pairs")
	h.Sweep(t, h.P{Name: "reuse-pairs"}, func(emit func(histCase)) {
		i := 0
		for _, ci := range ciphersForCfg() {
			bs := ciphBS[ci]
			maxLen := h.Scale(3*bs+1, 5*bs+1)
			for scheme := 1; scheme <= 8; scheme++ {
				if !validCombo(scheme, ci) {
					continue
				}
				pads := padVariants(scheme)
				for n1 := 0; n1 <= maxLen; n1++ {
					for n2 := 0; n2 <= maxLen; n2++ {
						// size: full and a short one alternate; constructor flavour rotates
						size := bs
						if i%2 == 1 {
							size = 1 + (i/2)%(bs-1)
						}
						pad := pads[i%len(pads)]
						ks := histKey(scheme, ci, n1, n2)
						// zero-length messages rotate through nil / []byte{} / buf[:0]; three quarters scribble
						emit(histCase{Obj{scheme, ci, pad, size, ks}, []Op{
							{K: "mac", N: n1, Spare: (i % 3) * bs / 2, Z: i / 2 % 3},
							{K: "mac", N: n2, Spare: (i / 3 % 3) * bs / 2, Z: i / 5 % 3}}, ks, i%4 != 1, i / 4 % 3})
						i++
					}
				}
			}
		}
	}, checkHist)
}

// TestC19_CMACPartitions: every message length and every split into up to
// three writes (empty writes and splits on block boundaries included), Sum
// after every write; a quarter of the cases run on an object that was used
// before (MAC of a message with a ragged tail, or Write; Reset).
func TestC19_CMACPartitions(t *testing.T) {
	h.MarkExhaustive("cmac-partitions")
	h.Sweep(t, h.P{Name: "cmac-partitions"}, func(emit func(histCase)) {
		i := 0
		for _, ci := range ciphersForCfg() {
			bs := ciphBS[ci]
			max2 := 5*bs + 1
			max3 := h.Scale(3*bs+1, 5*bs+1)
			for n := 0; n <= max2; n++ {
				for a := 0; a <= n; a++ {
					for b := 0; b <= n-a; b++ {
						cc := n - a - b
						if n > max3 && cc != 0 {
							continue // above max3 only the two-way splits
						}
						size := bs
						if i%4 == 3 {
							size = 1 + (i/4)%(bs-1)
						}
						ks := histKey(5, ci, n, a, b)
						var ops []Op
						switch i % 8 {
						case 2:
							ops = append(ops, Op{K: "mac", N: bs + 1 + i%(bs-1)})
						case 6:
							ops = append(ops, Op{K: "write", N: 2*bs + 1 + i%(bs-1)}, Op{K: "reset"})
						}
						// empty writes and empty Sum prefixes rotate through nil / []byte{} / buf[:0];
						// write buffers and Sum prefixes get spare capacity in turn; three quarters scribble
						ops = append(ops,
							Op{K: "write", N: a, Z: i % 3, Spare: (i / 3 % 2) * bs},
							Op{K: "sum", N: i % 3, Z: i / 3 % 3, Spare: (i / 2 % 3) * bs},
							Op{K: "write", N: b, Z: i / 2 % 3},
							Op{K: "sum", Z: i / 4 % 3, Spare: (i % 3) * bs},
							Op{K: "write", N: cc, Z: i / 5 % 3, Spare: (i / 7 % 2) * 3})
						emit(histCase{Obj{5, ci, 0, size, ks}, ops, ks, i%4 != 2, i / 4 % 3})
						i++
					}
				}
			}
		}
	}, checkHist)
}

func genObj(t *rapid.T, schemes []int) Obj {
	ci := rapid.SampledFrom(ciphersForCfg()).Draw(t, "cipher")
	var ok []int
	for _, s := range schemes {
		if validCombo(s, ci) {
			ok = append(ok, s)
		}
	}
	scheme := rapid.SampledFrom(ok).Draw(t, "scheme")
	pad := rapid.SampledFrom(padVariants(scheme)).Draw(t, "ctor")
	bs := ciphBS[ci]
	size := rapid.OneOf(rapid.Just(bs), rapid.IntRange(1, bs)).Draw(t, "size")
	return Obj{scheme, ci, pad, size, rapid.Uint64().Draw(t, "keyseed")}
}

// TestC19_RandomHistories: all constructions, 1..4 MAC calls on one object,
// lengths up to 2 KiB biased to block boundaries, random keys.
func TestC19_RandomHistories(t *testing.T) {
	h.Prop(t, h.P{Name: "random-histories", Quick: 30000, Thorough: 2400000}, func(t *rapid.T) histCase {
		o := genObj(t, []int{1, 2, 3, 4, 5, 6, 7, 8})
		bs := o.bs()
		n := rapid.IntRange(1, 4).Draw(t, "nops")
		ops := make([]Op, n)
		for i := range ops {
			ops[i] = Op{K: "mac",
				N:     gen.LenClass(2048, bs).Draw(t, "len"),
				C:     rapid.SampledFrom([]int{0, 0, 0, 1, 2, 3, 4, 5, 6}).Draw(t, "content"),
				Spare: rapid.SampledFrom([]int{0, 0, 1, bs - 1, bs, 4 * bs}).Draw(t, "spare"),
				Z:     rapid.IntRange(0, 2).Draw(t, "zero-flavour")}
			if rapid.IntRange(0, 9).Draw(t, "force-empty") == 0 {
				ops[i].N = 0
			}
		}
		return histCase{o, ops, rapid.Uint64().Draw(t, "seed"), rapid.IntRange(0, 3).Draw(t, "scribble") != 0, rapid.IntRange(0, 2).Draw(t, "key-flavour")}
	}, checkHist)
}

// TestC19_CMACStateMachine: the hash.Hash face of CMAC as a state machine:
// Write (empty, short, to the next block boundary, whole blocks, long), Sum,
// Reset and MAC in any order.
func TestC19_CMACStateMachine(t *testing.T) {
	h.Prop(t, h.P{Name: "cmac-statemachine", Quick: 30000, Thorough: 2400000}, func(t *rapid.T) histCase {
		o := genObj(t, []int{5})
		bs := o.bs()
		n := rapid.IntRange(1, 12).Draw(t, "nops")
		var ops []Op
		pos := 0 // length of the streamed message, to aim at block boundaries
		for i := 0; i < n; i++ {
			switch rapid.SampledFrom([]string{"write", "write", "write", "write", "sum", "sum", "reset", "mac"}).Draw(t, "op") {
			case "write":
				var k int
				switch rapid.IntRange(0, 7).Draw(t, "wkind") {
				case 0:
					k = 0
				case 1:
					k = rapid.IntRange(1, bs-1).Draw(t, "short")
				case 2:
					k = bs - pos%bs // ends exactly on a block boundary
				case 3:
					k = bs - pos%bs + bs*rapid.IntRange(1, 3).Draw(t, "blocks")
				case 4:
					k = bs * rapid.IntRange(1, 4).Draw(t, "whole")
				case 5:
					k = bs - pos%bs + rapid.SampledFrom([]int{-1, 1}).Draw(t, "off")
					if k < 0 {
						k += bs
					}
				case 6:
					k = rapid.IntRange(0, 5*bs+1).Draw(t, "any")
				default:
					k = gen.LenClass(2048, bs).Draw(t, "long")
				}
				pos += k
				ops = append(ops, Op{K: "write", N: k, C: rapid.SampledFrom([]int{0, 0, 0, 1, 2}).Draw(t, "content"),
					Z: rapid.IntRange(0, 2).Draw(t, "zero-flavour"), Spare: rapid.SampledFrom([]int{0, 0, 1, bs}).Draw(t, "spare")})
			case "sum":
				ops = append(ops, Op{K: "sum", N: rapid.SampledFrom([]int{0, 0, 1, 2, 3}).Draw(t, "prefix"),
					Z: rapid.IntRange(0, 2).Draw(t, "zero-flavour"), Spare: rapid.SampledFrom([]int{0, 1, bs / 2, bs, 2 * bs}).Draw(t, "spare")})
			case "reset":
				pos = 0
				ops = append(ops, Op{K: "reset"})
			case "mac":
				pos = 0
				ops = append(ops, Op{K: "mac", N: gen.LenClass(6*bs, bs).Draw(t, "len"), Spare: rapid.SampledFrom([]int{0, 1, bs}).Draw(t, "spare"),
					Z: rapid.IntRange(0, 2).Draw(t, "zero-flavour")})
			}
		}
		return histCase{o, ops, rapid.Uint64().Draw(t, "seed"), rapid.IntRange(0, 3).Draw(t, "scribble") != 0, rapid.IntRange(0, 2).Draw(t, "key-flavour")}
	}, checkHist)
}

// ---------------------------------------------------------------- length boundaries

// boundaryLens: message lengths around the points where a byte or block
// counter, an offset or the method-3 bit-length field grows by one byte:
// 255/256 and 65535/65536 bytes and blocks, and 8192 bytes = 2^16 bits.
func boundaryLens(bs int) []int {
	var out []int
	seen := map[int]bool{}
	for _, c := range []int{255, 256, 8192, 65535, 65536, 255 * bs, 256 * bs, 65535 * bs, 65536 * bs} {
		for d := -1; d <= 1; d++ {
			if n := c + d; !seen[n] {
				seen[n] = true
				out = append(out, n)
			}
		}
	}
	for i := range out { // smallest first
		for j := i + 1; j < len(out); j++ {
			if out[j] < out[i] {
				out[i], out[j] = out[j], out[i]
			}
		}
	}
	return out
}

// TestC19_LengthBoundaries: every construction x cipher at the lengths of
// boundaryLens (constructor flavour, tag size, spare capacity and scribbling
// rotate in the quick tier; full flavour product in thorough), method 3
// additionally at 2^21 bytes = 2^24 bits, and CMAC streams whose writes cross
// the same boundaries.
func TestC19_LengthBoundaries(t *testing.T) {
	h.Sweep(t, h.P{Name: "length-boundaries"}, func(emit func(valCase)) {
		i := 0
		for _, ci := range ciphersForCfg() {
			bs := ciphBS[ci]
			for idx, n := range boundaryLens(bs) {
				for scheme := 1; scheme <= 8; scheme++ {
					if !validCombo(scheme, ci) {
						continue
					}
					pads := padVariants(scheme)
					if !h.Thorough() {
						pads = []int{pads[(idx+scheme)%len(pads)]}
					}
					for _, pad := range pads {
						size := bs
						if i%2 == 1 {
							size = 1 + i/2%(bs-1)
						}
						ks := histKey(scheme, ci, pad, n)
						emit(valCase{Obj{scheme, ci, pad, size, ks}, n, []int{0, 0, 2, 5}[i%4], (i / 2 % 2) * bs, ks, zBuf0, i%3 != 0, i / 3 % 3})
						i++
					}
				}
			}
			for scheme := 1; scheme <= 8; scheme++ {
				if !validCombo(scheme, ci) || !hasPadCtor(scheme) {
					continue
				}
				for d := -1; d <= 1; d++ {
					ks := histKey(scheme, ci, 3, d)
					emit(valCase{Obj{scheme, ci, 3, bs, ks}, 1<<21 + d, 0, 0, ks, zBuf0, d == 0, d + 1})
				}
			}
		}
	}, checkVal)
	h.Sweep(t, h.P{Name: "length-boundaries-stream"}, func(emit func(histCase)) {
		for _, ci := range ciphersForCfg() {
			bs := ciphBS[ci]
			w := func(n int) Op { return Op{K: "write", N: n} }
			sum := Op{K: "sum"}
			for j, ops := range [][]Op{
				{w(255 * bs), sum, w(bs), sum, w(1)},
				{w(256*bs - 1), w(1), sum, w(1)},
				{w(255), w(1), sum, w(1), sum, w(65535 - 257), sum, w(1), sum, w(1)},
				{w(65535 * bs), sum, w(bs), sum, w(bs + 1)},
				{w(65536*bs + 1), {K: "reset"}, w(65536*bs - 1), sum, w(1), sum, w(1)},
				{{K: "mac", N: 65536 * bs}, w(1), sum, {K: "mac", N: 65535*bs + 1}, w(256 * bs), sum},
			} {
				ks := histKey(5, ci, j)
				size := bs
				if j%2 == 1 {
					size = bs / 2
				}
				emit(histCase{Obj{5, ci, 0, size, ks}, ops, ks, j%3 != 2, j % 3})
			}
		}
	}, checkHist)
}

// ---------------------------------------------------------------- injectivity (one-bit pairs)

// bitCase: two messages of Len bytes that differ in exactly bit Bit (counted
// from the most significant bit of byte 0 of the block) of block Block.
//
// Why a collision is a violation: with a common key the two messages share
// every block but one. In all eight constructions every step applied to a
// chaining value - block encryption or decryption, XOR with a fixed block,
// the initial and final transformations, CMAC's subkey masks, CBCR's
// rotations - is a permutation of the block space when done as defined, the
// padding (method 2, method 3 with its length block, 10*) is the same for
// equal lengths, so different blocks at one position give different values
// at every later point of the chain, in particular different full-size MAC
// values. Only the full-size value is compared (truncation is not injective).
type bitCase struct {
	Obj
	Len     int
	Block   int
	Bit     int
	Content int
	Seed    uint64
}

func (c bitCase) Key() string {
	return fmt.Sprintf("%d/%d/%d/%d/%d/%d/%d", c.Scheme, c.Ci, c.Pad, c.Len, c.Block, c.Bit, c.Content)
}

func checkBit(c bitCase, r *h.Rec) error {
	o := c.Obj
	bs := o.bs()
	if o.Size != bs {
		return fmt.Errorf("harness: one-bit pairs are compared on full-size tags only")
	}
	o.label(r)
	lenLabels(r, c.Len, bs)
	r.NT()
	byteIdx := c.Block*bs + c.Bit/8
	if byteIdx >= c.Len {
		return fmt.Errorf("harness: bit outside the message")
	}
	last := c.Block == (c.Len-1)/bs
	if last {
		r.Label("onebit:last-block")
	} else {
		r.Label("onebit:earlier-block")
	}
	if c.Bit == 0 {
		r.Label("onebit:top-bit-of-block")
	}
	a := buildMsg(c.Seed, c.Len, c.Content, bs)
	b := append([]byte{}, a...)
	b[byteIdx] ^= 0x80 >> uint(c.Bit%8)
	// half of the pairs under the scribble discipline (a pure function of the case)
	scrib := c.Bit%2 == 0
	if scrib {
		r.Label("scribble")
	}
	var seen [3]bool
	r.Label(keyFlavNames[c.Bit/2%3])
	m, km, err := newLibK(o, c.Bit/2%3, scrib)
	if err != nil {
		return err
	}
	var keep retainer
	ta, err := macCall(m, o, a, c.Bit%3, zBuf0, scrib, r, &seen, &keep)
	if err != nil {
		return err
	}
	tb, err := macCall(m, o, b, 0, zBuf0, scrib, r, &seen, &keep)
	if err != nil {
		return err
	}
	if err := keep.verify(o, "the MAC of the second message of the pair"); err != nil {
		return err
	}
	if err := km.verify(o, "the two MACs of the pair"); err != nil {
		return err
	}
	if err := checkTag(o, a, ta, r, "one-bit pair, first message"); err != nil {
		return err
	}
	if err := checkTag(o, b, tb, r, "one-bit pair, second message"); err != nil {
		return err
	}
	if !bytes.Equal(ta, tb) {
		return nil
	}
	// a collision is excused only if the bug-compatible model predicts
	// exactly this collision and the finding is open
	if o.Scheme == 8 {
		k1, k2 := o.keys()
		fa, _ := refMAC(8, o.Ci, 2, k1, k2, a, vCBCRShift)
		fb, _ := refMAC(8, o.Ci, 2, k1, k2, b, vCBCRShift)
		if bytes.Equal(fa, fb) && bytes.Equal(fa, ta) && r.Known(kfCBCR) {
			r.Label("known:" + kfCBCR + ":collision")
			return nil
		}
	}
	return fmt.Errorf("%v: the final-block transformation is not injective: the %d-byte messages %s and %s differ only in bit %d of block %d and have the same full-size tag %s",
		o, c.Len, h.Hex(a), h.Hex(b), c.Bit, c.Block, h.Hex(ta))
}

// TestC19_OneBitPairs: every construction x cipher x constructor flavour x
// every length 1..3*bs+1 (thorough: 5*bs+1) x EVERY bit of the last block,
// plus the top and bottom bit of every byte of the earlier blocks.
func TestC19_OneBitPairs(t *testing.T) {
	h.MarkExhaustive("onebit-pairs")
	h.Sweep(t, h.P{Name: "onebit-pairs"}, func(emit func(bitCase)) {
		i := 0
		for _, ci := range ciphersForCfg() {
			bs := ciphBS[ci]
			maxLen := h.Scale(3*bs+1, 5*bs+1)
			for n := 1; n <= maxLen; n++ {
				for scheme := 1; scheme <= 8; scheme++ {
					if !validCombo(scheme, ci) {
						continue
					}
					for _, pad := range padVariants(scheme) {
						ks := histKey(scheme, ci, pad, n)
						o := Obj{scheme, ci, pad, bs, ks}
						lastBlk := (n - 1) / bs
						for blk := 0; blk <= lastBlk; blk++ {
							nbits := 8 * min(bs, n-blk*bs)
							for bit := 0; bit < nbits; bit++ {
								if blk != lastBlk && bit%8 != 0 && bit%8 != 7 {
									continue
								}
								content := []int{0, 1, 2, 0}[i%4]
								emit(bitCase{o, n, blk, bit, content, ks})
								i++
							}
						}
					}
				}
			}
		}
	}, checkBit)
}

// ---------------------------------------------------------------- constructor arguments are caller memory

// keyCase: several objects built one after the other from the SAME key
// slices. The constructors take their keys as slices; what they do to those
// bytes is visible to the caller and to every later constructor call.
type keyCase struct {
	Obj
	KeyFlav  int
	Len      int
	Seed     uint64
	Scribble bool // finally reuse the key memory for something else; the objects must not care
}

func (c keyCase) Key() string {
	return fmt.Sprintf("%d/%d/%d/%d/%d/%d/%v", c.Scheme, c.Ci, c.Pad, c.Size, c.KeyFlav, c.Len, c.Scribble)
}

func checkKeys(c keyCase, r *h.Rec) error {
	o := c.Obj
	bs := o.bs()
	o.label(r)
	r.NT()
	r.Label(keyFlavNames[c.KeyFlav])
	r.Label("keys:three-objects-from-the-same-slices")
	if c.Scribble {
		r.Label("scribble")
	}
	km := newKeyMat(o, c.KeyFlav)
	var keep retainer
	mac := func(m cbcmac.BlockCipherMAC, which string, msgSeed uint64, n int) error {
		msg := buildMsg(gen.Mix(c.Seed, msgSeed), n, 0, bs)
		ret := m.MAC(append([]byte{}, msg...))
		keep.keep(ret, "MAC on "+which)
		if err := checkTag(o, msg, ret, r, which); err != nil {
			return err
		}
		if err := km.verify(o, "MAC on "+which); err != nil {
			return err
		}
		if cm, ok := m.(cmacFace); ok { // the streaming face derives nothing new, but is an operation too
			cm.Reset()
			cm.Write(append([]byte{}, msg...))
			sum := cm.Sum(nil)
			keep.keep(sum, "Sum on "+which)
			if err := checkTag(o, msg, sum, r, which+" (Write; Sum)"); err != nil {
				return err
			}
			if err := km.verify(o, "Write; Sum on "+which); err != nil {
				return err
			}
		}
		return keep.verify(o, "MAC on "+which)
	}
	obj1 := buildLib(o, km.k1, km.k2)
	if err := km.verify(o, "the first constructor call"); err != nil {
		return err
	}
	obj2 := buildLib(o, km.k1, km.k2)
	if err := km.verify(o, "the second constructor call with the same key slices"); err != nil {
		return err
	}
	if err := mac(obj1, "the first object built from the key slices", 1, c.Len); err != nil {
		return err
	}
	if err := mac(obj2, "the second object built from the SAME key slices", 1, c.Len); err != nil {
		return err
	}
	obj3 := buildLib(o, km.k1, km.k2)
	if err := km.verify(o, "the third constructor call (after MACs with the first two objects)"); err != nil {
		return err
	}
	if err := mac(obj3, "the third object built from the SAME key slices, after the first two were used", 1, c.Len); err != nil {
		return err
	}
	// later operations (a lazily derived subkey may write later)
	for i, m := range []cbcmac.BlockCipherMAC{obj2, obj1, obj3} {
		if err := mac(m, fmt.Sprintf("object %d of three, second message", []int{2, 1, 3}[i]), 2, c.Len+bs+1); err != nil {
			return err
		}
	}
	if c.Scribble {
		// a fourth object that has not computed anything yet when the caller
		// reuses the key memory (a retained reference for a lazily derived key shows here)
		obj4 := buildLib(o, km.k1, km.k2)
		if err := km.verify(o, "the fourth constructor call"); err != nil {
			return err
		}
		km.scribbleKeys()
		for i, m := range []cbcmac.BlockCipherMAC{obj4, obj1, obj2, obj3} {
			if err := mac(m, fmt.Sprintf("object %d (4 = not used before), after the caller overwrote the key slices", []int{4, 1, 2, 3}[i]), 3, c.Len+1); err != nil {
				return err
			}
		}
	}
	return nil
}

// TestC19_KeyArguments: every constructor form (plain and ...WithPadding,
// one-key, two-key and the derived third key of MAC-DES and LMAC) x cipher x
// key-slice flavour x tag size {bs, short} x a few lengths.
func TestC19_KeyArguments(t *testing.T) {
	h.MarkExhaustive("key-arguments")
	h.Sweep(t, h.P{Name: "key-arguments"}, func(emit func(keyCase)) {
		i := 0
		for _, ci := range ciphersForCfg() {
			bs := ciphBS[ci]
			for scheme := 1; scheme <= 8; scheme++ {
				if !validCombo(scheme, ci) {
					continue
				}
				for _, pad := range padVariants(scheme) {
					for flav := kfExact; flav <= kfViews; flav++ {
						for _, n := range []int{0, bs - 1, bs, 2*bs + 3} {
							for _, size := range []int{bs, 1 + i%(bs-1)} {
								ks := histKey(scheme, ci, pad, flav, n, size)
								emit(keyCase{Obj{scheme, ci, pad, size, ks}, flav, n, ks, i%2 == 0})
								i++
							}
						}
					}
				}
			}
		}
	}, checkKeys)
}

// ---------------------------------------------------------------- constructor

type ctorCase struct {
	Obj
}

// TestC19_Constructor: the documented argument check - "The MAC size must be
// greater than 0 and less than or equal to the block size of the cipher. If
// the size is invalid, the function will panic." (NewCBCMACWithPadding; the
// repository's TestMustPanic pins the same for all eight).
func TestC19_Constructor(t *testing.T) {
	h.MarkExhaustive("constructor")
	h.Sweep(t, h.P{Name: "constructor"}, func(emit func(ctorCase)) {
		for _, ci := range ciphersForCfg() {
			bs := ciphBS[ci]
			for scheme := 1; scheme <= 8; scheme++ {
				if !validCombo(scheme, ci) {
					continue
				}
				for _, pad := range padVariants(scheme) {
					for _, size := range []int{-1 << 31, -bs, -1, 0, 1, bs - 1, bs, bs + 1, 2 * bs, 255, 256, 1 << 20} {
						emit(ctorCase{Obj{scheme, ci, pad, size, histKey(scheme, ci, pad)}})
					}
				}
			}
		}
	}, func(c ctorCase, r *h.Rec) error {
		o := c.Obj
		bs := o.bs()
		r.Label(schemeNames[o.Scheme])
		r.Label(ciphNames[o.Ci])
		wantPanic := o.Size <= 0 || o.Size > bs
		if wantPanic {
			r.Label("ctor:invalid-size")
			r.NT()
		} else {
			r.Label("ctor:valid-size")
		}
		var m cbcmac.BlockCipherMAC
		var pv any
		func() {
			defer func() { pv = recover() }()
			m = newLib(o)
		}()
		if (pv != nil) != wantPanic {
			return fmt.Errorf("%v: constructor with size %d (block size %d): panicked=%v (%v), documented: panic iff size <= 0 or size > block size", o, o.Size, bs, pv != nil, pv)
		}
		if !wantPanic && m.Size() != o.Size {
			return fmt.Errorf("%v: Size() = %d", o, m.Size())
		}
		return nil
	})
}
