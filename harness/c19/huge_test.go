package c19

// Messages of 2^29 bytes and more: the bit length in the length block of
// padding method 3 passes 2^32 (seeded change C19-9-2 took it through a 32-bit
// variable; at exactly 2^29 bytes the length block then is all zero). The
// expected tag is computed by streaming L || message || zero fill through the
// standard library's CBC encrypter in 1 MiB pieces, so it shares neither the
// padding nor the chaining code with the library; the block function is
// crypto/aes (independent of /repo) and, for one case, SM4 (whose single-block
// function is C02's subject). The message is one 2^29(+k)-byte slice of zero
// bytes with a few marked bytes at both ends; the library's method-3 MAC makes
// a padded copy of it, so the test needs about 1.1 GiB for a few seconds.

import (
	"bytes"
	"crypto/aes"
	"crypto/cipher"
	"encoding/binary"
	"fmt"
	"testing"

	"github.com/emmansun/gmsm/cbcmac"
	"github.com/emmansun/gmsm/padding"
	"github.com/emmansun/gmsm/sm4"
	"verif/harness/gen"
	"verif/harness/h"
)

type hugeMACCase struct {
	Cipher string // aes | sm4
	Extra  int    // message length = 2^29 + Extra
	Size   int
	Seed   uint64
}

func refM3CBCMAC(b cipher.Block, msg []byte, size int) []byte {
	bs := b.BlockSize()
	enc := cipher.NewCBCEncrypter(b, make([]byte, bs))
	lb := make([]byte, bs)
	binary.BigEndian.PutUint64(lb[bs-8:], uint64(len(msg))*8)
	out := make([]byte, bs)
	enc.CryptBlocks(out, lb)
	buf := make([]byte, 1<<20)
	for off := 0; off < len(msg); off += len(buf) {
		end := off + len(buf)
		if end > len(msg) {
			end = len(msg)
		}
		piece := msg[off:end]
		if r := len(piece) % bs; r != 0 { // last piece: zero fill to a whole block
			piece = append(append([]byte{}, piece...), make([]byte, bs-r)...)
		}
		enc.CryptBlocks(buf[:len(piece)], piece)
		copy(out, buf[len(piece)-bs:len(piece)])
	}
	return out[:size]
}

func checkHugeMAC(c hugeMACCase, r *h.Rec) error {
	r.Label("huge:" + c.Cipher)
	r.Label("length>=2^29 bytes (bit length of padding method 3 passes 2^32)")
	r.NT()
	key := gen.Fill(gen.Mix(c.Seed, 1), 16)
	var b cipher.Block
	var err error
	if c.Cipher == "aes" {
		b, err = aes.NewCipher(key)
	} else {
		b, err = sm4.NewCipher(key)
	}
	if err != nil {
		return err
	}
	n := 1<<29 + c.Extra
	msg := make([]byte, n)
	copy(msg, gen.Fill(gen.Mix(c.Seed, 2), 40))
	copy(msg[n-40:], gen.Fill(gen.Mix(c.Seed, 3), 40))
	want := refM3CBCMAC(b, msg, c.Size)
	head, tail := append([]byte{}, msg[:64]...), append([]byte{}, msg[n-64:]...)
	m := cbcmac.NewCBCMACWithPadding(b, c.Size, padding.NewISO9797M3Padding)
	got := m.MAC(msg)
	if !bytes.Equal(got, want) {
		return fmt.Errorf("CBC-MAC (scheme 1, padding method 3, %s, tag %d bytes) of a %d-byte message = %x, want %x (length block || message || zero fill through crypto/cipher CBC)", c.Cipher, c.Size, n, got, want)
	}
	if !bytes.Equal(msg[:64], head) || !bytes.Equal(msg[n-64:], tail) {
		return fmt.Errorf("MAC modified the caller's %d-byte message", n)
	}
	return nil
}

func TestC19_Huge(t *testing.T) {
	h.Sweep(t, h.P{Name: "huge-method3"}, func(emit func(hugeMACCase)) {
		emit(hugeMACCase{"aes", 0, 16, gen.Mix(h.Seed, 0x4875)})
		emit(hugeMACCase{"aes", 17, 8, gen.Mix(h.Seed, 0x4876)})
		if h.Thorough() {
			emit(hugeMACCase{"sm4", 0, 16, gen.Mix(h.Seed, 0x4877)})
			emit(hugeMACCase{"sm4", 1<<20 + 5, 4, gen.Mix(h.Seed, 0x4878)})
		}
	}, checkHugeMAC)
}
