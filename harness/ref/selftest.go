package ref

import (
	"bytes"
	"encoding/hex"
	"fmt"
)

func mustHex(s string) []byte {
	b, err := hex.DecodeString(s)
	if err != nil {
		panic(err)
	}
	return b
}

// SelfTestSM3 checks the model against the two GB/T 32905-2016 annex A vectors.
func SelfTestSM3() error {
	d := SM3([]byte("abc"))
	if hex.EncodeToString(d[:]) != "66c7f0f462eeedd9d1f2d46bdc10e4e24167c4875cf2f7a2297da02b8f4ba8e0" {
		return fmt.Errorf("ref.SM3(abc) = %x", d)
	}
	d = SM3(bytes.Repeat([]byte("abcd"), 16))
	if hex.EncodeToString(d[:]) != "debe9ff92275b8a138604889c18e5a4d6fdb70e5387e5765293dcba39c0c5732" {
		return fmt.Errorf("ref.SM3(abcd*16) = %x", d)
	}
	return nil
}

// SelfTestSM4 checks the model against GB/T 32907-2016 annex A example 1 and,
// if long is set, the 1 000 000-iteration example 2.
func SelfTestSM4(long bool) error {
	key := mustHex("0123456789abcdeffedcba9876543210")
	k := NewSM4(key)
	b := append([]byte{}, key...)
	k.Encrypt(b, b)
	if hex.EncodeToString(b) != "681edf34d206965e86b3e94f536e4246" {
		return fmt.Errorf("ref.SM4 example 1 = %x", b)
	}
	k.Decrypt(b, b)
	if !bytes.Equal(b, key) {
		return fmt.Errorf("ref.SM4 decrypt example 1 = %x", b)
	}
	if long {
		for i := 0; i < 1000000; i++ {
			k.Encrypt(b, b)
		}
		if hex.EncodeToString(b) != "595298c7c6fd271f0402f804c33d3f66" {
			return fmt.Errorf("ref.SM4 example 2 = %x", b)
		}
	}
	return nil
}
