// Package ref contains naive reference models written from the standards'
// definitions. They share no code with the library under test.
package ref

import "encoding/binary"

func rotl32(x uint32, n uint) uint32 { n %= 32; return x<<n | x>>(32-n) }

// SM3 computes the GB/T 32905-2016 digest of msg in the most direct way:
// pad the whole message, then run the compression function block by block.
func SM3(msg []byte) [32]byte {
	iv := [8]uint32{0x7380166f, 0x4914b2b9, 0x172442d7, 0xda8a0600, 0xa96f30bc, 0x163138aa, 0xe38dee4d, 0xb0fb0e4e}
	// padding: 1 bit, k zero bits so that l+1+k = 448 mod 512, 64-bit length
	l := uint64(len(msg)) * 8
	m := append([]byte{}, msg...)
	m = append(m, 0x80)
	for len(m)%64 != 56 {
		m = append(m, 0)
	}
	var lb [8]byte
	binary.BigEndian.PutUint64(lb[:], l)
	m = append(m, lb[:]...)

	v := iv
	for off := 0; off < len(m); off += 64 {
		v = sm3CF(v, m[off:off+64])
	}
	var out [32]byte
	for i, w := range v {
		binary.BigEndian.PutUint32(out[4*i:], w)
	}
	return out
}

func sm3P0(x uint32) uint32 { return x ^ rotl32(x, 9) ^ rotl32(x, 17) }
func sm3P1(x uint32) uint32 { return x ^ rotl32(x, 15) ^ rotl32(x, 23) }

func sm3CF(v [8]uint32, b []byte) [8]uint32 {
	var w [68]uint32
	var w1 [64]uint32
	for j := 0; j < 16; j++ {
		w[j] = binary.BigEndian.Uint32(b[4*j:])
	}
	for j := 16; j < 68; j++ {
		w[j] = sm3P1(w[j-16]^w[j-9]^rotl32(w[j-3], 15)) ^ rotl32(w[j-13], 7) ^ w[j-6]
	}
	for j := 0; j < 64; j++ {
		w1[j] = w[j] ^ w[j+4]
	}
	A, B, C, D, E, F, G, H := v[0], v[1], v[2], v[3], v[4], v[5], v[6], v[7]
	for j := 0; j < 64; j++ {
		var tj uint32 = 0x79cc4519
		if j >= 16 {
			tj = 0x7a879d8a
		}
		ss1 := rotl32(rotl32(A, 12)+E+rotl32(tj, uint(j%32)), 7)
		ss2 := ss1 ^ rotl32(A, 12)
		var ff, gg uint32
		if j < 16 {
			ff = A ^ B ^ C
			gg = E ^ F ^ G
		} else {
			ff = (A & B) | (A & C) | (B & C)
			gg = (E & F) | (^E & G)
		}
		tt1 := ff + D + ss2 + w1[j]
		tt2 := gg + H + ss1 + w[j]
		D = C
		C = rotl32(B, 9)
		B = A
		A = tt1
		H = G
		G = rotl32(F, 19)
		F = E
		E = sm3P0(tt2)
	}
	return [8]uint32{v[0] ^ A, v[1] ^ B, v[2] ^ C, v[3] ^ D, v[4] ^ E, v[5] ^ F, v[6] ^ G, v[7] ^ H}
}

// SM3KDF is the GB/T 32918 key derivation function: the first n bytes of
// SM3(z||be32(1)) || SM3(z||be32(2)) || ...
func SM3KDF(z []byte, n int) []byte {
	out := make([]byte, 0, n+32)
	for ct := uint32(1); len(out) < n; ct++ {
		in := append(append([]byte{}, z...), byte(ct>>24), byte(ct>>16), byte(ct>>8), byte(ct))
		d := SM3(in)
		out = append(out, d[:]...)
	}
	return out[:n]
}
