package ref

import "testing"

func TestSelfTests(t *testing.T) {
	if err := SelfTestSM3(); err != nil {
		t.Error(err)
	}
	if err := SelfTestSM4(true); err != nil {
		t.Error(err)
	}
	if err := SelfTestSM2(); err != nil {
		t.Error(err)
	}
}
