package ref

import "testing"

func TestSelfTests(t *testing.T) {
	if err := SelfTestSM3(); err != nil {
		t.Error(err)
	}
	if err := SelfTestSM4(true); err != nil {
		t.Error(err)
	}
	if err := SelfTestSM2(); err != nil {
		t.Error(err)
	}
}

func TestSM3Stream(t *testing.T) {
	msg := make([]byte, 1000)
	for i := range msg {
		msg[i] = byte(i * 7)
	}
	for _, cut := range []int{0, 1, 63, 64, 65, 500, 999, 1000} {
		s := NewSM3Stream()
		s.Write(msg[:cut])
		s.Write(msg[cut:])
		if s.Sum() != SM3(msg) {
			t.Fatalf("stream != one-shot at cut %d", cut)
		}
	}
}

func BenchmarkSM3Stream(b *testing.B) {
	s := NewSM3Stream()
	buf := make([]byte, 1<<20)
	b.SetBytes(1 << 20)
	for i := 0; i < b.N; i++ {
		s.Write(buf)
	}
}
