package ref

import (
	"errors"
	"math/big"
)

// SM2 curve parameters, transcribed from GB/T 32918.5-2017 (data).
var (
	SM2P  = bigHex("FFFFFFFEFFFFFFFFFFFFFFFFFFFFFFFFFFFFFFFF00000000FFFFFFFFFFFFFFFF")
	SM2A  = bigHex("FFFFFFFEFFFFFFFFFFFFFFFFFFFFFFFFFFFFFFFF00000000FFFFFFFFFFFFFFFC")
	SM2B  = bigHex("28E9FA9E9D9F5E344D5A9E4BCF6509A7F39789F515AB8F92DDBCBD414D940E93")
	SM2N  = bigHex("FFFFFFFEFFFFFFFFFFFFFFFFFFFFFFFF7203DF6B21C6052B53BBF40939D54123")
	SM2Gx = bigHex("32C4AE2C1F1981195F9904466A39C9948FE30BBFF2660BE1715A4589334C74C7")
	SM2Gy = bigHex("BC3736A2F4F6779C59BDCEE36B692153D0A9877CC62A474002DF32E52139F0A0")
)

func bigHex(s string) *big.Int {
	v, ok := new(big.Int).SetString(s, 16)
	if !ok {
		panic("ref: bad hex " + s)
	}
	return v
}

// Point is an affine point; Inf marks the point at infinity.
type Point struct {
	X, Y *big.Int
	Inf  bool
}

// Curve is a short Weierstrass curve y^2 = x^3 + ax + b over F_p with a base
// point of prime order n, computed on with affine textbook formulas.
type Curve struct {
	P, A, B, N *big.Int
	G          Point
}

// SM2 is the SM2 recommended curve.
var SM2 = &Curve{P: SM2P, A: SM2A, B: SM2B, N: SM2N, G: Point{X: SM2Gx, Y: SM2Gy}}

// Infinity returns the point at infinity.
func Infinity() Point { return Point{Inf: true} }

// OnCurve reports whether (x,y) is in range and satisfies the curve equation.
func (c *Curve) OnCurve(p Point) bool {
	if p.Inf {
		return true
	}
	if p.X.Sign() < 0 || p.Y.Sign() < 0 || p.X.Cmp(c.P) >= 0 || p.Y.Cmp(c.P) >= 0 {
		return false
	}
	l := new(big.Int).Mul(p.Y, p.Y)
	l.Mod(l, c.P)
	return l.Cmp(c.rhs(p.X)) == 0
}

func (c *Curve) rhs(x *big.Int) *big.Int {
	r := new(big.Int).Mul(x, x)
	r.Mul(r, x)
	ax := new(big.Int).Mul(c.A, x)
	r.Add(r, ax)
	r.Add(r, c.B)
	return r.Mod(r, c.P)
}

// Neg returns -p.
func (c *Curve) Neg(p Point) Point {
	if p.Inf {
		return p
	}
	y := new(big.Int).Sub(c.P, p.Y)
	y.Mod(y, c.P)
	return Point{X: new(big.Int).Set(p.X), Y: y}
}

// Equal compares two points.
func (c *Curve) Equal(p, q Point) bool {
	if p.Inf || q.Inf {
		return p.Inf == q.Inf
	}
	return p.X.Cmp(q.X) == 0 && p.Y.Cmp(q.Y) == 0
}

// Add returns p+q with the textbook chord-and-tangent rule, all exceptional
// cases handled explicitly.
func (c *Curve) Add(p, q Point) Point {
	if p.Inf {
		return q
	}
	if q.Inf {
		return p
	}
	var lam *big.Int
	if p.X.Cmp(q.X) == 0 {
		s := new(big.Int).Add(p.Y, q.Y)
		s.Mod(s, c.P)
		if s.Sign() == 0 {
			return Infinity() // q = -p (includes 2-torsion)
		}
		// doubling: lambda = (3x^2 + a) / 2y
		num := new(big.Int).Mul(p.X, p.X)
		num.Mul(num, big.NewInt(3))
		num.Add(num, c.A)
		den := new(big.Int).Lsh(p.Y, 1)
		den.ModInverse(den.Mod(den, c.P), c.P)
		lam = num.Mul(num, den)
	} else {
		num := new(big.Int).Sub(q.Y, p.Y)
		den := new(big.Int).Sub(q.X, p.X)
		den.ModInverse(den.Mod(den, c.P), c.P)
		lam = num.Mul(num, den)
	}
	lam.Mod(lam, c.P)
	x3 := new(big.Int).Mul(lam, lam)
	x3.Sub(x3, p.X)
	x3.Sub(x3, q.X)
	x3.Mod(x3, c.P)
	y3 := new(big.Int).Sub(p.X, x3)
	y3.Mul(y3, lam)
	y3.Sub(y3, p.Y)
	y3.Mod(y3, c.P)
	return Point{X: x3, Y: y3}
}

// Mul returns [k]p by left-to-right double-and-add; k may be any non-negative
// integer (it is NOT reduced first: the group law takes care of it).
func (c *Curve) Mul(k *big.Int, p Point) Point {
	if k.Sign() < 0 {
		panic("ref: negative scalar")
	}
	r := Infinity()
	for i := k.BitLen() - 1; i >= 0; i-- {
		r = c.Add(r, r)
		if k.Bit(i) == 1 {
			r = c.Add(r, p)
		}
	}
	return r
}

// BaseMul returns [k]G.
func (c *Curve) BaseMul(k *big.Int) Point { return c.Mul(k, c.G) }

// Bytes32 returns v as a 32-byte big-endian string.
func Bytes32(v *big.Int) []byte {
	b := make([]byte, 32)
	v.FillBytes(b)
	return b
}

// Uncompressed returns 04||X||Y (or a single 0 byte for infinity, SEC 1).
func (c *Curve) Uncompressed(p Point) []byte {
	if p.Inf {
		return []byte{0}
	}
	return append(append([]byte{4}, Bytes32(p.X)...), Bytes32(p.Y)...)
}

// Compressed returns (02|03)||X.
func (c *Curve) Compressed(p Point) []byte {
	if p.Inf {
		return []byte{0}
	}
	return append([]byte{byte(2 + p.Y.Bit(0))}, Bytes32(p.X)...)
}

// LiftX returns the point with the given x and y parity, if x is on the curve.
func (c *Curve) LiftX(x *big.Int, odd uint) (Point, bool) {
	if x.Sign() < 0 || x.Cmp(c.P) >= 0 {
		return Point{}, false
	}
	y := new(big.Int).ModSqrt(c.rhs(x), c.P)
	if y == nil {
		return Point{}, false
	}
	if y.Bit(0) != odd {
		y.Sub(c.P, y)
		y.Mod(y, c.P)
	}
	if y.Bit(0) != odd { // y == 0
		return Point{}, false
	}
	return Point{X: new(big.Int).Set(x), Y: y}, true
}

// Decode is the strict SEC 1 decoder: exactly the canonical 1/33/65-byte
// encodings of points on the curve.
func (c *Curve) Decode(b []byte) (Point, error) {
	switch {
	case len(b) == 1 && b[0] == 0:
		return Infinity(), nil
	case len(b) == 65 && b[0] == 4:
		p := Point{X: new(big.Int).SetBytes(b[1:33]), Y: new(big.Int).SetBytes(b[33:])}
		if !c.OnCurve(p) {
			return Point{}, errors.New("ref: point not on curve / coordinate out of range")
		}
		return p, nil
	case len(b) == 33 && (b[0] == 2 || b[0] == 3):
		p, ok := c.LiftX(new(big.Int).SetBytes(b[1:]), uint(b[0]&1))
		if !ok {
			return Point{}, errors.New("ref: invalid compressed point")
		}
		return p, nil
	}
	return Point{}, errors.New("ref: invalid point encoding")
}

// ---------------------------------------------------------------- SM2 schemes

// DefaultUID is the default user id of GB/T 35276 / GM/T 0009.
var DefaultUID = []byte("1234567812345678")

// SM2ZA computes Z_A = SM3(ENTL || ID || a || b || xG || yG || xA || yA) (GB/T 32918.2 5.5).
func SM2ZA(uid []byte, pub Point) []byte {
	entl := len(uid) * 8
	in := []byte{byte(entl >> 8), byte(entl)}
	in = append(in, uid...)
	in = append(in, Bytes32(SM2A)...)
	in = append(in, Bytes32(SM2B)...)
	in = append(in, Bytes32(SM2Gx)...)
	in = append(in, Bytes32(SM2Gy)...)
	in = append(in, Bytes32(pub.X)...)
	in = append(in, Bytes32(pub.Y)...)
	d := SM3(in)
	return d[:]
}

// SM2Digest returns e = SM3(ZA || M).
func SM2Digest(uid []byte, pub Point, msg []byte) []byte {
	d := SM3(append(SM2ZA(uid, pub), msg...))
	return d[:]
}

// SM2VerifyRS applies the GB/T 32918.2 7.1 verification to integers r, s and
// the digest e (already computed, any length; interpreted as an integer).
func SM2VerifyRS(pub Point, e []byte, r, s *big.Int) bool {
	c := SM2
	one := big.NewInt(1)
	nm1 := new(big.Int).Sub(c.N, one)
	if r.Cmp(one) < 0 || r.Cmp(nm1) > 0 || s.Cmp(one) < 0 || s.Cmp(nm1) > 0 {
		return false
	}
	if pub.Inf || !c.OnCurve(pub) {
		return false
	}
	t := new(big.Int).Add(r, s)
	t.Mod(t, c.N)
	if t.Sign() == 0 {
		return false
	}
	x1 := c.Add(c.BaseMul(s), c.Mul(t, pub))
	if x1.Inf {
		return false
	}
	R := new(big.Int).SetBytes(e)
	R.Add(R, x1.X)
	R.Mod(R, c.N)
	return R.Cmp(r) == 0
}

// SM2SignWithK computes the GB/T 32918.2 6.1 signature for a given nonce k;
// ok is false when the standard demands another k.
func SM2SignWithK(d *big.Int, e []byte, k *big.Int) (r, s *big.Int, ok bool) {
	c := SM2
	x1 := c.BaseMul(k)
	if x1.Inf {
		return nil, nil, false
	}
	r = new(big.Int).SetBytes(e)
	r.Add(r, x1.X)
	r.Mod(r, c.N)
	if r.Sign() == 0 || new(big.Int).Add(r, k).Cmp(c.N) == 0 {
		return nil, nil, false
	}
	inv := new(big.Int).Add(d, big.NewInt(1))
	inv.ModInverse(inv, c.N)
	s = new(big.Int).Mul(r, d)
	s.Sub(k, s)
	s.Mul(s, inv)
	s.Mod(s, c.N)
	if s.Sign() == 0 {
		return nil, nil, false
	}
	return r, s, true
}

// SM2RecoverK recovers the nonce from a signature with the private key:
// k = s(1+d) + r d mod n.
func SM2RecoverK(d, r, s *big.Int) *big.Int {
	k := new(big.Int).Add(d, big.NewInt(1))
	k.Mul(k, s)
	k.Add(k, new(big.Int).Mul(r, d))
	return k.Mod(k, SM2N)
}

// SM2EncryptParts runs GB/T 32918.4 6.1 with the given ephemeral scalar and
// returns C1 (point), C2, C3; ok is false if the KDF output is all zero
// (the standard then draws another k) or [h]P is infinity.
func SM2EncryptParts(pub Point, k *big.Int, msg []byte) (c1 Point, c2, c3 []byte, ok bool) {
	c := SM2
	c1 = c.BaseMul(k)
	s := c.Mul(k, pub)
	if s.Inf || c1.Inf {
		return Point{}, nil, nil, false
	}
	x2, y2 := Bytes32(s.X), Bytes32(s.Y)
	t := SM3KDF(append(append([]byte{}, x2...), y2...), len(msg))
	zero := true
	for _, b := range t {
		if b != 0 {
			zero = false
		}
	}
	if zero {
		return Point{}, nil, nil, false
	}
	c2 = make([]byte, len(msg))
	for i := range msg {
		c2[i] = msg[i] ^ t[i]
	}
	h := SM3(append(append(append([]byte{}, x2...), msg...), y2...))
	return c1, c2, h[:], true
}

// SM2DecryptParts runs GB/T 32918.4 7.1.
func SM2DecryptParts(d *big.Int, c1 Point, c2, c3 []byte) ([]byte, bool) {
	c := SM2
	if c1.Inf || !c.OnCurve(c1) {
		return nil, false
	}
	s := c.Mul(d, c1)
	if s.Inf {
		return nil, false
	}
	x2, y2 := Bytes32(s.X), Bytes32(s.Y)
	t := SM3KDF(append(append([]byte{}, x2...), y2...), len(c2))
	zero := true
	for _, b := range t {
		if b != 0 {
			zero = false
		}
	}
	if zero {
		return nil, false
	}
	m := make([]byte, len(c2))
	for i := range c2 {
		m[i] = c2[i] ^ t[i]
	}
	h := SM3(append(append(append([]byte{}, x2...), m...), y2...))
	if string(h[:]) != string(c3) {
		return nil, false
	}
	return m, true
}

// SM2XBar is x-bar = 2^w + (x & (2^w - 1)), w = ceil(ceil(log2 n)/2) - 1 = 127.
func SM2XBar(x *big.Int) *big.Int {
	w := uint(127)
	mask := new(big.Int).Lsh(big.NewInt(1), w)
	r := new(big.Int).And(x, new(big.Int).Sub(mask, big.NewInt(1)))
	return r.Add(r, mask)
}

// SM2KAP computes the GB/T 32918.3 shared point V and key material from this
// side's static/ephemeral scalars and the peer's static/ephemeral points.
// za, zb are the identities' Z values of initiator (A) and responder (B)
// in that order regardless of which side calls.
func SM2KAP(dSelf, rSelf *big.Int, pPeer, rPeer Point, za, zb []byte, klen int) (key []byte, v Point, ok bool) {
	c := SM2
	if rPeer.Inf || !c.OnCurve(rPeer) || pPeer.Inf || !c.OnCurve(pPeer) {
		return nil, Point{}, false
	}
	rSelfPt := c.BaseMul(rSelf)
	x1 := SM2XBar(rSelfPt.X)
	t := new(big.Int).Mul(x1, rSelf)
	t.Add(t, dSelf)
	t.Mod(t, c.N)
	x2 := SM2XBar(rPeer.X)
	v = c.Mul(t, c.Add(pPeer, c.Mul(x2, rPeer))) // cofactor h = 1
	if v.Inf {
		return nil, v, false
	}
	in := append(append([]byte{}, Bytes32(v.X)...), Bytes32(v.Y)...)
	in = append(in, za...)
	in = append(in, zb...)
	return SM3KDF(in, klen), v, true
}

// SM2KAPConfirm returns S1/SB (tag 0x02) and S2/SA (tag 0x03):
// S = SM3(tag || yV || SM3(xV || ZA || ZB || xRA || yRA || xRB || yRB)).
func SM2KAPConfirm(v Point, za, zb []byte, ra, rb Point) (s1, s2 []byte) {
	in := append([]byte{}, Bytes32(v.X)...)
	in = append(in, za...)
	in = append(in, zb...)
	in = append(in, Bytes32(ra.X)...)
	in = append(in, Bytes32(ra.Y)...)
	in = append(in, Bytes32(rb.X)...)
	in = append(in, Bytes32(rb.Y)...)
	inner := SM3(in)
	mk := func(tag byte) []byte {
		x := append([]byte{tag}, Bytes32(v.Y)...)
		x = append(x, inner[:]...)
		d := SM3(x)
		return d[:]
	}
	return mk(0x02), mk(0x03)
}

// SelfTestSM2 validates the curve model: parameters consistent, G on the
// curve, [n]G = infinity, and the GB/T 32918.2 annex A style sign/verify
// round trip with a fixed nonce.
func SelfTestSM2() error {
	c := SM2
	if !c.OnCurve(c.G) {
		return errors.New("ref: G not on curve")
	}
	if !c.BaseMul(c.N).Inf {
		return errors.New("ref: [n]G != infinity")
	}
	if !c.Equal(c.BaseMul(new(big.Int).Sub(c.N, big.NewInt(1))), c.Neg(c.G)) {
		return errors.New("ref: [n-1]G != -G")
	}
	if a := new(big.Int).Add(c.A, big.NewInt(3)); a.Cmp(c.P) != 0 {
		return errors.New("ref: a != p-3")
	}
	// published example: d, k and the resulting (r,s) from the GM/T 0003.5 /
	// GB/T 32918.5 annex A.2 signature example on the recommended curve
	d := bigHex("3945208F7B2144B13F36E38AC6D39F95889393692860B51A42FB81EF4DF7C5B8")
	k := bigHex("59276E27D506861A16680F3AD9C02DCCEF3CC1FA3CDBE4CE6D54B80DEAC1BC21")
	pub := c.BaseMul(d)
	if Hex32(pub.X) != "09F9DF311E5421A150DD7D161E4BC5C672179FAD1833FC076BB08FF356F35020" ||
		Hex32(pub.Y) != "CCEA490CE26775A52DC6EA718CC1AA600AED05FBF35E084A6632F6072DA9AD13" {
		return errors.New("ref: public key of the GB/T 32918.5 example mismatch")
	}
	e := SM2Digest(DefaultUID, pub, []byte("message digest"))
	if hexU(e) != "F0B43E94BA45ACCAACE692ED534382EB17E6AB5A19CE7B31F4486FDFC0D28640" {
		return errors.New("ref: e of the GB/T 32918.5 example mismatch: " + hexU(e))
	}
	r, s, ok := SM2SignWithK(d, e, k)
	if !ok || Hex32(r) != "F5A03B0648D2C4630EEAC513E1BB81A15944DA3827D5B74143AC7EACEEE720B3" ||
		Hex32(s) != "B1B6AA29DF212FD8763182BC0D421CA1BB9038FD1F7F42D4840B69C485BBC1AA" {
		return errors.New("ref: signature of the GB/T 32918.5 example mismatch")
	}
	if !SM2VerifyRS(pub, e, r, s) {
		return errors.New("ref: example signature does not verify")
	}
	if SM2RecoverK(d, r, s).Cmp(k) != 0 {
		return errors.New("ref: nonce recovery failed")
	}
	// GB/T 32918.5 annex C encryption example
	msg := []byte("encryption standard")
	c1, c2, c3, ok := SM2EncryptParts(pub, k, msg)
	if !ok || Hex32(c1.X) != "04EBFC718E8D1798620432268E77FEB6415E2EDE0E073C0F4F640ECD2E149A73" ||
		hexU(c2) != "21886CA989CA9C7D58087307CA93092D651EFA" ||
		hexU(c3) != "59983C18F809E262923C53AEC295D30383B54E39D609D160AFCB1908D0BD8766" {
		return errors.New("ref: encryption example mismatch c2=" + hexU(c2) + " c3=" + hexU(c3))
	}
	if m, ok := SM2DecryptParts(d, c1, c2, c3); !ok || string(m) != string(msg) {
		return errors.New("ref: decryption example mismatch")
	}
	return nil
}

// Hex32 formats v as 64 upper-case hex digits.
func Hex32(v *big.Int) string { return hexU(Bytes32(v)) }

func hexU(b []byte) string {
	const d = "0123456789ABCDEF"
	out := make([]byte, 0, 2*len(b))
	for _, x := range b {
		out = append(out, d[x>>4], d[x&15])
	}
	return string(out)
}
