package ref

import "encoding/binary"

// SM3Stream is the textbook SM3 fed incrementally (same compression function
// as SM3, no copy of the whole message), for messages too large to hold twice.
type SM3Stream struct {
	v   [8]uint32
	buf []byte
	n   uint64 // bytes absorbed
}

// NewSM3Stream returns an empty stream hash.
func NewSM3Stream() *SM3Stream {
	return &SM3Stream{v: [8]uint32{0x7380166f, 0x4914b2b9, 0x172442d7, 0xda8a0600, 0xa96f30bc, 0x163138aa, 0xe38dee4d, 0xb0fb0e4e}}
}

// Write absorbs p.
func (s *SM3Stream) Write(p []byte) {
	s.n += uint64(len(p))
	if len(s.buf) > 0 {
		k := 64 - len(s.buf)
		if k > len(p) {
			k = len(p)
		}
		s.buf = append(s.buf, p[:k]...)
		p = p[k:]
		if len(s.buf) == 64 {
			s.v = sm3CF(s.v, s.buf)
			s.buf = s.buf[:0]
		}
	}
	for len(p) >= 64 {
		s.v = sm3CF(s.v, p[:64])
		p = p[64:]
	}
	s.buf = append(s.buf, p...)
}

// Sum returns the digest of everything written so far (the stream can continue).
func (s *SM3Stream) Sum() [32]byte {
	m := append([]byte{}, s.buf...)
	m = append(m, 0x80)
	for len(m)%64 != 56 {
		m = append(m, 0)
	}
	var lb [8]byte
	binary.BigEndian.PutUint64(lb[:], s.n*8)
	m = append(m, lb[:]...)
	v := s.v
	for off := 0; off < len(m); off += 64 {
		v = sm3CF(v, m[off:off+64])
	}
	var out [32]byte
	for i, w := range v {
		binary.BigEndian.PutUint32(out[4*i:], w)
	}
	return out
}
