// C04, second half: any change of nonce, additional data, ciphertext or tag
// makes Open fail without releasing plaintext; truncated and extended inputs
// fail; documented panics are clean.
package c04

import (
	"bytes"
	"crypto/cipher"
	"fmt"
	"runtime"
	"testing"

	smcipher "github.com/emmansun/gmsm/cipher"
	"github.com/emmansun/gmsm/sm4"
	"pgregory.net/rapid"
	"verif/harness/gen"
	"verif/harness/h"
)

const (
	regNonce    = 0
	regAAD      = 1
	regCT       = 2
	regTag      = 3
	regCutEnd   = 4 // Pos bytes removed from the end of ciphertext||tag
	regCutStart = 5 // Pos bytes removed from the start
	regExtend   = 6 // Pos bytes appended
)

var regNames = []string{"nonce", "aad", "ciphertext", "tag", "cut-end", "cut-start", "extend"}

type tamperCase struct {
	Kind     int
	Ctor     int
	NonceLen int
	TagLen   int
	PtLen    int
	AadLen   int
	Seed     uint64
	Region   int
	Pos      int
	Lay      int // layNil, layPrefix, layInPlace
	Prefix   int
	Spare    int
	Guard    int
}

func (c tamperCase) regionLen(region int) int {
	switch region {
	case regNonce:
		return c.NonceLen
	case regAAD:
		return c.AadLen
	case regCT:
		return c.PtLen
	case regTag:
		return c.TagLen
	}
	return 0
}

// substitutes lists the values tried at one byte position: all eight
// single-bit flips, the complement, and one seeded other value.
func substitutes(orig byte, seed uint64) []byte {
	out := make([]byte, 0, 10)
	for b := uint(0); b < 8; b++ {
		out = append(out, orig^(1<<b))
	}
	out = append(out, ^orig)
	d := byte(seed%255) + 1 // 1..255: never the original
	return append(out, orig^d)
}

func checkTamper(c tamperCase, r *h.Rec) error {
	key := gen.Fill(gen.Mix(c.Seed, 1), 16)
	nonce := gen.Fill(gen.Mix(c.Seed, 2), c.NonceLen)
	pt := gen.Fill(gen.Mix(c.Seed, 3), c.PtLen)
	aad := gen.Fill(gen.Mix(c.Seed, 4), c.AadLen)
	r.Label(kindNames[c.Kind])
	r.Label("tamper-" + regNames[c.Region])
	r.Label("tamper-dst:" + layNames[c.Lay])
	if c.NonceLen+c.AadLen+c.PtLen+c.TagLen <= 400 {
		r.Label("total<=400")
	} else {
		r.Label("total>400")
	}
	if isGCM(c.Kind) {
		r.Label("gcm-tag=%d", c.TagLen)
		if c.NonceLen != 12 {
			r.Label("gcm-nonce!=12")
		}
	} else {
		r.Label("ccm-nonce=%d", c.NonceLen)
		r.Label("ccm-tag=%d", c.TagLen)
	}
	r.NT()
	a, _, err := newAEAD(c.Kind, c.Ctor, c.NonceLen, c.TagLen, key)
	if err != nil {
		return fmt.Errorf("constructor failed for valid sizes (nonce %d, tag %d): %v", c.NonceLen, c.TagLen, err)
	}
	desc := fmt.Sprintf("%s nonce(%d)=%s tag=%d pt=%d aad=%d key=%s seed=%d region=%s pos=%d dst=%s prefix=%d spare=%d guard=%d",
		kindNames[c.Kind], c.NonceLen, h.Hex(nonce), c.TagLen, c.PtLen, c.AadLen, h.Hex(key), c.Seed, regNames[c.Region], c.Pos, layNames[c.Lay], c.Prefix, c.Spare, c.Guard)
	sealed := a.Seal(nil, nonce, pt, aad)
	if len(sealed) != c.PtLen+c.TagLen {
		return fmt.Errorf("Seal returned %d bytes for %d+%d [%s]", len(sealed), c.PtLen, c.TagLen, desc)
	}
	// the message as sealed must open: otherwise a rejection below proves nothing
	if out, err := a.Open(nil, nonce, sealed, aad); err != nil || !bytes.Equal(out, pt) {
		return fmt.Errorf("Open rejected or garbled the untampered message (err=%v) [%s]", err, desc)
	}
	al := &alloc{guard: c.Guard}
	defer al.free()
	try := func(what string, n2, a2, c2 []byte) error {
		if err := openMustFail(a, c, al, what, n2, a2, c2, pt, desc); err != nil {
			return err
		}
		// a rejection leaves the AEAD usable: the genuine message still opens
		if out, err := a.Open(nil, nonce, sealed, aad); err != nil || !bytes.Equal(out, pt) {
			return fmt.Errorf("after rejecting a forged message (%s) Open no longer accepts the genuine one (err=%v) [%s]", what, err, desc)
		}
		return nil
	}
	switch c.Region {
	case regCutEnd:
		if c.Pos < 1 || c.Pos > len(sealed) {
			return fmt.Errorf("malformed case")
		}
		return try(fmt.Sprintf("%d bytes cut from the end", c.Pos), nonce, aad, sealed[:len(sealed)-c.Pos])
	case regCutStart:
		if c.Pos < 1 || c.Pos > len(sealed) {
			return fmt.Errorf("malformed case")
		}
		return try(fmt.Sprintf("%d bytes cut from the start", c.Pos), nonce, aad, sealed[c.Pos:])
	case regExtend:
		ext := append(append([]byte{}, sealed...), gen.Fill(gen.Mix(c.Seed, 8), c.Pos)...)
		return try(fmt.Sprintf("%d bytes appended", c.Pos), nonce, aad, ext)
	}
	if c.Pos < 0 || c.Pos >= c.regionLen(c.Region) {
		return fmt.Errorf("malformed case: pos %d outside region %s of %d bytes", c.Pos, regNames[c.Region], c.regionLen(c.Region))
	}
	var target []byte
	n2, a2, c2 := append([]byte{}, nonce...), append([]byte{}, aad...), append([]byte{}, sealed...)
	switch c.Region {
	case regNonce:
		target = n2[c.Pos:]
	case regAAD:
		target = a2[c.Pos:]
	case regCT:
		target = c2[c.Pos:]
	case regTag:
		target = c2[c.PtLen+c.Pos:]
	}
	orig := target[0]
	for _, v := range substitutes(orig, gen.Mix(c.Seed, 7, uint64(c.Pos))) {
		target[0] = v
		if err := try(fmt.Sprintf("%s byte %d changed %02x -> %02x", regNames[c.Region], c.Pos, orig, v), n2, a2, c2); err != nil {
			return err
		}
	}
	return nil
}

// openMustFail calls Open on a message that differs from what was sealed and
// requires: an error, a nil result, no write outside the region Open may use
// (the len(ciphertext)-tag bytes after dst's prefix), and that region either
// all zero or untouched - never plaintext.
func openMustFail(a cipher.AEAD, c tamperCase, al *alloc, what string, nonce, aad, ct, pt []byte, desc string) error {
	fail := func(format string, args ...any) error {
		return fmt.Errorf("Open, %s: %s [%s]", what, fmt.Sprintf(format, args...), desc)
	}
	m := len(ct) - c.TagLen // bytes Open may write
	if m < 0 {
		m = 0
	}
	nonceB, aadB := al.copyOf(nonce), al.copyOf(aad)
	// the pattern differs from the plaintext at every position, so an
	// untouched byte can never pass for a released plaintext byte
	pattern := func(size, off int) []byte {
		p := gen.Fill(gen.Mix(c.Seed, 9), size)
		for i := 0; i < len(pt) && off+i < size; i++ {
			if p[off+i] == pt[i] || p[off+i] == 0 {
				p[off+i] = pt[i] ^ 0x5a
				if p[off+i] == 0 {
					p[off+i] = 0xa5 // pt[i] == 0x5a
				}
			}
		}
		return p
	}
	var out []byte
	var err error
	switch c.Lay {
	case layNil:
		ctB := al.copyOf(ct)
		out, err = a.Open(nil, nonceB, ctB, aadB)
		if !bytes.Equal(ctB, ct) {
			return fail("modified its input")
		}
	case layInPlace:
		size := c.Prefix + len(ct) + c.Spare
		pat := pattern(size, c.Prefix)
		buf := al.copyOf(pat)
		copy(buf[c.Prefix:], ct)
		before := append([]byte{}, buf...)
		out, err = a.Open(buf[:c.Prefix], nonceB, buf[c.Prefix:c.Prefix+len(ct)], aadB)
		region := buf[c.Prefix : c.Prefix+m]
		if !allZero(region) && !bytes.Equal(region, before[c.Prefix:c.Prefix+m]) {
			return fail("in place: the %d-byte output region is neither zeroed nor untouched: %s (plaintext %s)", m, h.Hex(region), h.Hex(pt))
		}
		copy(before[c.Prefix:], region)
		if k := diffAt(buf, before); k >= 0 {
			return fail("in place: wrote outside its output region: byte %d (prefix %d, region %d bytes) changed from %02x to %02x", k, c.Prefix, m, before[k], buf[k])
		}
	default:
		size := c.Prefix + m + c.Spare
		pat := pattern(size, c.Prefix)
		backing := al.copyOf(pat)
		ctB := al.copyOf(ct)
		out, err = a.Open(backing[:c.Prefix], nonceB, ctB, aadB)
		if !bytes.Equal(ctB, ct) {
			return fail("modified its input")
		}
		region := backing[c.Prefix : c.Prefix+m]
		if !allZero(region) && !bytes.Equal(region, pat[c.Prefix:c.Prefix+m]) {
			return fail("the %d-byte output region is neither zeroed nor untouched: %s (plaintext %s)", m, h.Hex(region), h.Hex(pt))
		}
		expect := append([]byte{}, pat...)
		copy(expect[c.Prefix:], region)
		if k := diffAt(backing, expect); k >= 0 {
			return fail("wrote outside its output region: byte %d of the destination buffer (prefix %d, region %d bytes) changed from %02x to %02x", k, c.Prefix, m, expect[k], backing[k])
		}
	}
	if err == nil {
		return fail("accepted the message and returned %d bytes: %s", len(out), h.Hex(out))
	}
	if out != nil {
		return fail("returned a non-nil slice (%d bytes) together with error %v", len(out), err)
	}
	if !bytes.Equal(nonceB, nonce) || !bytes.Equal(aadB, aad) {
		return fail("modified nonce or additional data")
	}
	return nil
}

func allZero(b []byte) bool {
	for _, x := range b {
		if x != 0 {
			return false
		}
	}
	return true
}

// sizes is one message shape of the exhaustive tamper sweeps.
type sizes struct{ kind, nonce, tag, pt, aad int }

// emitAllPositions emits one case per byte position of nonce, AAD,
// ciphertext and tag, every truncation from the end, truncations from the
// start and extensions.
func emitAllPositions(s sizes, idx *int, emit func(tamperCase)) {
	mk := func(region, pos int) {
		i := *idx
		*idx = i + 1
		x := gen.Mix(h.Seed, uint64(i), 78)
		emit(tamperCase{Kind: s.kind, Ctor: int(x >> 20 % 2), NonceLen: s.nonce, TagLen: s.tag, PtLen: s.pt, AadLen: s.aad,
			Seed:   gen.Mix(h.Seed, uint64(s.kind), uint64(s.nonce), uint64(s.tag), uint64(s.pt), uint64(s.aad)),
			Region: region, Pos: pos,
			Lay:    []int{layNil, layPrefix, layPrefix, layInPlace}[x%4],
			Prefix: []int{0, 0, 3, 16}[x>>2%4], Spare: []int{0, 0, 1, 16}[x>>4%4], Guard: []int{0, 1, 1, 2}[x>>6%4]})
	}
	for region := regNonce; region <= regTag; region++ {
		n := tamperCase{NonceLen: s.nonce, TagLen: s.tag, PtLen: s.pt, AadLen: s.aad}.regionLen(region)
		for pos := 0; pos < n; pos++ {
			mk(region, pos)
		}
	}
	total := s.pt + s.tag
	for k := 1; k <= total; k++ {
		mk(regCutEnd, k)
	}
	for k := 1; k <= total; k++ {
		if k <= 33 || k == total {
			mk(regCutStart, k)
		}
	}
	for _, k := range []int{1, 15, 16, 17} {
		mk(regExtend, k)
	}
}

func gcmTamperShapes() []sizes {
	var out []sizes
	aads := []int{0, 1, 13, 16, 17, 33}
	pts := []int{0, 1, 15, 16, 17, 31, 33, 63, 64, 65, 127, 128, 129, 144, 191, 255, 256, 300}
	if h.Thorough() {
		pts = nil
		for p := 0; p <= 320; p++ {
			pts = append(pts, p)
		}
	}
	for i, p := range pts {
		out = append(out, sizes{kGCM, 12, 16, p, aads[i%len(aads)]})
	}
	for _, tl := range []int{12, 13, 14, 15} {
		for _, p := range []int{1, 2, 3, 17, 130} {
			out = append(out, sizes{kGCM, 12, tl, p, 5})
		}
	}
	for _, nl := range []int{1, 8, 11, 13, 16, 17, 32, 64} {
		out = append(out, sizes{kGCM, nl, 16, 33, 5})
	}
	for _, a := range []int{127, 128, 129, 200, 300} {
		out = append(out, sizes{kGCM, 12, 16, 7, a})
	}
	for i, p := range []int{0, 1, 16, 33, 100, 129} {
		out = append(out, sizes{kGCMWrapped, 12, 16, p, []int{0, 5, 17}[i%3]})
	}
	out = append(out, sizes{kGCMWrapped, 12, 12, 18, 3}, sizes{kGCMWrapped, 16, 16, 18, 3}, sizes{kGCMWrapped, 1, 16, 1, 0})
	return out
}

func ccmTamperShapes() []sizes {
	var out []sizes
	k := 0
	for _, nl := range ccmNonces {
		for _, tl := range ccmTags {
			out = append(out, sizes{kCCM, nl, tl, 5 + k%29, k % 19})
			k++
		}
	}
	aads := []int{0, 1, 14, 15, 16, 30, 31, 32}
	pts := []int{0, 1, 15, 16, 17, 33, 64, 65, 128, 129, 255, 300}
	if h.Thorough() {
		pts = nil
		for p := 0; p <= 320; p++ {
			pts = append(pts, p)
		}
	}
	for i, p := range pts {
		out = append(out, sizes{kCCM, 12, 16, p, aads[i%len(aads)]})
	}
	for _, a := range []int{127, 128, 129, 300} {
		out = append(out, sizes{kCCM, 13, 8, 7, a})
	}
	for i, p := range []int{0, 1, 16, 33, 100} {
		out = append(out, sizes{kCCMWrapped, 7 + i, 4 + 2*i, p, []int{0, 5, 17}[i%3]})
	}
	return out
}

func sweepTamper(t *testing.T, name string, shapes []sizes) {
	h.MarkExhaustive(name)
	h.Sweep(t, h.P{Name: name, Journal: journalAll}, func(emit func(tamperCase)) {
		idx := 0
		for _, s := range shapes {
			if s.nonce+s.tag+s.pt+s.aad > 400 {
				continue
			}
			emitAllPositions(s, &idx, emit)
		}
	}, checkTamper)
}

// TestC04_TamperGCM: every byte position (10 substitute values each, all
// single-bit flips among them) of messages of total size <= 400.
func TestC04_TamperGCM(t *testing.T) { sweepTamper(t, "tamper-gcm-exhaustive", gcmTamperShapes()) }

// TestC04_TamperCCM: likewise for CCM, every nonce size x tag size.
func TestC04_TamperCCM(t *testing.T) { sweepTamper(t, "tamper-ccm-exhaustive", ccmTamperShapes()) }

// TestC04_TamperRandom: sampled positions in messages up to 4 KiB.
func TestC04_TamperRandom(t *testing.T) {
	h.Prop(t, h.P{Name: "tamper-random", Quick: 2500, Thorough: 60000, Journal: journalAll}, func(rt *rapid.T) tamperCase {
		var b aeadCase
		if rapid.IntRange(0, 2).Draw(rt, "ccm") == 0 {
			b = genCCMCase(rt)
			if b.AadLen > 8192 {
				b.AadLen %= 8192
			}
			if b.PtLen > 16384 {
				b.PtLen %= 16384
			}
		} else {
			b = genGCMCase(rt)
		}
		c := tamperCase{Kind: b.Kind, Ctor: b.Ctor, NonceLen: b.NonceLen, TagLen: b.TagLen, PtLen: b.PtLen, AadLen: b.AadLen, Seed: b.Seed,
			Prefix: b.Prefix, Spare: b.Spare, Guard: b.Guard}
		c.Lay = rapid.SampledFrom([]int{layNil, layPrefix, layPrefix, layInPlace}).Draw(rt, "lay")
		total := c.PtLen + c.TagLen
		c.Region = rapid.SampledFrom([]int{regNonce, regAAD, regAAD, regCT, regCT, regCT, regTag, regTag, regCutEnd, regCutStart, regExtend}).Draw(rt, "region")
		if c.Region <= regTag && c.regionLen(c.Region) == 0 {
			c.Region = regTag
		}
		switch c.Region {
		case regCutEnd, regCutStart:
			c.Pos = rapid.OneOf(rapid.IntRange(1, total), rapid.IntRange(1, min(total, 20))).Draw(rt, "cut")
		case regExtend:
			c.Pos = rapid.IntRange(1, 40).Draw(rt, "ext")
		default:
			n := c.regionLen(c.Region)
			switch rapid.IntRange(0, 3).Draw(rt, "posKind") {
			case 0: // near the end (tail block, last byte)
				c.Pos = n - 1 - rapid.IntRange(0, min(n-1, 17)).Draw(rt, "fromEnd")
			case 1: // near a multiple of the fused loop widths
				p := rapid.SampledFrom([]int{16, 64, 128}).Draw(rt, "w")*rapid.IntRange(0, 32).Draw(rt, "k") + rapid.IntRange(-1, 1).Draw(rt, "d")
				c.Pos = max(0, min(n-1, p))
			default:
				c.Pos = rapid.IntRange(0, n-1).Draw(rt, "pos")
			}
		}
		return c
	}, checkTamper)
}

// ---------------------------------------------------------------- documented panics and constructor errors

type misuseCase struct {
	Kind     int
	What     string // "nonce-len", "ctor", "ccm-too-long"
	NonceLen int
	TagLen   int
	Arg      int // the wrong nonce length
	Seed     uint64
}

// cleanPanic runs f and reports whether it panicked; a panic that is a
// runtime error (bounds, nil, fault) is not a documented panic.
func cleanPanic(f func()) (panicked bool, err error) {
	defer func() {
		if p := recover(); p != nil {
			panicked = true
			if re, ok := p.(runtime.Error); ok {
				err = fmt.Errorf("runtime error instead of a documented panic: %v", re)
			}
		}
	}()
	f()
	return
}

func checkMisuse(c misuseCase, r *h.Rec) error {
	r.Label("misuse-" + c.What)
	r.Label(kindNames[c.Kind])
	r.NT()
	key := gen.Fill(gen.Mix(c.Seed, 1), 16)
	switch c.What {
	case "ctor":
		// sizes outside SP 800-38D (as offered by crypto/cipher) / RFC 3610 are refused
		blk, _ := sm4.NewCipher(key)
		var a cipher.AEAD
		var err error
		switch {
		case isGCM(c.Kind) && c.NonceLen == 12:
			a, err = cipher.NewGCMWithTagSize(blk, c.TagLen)
		case isGCM(c.Kind):
			a, err = cipher.NewGCMWithNonceSize(blk, c.NonceLen)
		default:
			a, err = smcipher.NewCCMWithNonceAndTagSize(blk, c.NonceLen, c.TagLen)
		}
		if err == nil || a != nil {
			return fmt.Errorf("%s constructor accepted nonce size %d / tag size %d (err=%v)", kindNames[c.Kind], c.NonceLen, c.TagLen, err)
		}
		return nil
	case "ccm-too-long":
		// L = 2 cannot express 65536: Seal panics (documented), Open errors
		a, _, err := newAEAD(c.Kind, 1, 13, c.TagLen, key)
		if err != nil {
			return err
		}
		nonce := gen.Fill(c.Seed, 13)
		big := make([]byte, 65536+c.TagLen)
		p, perr := cleanPanic(func() { a.Seal(nil, nonce, big[:65536], nil) })
		if perr != nil {
			return fmt.Errorf("CCM Seal of 65536 bytes with a 2-octet length field: %v", perr)
		}
		if !p {
			return fmt.Errorf("CCM Seal of 65536 bytes with a 2-octet length field neither panicked nor can it be RFC 3610 output")
		}
		var out []byte
		p, perr = cleanPanic(func() { out, err = a.Open(nil, nonce, big, nil) })
		if p || perr != nil {
			return fmt.Errorf("CCM Open of an over-long message panicked: %v", perr)
		}
		if err == nil || out != nil {
			return fmt.Errorf("CCM Open accepted an over-long message")
		}
		return nil
	}
	// wrong nonce length: documented panic, must be a clean one and must not touch dst
	a, _, err := newAEAD(c.Kind, 0, c.NonceLen, c.TagLen, key)
	if err != nil {
		return err
	}
	nonce := gen.Fill(gen.Mix(c.Seed, 2), c.Arg)
	pt := gen.Fill(gen.Mix(c.Seed, 3), 33)
	good := a.Seal(nil, gen.Fill(gen.Mix(c.Seed, 2), c.NonceLen), pt, nil)
	pat := gen.Fill(gen.Mix(c.Seed, 5), 80)
	for _, op := range []string{"Seal", "Open"} {
		backing := append([]byte{}, pat...)
		var res []byte
		var oerr error
		p, perr := cleanPanic(func() {
			if op == "Seal" {
				res = a.Seal(backing[:4], nonce, pt, nil)
			} else {
				res, oerr = a.Open(backing[:4], nonce, good, nil)
			}
		})
		if perr != nil {
			return fmt.Errorf("%s %s with a %d-byte nonce (NonceSize %d): %v", kindNames[c.Kind], op, c.Arg, c.NonceLen, perr)
		}
		if !p && (op == "Seal" || oerr == nil) {
			return fmt.Errorf("%s %s with a %d-byte nonce (NonceSize %d) returned normally (%d bytes)", kindNames[c.Kind], op, c.Arg, c.NonceLen, len(res))
		}
		if !bytes.Equal(backing, pat) {
			return fmt.Errorf("%s %s with a wrong nonce length wrote to dst before panicking", kindNames[c.Kind], op)
		}
	}
	return nil
}

func TestC04_Misuse(t *testing.T) {
	h.Sweep(t, h.P{Name: "misuse", Journal: journalAll}, func(emit func(misuseCase)) {
		i := uint64(0)
		seed := func() uint64 { i++; return gen.Mix(h.Seed, i, 5) }
		for kind := 0; kind < 4; kind++ {
			sizes := [][2]int{{12, 16}, {16, 16}, {1, 16}, {12, 12}}
			if !isGCM(kind) {
				sizes = [][2]int{{12, 16}, {7, 4}, {13, 8}}
			}
			for _, s := range sizes {
				for _, wrong := range []int{0, 1, s[0] - 1, s[0] + 1, 12, 16, 64} {
					if wrong != s[0] && wrong >= 0 {
						emit(misuseCase{Kind: kind, What: "nonce-len", NonceLen: s[0], TagLen: s[1], Arg: wrong, Seed: seed()})
					}
				}
			}
		}
		for _, tl := range []int{0, 1, 11, 17, 32} {
			emit(misuseCase{Kind: kGCM, What: "ctor", NonceLen: 12, TagLen: tl, Seed: seed()})
		}
		emit(misuseCase{Kind: kGCM, What: "ctor", NonceLen: 0, TagLen: 16, Seed: seed()})
		for _, nl := range []int{0, 1, 6, 14, 15, 16} {
			emit(misuseCase{Kind: kCCM, What: "ctor", NonceLen: nl, TagLen: 16, Seed: seed()})
		}
		for _, tl := range []int{0, 2, 3, 5, 15, 17, 18} {
			emit(misuseCase{Kind: kCCM, What: "ctor", NonceLen: 12, TagLen: tl, Seed: seed()})
		}
		emit(misuseCase{Kind: kCCM, What: "ccm-too-long", TagLen: 16, Seed: seed()})
		emit(misuseCase{Kind: kCCMWrapped, What: "ccm-too-long", TagLen: 4, Seed: seed()})
	}, checkMisuse)
}

// ---------------------------------------------------------------- regression: defects this check found

// TestC04_Regress pins, independently of the seed-dependent layout rotation
// of the sweeps, the two defects found with this check and since fixed in
// /repo: (1) the fused GCM touched up to 16-tag-r bytes past its slices for
// tags shorter than 16 bytes and a trailing partial block of r bytes with
// r+tag < 16 (Seal wrote, Open read); (2) CCM Seal in place computed the tag
// over the ciphertext.
func TestC04_Regress(t *testing.T) {
	h.Sweep(t, h.P{Name: "regress", Journal: journalAll}, func(emit func(aeadCase)) {
		i := uint64(0)
		for _, tl := range []int{12, 13, 14, 15} {
			for _, pt := range []int{1, 2, 3, 4, 17, 18, 19, 129, 130, 131, 257} {
				for _, lay := range [][4]int{ // seal layout, open layout, spare, guard
					{layPrefix, layNil, 4, 0}, {layPrefix, layPrefix, 0, 1}, {layInPlace, layInPlace, 0, 1}, {layInPlace, layNil, 5, 0}, {layNil, layShort, 0, 1},
				} {
					for _, kind := range []int{kGCM, kGCMWrapped} {
						i++
						emit(aeadCase{Kind: kind, NonceLen: 12, TagLen: tl, PtLen: pt, AadLen: int(i % 3), Seed: gen.Mix(h.Seed, i, 9),
							SealLay: lay[0], OpenLay: lay[1], Prefix: int(i % 2 * 7), Spare: lay[2], Guard: lay[3]})
					}
				}
			}
		}
		for _, kind := range []int{kCCM, kCCMWrapped} {
			for _, pt := range []int{1, 15, 16, 17, 33, 300} {
				for _, prefix := range []int{0, 5} {
					i++
					emit(aeadCase{Kind: kind, NonceLen: 7 + int(i%7), TagLen: 4 + 2*int(i%7), PtLen: pt, AadLen: int(i % 4 * 7), Seed: gen.Mix(h.Seed, i, 9),
						SealLay: layInPlace, OpenLay: layInPlace, Prefix: prefix, Spare: int(i % 2 * 3), Guard: int(i % 3)})
				}
			}
		}
	}, checkAEAD)
}
