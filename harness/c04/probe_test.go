package c04

import (
	"bytes"
	"crypto/cipher"
	"fmt"
	"testing"

	"github.com/emmansun/gmsm/sm4"
	"verif/harness/gen"
)

func TestProbe(t *testing.T) {
	key := make([]byte, 16)
	blk, _ := sm4.NewCipher(key)
	fmt.Printf("%T\n", blk)
	for ts := 12; ts <= 16; ts++ {
		a, err := cipher.NewGCMWithTagSize(blk, ts)
		if err != nil {
			t.Fatal(err)
		}
		fmt.Printf("%T\n", a)
		nonce := make([]byte, 12)
		for n := 0; n < 40; n++ {
			pt := gen.Fill(uint64(n), n)
			buf := bytes.Repeat([]byte{0xA5}, n+ts+32)
			out := a.Seal(buf[:0], nonce, pt, nil)
			for i := len(out); i < len(buf); i++ {
				if buf[i] != 0xA5 {
					fmt.Printf("tag %d len %d: byte %d after result changed to %02x\n", ts, n, i-len(out), buf[i])
				}
			}
			// guarded open
			func() {
				defer func() {
					if r := recover(); r != nil {
						fmt.Printf("tag %d len %d: open panic %v\n", ts, n, r)
					}
				}()
				g := gen.NewGuarded(len(out), true)
				defer g.Free()
				copy(g.B, out)
				p, err := a.Open(nil, nonce, g.B, nil)
				if err != nil || !bytes.Equal(p, pt) {
					fmt.Printf("tag %d len %d: open mismatch %v\n", ts, n, err)
				}
			}()
		}
	}
}
