// C04, native coverage-guided fuzz targets (thorough tier only; the driver
// runs `go test -fuzz`). Every target decodes the fuzzer's bytes into a
// well-formed case of one of the package's case types (a small data-provider
// layer: selector bytes -> choices, length fields reduced into the legal
// range, the remaining bytes as nonce / AAD / message payload) and evaluates
// the SAME check function as the sweeps and rapid properties on it, with a
// fresh h.Rec: the reference models decide every input, a crash is only one
// of the ways to fail.
package c04

import (
	"bytes"
	"encoding/binary"
	"encoding/json"
	"fmt"
	"runtime/debug"
	"testing"

	"verif/harness/gen"
	"verif/harness/h"
)

// fuzzCheck runs one decoded case like h.runCheck does (faults on guard pages
// become panics, a panic is a violation) and fails the fuzz input on error.
func fuzzCheck[C any](t *testing.T, c C, check func(C, *h.Rec) error) {
	show := func() string {
		b, _ := json.Marshal(c)
		return string(b)
	}
	old := debug.SetPanicOnFault(true)
	defer debug.SetPanicOnFault(old)
	defer func() {
		if p := recover(); p != nil {
			t.Fatalf("panic: %v\n%s\ncase: %s", p, debug.Stack(), show())
		}
	}()
	if err := check(c, &h.Rec{}); err != nil {
		t.Fatalf("%v\ncase: %s", err, show())
	}
}

// ---------------------------------------------------------------- shape header (4 bytes)

// d[0]: bits 0-2 AEAD kind (weighted), bit 3 constructor, bits 4-5 buffer
// placement (heap / guard page after / guard page before), bit 6 "the nonce
// is taken from the payload bytes". d[1]: size family, d[2], d[3]: its
// arguments. Only (nonce, tag) pairs the public constructors offer come out.
type fzShape struct {
	kind, ctor, guard int
	nonceLen, tagLen  int
	explicit          bool
	wrap              bool // GCM counter-wrap family: nonce solved so that J0's low word is 2^32-1-wrapJ
	wrapJ             uint32
	wrapTail          int
}

var fzKinds = []int{kGCM, kGCM, kGCM, kGCMWrapped, kCCM, kCCM, kCCMWrapped, kGCM}
var fzWrapTails = []int{0, 1, 16, 48, 130}

const fzShapeLen = 4

func decodeShape(d []byte) fzShape {
	s := fzShape{nonceLen: 12, tagLen: 16}
	s.kind = fzKinds[d[0]&7]
	s.ctor = int(d[0] >> 3 & 1)
	s.guard = []int{0, 1, 1, 2}[d[0]>>4&3]
	s.explicit = d[0]&0x40 != 0
	if isGCM(s.kind) {
		switch d[1] % 8 {
		case 0, 1: // the 12-byte fast path, full tag
		case 2, 3:
			s.tagLen = 12 + int(d[2])%5
		case 4, 5:
			s.nonceLen = 1 + int(d[2])%64
		case 6:
			s.nonceLen = 65 + (int(d[2])|int(d[3])<<8)%236 // 65..300
		case 7:
			s.wrap = true
			s.wrapJ = uint32(d[2])
			s.wrapTail = fzWrapTails[int(d[3])%len(fzWrapTails)]
			s.nonceLen = 16 + s.wrapTail
		}
	} else {
		s.nonceLen = 7 + int(d[1])%7
		s.tagLen = 4 + 2*(int(d[2])%7)
	}
	return s
}

// encShape is the inverse used by the seed corpus. kindIdx indexes fzKinds.
func encShape(kindIdx, ctor, guardIdx int, explicit bool, fam, a, b byte) []byte {
	x := byte(kindIdx&7) | byte(ctor&1)<<3 | byte(guardIdx&3)<<4
	if explicit {
		x |= 0x40
	}
	return []byte{x, fam, a, b}
}

// ---------------------------------------------------------------- length fields (3 bytes: class, u16)

var (
	fzPtSmall  = []int{0, 1, 2, 3, 4, 15, 16, 17, 18, 19, 31, 32, 33, 47, 48, 49, 63, 64, 65, 79, 80, 81, 111, 112, 113, 127, 128, 129, 130, 131, 143, 144, 145, 191, 192, 193, 255, 256, 257}
	fzAadSmall = []int{0, 1, 12, 13, 14, 15, 16, 17, 29, 30, 31, 32, 33, 63, 64, 65, 127, 128, 129, 143, 144, 145, 255, 256, 257}
	fzPtEdges  = []int{4095, 4096, 4097, 8191, 8192, 8193, 16383, 16384, 16385, 65519, 65520, 65534, 65535, 65536, 65537, 65552}
	fzAadEdges = []int{4095, 4096, 4097, 0xfefe, 0xfeff, 0xff00, 0xff01, 0xffff, 0x10000, 0x10001, 0x1000a}
)

// decodeLen maps (class, 16-bit value) to a length: the exhaustively swept
// small range, the bulk-width boundaries, the places where a counter or a
// length field grows a byte, a window of `span` lengths ending at `hi`, or
// any value up to 65535.
func decodeLen(cls byte, v int, small, edges []int, hi, span int) int {
	switch cls % 8 {
	case 0, 1:
		return v % 301
	case 2:
		return small[v%len(small)]
	case 3:
		return v % 4097
	case 4: // k*128-1 .. k*128+2
		return max(0, (v>>2)%33*128+v&3-1)
	case 5:
		return edges[v%len(edges)]
	case 6:
		return hi - v%span
	}
	return v
}

func decodePt(d []byte, s fzShape) int {
	n := decodeLen(d[0], int(binary.LittleEndian.Uint16(d[1:3])), fzPtSmall, fzPtEdges, 65535, 48)
	if !isGCM(s.kind) && s.nonceLen == 13 {
		n %= 65536 // L = 2: the length field cannot express more
	}
	if s.wrap && n < 16*int(s.wrapJ)+1 {
		n += 16*int(s.wrapJ) + 1 // long enough for the counter to wrap inside the message
	}
	return n
}

func decodeAad(d []byte) int {
	return decodeLen(d[0], int(binary.LittleEndian.Uint16(d[1:3])), fzAadSmall, fzAadEdges, 0xff00+40, 81)
}

func encLen(cls byte, v int) []byte { return []byte{cls, byte(v), byte(v >> 8)} }

// exact length v (class 7 takes the value as it is)
func exactLen(v int) []byte { return encLen(7, v) }

func fzPrefix(b byte) int {
	if b&0x80 != 0 {
		return 0
	}
	return int(b) % 33
}

// solveWrapNonce: the nonce of wrapCase for this key seed.
func solveWrapNonce(kind int, seed uint64, s fzShape) []byte {
	return wrapCase(kind, seed, s.wrapJ, s.wrapTail, 0, 0).Nonce
}

// payloadNonce takes the nonce from the payload (padded from the seed when
// the payload is short) and returns the rest of the payload.
func payloadNonce(payload []byte, n int, seed uint64) (nonce, rest []byte) {
	nonce = gen.Fill(gen.Mix(seed, 2), n)
	k := copy(nonce, payload)
	return nonce[:n:n], payload[k:]
}

// ---------------------------------------------------------------- FuzzC04_SealOpen -> aeadCase -> checkAEAD

// bytes: 0-3 shape | 4 dst layouts (Seal bits 0-1, Open bits 2-3) | 5 prefix |
// 6 spare | 7-9 plaintext length | 10-12 AAD length | 13-20 seed | 21.. nonce
const fzSealOpenMin = 21

func decodeSealOpen(d []byte) (aeadCase, bool) {
	if len(d) < fzSealOpenMin {
		return aeadCase{}, false
	}
	s := decodeShape(d)
	c := aeadCase{Kind: s.kind, Ctor: s.ctor, NonceLen: s.nonceLen, TagLen: s.tagLen, Guard: s.guard}
	c.SealLay = int(d[4] & 3)
	c.OpenLay = int(d[4] >> 2 & 3)
	c.Prefix = fzPrefix(d[5])
	c.Spare = fzPrefix(d[6])
	c.PtLen = decodePt(d[7:10], s)
	c.AadLen = decodeAad(d[10:13])
	c.Seed = binary.LittleEndian.Uint64(d[13:21])
	switch {
	case s.wrap:
		c.Nonce = solveWrapNonce(c.Kind, c.Seed, s)
	case s.explicit && len(d) > fzSealOpenMin:
		nonce, _ := payloadNonce(d[fzSealOpenMin:], c.NonceLen, c.Seed)
		c.Nonce = nonce
	}
	return c, true
}

func encSealOpen(shape []byte, seal, open, prefix, spare int, pt, aad []byte, seed uint64, nonce []byte) []byte {
	d := append([]byte{}, shape...)
	d = append(d, byte(seal&3|(open&3)<<2), byte(prefix), byte(spare))
	d = append(d, pt...)
	d = append(d, aad...)
	d = binary.LittleEndian.AppendUint64(d, seed)
	return append(d, nonce...)
}

func FuzzC04_SealOpen(f *testing.F) {
	i := uint64(0)
	add := func(shape []byte, seal, open, prefix, spare int, pt, aad []byte, nonce ...byte) {
		i++
		f.Add(encSealOpen(shape, seal, open, prefix, spare, pt, aad, gen.Mix(0xc04, i), nonce))
	}
	// typical cases of every kind
	for _, k := range []int{0, 3, 4, 6} {
		add(encShape(k, 0, 0, false, 0, 6, 0), layNil, layNil, 0, 0, exactLen(33), exactLen(13))
		add(encShape(k, 1, 1, false, 0, 6, 0), layInPlace, layInPlace, 5, 3, exactLen(129), exactLen(17))
	}
	// GCM: short tags with a tail shorter than 16-tag bytes, spare capacity behind the result
	for tl := 12; tl <= 15; tl++ {
		add(encShape(0, 0, tl%3, false, 2, byte(tl-12), 0), layPrefix, layShort, 7, 32, exactLen(16*(tl-12)+1+tl%3), exactLen(tl-12))
	}
	// GCM: nonce sizes around the fast path, one GHASH block, several
	for _, nl := range []int{1, 8, 11, 13, 16, 17, 64} {
		add(encShape(nl%4, 0, 1, false, 4, byte(nl-1), 0), layPrefix, layInPlace, 1, 0, exactLen(65), exactLen(5))
	}
	add(encShape(0, 0, 0, false, 6, 235, 0), layNil, layPrefix, 0, 16, exactLen(31), exactLen(0)) // 300-byte nonce
	add(encShape(0, 0, 0, false, 6, 128-65, 0), layNil, layNil, 0, 0, exactLen(16), exactLen(1))  // 128-byte nonce
	add(encShape(0, 0, 0, false, 6, 129-65, 0), layNil, layNil, 0, 0, exactLen(16), exactLen(1))  // 129-byte nonce
	// GCM: the 32-bit counter wraps in the first block, in the 4-block step, in the bulk loop
	add(encShape(0, 0, 1, false, 7, 0, 0), layInPlace, layNil, 0, 0, exactLen(17), exactLen(0))
	add(encShape(0, 0, 0, false, 7, 3, 1), layNil, layInPlace, 3, 1, exactLen(16*7+3), exactLen(5))
	add(encShape(3, 0, 0, false, 7, 9, 2), layPrefix, layPrefix, 0, 0, exactLen(16*26+1), exactLen(16))
	add(encShape(0, 0, 2, false, 7, 40, 4), layNil, layNil, 0, 0, exactLen(16*57+1), exactLen(0))
	// GCM: every residue class of the fused loops (16 / 64 / 128) on both arguments
	for k, n := range []int{63, 64, 65, 127, 128, 129, 257} {
		add(encShape(0, k%2, k%4, false, 0, 0, 0), k%4, (k+1)%4, k%2*16, k%3, exactLen(n), exactLen([]int{0, 13, 16}[k%3]))
		add(encShape(0, k%2, k%4, false, 0, 0, 0), layNil, layNil, 0, 0, exactLen(k), exactLen(n))
	}
	// where a counter or length field grows a byte
	add(encShape(0, 0, 0, false, 0, 0, 0), layInPlace, layNil, 0, 0, exactLen(4097), exactLen(4096))
	add(encShape(0, 0, 0, false, 0, 0, 0), layNil, layInPlace, 0, 0, exactLen(65535), exactLen(13))
	add(encShape(3, 0, 0, false, 0, 0, 0), layNil, layNil, 0, 0, exactLen(4096), exactLen(65535))
	// CCM: every nonce size with rotating tag sizes
	for nl := 7; nl <= 13; nl++ {
		add(encShape(4+nl%2*2, 1, nl%3, false, byte(nl-7), byte(nl), 0), nl%4, (nl+2)%4, nl%2*5, nl%3, exactLen(nl*5), exactLen(nl%4*7))
	}
	// CCM: the AAD length encodings (none / 2 octets / 6 octets) and B_1 fill boundaries
	for k, n := range []int{1, 14, 15, 0xfeff, 0xff00, 0x10000} {
		add(encShape(4, k%2, 0, false, byte(k), byte(k), 0), layNil, layNil, 0, 0, exactLen(17), exactLen(n))
	}
	// CCM: the longest messages of the 2-octet length field
	add(encShape(4, 1, 0, false, 6, 2, 0), layNil, layNil, 0, 0, exactLen(65535), exactLen(0))
	add(encShape(4, 1, 1, false, 6, 6, 0), layInPlace, layInPlace, 0, 0, exactLen(65520), exactLen(3))
	// nonces given as bytes: all ones, all zero, a counter pattern
	add(encShape(0, 0, 0, true, 0, 0, 0), layNil, layNil, 0, 0, exactLen(48), exactLen(0), bytes.Repeat([]byte{0xff}, 12)...)
	add(encShape(0, 0, 0, true, 4, 15, 0), layNil, layNil, 0, 0, exactLen(48), exactLen(0), bytes.Repeat([]byte{0xff}, 16)...)
	add(encShape(0, 0, 0, true, 4, 15, 0), layNil, layNil, 0, 0, exactLen(48), exactLen(0), make([]byte, 16)...)
	add(encShape(4, 0, 0, true, 6, 6, 0), layNil, layNil, 0, 0, exactLen(48), exactLen(9), bytes.Repeat([]byte{0xff}, 13)...)
	f.Fuzz(func(t *testing.T, data []byte) {
		c, ok := decodeSealOpen(data)
		if !ok {
			return
		}
		fuzzCheck(t, c, checkAEAD)
	})
}

// ---------------------------------------------------------------- Open of attacker-chosen bytes against the reference verdict

// openBytesCase: nonce, AAD and ciphertext||tag are arbitrary bytes. The
// reference decides: the body is decrypted with the model (CTR is its own
// inverse), re-sealed with the model, and the message is genuine iff its tag
// equals the model's. Retag replaces the tag by the model's, so that the
// accepting path also sees arbitrary ciphertext bytes (valid outer layer,
// attacker-chosen inner payload).
type openBytesCase struct {
	Kind   int
	Ctor   int
	TagLen int
	Seed   uint64
	Nonce  h.B
	Aad    h.B
	Msg    h.B
	Retag  bool
	Lay    int
	Prefix int
	Spare  int
	Guard  int
}

func checkOpenBytes(c openBytesCase, r *h.Rec) error {
	key := gen.Fill(gen.Mix(c.Seed, 1), 16)
	nonce, aad, msg := []byte(c.Nonce), []byte(c.Aad), []byte(c.Msg)
	r.Label(kindNames[c.Kind])
	r.NT()
	a, _, err := newAEAD(c.Kind, c.Ctor, len(nonce), c.TagLen, key)
	if err != nil {
		return fmt.Errorf("constructor failed for valid sizes (nonce %d, tag %d): %v", len(nonce), c.TagLen, err)
	}
	var pt, want []byte
	accept := false
	if n := len(msg) - c.TagLen; n >= 0 {
		pt = oracle(c.Kind, key, nonce, msg[:n], aad, c.TagLen)[:n:n]
		want = oracle(c.Kind, key, nonce, pt, aad, c.TagLen)
		if !bytes.Equal(want[:n], msg[:n]) {
			h.HarnessError("reference CTR is not an involution: key=%x nonce=%x", key, nonce)
		}
		if c.Retag {
			msg = want
		}
		accept = bytes.Equal(msg[n:], want[n:])
	}
	desc := fmt.Sprintf("%s nonce(%d)=%s tag=%d aad(%d)=%s msg(%d)=%s retag=%v key=%s dst=%s prefix=%d spare=%d guard=%d",
		kindNames[c.Kind], len(nonce), h.Hex(nonce), c.TagLen, len(aad), h.Hex(aad), len(msg), h.Hex(msg), c.Retag, h.Hex(key),
		layNames[c.Lay], c.Prefix, c.Spare, c.Guard)
	al := &alloc{guard: c.Guard}
	defer al.free()
	if accept {
		r.Label("bytes:genuine")
		nonceB, aadB := al.copyOf(nonce), al.copyOf(aad)
		if err := appendStyle("Open", c.Lay, c.Prefix, c.Spare, gen.Mix(c.Seed, 6), al, msg, pt, desc,
			func(dst, in []byte) ([]byte, error) { return a.Open(dst, nonceB, in, aadB) }); err != nil {
			return err
		}
		if !bytes.Equal(nonceB, nonce) || !bytes.Equal(aadB, aad) {
			return fmt.Errorf("Open modified nonce or additional data [%s]", desc)
		}
		return nil
	}
	r.Label("bytes:forged")
	tc := tamperCase{Kind: c.Kind, Ctor: c.Ctor, NonceLen: len(nonce), TagLen: c.TagLen, PtLen: len(pt), AadLen: len(aad), Seed: c.Seed,
		Lay: c.Lay, Prefix: c.Prefix, Spare: c.Spare, Guard: c.Guard}
	if err := openMustFail(a, tc, al, "attacker-chosen bytes the reference rejects", nonce, aad, msg, pt, desc); err != nil {
		return err
	}
	if want != nil {
		// the rejection leaves the AEAD usable: the re-tagged message opens
		if out, err := a.Open(nil, nonce, want, aad); err != nil || !bytes.Equal(out, pt) {
			return fmt.Errorf("after rejecting a forged message Open no longer accepts the genuine one (err=%v) [%s]", err, desc)
		}
	}
	return nil
}

// ---------------------------------------------------------------- FuzzC04_Tamper -> tamperCase -> checkTamper | openBytesCase -> checkOpenBytes

// bytes: 0-3 shape | 4 dst layout (bits 0-1), region (bits 2-4; 7 = the
// payload is the message) | 5 prefix | 6 spare | 7-9 plaintext length |
// 10-12 AAD length | 13-20 seed | 21-22 position | 23 flags (bit 0 retag,
// bit 1 position counted from the end) | 24.. payload (nonce, AAD, message)
const (
	fzTamperMin = 24
	fzRawBytes  = 7
	fzMaxRaw    = 16384
)

var fzTamperLays = []int{layNil, layPrefix, layPrefix, layInPlace}

func decodeTamper(d []byte) (tc tamperCase, oc openBytesCase, raw, ok bool) {
	if len(d) < fzTamperMin {
		return
	}
	s := decodeShape(d)
	seed := binary.LittleEndian.Uint64(d[13:21])
	region := int(d[4] >> 2 & 7)
	pos := int(binary.LittleEndian.Uint16(d[21:23]))
	if region == fzRawBytes {
		oc = openBytesCase{Kind: s.kind, Ctor: s.ctor, TagLen: s.tagLen, Seed: seed, Retag: d[23]&1 != 0,
			Lay: int(d[4] & 3), Prefix: fzPrefix(d[5]), Spare: fzPrefix(d[6]), Guard: s.guard}
		payload := d[fzTamperMin:]
		if len(payload) > fzMaxRaw {
			payload = payload[:fzMaxRaw]
		}
		var nonce []byte
		switch {
		case s.wrap:
			nonce = solveWrapNonce(s.kind, seed, s)
		case s.explicit:
			nonce, payload = payloadNonce(payload, s.nonceLen, seed)
		default:
			nonce = gen.Fill(gen.Mix(seed, 2), s.nonceLen)
		}
		na := decodeAad(d[10:13]) % (len(payload) + 1)
		oc.Nonce, oc.Aad, oc.Msg = append([]byte{}, nonce...), append([]byte{}, payload[:na]...), append([]byte{}, payload[na:]...)
		return tc, oc, true, true
	}
	tc = tamperCase{Kind: s.kind, Ctor: s.ctor, NonceLen: s.nonceLen, TagLen: s.tagLen, Seed: seed, Region: region,
		Lay: fzTamperLays[d[4]&3], Prefix: fzPrefix(d[5]), Spare: fzPrefix(d[6]), Guard: s.guard}
	s.wrap = false // checkTamper derives the nonce from the seed
	tc.PtLen = decodePt(d[7:10], s)
	tc.AadLen = decodeAad(d[10:13])
	total := tc.PtLen + tc.TagLen
	switch tc.Region {
	case regCutEnd, regCutStart:
		tc.Pos = 1 + pos%total
	case regExtend:
		tc.Pos = 1 + pos%40
	default:
		if tc.regionLen(tc.Region) == 0 {
			tc.Region = regTag
		}
		n := tc.regionLen(tc.Region)
		tc.Pos = pos % n
		if d[23]&2 != 0 {
			tc.Pos = n - 1 - tc.Pos
		}
	}
	return tc, oc, false, true
}

func encTamper(shape []byte, lay, region, prefix, spare int, pt, aad []byte, seed uint64, pos int, flags byte, payload []byte) []byte {
	d := append([]byte{}, shape...)
	d = append(d, byte(lay&3|(region&7)<<2), byte(prefix), byte(spare))
	d = append(d, pt...)
	d = append(d, aad...)
	d = binary.LittleEndian.AppendUint64(d, seed)
	d = append(d, byte(pos), byte(pos>>8), flags)
	return append(d, payload...)
}

func FuzzC04_Tamper(f *testing.F) {
	i := uint64(0)
	next := func() uint64 { i++; return gen.Mix(0xc04, i, 2) }
	// every region x every kind, positions at the start, at the end and in the last block
	for k, kind := range []int{0, 3, 4, 6} {
		for region := regNonce; region <= regExtend; region++ {
			if k%2 == 1 && region != regCT && region != regTag && region != regCutEnd {
				continue // the wrapped kinds: the regions that reach their own code
			}
			shape := encShape(kind, region%2, (k+region)%4, false, byte(region), byte(k+region), 0)
			f.Add(encTamper(shape, (k+region)%4, region, region%3*4, region%2*16, exactLen(33+16*k+region), exactLen(5+k), next(), region*7, byte(region&2), nil))
		}
	}
	// fused-loop boundaries: a byte on each side of 64 / 128 / 256, first and last byte
	for k, n := range []int{64, 65, 128, 129, 256, 257} {
		f.Add(encTamper(encShape(0, 0, 1, false, 0, 0, 0), 1, regCT, 3, 0, exactLen(n), exactLen(13), next(), n-1, 0, nil))
		f.Add(encTamper(encShape(0, 0, k%4, false, 0, 0, 0), 3, regAAD, 0, 0, exactLen(17), exactLen(n), next(), 0, 2, nil))
	}
	// short tags, long nonces, the counter-wrap family sealed and tampered through the raw mode
	f.Add(encTamper(encShape(0, 0, 1, false, 2, 0, 0), 1, regTag, 16, 16, exactLen(3), exactLen(0), next(), 11, 0, nil))
	f.Add(encTamper(encShape(0, 0, 0, false, 2, 1, 0), 3, regCutEnd, 2, 1, exactLen(18), exactLen(1), next(), 0, 0, nil))
	f.Add(encTamper(encShape(0, 0, 0, false, 4, 16, 0), 1, regNonce, 5, 5, exactLen(130), exactLen(7), next(), 16, 0, nil))
	f.Add(encTamper(encShape(0, 0, 0, false, 6, 100, 0), 0, regNonce, 0, 0, exactLen(20), exactLen(0), next(), 164, 0, nil))
	// CCM: AAD around the 2-octet / 6-octet encodings, the longest L=2 message
	f.Add(encTamper(encShape(4, 1, 0, false, 5, 0, 0), 1, regAAD, 1, 0, exactLen(9), exactLen(0xff00), next(), 0xfeff, 0, nil))
	f.Add(encTamper(encShape(4, 1, 0, false, 6, 6, 0), 1, regCutEnd, 1, 0, exactLen(65535), exactLen(2), next(), 0, 0, nil))
	// attacker-chosen bytes: genuine artefacts built with the reference model
	// (accepted as they are; every mutation of them must be rejected), the same
	// with the tag recomputed by the harness, and hostile constants
	type art struct {
		shape          []byte
		nonce, tag, pt int
		aad            int
	}
	for k, a := range []art{
		{encShape(0, 0, 0, true, 0, 0, 0), 12, 16, 33, 13},
		{encShape(0, 0, 1, true, 2, 0, 0), 12, 12, 2, 0},
		{encShape(0, 1, 0, true, 4, 15, 0), 16, 16, 129, 5},
		{encShape(3, 0, 0, true, 4, 0, 0), 1, 16, 64, 0},
		{encShape(4, 0, 0, true, 5, 6, 0), 12, 16, 47, 14},
		{encShape(4, 1, 2, true, 0, 0, 0), 7, 4, 16, 0},
		{encShape(6, 1, 0, true, 6, 2, 0), 13, 8, 5, 300},
	} {
		seed := next()
		s := decodeShape(a.shape)
		key := gen.Fill(gen.Mix(seed, 1), 16)
		nonce, aad, pt := gen.Fill(gen.Mix(seed, 12), a.nonce), gen.Fill(gen.Mix(seed, 14), a.aad), gen.Fill(gen.Mix(seed, 13), a.pt)
		if s.nonceLen != a.nonce || s.tagLen != a.tag {
			f.Fatalf("seed corpus: shape decodes to nonce %d tag %d, wanted %d/%d", s.nonceLen, s.tagLen, a.nonce, a.tag)
		}
		sealed := oracle(s.kind, key, nonce, pt, aad, a.tag)
		payload := append(append(append([]byte{}, nonce...), aad...), sealed...)
		f.Add(encTamper(a.shape, k%4, fzRawBytes, k%2*7, k%3*8, exactLen(0), exactLen(a.aad), seed, 0, 0, payload))
		junk := append(append(append([]byte{}, nonce...), aad...), gen.Fill(gen.Mix(seed, 15), a.pt+a.tag)...)
		f.Add(encTamper(a.shape, (k+1)%4, fzRawBytes, 3, 0, exactLen(0), exactLen(a.aad), seed, 0, 1, junk))
	}
	for k, msg := range [][]byte{nil, {0}, make([]byte, 3), make([]byte, 11), make([]byte, 15), make([]byte, 16), bytes.Repeat([]byte{0xff}, 17), bytes.Repeat([]byte{0xff}, 64)} {
		f.Add(encTamper(encShape([]int{0, 3, 4, 6}[k%4], 0, k%4, false, byte(k), byte(k), 0), k%4, fzRawBytes, k%2*9, k%3, exactLen(0), exactLen(0), next(), 0, 0, msg))
	}
	f.Add(encTamper(encShape(0, 0, 0, false, 7, 1, 0), 3, fzRawBytes, 0, 0, exactLen(0), exactLen(3), next(), 0, 1, gen.Fill(99, 3+67))) // counter wrap, re-tagged
	f.Fuzz(func(t *testing.T, data []byte) {
		tc, oc, raw, ok := decodeTamper(data)
		switch {
		case !ok:
		case raw:
			fuzzCheck(t, oc, checkOpenBytes)
		default:
			fuzzCheck(t, tc, checkTamper)
		}
	})
}

// ---------------------------------------------------------------- FuzzC04_History -> histCase -> checkHistory

// bytes: 0-3 shape | 4 caller discipline | 5-12 seed | 13.. operations of 8
// bytes each (at most 7): op | argument flavours | plaintext length (u16) |
// AAD length (u16) | forged region (2 bits) and position (u16)
const (
	fzHistMin   = 13 + 8
	fzHistOpLen = 8
	fzHistOps   = 7
)

var (
	fzHistOpKinds = []int{opSeal, opSeal, opOpen, opOpen, opForged}
	fzHistLens    = []int{0, 1, 2, 12, 13, 14, 15, 16, 17, 29, 30, 31, 32, 33, 63, 64, 65, 127, 128, 129, 143, 255, 256, 257, 1023, 1024, 1025, 2047, 2048}
)

// histLen: the top two bits pick the class (tiny / swept range / boundary
// list / up to 2048), never above the 2048 bytes the reuse arenas allow for.
func histLen(v int) int {
	x := v & 0x3fff
	switch v >> 14 {
	case 0:
		return x % 41
	case 1:
		return x % 301
	case 2:
		return fzHistLens[x%len(fzHistLens)]
	}
	return x % 2049
}

func decodeHistory(d []byte) (histCase, bool) {
	if len(d) < fzHistMin {
		return histCase{}, false
	}
	s := decodeShape(d)
	c := histCase{Kind: s.kind, Ctor: s.ctor, NonceLen: s.nonceLen, TagLen: s.tagLen}
	c.Scribble = []int{0, 1, 1, 2, 2}[d[4]%5]
	c.Seed = binary.LittleEndian.Uint64(d[5:13])
	for o := d[13:]; len(o) >= fzHistOpLen && len(c.Ops) < fzHistOps; o = o[fzHistOpLen:] {
		rp := int(binary.LittleEndian.Uint16(o[6:8]))
		c.Ops = append(c.Ops, histOp{
			Op:     fzHistOpKinds[int(o[0])%len(fzHistOpKinds)],
			PtF:    int(o[1] & 3),
			AadF:   int(o[1] >> 2 & 3),
			NonceF: []int{inExact, inSpare}[o[1]>>4&1],
			DstF:   int(o[1]>>5) % 5,
			PtLen:  histLen(int(binary.LittleEndian.Uint16(o[2:4]))),
			AadLen: histLen(int(binary.LittleEndian.Uint16(o[4:6]))),
			Region: rp & 3,
			Pos:    rp >> 2 % 4097,
		})
	}
	// a history never ends on a rejection: the object must still work
	if last := &c.Ops[len(c.Ops)-1]; last.Op == opForged {
		last.Op = opOpen
	}
	return c, true
}

// encHistOp: op indexes fzHistOpKinds; lengths are encoded in the class that
// takes them literally (3: up to 2048).
func encHistOp(op, ptF, aadF, nonceSpare, dstF, pt, aad, region, pos int) []byte {
	o := []byte{byte(op), byte(ptF&3 | (aadF&3)<<2 | (nonceSpare&1)<<4 | (dstF%5)<<5)}
	o = binary.LittleEndian.AppendUint16(o, uint16(3<<14|pt))
	o = binary.LittleEndian.AppendUint16(o, uint16(3<<14|aad))
	return binary.LittleEndian.AppendUint16(o, uint16(region&3|pos<<2))
}

func FuzzC04_History(f *testing.F) {
	i := uint64(0)
	add := func(shape []byte, scribble byte, ops ...[]byte) {
		i++
		d := append(append([]byte{}, shape...), scribble)
		d = binary.LittleEndian.AppendUint64(d, gen.Mix(0xc04, i, 3))
		for _, o := range ops {
			d = append(d, o...)
		}
		f.Add(d)
	}
	const (
		seal   = 0
		open   = 2
		forged = 4
	)
	for k, kind := range []int{0, 3, 4, 6} {
		// Seal, Open, a rejected forgery in every region, then Seal again: all flavours of dst
		shape := encShape(kind, k%2, 0, false, byte(k), byte(k), 0)
		add(shape, byte(k),
			encHistOp(seal, inExact, inExact, 0, dstNil, 33, 13, 0, 0),
			encHistOp(open, inExact, inSpare, 1, dstPrefix, 129, 5, 0, 0),
			encHistOp(forged, inExact, inExact, 0, dstInPlace, 65, 20, regCT, 64),
			encHistOp(seal, inSpare, inSpare, 1, dstZero, 17, 1, 0, 0))
		add(shape, byte(k+1),
			encHistOp(forged, inExact, inExact, 0, dstPrefix, 16, 16, regNonce, 3),
			encHistOp(forged, inExact, inExact, 1, dstZero, 1, 300, regAAD, 299),
			encHistOp(forged, inSpare, inNil, 0, dstEmpty, 0, 0, regTag, 3),
			encHistOp(open, inExact, inZero, 0, dstInPlace, 64, 0, 0, 0))
		// zero-length arguments in every flavour between non-empty calls
		add(shape, byte(k+2),
			encHistOp(seal, inNil, inNil, 0, dstNil, 0, 0, 0, 0),
			encHistOp(seal, inZero, inZero, 1, dstEmpty, 0, 0, 0, 0),
			encHistOp(open, inExact, inExact, 0, dstZero, 0, 40, 0, 0),
			encHistOp(seal, inExact, inZero, 0, dstInPlace, 40, 0, 0, 0),
			encHistOp(open, inExact, inNil, 1, dstPrefix, 0, 0, 0, 0))
		// long then short additional data on one object, every discipline
		add(shape, byte(k+3),
			encHistOp(seal, inExact, inSpare, 0, dstNil, 5, 2048, 0, 0),
			encHistOp(open, inExact, inSpare, 0, dstNil, 300, 129, 0, 0),
			encHistOp(seal, inSpare, inSpare, 1, dstPrefix, 1024, 13, 0, 0),
			encHistOp(open, inSpare, inExact, 1, dstInPlace, 2048, 1, 0, 0))
	}
	// GCM size families: short tag with a short tail, nonce sizes next to 12 and 16, 13-byte AAD
	for k, sh := range [][]byte{
		encShape(0, 0, 0, false, 2, 0, 0), encShape(0, 1, 0, false, 2, 3, 0), encShape(0, 0, 0, false, 4, 12, 0),
		encShape(0, 0, 0, false, 4, 15, 0), encShape(0, 0, 0, false, 4, 16, 0), encShape(3, 0, 0, false, 6, 70, 0), encShape(0, 0, 0, false, 7, 0, 3),
	} {
		add(sh, byte(k),
			encHistOp(seal, inSpare, inSpare, 1, dstPrefix, 1+k%3, 13, 0, 0),
			encHistOp(forged, inSpare, inSpare, 1, dstPrefix, 18, 13, regTag, 11),
			encHistOp(open, inExact, inSpare, 1, dstInPlace, 130+k, 13, 0, 0))
	}
	// CCM: every nonce size, B_1 fill boundaries (13 / 14 / 15 bytes of AAD)
	for nl := 7; nl <= 13; nl++ {
		add(encShape(4, 1, 0, false, byte(nl-7), byte(nl), 0), byte(nl),
			encHistOp(seal, inExact, inExact, 0, dstInPlace, 47, 14, 0, 0),
			encHistOp(open, inExact, inSpare, 1, dstZero, nl, 15, 0, 0),
			encHistOp(seal, inSpare, inExact, 0, dstPrefix, 16, 30, 0, 0))
	}
	f.Fuzz(func(t *testing.T, data []byte) {
		c, ok := decodeHistory(data)
		if !ok {
			return
		}
		fuzzCheck(t, c, checkHistory)
	})
}
