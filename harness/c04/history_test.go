// C04, histories on one AEAD object: the key is given once at construction,
// nonce / AAD / plaintext / dst per call. Every call of a history must equal
// the model regardless of what happened before on the same object (a
// successful call, a rejected forgery) and regardless of what the caller
// does with its buffers after a call returned (scribble, reuse). Zero-length
// arguments come as nil, []byte{} and buf[:0]; inputs also with spare
// capacity that must stay untouched.
package c04

import (
	"bytes"
	"crypto/cipher"
	"fmt"
	"testing"

	smcipher "github.com/emmansun/gmsm/cipher"
	"github.com/emmansun/gmsm/sm4"
	"pgregory.net/rapid"
	"verif/harness/gen"
	"verif/harness/h"
)

const (
	opSeal   = 0
	opOpen   = 1 // Open of the genuine message
	opForged = 2 // Open of a message with one byte changed: must fail
)

const (
	inExact = 0 // len == cap private copy ([]byte{} when empty)
	inNil   = 1 // nil (zero length only)
	inZero  = 2 // buf[:0] of a non-empty buffer (zero length only)
	inSpare = 3 // buf[:n] with 17 bytes of spare capacity holding a pattern
)

var inNames = []string{"exact", "nil", "buf[:0]", "spare-cap"}

const (
	dstNil     = 0
	dstEmpty   = 1 // []byte{}
	dstZero    = 2 // buf[:0], capacity for the result + 9
	dstPrefix  = 3 // buf[:5], capacity for the result + 3
	dstInPlace = 4 // the input's own buffer: Seal(in[:0], nonce, in, aad)
)

var dstNames = []string{"nil", "[]byte{}", "buf[:0]", "prefix", "in-place"}

type histOp struct {
	Op     int
	PtLen  int
	AadLen int
	PtF    int // flavour of the plaintext (Seal) / ciphertext (Open) argument
	AadF   int
	NonceF int // inExact or inSpare
	DstF   int
	Region int // opForged: regNonce..regTag
	Pos    int // opForged: byte position, taken modulo the region length
}

type histCase struct {
	Kind     int
	Ctor     int
	NonceLen int
	TagLen   int
	Seed     uint64
	// Scribble: 0 every argument is a private copy left alone; 1 every
	// argument (key after the constructor; nonce, AAD, input, returned
	// slice after each call) is overwritten with garbage as soon as the call
	// has returned and its result was compared; 2 the caller reuses one
	// buffer per argument for all calls, so each call overwrites the
	// previous call's arguments with its own.
	Scribble int
	Ops      []histOp
}

// arena is one reusable caller buffer (Scribble 2).
type arena struct{ buf []byte }

func (a *arena) take(n, spare int) []byte {
	if cap(a.buf) < n+spare {
		a.buf = make([]byte, n+spare+4200) // large enough for every later call of a history
	}
	return a.buf[: n+spare : n+spare]
}

// input materialises data in the given flavour. It returns the slice to pass
// and a verify function that checks content and spare capacity afterwards,
// and a scribble function that overwrites everything the caller owns.
func input(data []byte, flavour int, reuse *arena, patSeed uint64) (arg []byte, verify func() error, scribble func()) {
	n := len(data)
	if n > 0 && (flavour == inNil || flavour == inZero) {
		flavour = inExact
	}
	var backing []byte
	switch {
	case reuse != nil:
		spare := 17
		backing = reuse.take(n, spare)
		copy(backing[n:], gen.Fill(patSeed, spare))
	case flavour == inNil:
		return nil, func() error { return nil }, func() {}
	case flavour == inZero:
		backing = gen.Fill(patSeed, 24)
		want := append([]byte{}, backing...)
		return backing[:0], func() error {
				if !bytes.Equal(backing, want) {
					return fmt.Errorf("the buffer behind a zero-length argument was written")
				}
				return nil
			}, func() {
				copy(backing, gen.Fill(patSeed+1, len(backing)))
			}
	case flavour == inSpare:
		backing = make([]byte, n+17)
		copy(backing[n:], gen.Fill(patSeed, 17))
	default:
		backing = make([]byte, n)
	}
	copy(backing, data)
	want := append([]byte{}, backing...)
	return backing[:n], func() error {
			if k := diffAt(backing, want); k >= 0 {
				if k < n {
					return fmt.Errorf("argument byte %d was modified", k)
				}
				return fmt.Errorf("spare capacity byte %d behind an input argument was modified", k-n)
			}
			return nil
		}, func() {
			copy(backing, gen.Fill(patSeed+1, len(backing)))
		}
}

func checkHistory(c histCase, r *h.Rec) error {
	r.Label(kindNames[c.Kind])
	r.Label("scribble=%d", c.Scribble)
	r.Label("ops=%d", len(c.Ops))
	r.NT()
	key := gen.Fill(gen.Mix(c.Seed, 1), 16)

	// the key is handed over as a private copy and destroyed after construction
	keyArg := append([]byte{}, key...)
	blk, err := sm4.NewCipher(keyArg)
	if err != nil {
		return err
	}
	if c.Kind == kGCMWrapped || c.Kind == kCCMWrapped {
		blk = struct{ cipher.Block }{blk}
	}
	var a cipher.AEAD
	switch {
	case isGCM(c.Kind) && c.NonceLen != 12:
		a, err = cipher.NewGCMWithNonceSize(blk, c.NonceLen)
	case isGCM(c.Kind) && (c.TagLen != 16 || c.Ctor == 1):
		a, err = cipher.NewGCMWithTagSize(blk, c.TagLen)
	case isGCM(c.Kind):
		a, err = cipher.NewGCM(blk)
	default:
		a, err = smcipher.NewCCMWithNonceAndTagSize(blk, c.NonceLen, c.TagLen)
	}
	if err != nil {
		return fmt.Errorf("constructor failed for valid sizes (nonce %d, tag %d): %v", c.NonceLen, c.TagLen, err)
	}
	if !bytes.Equal(keyArg, key) {
		return fmt.Errorf("the constructor modified the caller's key")
	}
	if c.Scribble != 0 {
		copy(keyArg, gen.Fill(gen.Mix(c.Seed, 99), 16))
	}

	var nonceA, aadA, inA, dstA *arena
	if c.Scribble == 2 {
		nonceA, aadA, inA, dstA = &arena{}, &arena{}, &arena{}, &arena{}
	}
	afterForged := false
	for i, op := range c.Ops {
		s := gen.Mix(c.Seed, uint64(i), 50)
		nonce := gen.Fill(gen.Mix(s, 2), c.NonceLen)
		pt := gen.Fill(gen.Mix(s, 3), op.PtLen)
		aad := gen.Fill(gen.Mix(s, 4), op.AadLen)
		sealed := oracle(c.Kind, key, nonce, pt, aad, c.TagLen)
		r.Label([]string{"op:seal", "op:open", "op:open-forged"}[op.Op])
		if afterForged {
			r.Label("op-after-rejected-forgery")
		}
		if i > 0 {
			r.Label("op-on-used-object")
		}
		desc := fmt.Sprintf("op %d/%d %s on %s nonce(%d)=%s tag=%d pt=%d(%s) aad=%d(%s) dst=%s scribble=%d key=%s seed=%d",
			i+1, len(c.Ops), []string{"Seal", "Open", "Open(forged)"}[op.Op], kindNames[c.Kind], c.NonceLen, h.Hex(nonce), c.TagLen,
			op.PtLen, inNames[op.PtF], op.AadLen, inNames[op.AadF], dstNames[op.DstF], c.Scribble, h.Hex(key), c.Seed)
		fail := func(format string, args ...any) error {
			return fmt.Errorf("%s [%s]", fmt.Sprintf(format, args...), desc)
		}

		// what goes in and what must come out
		in, want := pt, sealed
		useNonce, useAad := nonce, aad
		if op.Op != opSeal {
			in, want = sealed, pt
		}
		if op.Op == opForged {
			n2, a2, c2 := append([]byte{}, nonce...), append([]byte{}, aad...), append([]byte{}, sealed...)
			reg := op.Region
			if reg == regAAD && len(a2) == 0 || reg == regCT && len(pt) == 0 {
				reg = regTag
			}
			switch reg {
			case regNonce:
				n2[op.Pos%len(n2)] ^= 0x01
			case regAAD:
				a2[op.Pos%len(a2)] ^= 0x80
			case regCT:
				c2[op.Pos%len(pt)] ^= 0x10
			default:
				c2[len(pt)+op.Pos%c.TagLen] ^= 0x04
			}
			in, useNonce, useAad = c2, n2, a2
		}
		if len(in) == 0 {
			r.Label("in:" + inNames[op.PtF])
		}
		if op.AadLen == 0 {
			r.Label("aad:" + inNames[op.AadF])
		}
		if op.PtF == inSpare || op.AadF == inSpare || op.NonceF == inSpare {
			r.Label("input-with-spare-capacity")
		}
		r.Label("dst:" + dstNames[op.DstF])

		nonceArg, vNonce, sNonce := input(useNonce, op.NonceF, nonceA, gen.Mix(s, 20))
		aadArg, vAad, sAad := input(useAad, op.AadF, aadA, gen.Mix(s, 21))
		var inArg, dst, dstBacking, dstPat []byte
		vIn, sIn := func() error { return nil }, func() {}
		outLen := len(want)
		if op.Op == opForged {
			outLen = len(in) - c.TagLen
		}
		if op.DstF == dstInPlace {
			size := max(len(in), outLen) + 6
			if dstA != nil {
				dstBacking = dstA.take(size, 0)
			} else {
				dstBacking = make([]byte, size)
			}
			copy(dstBacking, gen.Fill(gen.Mix(s, 22), size))
			copy(dstBacking, in)
			dstPat = append([]byte{}, dstBacking...)
			inArg, dst = dstBacking[:len(in)], dstBacking[:0]
		} else {
			inArg, vIn, sIn = input(in, op.PtF, inA, gen.Mix(s, 23))
			prefix, spare := 0, 0
			switch op.DstF {
			case dstNil:
			case dstEmpty:
				dst = []byte{}
			case dstZero:
				spare = 9
			case dstPrefix:
				prefix, spare = 5, 3
			}
			if op.DstF == dstZero || op.DstF == dstPrefix {
				size := prefix + outLen + spare
				if dstA != nil {
					dstBacking = dstA.take(size, 0)
				} else {
					dstBacking = make([]byte, size)
				}
				copy(dstBacking, gen.Fill(gen.Mix(s, 22), size))
				dstPat = append([]byte{}, dstBacking...)
				dst = dstBacking[:prefix]
			}
		}
		prefix := len(dst)

		var out []byte
		var oerr error
		if op.Op == opSeal {
			out = a.Seal(dst, nonceArg, inArg, aadArg)
		} else {
			out, oerr = a.Open(dst, nonceArg, inArg, aadArg)
		}

		if op.Op == opForged {
			if oerr == nil || out != nil {
				return fail("a forged message was not rejected with (nil, error): err=%v, %d bytes", oerr, len(out))
			}
			if dstBacking != nil {
				region := dstBacking[prefix : prefix+outLen]
				if !allZero(region) && !bytes.Equal(region, dstPat[prefix:prefix+outLen]) {
					return fail("the output region after a rejected forgery is neither zeroed nor untouched: %s", h.Hex(region))
				}
				copy(dstPat[prefix:], region)
				if k := diffAt(dstBacking, dstPat); k >= 0 {
					return fail("a rejected Open wrote outside its output region (byte %d)", k)
				}
			}
		} else {
			if oerr != nil {
				return fail("returned error %v for a genuine message", oerr)
			}
			if len(out) != prefix+len(want) || !bytes.Equal(out[prefix:], want) {
				return fail("result differs from the standard at byte %d:\n got  %s\n want %s", diffAt(out[min(prefix, len(out)):], want), h.Hex(out[min(prefix, len(out)):]), h.Hex(want))
			}
			if dstBacking != nil {
				if !bytes.Equal(out[:prefix], dstPat[:prefix]) {
					return fail("the prefix of dst is not preserved in the result")
				}
				if sameStart(out, dstBacking) {
					copy(dstPat[prefix:], want)
				}
				if k := diffAt(dstBacking, dstPat); k >= 0 {
					return fail("wrote outside its result: byte %d of the destination buffer (prefix %d, result %d bytes, size %d)", k, prefix, len(want), len(dstBacking))
				}
			}
		}
		for _, v := range []struct {
			what string
			f    func() error
		}{{"nonce", vNonce}, {"additional data", vAad}, {"input", vIn}} {
			if err := v.f(); err != nil {
				return fail("%s: %v", v.what, err)
			}
		}
		if c.Scribble == 1 {
			// the call has returned: everything the caller handed in, and what
			// it got back, is the caller's to destroy
			sNonce()
			sAad()
			sIn()
			copy(out, gen.Fill(gen.Mix(s, 30), len(out)))
			if dstBacking != nil {
				copy(dstBacking, gen.Fill(gen.Mix(s, 31), len(dstBacking)))
			}
		}
		afterForged = op.Op == opForged
	}
	return nil
}

func genHistory(rt *rapid.T) histCase {
	c := histCase{NonceLen: 12, TagLen: 16}
	c.Kind = rapid.SampledFrom([]int{kGCM, kGCM, kGCM, kGCMWrapped, kCCM, kCCM, kCCMWrapped}).Draw(rt, "kind")
	if isGCM(c.Kind) {
		switch rapid.IntRange(0, 3).Draw(rt, "family") {
		case 0:
			c.NonceLen = rapid.IntRange(1, 64).Draw(rt, "nonceLen")
		case 1:
			c.TagLen = rapid.IntRange(12, 16).Draw(rt, "tagLen")
		}
	} else {
		c.NonceLen = rapid.SampledFrom(ccmNonces).Draw(rt, "nonceLen")
		c.TagLen = rapid.SampledFrom(ccmTags).Draw(rt, "tagLen")
	}
	c.Ctor = rapid.IntRange(0, 1).Draw(rt, "ctor")
	c.Scribble = rapid.SampledFrom([]int{0, 1, 1, 2, 2}).Draw(rt, "scribble")
	c.Seed = rapid.Uint64().Draw(rt, "seed")
	length := rapid.OneOf(rapid.Just(0), rapid.IntRange(0, 40), rapid.IntRange(0, 40), gen.LenClass(2048, 16, 64, 128))
	n := rapid.IntRange(1, 6).Draw(rt, "nops")
	for i := 0; i < n; i++ {
		c.Ops = append(c.Ops, histOp{
			Op:     rapid.SampledFrom([]int{opSeal, opSeal, opOpen, opOpen, opForged}).Draw(rt, "op"),
			PtLen:  length.Draw(rt, "pt"),
			AadLen: length.Draw(rt, "aad"),
			PtF:    rapid.IntRange(0, 3).Draw(rt, "ptF"),
			AadF:   rapid.IntRange(0, 3).Draw(rt, "aadF"),
			NonceF: rapid.SampledFrom([]int{inExact, inSpare}).Draw(rt, "nonceF"),
			DstF:   rapid.IntRange(0, 4).Draw(rt, "dstF"),
			Region: rapid.IntRange(regNonce, regTag).Draw(rt, "region"),
			Pos:    rapid.IntRange(0, 4096).Draw(rt, "pos"),
		})
	}
	// a history never ends on a rejection: the object must still work
	c.Ops = append(c.Ops, histOp{Op: rapid.SampledFrom([]int{opSeal, opOpen}).Draw(rt, "lastOp"),
		PtLen: rapid.IntRange(0, 70).Draw(rt, "lastPt"), AadLen: rapid.IntRange(0, 20).Draw(rt, "lastAad"),
		DstF: rapid.IntRange(0, 4).Draw(rt, "lastDstF")})
	return c
}

// TestC04_History: random interleavings of Seal / Open / rejected Open on
// one AEAD with per-call nonces, lengths, argument flavours and dst layouts.
func TestC04_History(t *testing.T) {
	h.Prop(t, h.P{Name: "history", Quick: 4000, Thorough: 80000, Journal: journalAll}, genHistory, checkHistory)
}

// TestC04_EmptyFlavours: every combination of {nil, []byte{}, buf[:0]} for
// plaintext/ciphertext and AAD x every dst flavour x Seal/Open, for empty
// plaintext and/or empty AAD, each followed by a second call on the same
// object, for every AEAD kind.
func TestC04_EmptyFlavours(t *testing.T) {
	h.MarkExhaustive("empty-flavours")
	h.Sweep(t, h.P{Name: "empty-flavours", Journal: journalAll}, func(emit func(histCase)) {
		i := uint64(0)
		for kind := 0; kind < 4; kind++ {
			fams := [][2]int{{12, 16}, {12, 12}, {16, 16}}
			if !isGCM(kind) {
				fams = [][2]int{{12, 16}, {7, 4}, {13, 10}}
			}
			for _, fam := range fams {
				for _, lens := range [][2]int{{0, 0}, {0, 13}, {17, 0}} {
					for _, op := range []int{opSeal, opOpen, opForged} {
						for ptF := 0; ptF <= 2; ptF++ {
							for aadF := 0; aadF <= 2; aadF++ {
								for dstF := 0; dstF <= 4; dstF++ {
									if lens[0] > 0 && ptF > 0 || lens[1] > 0 && aadF > 0 {
										continue // flavours only differ for zero-length arguments
									}
									if op != opSeal && ptF > 0 {
										continue // the ciphertext argument is never empty (tag)
									}
									i++
									emit(histCase{Kind: kind, NonceLen: fam[0], TagLen: fam[1], Seed: gen.Mix(h.Seed, i, 12), Scribble: int(i % 3),
										Ops: []histOp{
											{Op: op, PtLen: lens[0], AadLen: lens[1], PtF: ptF, AadF: aadF, DstF: dstF, Region: regTag, Pos: int(i)},
											{Op: []int{opOpen, opSeal}[i%2], PtLen: lens[0], AadLen: lens[1], PtF: int(i % 3), AadF: int(i / 3 % 3), DstF: int(i % 5)},
										}})
								}
							}
						}
					}
				}
			}
		}
	}, checkHistory)
}
