// Reference models for C04, written from the standards in the most naive form
// and sharing no code with /repo:
//
//   - GF(2^128) multiplication, NIST SP 800-38D 6.3 algorithm 1 (bit serial),
//     inversion by exponentiation, GHASH (6.4), GCTR with inc32 (6.2, 6.5),
//     GCM-AE (7.1) including the J0 derivation for nonces that are not 96 bits;
//   - CCM from RFC 3610 section 2 / SP 800-38C A.2 (B0 flags, the 2/6/10-octet
//     encodings of l(a), CBC-MAC, CTR over A_i);
//   - the nonce solver that places J0's low 32 bits just below 2^32.
//
// selfTest validates them on published vectors over AES (GCM spec test cases
// 1-6, RFC 3610 packet vectors, SP 800-38C appendix C examples 1-4), on the
// RFC 8998 SM4-GCM / SM4-CCM vectors over the textbook SM4, and against Go's
// AES-GCM.
package c04

import (
	"bytes"
	"crypto/aes"
	"crypto/cipher"
	"encoding/hex"
	"fmt"

	"verif/harness/gen"
	"verif/harness/ref"
)

// ---------------------------------------------------------------- GF(2^128)

// fe is a 128-bit block read as a field element in the GCM convention: bit 0
// (the coefficient of x^0) is the most significant bit of byte 0.
type fe [16]byte

func feXor(a, b fe) fe {
	var z fe
	for i := range z {
		z[i] = a[i] ^ b[i]
	}
	return z
}

// gfMul is SP 800-38D algorithm 1: Z = X * Y, R = 11100001 || 0^120.
func gfMul(x, y fe) fe {
	var z fe
	v := y
	for i := 0; i < 128; i++ {
		if x[i/8]>>(7-uint(i%8))&1 == 1 {
			z = feXor(z, v)
		}
		lsb := v[15] & 1
		for k := 15; k > 0; k-- {
			v[k] = v[k]>>1 | v[k-1]<<7
		}
		v[0] >>= 1
		if lsb == 1 {
			v[0] ^= 0xe1
		}
	}
	return z
}

// feOne is the multiplicative identity (the polynomial 1).
var feOne = fe{0x80}

// gfInv returns x^(2^128-2) by square and multiply; the exponent is 127 one
// bits followed by a zero bit.
func gfInv(x fe) fe {
	r := feOne
	for bit := 127; bit >= 0; bit-- {
		r = gfMul(r, r)
		if bit >= 1 {
			r = gfMul(r, x)
		}
	}
	return r
}

// ghashBlocks absorbs data, zero padded to whole blocks, into y.
func ghashBlocks(h, y fe, data []byte) fe {
	for len(data) > 0 {
		var b fe
		n := copy(b[:], data)
		data = data[n:]
		y = gfMul(feXor(y, b), h)
	}
	return y
}

func lenBlock(aBytes, cBytes int) fe {
	var b fe
	a, c := uint64(aBytes)*8, uint64(cBytes)*8
	for i := 0; i < 8; i++ {
		b[7-i] = byte(a >> (8 * uint(i)))
		b[15-i] = byte(c >> (8 * uint(i)))
	}
	return b
}

// refGHASH is GHASH_H(A || 0* || C || 0* || [len A]_64 || [len C]_64).
func refGHASH(h fe, a, c []byte) fe {
	var y fe
	y = ghashBlocks(h, y, a)
	y = ghashBlocks(h, y, c)
	return gfMul(feXor(y, lenBlock(len(a), len(c))), h)
}

func hashKey(b cipher.Block) fe {
	var zero, h fe
	b.Encrypt(h[:], zero[:])
	return h
}

// refJ0 is step 2 of SP 800-38D algorithm 4.
func refJ0(h fe, nonce []byte) fe {
	if len(nonce) == 12 {
		var j fe
		copy(j[:], nonce)
		j[15] = 1
		return j
	}
	return refGHASH(h, nil, nonce)
}

// inc32 increments the rightmost 32 bits modulo 2^32.
func inc32(c *fe) {
	for i := 15; i >= 12; i-- {
		c[i]++
		if c[i] != 0 {
			return
		}
	}
}

func low32(c fe) uint32 {
	return uint32(c[12])<<24 | uint32(c[13])<<16 | uint32(c[14])<<8 | uint32(c[15])
}

// refGCMSeal is GCM-AE_K(IV, P, A) with a tag of tagLen bytes: C || T.
func refGCMSeal(b cipher.Block, nonce, pt, aad []byte, tagLen int) []byte {
	h := hashKey(b)
	j0 := refJ0(h, nonce)
	ctr := j0
	out := make([]byte, len(pt), len(pt)+16)
	for off := 0; off < len(pt); off += 16 {
		inc32(&ctr)
		var ks fe
		b.Encrypt(ks[:], ctr[:])
		for i := off; i < off+16 && i < len(pt); i++ {
			out[i] = pt[i] ^ ks[i-off]
		}
	}
	s := refGHASH(h, aad, out)
	var ek fe
	b.Encrypt(ek[:], j0[:])
	t := feXor(s, ek)
	return append(out, t[:tagLen]...)
}

// solveNonce returns a nonce of n >= 16 bytes whose derived counter block is
// exactly j0: every block but the first is taken from tail (n-16 bytes), the
// first is solved for by running GHASH backwards with H^-1.
func solveNonce(h, j0 fe, tail []byte) []byte {
	n := 16 + len(tail)
	hinv := gfInv(h)
	// J0 = (Y_k ^ L) * H
	y := feXor(gfMul(j0, hinv), lenBlock(0, n))
	// Y_i = (Y_{i-1} ^ B_i) * H, walk back over the tail blocks
	var blocks []fe
	for t := tail; len(t) > 0; {
		var b fe
		k := copy(b[:], t)
		t = t[k:]
		blocks = append(blocks, b)
	}
	for i := len(blocks) - 1; i >= 0; i-- {
		y = feXor(gfMul(y, hinv), blocks[i])
	}
	// Y_1 = B_1 * H
	b1 := gfMul(y, hinv)
	return append(append([]byte{}, b1[:]...), tail...)
}

// ---------------------------------------------------------------- CCM

// refCCMSeal is RFC 3610 section 2 with M = tagLen and L = 15 - len(nonce):
// the encrypted message followed by the encrypted authentication value U.
func refCCMSeal(b cipher.Block, nonce, pt, aad []byte, tagLen int) []byte {
	L := 15 - len(nonce)
	if L < 2 || L > 8 || tagLen < 4 || tagLen > 16 || tagLen%2 != 0 {
		panic("refCCM: parameters outside RFC 3610")
	}
	// 2.2 authentication: B_0 = flags || nonce || l(m)
	var b0 [16]byte
	if len(aad) > 0 {
		b0[0] |= 0x40
	}
	b0[0] |= byte((tagLen-2)/2) << 3
	b0[0] |= byte(L - 1)
	copy(b0[1:], nonce)
	lm := uint64(len(pt))
	for i := 0; i < L; i++ {
		b0[15-i] = byte(lm >> (8 * uint(i)))
	}
	if L < 8 && lm>>(8*uint(L)) != 0 {
		panic("refCCM: message too long for L")
	}
	blocks := append([]byte{}, b0[:]...)
	if la := uint64(len(aad)); la > 0 {
		switch {
		case la < 1<<16-1<<8:
			blocks = append(blocks, byte(la>>8), byte(la))
		case la < 1<<32:
			blocks = append(blocks, 0xff, 0xfe, byte(la>>24), byte(la>>16), byte(la>>8), byte(la))
		default:
			blocks = append(blocks, 0xff, 0xff)
			for i := 7; i >= 0; i-- {
				blocks = append(blocks, byte(la>>(8*uint(i))))
			}
		}
		blocks = append(blocks, aad...)
		for len(blocks)%16 != 0 {
			blocks = append(blocks, 0)
		}
	}
	blocks = append(blocks, pt...)
	for len(blocks)%16 != 0 {
		blocks = append(blocks, 0)
	}
	var x [16]byte
	for off := 0; off < len(blocks); off += 16 {
		for i := 0; i < 16; i++ {
			x[i] ^= blocks[off+i]
		}
		b.Encrypt(x[:], x[:])
	}
	// 2.3 encryption: A_i = flags || nonce || i, S_i = E(K, A_i)
	a := func(i uint64) [16]byte {
		var blk [16]byte
		blk[0] = byte(L - 1)
		copy(blk[1:], nonce)
		for k := 0; k < L; k++ {
			blk[15-k] = byte(i >> (8 * uint(k)))
		}
		var s [16]byte
		b.Encrypt(s[:], blk[:])
		return s
	}
	out := make([]byte, len(pt), len(pt)+tagLen)
	for off := 0; off < len(pt); off += 16 {
		s := a(uint64(off/16) + 1)
		for i := off; i < off+16 && i < len(pt); i++ {
			out[i] = pt[i] ^ s[i-off]
		}
	}
	s0 := a(0)
	for i := 0; i < tagLen; i++ {
		out = append(out, x[i]^s0[i])
	}
	return out
}

// ---------------------------------------------------------------- self test

func unhex(s string) []byte {
	b, err := hex.DecodeString(s)
	if err != nil {
		panic(err)
	}
	return b
}

type aeadVec struct {
	key, nonce, pt, aad, out string
	tag                      int
}

// GCM specification (McGrew, Viega), appendix B, test cases 1-6 (AES-128).
var gcmAESVectors = []aeadVec{
	{"00000000000000000000000000000000", "000000000000000000000000", "", "", "58e2fccefa7e3061367f1d57a4e7455a", 16},
	{"00000000000000000000000000000000", "000000000000000000000000", "00000000000000000000000000000000", "",
		"0388dace60b6a392f328c2b971b2fe78ab6e47d42cec13bdf53a67b21257bddf", 16},
	{"feffe9928665731c6d6a8f9467308308", "cafebabefacedbaddecaf888",
		"d9313225f88406e5a55909c5aff5269a86a7a9531534f7da2e4c303d8a318a721c3c0c95956809532fcf0e2449a6b525b16aedf5aa0de657ba637b391aafd255", "",
		"42831ec2217774244b7221b784d0d49ce3aa212f2c02a4e035c17e2329aca12e21d514b25466931c7d8f6a5aac84aa051ba30b396a0aac973d58e091473f5985" +
			"4d5c2af327cd64a62cf35abd2ba6fab4", 16},
	{"feffe9928665731c6d6a8f9467308308", "cafebabefacedbaddecaf888",
		"d9313225f88406e5a55909c5aff5269a86a7a9531534f7da2e4c303d8a318a721c3c0c95956809532fcf0e2449a6b525b16aedf5aa0de657ba637b39",
		"feedfacedeadbeeffeedfacedeadbeefabaddad2",
		"42831ec2217774244b7221b784d0d49ce3aa212f2c02a4e035c17e2329aca12e21d514b25466931c7d8f6a5aac84aa051ba30b396a0aac973d58e091" +
			"5bc94fbc3221a5db94fae95ae7121a47", 16},
	{"feffe9928665731c6d6a8f9467308308", "cafebabefacedbad",
		"d9313225f88406e5a55909c5aff5269a86a7a9531534f7da2e4c303d8a318a721c3c0c95956809532fcf0e2449a6b525b16aedf5aa0de657ba637b39",
		"feedfacedeadbeeffeedfacedeadbeefabaddad2",
		"61353b4c2806934a777ff51fa22a4755699b2a714fcdc6f83766e5f97b6c742373806900e49f24b22b097544d4896b424989b5e1ebac0f07c23f4598" +
			"3612d2e79e3b0785561be14aaca2fccb", 16},
	{"feffe9928665731c6d6a8f9467308308",
		"9313225df88406e555909c5aff5269aa6a7a9538534f7da1e4c303d2a318a728c3c0c95156809539fcf0e2429a6b525416aedbf5a0de6a57a637b39b",
		"d9313225f88406e5a55909c5aff5269a86a7a9531534f7da2e4c303d8a318a721c3c0c95956809532fcf0e2449a6b525b16aedf5aa0de657ba637b39",
		"feedfacedeadbeeffeedfacedeadbeefabaddad2",
		"8ce24998625615b603a033aca13fb894be9112a5c3a211a8ba262a3cca7e2ca701e4a9a4fba43c90ccdcb281d48c7c6fd62875d2aca417034c34aee5" +
			"619cc5aefffe0bfa462af43c1699d050", 16},
}

// RFC 3610 section 8, packet vectors 1-12 (fixed key) and 13-15 (random key),
// and NIST SP 800-38C appendix C, examples 1-3 (example 4 is built below).
var ccmAESVectors = []aeadVec{
	{"c0c1c2c3c4c5c6c7c8c9cacbcccdcecf", "00000003020100a0a1a2a3a4a5", "08090a0b0c0d0e0f101112131415161718191a1b1c1d1e", "0001020304050607",
		"588c979a61c663d2f066d0c2c0f989806d5f6b61dac38417e8d12cfdf926e0", 8},
	{"c0c1c2c3c4c5c6c7c8c9cacbcccdcecf", "00000004030201a0a1a2a3a4a5", "08090a0b0c0d0e0f101112131415161718191a1b1c1d1e1f", "0001020304050607",
		"72c91a36e135f8cf291ca894085c87e3cc15c439c9e43a3ba091d56e10400916", 8},
	{"c0c1c2c3c4c5c6c7c8c9cacbcccdcecf", "00000005040302a0a1a2a3a4a5", "08090a0b0c0d0e0f101112131415161718191a1b1c1d1e1f20", "0001020304050607",
		"51b1e5f44a197d1da46b0f8e2d282ae871e838bb64da8596574adaa76fbd9fb0c5", 8},
	{"c0c1c2c3c4c5c6c7c8c9cacbcccdcecf", "00000006050403a0a1a2a3a4a5", "0c0d0e0f101112131415161718191a1b1c1d1e", "000102030405060708090a0b",
		"a28c6865939a9a79faaa5c4c2a9d4a91cdac8c96c861b9c9e61ef1", 8},
	{"c0c1c2c3c4c5c6c7c8c9cacbcccdcecf", "00000007060504a0a1a2a3a4a5", "0c0d0e0f101112131415161718191a1b1c1d1e1f", "000102030405060708090a0b",
		"dcf1fb7b5d9e23fb9d4e131253658ad86ebdca3e51e83f077d9c2d93", 8},
	{"c0c1c2c3c4c5c6c7c8c9cacbcccdcecf", "00000008070605a0a1a2a3a4a5", "0c0d0e0f101112131415161718191a1b1c1d1e1f20", "000102030405060708090a0b",
		"6fc1b011f006568b5171a42d953d469b2570a4bd87405a0443ac91cb94", 8},
	{"c0c1c2c3c4c5c6c7c8c9cacbcccdcecf", "00000009080706a0a1a2a3a4a5", "08090a0b0c0d0e0f101112131415161718191a1b1c1d1e", "0001020304050607",
		"0135d1b2c95f41d5d1d4fec185d166b8094e999dfed96c048c56602c97acbb7490", 10},
	{"c0c1c2c3c4c5c6c7c8c9cacbcccdcecf", "0000000a090807a0a1a2a3a4a5", "08090a0b0c0d0e0f101112131415161718191a1b1c1d1e1f", "0001020304050607",
		"7b75399ac0831dd2f0bbd75879a2fd8f6cae6b6cd9b7db24c17b4433f434963f34b4", 10},
	{"c0c1c2c3c4c5c6c7c8c9cacbcccdcecf", "0000000b0a0908a0a1a2a3a4a5", "08090a0b0c0d0e0f101112131415161718191a1b1c1d1e1f20", "0001020304050607",
		"82531a60cc24945a4b8279181ab5c84df21ce7f9b73f42e197ea9c07e56b5eb17e5f4e", 10},
	{"c0c1c2c3c4c5c6c7c8c9cacbcccdcecf", "0000000c0b0a09a0a1a2a3a4a5", "0c0d0e0f101112131415161718191a1b1c1d1e", "000102030405060708090a0b",
		"07342594157785152b074098330abb141b947b566aa9406b4d999988dd", 10},
	{"c0c1c2c3c4c5c6c7c8c9cacbcccdcecf", "0000000d0c0b0aa0a1a2a3a4a5", "0c0d0e0f101112131415161718191a1b1c1d1e1f", "000102030405060708090a0b",
		"676bb20380b0e301e8ab79590a396da78b834934f53aa2e9107a8b6c022c", 10},
	{"c0c1c2c3c4c5c6c7c8c9cacbcccdcecf", "0000000e0d0c0ba0a1a2a3a4a5", "0c0d0e0f101112131415161718191a1b1c1d1e1f20", "000102030405060708090a0b",
		"c0ffa0d6f05bdb67f24d43a4338d2aa4bed7b20e43cd1aa31662e7ad65d6db", 10},
	{"d7828d13b2b0bdc325a76236df93cc6b", "00412b4ea9cdbe3c9696766cfa", "08e8cf97d820ea258460e96ad9cf5289054d895ceac47c", "0be1a88bace018b1",
		"4cb97f86a2a4689a877947ab8091ef5386a6ffbdd080f8e78cf7cb0cddd7b3", 8},
	{"d7828d13b2b0bdc325a76236df93cc6b", "0033568ef7b2633c9696766cfa", "9020ea6f91bdd85afa0039ba4baff9bfb79c7028949cd0ec", "63018f76dc8a1bcb",
		"4ccb1e7ca981befaa0726c55d378061298c85c92814abc33c52ee81d7d77c08a", 8},
	{"d7828d13b2b0bdc325a76236df93cc6b", "00f8b678094e3b3c9696766cfa", "e88b6a46c78d63e52eb8c546efb5de6f75e9cc0d", "77b60f011c03e1525899bcae",
		"5545ff1a085ee2efbf52b2e04bee1e2336c73e3f762c0c7744fe7e3c", 8},
	// SP 800-38C C.1 - C.3
	{"404142434445464748494a4b4c4d4e4f", "10111213141516", "20212223", "0001020304050607", "7162015b4dac255d", 4},
	{"404142434445464748494a4b4c4d4e4f", "1011121314151617", "202122232425262728292a2b2c2d2e2f", "000102030405060708090a0b0c0d0e0f",
		"d2a1f0e051ea5f62081a7792073d593d1fc64fbfaccd", 6},
	{"404142434445464748494a4b4c4d4e4f", "101112131415161718191a1b", "202122232425262728292a2b2c2d2e2f3031323334353637",
		"000102030405060708090a0b0c0d0e0f10111213",
		"e3b201a9f5b71a7a9b1ceaeccd97e70b6176aad9a4428aa5484392fbc1b09951", 8},
}

func selfTest() error {
	if err := ref.SelfTestSM4(false); err != nil {
		return err
	}
	// field arithmetic
	for i := uint64(1); i <= 4; i++ {
		var x, y, z fe
		copy(x[:], gen.Fill(i, 16))
		copy(y[:], gen.Fill(i+100, 16))
		copy(z[:], gen.Fill(i+200, 16))
		if gfMul(x, feOne) != x || gfMul(feOne, x) != x {
			return fmt.Errorf("gfMul identity")
		}
		if gfMul(x, y) != gfMul(y, x) {
			return fmt.Errorf("gfMul not commutative")
		}
		if gfMul(x, feXor(y, z)) != feXor(gfMul(x, y), gfMul(x, z)) {
			return fmt.Errorf("gfMul not distributive")
		}
		if gfMul(x, gfInv(x)) != feOne {
			return fmt.Errorf("gfInv(%x) wrong", x)
		}
	}
	// GCM over AES: published vectors
	for i, v := range gcmAESVectors {
		b, _ := aes.NewCipher(unhex(v.key))
		got := refGCMSeal(b, unhex(v.nonce), unhex(v.pt), unhex(v.aad), v.tag)
		if !bytes.Equal(got, unhex(v.out)) {
			return fmt.Errorf("refGCMSeal GCM-spec test case %d: %x", i+1, got)
		}
	}
	// GCM over AES: agreement with Go's AES-GCM for every nonce size 1..64,
	// tag sizes 12..16, ragged lengths
	for i := 0; i < 90; i++ {
		s := uint64(7000 + i)
		b, _ := aes.NewCipher(gen.Fill(s, 16))
		nl, tl := 12, 16
		if i < 64 {
			nl = i + 1
		} else {
			tl = 12 + i%5
		}
		var a cipher.AEAD
		var err error
		if nl != 12 {
			a, err = cipher.NewGCMWithNonceSize(b, nl)
		} else {
			a, err = cipher.NewGCMWithTagSize(b, tl)
		}
		if err != nil {
			return err
		}
		nonce, pt, aad := gen.Fill(s+1, nl), gen.Fill(s+2, (i*37)%211), gen.Fill(s+3, (i*13)%67)
		if got, want := refGCMSeal(b, nonce, pt, aad, tl), a.Seal(nil, nonce, pt, aad); !bytes.Equal(got, want) {
			return fmt.Errorf("refGCMSeal differs from Go's AES-GCM (nonce %d tag %d pt %d aad %d)", nl, tl, len(pt), len(aad))
		}
	}
	// the nonce solver inverts the J0 derivation (the derivation itself is
	// pinned by test cases 5 and 6 above)
	for i := 0; i < 6; i++ {
		s := uint64(8000 + i)
		var h, j0 fe
		copy(h[:], gen.Fill(s, 16))
		copy(j0[:], gen.Fill(s+1, 16))
		tail := gen.Fill(s+2, []int{0, 1, 15, 16, 17, 48}[i])
		n := solveNonce(h, j0, tail)
		if len(n) != 16+len(tail) || refJ0(h, n) != j0 {
			return fmt.Errorf("solveNonce: J0 of solved nonce differs (tail %d)", len(tail))
		}
	}
	// GCM over the textbook SM4: RFC 8998 A.1, by the model and by Go's
	// generic GCM over the textbook block
	{
		b := ref.NewSM4(unhex("0123456789abcdeffedcba9876543210"))
		nonce := unhex("00001234567800000000abcd")
		pt := unhex("aaaaaaaaaaaaaaaabbbbbbbbbbbbbbbbccccccccccccccccddddddddddddddddeeeeeeeeeeeeeeeeffffffffffffffffeeeeeeeeeeeeeeeeaaaaaaaaaaaaaaaa")
		aad := unhex("feedfacedeadbeeffeedfacedeadbeefabaddad2")
		want := unhex("17f399f08c67d5ee19d0dc9969c4bb7d5fd46fd3756489069157b282bb200735d82710ca5c22f0ccfa7cbf93d496ac15a56834cbcf98c397b4024a2691233b8d" +
			"83de3541e4c2b58177e065a9bf7b62ec")
		if got := refGCMSeal(b, nonce, pt, aad, 16); !bytes.Equal(got, want) {
			return fmt.Errorf("refGCMSeal RFC 8998 A.1: %x", got)
		}
		a, err := cipher.NewGCM(b)
		if err != nil {
			return err
		}
		if got := a.Seal(nil, nonce, pt, aad); !bytes.Equal(got, want) {
			return fmt.Errorf("Go generic GCM over ref.SM4, RFC 8998 A.1: %x", got)
		}
		if fmt.Sprintf("%T", a) != "*cipher.gcm" {
			return fmt.Errorf("oracle GCM is %T, expected Go's generic *cipher.gcm", a)
		}
		wantCCM := unhex("48af93501fa62adbcd414cce6034d895dda1bf8f132f042098661572e7483094fd12e518ce062c98acee28d95df4416bed31a2f04476c18bb40c84a74b97dc5b" +
			"16842d4fa186f56ab33256971fa110f4")
		if got := refCCMSeal(b, nonce, pt, aad, 16); !bytes.Equal(got, wantCCM) {
			return fmt.Errorf("refCCMSeal RFC 8998 A.2: %x", got)
		}
	}
	// CCM over AES
	for i, v := range ccmAESVectors {
		b, _ := aes.NewCipher(unhex(v.key))
		got := refCCMSeal(b, unhex(v.nonce), unhex(v.pt), unhex(v.aad), v.tag)
		if !bytes.Equal(got, unhex(v.out)) {
			return fmt.Errorf("refCCMSeal vector %d: %x", i, got)
		}
	}
	{
		// SP 800-38C C.4: 65536 bytes of associated data (the 6-octet length encoding)
		b, _ := aes.NewCipher(unhex("404142434445464748494a4b4c4d4e4f"))
		aad := make([]byte, 65536)
		for i := range aad {
			aad[i] = byte(i)
		}
		got := refCCMSeal(b, unhex("101112131415161718191a1b1c"), unhex("202122232425262728292a2b2c2d2e2f303132333435363738393a3b3c3d3e3f"), aad, 14)
		want := unhex("69915dad1e84c6376a68c2967e4dab615ae0fd1faec44cc484828529463ccf72b4ac6bec93e8598e7f0dadbcea5b")
		if !bytes.Equal(got, want) {
			return fmt.Errorf("refCCMSeal SP 800-38C C.4: %x", got)
		}
	}
	return nil
}
