// C04 - SM4 GCM/CCM: exact standard output, round trip, rejection of any
// tampering. See DESIGN.md section 4, C04, and model_test.go for the oracles.
package c04

import (
	"bytes"
	"crypto/cipher"
	"fmt"
	"os"
	"runtime"
	"testing"

	smcipher "github.com/emmansun/gmsm/cipher"
	"github.com/emmansun/gmsm/sm4"
	"pgregory.net/rapid"
	"verif/harness/gen"
	"verif/harness/h"
	"verif/harness/ref"
)

func TestMain(m *testing.M) { h.Main(m, selfTest, selfTestPeriodic, dispatchSelfTest) }

// ---------------------------------------------------------------- AEADs under test

const (
	kGCM        = 0 // crypto/cipher.NewGCM* over sm4.NewCipher: the block's own GCM (fused asm / table driven) or Go's generic GCM over the Go block
	kGCMWrapped = 1 // crypto/cipher.NewGCM* over struct{cipher.Block}{sm4 block}: Go's generic GCM over the sm4 block
	kCCM        = 2 // gmsm/cipher.NewCCM* over sm4.NewCipher (CTR through the block's own NewCTR)
	kCCMWrapped = 3 // gmsm/cipher.NewCCM* over the wrapped block (Go's generic CTR)
)

var kindNames = []string{"gcm", "gcm-wrapped", "ccm", "ccm-wrapped"}

func isGCM(kind int) bool { return kind == kGCM || kind == kGCMWrapped }

// newAEAD builds the AEAD through the public constructors. ctor 0 picks the
// simplest constructor that fits the sizes, ctor 1 the most general one.
func newAEAD(kind, ctor, nonceLen, tagLen int, key []byte) (cipher.AEAD, cipher.Block, error) {
	blk, err := sm4.NewCipher(key)
	if err != nil {
		return nil, nil, err
	}
	native := blk
	if kind == kGCMWrapped || kind == kCCMWrapped {
		blk = struct{ cipher.Block }{blk}
	}
	var a cipher.AEAD
	if isGCM(kind) {
		switch {
		case nonceLen != 12 && tagLen != 16:
			return nil, nil, fmt.Errorf("crypto/cipher offers no GCM constructor for nonce %d with tag %d", nonceLen, tagLen)
		case nonceLen != 12 || (ctor == 1 && tagLen == 16):
			a, err = cipher.NewGCMWithNonceSize(blk, nonceLen)
		case tagLen != 16 || ctor == 1:
			a, err = cipher.NewGCMWithTagSize(blk, tagLen)
		default:
			a, err = cipher.NewGCM(blk)
		}
	} else {
		switch {
		case ctor == 1 || (nonceLen != 12 && tagLen != 16):
			a, err = smcipher.NewCCMWithNonceAndTagSize(blk, nonceLen, tagLen)
		case nonceLen != 12:
			a, err = smcipher.NewCCMWithNonceSize(blk, nonceLen)
		case tagLen != 16:
			a, err = smcipher.NewCCMWithTagSize(blk, tagLen)
		default:
			a, err = smcipher.NewCCM(blk)
		}
	}
	return a, native, err
}

// expectedTypes: what each configuration must dispatch to on amd64. A
// mismatch means the override was ineffective: harness error, not coverage.
var expectedTypes = map[string][2]string{ // cfg -> {block, native GCM}
	"default": {"*sm4.sm4CipherGCM", "*sm4.gcmAsm"},
	"noavx2":  {"*sm4.sm4CipherGCM", "*sm4.gcmAsm"},
	"noavx":   {"*sm4.sm4CipherGCM", "*sm4.gcmAsm"},
	"avxoff":  {"*sm4.sm4CipherGCM", "*sm4.gcmAsm"},
	"aesni1":  {"*sm4.sm4CipherGCM", "*sm4.gcmAsm"},
	"noclmul": {"*sm4.sm4CipherAsm", "*sm4.gcm"},
	// the table-driven GCM over 4-block batches (AVX2 off) and over the SSE block code
	"noclmul-noavx2": {"*sm4.sm4CipherAsm", "*sm4.gcm"},
	"noclmul-noavx":  {"*sm4.sm4CipherAsm", "*sm4.gcm"},
	"noaes":   {"*sm4.sm4Cipher", "*cipher.gcm"},
	"purego":  {"*sm4.sm4Cipher", "*cipher.gcm"},
}

func dispatchSelfTest() error {
	key := make([]byte, 16)
	for kind := 0; kind < 4; kind++ {
		a, blk, err := newAEAD(kind, 0, 12, 16, key)
		if err != nil {
			return err
		}
		h.Observe("block", fmt.Sprintf("%T", blk))
		h.Observe(kindNames[kind]+".aead", fmt.Sprintf("%T", a))
	}
	// only under the driver (which sets VERIF_CFG and the matching
	// environment); `-test.list` and bare `go test` runs skip the assertion
	if _, driven := os.LookupEnv("VERIF_CFG"); !driven || runtime.GOARCH != "amd64" {
		return nil
	}
	if want, ok := expectedTypes[h.Cfg]; ok {
		a, blk, _ := newAEAD(kGCM, 0, 12, 16, key)
		if got := fmt.Sprintf("%T", blk); got != want[0] {
			return fmt.Errorf("configuration %s: sm4.NewCipher returned %s, expected %s (dispatch override ineffective)", h.Cfg, got, want[0])
		}
		if got := fmt.Sprintf("%T", a); got != want[1] {
			return fmt.Errorf("configuration %s: cipher.NewGCM returned %s, expected %s (dispatch override ineffective)", h.Cfg, got, want[1])
		}
		w, _, _ := newAEAD(kGCMWrapped, 0, 12, 16, key)
		if got := fmt.Sprintf("%T", w); got != "*cipher.gcm" {
			return fmt.Errorf("wrapped block: cipher.NewGCM returned %s, expected Go's generic *cipher.gcm", got)
		}
	}
	return nil
}

// oracle returns C || T for the case from code that shares nothing with
// /repo: Go's generic GCM over the textbook SM4 cross-checked by the
// bit-serial model, resp. the RFC 3610 model over the textbook SM4.
func oracle(kind int, key, nonce, pt, aad []byte, tagLen int) []byte {
	rb := ref.NewSM4(key)
	if !isGCM(kind) {
		return refCCMSeal(rb, nonce, pt, aad, tagLen)
	}
	var g cipher.AEAD
	var err error
	switch {
	case len(nonce) != 12:
		g, err = cipher.NewGCMWithNonceSize(rb, len(nonce))
	case tagLen != 16:
		g, err = cipher.NewGCMWithTagSize(rb, tagLen)
	default:
		g, err = cipher.NewGCM(rb)
	}
	if err != nil {
		h.HarnessError("oracle GCM constructor: %v", err)
	}
	w1 := g.Seal(nil, nonce, pt, aad)
	w2 := refGCMSeal(rb, nonce, pt, aad, tagLen)
	if !bytes.Equal(w1, w2) {
		h.HarnessError("the two GCM oracles disagree: key=%x nonce=%x pt=%d aad=%d tag=%d", key, nonce, len(pt), len(aad), tagLen)
	}
	return w1
}

// ---------------------------------------------------------------- buffers

// alloc hands out exact-size buffers: on the heap, or with an inaccessible
// page right after (guard 1) or right before (guard 2) the slice.
type alloc struct {
	guard int
	gs    []*gen.Guarded
}

func (al *alloc) make(n int) []byte {
	if al.guard == 0 {
		return make([]byte, n)
	}
	g := gen.NewGuarded(n, al.guard == 1)
	al.gs = append(al.gs, g)
	return g.B
}

func (al *alloc) copyOf(b []byte) []byte {
	out := al.make(len(b))
	copy(out, b)
	return out
}

func (al *alloc) free() {
	for _, g := range al.gs {
		g.Free()
	}
	al.gs = nil
}

func sameStart(a, b []byte) bool {
	return len(a) > 0 && len(b) > 0 && &a[0] == &b[0]
}

func diffAt(a, b []byte) int {
	for i := range a {
		if i >= len(b) || a[i] != b[i] {
			return i
		}
	}
	if len(b) > len(a) {
		return len(a)
	}
	return -1
}

// ---------------------------------------------------------------- seal / open case

const (
	layNil     = 0 // dst == nil
	layPrefix  = 1 // dst = backing[:prefix], capacity for the result plus spare bytes
	layShort   = 2 // dst = backing[:prefix], capacity too small for the result
	layInPlace = 3 // Seal(buf[:prefix], nonce, buf[prefix:prefix+n], aad) / Open likewise on the ciphertext
)

var layNames = []string{"nil", "prefix+spare", "short-cap", "in-place"}

type aeadCase struct {
	Kind     int
	Ctor     int
	NonceLen int
	TagLen   int
	PtLen    int
	AadLen   int
	Seed     uint64
	Nonce    h.B // explicit nonce (counter-wrap family); empty: derived from Seed
	SealLay  int
	OpenLay  int
	Prefix   int
	Spare    int
	Guard    int // 0 heap buffers; 1 guard page after every buffer; 2 guard page before
}

func (c aeadCase) materialise() (key, nonce, pt, aad []byte) {
	key = gen.Fill(gen.Mix(c.Seed, 1), 16)
	if len(c.Nonce) > 0 {
		nonce = append([]byte{}, c.Nonce...)
	} else {
		nonce = gen.Fill(gen.Mix(c.Seed, 2), c.NonceLen)
	}
	pt = gen.Fill(gen.Mix(c.Seed, 3), c.PtLen)
	aad = gen.Fill(gen.Mix(c.Seed, 4), c.AadLen)
	return
}

func nonTrivial(nonceLen, tagLen, ptLen, aadLen int) bool {
	return ptLen%16 != 0 || aadLen%16 != 0 || nonceLen != 12 || tagLen != 16
}

func classify(r *h.Rec, kind, nonceLen, tagLen, ptLen, aadLen int) {
	r.Label(kindNames[kind])
	if isGCM(kind) {
		switch {
		case nonceLen == 12:
			r.Label("gcm-nonce=12")
		case nonceLen < 12:
			r.Label("gcm-nonce=1..11")
		case nonceLen <= 16:
			r.Label("gcm-nonce=13..16")
		case nonceLen <= 64:
			r.Label("gcm-nonce=17..64")
		default:
			r.Label("gcm-nonce=65..300")
		}
		r.Label("gcm-tag=%d", tagLen)
		if tagLen < 16 && ptLen%16 != 0 && ptLen%16+tagLen < 16 {
			r.Label("gcm-short-tag-short-tail")
		}
		if aadLen == 13 {
			r.Label("gcm-aad=13(tls path)")
		}
	} else {
		r.Label("ccm-nonce=%d", nonceLen)
		r.Label("ccm-tag=%d", tagLen)
		switch {
		case aadLen == 0:
		case aadLen < 0xff00:
			r.Label("ccm-aad-2-octet-length")
		default:
			r.Label("ccm-aad-6-octet-length")
		}
		if aadLen == 0xfeff || aadLen == 0xff00 {
			r.Label("ccm-aad-at-0xfeff/0xff00")
		}
	}
	switch {
	case ptLen == 0:
		r.Label("pt=0")
	case ptLen%16 == 0:
		r.Label("pt mod 16 = 0")
	default:
		r.Label("pt mod 16 != 0")
	}
	switch {
	case ptLen >= 1024:
		r.Label("pt>=1024")
	case ptLen >= 128:
		r.Label("pt=128..1023")
	}
	switch {
	case aadLen == 0:
		r.Label("aad=0")
	case aadLen%16 == 0:
		r.Label("aad mod 16 = 0")
	default:
		r.Label("aad mod 16 != 0")
	}
	if aadLen >= 128 {
		r.Label("aad>=128")
	}
	r.NTIf(nonTrivial(nonceLen, tagLen, ptLen, aadLen))
}

func (c aeadCase) describe(key, nonce []byte) string {
	return fmt.Sprintf("%s nonce(%d)=%s tag=%d pt=%d aad=%d key=%s seed=%d seal=%s open=%s prefix=%d spare=%d guard=%d",
		kindNames[c.Kind], len(nonce), h.Hex(nonce), c.TagLen, c.PtLen, c.AadLen, h.Hex(key), c.Seed,
		layNames[c.SealLay], layNames[c.OpenLay], c.Prefix, c.Spare, c.Guard)
}

func checkAEAD(c aeadCase, r *h.Rec) error {
	key, nonce, pt, aad := c.materialise()
	if len(nonce) != c.NonceLen {
		return fmt.Errorf("malformed case: nonce length")
	}
	classify(r, c.Kind, c.NonceLen, c.TagLen, c.PtLen, c.AadLen)
	r.Label("seal:" + layNames[c.SealLay])
	r.Label("open:" + layNames[c.OpenLay])
	r.Label("guard=%d", c.Guard)
	if c.Prefix > 0 && (c.SealLay != layNil || c.OpenLay != layNil) {
		r.Label("prefix>0")
	}
	if isGCM(c.Kind) && c.NonceLen != 12 {
		j0 := refJ0(hashKey(ref.NewSM4(key)), nonce)
		blocks := uint64((c.PtLen + 15) / 16)
		if uint64(low32(j0))+blocks >= 1<<32 {
			r.Label("gcm-ctr32-wrap")
			r.Note("J0 low word %#x, %d blocks", low32(j0), blocks)
		}
	}
	a, _, err := newAEAD(c.Kind, c.Ctor, c.NonceLen, c.TagLen, key)
	if err != nil {
		return fmt.Errorf("constructor failed for valid sizes (nonce %d, tag %d): %v", c.NonceLen, c.TagLen, err)
	}
	if a.NonceSize() != c.NonceLen || a.Overhead() != c.TagLen {
		return fmt.Errorf("%T: NonceSize()=%d Overhead()=%d, constructed with nonce %d tag %d", a, a.NonceSize(), a.Overhead(), c.NonceLen, c.TagLen)
	}
	want := oracle(c.Kind, key, nonce, pt, aad, c.TagLen)
	desc := c.describe(key, nonce)

	al := &alloc{guard: c.Guard}
	defer al.free()
	nonceB, aadB := al.copyOf(nonce), al.copyOf(aad)
	inputsIntact := func(op string) error {
		if !bytes.Equal(nonceB, nonce) {
			return fmt.Errorf("%s modified the nonce [%s]", op, desc)
		}
		if !bytes.Equal(aadB, aad) {
			return fmt.Errorf("%s modified the additional data [%s]", op, desc)
		}
		return nil
	}

	// ---- Seal
	if err := appendStyle("Seal", c.SealLay, c.Prefix, c.Spare, gen.Mix(c.Seed, 5), al, pt, want, desc,
		func(dst, in []byte) ([]byte, error) { return a.Seal(dst, nonceB, in, aadB), nil }); err != nil {
		return err
	}
	if err := inputsIntact("Seal"); err != nil {
		return err
	}
	// ---- Open (of the standard's ciphertext, which Seal was just shown to produce)
	if err := appendStyle("Open", c.OpenLay, c.Prefix, c.Spare, gen.Mix(c.Seed, 6), al, want, pt, desc,
		func(dst, in []byte) ([]byte, error) { return a.Open(dst, nonceB, in, aadB) }); err != nil {
		return err
	}
	return inputsIntact("Open")
}

// appendStyle runs op (Seal or Open) on input in with the dst layout lay and
// checks: result == prefix || want; the input is not modified (unless in
// place); every byte of the caller's buffers outside the result is untouched.
func appendStyle(name string, lay, prefix, spare int, patSeed uint64, al *alloc, in, want []byte, desc string,
	op func(dst, in []byte) ([]byte, error)) error {
	n := len(want)
	fail := func(format string, a ...any) error {
		return fmt.Errorf("%s: %s [%s]", name, fmt.Sprintf(format, a...), desc)
	}
	if lay == layShort && n == 0 {
		lay = layPrefix
	}
	switch lay {
	case layNil:
		inB := al.copyOf(in)
		out, err := op(nil, inB)
		if err != nil {
			return fail("returned error %v for a valid message", err)
		}
		if !bytes.Equal(out, want) {
			return fail("result differs from the standard at byte %d:\n got  %s\n want %s", diffAt(out, want), h.Hex(out), h.Hex(want))
		}
		if !bytes.Equal(inB, in) {
			return fail("modified its input")
		}
	case layPrefix, layShort:
		size := prefix + n + spare
		if lay == layShort {
			k := spare
			if k > n-1 {
				k = n - 1
			}
			size = prefix + k
		}
		pat := gen.Fill(patSeed, size)
		backing := al.copyOf(pat)
		inB := al.copyOf(in)
		out, err := op(backing[:prefix], inB)
		if err != nil {
			return fail("returned error %v for a valid message", err)
		}
		if len(out) != prefix+n || !bytes.Equal(out[:prefix], pat[:prefix]) || !bytes.Equal(out[prefix:], want) {
			k := diffAt(out, append(append([]byte{}, pat[:prefix]...), want...))
			return fail("result differs from prefix || standard at byte %d (prefix %d):\n got  %s\n want %s", k, prefix, h.Hex(out[min(prefix, len(out)):]), h.Hex(want))
		}
		if !bytes.Equal(inB, in) {
			return fail("modified its input")
		}
		expect := append([]byte{}, pat...)
		if sameStart(out, backing) {
			if lay == layShort {
				return fail("result of %d bytes claims to live in a buffer of capacity %d", len(out), size)
			}
			copy(expect[prefix:], want)
		}
		if k := diffAt(backing, expect); k >= 0 {
			return fail("wrote outside its result: byte %d of the destination buffer (prefix %d, result %d bytes, capacity %d) changed from %02x to %02x",
				k, prefix, n, size, expect[k], backing[k])
		}
	case layInPlace:
		size := prefix + max(n, len(in)) + spare
		pat := gen.Fill(patSeed, size)
		buf := al.copyOf(pat)
		copy(buf[prefix:], in)
		before := append([]byte{}, buf...)
		out, err := op(buf[:prefix], buf[prefix:prefix+len(in)])
		if err != nil {
			return fail("returned error %v for a valid message", err)
		}
		if len(out) != prefix+n || !bytes.Equal(out[:prefix], pat[:prefix]) || !bytes.Equal(out[prefix:], want) {
			k := diffAt(out, append(append([]byte{}, pat[:prefix]...), want...))
			return fail("in-place result differs from prefix || standard at byte %d (prefix %d):\n got  %s\n want %s", k, prefix, h.Hex(out[min(prefix, len(out)):]), h.Hex(want))
		}
		expect := before
		if sameStart(out, buf) {
			copy(expect[prefix:], want)
		}
		if k := diffAt(buf, expect); k >= 0 {
			return fail("in place: wrote outside its result: byte %d of the buffer (prefix %d, input %d bytes, result %d bytes, size %d) changed from %02x to %02x",
				k, prefix, len(in), n, size, expect[k], buf[k])
		}
	}
	return nil
}

// ---------------------------------------------------------------- layout rotation for sweeps

func rotateLayout(c *aeadCase, i int) {
	x := gen.Mix(h.Seed, uint64(i), 77)
	c.SealLay = int(x % 4)
	c.OpenLay = int(x >> 2 % 4)
	c.Prefix = []int{0, 0, 1, 5, 16, 21, 32, 0}[x>>4%8]
	c.Spare = []int{0, 0, 0, 1, 3, 16, 17, 32}[x>>7%8]
	c.Guard = []int{0, 1, 1, 2}[x>>10%4]
	c.Ctor = int(x >> 12 % 2)
}

// diagonal emits the two exhaustive length families of the design:
// (pt = L, aad in {0,1,13,16,17}) and (aad = L, pt in {0,1,16,33}), L = 0..maxL.
func diagonal(maxL int, f func(pt, aad int)) {
	for L := 0; L <= maxL; L++ {
		for _, a := range []int{0, 1, 13, 16, 17} {
			f(L, a)
		}
		for _, p := range []int{0, 1, 16, 33} {
			f(p, L)
		}
	}
}

var journalAll = true // everything here reaches assembly in the asm configurations

// TestC04_GCMDiagonal: the block's own GCM, every plaintext / AAD length of
// the diagonal families x every tag size 12..16 (nonce 12) x nonce sizes.
func TestC04_GCMDiagonal(t *testing.T) {
	h.MarkExhaustive("gcm-diagonal")
	nonceSizes := []int{1, 8, 13, 16, 17, 64}
	h.Sweep(t, h.P{Name: "gcm-diagonal", Journal: journalAll}, func(emit func(aeadCase)) {
		i := 0
		one := func(pt, aad, nl, tl int) {
			c := aeadCase{Kind: kGCM, NonceLen: nl, TagLen: tl, PtLen: pt, AadLen: aad, Seed: gen.Mix(h.Seed, uint64(i))}
			rotateLayout(&c, i)
			i++
			emit(c)
		}
		diagonal(300, func(pt, aad int) {
			for tl := 12; tl <= 16; tl++ {
				one(pt, aad, 12, tl)
			}
			if h.Thorough() {
				for nl := 1; nl <= 64; nl++ {
					if nl != 12 {
						one(pt, aad, nl, 16)
					}
				}
			} else {
				one(pt, aad, nonceSizes[(pt+aad)%len(nonceSizes)], 16)
				one(pt, aad, 1+(pt*7+aad*3)%64, 16)
			}
		})
	}, checkAEAD)
}

// TestC04_GCMGenericDiagonal: Go's generic GCM over the sm4 block (wrapped).
func TestC04_GCMGenericDiagonal(t *testing.T) {
	h.MarkExhaustive("gcm-wrapped-diagonal")
	h.Sweep(t, h.P{Name: "gcm-wrapped-diagonal", Journal: journalAll}, func(emit func(aeadCase)) {
		i := 0
		one := func(pt, aad, nl, tl int) {
			c := aeadCase{Kind: kGCMWrapped, NonceLen: nl, TagLen: tl, PtLen: pt, AadLen: aad, Seed: gen.Mix(h.Seed, uint64(i), 1)}
			rotateLayout(&c, i)
			i++
			emit(c)
		}
		diagonal(300, func(pt, aad int) {
			one(pt, aad, 12, 16)
			one(pt, aad, 12, 12+(pt+aad)%4)
			one(pt, aad, 1+(pt*5+aad)%64, 16)
		})
	}, checkAEAD)
}

var ccmNonces = []int{7, 8, 9, 10, 11, 12, 13}
var ccmTags = []int{4, 6, 8, 10, 12, 14, 16}

// TestC04_CCMDiagonal: CCM over the diagonal families, every (nonce, tag)
// combination in rotation, plus the AAD length-encoding boundaries for every
// combination.
func TestC04_CCMDiagonal(t *testing.T) {
	h.MarkExhaustive("ccm-diagonal")
	h.MarkExhaustive("ccm-aad-encoding")
	h.Sweep(t, h.P{Name: "ccm-diagonal", Journal: journalAll}, func(emit func(aeadCase)) {
		i := 0
		one := func(kind, pt, aad, nl, tl int) {
			c := aeadCase{Kind: kind, NonceLen: nl, TagLen: tl, PtLen: pt, AadLen: aad, Seed: gen.Mix(h.Seed, uint64(i), 2)}
			rotateLayout(&c, i)
			i++
			emit(c)
		}
		k := 0
		diagonal(300, func(pt, aad int) {
			one(kCCM, pt, aad, 12, 16)
			if h.Thorough() {
				for _, nl := range ccmNonces {
					one(kCCM, pt, aad, nl, ccmTags[(k+nl)%7])
				}
				for _, tl := range ccmTags {
					one(kCCM, pt, aad, ccmNonces[(k+tl/2)%7], tl)
				}
			} else {
				one(kCCM, pt, aad, ccmNonces[k%7], ccmTags[k/7%7])
			}
			one(kCCMWrapped, pt, aad, ccmNonces[(k+3)%7], ccmTags[(k/7+5)%7])
			k++
		})
	}, checkAEAD)
	// every nonce size x every tag size x AAD lengths around each change of
	// the length encoding (0 | 2 octets | 6 octets) and of the first block fill
	h.Sweep(t, h.P{Name: "ccm-aad-encoding", Journal: journalAll}, func(emit func(aeadCase)) {
		i := 0
		for _, aad := range []int{0, 1, 13, 14, 15, 0xfefe, 0xfeff, 0xff00, 0xff01, 0x10000, 0x1000a} {
			for _, nl := range ccmNonces {
				for _, tl := range ccmTags {
					kind := kCCM
					if i%5 == 4 {
						kind = kCCMWrapped
					}
					c := aeadCase{Kind: kind, NonceLen: nl, TagLen: tl, PtLen: []int{0, 1, 16, 33, 47}[i%5], AadLen: aad, Seed: gen.Mix(h.Seed, uint64(i), 3)}
					rotateLayout(&c, i)
					i++
					emit(c)
				}
			}
		}
	}, checkAEAD)
}

// ---------------------------------------------------------------- GCM counter wrap

// wrapCase builds a case whose derived counter block J0 has the low word
// 2^32-1-j: the nonce (16+tail bytes) is solved for with the reference field
// arithmetic, H = SM4_K(0^128) by the textbook SM4.
func wrapCase(kind int, seed uint64, j uint32, tailLen, ptLen, aadLen int) aeadCase {
	c := aeadCase{Kind: kind, NonceLen: 16 + tailLen, TagLen: 16, PtLen: ptLen, AadLen: aadLen, Seed: seed}
	key := gen.Fill(gen.Mix(c.Seed, 1), 16)
	var j0 fe
	copy(j0[:], gen.Fill(gen.Mix(seed, 10), 12))
	w := uint32(0xffffffff) - j
	j0[12], j0[13], j0[14], j0[15] = byte(w>>24), byte(w>>16), byte(w>>8), byte(w)
	c.Nonce = solveNonce(hashKey(ref.NewSM4(key)), j0, gen.Fill(gen.Mix(seed, 11), tailLen))
	return c
}

func TestC04_GCMCounterWrap(t *testing.T) {
	maxJ := h.Scale(40, 200)
	h.Sweep(t, h.P{Name: "gcm-ctr32-wrap", Journal: journalAll}, func(emit func(aeadCase)) {
		i := 0
		for j := 0; j <= maxJ; j++ {
			for _, tail := range []int{0, 1, 16, 48, 130} {
				for _, pl := range []int{16*j + 1, 16*j + 16, 16*j + 17, 16*(j+1) + 15, 16*(j+4) + 3, 16*(j+8) + 5, 16*(j+17) + 1} {
					kind := kGCM
					if i%4 == 3 {
						kind = kGCMWrapped
					}
					c := wrapCase(kind, gen.Mix(h.Seed, uint64(i), 4), uint32(j), tail, pl, []int{0, 5, 16}[i%3])
					rotateLayout(&c, i)
					i++
					emit(c)
				}
			}
		}
	}, func(c aeadCase, r *h.Rec) error {
		// the family is only worth its name if the counter really wraps
		key, nonce, _, _ := c.materialise()
		j0 := refJ0(hashKey(ref.NewSM4(key)), nonce)
		if uint64(low32(j0))+uint64((c.PtLen+15)/16) < 1<<32 {
			h.HarnessError("counter-wrap generator produced a case that does not wrap: J0 low word %#x, pt %d", low32(j0), c.PtLen)
		}
		return checkAEAD(c, r)
	})
}

// ---------------------------------------------------------------- random (rapid)

// maxLen is the largest drawn plaintext / AAD length: 4 KiB, 16 KiB in the
// thorough tier.
func maxLen() int { return h.Scale(4096, 16384) }

func drawLayout(rt *rapid.T, c *aeadCase) {
	c.SealLay = rapid.IntRange(0, 3).Draw(rt, "sealLay")
	c.OpenLay = rapid.IntRange(0, 3).Draw(rt, "openLay")
	c.Prefix = rapid.OneOf(rapid.Just(0), rapid.IntRange(0, 32)).Draw(rt, "prefix")
	c.Spare = rapid.OneOf(rapid.Just(0), rapid.IntRange(0, 32)).Draw(rt, "spare")
	c.Guard = rapid.SampledFrom([]int{0, 1, 1, 2}).Draw(rt, "guard")
	c.Ctor = rapid.IntRange(0, 1).Draw(rt, "ctor")
}

func genGCMCase(rt *rapid.T) aeadCase {
	c := aeadCase{Kind: kGCM, NonceLen: 12, TagLen: 16}
	if rapid.IntRange(0, 3).Draw(rt, "wrapped") == 0 {
		c.Kind = kGCMWrapped
	}
	c.PtLen = gen.LenClass(maxLen(), 16, 64, 128).Draw(rt, "pt")
	switch rapid.IntRange(0, 9).Draw(rt, "aadKind") {
	case 0, 1, 2:
		c.AadLen = gen.LenClass(maxLen(), 16, 64, 128).Draw(rt, "aad")
	case 3:
		c.AadLen = rapid.SampledFrom([]int{0, 13}).Draw(rt, "aadConst")
	default:
		c.AadLen = rapid.IntRange(0, 40).Draw(rt, "aadSmall")
	}
	switch rapid.IntRange(0, 9).Draw(rt, "family") {
	case 0, 1, 2, 3, 4: // the 12-byte fast path
	case 5, 6, 7:
		c.NonceLen = rapid.OneOf(rapid.IntRange(1, 64), rapid.IntRange(1, 64), rapid.IntRange(1, 64), rapid.IntRange(65, 300)).Draw(rt, "nonceLen")
	default:
		c.TagLen = rapid.IntRange(12, 16).Draw(rt, "tagLen")
		if rapid.IntRange(0, 2).Draw(rt, "shortTail") == 0 {
			// short tag and a tail shorter than 16-tag bytes
			c.PtLen = 16*rapid.IntRange(0, 40).Draw(rt, "blocks") + rapid.IntRange(1, 4).Draw(rt, "tail")
		}
	}
	c.Seed = rapid.Uint64().Draw(rt, "seed")
	drawLayout(rt, &c)
	return c
}

func TestC04_GCMRandom(t *testing.T) {
	h.Prop(t, h.P{Name: "gcm-random", Quick: 4000, Thorough: 120000, Journal: journalAll}, genGCMCase,
		func(c aeadCase, r *h.Rec) error {
			r.Label("pt mod 16 = %d", c.PtLen%16)
			return checkAEAD(c, r)
		})
}

func genCCMCase(rt *rapid.T) aeadCase {
	c := aeadCase{Kind: kCCM}
	if rapid.IntRange(0, 4).Draw(rt, "wrapped") == 0 {
		c.Kind = kCCMWrapped
	}
	c.NonceLen = rapid.SampledFrom([]int{12, 7, 8, 9, 10, 11, 12, 13}).Draw(rt, "nonceLen")
	c.TagLen = rapid.SampledFrom([]int{16, 4, 6, 8, 10, 12, 14, 16}).Draw(rt, "tagLen")
	c.PtLen = gen.LenClass(maxLen(), 16, 64, 128).Draw(rt, "pt")
	if c.NonceLen == 13 && rapid.IntRange(0, 19).Draw(rt, "maxMsg") == 0 {
		// L = 2: the longest messages the length field can express
		c.PtLen = rapid.SampledFrom([]int{65519, 65520, 65534, 65535}).Draw(rt, "ptMax")
	}
	switch rapid.IntRange(0, 19).Draw(rt, "aadKind") {
	case 0, 1, 2, 3, 4:
		c.AadLen = gen.LenClass(maxLen(), 16, 14, 30).Draw(rt, "aad")
	case 5, 6:
		c.AadLen = rapid.SampledFrom([]int{0xfefe, 0xfeff, 0xff00, 0xff01, 0x10000, 0x10001}).Draw(rt, "aadBoundary")
	case 7:
		c.AadLen = 0xff00 + rapid.IntRange(-40, 40).Draw(rt, "aadNear")
	default:
		c.AadLen = rapid.IntRange(0, 40).Draw(rt, "aadSmall")
	}
	c.Seed = rapid.Uint64().Draw(rt, "seed")
	drawLayout(rt, &c)
	return c
}

func TestC04_CCMRandom(t *testing.T) {
	h.Prop(t, h.P{Name: "ccm-random", Quick: 2500, Thorough: 60000, Journal: journalAll}, genCCMCase,
		func(c aeadCase, r *h.Rec) error {
			r.Label("pt mod 16 = %d", c.PtLen%16)
			return checkAEAD(c, r)
		})
}

// ---------------------------------------------------------------- lengths where a counter or length field grows a byte

type sizeFam struct{ kind, nonce, tag int }

// TestC04_LengthBoundaries: plaintext lengths at 256 blocks, 2^16 and 2^17
// bytes (thorough: 2^20, i.e. 65536 blocks) and AAD lengths at 2^12 and 2^16,
// where the CTR/GCM block counter, the CCM l(m) field, the GHASH length block
// and the CCM l(a) encoding gain a byte; in place and disjoint. The main
// families get the full plaintext x AAD product, every other (kind, nonce,
// tag) family every plaintext length with the AAD lengths in rotation.
func TestC04_LengthBoundaries(t *testing.T) {
	pts := []int{4095, 4096, 4097, 65535, 65536, 65537, 65552, 131073}
	aads := []int{0, 13, 4096, 65535, 65536, 65537}
	main := []sizeFam{{kGCM, 12, 16}, {kCCM, 12, 16}}
	others := []sizeFam{
		{kGCM, 12, 12}, {kGCM, 12, 13}, {kGCM, 12, 15}, {kGCM, 1, 16}, {kGCM, 16, 16}, {kGCM, 64, 16},
		{kGCMWrapped, 12, 16}, {kGCMWrapped, 12, 14}, {kGCMWrapped, 17, 16},
		{kCCM, 13, 8}, {kCCM, 7, 4}, {kCCM, 11, 10}, {kCCMWrapped, 12, 16}, {kCCMWrapped, 13, 6},
	}
	h.Sweep(t, h.P{Name: "length-boundaries", Journal: journalAll}, func(emit func(aeadCase)) {
		i := 0
		one := func(f sizeFam, pt, aad int, inPlace bool) {
			if !isGCM(f.kind) {
				if L := 15 - f.nonce; L < 8 && uint64(pt)>>(8*uint(L)) != 0 {
					return // the l(m) field of this nonce size cannot express the length
				}
			}
			c := aeadCase{Kind: f.kind, NonceLen: f.nonce, TagLen: f.tag, PtLen: pt, AadLen: aad, Seed: gen.Mix(h.Seed, uint64(i), 6)}
			rotateLayout(&c, i)
			if inPlace {
				c.SealLay, c.OpenLay = layInPlace, layInPlace
			} else {
				c.SealLay, c.OpenLay = []int{layPrefix, layNil}[i%2], []int{layNil, layPrefix}[i%2]
			}
			i++
			emit(c)
		}
		sweep := func(pts, aads []int) {
			for _, f := range main {
				for _, pt := range pts {
					for _, aad := range aads {
						one(f, pt, aad, false)
						one(f, pt, aad, true)
					}
				}
			}
			k := 0
			for _, f := range others {
				for _, pt := range pts {
					one(f, pt, aads[k%len(aads)], k%2 == 0)
					one(f, pt, aads[(k+1+k/len(aads))%len(aads)], k%2 == 1)
					k++
				}
			}
		}
		sweep(pts, aads)
		if h.Thorough() {
			sweep([]int{1<<20 - 1, 1 << 20, 1<<20 + 1, 1<<20 + 16}, []int{0, 13, 65536})
			sweep([]int{0, 17}, []int{1<<20 - 1, 1 << 20, 1<<20 + 1})
		}
	}, func(c aeadCase, r *h.Rec) error {
		r.Label("boundary-pt=%d", c.PtLen)
		r.Label("boundary-aad=%d", c.AadLen)
		return checkAEAD(c, r)
	})
}
